import SynKitModel.NautyIR
import SynKitProofs.NautyIROrder
import SynKitProofs.CanonLemmas
import SynKitProofs.GraphMatcherEngineLemmas
/-!
# Equivariance of the individualisation–refinement search (C08)

For two well-formed graphs related by a node map `g : H → G` that preserves the covered
attributes and adjacency (`IRIso`), every stage of the search on `H` is carried by `g` to the
corresponding stage on `G`: initial partition, signatures, refinement, target cell,
individualisation, the leaves of the search tree and their labels.
-/
set_option linter.unusedSimpArgs false
set_option linter.unusedVariables false
namespace SynKit.Canon
open SynKit SynKit.Match

/-- The edge attributes the search reads, as raw look-ups. -/
def irEdgeGet (a : Attrs) : List (Option Val) := irEdgeAttrNames.map (Dict.get? a)

/-- `g` maps the nodes of `H` bijectively onto the nodes of `G`, preserving the look-ups of the
covered node attributes and the adjacency together with the look-ups of the covered edge
attributes (absent stays absent). -/
structure IRIso (G H : LGraph) (g : Nat → Nat) : Prop where
  perm : (H.ids.map g).Perm G.ids
  node : ∀ p ∈ H.ids, ∀ k ∈ irNodeAttrNames, Dict.get? (G.attrs (g p)) k = Dict.get? (H.attrs p) k
  edge : ∀ p ∈ H.ids, ∀ q ∈ H.ids, (G.edge? (g p) (g q)).map irEdgeGet = (H.edge? p q).map irEdgeGet

/-- All cells consist of nodes of the graph. -/
def PartSub (ids : List Nat) (P : List (List Nat)) : Prop := ∀ c ∈ P, c ⊆ ids

section basics

theorem irNodeKey_congr (a b : Attrs) (h : ∀ k ∈ irNodeAttrNames, Dict.get? a k = Dict.get? b k) :
    irNodeKey a = irNodeKey b := by
  unfold irNodeKey
  apply List.map_congr_left
  intro k hk
  unfold Attrs.get Dict.getD
  rw [h k hk]

theorem irNodeLabKey_congr (a b : Attrs) (h : ∀ k ∈ irNodeAttrNames, Dict.get? a k = Dict.get? b k) :
    irNodeLabKey a = irNodeLabKey b := by
  unfold irNodeLabKey
  apply List.map_congr_left
  intro k hk
  unfold getD Dict.getD
  rw [h k hk]

theorem irEdgeSigKey_congr (a b : Attrs) (h : irEdgeGet a = irEdgeGet b) : irEdgeSigKey a = irEdgeSigKey b := by
  simp only [irEdgeGet, irEdgeAttrNames, List.map_cons, List.map_nil, List.cons.injEq, and_true] at h
  simp only [irEdgeSigKey, irEdgeAttrNames, List.map_cons, List.map_nil, Attrs.get, Dict.getD, h.1, h.2]

theorem irEdgeLabKey_congr (a b : Attrs) (h : irEdgeGet a = irEdgeGet b) : irEdgeLabKey a = irEdgeLabKey b := by
  simp only [irEdgeGet, irEdgeAttrNames, List.map_cons, List.map_nil, List.cons.injEq, and_true] at h
  simp only [irEdgeLabKey, irEdgeAttrNames, List.map_cons, List.map_nil, getD, Dict.getD, h.1, h.2]

theorem option_map_congr_of_map_eq {α β γ : Type} (φ : α → β) (ψ : α → γ)
    (hψ : ∀ a b, φ a = φ b → ψ a = ψ b) (x y : Option α) (h : x.map φ = y.map φ) : x.map ψ = y.map ψ := by
  cases x <;> cases y <;> simp_all
  exact hψ _ _ h

theorem forall₂_and_left_mem {α β : Type} {R : α → β → Prop} {Q : α → Prop} {l : List α} {l' : List β}
    (h : List.Forall₂ R l l') (hq : ∀ a ∈ l, Q a) : List.Forall₂ (fun a b => Q a ∧ R a b) l l' := by
  induction h with
  | nil => exact List.Forall₂.nil
  | cons hab _ ih =>
    exact List.Forall₂.cons ⟨hq _ List.mem_cons_self, hab⟩ (ih fun a ha => hq a (List.mem_cons_of_mem _ ha))

theorem forall₂_map_eq {α β γ : Type} {R : α → β → Prop} {f : α → γ} {f' : β → γ} {l : List α} {l' : List β}
    (h : List.Forall₂ R l l') (hf : ∀ a b, R a b → f a = f' b) : l.map f = l'.map f' := by
  induction h with
  | nil => rfl
  | cons hab _ ih => simp only [List.map_cons, hf _ _ hab, ih]

end basics

section chain
variable {G H : LGraph} {g : Nat → Nat}

theorem IRIso.inj (hG : G.WF) (h : IRIso G H g) : ∀ a ∈ H.ids, ∀ b ∈ H.ids, g a = g b → a = b :=
  List.inj_on_of_nodup_map (h.perm.nodup_iff.2 hG.1)

theorem IRIso.mem (h : IRIso G H g) {p : Nat} (hp : p ∈ H.ids) : g p ∈ G.ids :=
  h.perm.mem_iff.1 (List.mem_map.2 ⟨p, hp, rfl⟩)

theorem IRIso.surj (h : IRIso G H g) {v : Nat} (hv : v ∈ G.ids) : ∃ p ∈ H.ids, g p = v := by
  have := h.perm.mem_iff.2 hv
  obtain ⟨p, hp, e⟩ := List.mem_map.1 this
  exact ⟨p, hp, e⟩

theorem IRIso.length_eq (h : IRIso G H g) : G.nodes.length = H.nodes.length := by
  have := h.perm.length_eq
  simpa [LGraph.ids] using this.symm

theorem IRIso.hasEdge (h : IRIso G H g) {p q : Nat} (hp : p ∈ H.ids) (hq : q ∈ H.ids) :
    G.hasEdge (g p) (g q) = H.hasEdge p q := by
  unfold LGraph.hasEdge
  have := congrArg Option.isSome (h.edge p hp q hq)
  simpa using this

theorem neighbors_sub_ids (hG : G.WF) {v w : Nat} (h : w ∈ G.neighbors v) : w ∈ G.ids := by
  rw [SynKit.GME.mem_neighbors] at h
  unfold LGraph.hasEdge at h
  cases he : G.edge? v w with
  | none => rw [he] at h; simp at h
  | some a =>
    obtain ⟨e, hem, hm, _⟩ := edgeRel_of_edge? G v w a he
    have := hG.2.1 e hem
    rcases hm with ⟨_, h2⟩ | ⟨h1, _⟩
    · rw [← h2]; exact this.2.1
    · rw [← h1]; exact this.1

theorem IRIso.neighbors (hG : G.WF) (hH : H.WF) (h : IRIso G H g) {p : Nat} (hp : p ∈ H.ids) :
    ((H.neighbors p).map g).Perm (G.neighbors (g p)) := by
  have hinj := h.inj hG
  have hnd : ((H.neighbors p).map g).Nodup := by
    apply List.Nodup.map_on _ (SynKit.GME.neighbors_nodup H hH p)
    intro a ha b hb e
    exact hinj a (neighbors_sub_ids hH ha) b (neighbors_sub_ids hH hb) e
  rw [List.perm_ext_iff_of_nodup hnd (SynKit.GME.neighbors_nodup G hG (g p))]
  intro x
  constructor
  · intro hx
    obtain ⟨w, hw, rfl⟩ := List.mem_map.1 hx
    rw [SynKit.GME.mem_neighbors, h.hasEdge hp (neighbors_sub_ids hH hw), ← SynKit.GME.mem_neighbors]
    exact hw
  · intro hx
    obtain ⟨w, hw, rfl⟩ := h.surj (neighbors_sub_ids hG hx)
    refine List.mem_map.2 ⟨w, ?_, rfl⟩
    rw [SynKit.GME.mem_neighbors, ← h.hasEdge hp hw, ← SynKit.GME.mem_neighbors]
    exact hx

/-- membership in corresponding cells -/
theorem cellRel_contains (hinj : ∀ a ∈ H.ids, ∀ b ∈ H.ids, g a = g b → a = b)
    {c' c : List Nat} (hsub : c' ⊆ H.ids) (hc : CellRel g c' c) {w : Nat} (hw : w ∈ H.ids) :
    c.contains (g w) = c'.contains w := by
  rw [Bool.eq_iff_iff, List.contains_iff_mem, List.contains_iff_mem, ← hc.mem_iff, List.mem_map]
  constructor
  · rintro ⟨w', hw', e⟩
    rw [← hinj w' (hsub hw') w hw e]
    exact hw'
  · intro h
    exact ⟨w, h, rfl⟩

/-- **Signatures are invariant.** -/
theorem irSig_rel (hG : G.WF) (hH : H.WF) (h : IRIso G H g) {P' P : List (List Nat)}
    (hP : PartRel g P' P) (hsub : PartSub H.ids P') {p : Nat} (hp : p ∈ H.ids) :
    irSig G P (g p) = irSig H P' p := by
  have hN := h.neighbors hG hH hp
  have hinj := h.inj hG
  apply IRSig.ext'
  · exact irNodeKey_congr _ _ (h.node p hp)
  · simp only [irSig]
    have := hN.length_eq
    simpa using this.symm
  · simp only [irSig]
    symm
    apply forall₂_map_eq (forall₂_and_left_mem hP hsub)
    intro c' c ⟨hs, hc⟩
    have e1 : ((G.neighbors (g p)).filter fun w => c.contains w).length =
        (((H.neighbors p).map g).filter fun w => c.contains w).length := (hN.filter _).length_eq.symm
    rw [e1, List.filter_map, List.length_map]
    congr 1
    apply List.filter_congr
    intro w hw
    simp only [Function.comp_apply]
    exact (cellRel_contains hinj hs hc (neighbors_sub_ids hH hw)).symm
  · simp only [irSig]
    apply sortBy_eq_of_perm_strictTotal Val.ltList Val.ltList_strictTotal
    refine (hN.map _).symm.trans ?_
    rw [List.map_map]
    apply List.Perm.of_eq
    apply List.map_congr_left
    intro w hw
    simp only [Function.comp_apply]
    have hw' := neighbors_sub_ids hH hw
    have he := h.edge p hp w hw'
    cases hx : G.edge? (g p) (g w) <;> cases hy : H.edge? p w <;> rw [hx, hy] at he <;> simp at he
    · simp only [Option.getD_some]
      exact irEdgeSigKey_congr _ _ he

theorem irSplitBy_sub {κ : Type} [DecidableEq κ] (lt : κ → κ → Bool) (key : Nat → κ) (c : List Nat) :
    ∀ d ∈ irSplitBy lt key c, d ⊆ c := by
  intro d hd
  unfold irSplitBy at hd
  obtain ⟨k, _, rfl⟩ := List.mem_map.1 hd
  intro x hx
  rw [mem_sortNat] at hx
  exact (List.mem_filter.1 hx).1

theorem irRefineCell_sub (G : LGraph) (P : List (List Nat)) (c : List Nat) :
    ∀ d ∈ irRefineCell G P c, d ⊆ c := by
  intro d hd
  unfold irRefineCell at hd
  split at hd
  · simp only [List.mem_singleton] at hd; subst hd; exact fun _ h => h
  · simp only at hd
    split at hd
    · exact irSplitBy_sub _ _ _ d hd
    · simp only [List.mem_singleton] at hd; subst hd; exact fun _ h => h

theorem irRefineStep_sub (G : LGraph) (ids : List Nat) (P : List (List Nat)) (hs : PartSub ids P) :
    PartSub ids (irRefineStep G P) := by
  intro d hd
  unfold irRefineStep at hd
  obtain ⟨c, hc, hdc⟩ := List.mem_flatMap.1 hd
  exact fun x hx => hs c hc (irRefineCell_sub G P c d hdc hx)

theorem irRefineLoop_sub (G : LGraph) (ids : List Nat) (k : Nat) (P : List (List Nat)) (hs : PartSub ids P) :
    PartSub ids (irRefineLoop G k P) := by
  induction k generalizing P with
  | zero => exact hs
  | succ k ih =>
    simp only [irRefineLoop]
    split
    · exact irRefineStep_sub G ids P hs
    · exact ih _ (irRefineStep_sub G ids P hs)

theorem irRefine_sub (G : LGraph) (ids : List Nat) (P : List (List Nat)) (hs : PartSub ids P) :
    PartSub ids (irRefine G P) := irRefineLoop_sub G ids _ P hs

theorem irRefineCell_rel (hG : G.WF) (hH : H.WF) (h : IRIso G H g) {P' P : List (List Nat)}
    (hP : PartRel g P' P) (hsub : PartSub H.ids P') {c' c : List Nat} (hs : c' ⊆ H.ids) (hc : CellRel g c' c) :
    PartRel g (irRefineCell H P' c') (irRefineCell G P c) := by
  have hparts : PartRel g (irSplitBy IRSig.lt (irSig H P') c') (irSplitBy IRSig.lt (irSig G P) c) :=
    irSplitBy_rel IRSig.lt IRSig.lt_strictTotal g _ _ c' c hc
      (fun w hw => irSig_rel hG hH h hP hsub (hs hw))
  have hl := hparts.length_eq
  unfold irRefineCell
  rw [hc.length_eq]
  split
  · exact List.Forall₂.cons hc List.Forall₂.nil
  · simp only [hl]
    split
    · exact hparts
    · exact List.Forall₂.cons hc List.Forall₂.nil

/-- **One refinement pass is equivariant.** -/
theorem irRefineStep_rel (hG : G.WF) (hH : H.WF) (h : IRIso G H g) {P' P : List (List Nat)}
    (hP : PartRel g P' P) (hsub : PartSub H.ids P') :
    PartRel g (irRefineStep H P') (irRefineStep G P) := by
  unfold irRefineStep
  apply forall₂_flatMap (forall₂_and_left_mem hP hsub)
  intro c' c ⟨hs, hc⟩
  exact irRefineCell_rel hG hH h hP hsub hs hc

theorem irRefineLoop_rel (hG : G.WF) (hH : H.WF) (h : IRIso G H g) (k : Nat) {P' P : List (List Nat)}
    (hP : PartRel g P' P) (hsub : PartSub H.ids P') :
    PartRel g (irRefineLoop H k P') (irRefineLoop G k P) := by
  induction k generalizing P' P with
  | zero => exact hP
  | succ k ih =>
    have hstep := irRefineStep_rel hG hH h hP hsub
    simp only [irRefineLoop]
    rw [hstep.length_eq, hP.length_eq]
    split
    · exact hstep
    · exact ih hstep (irRefineStep_sub H H.ids P' hsub)

/-- **Refinement is equivariant**: refining corresponding partitions of the two graphs gives
corresponding partitions. -/
theorem irRefine_rel (hG : G.WF) (hH : H.WF) (h : IRIso G H g) {P' P : List (List Nat)}
    (hP : PartRel g P' P) (hsub : PartSub H.ids P') :
    PartRel g (irRefine H P') (irRefine G P) := by
  unfold irRefine
  rw [h.length_eq]
  exact irRefineLoop_rel hG hH h _ hP hsub

/-- **The initial partitions correspond.** -/
theorem irInitialPartition_rel (h : IRIso G H g) :
    PartRel g (irInitialPartition H) (irInitialPartition G) := by
  unfold irInitialPartition
  apply irSplitBy_rel Val.ltList Val.ltList_strictTotal g _ _ H.ids G.ids h.perm
  intro w hw
  exact irNodeKey_congr _ _ (h.node w hw)

theorem irInitialPartition_sub (G : LGraph) : PartSub G.ids (irInitialPartition G) :=
  irSplitBy_sub _ _ _

/-! ### Target cell, individualisation, leaves -/

theorem irIsDiscrete_rel {P' P : List (List Nat)} (hP : PartRel g P' P) : irIsDiscrete P' = irIsDiscrete P := by
  unfold irIsDiscrete
  induction hP with
  | nil => rfl
  | cons hab _ ih => simp only [List.all_cons, hab.length_eq, ih]

theorem flatten_rel_of_discrete {P' P : List (List Nat)} (hP : PartRel g P' P) (hd : irIsDiscrete P' = true) :
    P'.flatten.map g = P.flatten := by
  unfold irIsDiscrete at hd
  induction hP with
  | nil => rfl
  | @cons c' c _ _ hab _ ih =>
    simp only [List.all_cons, Bool.and_eq_true, beq_iff_eq] at hd
    simp only [List.flatten_cons, List.map_append, ih hd.2]
    congr 1
    have hl := hab.length_eq
    match c', c, hd.1, hl, hab with
    | [x], [y], _, _, hab =>
      have := hab.mem_iff (a := y)
      simp only [List.map_cons, List.map_nil, List.mem_singleton, iff_true] at this
      simp [this]

theorem irTargetCell_rel {P' P : List (List Nat)} (hP : PartRel g P' P) :
    (irTargetCell P' = none → irTargetCell P = none) ∧
    (∀ pre' c' post', irTargetCell P' = some (pre', c', post') →
      ∃ pre c post, irTargetCell P = some (pre, c, post) ∧ PartRel g pre' pre ∧ CellRel g c' c ∧ PartRel g post' post) := by
  induction hP with
  | nil => simp [irTargetCell]
  | @cons c' c l' l hab hrest ih =>
    simp only [irTargetCell, hab.length_eq]
    split
    · refine ⟨by simp, ?_⟩
      intro pre' d' post' e
      simp only [Option.some.injEq, Prod.mk.injEq] at e
      obtain ⟨rfl, rfl, rfl⟩ := e
      exact ⟨[], c, l, rfl, List.Forall₂.nil, hab, hrest⟩
    · refine ⟨?_, ?_⟩
      · intro e
        simp only [Option.map_eq_none_iff] at e
        simp [ih.1 e]
      · intro pre' d' post' e
        simp only [Option.map_eq_some_iff] at e
        obtain ⟨⟨p1, d1, q1⟩, he, hr⟩ := e
        simp only [Prod.mk.injEq] at hr
        obtain ⟨rfl, rfl, rfl⟩ := hr
        obtain ⟨pre, d, post, h1, h2, h3, h4⟩ := ih.2 _ _ _ he
        exact ⟨c :: pre, d, post, by simp [h1], List.Forall₂.cons hab h2, h3, h4⟩

theorem irTargetCell_mem {P pre post : List (List Nat)} {c : List Nat} (h : irTargetCell P = some (pre, c, post)) :
    P = pre ++ c :: post := by
  induction P generalizing pre with
  | nil => simp [irTargetCell] at h
  | cons d rest ih =>
    simp only [irTargetCell] at h
    split at h
    · simp only [Option.some.injEq, Prod.mk.injEq] at h
      obtain ⟨rfl, rfl, rfl⟩ := h
      rfl
    · simp only [Option.map_eq_some_iff] at h
      obtain ⟨⟨p1, d1, q1⟩, he, hr⟩ := h
      simp only [Prod.mk.injEq] at hr
      obtain ⟨rfl, rfl, rfl⟩ := hr
      rw [ih he]
      rfl

theorem irIndividualise_rel (hinj : ∀ a ∈ H.ids, ∀ b ∈ H.ids, g a = g b → a = b)
    {pre' pre post' post : List (List Nat)} {c' c : List Nat}
    (hpre : PartRel g pre' pre) (hc : CellRel g c' c) (hpost : PartRel g post' post)
    (hs : c' ⊆ H.ids) {v' : Nat} (hv : v' ∈ c') :
    PartRel g (irIndividualise pre' c' post' v') (irIndividualise pre c post (g v')) := by
  have hrest : CellRel g (c'.filter fun w => decide (w ≠ v')) (c.filter fun w => decide (w ≠ g v')) := by
    unfold CellRel
    have e : (c'.filter fun w => decide (w ≠ v')).map g = (c'.map g).filter fun w => decide (w ≠ g v') := by
      rw [List.filter_map]
      congr 1
      apply List.filter_congr
      intro w hw
      simp only [Function.comp_apply, ne_eq, decide_not, Bool.not_eq_eq_eq_not, Bool.not_not,
        decide_eq_decide]
      constructor
      · intro e; rw [e]
      · intro e; exact hinj w (hs hw) v' (hs hv) e
    rw [e]
    exact hc.filter _
  unfold irIndividualise
  simp only
  have hl := hrest.length_eq
  have hem : (c'.filter fun w => decide (w ≠ v')).isEmpty = (c.filter fun w => decide (w ≠ g v')).isEmpty := by
    rw [Bool.eq_iff_iff, List.isEmpty_iff, List.isEmpty_iff, ← List.length_eq_zero_iff,
      ← List.length_eq_zero_iff, hl]
  rw [hem]
  refine List.rel_append (List.rel_append (List.rel_append hpre ?_) ?_) hpost
  · refine List.Forall₂.cons ?_ List.Forall₂.nil
    unfold CellRel
    simp
  · split
    · exact List.Forall₂.nil
    · refine List.Forall₂.cons ?_ List.Forall₂.nil
      unfold CellRel
      exact ((sortNat_perm _).map g).trans (hrest.trans (sortNat_perm _).symm)

theorem irIndividualise_sub {ids : List Nat} {pre post : List (List Nat)} {c : List Nat} {v : Nat}
    (hs : PartSub ids (pre ++ c :: post)) (hv : v ∈ c) : PartSub ids (irIndividualise pre c post v) := by
  have hc : c ⊆ ids := hs c (by simp)
  intro d hd
  unfold irIndividualise at hd
  simp only [List.append_assoc, List.mem_append, List.mem_singleton] at hd
  rcases hd with hd | hd | hd | hd
  · exact hs d (by simp [hd])
  · subst hd
    intro x hx
    simp only [List.mem_singleton] at hx
    subst hx
    exact hc hv
  · split at hd
    · simp at hd
    · simp only [List.mem_singleton] at hd
      subst hd
      intro x hx
      rw [mem_sortNat] at hx
      exact hc (List.mem_filter.1 hx).1
  · exact hs d (by simp [hd])

theorem mem_irChildren (G : LGraph) (c : List Nat) (v : Nat) : v ∈ irChildren G c ↔ v ∈ c := by
  unfold irChildren
  exact mem_sortBy _ _ _

/-- **The leaves of the search trees correspond** (as sets; the order in which children are
tried is not preserved, and does not need to be). -/
theorem irLeaves_rel (hG : G.WF) (hH : H.WF) (h : IRIso G H g) (fuel : Nat) {P' P : List (List Nat)}
    (hP : PartRel g P' P) (hsub : PartSub H.ids P') (pfx' : List Nat) :
    ∀ l, l ∈ irLeaves G fuel P (pfx'.map g) ↔
      ∃ l' ∈ irLeaves H fuel P' pfx', l = (l'.1.map g, l'.2.map g) := by
  induction fuel generalizing P' P pfx' with
  | zero => intro l; simp [irLeaves]
  | succ fuel ih =>
    intro l
    have hR := irRefine_rel hG hH h hP hsub
    have hRs := irRefine_sub H H.ids P' hsub
    simp only [irLeaves]
    rw [← irIsDiscrete_rel hR]
    split
    · rename_i hd
      rw [← flatten_rel_of_discrete hR hd]
      simp
    · obtain ⟨hnone, hsome⟩ := irTargetCell_rel hR
      cases ht : irTargetCell (irRefine H P') with
      | none => simp [hnone ht]
      | some r =>
        obtain ⟨pre', c', post'⟩ := r
        obtain ⟨pre, c, post, e, hpre, hc, hpost⟩ := hsome _ _ _ ht
        rw [e]
        simp only [List.mem_flatMap, mem_irChildren]
        have hmem := irTargetCell_mem ht
        have hcs : c' ⊆ H.ids := hRs c' (by rw [hmem]; simp)
        constructor
        · rintro ⟨v, hv, hl⟩
          obtain ⟨v', hv', rfl⟩ := List.mem_map.1 (hc.mem_iff.2 hv)
          have hrel := irIndividualise_rel (h.inj hG) hpre hc hpost hcs hv'
          have hsub' : PartSub H.ids (irIndividualise pre' c' post' v') :=
            irIndividualise_sub (by rw [← hmem]; exact hRs) hv'
          have := (ih hrel hsub' (pfx' ++ [v']) l).1 (by simpa using hl)
          obtain ⟨l', hl', rfl⟩ := this
          exact ⟨l', ⟨v', hv', hl'⟩, rfl⟩
        · rintro ⟨l', ⟨v', hv', hl'⟩, rfl⟩
          have hrel := irIndividualise_rel (h.inj hG) hpre hc hpost hcs hv'
          have hsub' : PartSub H.ids (irIndividualise pre' c' post' v') :=
            irIndividualise_sub (by rw [← hmem]; exact hRs) hv'
          refine ⟨g v', hc.mem_iff.1 (List.mem_map.2 ⟨v', hv', rfl⟩), ?_⟩
          have := (ih hrel hsub' (pfx' ++ [v']) (l'.1.map g, l'.2.map g)).2 ⟨l', hl', rfl⟩
          simpa using this

/-- The nodes occurring in leaves are nodes of the graph. -/
theorem irLeaves_sub (G : LGraph) (ids : List Nat) (fuel : Nat) (P : List (List Nat)) (pfx : List Nat)
    (hsub : PartSub ids P) (hp : pfx ⊆ ids) : ∀ l ∈ irLeaves G fuel P pfx, l.1 ⊆ ids ∧ l.2 ⊆ ids := by
  induction fuel generalizing P pfx with
  | zero => intro l hl; simp [irLeaves] at hl
  | succ fuel ih =>
    intro l hl
    have hRs := irRefine_sub G ids P hsub
    simp only [irLeaves] at hl
    split at hl
    · simp only [List.mem_singleton] at hl
      subst hl
      refine ⟨hp, ?_⟩
      intro x hx
      obtain ⟨c, hc, hxc⟩ := List.mem_flatten.1 hx
      exact hRs c hc hxc
    · cases ht : irTargetCell (irRefine G P) with
      | none => rw [ht] at hl; simp at hl
      | some r =>
        obtain ⟨pre, c, post⟩ := r
        rw [ht] at hl
        simp only [List.mem_flatMap, mem_irChildren] at hl
        obtain ⟨v, hv, hl⟩ := hl
        have hmem := irTargetCell_mem ht
        have hcs : c ⊆ ids := hRs c (by rw [hmem]; simp)
        refine ih _ _ (irIndividualise_sub (by rw [← hmem]; exact hRs) hv) ?_ l hl
        intro x hx
        rcases List.mem_append.1 hx with hx | hx
        · exact hp hx
        · simp only [List.mem_singleton] at hx; subst hx; exact hcs hv

/-! ### Labels -/

theorem irNodeSeg_rel (h : IRIso G H g) (s : List Nat) (hs : s ⊆ H.ids) :
    irNodeSeg G (s.map g) = irNodeSeg H s := by
  unfold irNodeSeg
  rw [List.map_map]
  apply List.map_congr_left
  intro v hv
  exact irNodeLabKey_congr _ _ (h.node v (hs hv))

theorem irEdgeBits_rel (h : IRIso G H g) (s : List Nat) (hs : s ⊆ H.ids) :
    irEdgeBits G (s.map g) = irEdgeBits H s := by
  induction s with
  | nil => rfl
  | cons v rest ih =>
    have hv : v ∈ H.ids := hs List.mem_cons_self
    have hr : rest ⊆ H.ids := fun x hx => hs (List.mem_cons_of_mem _ hx)
    simp only [List.map_cons, irEdgeBits, ih hr, List.map_map]
    congr 1
    apply List.map_congr_left
    intro w hw
    simp only [Function.comp_apply]
    exact option_map_congr_of_map_eq irEdgeGet irEdgeLabKey irEdgeLabKey_congr _ _ (h.edge v hv w (hr hw))

/-- **Leaf labels are invariant.** -/
theorem irBuildLabel_rel (h : IRIso G H g) (s : List Nat) (hs : s ⊆ H.ids) :
    irBuildLabel G (s.map g) = irBuildLabel H s := by
  unfold irBuildLabel
  rw [irNodeSeg_rel h s hs, irEdgeBits_rel h s hs]

/-- The two search trees have the same set of leaf labels. -/
theorem irLeafLabels_rel (hG : G.WF) (hH : H.WF) (h : IRIso G H g) (k : IRLabel) :
    (∃ a ∈ irLeaves G (G.nodes.length + 1) (irInitialPartition G) [], irLeafLabel G a = k) ↔
    (∃ b ∈ irLeaves H (H.nodes.length + 1) (irInitialPartition H) [], irLeafLabel H b = k) := by
  have hrel := irLeaves_rel hG hH h (H.nodes.length + 1) (irInitialPartition_rel h) (irInitialPartition_sub H) []
  rw [← h.length_eq] at hrel
  simp only [List.map_nil] at hrel
  have hlab : ∀ b ∈ irLeaves H (G.nodes.length + 1) (irInitialPartition H) [],
      irLeafLabel G (b.1.map g, b.2.map g) = irLeafLabel H b := by
    intro b hb
    have hs := irLeaves_sub H H.ids _ _ [] (irInitialPartition_sub H) (by simp) b hb
    unfold irLeafLabel
    simp only
    rw [← List.map_append]
    apply irBuildLabel_rel h
    intro x hx
    rcases List.mem_append.1 hx with hx | hx
    · exact hs.1 hx
    · exact hs.2 hx
  rw [← h.length_eq]
  constructor
  · rintro ⟨a, ha, rfl⟩
    obtain ⟨b, hb, rfl⟩ := (hrel a).1 ha
    exact ⟨b, hb, (hlab b hb).symm⟩
  · rintro ⟨b, hb, rfl⟩
    exact ⟨_, (hrel _).2 ⟨b, hb, rfl⟩, hlab b hb⟩

end chain

end SynKit.Canon

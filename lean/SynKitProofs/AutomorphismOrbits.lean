import SynKitProofs.AutomorphismGroup
/-! Orbit bookkeeping of `_analyze_component` and exactness of counts and orbits (C11). -/
namespace SynKit.Aut
open SynKit SynKit.Match

/-- `v ∈ orbit_sets[u]` -/
def Rel (s : OrbitSets) (u v : Nat) : Prop := ∃ kv ∈ s, kv.1 = u ∧ v ∈ kv.2

theorem rel_addTo (s : OrbitSets) (a b u v : Nat) :
    Rel (addTo s a b) u v ↔ Rel s u v ∨ (u = a ∧ v = b) := by
  induction s with
  | nil =>
    simp only [addTo, Rel, List.mem_singleton, List.not_mem_nil, false_and, exists_false, false_or]
    constructor
    · rintro ⟨kv, rfl, h1, h2⟩; exact ⟨h1.symm, by simpa using h2⟩
    · rintro ⟨rfl, rfl⟩; exact ⟨_, rfl, rfl, by simp⟩
  | cons kv rest ih =>
    obtain ⟨k, vs⟩ := kv
    simp only [addTo]
    by_cases hk : k = a
    · subst hk
      simp only [if_true, Rel, List.mem_cons, exists_eq_or_imp]
      constructor
      · rintro (⟨h1, h2⟩ | h)
        · by_cases hb : b ∈ vs
          · simp only [hb, if_true] at h2; exact Or.inl (Or.inl ⟨h1, h2⟩)
          · simp only [hb, if_false, List.mem_append, List.mem_singleton] at h2
            rcases h2 with h2 | h2
            · exact Or.inl (Or.inl ⟨h1, h2⟩)
            · exact Or.inr ⟨h1.symm, h2⟩
        · exact Or.inl (Or.inr h)
      · rintro ((⟨h1, h2⟩ | h) | ⟨h1, h2⟩)
        · refine Or.inl ⟨h1, ?_⟩
          by_cases hb : b ∈ vs
          · simpa [hb] using h2
          · simp [hb, h2]
        · exact Or.inr h
        · refine Or.inl ⟨h1.symm, ?_⟩
          subst h2
          by_cases hb : v ∈ vs
          · simp [hb]
          · simp [hb]
    · simp only [hk, if_false]
      have : ∀ s', Rel ((k, vs) :: s') u v ↔ (k = u ∧ v ∈ vs) ∨ Rel s' u v := by
        intro s'; simp [Rel]
      rw [this, this, ih]
      constructor
      · rintro (h | h | h)
        · exact Or.inl (Or.inl h)
        · exact Or.inl (Or.inr h)
        · exact Or.inr h
      · rintro ((h | h) | h)
        · exact Or.inl h
        · exact Or.inr (Or.inl h)
        · exact Or.inr (Or.inr h)

theorem keys_addTo (s : OrbitSets) (a b : Nat) :
    (addTo s a b).map (·.1) = if a ∈ s.map (·.1) then s.map (·.1) else s.map (·.1) ++ [a] := by
  induction s with
  | nil => simp [addTo]
  | cons kv rest ih =>
    obtain ⟨k, vs⟩ := kv
    simp only [addTo]
    by_cases hk : k = a
    · subst hk; simp
    · simp only [hk, if_false, List.map_cons, ih, List.mem_cons]
      have : ¬ a = k := fun h => hk h.symm
      by_cases hm : a ∈ rest.map (·.1)
      · simp [hm]
      · simp [hm, this]

theorem keysNodup_addTo (s : OrbitSets) (a b : Nat) (h : (s.map (·.1)).Nodup) :
    ((addTo s a b).map (·.1)).Nodup := by
  rw [keys_addTo]
  split
  · exact h
  · rename_i hm
    exact List.nodup_append.2 ⟨h, by simp, by
      intro x hx y hy
      simp only [List.mem_singleton] at hy
      subst hy
      exact fun e => hm (e ▸ hx)⟩

theorem rel_addPair (s : OrbitSets) (p : Nat × Nat) (u v : Nat) :
    Rel (addPair s p) u v ↔ Rel s u v ∨ (u = p.1 ∧ v = p.2) ∨ (u = p.2 ∧ v = p.1) := by
  unfold addPair
  rw [rel_addTo, rel_addTo]
  constructor
  · rintro ((h | h) | h)
    · exact Or.inl h
    · exact Or.inr (Or.inl h)
    · exact Or.inr (Or.inr h)
  · rintro (h | h | h)
    · exact Or.inl (Or.inl h)
    · exact Or.inl (Or.inr h)
    · exact Or.inr h

theorem rel_foldAuto (auto : Mapping) : ∀ (s : OrbitSets) (u v : Nat),
    Rel (auto.foldl addPair s) u v ↔ Rel s u v ∨ (u, v) ∈ auto ∨ (v, u) ∈ auto := by
  induction auto with
  | nil => intro s u v; simp
  | cons p ps ih =>
    intro s u v
    simp only [List.foldl_cons, ih, rel_addPair, List.mem_cons]
    obtain ⟨p1, p2⟩ := p
    simp only [Prod.mk.injEq]
    constructor
    · rintro ((h | h | h) | h | h)
      · exact Or.inl h
      · exact Or.inr (Or.inl (Or.inl h))
      · exact Or.inr (Or.inr (Or.inl ⟨h.2, h.1⟩))
      · exact Or.inr (Or.inl (Or.inr h))
      · exact Or.inr (Or.inr (Or.inr h))
    · rintro (h | (h | h) | (h | h))
      · exact Or.inl (Or.inl h)
      · exact Or.inl (Or.inr (Or.inl h))
      · exact Or.inr (Or.inl h)
      · exact Or.inl (Or.inr (Or.inr ⟨h.2, h.1⟩))
      · exact Or.inr (Or.inr h)

theorem keysNodup_foldAuto (auto : Mapping) : ∀ (s : OrbitSets), (s.map (·.1)).Nodup →
    ((auto.foldl addPair s).map (·.1)).Nodup := by
  induction auto with
  | nil => intro s h; exact h
  | cons p ps ih =>
    intro s h
    simp only [List.foldl_cons]
    apply ih
    unfold addPair
    exact keysNodup_addTo _ _ _ (keysNodup_addTo _ _ _ h)

theorem rel_foldAutos (autos : List Mapping) : ∀ (s : OrbitSets) (u v : Nat),
    Rel (autos.foldl (fun s auto => auto.foldl addPair s) s) u v ↔
      Rel s u v ∨ ∃ auto ∈ autos, (u, v) ∈ auto ∨ (v, u) ∈ auto := by
  induction autos with
  | nil => intro s u v; simp
  | cons a as ih =>
    intro s u v
    simp only [List.foldl_cons, ih, rel_foldAuto, List.mem_cons, exists_eq_or_imp]
    constructor
    · rintro ((h | h) | h)
      · exact Or.inl h
      · exact Or.inr (Or.inl h)
      · exact Or.inr (Or.inr h)
    · rintro (h | h | h)
      · exact Or.inl (Or.inl h)
      · exact Or.inl (Or.inr h)
      · exact Or.inr h

theorem keysNodup_foldAutos (autos : List Mapping) : ∀ (s : OrbitSets), (s.map (·.1)).Nodup →
    ((autos.foldl (fun s auto => auto.foldl addPair s) s).map (·.1)).Nodup := by
  induction autos with
  | nil => intro s h; exact h
  | cons a as ih => intro s h; exact ih _ (keysNodup_foldAuto a s h)

theorem rel_orbitSets (autos : List Mapping) (u v : Nat) :
    Rel (orbitSets autos) u v ↔ ∃ auto ∈ autos, (u, v) ∈ auto ∨ (v, u) ∈ auto := by
  unfold orbitSets
  rw [rel_foldAutos]
  simp [Rel]

theorem keysNodup_orbitSets (autos : List Mapping) : ((orbitSets autos).map (·.1)).Nodup :=
  keysNodup_foldAutos autos [] (by simp)

/-- with unique keys, two members of `orbit_sets[u]` lie in one stored set -/
theorem rel_same {s : OrbitSets} (hn : (s.map (·.1)).Nodup) {u v w : Nat} (h1 : Rel s u v) (h2 : Rel s u w) :
    ∃ kv ∈ s, v ∈ kv.2 ∧ w ∈ kv.2 := by
  obtain ⟨kv, hkv, hk, hv⟩ := h1
  obtain ⟨kv', hkv', hk', hw⟩ := h2
  have : kv = kv' := List.inj_on_of_nodup_map hn hkv hkv' (by rw [hk, hk'])
  subst this
  exact ⟨kv, hkv, hv, hw⟩


/-! ## exactness for one component -/

theorem mem_auts_iff {sel : Sel} {g : LGraph} (hwf : g.WF) (m : Mapping) :
    m ∈ auts sel g ↔ IsIso sel g g m := by
  unfold auts
  rw [mem_allInduced sel g g hwf]
  exact ⟨fun h => ⟨h, rfl⟩, fun h => h.1⟩

/-- the identity mapping is among the enumerated automorphisms -/
theorem id_mem_auts {sel : Sel} (hh : sel.hcountRule = false) {g : LGraph} (hwf : g.WF) :
    ofFn g (fun v => v) ∈ auts sel g :=
  (mem_auts_iff hwf _).2 (isIso_of_autFn hwf (IsAutFn.id hh g))

/-- a pair recorded from an enumerated automorphism, read either way, is realised by a
function-level automorphism -/
theorem fn_of_pair {sel : Sel} (hh : sel.hcountRule = false) {g : LGraph} (hwf : g.WF) {m : Mapping}
    (hm : m ∈ auts sel g) {w x : Nat} (h : (w, x) ∈ m ∨ (x, w) ∈ m) :
    w ∈ g.ids ∧ ∃ f, IsAutFn sel g f ∧ f w = x := by
  obtain ⟨hf, hmf⟩ := autFn_of_isIso hwf ((mem_auts_iff hwf m).1 hm)
  rcases h with h | h
  · rw [hmf] at h
    obtain ⟨hw, hx⟩ := mem_ofFn.1 h
    exact ⟨hw, _, hf, hx.symm⟩
  · rw [hmf] at h
    obtain ⟨hx, hw⟩ := mem_ofFn.1 h
    obtain ⟨g', hg', hgf, _⟩ := hf.inv hh hwf
    refine ⟨hw ▸ hf.maps x hx, g', hg', ?_⟩
    rw [hw]; exact hgf x hx

theorem length_eq_one_of_all_eq {α : Type} {l : List α} {c : α} (hn : l.Nodup) (hc : c ∈ l)
    (hall : ∀ x ∈ l, x = c) : l.length = 1 := by
  match l, hn, hc, hall with
  | [], _, hc, _ => cases hc
  | [x], _, _, _ => rfl
  | x :: y :: t, hn, _, hall =>
    have h1 := hall x (by simp)
    have h2 := hall y (by simp)
    have := (List.nodup_cons.1 hn).1
    rw [h1, h2] at this
    exact absurd (List.mem_cons_self ..) this

/-- **exact orbits of one component**: two nodes share a listed orbit iff an automorphism sends
one to the other -/
theorem sameClass_component {sel : Sel} (hh : sel.hcountRule = false) {g : LGraph} (hwf : g.WF) (x y : Nat) :
    SameClass (analyzeComponent sel g).1 x y ↔ ∃ m, IsIso sel g g m ∧ m.get? x = some y := by
  have hidm := id_mem_auts hh hwf
  have back : (∃ m, IsIso sel g g m ∧ m.get? x = some y) → x ∈ g.ids ∧ y ∈ g.ids := by
    rintro ⟨m, hm, hg⟩
    obtain ⟨hf, hmf⟩ := autFn_of_isIso hwf hm
    rw [hmf] at hg
    obtain ⟨hx, rfl⟩ := ofFn_get?_some hg
    exact ⟨hx, hf.maps x hx⟩
  have idmap : ∀ v ∈ g.ids, ∃ m, IsIso sel g g m ∧ m.get? v = some v := fun v hv =>
    ⟨_, isIso_of_autFn hwf (IsAutFn.id hh g), ofFn_get? hwf.1 _ hv⟩
  rcases hN : g.nodes with _ | ⟨p, _ | ⟨q, rest⟩⟩
  · have hids : g.ids = [] := by simp [LGraph.ids, hN]
    simp only [analyzeComponent, hN, SameClass, List.not_mem_nil, false_and, exists_false, false_iff]
    intro h; have := (back h).1; rw [hids] at this; cases this
  · have hids : g.ids = [p.1] := by simp [LGraph.ids, hN]
    simp only [analyzeComponent, hN, SameClass, List.mem_singleton, exists_eq_left]
    constructor
    · rintro ⟨rfl, rfl⟩; exact idmap _ (by rw [hids]; simp)
    · intro h
      have := back h
      rw [hids] at this
      simpa using this
  · have hx_rel : ∀ v ∈ g.ids, Rel (orbitSets (auts sel g)) v v := fun v hv =>
      (rel_orbitSets _ _ _).2 ⟨_, hidm, Or.inl (mem_ofFn.2 ⟨hv, rfl⟩)⟩
    have hne : (orbitSets (auts sel g)).isEmpty = false := by
      have : p.1 ∈ g.ids := by simp [LGraph.ids, hN]
      obtain ⟨kv, hkv, _⟩ := hx_rel _ this
      cases hs : orbitSets (auts sel g) with
      | nil => rw [hs] at hkv; cases hkv
      | cons _ _ => rfl
    simp only [analyzeComponent, hN, hne, Bool.false_eq_true, if_false, SameClass, mem_dedupR,
      List.mem_map]
    constructor
    · rintro ⟨O, ⟨kv, hkv, rfl⟩, hx, hy⟩
      rw [mem_sortDedup] at hx hy
      have r1 : Rel (orbitSets (auts sel g)) kv.1 x := ⟨kv, hkv, rfl, hx⟩
      have r2 : Rel (orbitSets (auts sel g)) kv.1 y := ⟨kv, hkv, rfl, hy⟩
      obtain ⟨m1, hm1, hp1⟩ := (rel_orbitSets _ _ _).1 r1
      obtain ⟨m2, hm2, hp2⟩ := (rel_orbitSets _ _ _).1 r2
      obtain ⟨hw, f1, hf1, hf1w⟩ := fn_of_pair hh hwf hm1 hp1
      obtain ⟨_, f2, hf2, hf2w⟩ := fn_of_pair hh hwf hm2 hp2
      obtain ⟨g1, hg1, hg1f, _⟩ := hf1.inv hh hwf
      have hcomp := IsAutFn.comp hh hg1 hf2
      refine ⟨_, isIso_of_autFn hwf hcomp, ?_⟩
      have hxids : x ∈ g.ids := hf1w ▸ hf1.maps _ hw
      rw [ofFn_get? hwf.1 _ hxids]
      simp only [Option.some.injEq]
      rw [← hf1w, hg1f _ hw, hf2w]
    · intro h
      obtain ⟨hx, _⟩ := back h
      obtain ⟨m, hm, hg⟩ := h
      have r1 := hx_rel x hx
      have r2 : Rel (orbitSets (auts sel g)) x y :=
        (rel_orbitSets _ _ _).2 ⟨m, (mem_auts_iff hwf m).2 hm, Or.inl (mem_of_get? hg)⟩
      obtain ⟨kv, hkv, h1, h2⟩ := rel_same (keysNodup_orbitSets _) r1 r2
      exact ⟨_, ⟨kv, hkv, rfl⟩, (mem_sortDedup _ _).2 h1, (mem_sortDedup _ _).2 h2⟩

/-- **exact count of one component**: the reported number is the length of the duplicate-free list
of all automorphisms -/
theorem count_component {sel : Sel} (hh : sel.hcountRule = false) {g : LGraph} (hwf : g.WF) :
    (analyzeComponent sel g).2 = (auts sel g).length := by
  have hidm := id_mem_auts hh hwf
  rcases hN : g.nodes with _ | ⟨p, _ | ⟨q, rest⟩⟩
  · have hids : g.ids = [] := by simp [LGraph.ids, hN]
    simp [analyzeComponent, hN, auts, allInduced, hids, extend]
  · have hids : g.ids = [p.1] := by simp [LGraph.ids, hN]
    simp only [analyzeComponent, hN]
    symm
    apply length_eq_one_of_all_eq (allInduced_nodup sel g g hwf.1) hidm
    intro m hm
    obtain ⟨hf, hmf⟩ := autFn_of_isIso hwf ((mem_auts_iff hwf m).1 hm)
    rw [hmf]
    have := hf.maps p.1 (by rw [hids]; simp)
    rw [hids] at this
    simp only [List.mem_singleton] at this
    simp [ofFn, hids, this]
  · have hne : (orbitSets (auts sel g)).isEmpty = false := by
      have : p.1 ∈ g.ids := by simp [LGraph.ids, hN]
      have hr : Rel (orbitSets (auts sel g)) p.1 p.1 :=
        (rel_orbitSets _ _ _).2 ⟨_, hidm, Or.inl (mem_ofFn.2 ⟨this, rfl⟩)⟩
      obtain ⟨kv, hkv, _⟩ := hr
      cases hs : orbitSets (auts sel g) with
      | nil => rw [hs] at hkv; cases hkv
      | cons _ _ => rfl
    have hpos : (auts sel g).length > 0 := List.length_pos_of_mem hidm
    simp [analyzeComponent, hN, hne, hpos]

/-- every node of the component lies in a listed orbit -/
theorem cover_component {sel : Sel} (hh : sel.hcountRule = false) {g : LGraph} (hwf : g.WF) {v : Nat}
    (hv : v ∈ g.ids) : ∃ O ∈ (analyzeComponent sel g).1, v ∈ O := by
  have : SameClass (analyzeComponent sel g).1 v v :=
    (sameClass_component hh hwf v v).2 ⟨_, isIso_of_autFn hwf (IsAutFn.id hh g), ofFn_get? hwf.1 _ hv⟩
  obtain ⟨O, hO, h1, _⟩ := this
  exact ⟨O, hO, h1⟩


/-! ## well-formedness of the derived graphs -/

theorem normalize_ids (c : Cfg) (G : LGraph) : (normalize c G).ids = G.ids := by
  simp [normalize, LGraph.ids, List.map_map, Function.comp_def]

theorem normalize_wf (c : Cfg) {G : LGraph} (hwf : G.WF) : (normalize c G).WF := by
  refine ⟨by rw [normalize_ids]; exact hwf.1, ?_, ?_⟩
  · intro e he
    simp only [normalize, List.mem_map] at he
    obtain ⟨e0, he0, rfl⟩ := he
    rw [normalize_ids]
    exact hwf.2.1 e0 he0
  · have : ((normalize c G).edges.map fun e => (min e.1 e.2.1, max e.1 e.2.1)) =
        G.edges.map fun e => (min e.1 e.2.1, max e.1 e.2.1) := by
      simp [normalize, List.map_map, Function.comp_def]
    rw [this]; exact hwf.2.2

theorem mem_induce_ids {G : LGraph} {S : List Nat} {v : Nat} : v ∈ (induce G S).ids ↔ v ∈ G.ids ∧ v ∈ S := by
  simp only [induce, LGraph.ids, List.mem_map, List.mem_filter, List.contains_iff_mem]
  constructor
  · rintro ⟨p, ⟨hp, hs⟩, rfl⟩; exact ⟨⟨p, hp, rfl⟩, hs⟩
  · rintro ⟨⟨p, hp, rfl⟩, hs⟩; exact ⟨p, ⟨hp, hs⟩, rfl⟩

theorem induce_wf {G : LGraph} (hwf : G.WF) (S : List Nat) : (induce G S).WF := by
  refine ⟨?_, ?_, ?_⟩
  · exact List.Nodup.sublist (List.Sublist.map _ List.filter_sublist) hwf.1
  · intro e he
    simp only [induce, List.mem_filter, Bool.and_eq_true, List.contains_iff_mem] at he
    obtain ⟨he0, h1, h2⟩ := he
    obtain ⟨g1, g2, g3⟩ := hwf.2.1 e he0
    exact ⟨mem_induce_ids.2 ⟨g1, h1⟩, mem_induce_ids.2 ⟨g2, h2⟩, g3⟩
  · exact List.Nodup.sublist (List.Sublist.map _ List.filter_sublist) hwf.2.2

/-! ## the whole analysis -/

theorem components_of_empty {G : LGraph} (h : G.nodes.isEmpty = true) : components G = [] := by
  have : G.nodes = [] := List.isEmpty_iff.1 h
  simp [components, LGraph.ids, this, componentsAux]

theorem analyze_connected (c : Cfg) (G : LGraph) (hconn : (components G).length ≤ 1) :
    (analyze c G).orbits = (analyzeComponent c.sel (normalize c G)).1 ∧
    (analyze c G).nAut = (analyzeComponent c.sel (normalize c G)).2 ∧
    (analyze c G).anchor = none := by
  unfold analyze
  by_cases hE : G.nodes.isEmpty = true
  · have : G.nodes = [] := List.isEmpty_iff.1 hE
    simp [hE, analyzeComponent, normalize, this]
  · simp [hE, hconn]

theorem foldl_mul_pos (l : List Nat) (h : ∀ x ∈ l, 0 < x) : ∀ a, 0 < a → 0 < l.foldl (· * ·) a := by
  induction l with
  | nil => intro a ha; exact ha
  | cons x xs ih =>
    intro a ha
    simp only [List.foldl_cons]
    exact ih (fun y hy => h y (List.mem_cons_of_mem _ hy)) _ (Nat.mul_pos ha (h x (List.mem_cons_self ..)))

theorem analyze_disconnected (c : Cfg) {G : LGraph} (hwf : G.WF) (hdis : 1 < (components G).length) :
    (∀ O, O ∈ (analyze c G).orbits ↔
        ∃ comp ∈ components G, O ∈ (analyzeComponent c.sel (induce (normalize c G) comp)).1) ∧
    (analyze c G).nAut =
      ((components G).map fun comp => (auts c.sel (induce (normalize c G) comp)).length).foldl (· * ·) 1 ∧
    (analyze c G).anchor = chooseAnchor c (components G) := by
  have hE : ¬ G.nodes.isEmpty = true := by
    intro h; rw [components_of_empty h] at hdis; simp at hdis
  have hlen : ¬ (components G).length ≤ 1 := by omega
  have hcount : ((components G).map fun comp => analyzeComponent c.sel (induce (normalize c G) comp)).map (·.2) =
      (components G).map fun comp => (auts c.sel (induce (normalize c G) comp)).length := by
    rw [List.map_map]
    apply List.map_congr_left
    intro comp _
    exact count_component rfl (induce_wf (normalize_wf c hwf) comp)
  have hpos : 0 < ((components G).map fun comp => (auts c.sel (induce (normalize c G) comp)).length).foldl (· * ·) 1 := by
    apply foldl_mul_pos _ _ 1 (by omega)
    intro x hx
    obtain ⟨comp, _, rfl⟩ := List.mem_map.1 hx
    exact List.length_pos_of_mem (id_mem_auts rfl (induce_wf (normalize_wf c hwf) comp))
  unfold analyze
  simp only [hE, hlen, if_false, hcount, hpos, if_true, Bool.false_eq_true]
  refine ⟨?_, trivial, trivial⟩
  intro O
  rw [mem_dedupR]
  simp only [List.mem_flatMap, List.mem_map]
  constructor
  · rintro ⟨r, ⟨comp, hcomp, rfl⟩, hO⟩; exact ⟨comp, hcomp, hO⟩
  · rintro ⟨comp, hcomp, hO⟩; exact ⟨_, ⟨comp, hcomp, rfl⟩, hO⟩

end SynKit.Aut

import SynKitProofs.AutomorphismLemmas
/-! Graph facts, function-level automorphisms, the bridge to `IsIso`, group closure (C11). -/
namespace SynKit.Aut
open SynKit SynKit.Match

/-! ## generic list facts -/

theorem find?_eq_some_of_unique {α : Type} {p : α → Bool} {l : List α} {x : α}
    (hx : x ∈ l) (hp : p x = true) (hu : ∀ y ∈ l, p y = true → y = x) : l.find? p = some x := by
  induction l with
  | nil => cases hx
  | cons y ys ih =>
    simp only [List.find?_cons]
    by_cases hy : p y = true
    · simp only [hy]; rw [hu y (List.mem_cons_self ..) hy]
    · simp only [hy]
      rcases List.mem_cons.1 hx with rfl | hx'
      · exact absurd hp hy
      · exact ih hx' (fun z hz => hu z (List.mem_cons_of_mem _ hz))

theorem find?_fst_of_nodup {β : Type} {l : List (Nat × β)} (hn : (l.map (·.1)).Nodup) {v : Nat} {a : β}
    (h : (v, a) ∈ l) : l.find? (fun p => decide (p.1 = v)) = some (v, a) := by
  apply find?_eq_some_of_unique h (by simp)
  intro y hy hpy
  have hy1 : y.1 = v := by simpa using hpy
  have := List.inj_on_of_nodup_map hn hy h (by simpa using hy1)
  exact this

/-! ## graph facts -/

theorem attrs_of_mem {G : LGraph} (hn : G.ids.Nodup) {v : Nat} {a : Attrs} (h : (v, a) ∈ G.nodes) :
    G.attrs v = a := by
  unfold LGraph.attrs
  have := find?_fst_of_nodup (l := G.nodes) hn h
  simp only [this]

theorem mem_ids_iff {G : LGraph} {v : Nat} : v ∈ G.ids ↔ ∃ a, (v, a) ∈ G.nodes := by
  unfold LGraph.ids
  simp only [List.mem_map]
  constructor
  · rintro ⟨p, hp, rfl⟩; exact ⟨p.2, hp⟩
  · rintro ⟨a, ha⟩; exact ⟨(v, a), ha, rfl⟩

theorem edge?_comm (G : LGraph) (u v : Nat) : G.edge? u v = G.edge? v u := by
  unfold LGraph.edge?
  congr 1
  congr 1
  funext e
  simp only [decide_eq_decide]
  exact Or.comm

theorem edge?_some_mem {G : LGraph} {u v : Nat} {a : Attrs} (h : G.edge? u v = some a) :
    (u, v, a) ∈ G.edges ∨ (v, u, a) ∈ G.edges := by
  unfold LGraph.edge? at h
  simp only [Option.map_eq_some_iff] at h
  obtain ⟨e, he, rfl⟩ := h
  have hm := List.mem_of_find?_eq_some he
  have hp := List.find?_some he
  simp only [decide_eq_true_eq] at hp
  obtain ⟨e1, e2, e3⟩ := e
  rcases hp with ⟨h1, h2⟩ | ⟨h1, h2⟩
  · simp only at h1 h2; subst h1; subst h2; exact Or.inl hm
  · simp only at h1 h2; subst h1; subst h2; exact Or.inr hm

theorem edgeKey_eq {a b c d : Nat} (h : (min a b, max a b) = (min c d, max c d)) :
    (a = c ∧ b = d) ∨ (a = d ∧ b = c) := by
  simp only [Prod.mk.injEq] at h
  omega

theorem edge?_of_mem {G : LGraph} (hwf : G.WF) {u v : Nat} {a : Attrs} (h : (u, v, a) ∈ G.edges) :
    G.edge? u v = some a := by
  unfold LGraph.edge?
  have : G.edges.find? (fun e => decide ((e.1 = u ∧ e.2.1 = v) ∨ (e.1 = v ∧ e.2.1 = u))) = some (u, v, a) := by
    apply find?_eq_some_of_unique h (by simp)
    intro y hy hpy
    simp only [decide_eq_true_eq] at hpy
    apply List.inj_on_of_nodup_map hwf.2.2 hy h
    rcases hpy with ⟨h1, h2⟩ | ⟨h1, h2⟩
    · simp [h1, h2]
    · simp only [h1, h2, Prod.mk.injEq]; omega
  rw [this]; rfl

theorem edge?_some_iff {G : LGraph} (hwf : G.WF) {u v : Nat} {a : Attrs} :
    G.edge? u v = some a ↔ (u, v, a) ∈ G.edges ∨ (v, u, a) ∈ G.edges := by
  constructor
  · exact edge?_some_mem
  · rintro (h | h)
    · exact edge?_of_mem hwf h
    · rw [edge?_comm]; exact edge?_of_mem hwf h

theorem edge?_some_ids {G : LGraph} (hwf : G.WF) {u v : Nat} {a : Attrs} (h : G.edge? u v = some a) :
    u ∈ G.ids ∧ v ∈ G.ids ∧ u ≠ v := by
  rcases edge?_some_mem h with h | h
  · have := hwf.2.1 _ h; exact ⟨this.1, this.2.1, this.2.2⟩
  · have := hwf.2.1 _ h; exact ⟨this.2.1, this.1, fun e => this.2.2 e.symm⟩

theorem mem_neighbors_iff {G : LGraph} {v w : Nat} : w ∈ G.neighbors v ↔ (G.edge? v w).isSome = true := by
  unfold LGraph.neighbors LGraph.edge?
  simp only [List.mem_filterMap, Option.isSome_map, List.find?_isSome, decide_eq_true_eq]
  constructor
  · rintro ⟨e, he, hw⟩
    refine ⟨e, he, ?_⟩
    by_cases h1 : e.1 = v
    · simp only [h1, if_true, Option.some.injEq] at hw; exact Or.inl ⟨h1, hw⟩
    · simp only [h1, if_false] at hw
      by_cases h2 : e.2.1 = v
      · simp only [h2, if_true, Option.some.injEq] at hw; exact Or.inr ⟨hw, h2⟩
      · simp [h2] at hw
  · rintro ⟨e, he, hp⟩
    refine ⟨e, he, ?_⟩
    rcases hp with ⟨h1, h2⟩ | ⟨h1, h2⟩
    · simp [h1, h2]
    · by_cases h3 : e.1 = v
      · simp only [h3, if_true, Option.some.injEq]; rw [h2, ← h3, h1]
      · simp only [h3, if_false, h2, if_true, Option.some.injEq]; exact h1

theorem neighbors_subset_ids {G : LGraph} (hwf : G.WF) {v w : Nat} (h : w ∈ G.neighbors v) : w ∈ G.ids := by
  rw [mem_neighbors_iff] at h
  obtain ⟨a, ha⟩ := Option.isSome_iff_exists.1 h
  exact (edge?_some_ids hwf ha).2.1

theorem neighbors_nodup_aux (es : List (Nat × Nat × Attrs)) (v : Nat)
    (hloop : ∀ e ∈ es, e.1 ≠ e.2.1)
    (hn : (es.map fun e => (min e.1 e.2.1, max e.1 e.2.1)).Nodup) :
    (es.filterMap fun e => if e.1 = v then some e.2.1 else if e.2.1 = v then some e.1 else Option.none).Nodup := by
  induction es with
  | nil => simp
  | cons e es ih =>
    have hn' := (List.nodup_cons.1 (by simpa only [List.map_cons] using hn))
    have ih' := ih (fun x hx => hloop x (List.mem_cons_of_mem _ hx)) hn'.2
    have hkey : ∀ e' ∈ es, (min e'.1 e'.2.1, max e'.1 e'.2.1) ≠ (min e.1 e.2.1, max e.1 e.2.1) := by
      intro e' he' heq
      exact hn'.1 (List.mem_map.2 ⟨e', he', heq⟩)
    have hl := hloop e (List.mem_cons_self ..)
    simp only [List.filterMap_cons]
    have key : ∀ w, (w = e.2.1 ∧ e.1 = v ∨ w = e.1 ∧ e.2.1 = v) →
        w ∉ es.filterMap fun e => if e.1 = v then some e.2.1 else if e.2.1 = v then some e.1 else Option.none := by
      intro w hw hmem
      simp only [List.mem_filterMap] at hmem
      obtain ⟨e', he', hw'⟩ := hmem
      apply hkey e' he'
      have hl' := hloop e' (List.mem_cons_of_mem _ he')
      by_cases h1 : e'.1 = v
      · simp only [h1, if_true, Option.some.injEq] at hw'
        simp only [Prod.mk.injEq]; omega
      · simp only [h1, if_false] at hw'
        by_cases h2 : e'.2.1 = v
        · simp only [h2, if_true, Option.some.injEq] at hw'
          simp only [Prod.mk.injEq]; omega
        · simp [h2] at hw'
    by_cases h1 : e.1 = v
    · simp only [h1, if_true]
      exact List.nodup_cons.2 ⟨key _ (Or.inl ⟨rfl, h1⟩), ih'⟩
    · simp only [h1, if_false]
      by_cases h2 : e.2.1 = v
      · simp only [h2, if_true]
        exact List.nodup_cons.2 ⟨key _ (Or.inr ⟨rfl, h2⟩), ih'⟩
      · simp only [h2, if_false]; exact ih'

theorem neighbors_nodup {G : LGraph} (hwf : G.WF) (v : Nat) : (G.neighbors v).Nodup :=
  neighbors_nodup_aux G.edges v (fun e he => (hwf.2.1 e he).2.2) hwf.2.2


/-! ## mappings whose keys are the node list -/

/-- the function a mapping denotes (identity off its keys) -/
def toFn (m : Mapping) (p : Nat) : Nat := (m.get? p).getD p
/-- the mapping, in node order, of a function on the node set -/
def ofFn (G : LGraph) (f : Nat → Nat) : Mapping := G.ids.map fun p => (p, f p)

theorem get?_of_mem {m : Mapping} (hn : (m.map (·.1)).Nodup) {p h : Nat} (hm : (p, h) ∈ m) :
    m.get? p = some h := by
  unfold Mapping.get?
  rw [find?_fst_of_nodup hn hm]; rfl

theorem mem_of_get? {m : Mapping} {p h : Nat} (hg : m.get? p = some h) : (p, h) ∈ m := by
  unfold Mapping.get? at hg
  simp only [Option.map_eq_some_iff] at hg
  obtain ⟨q, hq, rfl⟩ := hg
  have h1 := List.mem_of_find?_eq_some hq
  have h2 := List.find?_some hq
  simp only [decide_eq_true_eq] at h2
  obtain ⟨q1, q2⟩ := q
  simp only at h2; subst h2; exact h1

theorem ofFn_keys (G : LGraph) (f : Nat → Nat) : (ofFn G f).map (·.1) = G.ids := by
  unfold ofFn; rw [List.map_map]
  exact (List.map_congr_left (fun _ _ => rfl)).trans (List.map_id _)

theorem mem_ofFn {G : LGraph} {f : Nat → Nat} {p h : Nat} : (p, h) ∈ ofFn G f ↔ p ∈ G.ids ∧ h = f p := by
  unfold ofFn
  simp only [List.mem_map, Prod.mk.injEq]
  constructor
  · rintro ⟨q, hq, rfl, rfl⟩; exact ⟨hq, rfl⟩
  · rintro ⟨hp, rfl⟩; exact ⟨p, hp, rfl, rfl⟩

theorem ofFn_get? {G : LGraph} (hn : G.ids.Nodup) (f : Nat → Nat) {p : Nat} (hp : p ∈ G.ids) :
    (ofFn G f).get? p = some (f p) :=
  get?_of_mem (by rw [ofFn_keys]; exact hn) (mem_ofFn.2 ⟨hp, rfl⟩)

theorem ofFn_get?_some {G : LGraph} {f : Nat → Nat} {p h : Nat} (hg : (ofFn G f).get? p = some h) :
    p ∈ G.ids ∧ h = f p := mem_ofFn.1 (mem_of_get? hg)

theorem eq_ofFn {G : LGraph} {m : Mapping} (hk : m.map (·.1) = G.ids) (hn : G.ids.Nodup) :
    m = ofFn G (toFn m) := by
  unfold ofFn
  rw [← hk, List.map_map]
  have : ∀ ph ∈ m, ((fun p => (p, toFn m p)) ∘ fun x => x.1) ph = ph := by
    intro ph hph
    obtain ⟨p, h⟩ := ph
    have := get?_of_mem (by rw [hk]; exact hn) hph
    simp [toFn, this]
  conv => lhs; rw [← List.map_id m]
  exact List.map_congr_left (fun ph hph => (this ph hph).symm)

/-! ## function-level automorphisms -/

/-- `f` is a label-preserving automorphism of `G` (node keys and edge keys of `sel`, no hydrogen rule). -/
structure IsAutFn (sel : Sel) (G : LGraph) (f : Nat → Nat) : Prop where
  maps : ∀ v ∈ G.ids, f v ∈ G.ids
  inj : ∀ u ∈ G.ids, ∀ v ∈ G.ids, f u = f v → u = v
  node : ∀ v ∈ G.ids, nodeOk sel (G.attrs (f v)) (G.attrs v) = true
  edge : ∀ u ∈ G.ids, ∀ v ∈ G.ids, ∀ a, G.edge? u v = some a → ∃ b, G.edge? (f u) (f v) = some b ∧ edgeOk sel b a = true
  nonedge : ∀ u ∈ G.ids, ∀ v ∈ G.ids, G.edge? u v = none → G.edge? (f u) (f v) = none

theorem autFn_of_isIso {sel : Sel} {G : LGraph} (hwf : G.WF) {m : Mapping} (h : IsIso sel G G m) :
    IsAutFn sel G (toFn m) ∧ m = ofFn G (toFn m) := by
  obtain ⟨⟨⟨hk, hnd, hnodes, hedges⟩, hnon⟩, _⟩ := h
  have hm := eq_ofFn hk hwf.1
  have hget : ∀ p ∈ G.ids, m.get? p = some (toFn m p) := by
    intro p hp; rw [hm]; rw [ofFn_get? hwf.1 _ hp]; rw [← hm]
  have hmem : ∀ p ∈ G.ids, (p, toFn m p) ∈ m := fun p hp => mem_of_get? (hget p hp)
  refine ⟨⟨?_, ?_, ?_, ?_, ?_⟩, hm⟩
  · intro v hv; exact (hnodes _ (hmem v hv)).1
  · intro u hu v hv huv
    have : (m.map (·.2)) = G.ids.map (toFn m) := by
      conv => lhs; rw [hm]
      unfold ofFn; rw [List.map_map]; rfl
    rw [this] at hnd
    exact List.inj_on_of_nodup_map hnd hu hv huv
  · intro v hv; exact (hnodes _ (hmem v hv)).2
  · intro u hu v hv a ha
    rcases edge?_some_mem ha with he | he
    · obtain ⟨hu', hv', ea, g1, g2, g3, g4⟩ := hedges _ he
      simp only at g1 g2 g4
      rw [hget u hu] at g1; rw [hget v hv] at g2
      cases g1; cases g2
      exact ⟨ea, g3, g4⟩
    · obtain ⟨hu', hv', ea, g1, g2, g3, g4⟩ := hedges _ he
      simp only at g1 g2 g4
      rw [hget v hv] at g1; rw [hget u hu] at g2
      cases g1; cases g2
      exact ⟨ea, by rw [edge?_comm]; exact g3, g4⟩
  · intro u hu v hv hne
    have := hnon u v _ _ (hget u hu) (hget v hv) (by simp [LGraph.hasEdge, hne])
    simpa [LGraph.hasEdge] using this

theorem isIso_of_autFn {sel : Sel} {G : LGraph} (hwf : G.WF) {f : Nat → Nat} (h : IsAutFn sel G f) :
    IsIso sel G G (ofFn G f) := by
  refine ⟨⟨⟨ofFn_keys G f, ?_, ?_, ?_⟩, ?_⟩, rfl⟩
  · have : (ofFn G f).map (·.2) = G.ids.map f := by unfold ofFn; rw [List.map_map]; rfl
    rw [this]
    exact List.Nodup.map_on h.inj hwf.1
  · intro ph hph
    obtain ⟨p, q⟩ := ph
    obtain ⟨hp, rfl⟩ := mem_ofFn.1 hph
    exact ⟨h.maps p hp, h.node p hp⟩
  · intro e he
    obtain ⟨hu, hv, _⟩ := hwf.2.1 e he
    obtain ⟨e1, e2, e3⟩ := e
    obtain ⟨b, hb1, hb2⟩ := h.edge e1 hu e2 hv e3 (edge?_of_mem hwf he)
    exact ⟨f e1, f e2, b, ofFn_get? hwf.1 f hu, ofFn_get? hwf.1 f hv, hb1, hb2⟩
  · intro p q hp hq gp gq hpq
    obtain ⟨hp1, rfl⟩ := ofFn_get?_some gp
    obtain ⟨hq1, rfl⟩ := ofFn_get?_some gq
    have : G.edge? p q = none := by simpa [LGraph.hasEdge] using hpq
    simp [LGraph.hasEdge, h.nonedge p hp1 q hq1 this]


/-! ## the closures are equivalences when the hydrogen rule is off -/

theorem nodeOk_iff {sel : Sel} (hh : sel.hcountRule = false) (a b : Attrs) :
    nodeOk sel a b = true ↔ ∀ k ∈ sel.nodeKeys, a.get k = b.get k := by
  simp [nodeOk, hh]

theorem edgeOk_iff {sel : Sel} (a b : Attrs) :
    edgeOk sel a b = true ↔ ∀ k ∈ sel.edgeKeys, a.get k = b.get k := by
  simp [edgeOk]

/-! ## group closure -/

theorem IsAutFn.id {sel : Sel} (hh : sel.hcountRule = false) (G : LGraph) : IsAutFn sel G (fun v => v) :=
  ⟨fun _ hv => hv, fun _ _ _ _ h => h, fun _ _ => (nodeOk_iff hh _ _).2 (fun _ _ => rfl),
   fun _ _ _ _ a ha => ⟨a, ha, (edgeOk_iff _ _).2 (fun _ _ => rfl)⟩, fun _ _ _ _ h => h⟩

theorem IsAutFn.comp {sel : Sel} (hh : sel.hcountRule = false) {G : LGraph} {f g : Nat → Nat}
    (hf : IsAutFn sel G f) (hg : IsAutFn sel G g) : IsAutFn sel G (fun v => g (f v)) := by
  refine ⟨?_, ?_, ?_, ?_, ?_⟩
  · intro v hv; exact hg.maps _ (hf.maps v hv)
  · intro u hu v hv h
    exact hf.inj u hu v hv (hg.inj _ (hf.maps u hu) _ (hf.maps v hv) h)
  · intro v hv
    rw [nodeOk_iff hh]
    intro k hk
    rw [(nodeOk_iff hh _ _).1 (hg.node _ (hf.maps v hv)) k hk, (nodeOk_iff hh _ _).1 (hf.node v hv) k hk]
  · intro u hu v hv a ha
    obtain ⟨b, hb1, hb2⟩ := hf.edge u hu v hv a ha
    obtain ⟨c, hc1, hc2⟩ := hg.edge _ (hf.maps u hu) _ (hf.maps v hv) b hb1
    refine ⟨c, hc1, ?_⟩
    rw [edgeOk_iff] at *
    intro k hk; rw [hc2 k hk, hb2 k hk]
  · intro u hu v hv h
    exact hg.nonedge _ (hf.maps u hu) _ (hf.maps v hv) (hf.nonedge u hu v hv h)

theorem IsAutFn.surj {sel : Sel} {G : LGraph} (hwf : G.WF) {f : Nat → Nat} (hf : IsAutFn sel G f) :
    ∀ w ∈ G.ids, ∃ v ∈ G.ids, f v = w := by
  have hnd : (G.ids.map f).Nodup := List.Nodup.map_on hf.inj hwf.1
  have hsub : G.ids.map f ⊆ G.ids := by
    intro x hx
    obtain ⟨v, hv, rfl⟩ := List.mem_map.1 hx
    exact hf.maps v hv
  have hperm : (G.ids.map f).Perm G.ids :=
    (List.subperm_of_subset hnd hsub).perm_of_length_le (by simp)
  intro w hw
  obtain ⟨v, hv, hvw⟩ := List.mem_map.1 (hperm.mem_iff.2 hw)
  exact ⟨v, hv, hvw⟩

theorem IsAutFn.inv {sel : Sel} (hh : sel.hcountRule = false) {G : LGraph} (hwf : G.WF) {f : Nat → Nat}
    (hf : IsAutFn sel G f) :
    ∃ g, IsAutFn sel G g ∧ (∀ v ∈ G.ids, g (f v) = v) ∧ (∀ v ∈ G.ids, f (g v) = v) := by
  let g : Nat → Nat := fun y => (G.ids.find? (fun x => decide (f x = y))).getD y
  have hg : ∀ y ∈ G.ids, g y ∈ G.ids ∧ f (g y) = y := by
    intro y hy
    obtain ⟨v, hv, hvy⟩ := hf.surj hwf y hy
    have : (G.ids.find? (fun x => decide (f x = y))).isSome = true := by
      rw [List.find?_isSome]; exact ⟨v, hv, by simpa using hvy⟩
    obtain ⟨x, hx⟩ := Option.isSome_iff_exists.1 this
    have h1 := List.mem_of_find?_eq_some hx
    have h2 := List.find?_some hx
    simp only [decide_eq_true_eq] at h2
    simp only [g, hx, Option.getD_some]
    exact ⟨h1, h2⟩
  have hgf : ∀ v ∈ G.ids, g (f v) = v := by
    intro v hv
    have := hg (f v) (hf.maps v hv)
    exact hf.inj _ this.1 _ hv this.2
  refine ⟨g, ⟨?_, ?_, ?_, ?_, ?_⟩, hgf, fun v hv => (hg v hv).2⟩
  · intro v hv; exact (hg v hv).1
  · intro u hu v hv h
    rw [← (hg u hu).2, ← (hg v hv).2, h]
  · intro v hv
    have := hf.node (g v) (hg v hv).1
    rw [(hg v hv).2] at this
    rw [nodeOk_iff hh] at this ⊢
    intro k hk; exact (this k hk).symm
  · intro u hu v hv a ha
    cases hE : G.edge? (g u) (g v) with
    | none =>
      have := hf.nonedge _ (hg u hu).1 _ (hg v hv).1 hE
      rw [(hg u hu).2, (hg v hv).2, ha] at this; cases this
    | some a' =>
      obtain ⟨b, hb1, hb2⟩ := hf.edge _ (hg u hu).1 _ (hg v hv).1 a' hE
      rw [(hg u hu).2, (hg v hv).2, ha] at hb1
      cases hb1
      refine ⟨a', rfl, ?_⟩
      rw [edgeOk_iff] at *
      intro k hk; exact (hb2 k hk).symm
  · intro u hu v hv h
    cases hE : G.edge? (g u) (g v) with
    | none => rfl
    | some a' =>
      obtain ⟨b, hb1, _⟩ := hf.edge _ (hg u hu).1 _ (hg v hv).1 a' hE
      rw [(hg u hu).2, (hg v hv).2, h] at hb1; cases hb1

end SynKit.Aut

import SynKitModel.Reactor
import SynKitProofs.ReactorLemmas
import SynKitProofs.ReactorHydrogen
import SynKitProofs.ReactorIso
import Mathlib.Data.List.Nodup
import Mathlib.Data.List.Perm.Basic
import Mathlib.Tactic.Linarith
import Mathlib.Tactic.Ring
/-! Helper lemmas for the explicit-hydrogen re-match path of the reactor (C03).

Part 1 generalises the glue lemmas of `ReactorLemmas` / `ReactorIso` from a substrate without
`typesGH` (`WFHost`) to a *prepared* host (`HostX`): a graph whose nodes may already carry `typesGH`,
as long as the reactant-side label is the node's own label (`TgOK`) — which is what `_glue_graph`
hands to the re-match after `h_to_explicit`.  Part 2 shows that `explicitHost host nodes` is such a
graph.  Property theorems are in `Props/C03.lean`. -/
namespace SynKit.Reactor
open SynKit.Match

/-! ## Part 1: gluing onto a prepared host -/

/-- The label `_default_tg` reads off a node's own attributes. -/
def sideOf (a : Attrs) : List Val :=
  [pyGet a "element" (.str "*"), pyGet a "aromatic" (.bool false), pyGet a "hcount" (.num 0),
   pyGet a "charge" (.num 0), pyGet a "neighbors" (.tup [])]

/-- A node's `typesGH` is absent, or its reactant side is the node's own label and its product
side agrees with it on element, aromaticity and neighbours (hydrogen count and charge are free). -/
def TgOK (a : Attrs) : Prop :=
  hasKey a "typesGH" = false ∨
  (hasKey a "typesGH" = true ∧ tupList (tupGet (a.get "typesGH") 0) = sideOf a ∧
   (tupList (tupGet (a.get "typesGH") 1)).take 2 = (sideOf a).take 2 ∧
   (tupList (tupGet (a.get "typesGH") 1)).drop 4 = (sideOf a).drop 4)

/-- A node's `typesGH` is absent or is `_default_tg` of its own attributes (both sides equal). -/
def SymTg (a : Attrs) : Prop := hasKey a "typesGH" = false ∨ a.get "typesGH" = defaultTg a

instance (a : Attrs) : Decidable (TgOK a) := by unfold TgOK; infer_instance
instance (a : Attrs) : Decidable (SymTg a) := by unfold SymTg; infer_instance

/-- A prepared host: well-formed graph, node labels consistent (`TgOK`), positive bond orders. -/
def HostX (E : LGraph) : Prop :=
  E.WF ∧ (∀ p ∈ E.nodes, TgOK p.2) ∧ (∀ e ∈ E.edges, numOf (pyGet e.2.2 "order" (.num 2)) > 0)

instance (E : LGraph) : Decidable (HostX E) := by unfold HostX; infer_instance

/-- **The guard of the explicit path.**  Every atom of the prepared host that the (re-)match does
not cover has equal labels on both sides.  In `explicitHost host nodes` the atoms with unequal
labels are exactly the atoms whose hydrogens were expanded, so the guard says: *every expanded atom
is matched again*. -/
def RematchCovers (E : LGraph) (m : Mapping) : Prop :=
  ∀ p ∈ E.nodes, preimage m p.1 = none → SymTg p.2

instance (E : LGraph) (m : Mapping) : Decidable (RematchCovers E m) := by unfold RematchCovers; infer_instance

theorem defaultTg_eq (a : Attrs) : defaultTg a = .tup [.tup (sideOf a), .tup (sideOf a)] := rfl

theorem symTg_tgOK (a : Attrs) (h : SymTg a) : TgOK a := by
  rcases h with h | h
  · exact Or.inl h
  · refine Or.inr ⟨hasKey_of_get_ne_none a _ (by rw [h, defaultTg_eq]; intro e; cases e), ?_, ?_, ?_⟩ <;>
      rw [h, defaultTg_eq] <;> rfl

theorem hostX_of_wfHost (host : LGraph) (h : WFHost host) : HostX host :=
  ⟨h.1, fun p hp => Or.inl (h.2.1 p hp), h.2.2⟩

theorem prepNode_hasKey (p : Nat × Attrs) : hasKey (prepNode p).2 "typesGH" = true := by
  unfold prepNode setDefault
  simp only
  split
  · assumption
  · exact hasKey_set_self _ _ _

/-- What `prepNode` leaves in `typesGH` of a consistent node. -/
theorem prepNode_tg (n : Nat) (a : Attrs) (h : TgOK a) :
    tupList (tupGet (Attrs.get (prepNode (n, a)).2 "typesGH") 0) = sideOf a ∧
    (tupList (tupGet (Attrs.get (prepNode (n, a)).2 "typesGH") 1)).take 2 = (sideOf a).take 2 ∧
    (tupList (tupGet (Attrs.get (prepNode (n, a)).2 "typesGH") 1)).drop 4 = (sideOf a).drop 4 := by
  rcases h with h | ⟨h, h0, h1, h2⟩
  · have e1 : (prepNode (n, a)).2 = Dict.set a "typesGH" (defaultTg a) := by
      simp [prepNode, setDefault, h]
    rw [e1, get_set_self, defaultTg_eq]
    exact ⟨rfl, rfl, rfl⟩
  · have e1 : (prepNode (n, a)).2 = a := by simp [prepNode, setDefault, h]
    rw [e1]; exact ⟨h0, h1, h2⟩

theorem prepNode_tg_sym (n : Nat) (a : Attrs) (h : SymTg a) :
    Attrs.get (prepNode (n, a)).2 "typesGH" = defaultTg a := by
  rcases h with h | h
  · simp [prepNode, setDefault, h, get_set_self]
  · have hk : hasKey a "typesGH" = true :=
      hasKey_of_get_ne_none a _ (by rw [h, defaultTg_eq]; intro e; cases e)
    simp [prepNode, setDefault, hk, h]

/-- Label pair written by `_node_glue` on a host node whose reactant-side label is `[e0..e4]` and
whose product-side label agrees with it on the fields `_node_glue` copies. -/
theorem nodeGlue_tg_of (h p : Attrs) (e0 e1 e2 e3 e4 : Val)
    (h0 : tupList (tupGet (Attrs.get h "typesGH") 0) = [e0, e1, e2, e3, e4])
    (h1 : (tupList (tupGet (Attrs.get h "typesGH") 1)).take 2 = [e0, e1])
    (h4 : (tupList (tupGet (Attrs.get h "typesGH") 1)).drop 4 = [e4])
    (hp0 : tgField p 0 0 ≠ .str "*") (hp1 : tgField p 1 0 ≠ .str "*") :
    Attrs.get (nodeGlue h p) "typesGH" =
      .tup [.tup [e0, e1, e2, e3, e4],
            .tup [e0, e1, .num (numOf e2 - (numOf (tgField p 0 2) - numOf (tgField p 1 2))), tgField p 1 3, e4]] := by
  have hp0' : tupGet (tupGet (Attrs.get p "typesGH") 0) 0 ≠ .str "*" := hp0
  have hp1' : tupGet (tupGet (Attrs.get p "typesGH") 1) 0 ≠ .str "*" := hp1
  unfold nodeGlue
  simp only [hp0', hp1', if_false]
  have key : ∀ (x : Attrs), Attrs.get (if hasKey p "h_pairs" = true then Dict.set x "h_pairs" (Attrs.get p "h_pairs") else x) "typesGH"
      = Attrs.get x "typesGH" := by
    intro x; split
    · exact get_set_other _ _ _ _ (by decide)
    · rfl
  rw [key, get_set_self, h0, h1, h4]
  simp [tupGet, tupList, tgField]

theorem nodeGlue_tg_X (n : Nat) (a p : Attrs) (hok : TgOK a)
    (hp0 : tgField p 0 0 ≠ .str "*") (hp1 : tgField p 1 0 ≠ .str "*") :
    Attrs.get (nodeGlue (prepNode (n, a)).2 p) "typesGH" =
      .tup [.tup [pyGet a "element" (.str "*"), pyGet a "aromatic" (.bool false), pyGet a "hcount" (.num 0),
                  pyGet a "charge" (.num 0), pyGet a "neighbors" (.tup [])],
            .tup [pyGet a "element" (.str "*"), pyGet a "aromatic" (.bool false),
                  .num (numOf (pyGet a "hcount" (.num 0)) - (numOf (tgField p 0 2) - numOf (tgField p 1 2))),
                  tgField p 1 3, pyGet a "neighbors" (.tup [])]] := by
  obtain ⟨g0, g1, g4⟩ := prepNode_tg n a hok
  exact nodeGlue_tg_of _ p _ _ _ _ _ g0 g1 g4 hp0 hp1

/-! ### clause (a) on a prepared host -/

theorem sideNode_of (n : Nat) (t : Val) (a : Attrs) (h : tupList t = sideOf a) :
    sideNode n t = (n, [("element", pyGet a "element" (.str "*")), ("aromatic", pyGet a "aromatic" (.bool false)),
             ("hcount", pyGet a "hcount" (.num 0)), ("charge", pyGet a "charge" (.num 0)),
             ("atom_map", Val.num (2 * (n : Int)))]) := by
  simp [sideNode, tupGet, h, sideOf]

theorem glue_left_nodes_X (E T : LGraph) (m : Mapping) (hX : HostX E) (hT : WFTemplate T)
    (hm : IsMono monoSel E (left T) m) :
    (left (glue E T m)).nodes = (hostProj E).nodes := by
  unfold left decompSide glue prepHost hostProj
  simp only [List.filterMap_map, List.map_map]
  apply filterMap_eq_map_of
  intro p hp
  unfold glueNode
  have hok := hX.2.1 p hp
  simp only [Function.comp]
  have hprep : (prepNode p).1 = p.1 := rfl
  rw [hprep]
  cases hpre : preimage m p.1 with
  | none =>
    simp only
    obtain ⟨g0, _, _⟩ := prepNode_tg p.1 p.2 hok
    have e3 : (prepNode (p.1, p.2)) = prepNode p := rfl
    rw [e3] at g0
    rw [prepNode_hasKey]
    simp only [if_true]
    rw [sideNode_of _ _ p.2 g0, hprep]
  | some q =>
    simp only
    have hqm := preimage_mem m p.1 q hpre
    have hq : q ∈ T.ids := by
      rw [← left_ids T hT, ← hm.1]; exact List.mem_map.2 ⟨(q, p.1), hqm, rfl⟩
    have hqa := hT.2.1 (q, T.attrs q) (attrs_mem T q hq)
    have e2 : (prepNode (q, T.attrs q)).2 = T.attrs q := by
      simp [prepNode, setDefault, hqa.1]
    rw [e2, nodeGlue_hasKey]
    have := nodeGlue_tg_X p.1 p.2 (T.attrs q) hok hqa.2.1 hqa.2.2.1
    have e3 : (prepNode p) = (prepNode (p.1, p.2)) := rfl
    rw [e3, this]
    simp [sideNode, tupGet, tupList]

theorem mono_edge_X (E T : LGraph) (m : Mapping) (hT : WFTemplate T)
    (hm : IsMono monoSel E (left T) m) (te : Nat × Nat × Attrs) (hte : te ∈ T.edges)
    (hpos : numOf (ordAt te.2.2 0) > 0) :
    ∃ hu hv e, m.get? te.1 = some hu ∧ m.get? te.2.1 = some hv ∧ e ∈ E.edges ∧
      ((e.1 = hu ∧ e.2.1 = hv) ∨ (e.1 = hv ∧ e.2.1 = hu)) ∧ Attrs.get e.2.2 "order" = ordAt te.2.2 0 := by
  obtain ⟨hu, hv, ea, h1, h2, h3, h4⟩ := hm.2.2.2 _ (mem_left_edges T hT te hte hpos)
  obtain ⟨e, he, rfl, hend⟩ := edge?_some_mem E hu hv ea h3
  refine ⟨hu, hv, e, h1, h2, he, hend, ?_⟩
  simp only [edgeOk, monoSel, List.all_cons, List.all_nil, Bool.and_true, decide_eq_true_eq] at h4
  rw [h4]; simp [get_cons]

theorem glue_left_edges_X (host T : LGraph) (m : Mapping) (hH : HostX host) (hT : WFTemplate T)
    (hm : IsMono monoSel host (left T) m) :
    (left (glue host T m)).edges = (hostProj host).edges := by
  unfold left decompSide glue prepHost hostProj
  simp only [List.filterMap_append, List.filterMap_map, List.map_map, List.filterMap_filterMap]
  apply append_eq_of
  rotate_left
  · apply filterMap_eq_map_of
    intro e he
    unfold glueHostEdge
    simp only [Function.comp, prepEdge]
    have hpo := prepEdge_order e.2.2
    have hopos := hH.2.2 e he
    have hord0 : ordAt (prepEdgeAttrs e.2.2) 0 = pyGet e.2.2 "order" (.num 2) := by
      unfold ordAt; rw [hpo.1]; rfl
    have hcases : tplEdgeFor T m e.1 e.2.1 = none ∨ ∃ te, tplEdgeFor T m e.1 e.2.1 = some te := by
      cases tplEdgeFor T m e.1 e.2.1 <;> simp
    rcases hcases with htf | ⟨te, htf⟩
    · simp only [htf, hpo.2, hord0, hopos, and_self, if_true]
    · simp only [htf]
      unfold tplEdgeFor at htf
      have hte := List.mem_of_find?_eq_some htf
      have hland := List.find?_some htf
      have hTe := hT.2.2 te hte
      have hmo := mergeEdge_order (prepEdgeAttrs e.2.2) te.2.2 hTe.1 hTe.2.1
      have hkey := hmo.2 hpo.2
      have h0 : ordAt (mergeEdge (prepEdgeAttrs e.2.2) te.2.2) 0 = pyGet e.2.2 "order" (.num 2) := by
        unfold ordAt; rw [hmo.1]
        split
        · simp only [tupGet, tupList, List.getD_cons_zero]; exact hord0
        · rename_i hne
          have hx : numOf (ordAt te.2.2 0) > 0 := by
            have h1 := hTe.2.2.1; have h2 := hTe.2.2.2.1
            rcases lt_or_eq_of_le h2 with h | h
            · exact h
            · rw [← h] at h1; exact absurd h1 hne
          obtain ⟨hu, hv, e', g1, g2, he', hend, hord⟩ := mono_edge_X host T m hT hm te hte hx
          obtain ⟨hu', hv', g1', g2', hend'⟩ := (landsOn_iff m te e.1 e.2.1).1 hland
          rw [g1] at g1'; rw [g2] at g2'
          simp only [Option.some.injEq] at g1' g2'
          subst g1' g2'
          have : host.edge? hu hv = some e.2.2 := edge?_of_mem host hH.1 e he hu hv (by omega)
          have h' : host.edge? hu hv = some e'.2.2 := edge?_of_mem host hH.1 e' he' hu hv hend
          rw [this] at h'
          simp only [Option.some.injEq] at h'
          have hget : Attrs.get e.2.2 "order" = ordAt te.2.2 0 := by rw [h']; exact hord
          have hne' : Attrs.get e.2.2 "order" ≠ Val.none := by rw [hget, hTe.2.2.1]; simp
          rw [pyGet_of_get_ne_none _ _ _ hne', hget]; rfl
      simp only [hkey, h0, hopos, and_self, if_true]
  · apply filterMap_eq_nil_of
    intro te hte
    unfold glueNewEdge
    cases g1 : m.get? te.1 with
    | none => rfl
    | some hu =>
      cases g2 : m.get? te.2.1 with
      | none => rfl
      | some hv =>
        simp only
        cases hhe : host.hasEdge hu hv with
        | true => simp
        | false =>
          simp only [Bool.false_eq_true, if_false]
          have hTe := hT.2.2 te hte
          by_cases hx : numOf (ordAt te.2.2 0) > 0
          · exfalso
            obtain ⟨hu', hv', e', g1', g2', he', hend, _⟩ := mono_edge_X host T m hT hm te hte hx
            rw [g1] at g1'; rw [g2] at g2'
            simp only [Option.some.injEq] at g1' g2'
            subst g1' g2'
            have := hasEdge_of_mem host hH.1 e' he' hu hv hend
            rw [this] at hhe; exact Bool.noConfusion hhe
          · simp [hx]

/-- Clause (a) on a prepared host: the reactant side of the glued ITS is the prepared host itself
(as `its_decompose` renders it). -/
theorem glue_left_X (E T : LGraph) (m : Mapping) (hX : HostX E) (hT : WFTemplate T)
    (hm : IsMono monoSel E (left T) m) : left (glue E T m) = hostProj E := by
  have h1 := glue_left_nodes_X E T m hX hT hm
  have h2 := glue_left_edges_X E T m hX hT hm
  cases hL : left (glue E T m) with
  | mk ns es =>
    rw [hL] at h1 h2
    simp only at h1 h2
    rw [h1, h2]

/-! ### node labels of the glued graph -/

/-- Label pair of a matched atom in the glued graph (prepared host). -/
theorem glue_tg_matched_X (host T : LGraph) (m : Mapping) (hH : HostX host) (hT : WFTemplate T)
    (hm : IsMono monoSel host (left T) m) (q h : Nat) (hqh : (q, h) ∈ m) :
    Attrs.get ((glue host T m).attrs h) "typesGH" =
      .tup [.tup [pyGet (host.attrs h) "element" (.str "*"), pyGet (host.attrs h) "aromatic" (.bool false),
                  pyGet (host.attrs h) "hcount" (.num 0), pyGet (host.attrs h) "charge" (.num 0),
                  pyGet (host.attrs h) "neighbors" (.tup [])],
            .tup [pyGet (host.attrs h) "element" (.str "*"), pyGet (host.attrs h) "aromatic" (.bool false),
                  .num (numOf (pyGet (host.attrs h) "hcount" (.num 0)) -
                        (numOf (tgField (T.attrs q) 0 2) - numOf (tgField (T.attrs q) 1 2))),
                  tgField (T.attrs q) 1 3, pyGet (host.attrs h) "neighbors" (.tup [])]] := by
  have hh : h ∈ host.ids := (hm.2.2.1 (q, h) hqh).1
  rw [glue_attrs host T m h hh]
  unfold glueNode
  have : (prepNode (h, host.attrs h)).1 = h := rfl
  rw [this, preimage_of_mem m hm.2.1 q h hqh]
  simp only
  have hq : q ∈ T.ids := by
    rw [← left_ids T hT, ← hm.1]; exact List.mem_map.2 ⟨(q, h), hqh, rfl⟩
  have hqa := hT.2.1 (q, T.attrs q) (attrs_mem T q hq)
  have e2 : (prepNode (q, T.attrs q)).2 = T.attrs q := by
    simp [prepNode, setDefault, hqa.1]
  rw [e2]
  have hok := hH.2.1 (h, host.attrs h) (attrs_mem host h hh)
  exact nodeGlue_tg_X h (host.attrs h) (T.attrs q) hok hqa.2.1 hqa.2.2.1

/-- Label pair of an atom outside the match whose own label pair is symmetric. -/
theorem glue_tg_unmatched_X (host T : LGraph) (m : Mapping) (h : Nat) (hh : h ∈ host.ids)
    (hpre : preimage m h = none) (hs : SymTg (host.attrs h)) :
    Attrs.get ((glue host T m).attrs h) "typesGH" = defaultTg (host.attrs h) := by
  rw [glue_attrs host T m h hh]
  unfold glueNode
  have : (prepNode (h, host.attrs h)).1 = h := rfl
  rw [this, hpre]
  simp only
  exact prepNode_tg_sym h _ hs

/-- Sum over the glued graph of a quantity that depends only on `typesGH`, vanishes on symmetric
labels and equals `val q` on the image of template node `q` — given that the match covers every atom
with an asymmetric label. -/
theorem glue_sum_X (host T : LGraph) (m : Mapping) (hH : HostX host) (hT : WFTemplate T)
    (hm : IsMono monoSel host (left T) m) (hc : RematchCovers host m) (f : Val → Int)
    (h0 : ∀ a : Attrs, f (defaultTg a) = 0)
    (hq : ∀ q h, (q, h) ∈ m → f (Attrs.get ((glue host T m).attrs h) "typesGH") = f (Attrs.get (T.attrs q) "typesGH")) :
    sumBy (glue host T m) (fun a => f (Attrs.get a "typesGH")) = sumBy T (fun a => f (Attrs.get a "typesGH")) := by
  unfold sumBy
  have hnodes : (glue host T m).nodes = host.nodes.map (glueNode T m ∘ prepNode) := by
    unfold glue prepHost; simp only [List.map_map]
  rw [hnodes, List.map_map]
  have hpt : ∀ p ∈ host.nodes, ((fun p : Nat × Attrs => f (Attrs.get p.2 "typesGH")) ∘ (glueNode T m ∘ prepNode)) p =
      (match preimage m p.1 with | some q => f (Attrs.get (T.attrs q) "typesGH") | none => 0) := by
    intro p hp
    have hid : p.1 ∈ host.ids := List.mem_map.2 ⟨p, hp, rfl⟩
    have hat : host.attrs p.1 = p.2 := attrs_of_mem host hH.1.1 p hp
    have hga := glue_attrs host T m p.1 hid
    rw [hat] at hga
    simp only [Function.comp]
    have e : prepNode p = prepNode (p.1, p.2) := rfl
    rw [e, ← hga]
    cases hpre : preimage m p.1 with
    | none =>
      simp only
      rw [glue_tg_unmatched_X host T m p.1 hid hpre (by rw [hat]; exact hc p hp hpre)]; exact h0 _
    | some q =>
      simp only
      exact hq q p.1 (preimage_mem m p.1 q hpre)
  rw [List.map_congr_left hpt]
  refine (sum_preimage host.nodes hH.1.1 (fun q => f (Attrs.get (T.attrs q) "typesGH")) m hm.2.1
    (fun x hx => (hm.2.2.1 x hx).1)).trans ?_
  have h1 : (m.map (fun x => f (Attrs.get (T.attrs x.1) "typesGH"))) =
      (m.map (·.1)).map (fun q => f (Attrs.get (T.attrs q) "typesGH")) := by simp [List.map_map]
  rw [h1, hm.1, left_ids T hT]
  unfold LGraph.ids
  rw [List.map_map]
  apply congrArg
  apply List.map_congr_left
  intro p hp
  simp only [Function.comp]
  rw [attrs_of_mem T hT.1.1 p hp]

theorem glue_nodes_attrs_X (host T : LGraph) (m : Mapping) (hn : host.ids.Nodup) :
    ∀ p ∈ (glue host T m).nodes, p.1 ∈ host.ids ∧ p.2 = (glue host T m).attrs p.1 := by
  intro p hp
  have hnodes : (glue host T m).nodes = host.nodes.map (glueNode T m ∘ prepNode) := by
    unfold glue prepHost; simp only [List.map_map]
  rw [hnodes] at hp
  obtain ⟨p0, hp0, rfl⟩ := List.mem_map.1 hp
  have hid : p0.1 ∈ host.ids := List.mem_map.2 ⟨p0, hp0, rfl⟩
  have h1 : ((glueNode T m ∘ prepNode) p0).1 = p0.1 := by simp [Function.comp, glueNode_fst, prepNode]
  rw [h1]
  refine ⟨hid, ?_⟩
  rw [glue_attrs host T m p0.1 hid, attrs_of_mem host hn p0 hp0]
  rfl

/-- Labels of a matched atom in the glued graph (prepared host): the template atom's element and
hydrogen-count change. -/
theorem glue_node_labels_X (host T : LGraph) (m : Mapping) (hH : HostX host) (hT : WFTemplate T)
    (hm : IsMono monoSel host (left T) m) (q h : Nat) (hqh : (q, h) ∈ m) :
    tgField ((glue host T m).attrs h) 0 0 = tgField (T.attrs q) 0 0 ∧
    hR ((glue host T m).attrs h) - hL ((glue host T m).attrs h) = hR (T.attrs q) - hL (T.attrs q) := by
  have hq : q ∈ T.ids := by
    rw [← left_ids T hT, ← hm.1]; exact List.mem_map.2 ⟨(q, h), hqh, rfl⟩
  have hqa := hT.2.1 (q, T.attrs q) (attrs_mem T q hq)
  have hel := (mono_node host T m hT hm q h hqh).1
  have e := glue_tg_matched_X host T m hH hT hm q h hqh
  have hL' : hL ((glue host T m).attrs h) = numOf (pyGet (host.attrs h) "hcount" (.num 0)) := by
    unfold hL tgField; rw [e]; rfl
  have hR' : hR ((glue host T m).attrs h) = numOf (pyGet (host.attrs h) "hcount" (.num 0)) -
      (numOf (tgField (T.attrs q) 0 2) - numOf (tgField (T.attrs q) 1 2)) := by
    unfold hR tgField; rw [e]; rfl
  have hE : tgField ((glue host T m).attrs h) 0 0 = pyGet (host.attrs h) "element" (.str "*") := by
    unfold tgField; rw [e]; rfl
  constructor
  · rw [hE]
    have hne : Attrs.get (host.attrs h) "element" ≠ Val.none := by
      rw [hel]; intro e'
      have := hqa.2.2.2
      rw [e'] at this; exact Bool.noConfusion this
    rw [pyGet_of_get_ne_none _ _ _ hne, hel]
  · rw [hL', hR']; unfold hR hL; ring

/-- Clause (c), specification form, on a prepared host: the labelled changed-bond graph of the glued
ITS is isomorphic to the template's (no guard needed: every end atom of a changed bond is matched). -/
theorem glue_lc_iso_X (host T : LGraph) (m : Mapping) (hH : HostX host) (hT : WFTemplate T)
    (hm : IsMono monoSel host (left T) m) (hr : RoundExact host T m) :
    ∃ m', IsIso chgSel (labelledChanges (glue host T m)) (labelledChanges T) m' := by
  have F1 := glue_edge_image host T m hT hm hr
  have F2 := glue_edges_classified host T m hT hr
  have hGn : (glue host T m).ids.Nodup := by rw [glue_ids]; exact hH.1.1
  have hTn : T.ids.Nodup := hT.1.1
  have hdom : ∀ v ∈ T.ids, ∃ h, m.get? v = some h := by
    intro v hv; apply mget_total; rw [hm.1, left_ids T hT]; exact hv
  -- the isomorphism
  let f : Nat → Nat := fun q => (m.get? q).getD 0
  have hf : ∀ q h, m.get? q = some h → f q = h := by intro q h hq; simp [f, hq]
  refine ⟨(labelledChanges T).ids.map fun q => (q, f q), ?_⟩
  -- A: template centre atoms and their images
  have hA : ∀ q ∈ (labelledChanges T).ids, q ∈ T.ids ∧ m.get? q = some (f q) ∧
      f q ∈ (labelledChanges (glue host T m)).ids := by
    intro q hq
    rw [lc_ids, List.mem_filter] at hq
    obtain ⟨hqT, hqt⟩ := hq
    obtain ⟨h, hg⟩ := hdom q hqT
    have hfq := hf q h hg
    refine ⟨hqT, by rw [hfq]; exact hg, ?_⟩
    rw [lc_ids, List.mem_filter, glue_ids]
    refine ⟨by rw [hfq]; exact (hm.2.2.1 (q, h) (mget_mem m q h hg)).1, ?_⟩
    obtain ⟨te, hte, hd, hend⟩ := (touchedB_iff T q).1 hqt
    obtain ⟨e, he, hl, hde⟩ := F1 te hte
    rw [touchedB_iff]
    refine ⟨e, he, by rw [hde]; exact hd, ?_⟩
    rcases landsOn_ends m te e.1 e.2.1 hl with ⟨g1, g2⟩ | ⟨g1, g2⟩ <;> rcases hend with rfl | rfl
    · left; rw [hfq]; rw [hg] at g1; exact (Option.some.inj g1).symm
    · right; rw [hfq]; rw [hg] at g2; exact (Option.some.inj g2).symm
    · right; rw [hfq]; rw [hg] at g1; exact (Option.some.inj g1).symm
    · left; rw [hfq]; rw [hg] at g2; exact (Option.some.inj g2).symm
  -- B: every centre atom of the result is such an image
  have hB : ∀ h ∈ (labelledChanges (glue host T m)).ids, ∃ q ∈ (labelledChanges T).ids, f q = h := by
    intro h hh
    rw [lc_ids, List.mem_filter] at hh
    obtain ⟨e, he, hd, hend⟩ := (touchedB_iff _ h).1 hh.2
    rcases F2 e he with ⟨te, hte, hl, hde⟩ | ⟨hz, _, _⟩
    · have hdt : delta te.2.2 ≠ 0 := by rw [← hde]; exact hd
      have hends := hT.1.2.1 te hte
      have t1 : te.1 ∈ (labelledChanges T).ids := by
        rw [lc_ids, List.mem_filter]; exact ⟨hends.1, (touchedB_iff T _).2 ⟨te, hte, hdt, Or.inl rfl⟩⟩
      have t2 : te.2.1 ∈ (labelledChanges T).ids := by
        rw [lc_ids, List.mem_filter]; exact ⟨hends.2.1, (touchedB_iff T _).2 ⟨te, hte, hdt, Or.inr rfl⟩⟩
      rcases landsOn_ends m te e.1 e.2.1 hl with ⟨g1, g2⟩ | ⟨g1, g2⟩ <;> rcases hend with rfl | rfl
      · exact ⟨te.1, t1, hf _ _ g1⟩
      · exact ⟨te.2.1, t2, hf _ _ g2⟩
      · exact ⟨te.2.1, t2, hf _ _ g2⟩
      · exact ⟨te.1, t1, hf _ _ g1⟩
    · exact absurd hz hd
  -- injectivity on the centre
  have hinj : ∀ p ∈ (labelledChanges T).ids, ∀ q ∈ (labelledChanges T).ids, f p = f q → p = q := by
    intro p hp q hq hpq
    have a := (hA p hp).2.1
    have b := (hA q hq).2.1
    rw [hpq] at a
    exact mget_inj m hm.2.1 p q (f q) a b
  have hPn : (labelledChanges T).ids.Nodup := by rw [lc_ids]; exact hTn.filter _
  have hHn : (labelledChanges (glue host T m)).ids.Nodup := by rw [lc_ids]; exact hGn.filter _
  have himg : ((labelledChanges T).ids.map f).Nodup := List.Nodup.map_on hinj hPn
  -- a changed bond of the result between two images comes from a changed template bond between the pre-images
  have hback : ∀ e ∈ (glue host T m).edges, delta e.2.2 ≠ 0 →
      ∃ te ∈ T.edges, delta te.2.2 = delta e.2.2 ∧ landsOn m te e.1 e.2.1 = true := by
    intro e he hd
    rcases F2 e he with ⟨te, hte, hl, hde⟩ | ⟨hz, _, _⟩
    · exact ⟨te, hte, hde.symm, hl⟩
    · exact absurd hz hd
  refine ⟨⟨⟨?_, ?_, ?_, ?_⟩, ?_⟩, ?_⟩
  · -- domain
    rw [List.map_map]
    exact (List.map_congr_left (fun q _ => rfl)).trans (List.map_id _)
  · -- images distinct
    rw [List.map_map]
    exact himg
  · -- node labels
    intro ph hph
    simp only [List.mem_map] at hph
    obtain ⟨q, hq, rfl⟩ := hph
    obtain ⟨hqT, hg, hfH⟩ := hA q hq
    refine ⟨hfH, ?_⟩
    simp only
    rw [lc_attrs _ hGn _ hfH, lc_attrs T hTn q hq]
    obtain ⟨n1, n2⟩ := glue_node_labels_X host T m hH hT hm q (f q) (mget_mem m q (f q) hg)
    simp only [nodeOk, chgSel, List.all_cons, List.all_nil, Bool.and_true, get_cons, Bool.not_false,
      Bool.true_or, Bool.and_eq_true, decide_eq_true_eq]
    simp [n1, n2]
  · -- bonds
    intro x hx
    obtain ⟨te, hte, hdt, rfl⟩ := (mem_lc_edges T x).1 hx
    have hends := hT.1.2.1 te hte
    have t1 : te.1 ∈ (labelledChanges T).ids := by
      rw [lc_ids, List.mem_filter]; exact ⟨hends.1, (touchedB_iff T _).2 ⟨te, hte, hdt, Or.inl rfl⟩⟩
    have t2 : te.2.1 ∈ (labelledChanges T).ids := by
      rw [lc_ids, List.mem_filter]; exact ⟨hends.2.1, (touchedB_iff T _).2 ⟨te, hte, hdt, Or.inr rfl⟩⟩
    obtain ⟨e, he, hl, hde⟩ := F1 te hte
    have hdE : delta e.2.2 ≠ 0 := by rw [hde]; exact hdt
    -- the result's changed-bond graph has an edge at the image end points
    have hx' : (e.1, e.2.1, [("d", Val.num (delta e.2.2))]) ∈ (labelledChanges (glue host T m)).edges :=
      (mem_lc_edges _ _).2 ⟨e, he, hdE, rfl⟩
    have hendE : ((e.1 = f te.1 ∧ e.2.1 = f te.2.1) ∨ (e.1 = f te.2.1 ∧ e.2.1 = f te.1)) := by
      rcases landsOn_ends m te e.1 e.2.1 hl with ⟨g1, g2⟩ | ⟨g1, g2⟩
      · exact Or.inl ⟨(hf _ _ g1).symm, (hf _ _ g2).symm⟩
      · exact Or.inr ⟨(hf _ _ g2).symm, (hf _ _ g1).symm⟩
    have hsome : ((labelledChanges (glue host T m)).edge? (f te.1) (f te.2.1)).isSome = true := by
      unfold LGraph.edge?
      rw [Option.isSome_map, List.find?_isSome]
      exact ⟨_, hx', by simpa using hendE⟩
    obtain ⟨ea, hea⟩ := Option.isSome_iff_exists.1 hsome
    refine ⟨f te.1, f te.2.1, ea, mget_map_self _ f _ t1, mget_map_self _ f _ t2, hea, ?_⟩
    -- whichever edge the lookup returns, it carries the template bond's order change
    obtain ⟨e2, he2, rfl, hend2⟩ := edge?_some_mem _ _ _ _ hea
    obtain ⟨eG, heG, hdG, rfl⟩ := (mem_lc_edges _ e2).1 he2
    obtain ⟨te', hte', hdd, hl'⟩ := hback eG heG hdG
    have hl2 : landsOn m te eG.1 eG.2.1 = true := by
      rw [landsOn_iff]
      refine ⟨f te.1, f te.2.1, (hA _ t1).2.1, (hA _ t2).2.1, ?_⟩
      simp only at hend2
      rcases hend2 with ⟨a, b⟩ | ⟨a, b⟩
      · exact Or.inl ⟨a.symm, b.symm⟩
      · exact Or.inr ⟨b.symm, a.symm⟩
    have := tpl_edge_unique T hT.1 m hm.2.1 te te' hte hte' _ _ hl2 hl'
    subst this
    simp [edgeOk, chgSel, get_cons, hdd]
  · -- non-bonds
    intro p q hp hq gp gq hno
    obtain ⟨hpP, rfl⟩ := mget_map_some _ f p hp gp
    obtain ⟨hqP, rfl⟩ := mget_map_some _ f q hq gq
    by_contra hcon
    have hsome : ((labelledChanges (glue host T m)).edge? (f p) (f q)).isSome = true := by
      cases hh : ((labelledChanges (glue host T m)).edge? (f p) (f q)).isSome with
      | true => rfl
      | false => exact absurd (by unfold LGraph.hasEdge; exact hh) hcon
    obtain ⟨ea, hea⟩ := Option.isSome_iff_exists.1 hsome
    obtain ⟨e2, he2, _, hend2⟩ := edge?_some_mem _ _ _ _ hea
    obtain ⟨eG, heG, hdG, rfl⟩ := (mem_lc_edges _ e2).1 he2
    obtain ⟨te', hte', hdd, hl'⟩ := hback eG heG hdG
    have hdt' : delta te'.2.2 ≠ 0 := by rw [hdd]; exact hdG
    -- te' joins p and q
    have hpq : (te'.1 = p ∧ te'.2.1 = q) ∨ (te'.1 = q ∧ te'.2.1 = p) := by
      have gp' := (hA p hpP).2.1
      have gq' := (hA q hqP).2.1
      simp only at hend2
      rcases landsOn_ends m te' eG.1 eG.2.1 hl' with ⟨g1, g2⟩ | ⟨g1, g2⟩ <;> rcases hend2 with ⟨a, b⟩ | ⟨a, b⟩
      · rw [a] at g1; rw [b] at g2
        exact Or.inl ⟨mget_inj m hm.2.1 _ _ _ g1 gp', mget_inj m hm.2.1 _ _ _ g2 gq'⟩
      · rw [a] at g1; rw [b] at g2
        exact Or.inr ⟨mget_inj m hm.2.1 _ _ _ g1 gq', mget_inj m hm.2.1 _ _ _ g2 gp'⟩
      · rw [b] at g1; rw [a] at g2
        exact Or.inr ⟨mget_inj m hm.2.1 _ _ _ g1 gq', mget_inj m hm.2.1 _ _ _ g2 gp'⟩
      · rw [b] at g1; rw [a] at g2
        exact Or.inl ⟨mget_inj m hm.2.1 _ _ _ g1 gp', mget_inj m hm.2.1 _ _ _ g2 gq'⟩
    have hx : (te'.1, te'.2.1, [("d", Val.num (delta te'.2.2))]) ∈ (labelledChanges T).edges :=
      (mem_lc_edges T _).2 ⟨te', hte', hdt', rfl⟩
    have : ((labelledChanges T).edge? p q).isSome = true := by
      unfold LGraph.edge?
      rw [Option.isSome_map, List.find?_isSome]
      exact ⟨_, hx, by simpa using hpq⟩
    unfold LGraph.hasEdge at hno
    rw [this] at hno; exact Bool.noConfusion hno
  · -- equally many centre atoms
    have hperm : (labelledChanges (glue host T m)).ids.Perm ((labelledChanges T).ids.map f) := by
      rw [List.perm_ext_iff_of_nodup hHn himg]
      intro h
      constructor
      · intro hh; obtain ⟨q, hq, rfl⟩ := hB h hh; exact List.mem_map.2 ⟨q, hq, rfl⟩
      · intro hh; obtain ⟨q, hq, rfl⟩ := List.mem_map.1 hh; exact (hA q hq).2.2
    have := hperm.length_eq
    simp only [List.length_map, LGraph.ids] at this
    exact this

/-! ## Part 2: `explicitHost host nodes` is a prepared host -/

/-- The attributes `h_to_explicit` leaves on a heavy atom after moving `cnt` (half-units) of its
hydrogens into atoms. -/
def expAttrs (a : Attrs) (cnt : Int) : Attrs :=
  let a1 : Attrs := Dict.set a "hcount" (.num (numOf (a.get "hcount") - cnt))
  if hasKey a1 "typesGH" then
    let t := a1.get "typesGH"
    let r0 := tupList (tupGet t 0)
    Dict.set a1 "typesGH" (.tup ([.tup (r0.take 2 ++ [.num (numOf (r0.getD 2 .none) - cnt)] ++ r0.drop 3)] ++ (tupList t).drop 1))
  else a1

/-- The fresh hydrogen ids of one expansion step. -/
def freshIds (next k : Nat) : List Nat := (List.range k).map (· + next + 1)

theorem expandOne_eq (G : LGraph) (next v : Nat) :
    expandOne G next v =
      if !G.hasNode v then (G, next) else
      if numOf (pyGet (G.attrs v) "hcount" (.num 0)) ≤ 0 then (G, next) else
      ({ nodes := (G.nodes.map fun p => if p.1 = v then (p.1, expAttrs (G.attrs v) (numOf (pyGet (G.attrs v) "hcount" (.num 0)))) else p) ++
            (freshIds next (numOf (pyGet (G.attrs v) "hcount" (.num 0)) / 2).toNat).map fun i => (i, newH)
         edges := G.edges ++ (freshIds next (numOf (pyGet (G.attrs v) "hcount" (.num 0)) / 2).toNat).map fun i => (v, i, [("order", .num 2)]) },
       next + (numOf (pyGet (G.attrs v) "hcount" (.num 0)) / 2).toNat) := rfl

theorem mem_freshIds (next k i : Nat) : i ∈ freshIds next k ↔ next < i ∧ i ≤ next + k := by
  unfold freshIds
  simp only [List.mem_map, List.mem_range]
  constructor
  · rintro ⟨j, hj, rfl⟩; omega
  · rintro ⟨h1, h2⟩; exact ⟨i - next - 1, by omega, by omega⟩

theorem nodup_freshIds (next k : Nat) : (freshIds next k).Nodup := by
  unfold freshIds
  apply List.Nodup.map _ List.nodup_range
  intro a b h
  simp only at h
  omega

theorem pyGet_expAttrs_other (a : Attrs) (cnt : Int) (k : String) (d : Val) (h1 : k ≠ "hcount") (h2 : k ≠ "typesGH") :
    pyGet (expAttrs a cnt) k d = pyGet a k d := by
  unfold expAttrs
  simp only
  split
  · rw [pyGet_set_other _ _ _ _ _ h2, pyGet_set_other _ _ _ _ _ h1]
  · rw [pyGet_set_other _ _ _ _ _ h1]

theorem pyGet_expAttrs_hcount (a : Attrs) (cnt : Int) (d : Val) :
    pyGet (expAttrs a cnt) "hcount" d = .num (numOf (a.get "hcount") - cnt) := by
  unfold expAttrs
  simp only
  split
  · rw [pyGet_set_other _ _ _ _ _ (by decide), pyGet_set_self]
  · rw [pyGet_set_self]

theorem hasKey_expAttrs_tg (a : Attrs) (cnt : Int) : hasKey (expAttrs a cnt) "typesGH" = hasKey a "typesGH" := by
  unfold expAttrs
  simp only
  split
  · rename_i h
    rw [hasKey_set_self]
    rw [hasKey_set_other _ _ _ _ (by decide)] at h
    exact h.symm
  · rw [hasKey_set_other _ _ _ _ (by decide)]

theorem get_expAttrs_tg (a : Attrs) (cnt : Int) (h : hasKey a "typesGH" = true) :
    Attrs.get (expAttrs a cnt) "typesGH" =
      .tup ([.tup ((tupList (tupGet (a.get "typesGH") 0)).take 2 ++
                    [.num (numOf ((tupList (tupGet (a.get "typesGH") 0)).getD 2 .none) - cnt)] ++
                    (tupList (tupGet (a.get "typesGH") 0)).drop 3)] ++ (tupList (a.get "typesGH")).drop 1) := by
  unfold expAttrs
  have h' : hasKey (Dict.set a "hcount" (Val.num (numOf (a.get "hcount") - cnt))) "typesGH" = true := by
    rw [hasKey_set_other _ _ _ _ (by decide)]; exact h
  simp only [h', if_true]
  rw [get_set_self, get_set_other _ _ _ _ (by decide)]

theorem getD_drop_one (L : List Val) (d : Val) : (L.drop 1).getD 0 d = L.getD 1 d := by
  cases L <;> simp

theorem sideOf_expAttrs (a : Attrs) (cnt : Int) :
    sideOf (expAttrs a cnt) =
      [pyGet a "element" (.str "*"), pyGet a "aromatic" (.bool false), .num (numOf (a.get "hcount") - cnt),
       pyGet a "charge" (.num 0), pyGet a "neighbors" (.tup [])] := by
  unfold sideOf
  rw [pyGet_expAttrs_other _ _ "element" _ (by decide) (by decide), pyGet_expAttrs_other _ _ "aromatic" _ (by decide) (by decide),
    pyGet_expAttrs_other _ _ "charge" _ (by decide) (by decide), pyGet_expAttrs_other _ _ "neighbors" _ (by decide) (by decide),
    pyGet_expAttrs_hcount]

theorem tgOK_expAttrs (a : Attrs) (cnt : Int) (h : TgOK a) : TgOK (expAttrs a cnt) := by
  rcases h with h | ⟨h, h0, h1, h4⟩
  · left; rw [hasKey_expAttrs_tg]; exact h
  · right
    have hg := get_expAttrs_tg a cnt h
    rw [h0] at hg
    have s1 : tupGet (Attrs.get (expAttrs a cnt) "typesGH") 1 = tupGet (a.get "typesGH") 1 := by
      rw [hg]
      unfold tupGet
      simp only [tupList, List.singleton_append, List.getD_cons_succ]
      exact getD_drop_one _ _
    refine ⟨by rw [hasKey_expAttrs_tg]; exact h, ?_, ?_, ?_⟩
    · rw [hg, sideOf_expAttrs]
      simp [tupGet, tupList, sideOf, numOf_pyGet_zero]
    · rw [s1, h1, sideOf_expAttrs]; rfl
    · rw [s1, h4, sideOf_expAttrs]; rfl

theorem le_foldl_max (l : List Nat) (b i : Nat) (h : i ∈ l ∨ i ≤ b) : i ≤ l.foldl max b := by
  induction l generalizing b with
  | nil => simpa using h
  | cons x xs ih =>
    simp only [List.foldl_cons]
    apply ih
    simp only [List.mem_cons] at h
    rcases h with (rfl | h) | h
    · exact Or.inr (Nat.le_max_right _ _)
    · exact Or.inl h
    · exact Or.inr (le_trans h (Nat.le_max_left _ _))

theorem ids_map_if (ns : List (Nat × Attrs)) (v : Nat) (b : Attrs) :
    (ns.map fun p => if p.1 = v then (p.1, b) else p).map (·.1) = ns.map (·.1) := by
  rw [List.map_map]
  apply List.map_congr_left
  intro p _
  simp only [Function.comp]
  split <;> rfl

/-- Invariant of the accumulator of `h_to_explicit` when it is run on the prepared host.  `hc0` is
the hydrogen count the substrate gives each atom. -/
structure ExpInv (nodes : List Nat) (hc0 : Nat → Int) (G : LGraph) (next : Nat) : Prop where
  wf : G.WF
  bound : ∀ i ∈ G.ids, i ≤ next
  tg : ∀ p ∈ G.nodes, TgOK p.2
  ord : ∀ e ∈ G.edges, numOf (pyGet e.2.2 "order" (.num 2)) > 0
  sym : ∀ p ∈ G.nodes, SymTg p.2 ∨ (p.1 ∈ nodes ∧ 0 < hc0 p.1)
  hcb : ∀ p ∈ G.nodes, 0 < numOf (pyGet p.2 "hcount" (.num 0)) → numOf (pyGet p.2 "hcount" (.num 0)) = hc0 p.1

theorem newH_tgOK : TgOK newH := by decide
theorem newH_sym : SymTg newH := by decide

theorem expandOne_inv (nodes : List Nat) (hc0 : Nat → Int) (G : LGraph) (next v : Nat)
    (h : ExpInv nodes hc0 G next) (hv : v ∈ nodes) :
    ExpInv nodes hc0 (expandOne G next v).1 (expandOne G next v).2 := by
  rw [expandOne_eq]
  by_cases hn : (!G.hasNode v) = true
  · simp only [hn, if_true]; exact h
  · simp only [hn]
    by_cases hc : numOf (pyGet (G.attrs v) "hcount" (.num 0)) ≤ 0
    · simp only [hc, if_true]; exact h
    · simp only [hc, if_false, Bool.false_eq_true]
      have hvG : v ∈ G.ids := by
        have : G.hasNode v = true := by simpa using hn
        unfold LGraph.hasNode at this
        exact List.contains_iff_mem.1 this
      have hcpos : 0 < numOf (pyGet (G.attrs v) "hcount" (.num 0)) := not_le.1 hc
      have hvmem := attrs_mem G v hvG
      generalize hk : (numOf (pyGet (G.attrs v) "hcount" (.num 0)) / 2).toNat = k
      have hids : (LGraph.mk ((G.nodes.map fun p => if p.1 = v then (p.1, expAttrs (G.attrs v) (numOf (pyGet (G.attrs v) "hcount" (.num 0)))) else p) ++
            (freshIds next k).map fun i => (i, newH))
          (G.edges ++ (freshIds next k).map fun i => (v, i, [("order", Val.num 2)]))).ids = G.ids ++ freshIds next k := by
        unfold LGraph.ids
        rw [List.map_append, ids_map_if, List.map_map]
        congr 1
        exact (List.map_congr_left (fun i _ => rfl)).trans (List.map_id _)
      have hvnext : v ≤ next := h.bound v hvG
      refine ⟨⟨?_, ?_, ?_⟩, ?_, ?_, ?_, ?_, ?_⟩
      · -- ids distinct
        rw [hids]
        refine List.nodup_append.2 ⟨h.wf.1, nodup_freshIds _ _, ?_⟩
        intro a ha b hb hab
        have := h.bound a ha
        have := (mem_freshIds _ _ _).1 hb
        omega
      · -- edges join existing distinct nodes
        intro e he
        rw [hids]
        simp only [List.mem_append, List.mem_map] at he ⊢
        rcases he with he | ⟨i, hi, rfl⟩
        · obtain ⟨a, b, c⟩ := h.wf.2.1 e he
          exact ⟨Or.inl a, Or.inl b, c⟩
        · have := (mem_freshIds _ _ _).1 hi
          exact ⟨Or.inl hvG, Or.inr hi, by simp only; omega⟩
      · -- no parallel edges
        simp only [List.map_append, List.map_map]
        refine List.nodup_append.2 ⟨h.wf.2.2, ?_, ?_⟩
        · apply List.Nodup.map_on _ (nodup_freshIds _ _)
          intro i hi j hj hij
          have := (mem_freshIds _ _ _).1 hi
          have := (mem_freshIds _ _ _).1 hj
          simp only [Function.comp, Prod.mk.injEq] at hij
          omega
        · intro x hx y hy hxy
          obtain ⟨e, he, rfl⟩ := List.mem_map.1 hx
          obtain ⟨i, hi, rfl⟩ := List.mem_map.1 hy
          obtain ⟨a, b, _⟩ := h.wf.2.1 e he
          have := h.bound _ a
          have := h.bound _ b
          have := (mem_freshIds _ _ _).1 hi
          simp only [Function.comp, Prod.mk.injEq] at hxy
          omega
      · -- bound
        intro i hi
        rw [hids] at hi
        rcases List.mem_append.1 hi with hi | hi
        · have := h.bound i hi; omega
        · exact ((mem_freshIds _ _ _).1 hi).2
      · -- labels consistent
        intro p hp
        simp only [List.mem_append, List.mem_map] at hp
        rcases hp with ⟨p0, hp0, rfl⟩ | ⟨i, _, rfl⟩
        · split
          · exact tgOK_expAttrs _ _ (h.tg _ hvmem)
          · exact h.tg p0 hp0
        · exact newH_tgOK
      · -- orders positive
        intro e he
        simp only [List.mem_append, List.mem_map] at he
        rcases he with he | ⟨i, _, rfl⟩
        · exact h.ord e he
        · show numOf (pyGet [("order", Val.num 2)] "order" (Val.num 2)) > 0
          decide
      · -- symmetric labels except on expanded atoms
        intro p hp
        simp only [List.mem_append, List.mem_map] at hp
        rcases hp with ⟨p0, hp0, rfl⟩ | ⟨i, _, rfl⟩
        · split
          · rename_i hpv
            right
            simp only
            rw [hpv]
            have := h.hcb _ hvmem hcpos
            simp only at this
            exact ⟨hv, by rw [← this]; exact hcpos⟩
          · exact h.sym p0 hp0
        · exact Or.inl newH_sym
      · -- positive counts are the substrate's
        intro p hp
        simp only [List.mem_append, List.mem_map] at hp
        rcases hp with ⟨p0, hp0, rfl⟩ | ⟨i, _, rfl⟩
        · split
          · intro hpos
            exfalso
            simp only at hpos
            rw [pyGet_expAttrs_hcount, numOf_pyGet_zero] at hpos
            simp only [numOf] at hpos
            omega
          · exact h.hcb p0 hp0
        · intro hpos
          have : ¬ 0 < numOf (pyGet newH "hcount" (.num 0)) := by decide
          exact absurd hpos this

theorem expFold_inv (nodes : List Nat) (hc0 : Nat → Int) (l : List Nat) (hl : ∀ v ∈ l, v ∈ nodes)
    (G : LGraph) (next : Nat) (h : ExpInv nodes hc0 G next) :
    ExpInv nodes hc0 (l.foldl (fun (acc : LGraph × Nat) v => expandOne acc.1 acc.2 v) (G, next)).1
      (l.foldl (fun (acc : LGraph × Nat) v => expandOne acc.1 acc.2 v) (G, next)).2 := by
  induction l generalizing G next with
  | nil => exact h
  | cons v rest ih =>
    simp only [List.foldl_cons]
    exact ih (fun w hw => hl w (List.mem_cons_of_mem _ hw)) _ _
      (expandOne_inv nodes hc0 G next v h (hl v (List.mem_cons_self)))

theorem defaultTg_set_tg (a : Attrs) (x : Val) : defaultTg (Dict.set a "typesGH" x) = defaultTg a := by
  unfold defaultTg
  simp only [pyGet_set_other _ _ _ _ _ (show "element" ≠ "typesGH" by decide),
    pyGet_set_other _ _ _ _ _ (show "aromatic" ≠ "typesGH" by decide),
    pyGet_set_other _ _ _ _ _ (show "hcount" ≠ "typesGH" by decide),
    pyGet_set_other _ _ _ _ _ (show "charge" ≠ "typesGH" by decide),
    pyGet_set_other _ _ _ _ _ (show "neighbors" ≠ "typesGH" by decide)]

/-- The invariant holds of the prepared host before any expansion. -/
theorem expInv_init (nodes : List Nat) (host : LGraph) (hH : WFHost host) :
    ExpInv nodes (fun v => numOf (pyGet (host.attrs v) "hcount" (.num 0)))
      { host with nodes := host.nodes.map prepNode } (maxId { host with nodes := host.nodes.map prepNode }) := by
  have hids : (LGraph.mk (host.nodes.map prepNode) host.edges).ids = host.ids := by
    unfold LGraph.ids; rw [List.map_map]; exact List.map_congr_left (fun p _ => rfl)
  have hprep : ∀ p0 ∈ host.nodes, (prepNode p0).2 = Dict.set p0.2 "typesGH" (defaultTg p0.2) := by
    intro p0 hp0
    simp [prepNode, setDefault, hH.2.1 p0 hp0]
  have hsym : ∀ p0 ∈ host.nodes, SymTg (prepNode p0).2 := by
    intro p0 hp0
    right
    rw [hprep p0 hp0, get_set_self, defaultTg_set_tg]
  refine ⟨⟨?_, ?_, hH.1.2.2⟩, ?_, ?_, hH.2.2, ?_, ?_⟩
  · rw [hids]; exact hH.1.1
  · intro e he; rw [hids]; exact hH.1.2.1 e he
  · intro i hi
    unfold maxId
    exact le_foldl_max _ 0 i (Or.inl hi)
  · intro p hp
    obtain ⟨p0, hp0, rfl⟩ := List.mem_map.1 hp
    exact symTg_tgOK _ (hsym p0 hp0)
  · intro p hp
    obtain ⟨p0, hp0, rfl⟩ := List.mem_map.1 hp
    exact Or.inl (hsym p0 hp0)
  · intro p hp _
    obtain ⟨p0, hp0, rfl⟩ := List.mem_map.1 hp
    rw [hprep p0 hp0, pyGet_set_other _ _ _ _ _ (by decide)]
    have : (prepNode p0).1 = p0.1 := rfl
    rw [this, attrs_of_mem host hH.1.1 p0 hp0]

theorem explicitHost_inv (host : LGraph) (nodes : List Nat) (hH : WFHost host) :
    ∃ next, ExpInv nodes (fun v => numOf (pyGet (host.attrs v) "hcount" (.num 0))) (explicitHost host nodes) next := by
  unfold explicitHost hToExplicit
  exact ⟨_, expFold_inv nodes _ nodes (fun v hv => hv) _ _ (expInv_init nodes host hH)⟩

/-- **Stage lemma**: what `_glue_graph` hands to the re-match is a prepared host. -/
theorem explicitHost_hostX (host : LGraph) (nodes : List Nat) (hH : WFHost host) :
    HostX (explicitHost host nodes) := by
  obtain ⟨next, h⟩ := explicitHost_inv host nodes hH
  exact ⟨h.wf, h.tg, h.ord⟩

/-- In the explicit host, the only atoms whose two labels differ are expanded atoms: atoms of the
first match that carry hydrogens in the substrate. -/
theorem explicitHost_sym (host : LGraph) (nodes : List Nat) (hH : WFHost host) :
    ∀ p ∈ (explicitHost host nodes).nodes,
      SymTg p.2 ∨ (p.1 ∈ nodes ∧ 0 < numOf (pyGet (host.attrs p.1) "hcount" (.num 0))) := by
  obtain ⟨next, h⟩ := explicitHost_inv host nodes hH
  exact h.sym

theorem mem_of_preimage_none (m : Mapping) (h : Nat) (hp : preimage m h = none) : h ∉ m.map (·.2) := by
  intro hh
  obtain ⟨x, hx, rfl⟩ := List.mem_map.1 hh
  unfold preimage at hp
  cases hf : m.find? (fun y => decide (y.2 = x.2)) with
  | none =>
    have := List.find?_eq_none.1 hf x hx
    simp at this
  | some r => simp [hf] at hp

/-- The guard in terms of the substrate: it holds as soon as every atom of the first match that
carries hydrogens in the substrate is matched again. -/
theorem rematchCovers_of_expanded_matched (host : LGraph) (nodes : List Nat) (m : Mapping) (hH : WFHost host)
    (h : ∀ v ∈ nodes, 0 < numOf (pyGet (host.attrs v) "hcount" (.num 0)) → v ∈ m.map (·.2)) :
    RematchCovers (explicitHost host nodes) m := by
  intro p hp hpre
  rcases explicitHost_sym host nodes hH p hp with hs | ⟨h1, h2⟩
  · exact hs
  · exact absurd (h p.1 h1 h2) (mem_of_preimage_none m p.1 hpre)

/-! ### `explicitHost` and `h_to_explicit` of the bare substrate have the same rendering -/

theorem hostProj_eq (G : LGraph) :
    hostProj G = ⟨G.nodes.map (fun p => (p.1, projAttrs p.1 p.2)),
                  G.edges.map (fun e => (e.1, e.2.1, [("order", pyGet e.2.2 "order" (.num 2))]))⟩ := rfl

theorem hostProj_ids (G : LGraph) : (hostProj G).ids = G.ids := by
  rw [hostProj_eq]; unfold LGraph.ids; rw [List.map_map]; exact List.map_congr_left (fun p _ => rfl)

theorem hostProj_attrs_eq (G : LGraph) (v : Nat) (hv : v ∈ G.ids) :
    (hostProj G).attrs v = projAttrs v (G.attrs v) := by
  rw [hostProj_eq]
  exact attrs_map_nodes G.nodes _ G.edges (fun p => (p.1, projAttrs p.1 p.2)) (fun p => rfl) v hv

theorem projAttrs_expAttrs (n : Nat) (a : Attrs) (cnt : Int) :
    projAttrs n (expAttrs a cnt) =
      [("element", pyGet a "element" (.str "*")), ("aromatic", pyGet a "aromatic" (.bool false)),
       ("hcount", .num (numOf (pyGet a "hcount" (.num 0)) - cnt)), ("charge", pyGet a "charge" (.num 0)),
       ("atom_map", Val.num (2 * (n : Int)))] := by
  unfold projAttrs
  rw [pyGet_expAttrs_other _ _ "element" _ (by decide) (by decide), pyGet_expAttrs_other _ _ "aromatic" _ (by decide) (by decide),
    pyGet_expAttrs_other _ _ "charge" _ (by decide) (by decide), pyGet_expAttrs_hcount, numOf_pyGet_zero]

/-- One expansion step does not see attributes outside the four label fields. -/
theorem hostProj_expandOne (G G' : LGraph) (next v : Nat) (h : hostProj G = hostProj G') :
    hostProj (expandOne G next v).1 = hostProj (expandOne G' next v).1 ∧
    (expandOne G next v).2 = (expandOne G' next v).2 := by
  have hids : G.ids = G'.ids := by rw [← hostProj_ids G, ← hostProj_ids G', h]
  have hhas : G.hasNode v = G'.hasNode v := by unfold LGraph.hasNode; rw [hids]
  rw [expandOne_eq, expandOne_eq, hhas]
  by_cases hn : (!G'.hasNode v) = true
  · simp only [hn, if_true]; exact ⟨h, trivial⟩
  · simp only [hn]
    have hvG' : v ∈ G'.ids := by
      have : G'.hasNode v = true := by simpa using hn
      unfold LGraph.hasNode at this
      exact List.contains_iff_mem.1 this
    have hvG : v ∈ G.ids := by rw [hids]; exact hvG'
    have hpa : projAttrs v (G.attrs v) = projAttrs v (G'.attrs v) := by
      rw [← hostProj_attrs_eq G v hvG, ← hostProj_attrs_eq G' v hvG', h]
    have hpa' := hpa
    simp only [projAttrs, List.cons.injEq, Prod.mk.injEq, true_and, and_true] at hpa'
    obtain ⟨q1, q2, q3, q4⟩ := hpa'
    rw [q3]
    by_cases hc : numOf (pyGet (G'.attrs v) "hcount" (.num 0)) ≤ 0
    · simp only [hc, if_true]; exact ⟨h, rfl⟩
    · simp only [hc, if_false, Bool.false_eq_true]
      refine ⟨?_, trivial⟩
      have hn' : G.nodes.map (fun p => (p.1, projAttrs p.1 p.2)) = G'.nodes.map (fun p => (p.1, projAttrs p.1 p.2)) := by
        have := congrArg LGraph.nodes h; rw [hostProj_eq, hostProj_eq] at this; exact this
      have he' : G.edges.map (fun e => (e.1, e.2.1, [("order", pyGet e.2.2 "order" (.num 2))])) =
          G'.edges.map (fun e => (e.1, e.2.1, [("order", pyGet e.2.2 "order" (.num 2))])) := by
        have := congrArg LGraph.edges h; rw [hostProj_eq, hostProj_eq] at this; exact this
      rw [hostProj_eq, hostProj_eq]
      simp only [List.map_append, List.map_map]
      have key : ∀ (X : LGraph) (c : Int),
          List.map ((fun p : Nat × Attrs => (p.1, projAttrs p.1 p.2)) ∘ fun p => if p.1 = v then (p.1, expAttrs (X.attrs v) c) else p) X.nodes =
          (X.nodes.map (fun p => (p.1, projAttrs p.1 p.2))).map
            (fun q => if q.1 = v then (q.1, projAttrs q.1 (expAttrs (X.attrs v) c)) else q) := by
        intro X c
        rw [List.map_map]
        apply List.map_congr_left
        intro p _
        simp only [Function.comp]
        split <;> rfl
      rw [key G, key G', hn', he']
      simp only [projAttrs_expAttrs, q1, q2, q3, q4]

theorem hostProj_expFold (l : List Nat) (G G' : LGraph) (next : Nat) (h : hostProj G = hostProj G') :
    hostProj (l.foldl (fun (acc : LGraph × Nat) v => expandOne acc.1 acc.2 v) (G, next)).1 =
    hostProj (l.foldl (fun (acc : LGraph × Nat) v => expandOne acc.1 acc.2 v) (G', next)).1 := by
  induction l generalizing G G' next with
  | nil => exact h
  | cons v rest ih =>
    simp only [List.foldl_cons]
    obtain ⟨h1, h2⟩ := hostProj_expandOne G G' next v h
    have e1 : expandOne G next v = ((expandOne G next v).1, (expandOne G next v).2) := rfl
    have e2 : expandOne G' next v = ((expandOne G' next v).1, (expandOne G' next v).2) := rfl
    rw [e1, e2, h2]
    exact ih _ _ _ h1

theorem projAttrs_prepNode (p : Nat × Attrs) : projAttrs p.1 (prepNode p).2 = projAttrs p.1 p.2 := by
  unfold prepNode setDefault projAttrs
  simp only
  split
  · rfl
  · rw [pyGet_set_other _ _ "element" _ _ (by decide), pyGet_set_other _ _ "aromatic" _ _ (by decide),
      pyGet_set_other _ _ "hcount" _ _ (by decide), pyGet_set_other _ _ "charge" _ _ (by decide)]

/-- The rendering (`its_decompose` view) of the explicit host is that of `h_to_explicit` applied to
the bare substrate: the `typesGH` bookkeeping does not influence which hydrogens become atoms. -/
theorem hostProj_explicitHost (host : LGraph) (nodes : List Nat) :
    hostProj (explicitHost host nodes) = hostProj (hToExplicit host nodes) := by
  unfold explicitHost hToExplicit
  have hids : (LGraph.mk (host.nodes.map prepNode) host.edges).ids = host.ids := by
    unfold LGraph.ids; rw [List.map_map]; exact List.map_congr_left (fun p _ => rfl)
  have hmax : maxId { host with nodes := host.nodes.map prepNode } = maxId host := by
    unfold maxId; rw [hids]
  rw [hmax]
  apply hostProj_expFold
  rw [hostProj_eq, hostProj_eq]
  simp only [List.map_map]
  congr 1
  apply List.map_congr_left
  intro p _
  simp only [Function.comp]
  have : (prepNode p).1 = p.1 := rfl
  rw [this, projAttrs_prepNode]

/-! ## Part 3: folding the expanded hydrogens back (`normH`) gives the substrate -/

/-- Is `v` a hydrogen with a heavy neighbour (the hydrogens `normH` folds)? -/
def foldableB (G : LGraph) (v : Nat) : Bool := isH (G.attrs v) && (G.neighbors v).any fun w => !isH (G.attrs w)

/-- Hydrogens (half-units) `normH` folds into `v`. -/
def gainH (G : LGraph) (v : Nat) : Int := 2 * ((G.neighbors v).filter (foldableB G)).length

theorem normH_eq (G : LGraph) :
    normH G =
      { nodes := (G.nodes.filter fun p => !foldableB G p.1).map fun p =>
          (p.1, [("element", pyGet p.2 "element" (.str "*")), ("aromatic", pyGet p.2 "aromatic" (.bool false)),
                 ("hcount", .num (numOf (pyGet p.2 "hcount" (.num 0)) + (if isH p.2 then 0 else gainH G p.1))),
                 ("charge", pyGet p.2 "charge" (.num 0))])
        edges := (G.edges.filter fun e => !foldableB G e.1 && !foldableB G e.2.1).map fun e =>
          (e.1, e.2.1, [("order", pyGet e.2.2 "order" (.num 2))]) } := rfl

/-- The graph one expansion step builds: node `v` relabelled `b`, hydrogens `F` attached to it. -/
def expGraph (G : LGraph) (v : Nat) (b : Attrs) (F : List Nat) : LGraph :=
  { nodes := (G.nodes.map fun p => if p.1 = v then (p.1, b) else p) ++ F.map fun i => (i, newH)
    edges := G.edges ++ F.map fun i => (v, i, [("order", .num 2)]) }

theorem attrs_append_right (ns extra : List (Nat × Attrs)) (es es' : List (Nat × Nat × Attrs)) (v : Nat)
    (hv : v ∉ ns.map (·.1)) : LGraph.attrs ⟨ns ++ extra, es⟩ v = LGraph.attrs ⟨extra, es'⟩ v := by
  unfold LGraph.attrs
  simp only [List.find?_append]
  have : ns.find? (fun q => decide (q.1 = v)) = none := by
    apply List.find?_eq_none.2
    intro q hq hqv
    exact hv (List.mem_map.2 ⟨q, hq, by simpa using hqv⟩)
  rw [this]; rfl

section ExpGraph
variable (G : LGraph) (v : Nat) (b : Attrs) (F : List Nat)

theorem exp_attrs_old (w : Nat) (hw : w ∈ G.ids) :
    (expGraph G v b F).attrs w = if w = v then b else G.attrs w := by
  unfold expGraph
  have hw' : w ∈ (G.nodes.map fun p => if p.1 = v then (p.1, b) else p).map (·.1) := by
    rw [ids_map_if]; exact hw
  rw [attrs_append_left _ _ _ G.edges w hw']
  have := attrs_map_nodes G.nodes G.edges G.edges (fun p => if p.1 = v then (p.1, b) else p)
    (fun p => by split <;> rfl) w hw
  rw [this]
  simp only
  split <;> rfl

theorem exp_attrs_new (i : Nat) (hi : i ∈ F) (hni : i ∉ G.ids) : (expGraph G v b F).attrs i = newH := by
  unfold expGraph
  have hi' : i ∉ (G.nodes.map fun p => if p.1 = v then (p.1, b) else p).map (·.1) := by
    rw [ids_map_if]; exact hni
  rw [attrs_append_right _ _ _ G.edges i hi']
  have hmem : i ∈ (LGraph.mk (F.map fun i => (i, newH)) G.edges).ids := by
    unfold LGraph.ids; simp only [List.map_map]
    exact List.mem_map.2 ⟨i, hi, rfl⟩
  have := attrs_mem _ i hmem
  simp only [List.mem_map, Prod.mk.injEq] at this
  obtain ⟨j, _, _, h2⟩ := this
  exact h2.symm

theorem exp_nbrs_old (w : Nat) (hwv : w ≠ v) (hwF : w ∉ F) :
    (expGraph G v b F).neighbors w = G.neighbors w := by
  unfold expGraph LGraph.neighbors
  simp only [List.filterMap_append]
  have : (F.map fun i => ((v, i, [("order", Val.num 2)]) : Nat × Nat × Attrs)).filterMap
      (fun e => if e.1 = w then some e.2.1 else if e.2.1 = w then some e.1 else Option.none) = [] := by
    apply filterMap_eq_nil_of
    intro e he
    obtain ⟨i, hi, rfl⟩ := List.mem_map.1 he
    have h1 : ¬ v = w := fun e => hwv e.symm
    have h2 : ¬ i = w := fun e => hwF (e ▸ hi)
    simp [h1, h2]
  rw [this, List.append_nil]

theorem exp_nbrs_v : (expGraph G v b F).neighbors v = G.neighbors v ++ F := by
  unfold expGraph LGraph.neighbors
  simp only [List.filterMap_append, List.filterMap_map]
  congr 1
  have : ∀ i ∈ F, ((fun e : Nat × Nat × Attrs => if e.1 = v then some e.2.1 else if e.2.1 = v then some e.1 else Option.none) ∘
      fun i => (v, i, [("order", Val.num 2)])) i = some i := by
    intro i _; simp [Function.comp]
  rw [List.filterMap_congr this]
  exact List.filterMap_some

theorem mem_nbrs_new (i : Nat) (hi : i ∈ F) (hiv : i ≠ v) : v ∈ (expGraph G v b F).neighbors i := by
  unfold expGraph LGraph.neighbors
  simp only [List.mem_filterMap, List.mem_append, List.mem_map]
  refine ⟨(v, i, [("order", Val.num 2)]), Or.inr ⟨i, hi, rfl⟩, ?_⟩
  have : ¬ v = i := fun e => hiv e.symm
  simp [this]

end ExpGraph

theorem nbrs_in_ids (G : LGraph) (hE : ∀ e ∈ G.edges, e.1 ∈ G.ids ∧ e.2.1 ∈ G.ids) (w u : Nat)
    (hu : u ∈ G.neighbors w) : u ∈ G.ids := by
  unfold LGraph.neighbors at hu
  obtain ⟨e, he, h⟩ := List.mem_filterMap.1 hu
  obtain ⟨h1, h2⟩ := hE e he
  split at h
  · simp only [Option.some.injEq] at h; rw [← h]; exact h2
  · split at h
    · simp only [Option.some.injEq] at h; rw [← h]; exact h1
    · cases h

theorem any_congr_mem {α : Type} (l : List α) (p q : α → Bool) (h : ∀ x ∈ l, p x = q x) : l.any p = l.any q := by
  induction l with
  | nil => rfl
  | cons x xs ih =>
    simp only [List.any_cons, h x (List.mem_cons_self)]
    rw [ih (fun y hy => h y (List.mem_cons_of_mem _ hy))]

theorem isH_get (a b : Attrs) (h : Attrs.get b "element" = Attrs.get a "element") : isH b = isH a := by
  unfold isH; rw [h]

/-- One expansion step is invisible after hydrogen normalisation. -/
theorem normH_expGraph (G : LGraph) (v : Nat) (b : Attrs) (F : List Nat)
    (hn : G.ids.Nodup) (hE : ∀ e ∈ G.edges, e.1 ∈ G.ids ∧ e.2.1 ∈ G.ids) (hv : v ∈ G.ids)
    (hF : ∀ i ∈ F, i ∉ G.ids)
    (hel : Attrs.get b "element" = Attrs.get (G.attrs v) "element")
    (h1 : pyGet b "element" (.str "*") = pyGet (G.attrs v) "element" (.str "*"))
    (h2 : pyGet b "aromatic" (.bool false) = pyGet (G.attrs v) "aromatic" (.bool false))
    (h3 : pyGet b "charge" (.num 0) = pyGet (G.attrs v) "charge" (.num 0))
    (hnotH : isH (G.attrs v) = false)
    (hcnt : numOf (pyGet b "hcount" (.num 0)) + 2 * (F.length : Int) = numOf (pyGet (G.attrs v) "hcount" (.num 0))) :
    normH (expGraph G v b F) = normH G := by
  have hvF : v ∉ F := fun h => hF v h hv
  -- hydrogen-ness of old atoms
  have isH_old : ∀ w ∈ G.ids, isH ((expGraph G v b F).attrs w) = isH (G.attrs w) := by
    intro w hw
    rw [exp_attrs_old G v b F w hw]
    split
    · rename_i h; subst h; exact isH_get _ _ hel
    · rfl
  have isH_new : ∀ i ∈ F, isH ((expGraph G v b F).attrs i) = true := by
    intro i hi
    rw [exp_attrs_new G v b F i hi (hF i hi)]; decide
  have fold_old : ∀ w ∈ G.ids, foldableB (expGraph G v b F) w = foldableB G w := by
    intro w hw
    unfold foldableB
    by_cases hwv : w = v
    · subst hwv
      rw [isH_old w hw, hnotH]; rfl
    · have hwF : w ∉ F := fun h => hF w h hw
      rw [isH_old w hw, exp_nbrs_old G v b F w hwv hwF]
      congr 1
      apply any_congr_mem
      intro u hu
      rw [isH_old u (nbrs_in_ids G hE w u hu)]
  have fold_new : ∀ i ∈ F, foldableB (expGraph G v b F) i = true := by
    intro i hi
    unfold foldableB
    rw [isH_new i hi, Bool.true_and, List.any_eq_true]
    have hiv : i ≠ v := fun e => hvF (e ▸ hi)
    refine ⟨v, mem_nbrs_new G v b F i hi hiv, ?_⟩
    rw [isH_old v hv, hnotH]; rfl
  have gain_old : ∀ w ∈ G.ids, w ≠ v → gainH (expGraph G v b F) w = gainH G w := by
    intro w hw hwv
    unfold gainH
    have hwF : w ∉ F := fun h => hF w h hw
    rw [exp_nbrs_old G v b F w hwv hwF]
    rw [List.filter_congr (fun u hu => fold_old u (nbrs_in_ids G hE w u hu))]
  have gain_v : gainH (expGraph G v b F) v = gainH G v + 2 * (F.length : Int) := by
    unfold gainH
    rw [exp_nbrs_v, List.filter_append]
    rw [List.filter_congr (fun u hu => fold_old u (nbrs_in_ids G hE v u hu))]
    have : F.filter (foldableB (expGraph G v b F)) = F := List.filter_eq_self.2 fold_new
    rw [this, List.length_append]
    push_cast; ring
  rw [normH_eq, normH_eq]
  congr 1
  · -- nodes
    show (((G.nodes.map fun p => if p.1 = v then (p.1, b) else p) ++ F.map fun i => (i, newH)).filter
        fun p => !foldableB (expGraph G v b F) p.1).map _ = _
    rw [List.filter_append, List.map_append]
    have hnew : ((F.map fun i => ((i, newH) : Nat × Attrs)).filter fun p => !foldableB (expGraph G v b F) p.1) = [] := by
      apply List.filter_eq_nil_iff.2
      intro p hp
      obtain ⟨i, hi, rfl⟩ := List.mem_map.1 hp
      simp [fold_new i hi]
    rw [hnew, List.map_nil, List.append_nil, List.filter_map, List.map_map]
    have hfilt : G.nodes.filter ((fun p : Nat × Attrs => !foldableB (expGraph G v b F) p.1) ∘ fun p => if p.1 = v then (p.1, b) else p) =
        G.nodes.filter fun p => !foldableB G p.1 := by
      apply List.filter_congr
      intro p hp
      have hid : p.1 ∈ G.ids := List.mem_map.2 ⟨p, hp, rfl⟩
      simp only [Function.comp]
      have : (if p.1 = v then (p.1, b) else p).1 = p.1 := by split <;> rfl
      rw [this, fold_old p.1 hid]
    rw [hfilt]
    apply List.map_congr_left
    intro p hp
    have hp' : p ∈ G.nodes := (List.mem_filter.1 hp).1
    have hid : p.1 ∈ G.ids := List.mem_map.2 ⟨p, hp', rfl⟩
    simp only [Function.comp]
    by_cases hpv : p.1 = v
    · have hpa : p.2 = G.attrs v := by rw [← hpv]; exact (attrs_of_mem G hn p hp').symm
      simp only [hpv, if_true]
      rw [gain_v, h1, h2, h3, isH_get _ _ hel, ← hpa, ← hpv]
      have hnot : isH p.2 = false := by rw [hpa]; exact hnotH
      rw [← hpa] at hcnt
      simp only [hnot, Bool.false_eq_true, if_false]
      have : numOf (pyGet b "hcount" (Val.num 0)) + (gainH G p.1 + 2 * (F.length : Int)) =
          numOf (pyGet p.2 "hcount" (Val.num 0)) + gainH G p.1 := by linarith
      rw [this]
    · simp only [hpv, if_false]
      rw [gain_old p.1 hid hpv]
  · -- edges
    show ((G.edges ++ F.map fun i => (v, i, [("order", Val.num 2)])).filter
        fun e => !foldableB (expGraph G v b F) e.1 && !foldableB (expGraph G v b F) e.2.1).map _ = _
    rw [List.filter_append, List.map_append]
    have hnew : ((F.map fun i => ((v, i, [("order", Val.num 2)]) : Nat × Nat × Attrs)).filter
        fun e => !foldableB (expGraph G v b F) e.1 && !foldableB (expGraph G v b F) e.2.1) = [] := by
      apply List.filter_eq_nil_iff.2
      intro e he
      obtain ⟨i, hi, rfl⟩ := List.mem_map.1 he
      simp [fold_new i hi]
    rw [hnew, List.map_nil, List.append_nil]
    rw [List.filter_congr (fun e he => by rw [fold_old _ (hE e he).1, fold_old _ (hE e he).2])]

/-- Hydrogen counts of the substrate are whole numbers (even in half-units) and hydrogen atoms carry
no hydrogen count — true of every graph `smiles_to_graph` builds. -/
def WholeH (host : LGraph) : Prop :=
  ∀ p ∈ host.nodes, numOf (pyGet p.2 "hcount" (.num 0)) % 2 = 0 ∧
    (isH p.2 = true → numOf (pyGet p.2 "hcount" (.num 0)) ≤ 0)

instance (host : LGraph) : Decidable (WholeH host) := by unfold WholeH; infer_instance

theorem get_expAttrs_other (a : Attrs) (cnt : Int) (k : String) (h1 : k ≠ "hcount") (h2 : k ≠ "typesGH") :
    Attrs.get (expAttrs a cnt) k = Attrs.get a k := by
  unfold expAttrs
  simp only
  split
  · rw [get_set_other _ _ _ _ h2, get_set_other _ _ _ _ h1]
  · rw [get_set_other _ _ _ _ h1]

theorem expandOne_expGraph (G : LGraph) (next v : Nat) (hn : (!G.hasNode v) = false)
    (hc : ¬ numOf (pyGet (G.attrs v) "hcount" (.num 0)) ≤ 0) :
    (expandOne G next v).1 =
      expGraph G v (expAttrs (G.attrs v) (numOf (pyGet (G.attrs v) "hcount" (.num 0))))
        (freshIds next (numOf (pyGet (G.attrs v) "hcount" (.num 0)) / 2).toNat) := by
  rw [expandOne_eq]
  simp only [hn, Bool.false_eq_true, if_false, hc]
  rfl

theorem length_freshIds (next k : Nat) : (freshIds next k).length = k := by
  unfold freshIds; simp

/-- One step of `h_to_explicit` on the prepared host is invisible after hydrogen normalisation. -/
theorem normH_expandOne (nodes : List Nat) (hc0 : Nat → Int) (G : LGraph) (next v : Nat)
    (h : ExpInv nodes hc0 G next) (hev : ∀ w, hc0 w % 2 = 0)
    (hnoH : ∀ p ∈ G.nodes, isH p.2 = true → numOf (pyGet p.2 "hcount" (.num 0)) ≤ 0) :
    normH (expandOne G next v).1 = normH G ∧
    (∀ p ∈ (expandOne G next v).1.nodes, isH p.2 = true → numOf (pyGet p.2 "hcount" (.num 0)) ≤ 0) := by
  by_cases hn : (!G.hasNode v) = true
  · have : expandOne G next v = (G, next) := by rw [expandOne_eq]; simp only [hn, if_true]
    rw [this]; exact ⟨rfl, hnoH⟩
  · have hn' : (!G.hasNode v) = false := by simpa using hn
    by_cases hc : numOf (pyGet (G.attrs v) "hcount" (.num 0)) ≤ 0
    · have : expandOne G next v = (G, next) := by
        rw [expandOne_eq]; simp only [hn', Bool.false_eq_true, if_false, hc, if_true]
      rw [this]; exact ⟨rfl, hnoH⟩
    · rw [expandOne_expGraph G next v hn' hc]
      have hvG : v ∈ G.ids := by
        have : G.hasNode v = true := by simpa using hn
        unfold LGraph.hasNode at this
        exact List.contains_iff_mem.1 this
      have hcpos : 0 < numOf (pyGet (G.attrs v) "hcount" (.num 0)) := not_le.1 hc
      have hvmem := attrs_mem G v hvG
      have hnotH : isH (G.attrs v) = false := by
        cases hh : isH (G.attrs v) with
        | false => rfl
        | true => exact absurd (hnoH _ hvmem hh) hc
      have heven : numOf (pyGet (G.attrs v) "hcount" (.num 0)) % 2 = 0 := by
        have := h.hcb _ hvmem hcpos
        simp only at this
        rw [this]; exact hev v
      constructor
      · apply normH_expGraph G v _ _ h.wf.1 (fun e he => ⟨(h.wf.2.1 e he).1, (h.wf.2.1 e he).2.1⟩) hvG
        · intro i hi hiG
          have := h.bound i hiG
          have := (mem_freshIds _ _ _).1 hi
          omega
        · exact get_expAttrs_other _ _ _ (by decide) (by decide)
        · exact pyGet_expAttrs_other _ _ _ _ (by decide) (by decide)
        · exact pyGet_expAttrs_other _ _ _ _ (by decide) (by decide)
        · exact pyGet_expAttrs_other _ _ _ _ (by decide) (by decide)
        · exact hnotH
        · rw [pyGet_expAttrs_hcount, length_freshIds, ← numOf_pyGet_zero, numOf_num]
          have := two_toNat_half _ hcpos heven
          linarith
      · intro p hp
        unfold expGraph at hp
        simp only [List.mem_append, List.mem_map] at hp
        rcases hp with ⟨p0, hp0, rfl⟩ | ⟨i, _, rfl⟩
        · split
          · intro _
            simp only
            rw [pyGet_expAttrs_hcount, ← numOf_pyGet_zero, numOf_num]
            omega
          · exact hnoH p0 hp0
        · intro _
          have : numOf (pyGet newH "hcount" (.num 0)) ≤ 0 := by decide
          exact this

theorem normH_expFold (nodes : List Nat) (hc0 : Nat → Int) (hev : ∀ w, hc0 w % 2 = 0) (l : List Nat)
    (hl : ∀ v ∈ l, v ∈ nodes) (G : LGraph) (next : Nat) (h : ExpInv nodes hc0 G next)
    (hnoH : ∀ p ∈ G.nodes, isH p.2 = true → numOf (pyGet p.2 "hcount" (.num 0)) ≤ 0) :
    normH (l.foldl (fun (acc : LGraph × Nat) v => expandOne acc.1 acc.2 v) (G, next)).1 = normH G := by
  induction l generalizing G next with
  | nil => rfl
  | cons v rest ih =>
    simp only [List.foldl_cons]
    obtain ⟨s1, s2⟩ := normH_expandOne nodes hc0 G next v h hev hnoH
    have hI := expandOne_inv nodes hc0 G next v h (hl v (List.mem_cons_self))
    have e1 : expandOne G next v = ((expandOne G next v).1, (expandOne G next v).2) := rfl
    rw [e1, ih (fun w hw => hl w (List.mem_cons_of_mem _ hw)) _ _ hI s2, s1]

theorem hostProj_prep (host : LGraph) :
    hostProj { host with nodes := host.nodes.map prepNode } = hostProj host := by
  rw [hostProj_eq, hostProj_eq]
  simp only [List.map_map]
  congr 1
  apply List.map_congr_left
  intro p _
  simp only [Function.comp]
  have : (prepNode p).1 = p.1 := rfl
  rw [this, projAttrs_prepNode]

theorem isH_prepNode (p : Nat × Attrs) : isH (prepNode p).2 = isH p.2 := by
  unfold prepNode setDefault isH
  simp only
  split
  · rfl
  · rw [get_set_other _ _ _ _ (by decide)]

theorem pyGet_prepNode_hcount (p : Nat × Attrs) :
    pyGet (prepNode p).2 "hcount" (.num 0) = pyGet p.2 "hcount" (.num 0) := by
  unfold prepNode setDefault
  simp only
  split
  · rfl
  · rw [pyGet_set_other _ _ _ _ _ (by decide)]

/-- **Folding the expanded hydrogens back gives the substrate**: `h_to_explicit` on the matched atoms
preserves the total hydrogen content of every heavy atom and the heavy-atom structure — after
hydrogen normalisation the explicit host *is* the substrate. -/
theorem normH_explicitHost (host : LGraph) (nodes : List Nat) (hH : WFHost host) (hw : WholeH host) :
    normH (explicitHost host nodes) = normH host := by
  have hev : ∀ w, (fun v => numOf (pyGet (host.attrs v) "hcount" (.num 0))) w % 2 = 0 := by
    intro w
    simp only
    by_cases hw' : w ∈ host.ids
    · exact (hw _ (attrs_mem host w hw')).1
    · rw [attrs_not_mem host w hw']; rfl
  have hnoH : ∀ p ∈ (LGraph.mk (host.nodes.map prepNode) host.edges).nodes,
      isH p.2 = true → numOf (pyGet p.2 "hcount" (.num 0)) ≤ 0 := by
    intro p hp
    obtain ⟨p0, hp0, rfl⟩ := List.mem_map.1 hp
    rw [isH_prepNode, pyGet_prepNode_hcount]
    exact (hw p0 hp0).2
  unfold explicitHost hToExplicit
  rw [normH_expFold nodes _ hev nodes (fun v hv => hv) _ _ (expInv_init nodes host hH) hnoH]
  rw [← normH_hostProj, hostProj_prep, normH_hostProj]

/-! ## Part 4: every atom of the first match has hydrogen count 0 in the explicit host -/

theorem expandOne_done (nodes : List Nat) (hc0 : Nat → Int) (G : LGraph) (next v : Nat)
    (h : ExpInv nodes hc0 G next) (done : List Nat)
    (hJ : ∀ p ∈ G.nodes, p.1 ∈ done → numOf (pyGet p.2 "hcount" (.num 0)) ≤ 0) :
    ∀ p ∈ (expandOne G next v).1.nodes, p.1 ∈ v :: done → numOf (pyGet p.2 "hcount" (.num 0)) ≤ 0 := by
  by_cases hn : (!G.hasNode v) = true
  · have : expandOne G next v = (G, next) := by rw [expandOne_eq]; simp only [hn, if_true]
    rw [this]
    intro p hp hpd
    rcases List.mem_cons.1 hpd with hpv | hpd
    · exfalso
      have : G.hasNode v = false := by simpa using hn
      unfold LGraph.hasNode at this
      have hv : v ∈ G.ids := by rw [← hpv]; exact List.mem_map.2 ⟨p, hp, rfl⟩
      rw [List.contains_iff_mem.2 hv] at this
      exact Bool.noConfusion this
    · exact hJ p hp hpd
  · have hn' : (!G.hasNode v) = false := by simpa using hn
    by_cases hc : numOf (pyGet (G.attrs v) "hcount" (.num 0)) ≤ 0
    · have : expandOne G next v = (G, next) := by
        rw [expandOne_eq]; simp only [hn', Bool.false_eq_true, if_false, hc, if_true]
      rw [this]
      intro p hp hpd
      rcases List.mem_cons.1 hpd with hpv | hpd
      · have : G.attrs p.1 = p.2 := attrs_of_mem G h.wf.1 p hp
        rw [← this, hpv]; exact hc
      · exact hJ p hp hpd
    · rw [expandOne_expGraph G next v hn' hc]
      intro p hp hpd
      unfold expGraph at hp
      simp only [List.mem_append, List.mem_map] at hp
      rcases hp with ⟨p0, hp0, rfl⟩ | ⟨i, _, rfl⟩
      · by_cases hpv : p0.1 = v
        · simp only [hpv, if_true]
          rw [pyGet_expAttrs_hcount, ← numOf_pyGet_zero, numOf_num]
          omega
        · simp only [hpv, if_false] at hpd ⊢
          rcases List.mem_cons.1 hpd with e | hpd
          · exact absurd e hpv
          · exact hJ p0 hp0 hpd
      · have : numOf (pyGet newH "hcount" (.num 0)) ≤ 0 := by decide
        exact this

theorem expFold_done (nodes : List Nat) (hc0 : Nat → Int) (l : List Nat) (hl : ∀ v ∈ l, v ∈ nodes)
    (G : LGraph) (next : Nat) (h : ExpInv nodes hc0 G next) (done : List Nat)
    (hJ : ∀ p ∈ G.nodes, p.1 ∈ done → numOf (pyGet p.2 "hcount" (.num 0)) ≤ 0) :
    ∀ p ∈ (l.foldl (fun (acc : LGraph × Nat) v => expandOne acc.1 acc.2 v) (G, next)).1.nodes,
      (p.1 ∈ l ∨ p.1 ∈ done) → numOf (pyGet p.2 "hcount" (.num 0)) ≤ 0 := by
  induction l generalizing G next done with
  | nil =>
    intro p hp hpd
    rcases hpd with hpd | hpd
    · cases hpd
    · exact hJ p hp hpd
  | cons v rest ih =>
    simp only [List.foldl_cons]
    have hI := expandOne_inv nodes hc0 G next v h (hl v (List.mem_cons_self))
    have hJ' := expandOne_done nodes hc0 G next v h done hJ
    have e1 : expandOne G next v = ((expandOne G next v).1, (expandOne G next v).2) := rfl
    rw [e1]
    intro p hp hpd
    apply ih (fun w hw => hl w (List.mem_cons_of_mem _ hw)) _ _ hI (v :: done) hJ' p hp
    rcases hpd with hpd | hpd
    · rcases List.mem_cons.1 hpd with e | e
      · exact Or.inr (e ▸ List.mem_cons_self)
      · exact Or.inl e
    · exact Or.inr (List.mem_cons_of_mem _ hpd)

/-- In the explicit host no atom of the first match has a hydrogen count left: all its hydrogens
are atoms. -/
theorem explicitHost_count_zero (host : LGraph) (nodes : List Nat) (hH : WFHost host) :
    ∀ p ∈ (explicitHost host nodes).nodes, p.1 ∈ nodes → numOf (pyGet p.2 "hcount" (.num 0)) ≤ 0 := by
  intro p hp hpn
  unfold explicitHost hToExplicit at hp
  exact expFold_done nodes _ nodes (fun v hv => hv) _ _ (expInv_init nodes host hH) []
    (fun _ _ h => absurd h List.not_mem_nil) p hp (Or.inl hpn)

theorem left_attrs_hcount (T : LGraph) (hT : WFTemplate T) (q : Nat) (hq : q ∈ T.ids) :
    Attrs.get ((left T).attrs q) "hcount" = tgField (T.attrs q) 0 2 := by
  have hnodes : (left T).nodes = T.nodes.map (fun p => sideNode p.1 (tupGet (Attrs.get p.2 "typesGH") 0)) := by
    unfold left decompSide
    simp only
    apply filterMap_eq_map_of
    intro p hp; simp [(hT.2.1 p hp).1]
  have : (left T).attrs q = (sideNode q (tupGet (Attrs.get (T.attrs q) "typesGH") 0)).2 := by
    have h1 : left T = ⟨(left T).nodes, (left T).edges⟩ := rfl
    rw [h1, hnodes]
    have := attrs_map_nodes T.nodes (left T).edges T.edges
      (fun p => sideNode p.1 (tupGet (Attrs.get p.2 "typesGH") 0)) (fun p => rfl) q hq
    rw [this]
  rw [this]
  simp [sideNode, get_cons, tgField]

theorem hcountOf_eq (a : Attrs) : hcountOf a = numOf (Attrs.get a "hcount") := by
  unfold hcountOf numOf
  cases Attrs.get a "hcount" <;> rfl

/-- The ITS graphs of the explicit path for one first match (whose images are `nodes`) along a
list of re-matches (`_glue_graph(..., pattern_has_explicit_H=True)`; the exhaustive strategy uses
`allMonos monoSel (explicitHost host nodes) (left T)`). -/
def explicitResults (host T : LGraph) (nodes : List Nat) (ms : List Mapping) : List LGraph :=
  ms.map (glue (explicitHost host nodes) T)

end SynKit.Reactor

import SynKitModel.Gml
import SynKitProofs.GmlLemmas
import SynKitProofs.ReprLemmas
/-! C10: what `gmlToIts` reconstructs from the rule `NXToGML` writes (Stage A, `reader_spec`),
and the full ITS → GML → ITS round trip (Stage B, `gml_roundtrip_full'`). -/
namespace SynKit.Gml
open SynKit SynKit.Repr

/-! ### Stage A: the statement's vocabulary -/

/-- what the writer/reader need of a side graph -/
structure SideOk (S : LGraph) : Prop where
  nodup : S.ids.Nodup
  ends : ∀ e ∈ S.edges, e.1 ∈ S.ids ∧ e.2.1 ∈ S.ids
  simple : (S.edges.map fun e => (min e.1 e.2.1, max e.1 e.2.1)).Nodup
  orders : ∀ e ∈ S.edges, ∃ x, edgeOrderVal e.2.2 = .num x ∧ (x = 2 ∨ x = 3 ∨ x = 4 ∨ x = 6)

/-- the rule `NXToGML.transform((L, R, K), reindex=False)` writes -/
def ruleOf (L R K : LGraph) : Rule :=
  { left := sideItems L (findChanged L R), context := ctxItems K (findChanged L R),
    right := sideItems R (findChanged L R) }

theorem writeRule_false (L R K : LGraph) : writeRule false L R K = ruleOf L R K := by
  simp [writeRule, relabel_id, ruleOf]

/-- order of an optional edge as `ITSGraph` reads it -/
def ordOf : Option Attrs → Val
  | some a => edgeOrderVal a
  | none => .num 0

/-- label view of a node's attribute dict as the writer reads it -/
def labView (a : Attrs) : List Val := [.str (String.ofList (elemOf a)), .num (2 * chargeOf a)]

/-! Helper lemmas live in `SynKit.Gml.Rd` (no clashes with the other C10 lemma files). -/
namespace Rd

/-! ### node-list look-ups -/

/-- `LGraph.attrs` on a bare node list. -/
def attrsL (N : List (Nat × Attrs)) (v : Nat) : Attrs :=
  match N.find? (·.1 = v) with
  | some p => p.2
  | none => []

theorem attrs_eq_attrsL (g : LGraph) (v : Nat) : g.attrs v = attrsL g.nodes v := rfl

theorem hasNode_iff (g : LGraph) (v : Nat) : g.hasNode v = true ↔ v ∈ g.ids := by
  simp [LGraph.hasNode]

theorem hasNode_false_iff (g : LGraph) (v : Nat) : g.hasNode v = false ↔ v ∉ g.ids := by
  rw [← hasNode_iff]; simp

theorem attrsL_nil (v : Nat) : attrsL [] v = [] := rfl

theorem attrsL_cons (q : Nat × Attrs) (N : List (Nat × Attrs)) (v : Nat) :
    attrsL (q :: N) v = if q.1 = v then q.2 else attrsL N v := by
  unfold attrsL
  by_cases h : q.1 = v <;> simp [h]

theorem attrsL_not_mem (N : List (Nat × Attrs)) (v : Nat) (h : v ∉ N.map (·.1)) : attrsL N v = [] := by
  induction N with
  | nil => rfl
  | cons q N ih =>
    simp only [List.map_cons, List.mem_cons, not_or] at h
    rw [attrsL_cons, if_neg (fun e => h.1 e.symm), ih h.2]

theorem attrsL_append (N M : List (Nat × Attrs)) (v : Nat) :
    attrsL (N ++ M) v = if v ∈ N.map (·.1) then attrsL N v else attrsL M v := by
  induction N with
  | nil => simp
  | cons q N ih =>
    simp only [List.cons_append, attrsL_cons, List.map_cons, List.mem_cons]
    by_cases h : q.1 = v
    · simp [h]
    · have h' : ¬ v = q.1 := fun e => h e.symm
      simp only [h, if_false, h', false_or, ih]

theorem attrsL_upd_other (N : List (Nat × Attrs)) (v n : Nat) (f : Attrs → Attrs) (hn : n ≠ v) :
    attrsL (N.map fun p => if p.1 = v then (p.1, f p.2) else p) n = attrsL N n := by
  induction N with
  | nil => rfl
  | cons q N ih =>
    rw [List.map_cons, attrsL_cons, ih, attrsL_cons]
    by_cases h : q.1 = v
    · have h3 : ¬ v = n := fun e => hn e.symm
      simp [h, h3]
    · simp [h]

theorem attrsL_upd_self (N : List (Nat × Attrs)) (v : Nat) (f : Attrs → Attrs) (hv : v ∈ N.map (·.1)) :
    attrsL (N.map fun p => if p.1 = v then (p.1, f p.2) else p) v = f (attrsL N v) := by
  induction N with
  | nil => simp at hv
  | cons q N ih =>
    rw [List.map_cons, attrsL_cons, attrsL_cons]
    by_cases h : q.1 = v
    · simp [h]
    · simp only [h, if_false]
      apply ih
      simp only [List.map_cons, List.mem_cons] at hv
      rcases hv with hv | hv
      · exact absurd hv.symm h
      · exact hv

/-- look-up after mapping the attribute dicts (ids kept). -/
theorem attrsL_mapAttrs (N : List (Nat × Attrs)) (F : Nat → Attrs → Attrs) (n : Nat) (h : n ∈ N.map (·.1)) :
    attrsL (N.map fun p => (p.1, F p.1 p.2)) n = F n (attrsL N n) := by
  induction N with
  | nil => simp at h
  | cons q N ih =>
    simp only [List.map_cons, attrsL_cons]
    by_cases h2 : q.1 = n
    · simp [h2]
    · simp only [h2, if_false]
      apply ih
      simp only [List.map_cons, List.mem_cons] at h
      rcases h with h | h
      · exact absurd h.symm h2
      · exact h

/-! ### `addNode`, `touchNode`, `addEdge` -/

theorem addNode_edges (g : LGraph) (v : Nat) (a : Attrs) : (addNode g v a).edges = g.edges := by
  unfold addNode; split <;> rfl

theorem mem_addNode_ids (g : LGraph) (v : Nat) (a : Attrs) (n : Nat) :
    n ∈ (addNode g v a).ids ↔ n = v ∨ n ∈ g.ids := by
  unfold addNode
  split
  · rename_i h
    have hv : v ∈ g.ids := (hasNode_iff g v).1 h
    have : (updAttrs g v fun old => a.foldl (fun d kv => Dict.set d kv.1 kv.2) old).ids = g.ids := by
      simp only [LGraph.ids, updAttrs, List.map_map]
      apply List.map_congr_left
      intro p _; simp only [Function.comp]; split <;> rfl
    rw [this]
    constructor
    · exact Or.inr
    · rintro (rfl | h) <;> assumption
  · simp [LGraph.ids, or_comm]

theorem addNode_attrs (g : LGraph) (v : Nat) (a : Attrs) (n : Nat) :
    (addNode g v a).attrs n =
      if n = v then (if g.hasNode v then a.foldl (fun d kv => Dict.set d kv.1 kv.2) (g.attrs v) else a)
      else g.attrs n := by
  unfold addNode
  by_cases hv : g.hasNode v = true
  · rw [if_pos hv, if_pos hv]
    have hv' : v ∈ g.nodes.map (·.1) := (hasNode_iff g v).1 hv
    simp only [attrs_eq_attrsL, updAttrs]
    by_cases hn : n = v
    · subst hn
      rw [if_pos rfl]
      exact attrsL_upd_self g.nodes n (fun old => a.foldl (fun d kv => Dict.set d kv.1 kv.2) old) hv'
    · rw [if_neg hn]
      exact attrsL_upd_other g.nodes v n (fun old => a.foldl (fun d kv => Dict.set d kv.1 kv.2) old) hn
  · rw [if_neg hv, if_neg hv]
    have hv' : v ∉ g.nodes.map (·.1) := (hasNode_false_iff g v).1 (by simpa using hv)
    show attrsL (g.nodes ++ [(v, a)]) n = _
    rw [attrsL_append, attrsL_cons, attrsL_nil, attrs_eq_attrsL]
    by_cases hn : n = v
    · subst hn; simp [hv']
    · by_cases hm : n ∈ g.nodes.map (·.1)
      · simp [hn, hm]
      · have hn' : ¬ v = n := fun e => hn e.symm
        simp [hn, hm, hn', attrsL_not_mem _ _ hm]

theorem touchNode_edges (g : LGraph) (v : Nat) : (touchNode g v).edges = g.edges := by
  unfold touchNode; split <;> rfl

theorem mem_touchNode_ids (g : LGraph) (v n : Nat) : n ∈ (touchNode g v).ids ↔ n = v ∨ n ∈ g.ids := by
  unfold touchNode
  split
  · rename_i h
    have hv : v ∈ g.ids := (hasNode_iff g v).1 h
    constructor
    · exact Or.inr
    · rintro (rfl | h) <;> assumption
  · simp [LGraph.ids, or_comm]

theorem touchNode_attrs (g : LGraph) (v n : Nat) : (touchNode g v).attrs n = g.attrs n := by
  unfold touchNode
  split
  · rfl
  · rename_i h
    have hv' : v ∉ g.nodes.map (·.1) := (hasNode_false_iff g v).1 (by simpa using h)
    simp only [attrs_eq_attrsL, attrsL_append]
    by_cases hm : n ∈ g.nodes.map (·.1)
    · simp [hm]
    · simp only [hm, if_false, attrsL_cons, attrsL_nil, attrsL_not_mem _ _ hm]
      split <;> rfl

theorem touchNode_hasEdge (g : LGraph) (v a b : Nat) : (touchNode g v).hasEdge a b = g.hasEdge a b := by
  simp [LGraph.hasEdge, LGraph.edge?, touchNode_edges]

theorem mem_addEdge_ids (g : LGraph) (u v : Nat) (a : Attrs) (n : Nat) :
    n ∈ (addEdge g u v a).ids ↔ n = u ∨ n = v ∨ n ∈ g.ids := by
  have : (addEdge g u v a).ids = (touchNode (touchNode g u) v).ids := by
    unfold addEdge; simp only; split <;> rfl
  rw [this, mem_touchNode_ids, mem_touchNode_ids]
  constructor
  · rintro (h | h | h) <;> simp [h]
  · rintro (h | h | h) <;> simp [h]

theorem addEdge_attrs (g : LGraph) (u v : Nat) (a : Attrs) (n : Nat) : (addEdge g u v a).attrs n = g.attrs n := by
  have : (addEdge g u v a).nodes = (touchNode (touchNode g u) v).nodes := by
    unfold addEdge; simp only; split <;> rfl
  rw [attrs_eq_attrsL, this, ← attrs_eq_attrsL, touchNode_attrs, touchNode_attrs]

theorem addEdge_edges_new (g : LGraph) (u v : Nat) (a : Attrs) (h : g.hasEdge u v = false) :
    (addEdge g u v a).edges = g.edges ++ [(u, v, a)] := by
  unfold addEdge
  simp only [touchNode_hasEdge, h, Bool.false_eq_true, if_false, touchNode_edges]

/-! ### undirected edge look-up -/

/-- the unordered end-point pair of an edge. -/
def ukey (e : Nat × Nat × Attrs) : Nat × Nat := (min e.1 e.2.1, max e.1 e.2.1)

/-- the predicate of `LGraph.edge?`. -/
def matchUV (u v : Nat) (e : Nat × Nat × Attrs) : Bool :=
  decide ((e.1 = u ∧ e.2.1 = v) ∨ (e.1 = v ∧ e.2.1 = u))

theorem edge?_def (g : LGraph) (u v : Nat) : g.edge? u v = (g.edges.find? (matchUV u v)).map (·.2.2) := rfl

theorem matchUV_iff (u v : Nat) (e : Nat × Nat × Attrs) : matchUV u v e = true ↔ ukey e = (min u v, max u v) := by
  simp only [matchUV, decide_eq_true_eq, ukey, Prod.mk.injEq]; omega

theorem matchUV_ends (u v : Nat) (e e' : Nat × Nat × Attrs) (h1 : e'.1 = e.1) (h2 : e'.2.1 = e.2.1) :
    matchUV u v e' = matchUV u v e := by
  simp only [matchUV, h1, h2]

theorem matchUV_symm (u v : Nat) : matchUV u v = matchUV v u := by
  funext e; simp only [matchUV]; congr 1; exact propext or_comm

theorem edge?_symm (g : LGraph) (u v : Nat) : g.edge? u v = g.edge? v u := by
  rw [edge?_def, edge?_def, matchUV_symm]

theorem hasEdge_false_iff (g : LGraph) (u v : Nat) :
    g.hasEdge u v = false ↔ ∀ e ∈ g.edges, ukey e ≠ (min u v, max u v) := by
  simp only [LGraph.hasEdge, edge?_def, Option.isSome_map, Option.isSome_eq_false_iff, Option.isNone_iff_eq_none,
    List.find?_eq_none]
  constructor
  · intro h e he hk; exact h e he ((matchUV_iff u v e).2 hk)
  · intro h e he hk; exact h e he ((matchUV_iff u v e).1 hk)

theorem inj_of_nodup_map {α β} (f : α → β) (l : List α) (h : (l.map f).Nodup) (x y : α) (hx : x ∈ l) (hy : y ∈ l)
    (hxy : f x = f y) : x = y := by
  induction l with
  | nil => simp at hx
  | cons a l ih =>
    simp only [List.map_cons, List.nodup_cons, List.mem_map, not_exists, not_and] at h
    rcases List.mem_cons.1 hx with rfl | hx' <;> rcases List.mem_cons.1 hy with rfl | hy'
    · rfl
    · exact absurd hxy.symm (h.1 y hy')
    · exact absurd hxy (h.1 x hx')
    · exact ih h.2 hx' hy'

/-- with no parallel edges, the look-up finds *the* edge joining `u` and `v`. -/
theorem edge?_of_mem (g : LGraph) (hnd : (g.edges.map ukey).Nodup) (u v : Nat) (e : Nat × Nat × Attrs)
    (he : e ∈ g.edges) (hm : matchUV u v e = true) : g.edge? u v = some e.2.2 := by
  rw [edge?_def]
  cases hf : g.edges.find? (matchUV u v) with
  | none => exact absurd hm (List.find?_eq_none.1 hf e he)
  | some e' =>
    have h1 := List.find?_some hf
    have h2 := List.mem_of_find?_eq_some hf
    have : e' = e := inj_of_nodup_map ukey g.edges hnd e' e h2 he
      (((matchUV_iff u v e').1 h1).trans ((matchUV_iff u v e).1 hm).symm)
    simp [this]

theorem edge?_none_of (g : LGraph) (u v : Nat) (h : ∀ e ∈ g.edges, matchUV u v e = false) : g.edge? u v = none := by
  rw [edge?_def, Option.map_eq_none_iff, List.find?_eq_none]
  intro e he; simp [h e he]

theorem edge?_some_mem (g : LGraph) (u v : Nat) (a : Attrs) (h : g.edge? u v = some a) :
    ∃ e ∈ g.edges, matchUV u v e = true ∧ e.2.2 = a := by
  rw [edge?_def, Option.map_eq_some_iff] at h
  obtain ⟨e, hf, rfl⟩ := h
  exact ⟨e, List.mem_of_find?_eq_some hf, List.find?_some hf, rfl⟩

/-- look-up through a map that keeps the end points. -/
theorem find_matchUV_map (u v : Nat) (F : Nat × Nat × Attrs → Nat × Nat × Attrs)
    (hF : ∀ e, (F e).1 = e.1 ∧ (F e).2.1 = e.2.1) (l : List (Nat × Nat × Attrs)) :
    (l.map F).find? (matchUV u v) = (l.find? (matchUV u v)).map F := by
  rw [List.find?_map]
  congr 2
  funext e
  exact matchUV_ends u v e (F e) (hF e).1 (hF e).2

/-! ### the reader's folds -/

/-- what the reader makes of a written edge. -/
def rdEdge (e : Nat × Nat × Attrs) : Nat × Nat × Attrs :=
  (e.1, e.2.1, [("order", labelOrder (orderLabel (edgeOrderVal e.2.2)))])

/-- what the reader makes of a written node. -/
def rdNode (p : Nat × Attrs) : Nat × Attrs := (p.1, nodeAttrsOf p.1 (nodeLabel p.2))

theorem ukey_rdEdge (e : Nat × Nat × Attrs) : ukey (rdEdge e) = ukey e := rfl

theorem fold_edges (es : List (Nat × Nat × Attrs)) : ∀ (g : LGraph), ((g.edges ++ es).map ukey).Nodup →
    ((es.map edgeItem).foldl parseItem g).edges = g.edges ++ es.map rdEdge ∧
    (∀ n, ((es.map edgeItem).foldl parseItem g).attrs n = g.attrs n) ∧
    (∀ n, n ∈ ((es.map edgeItem).foldl parseItem g).ids ↔ n ∈ g.ids ∨ ∃ e ∈ es, n = e.1 ∨ n = e.2.1) := by
  induction es with
  | nil => intro g _; simp
  | cons e es ih =>
    intro g hnd
    have hstep : parseItem g (edgeItem e) = addEdge g e.1 e.2.1 [("order", labelOrder (orderLabel (edgeOrderVal e.2.2)))] := rfl
    have hno : g.hasEdge e.1 e.2.1 = false := by
      rw [hasEdge_false_iff]
      intro e' he' hk
      rw [List.map_append, List.nodup_append] at hnd
      exact hnd.2.2 _ (List.mem_map.2 ⟨e', he', rfl⟩) _ (List.mem_map.2 ⟨e, List.mem_cons_self, rfl⟩) hk
    have hedges := addEdge_edges_new g e.1 e.2.1 [("order", labelOrder (orderLabel (edgeOrderVal e.2.2)))] hno
    have hnd' : (((parseItem g (edgeItem e)).edges ++ es).map ukey).Nodup := by
      rw [hstep, hedges]
      have : (g.edges ++ [(e.1, e.2.1, [("order", labelOrder (orderLabel (edgeOrderVal e.2.2)))])] ++ es).map ukey =
          (g.edges ++ e :: es).map ukey := by
        simp [ukey]
      rw [this]; exact hnd
    obtain ⟨h1, h2, h3⟩ := ih (parseItem g (edgeItem e)) hnd'
    simp only [List.map_cons, List.foldl_cons]
    refine ⟨?_, ?_, ?_⟩
    · rw [h1, hstep, hedges]; simp [rdEdge]
    · intro n; rw [h2, hstep, addEdge_attrs]
    · intro n; rw [h3, hstep, mem_addEdge_ids]
      simp only [List.mem_cons, exists_eq_or_imp]
      constructor
      · rintro ((h | h | h) | h)
        · exact Or.inr (Or.inl (Or.inl h))
        · exact Or.inr (Or.inl (Or.inr h))
        · exact Or.inl h
        · exact Or.inr (Or.inr h)
      · rintro (h | (h | h) | h)
        · exact Or.inl (Or.inr (Or.inr h))
        · exact Or.inl (Or.inl h)
        · exact Or.inl (Or.inr (Or.inl h))
        · exact Or.inr h

/-- `add_node` over a list of (id, attributes). -/
def addNodes (g : LGraph) (ps : List (Nat × Attrs)) : LGraph := ps.foldl (fun s p => addNode s p.1 p.2) g

theorem addNodes_cons (g : LGraph) (q : Nat × Attrs) (ps : List (Nat × Attrs)) :
    addNodes g (q :: ps) = addNodes (addNode g q.1 q.2) ps := rfl

theorem hasNode_congr (g g' : LGraph) (n : Nat) (h : n ∈ g.ids ↔ n ∈ g'.ids) : g.hasNode n = g'.hasNode n := by
  rw [Bool.eq_iff_iff, hasNode_iff, hasNode_iff]; exact h

theorem addNodes_spec (ps : List (Nat × Attrs)) : ∀ (g : LGraph), (ps.map (·.1)).Nodup →
    (addNodes g ps).edges = g.edges ∧
    (∀ n, n ∈ (addNodes g ps).ids ↔ n ∈ g.ids ∨ n ∈ ps.map (·.1)) ∧
    (∀ n, n ∉ ps.map (·.1) → (addNodes g ps).attrs n = g.attrs n) ∧
    (∀ p ∈ ps, (addNodes g ps).attrs p.1 =
      if g.hasNode p.1 then p.2.foldl (fun d kv => Dict.set d kv.1 kv.2) (g.attrs p.1) else p.2) := by
  induction ps with
  | nil => intro g _; simp [addNodes]
  | cons q ps ih =>
    intro g hnd
    simp only [List.map_cons, List.nodup_cons] at hnd
    obtain ⟨h1, h2, h3, h4⟩ := ih (addNode g q.1 q.2) hnd.2
    rw [addNodes_cons]
    refine ⟨by rw [h1, addNode_edges], ?_, ?_, ?_⟩
    · intro n; rw [h2, mem_addNode_ids]
      simp only [List.map_cons, List.mem_cons]
      constructor
      · rintro ((h | h) | h)
        · exact Or.inr (Or.inl h)
        · exact Or.inl h
        · exact Or.inr (Or.inr h)
      · rintro (h | h | h)
        · exact Or.inl (Or.inr h)
        · exact Or.inl (Or.inl h)
        · exact Or.inr h
    · intro n hn
      simp only [List.map_cons, List.mem_cons, not_or] at hn
      rw [h3 n hn.2, addNode_attrs, if_neg hn.1]
    · intro p hp
      rcases List.mem_cons.1 hp with rfl | hp'
      · rw [h3 _ hnd.1, addNode_attrs, if_pos rfl]
      · have hne : p.1 ≠ q.1 := fun e => hnd.1 (e ▸ List.mem_map.2 ⟨p, hp', rfl⟩)
        rw [h4 p hp', addNode_attrs, if_neg hne]
        rw [hasNode_congr (addNode g q.1 q.2) g p.1 (by rw [mem_addNode_ids]; simp [hne])]

theorem addNodes_fresh (ps : List (Nat × Attrs)) : ∀ (g : LGraph), (ps.map (·.1)).Nodup → (∀ p ∈ ps, p.1 ∉ g.ids) →
    addNodes g ps = { g with nodes := g.nodes ++ ps } := by
  induction ps with
  | nil => intro g _ _; simp [addNodes]
  | cons q ps ih =>
    intro g hnd hf
    simp only [List.map_cons, List.nodup_cons] at hnd
    have hq : g.hasNode q.1 = false := (hasNode_false_iff g q.1).2 (hf q List.mem_cons_self)
    have hstep : addNode g q.1 q.2 = { g with nodes := g.nodes ++ [q] } := by
      unfold addNode; simp [hq]
    rw [addNodes_cons, hstep, ih _ hnd.2]
    · simp
    · intro p hp
      simp only [LGraph.ids, List.map_append, List.map_cons, List.map_nil, List.mem_append, List.mem_singleton, not_or]
      refine ⟨hf p (List.mem_cons_of_mem _ hp), ?_⟩
      intro e; exact hnd.1 (e ▸ List.mem_map.2 ⟨p, hp, rfl⟩)

theorem fold_nodeItems (l : List (Nat × Attrs)) (g : LGraph) :
    (l.map nodeItem).foldl parseItem g = addNodes g (l.map rdNode) := by
  unfold addNodes
  rw [List.foldl_map, List.foldl_map]
  rfl

theorem set_nodeAttrsOf (n : Nat) (l : List Char) :
    (nodeAttrsOf n l).foldl (fun d kv => Dict.set d kv.1 kv.2) [] = nodeAttrsOf n l := by
  simp [nodeAttrsOf, Dict.set]

/-! ### Stage A: what the reader reconstructs -/

theorem mem_filter_ids (N : List (Nat × Attrs)) (c : Nat → Bool) (n : Nat) :
    n ∈ ((N.filter fun p => c p.1).map rdNode).map (·.1) ↔ n ∈ N.map (·.1) ∧ c n = true := by
  simp only [List.mem_map, List.mem_filter, rdNode]
  constructor
  · rintro ⟨_, ⟨p, ⟨hp, hc⟩, rfl⟩, rfl⟩; exact ⟨⟨p, hp, rfl⟩, hc⟩
  · rintro ⟨⟨p, hp, rfl⟩, hc⟩; exact ⟨_, ⟨p, ⟨hp, hc⟩, rfl⟩, rfl⟩

theorem nodup_filter_ids (N : List (Nat × Attrs)) (c : Nat → Bool) (h : (N.map (·.1)).Nodup) :
    (((N.filter fun p => c p.1).map rdNode).map (·.1)).Nodup := by
  have : ((N.filter fun p => c p.1).map rdNode).map (·.1) = (N.filter fun p => c p.1).map (·.1) := by
    simp [List.map_map, Function.comp_def, rdNode]
  rw [this]
  exact List.Nodup.sublist (List.Sublist.map _ List.filter_sublist) h

/-- one side of the rule as `GMLToNX` rebuilds it: the side section, then synchronised with the
context section. -/
theorem readSide_spec (S K : LGraph) (ch : List Nat) (hS : SideOk S) (hK : K.ids.Nodup)
    (hSK : ∀ n, n ∈ S.ids ↔ n ∈ K.ids) :
    (∀ n, n ∈ (syncSide (readSection (sideItems S ch)) (readSection (ctxItems K ch))).ids ↔ n ∈ K.ids) ∧
    (∀ n ∈ K.ids, (syncSide (readSection (sideItems S ch)) (readSection (ctxItems K ch))).attrs n =
        nodeAttrsOf n (nodeLabel (if n ∈ ch then S.attrs n else K.attrs n))) ∧
    (syncSide (readSection (sideItems S ch)) (readSection (ctxItems K ch))).edges =
        S.edges.map fun e => (e.1, e.2.1, [("order", edgeOrderVal e.2.2)]) := by
  -- the edge phase of the side section
  obtain ⟨hE1, hE2, hE3⟩ := fold_edges S.edges {} hS.simple
  generalize hEdef : (S.edges.map edgeItem).foldl parseItem {} = E at hE1 hE2 hE3
  -- the node phase of the side section
  have hndS := nodup_filter_ids S.nodes (fun n => ch.contains n) hS.nodup
  obtain ⟨hs1, hs2, hs3, hs4⟩ := addNodes_spec _ E hndS
  have hsd : readSection (sideItems S ch) =
      addNodes E ((S.nodes.filter fun p => ch.contains p.1).map rdNode) := by
    unfold readSection sideItems
    rw [List.foldl_append, hEdef, fold_nodeItems]
  generalize hsddef : addNodes E ((S.nodes.filter fun p => ch.contains p.1).map rdNode) = sd at hs1 hs2 hs3 hs4 hsd
  -- the context section
  have hndK := nodup_filter_ids K.nodes (fun n => !ch.contains n) hK
  have hctx : readSection (ctxItems K ch) = ⟨(K.nodes.filter fun p => !ch.contains p.1).map rdNode, []⟩ := by
    unfold readSection ctxItems
    rw [fold_nodeItems, addNodes_fresh _ _ hndK (by intro p _; simp [LGraph.ids])]
    simp
  -- synchronisation
  have hsync : syncSide sd ⟨(K.nodes.filter fun p => !ch.contains p.1).map rdNode, []⟩ =
      addNodes sd ((K.nodes.filter fun p => !ch.contains p.1).map rdNode) := by
    simp [syncSide, addNodes]
  obtain ⟨hg1, hg2, hg3, hg4⟩ := addNodes_spec _ sd hndK
  rw [hsd, hctx, hsync]
  generalize addNodes sd ((K.nodes.filter fun p => !ch.contains p.1).map rdNode) = G at hg1 hg2 hg3 hg4
  have hattrE : ∀ n, E.attrs n = [] := fun n => by rw [hE2]; rfl
  have hmS : ∀ n, n ∈ ((S.nodes.filter fun p => ch.contains p.1).map rdNode).map (·.1) ↔
      n ∈ S.ids ∧ ch.contains n = true := fun n => mem_filter_ids S.nodes (fun n => ch.contains n) n
  have hmK : ∀ n, n ∈ ((K.nodes.filter fun p => !ch.contains p.1).map rdNode).map (·.1) ↔
      n ∈ K.ids ∧ (!ch.contains n) = true := fun n => mem_filter_ids K.nodes (fun n => !ch.contains n) n
  have hsdK : ∀ n, n ∉ ch → sd.attrs n = [] := by
    intro n hn
    rw [hs3 n, hattrE]
    rw [hmS]; simp [hn]
  have hfoldNil : ∀ (g : LGraph) (p : Nat × Attrs), g.attrs p.1 = [] →
      (if g.hasNode (rdNode p).1 then (rdNode p).2.foldl (fun d kv => Dict.set d kv.1 kv.2) (g.attrs (rdNode p).1)
       else (rdNode p).2) = (rdNode p).2 := by
    intro g p h
    have : g.attrs (rdNode p).1 = [] := h
    rw [this]
    simp only [rdNode, set_nodeAttrsOf, ite_self]
  refine ⟨?_, ?_, ?_⟩
  · intro n
    rw [hg2, hs2, hE3, hmS, hmK]
    constructor
    · rintro ((h | h) | h)
      · rcases h with h | ⟨e, he, h⟩
        · simp [LGraph.ids] at h
        · rcases h with rfl | rfl
          · exact (hSK _).1 (hS.ends e he).1
          · exact (hSK _).1 (hS.ends e he).2
      · exact (hSK n).1 h.1
      · exact h.1
    · intro h
      by_cases hc : ch.contains n = true
      · exact Or.inl (Or.inr ⟨(hSK n).2 h, hc⟩)
      · exact Or.inr ⟨h, by simpa using hc⟩
  · intro n hn
    by_cases hc : n ∈ ch
    · rw [if_pos hc]
      have hc' : ch.contains n = true := by simpa using hc
      obtain ⟨p, hp, rfl⟩ := List.mem_map.1 ((hSK n).2 hn)
      rw [hg3 p.1 (by rw [hmK]; simp [hc])]
      have hmem : rdNode p ∈ (S.nodes.filter fun p => ch.contains p.1).map rdNode :=
        List.mem_map.2 ⟨p, List.mem_filter.2 ⟨hp, hc'⟩, rfl⟩
      have := hs4 _ hmem
      rw [hfoldNil E p (hattrE _)] at this
      rw [attrs_eq_of_mem S hS.nodup p hp]
      exact this
    · rw [if_neg hc]
      have hc' : (!ch.contains n) = true := by simpa using hc
      obtain ⟨p, hp, rfl⟩ := List.mem_map.1 hn
      have hmem : rdNode p ∈ (K.nodes.filter fun p => !ch.contains p.1).map rdNode :=
        List.mem_map.2 ⟨p, List.mem_filter.2 ⟨hp, hc'⟩, rfl⟩
      have := hg4 _ hmem
      rw [hfoldNil sd p (hsdK _ hc)] at this
      rw [attrs_eq_of_mem K hK p hp]
      exact this
  · rw [hg1, hs1, hE1]
    simp only [List.nil_append]
    apply List.map_congr_left
    intro e he
    obtain ⟨x, hx, hstd⟩ := hS.orders e he
    simp only [rdEdge, hx, orderLabel_roundtrip' x hstd]

/-! ### `construct` -/

theorem mem_construct_ids (G H : LGraph) (n : Nat) : n ∈ (construct G H).ids ↔ n ∈ G.ids ∨ n ∈ H.ids := by
  have key : ∀ base : LGraph, (base = G ∨ base = H) →
      (n ∈ base.ids ∨ n ∈ ((G.ids ++ H.ids).filter fun n => !base.hasNode n).eraseDups ↔ n ∈ G.ids ∨ n ∈ H.ids) := by
    intro base hb
    rw [List.mem_eraseDups, List.mem_filter, List.mem_append]
    have hbase : n ∈ base.ids → n ∈ G.ids ∨ n ∈ H.ids := by
      rcases hb with rfl | rfl
      · exact Or.inl
      · exact Or.inr
    constructor
    · rintro (h | h)
      · exact hbase h
      · exact h.1
    · intro h
      by_cases hn : n ∈ base.ids
      · exact Or.inl hn
      · exact Or.inr ⟨h, by simpa [LGraph.hasNode] using hn⟩
  unfold construct
  simp only [LGraph.ids, List.map_map, List.map_append, List.mem_append, Function.comp_def, List.map_id']
  exact key _ (by split <;> simp)

theorem typesGH_itsNodeAttrs (G H : LGraph) (n : Nat) (a : Attrs) :
    Attrs.get (itsNodeAttrs G H n a) "typesGH" = .tup [nodeRow G n, nodeRow H n] := by
  unfold itsNodeAttrs
  simp only
  rw [get_set_other _ _ _ _ (by decide), get_set_other _ _ _ _ (by decide), get_set_other _ _ _ _ (by decide),
    get_set_other _ _ _ _ (by decide), get_set_other _ _ _ _ (by decide)]
  simp [Attrs.get, Dict.getD, Dict.get?_set_self]

theorem attrsL_mapAttrs' (N : List (Nat × Attrs)) (F : Nat → Attrs → Attrs) (n : Nat)
    (h : n ∈ (N.map fun p => (p.1, F p.1 p.2)).map (·.1)) :
    attrsL (N.map fun p => (p.1, F p.1 p.2)) n = F n (attrsL N n) := by
  apply attrsL_mapAttrs
  simpa [List.map_map, Function.comp_def] using h

theorem construct_typesGH (G H : LGraph) (n : Nat) (hn : n ∈ (construct G H).ids) :
    Attrs.get ((construct G H).attrs n) "typesGH" = .tup [nodeRow G n, nodeRow H n] := by
  have hnodes : (construct G H).nodes = List.map (fun p : Nat × Attrs => (p.1, itsNodeAttrs G H p.1 p.2)) _ := rfl
  rw [attrs_eq_attrsL, hnodes, attrsL_mapAttrs' _ _ _ (by rw [← hnodes]; exact hn), typesGH_itsNodeAttrs]

theorem construct_nodeView (G H : LGraph) (n : Nat) (hn : n ∈ (construct G H).ids) :
    nodeView (construct G H) n =
      .tup ([tupGet (nodeRow G n) 0, tupGet (nodeRow G n) 3] ++ [tupGet (nodeRow H n) 0, tupGet (nodeRow H n) 3]) := by
  simp [nodeView, construct_typesGH G H n hn, tupGet]

theorem matchUV_cases (u v : Nat) (e : Nat × Nat × Attrs) (h : matchUV u v e = true) :
    (e.1 = u ∧ e.2.1 = v) ∨ (e.1 = v ∧ e.2.1 = u) := by
  simpa [matchUV] using h

theorem orderIn_symm (g : LGraph) (u v : Nat) : orderIn g u v = orderIn g v u := by
  simp only [orderIn, edge?_symm g u v]

theorem hasEdge_symm (g : LGraph) (u v : Nat) : g.hasEdge u v = g.hasEdge v u := by
  simp only [LGraph.hasEdge, edge?_symm g u v]

theorem orderIn_of_match (g : LGraph) (u v : Nat) (e : Nat × Nat × Attrs) (h : matchUV u v e = true) :
    orderIn g e.1 e.2.1 = orderIn g u v ∧ g.hasEdge e.1 e.2.1 = g.hasEdge u v := by
  rcases matchUV_cases u v e h with ⟨h1, h2⟩ | ⟨h1, h2⟩
  · rw [h1, h2]; exact ⟨rfl, rfl⟩
  · rw [h1, h2]; exact ⟨orderIn_symm g v u, hasEdge_symm g v u⟩

theorem find_filter_of_imp {α} (P Q : α → Bool) (l : List α) (h : ∀ x, P x = true → Q x = true) :
    (l.filter Q).find? P = l.find? P := by
  induction l with
  | nil => rfl
  | cons x l ih =>
    by_cases hq : Q x = true
    · simp only [List.filter_cons, hq, if_true, List.find?_cons, ih]
    · have hp : ¬ P x = true := fun hp => hq (h x hp)
      rw [List.filter_cons_of_neg hq, List.find?_cons_of_neg hp, ih]

theorem hasEdge_eq_find (g : LGraph) (u v : Nat) : g.hasEdge u v = (g.edges.find? (matchUV u v)).isSome := by
  simp [LGraph.hasEdge, edge?_def]

theorem construct_edgeView (G H : LGraph) (u v : Nat) :
    edgeView (construct G H) u v =
      if G.hasEdge u v || H.hasEdge u v then some (.tup [orderIn G u v, orderIn H u v]) else none := by
  have hie : ∀ e : Nat × Nat × Attrs, (itsEdge G H e.1 e.2.1).1 = e.1 ∧ (itsEdge G H e.1 e.2.1).2.1 = e.2.1 :=
    fun e => ⟨rfl, rfl⟩
  have hord : ∀ e : Nat × Nat × Attrs, matchUV u v e = true →
      Attrs.get (itsEdge G H e.1 e.2.1).2.2 "order" = .tup [orderIn G u v, orderIn H u v] := by
    intro e he
    simp only [itsEdge, Attrs.get, Dict.getD, Dict.get?, if_true, Option.getD_some]
    rw [(orderIn_of_match G u v e he).1, (orderIn_of_match H u v e he).1]
  have hedges : (construct G H).edges = G.edges.map (fun e => itsEdge G H e.1 e.2.1) ++
      (H.edges.filter fun e => !G.hasEdge e.1 e.2.1).map fun e => itsEdge G H e.1 e.2.1 := rfl
  rw [edgeView, edge?_def, hedges, List.find?_append, find_matchUV_map u v _ hie, find_matchUV_map u v _ hie,
    hasEdge_eq_find G, hasEdge_eq_find H]
  cases hG : G.edges.find? (matchUV u v) with
  | some e =>
    simp [hord e (List.find?_some hG)]
  | none =>
    have hGno : G.hasEdge u v = false := by rw [hasEdge_eq_find, hG]; rfl
    rw [find_filter_of_imp (matchUV u v) (fun e => !G.hasEdge e.1 e.2.1) H.edges (by
      intro e he; rw [(orderIn_of_match G u v e he).2, hGno]; rfl)]
    cases hH : H.edges.find? (matchUV u v) with
    | some e => simp [hord e (List.find?_some hH)]
    | none => simp

/-! ### Stage A: the reader on a written rule -/

/-- a side graph whose edges are those of `S` with only the order kept. -/
theorem edge?_of_edges_map (G S : LGraph)
    (h : G.edges = S.edges.map fun e => (e.1, e.2.1, [("order", edgeOrderVal e.2.2)])) (u v : Nat) :
    G.edge? u v = (S.edge? u v).map fun a => [("order", edgeOrderVal a)] := by
  rw [edge?_def, edge?_def, h,
    find_matchUV_map u v (fun e => (e.1, e.2.1, [("order", edgeOrderVal e.2.2)])) (fun e => ⟨rfl, rfl⟩)]
  cases S.edges.find? (matchUV u v) <;> rfl

theorem hasEdge_of_edges_map (G S : LGraph)
    (h : G.edges = S.edges.map fun e => (e.1, e.2.1, [("order", edgeOrderVal e.2.2)])) (u v : Nat) :
    G.hasEdge u v = (S.edge? u v).isSome := by
  simp [LGraph.hasEdge, edge?_of_edges_map G S h]

theorem orderIn_of_edges_map (G S : LGraph)
    (h : G.edges = S.edges.map fun e => (e.1, e.2.1, [("order", edgeOrderVal e.2.2)])) (u v : Nat) :
    orderIn G u v = ordOf (S.edge? u v) := by
  rw [orderIn, edge?_of_edges_map G S h]
  cases S.edge? u v with
  | none => rfl
  | some a => simp [ordOf, Dict.getD, Dict.get?]

theorem nodeRow_view (G : LGraph) (n : Nat) (a : Attrs) (hn : n ∈ G.ids) (ha : alpha (elemOf a))
    (hG : G.attrs n = nodeAttrsOf n (nodeLabel a)) :
    [tupGet (nodeRow G n) 0, tupGet (nodeRow G n) 3] = labView a := by
  have hp : parseLabel (nodeLabel a) = (elemOf a, chargeOf a) := label_roundtrip' _ _ ha
  simp [nodeRow, (hasNode_iff G n).2 hn, hG, nodeAttrsOf, hp, Dict.getD, Dict.get?, tupGet, labView]

theorem mem_findChanged_left (L R : LGraph) (n : Nat) (h : n ∈ findChanged L R) : n ∈ L.ids :=
  (List.mem_filter.1 h).1

/-! ### Stage B: the ITS export -/

theorem nodeShape_unpack' (a : Attrs) (h : nodeShape a = true) :
    ∃ e ar hc c nb ar' hc' c' nb',
      Dict.get? a "typesGH" = some (.tup [.tup [.str e, ar, hc, .num c, nb], .tup [.str e, ar', hc', .num c', nb']]) ∧
      alpha e.toList ∧ Dict.get? a "element" = some (.str e) ∧ Dict.get? a "charge" = some (.num c) ∧
      c % 2 = 0 ∧ c' % 2 = 0 := by
  unfold nodeShape at h
  split at h
  · rename_i e ar hc c nb e' ar' hc' c' nb' heq
    simp only [Bool.and_eq_true, decide_eq_true_eq] at h
    obtain ⟨⟨⟨⟨⟨h1, h2⟩, h3⟩, h4⟩, h5⟩, h6⟩ := h
    subst h1
    exact ⟨e, ar, hc, c, nb, ar', hc', c', nb', heq, h2, h5, h6, h3, h4⟩
  · simp at h

theorem edgeShape_unpack' (a : Attrs) (h : edgeShape a = true) :
    ∃ x y, Dict.get? a "order" = some (.tup [.num x, .num y]) ∧ stdOrder x = true ∧ stdOrder y = true ∧
      ¬ (x = 0 ∧ y = 0) := by
  unfold edgeShape at h
  split at h
  · rename_i x y heq
    simp only [Bool.and_eq_true, Bool.not_eq_true', Bool.and_eq_false_iff, decide_eq_false_iff_not] at h
    refine ⟨x, y, heq, h.1.1, h.1.2, ?_⟩
    rintro ⟨hx, hy⟩
    rcases h.2 with h2 | h2
    · exact h2 hx
    · exact h2 hy
  · simp at h

/-- element and charge of a shaped node, on both sides and in the ITS graph itself. -/
theorem shaped_views (p : Nat × Attrs) (h : nodeShape p.2 = true) :
    ∃ e c c', alpha e.toList ∧ c % 2 = 0 ∧ c' % 2 = 0 ∧
      Attrs.get p.2 "typesGH" = .tup [.tup [.str e, tupGet (tupGet (Attrs.get p.2 "typesGH") 0) 1, tupGet (tupGet (Attrs.get p.2 "typesGH") 0) 2, .num c, tupGet (tupGet (Attrs.get p.2 "typesGH") 0) 4],
                                     .tup [.str e, tupGet (tupGet (Attrs.get p.2 "typesGH") 1) 1, tupGet (tupGet (Attrs.get p.2 "typesGH") 1) 2, .num c', tupGet (tupGet (Attrs.get p.2 "typesGH") 1) 4]] ∧
      elemOf p.2 = e.toList ∧ chargeOf p.2 = c / 2 ∧
      elemOf (sideAttrs 0 p) = e.toList ∧ chargeOf (sideAttrs 0 p) = c / 2 ∧
      elemOf (sideAttrs 1 p) = e.toList ∧ chargeOf (sideAttrs 1 p) = c' / 2 ∧
      Attrs.get (sideAttrs 0 p) "charge" = .num c ∧ Attrs.get (sideAttrs 1 p) "charge" = .num c' := by
  obtain ⟨e, ar, hc, c, nb, ar', hc', c', nb', h1, h2, h3, h4, h5, h6⟩ := nodeShape_unpack' p.2 h
  refine ⟨e, c, c', h2, h5, h6, ?_, ?_, ?_, ?_, ?_, ?_, ?_, ?_, ?_⟩
  · simp [Attrs.get, Dict.getD, h1, tupGet]
  · simp [elemOf, h3]
  · simp [chargeOf, h4]
  · simp [sideAttrs, sideNode, h1, elemOf, Dict.get?, tupGet]
  · simp [sideAttrs, sideNode, h1, chargeOf, Dict.get?, tupGet]
  · simp [sideAttrs, sideNode, h1, elemOf, Dict.get?, tupGet]
  · simp [sideAttrs, sideNode, h1, chargeOf, Dict.get?, tupGet]
  · simp [sideAttrs, sideNode, h1, Attrs.get, Dict.getD, Dict.get?, tupGet]
  · simp [sideAttrs, sideNode, h1, Attrs.get, Dict.getD, Dict.get?, tupGet]

theorem sideEdge_shape (i : Nat) (e : Nat × Nat × Attrs) (x y : Int)
    (h : Dict.get? e.2.2 "order" = some (.tup [.num x, .num y])) :
    sideEdge i e = if (if i = 0 then x else y) > 0 then some (e.1, e.2.1, [("order", .num (if i = 0 then x else y))])
      else none := by
  simp [sideEdge, h]

theorem sideEdge_some (i : Nat) (e e' : Nat × Nat × Attrs) (x y : Int)
    (h : Dict.get? e.2.2 "order" = some (.tup [.num x, .num y])) (hs : sideEdge i e = some e') :
    (if i = 0 then x else y) > 0 ∧ e' = (e.1, e.2.1, [("order", .num (if i = 0 then x else y))]) := by
  rw [sideEdge_shape i e x y h] at hs
  by_cases hp : (if i = 0 then x else y) > 0
  · rw [if_pos hp] at hs; exact ⟨hp, (Option.some.inj hs).symm⟩
  · rw [if_neg hp] at hs; simp at hs

theorem sideEdge_ends (i : Nat) (e e' : Nat × Nat × Attrs) (hs : sideEdge i e = some e') :
    e'.1 = e.1 ∧ e'.2.1 = e.2.1 := by
  have h0 := hs
  unfold sideEdge at h0
  split at h0
  · rename_i a b heq
    obtain ⟨_, rfl⟩ := sideEdge_some i e e' a b heq hs
    exact ⟨rfl, rfl⟩
  · simp at h0

theorem mem_side_edges (i : Nat) (I : LGraph) (e' : Nat × Nat × Attrs) :
    e' ∈ (side i I).edges ↔ ∃ e ∈ I.edges, sideEdge i e = some e' := by
  simp [side, List.mem_filterMap]

theorem filterMap_map_sublist {α β γ} (f : α → Option β) (k : β → γ) (k' : α → γ) (l : List α)
    (h : ∀ x y, f x = some y → k y = k' x) : ((l.filterMap f).map k).Sublist (l.map k') := by
  induction l with
  | nil => simp
  | cons x l ih =>
    cases hf : f x with
    | none => rw [List.filterMap_cons_none hf, List.map_cons]; exact ih.cons _
    | some y => rw [List.filterMap_cons_some hf, List.map_cons, List.map_cons, h x y hf]; exact ih.cons_cons _

theorem side_simple (i : Nat) (I : LGraph) (h : (I.edges.map ukey).Nodup) : ((side i I).edges.map ukey).Nodup := by
  apply List.Nodup.sublist _ h
  apply filterMap_map_sublist
  intro e e' hs
  obtain ⟨h1, h2⟩ := sideEdge_ends i e e' hs
  simp only [ukey, h1, h2]

theorem std_pos_cases (x : Int) (h : stdOrder x = true) (hp : x > 0) : x = 2 ∨ x = 3 ∨ x = 4 ∨ x = 6 := by
  simp only [stdOrder, Bool.or_eq_true, decide_eq_true_eq] at h
  omega

theorem std_ite (i : Nat) (x y : Int) (hx : stdOrder x = true) (hy : stdOrder y = true) :
    stdOrder (if i = 0 then x else y) = true := by
  split <;> assumption

theorem sideOk_side (I : LGraph) (hs : ItsShape I) (i : Nat) : SideOk (side i I) := by
  obtain ⟨hwf, hns, hes⟩ := hs
  refine ⟨by rw [side_ids i I hns]; exact hwf.1, ?_, side_simple i I hwf.2.2, ?_⟩
  · intro e' he'
    obtain ⟨e, he, hse⟩ := (mem_side_edges i I e').1 he'
    obtain ⟨h1, h2⟩ := sideEdge_ends i e e' hse
    rw [side_ids i I hns, h1, h2]
    exact ⟨(hwf.2.1 e he).1, (hwf.2.1 e he).2.1⟩
  · intro e' he'
    obtain ⟨e, he, hse⟩ := (mem_side_edges i I e').1 he'
    obtain ⟨x, y, hxy, hx, hy, _⟩ := edgeShape_unpack' e.2.2 (hes e he)
    obtain ⟨hpos, rfl⟩ := sideEdge_some i e e' x y hxy hse
    refine ⟨if i = 0 then x else y, by simp [edgeOrderVal, Dict.getD, Dict.get?], ?_⟩
    exact std_pos_cases _ (std_ite i x y hx hy) hpos

/-- the bond `u–v` on side `i` of a shaped ITS graph, given the ITS bond. -/
theorem side_edge? (I : LGraph) (hs : ItsShape I) (i : Nat) (u v : Nat) (e : Nat × Nat × Attrs) (he : e ∈ I.edges)
    (hm : matchUV u v e = true) (x y : Int) (hxy : Dict.get? e.2.2 "order" = some (.tup [.num x, .num y]))
    (hx : stdOrder x = true) (hy : stdOrder y = true) :
    ordOf ((side i I).edge? u v) = .num (if i = 0 then x else y) ∧
    ((side i I).edge? u v).isSome = decide ((if i = 0 then x else y) > 0) := by
  obtain ⟨hwf, hns, hes⟩ := hs
  have hse := sideEdge_shape i e x y hxy
  by_cases hpos : (if i = 0 then x else y) > 0
  · rw [if_pos hpos] at hse
    have hmem : (e.1, e.2.1, [("order", Val.num (if i = 0 then x else y))]) ∈ (side i I).edges :=
      (mem_side_edges i I _).2 ⟨e, he, hse⟩
    have := edge?_of_mem (side i I) (side_simple i I hwf.2.2) u v _ hmem
      ((matchUV_ends u v e _ rfl rfl).trans hm)
    rw [this]
    simp [ordOf, edgeOrderVal, Dict.getD, Dict.get?, hpos]
  · rw [if_neg hpos] at hse
    have : (side i I).edge? u v = none := by
      apply edge?_none_of
      intro e' he'
      obtain ⟨e0, he0, hse0⟩ := (mem_side_edges i I e').1 he'
      obtain ⟨h1, h2⟩ := sideEdge_ends i e0 e' hse0
      rw [matchUV_ends u v e0 e' h1 h2]
      cases hm0 : matchUV u v e0 with
      | false => rfl
      | true =>
        have : e0 = e := inj_of_nodup_map ukey I.edges hwf.2.2 e0 e he0 he
          (((matchUV_iff u v e0).1 hm0).trans ((matchUV_iff u v e).1 hm).symm)
        rw [this, hse] at hse0
        simp at hse0
    rw [this]
    have hstd := std_ite i x y hx hy
    simp only [stdOrder, Bool.or_eq_true, decide_eq_true_eq] at hstd
    have h0 : (if i = 0 then x else y) = 0 := by omega
    simp [ordOf, h0]

end Rd

open Rd

/-! ### Main theorems -/

theorem reader_spec (L R K : LGraph) (hL : SideOk L) (hR : SideOk R) (hK : K.ids.Nodup)
    (hLK : ∀ n, n ∈ L.ids ↔ n ∈ K.ids) (hRK : ∀ n, n ∈ R.ids ↔ n ∈ K.ids)
    (hlabLR : ∀ n ∈ findChanged L R, alpha (elemOf (L.attrs n)) ∧ alpha (elemOf (R.attrs n)))
    (hlabK : ∀ n ∈ K.ids, n ∉ findChanged L R → alpha (elemOf (K.attrs n))) :
    (∀ n, n ∈ (gmlToIts (ruleOf L R K)).ids ↔ n ∈ K.ids) ∧
    (∀ n ∈ K.ids, nodeView (gmlToIts (ruleOf L R K)) n =
        if n ∈ findChanged L R then .tup (labView (L.attrs n) ++ labView (R.attrs n))
        else .tup (labView (K.attrs n) ++ labView (K.attrs n))) ∧
    (∀ u v, edgeView (gmlToIts (ruleOf L R K)) u v =
        if (L.edge? u v).isSome || (R.edge? u v).isSome
        then some (.tup [ordOf (L.edge? u v), ordOf (R.edge? u v)]) else none) := by
  obtain ⟨hG1, hG2, hG3⟩ := readSide_spec L K (findChanged L R) hL hK hLK
  obtain ⟨hH1, hH2, hH3⟩ := readSide_spec R K (findChanged L R) hR hK hRK
  have hG : readLeft (ruleOf L R K) = syncSide (readSection (sideItems L (findChanged L R)))
      (readSection (ctxItems K (findChanged L R))) := rfl
  have hH : readRight (ruleOf L R K) = syncSide (readSection (sideItems R (findChanged L R)))
      (readSection (ctxItems K (findChanged L R))) := rfl
  rw [← hG] at hG1 hG2 hG3
  rw [← hH] at hH1 hH2 hH3
  unfold gmlToIts
  generalize readLeft (ruleOf L R K) = G at hG1 hG2 hG3
  generalize readRight (ruleOf L R K) = H at hH1 hH2 hH3
  have hids : ∀ n, n ∈ (construct G H).ids ↔ n ∈ K.ids := by
    intro n; rw [mem_construct_ids, hG1, hH1, or_self]
  refine ⟨hids, ?_, ?_⟩
  · intro n hn
    rw [construct_nodeView G H n ((hids n).2 hn)]
    by_cases hc : n ∈ findChanged L R
    · rw [if_pos hc]
      have hg := hG2 n hn
      have hh := hH2 n hn
      rw [if_pos hc] at hg hh
      rw [nodeRow_view G n _ ((hG1 n).2 hn) (hlabLR n hc).1 hg, nodeRow_view H n _ ((hH1 n).2 hn) (hlabLR n hc).2 hh]
    · rw [if_neg hc]
      have hg := hG2 n hn
      have hh := hH2 n hn
      rw [if_neg hc] at hg hh
      rw [nodeRow_view G n _ ((hG1 n).2 hn) (hlabK n hn hc) hg, nodeRow_view H n _ ((hH1 n).2 hn) (hlabK n hn hc) hh]
  · intro u v
    rw [construct_edgeView, hasEdge_of_edges_map G L hG3, hasEdge_of_edges_map H R hH3,
      orderIn_of_edges_map G L hG3, orderIn_of_edges_map H R hH3]

theorem gml_roundtrip_full' (I : LGraph) (hs : ItsShape I) : RuleEq (gmlToIts (itsToGml false false I)) I := by
  have hrule : itsToGml false false I = ruleOf (side 0 I) (side 1 I) I := itsToGml_full I
  have hs' := hs
  obtain ⟨hwf, hns, hes⟩ := hs'
  have hattr : ∀ (i : Nat) (p : Nat × Attrs), p ∈ I.nodes → (side i I).attrs p.1 = sideAttrs i p :=
    fun i p hp => side_attrs i I hwf.1 hns p hp
  obtain ⟨r1, r2, r3⟩ := reader_spec (side 0 I) (side 1 I) I (sideOk_side I hs 0) (sideOk_side I hs 1) hwf.1
    (by intro n; rw [side_ids 0 I hns]) (by intro n; rw [side_ids 1 I hns])
    (by
      intro n hn
      have hn' : n ∈ I.ids := by
        have := mem_findChanged_left _ _ n hn
        rwa [side_ids 0 I hns] at this
      obtain ⟨p, hp, rfl⟩ := List.mem_map.1 hn'
      obtain ⟨e, c, c', ha, _, _, _, _, _, he0, _, he1, _, _, _⟩ := shaped_views p (hns p hp)
      rw [hattr 0 p hp, hattr 1 p hp, he0, he1]
      exact ⟨ha, ha⟩)
    (by
      intro n hn _
      obtain ⟨p, hp, rfl⟩ := List.mem_map.1 hn
      obtain ⟨e, c, c', ha, _, _, _, he, _⟩ := shaped_views p (hns p hp)
      rw [attrs_eq_of_mem I hwf.1 p hp, he]
      exact ha)
  rw [hrule]
  refine ⟨r1, ?_, ?_⟩
  · intro n hn
    obtain ⟨p, hp, rfl⟩ := List.mem_map.1 hn
    obtain ⟨e, c, c', ha, hc2, hc2', ht, he, hc, he0, hc0, he1, hc1, hg0, hg1⟩ := shaped_views p (hns p hp)
    have hm := mem_findChanged I hs p hp c c' hg0 hg1
    have e1 : 2 * (c / 2) = c := by omega
    have e2 : 2 * (c' / 2) = c' := by omega
    have hview : nodeView I p.1 = .tup [.str e, .num c, .str e, .num c'] := by
      simp only [nodeView, attrs_eq_of_mem I hwf.1 p hp]
      rw [ht]
      simp [tupGet]
    rw [r2 p.1 hn, hview]
    by_cases hcc : c = c'
    · have hnot : p.1 ∉ findChanged (side 0 I) (side 1 I) := fun h => (hm.1 h) hcc
      rw [if_neg hnot, attrs_eq_of_mem I hwf.1 p hp]
      simp [labView, he, hc, hcc, e2]
    · have hin : p.1 ∈ findChanged (side 0 I) (side 1 I) := hm.2 hcc
      rw [if_pos hin, hattr 0 p hp, hattr 1 p hp]
      simp [labView, he0, hc0, he1, hc1, e1, e2]
  · intro u v
    rw [r3 u v]
    cases hI : I.edge? u v with
    | none =>
      have hall : ∀ e ∈ I.edges, matchUV u v e = false := by
        rw [edge?_def, Option.map_eq_none_iff, List.find?_eq_none] at hI
        intro e he; simpa using hI e he
      have hside : ∀ i, (side i I).edge? u v = none := by
        intro i
        apply edge?_none_of
        intro e' he'
        obtain ⟨e0, he0, hse0⟩ := (mem_side_edges i I e').1 he'
        obtain ⟨h1, h2⟩ := sideEdge_ends i e0 e' hse0
        rw [matchUV_ends u v e0 e' h1 h2]; exact hall e0 he0
      simp [edgeView, hI, hside]
    | some a =>
      obtain ⟨e, he, hm, rfl⟩ := edge?_some_mem I u v a hI
      obtain ⟨x, y, hxy, hx, hy, hnz⟩ := edgeShape_unpack' e.2.2 (hes e he)
      obtain ⟨o0, s0⟩ := side_edge? I hs 0 u v e he hm x y hxy hx hy
      obtain ⟨o1, s1⟩ := side_edge? I hs 1 u v e he hm x y hxy hx hy
      simp only [if_true] at o0 s0
      simp only [Nat.one_ne_zero, if_false] at o1 s1
      rw [o0, o1, s0, s1]
      have hxp : x > 0 ∨ y > 0 := by
        simp only [stdOrder, Bool.or_eq_true, decide_eq_true_eq] at hx hy
        omega
      have : (decide (x > 0) || decide (y > 0)) = true := by simpa using hxp
      rw [this, if_pos rfl]
      simp [edgeView, hI, Attrs.get, Dict.getD, hxy]

end SynKit.Gml

import SynKitModel.Cluster
/-!
# Helper lemmas for C13 (clustering)

1. closed forms of the two loops of `iterative_cluster` (`inner_eq`, `outer_eq`): the final state is
   determined by the list of new clusters `parts`;
2. `parts` is a partition of the indices (`parts_spec`);
3. the class of an index equals the class given by the sequential "first matching representative"
   classification `seqCls` (`dictGet_label_parts`), without any hypothesis on `iso`;
4. under reflexivity the sequential class of an item is the position of the first matching final
   representative (`seqCls_eq_findIdx`), which gives "same class ⇔ iso" for an equivalence;
5. `libCheck` / `clusterRun` / `bcFit`: specification, invariants, batching.
-/
namespace SynKit.Cluster

/-! ## 1. basics -/

theorem setAdd_of_not_mem {s : List Nat} {x : Nat} (h : x ∉ s) : setAdd s x = s ++ [x] := by
  simp [setAdd, h]

theorem dictSet_of_not_mem {d : List (Nat × Nat)} {k v : Nat} (h : k ∉ d.map (·.1)) :
    dictSet d k v = d ++ [(k, v)] := by
  induction d with
  | nil => rfl
  | cons p rest ih =>
    obtain ⟨k', v'⟩ := p
    simp only [List.map_cons, List.mem_cons, not_or] at h
    have hne : k' ≠ k := fun e => h.1 e.symm
    simp [dictSet, hne, ih h.2]

theorem dictGet_append (d e : List (Nat × Nat)) (k : Nat) :
    dictGet (d ++ e) k = (dictGet d k).or (dictGet e k) := by
  induction d with
  | nil => simp [dictGet]
  | cons p rest ih =>
    obtain ⟨k', v'⟩ := p
    by_cases h : k' = k <;> simp [dictGet, h, ih]

theorem dictGet_eq_none {d : List (Nat × Nat)} {k : Nat} (h : k ∉ d.map (·.1)) : dictGet d k = none := by
  induction d with
  | nil => rfl
  | cons p rest ih =>
    obtain ⟨k', v'⟩ := p
    simp only [List.map_cons, List.mem_cons, not_or] at h
    have hne : k' ≠ k := fun e => h.1 e.symm
    simp [dictGet, hne, ih h.2]

theorem dictGet_map_const {l : List Nat} {k c : Nat} (h : k ∈ l) :
    dictGet (l.map fun j => (j, c)) k = some c := by
  induction l with
  | nil => simp at h
  | cons a rest ih =>
    by_cases e : a = k
    · simp [dictGet, e]
    · have : k ∈ rest := by
        rcases List.mem_cons.1 h with h | h
        · exact absurd h.symm e
        · exact h
      simp [dictGet, e, ih this]

theorem enumFrom_map_fst {α : Type} (i : Nat) (xs : List α) :
    (enumFrom i xs).map (·.1) = List.range' i xs.length := by
  induction xs generalizing i with
  | nil => rfl
  | cons x xs ih => simp [enumFrom, ih, List.range'_succ]

theorem enumFrom_map_snd {α : Type} (i : Nat) (xs : List α) : (enumFrom i xs).map (·.2) = xs := by
  induction xs generalizing i with
  | nil => rfl
  | cons x xs ih => simp [enumFrom, ih]

theorem enumFrom_nodup {α : Type} (i : Nat) (xs : List α) : ((enumFrom i xs).map (·.1)).Nodup := by
  rw [enumFrom_map_fst]; exact List.nodup_range' 1

section
variable {α : Type} {κ : Type} [DecidableEq κ]

/-! ## 2. closed form of the loops -/

/-- Indices the inner loop adds to the class of representative `xi`. -/
def pick (iso : α → α → Bool) (key : α → κ) (xi : α) (vis : List Nat) (rest : List (Nat × α)) : List Nat :=
  (rest.filter fun p => decide (key xi = key p.2) && decide (p.1 ∉ vis) && iso xi p.2).map (·.1)

theorem pick_cons (iso : α → α → Bool) (key : α → κ) (xi : α) (vis : List Nat) (j : Nat) (xj : α)
    (rest : List (Nat × α)) :
    pick iso key xi vis ((j, xj) :: rest) =
      if key xi = key xj ∧ j ∉ vis ∧ iso xi xj = true then j :: pick iso key xi vis rest
      else pick iso key xi vis rest := by
  unfold pick
  by_cases h1 : key xi = key xj <;> by_cases h2 : j ∈ vis <;> by_cases h3 : iso xi xj = true <;>
    simp [h1, h2, h3]

theorem pick_congr (iso : α → α → Bool) (key : α → κ) (xi : α) (vis : List Nat) (j : Nat)
    (rest : List (Nat × α)) (hj : j ∉ rest.map (·.1)) :
    pick iso key xi (vis ++ [j]) rest = pick iso key xi vis rest := by
  unfold pick
  congr 1
  apply List.filter_congr
  intro p hp
  have : p.1 ≠ j := fun e => hj (e ▸ List.mem_map_of_mem hp)
  simp [this]

theorem pick_sublist (iso : α → α → Bool) (key : α → κ) (xi : α) (vis : List Nat) (rest : List (Nat × α)) :
    (pick iso key xi vis rest).Sublist (rest.map (·.1)) :=
  List.Sublist.map _ List.filter_sublist

theorem mem_pick (iso : α → α → Bool) (key : α → κ) (xi : α) (vis : List Nat) (rest : List (Nat × α)) (j : Nat) :
    j ∈ pick iso key xi vis rest ↔
      ∃ y, (j, y) ∈ rest ∧ key xi = key y ∧ j ∉ vis ∧ iso xi y = true := by
  unfold pick
  simp only [List.mem_map, List.mem_filter, Bool.and_eq_true, decide_eq_true_eq]
  constructor
  · rintro ⟨⟨j', y⟩, ⟨hm, ⟨h1, h2⟩, h3⟩, rfl⟩; exact ⟨y, hm, h1, h2, h3⟩
  · rintro ⟨y, hm, h1, h2, h3⟩; exact ⟨(j, y), ⟨hm, ⟨h1, h2⟩, h3⟩, rfl⟩

theorem inner_eq (iso : α → α → Bool) (key : α → κ) (xi : α) (c : Nat) (rest : List (Nat × α)) :
    ∀ (vis cl : List Nat) (r2c : List (Nat × Nat)), (rest.map (·.1)).Nodup → r2c.map (·.1) = vis →
      (∀ x ∈ cl, x ∈ vis) →
      inner iso key xi c rest (vis, cl, r2c) =
        (vis ++ pick iso key xi vis rest, cl ++ pick iso key xi vis rest,
         r2c ++ (pick iso key xi vis rest).map fun j => (j, c)) := by
  induction rest with
  | nil => intro vis cl r2c _ _ _; simp [inner, pick]
  | cons p rest ih =>
    obtain ⟨j, xj⟩ := p
    intro vis cl r2c hnd hk hcl
    simp only [List.map_cons, List.nodup_cons] at hnd
    rw [pick_cons]
    by_cases h1 : key xi = key xj ∧ j ∉ vis
    · by_cases h3 : iso xi xj = true
      · have hjcl : j ∉ cl := fun h => h1.2 (hcl j h)
        have hjk : j ∉ r2c.map (·.1) := by rw [hk]; exact h1.2
        simp only [inner, h1, h3, and_self, if_true, not_false_eq_true]
        rw [setAdd_of_not_mem h1.2, setAdd_of_not_mem hjcl, dictSet_of_not_mem hjk]
        rw [ih (vis ++ [j]) (cl ++ [j]) (r2c ++ [(j, c)]) hnd.2 (by simp [hk])
          (by intro x hx; rcases List.mem_append.1 hx with h | h
              · exact List.mem_append_left _ (hcl x h)
              · exact List.mem_append_right _ h)]
        rw [pick_congr iso key xi vis j rest hnd.1]
        simp
      · simp only [inner, h1, h3, and_self, if_true, not_false_eq_true]
        simp only [Bool.false_eq_true, if_false]
        exact ih vis cl r2c hnd.2 hk hcl
    · have : ¬ (key xi = key xj ∧ j ∉ vis ∧ iso xi xj = true) := fun h => h1 ⟨h.1, h.2.1⟩
      simp only [inner, h1, this, if_false]
      exact ih vis cl r2c hnd.2 hk hcl

/-- The clusters the outer loop creates on the enumerated suffix `l` when `V` is already visited. -/
def parts (iso : α → α → Bool) (key : α → κ) : List Nat → List (Nat × α) → List (List Nat)
  | _, [] => []
  | V, (i, xi) :: rest =>
    if i ∈ V then parts iso key V rest
    else (i :: pick iso key xi (V ++ [i]) rest) ::
      parts iso key (V ++ (i :: pick iso key xi (V ++ [i]) rest)) rest

/-- `rule_to_cluster` entries of a list of clusters numbered from `c`. -/
def label : Nat → List (List Nat) → List (Nat × Nat)
  | _, [] => []
  | c, C :: Cs => (C.map fun j => (j, c)) ++ label (c + 1) Cs

theorem label_map_fst (c : Nat) (Cs : List (List Nat)) : (label c Cs).map (·.1) = Cs.flatten := by
  induction Cs generalizing c with
  | nil => rfl
  | cons C Cs ih => simp [label, ih, Function.comp_def]

theorem outer_eq (iso : α → α → Bool) (key : α → κ) (l : List (Nat × α)) :
    ∀ s : St, (l.map (·.1)).Nodup → s.r2c.map (·.1) = s.visited →
      outer iso key l s =
        { visited := s.visited ++ (parts iso key s.visited l).flatten
          clusters := s.clusters ++ parts iso key s.visited l
          r2c := s.r2c ++ label s.clusters.length (parts iso key s.visited l) } := by
  induction l with
  | nil => intro s _ _; simp [outer, parts, label]
  | cons p rest ih =>
    obtain ⟨i, xi⟩ := p
    intro s hnd hk
    simp only [List.map_cons, List.nodup_cons] at hnd
    by_cases hi : i ∈ s.visited
    · simp only [outer, parts, hi, if_true]
      exact ih s hnd.2 hk
    · have hik : i ∉ s.r2c.map (·.1) := by rw [hk]; exact hi
      simp only [outer, parts, hi, if_false]
      rw [setAdd_of_not_mem hi, dictSet_of_not_mem hik]
      rw [inner_eq iso key xi s.clusters.length rest (s.visited ++ [i]) [i]
        (s.r2c ++ [(i, s.clusters.length)]) hnd.2 (by simp [hk]) (by simp)]
      rw [ih _ hnd.2 (by simp [hk, Function.comp_def])]
      simp [label, List.append_assoc]

/-! ## 3. `parts` is a partition -/

theorem parts_spec (iso : α → α → Bool) (key : α → κ) (l : List (Nat × α)) :
    ∀ V : List Nat, (l.map (·.1)).Nodup → V.Nodup →
      (V ++ (parts iso key V l).flatten).Nodup ∧
      (∀ j, j ∈ V ++ (parts iso key V l).flatten ↔ j ∈ V ∨ j ∈ l.map (·.1)) ∧
      (∀ C ∈ parts iso key V l, C ≠ []) := by
  induction l with
  | nil => intro V _ hV; simp [parts, hV]
  | cons p rest ih =>
    obtain ⟨i, xi⟩ := p
    intro V hnd hV
    simp only [List.map_cons, List.nodup_cons] at hnd
    by_cases hi : i ∈ V
    · simp only [parts, hi, if_true]
      obtain ⟨h1, h2, h3⟩ := ih V hnd.2 hV
      refine ⟨h1, ?_, h3⟩
      intro j; rw [h2 j]; simp only [List.map_cons, List.mem_cons]
      constructor
      · rintro (h | h)
        · exact Or.inl h
        · exact Or.inr (Or.inr h)
      · rintro (h | h | h)
        · exact Or.inl h
        · exact Or.inl (h ▸ hi)
        · exact Or.inr h
    · simp only [parts, hi, if_false]
      have hsub := pick_sublist iso key xi (V ++ [i]) rest
      have hPnd : (pick iso key xi (V ++ [i]) rest).Nodup := List.Nodup.sublist hsub hnd.2
      have hiP : i ∉ pick iso key xi (V ++ [i]) rest := fun h => hnd.1 (hsub.subset h)
      have hPV : ∀ j ∈ pick iso key xi (V ++ [i]) rest, j ∉ V ∧ j ≠ i := by
        intro j hj
        obtain ⟨y, _, _, h3, _⟩ := (mem_pick iso key xi (V ++ [i]) rest j).1 hj
        simp only [List.mem_append, List.mem_singleton, not_or] at h3
        exact h3
      have hV' : (V ++ (i :: pick iso key xi (V ++ [i]) rest)).Nodup := by
        rw [List.nodup_append]
        refine ⟨hV, List.nodup_cons.2 ⟨hiP, hPnd⟩, ?_⟩
        intro a ha b hb
        rcases List.mem_cons.1 hb with rfl | hb
        · intro e; exact hi (e ▸ ha)
        · intro e; exact (hPV b hb).1 (e ▸ ha)
      obtain ⟨h1, h2, h3⟩ := ih _ hnd.2 hV'
      refine ⟨?_, ?_, ?_⟩
      · simpa [List.append_assoc] using h1
      · intro j
        have := h2 j
        simp only [List.flatten_cons, List.map_cons, List.mem_cons, List.mem_append] at this ⊢
        constructor
        · rintro (h | (h | h) | h)
          · exact Or.inl h
          · exact Or.inr (Or.inl h)
          · exact Or.inr (Or.inr (hsub.subset h))
          · rcases this.1 (Or.inr h) with (h | h | h) | h
            · exact Or.inl h
            · exact Or.inr (Or.inl h)
            · exact Or.inr (Or.inr (hsub.subset h))
            · exact Or.inr (Or.inr h)
        · rintro (h | h | h)
          · exact Or.inl h
          · exact Or.inr (Or.inl (Or.inl h))
          · rcases this.2 (Or.inr h) with (h | h | h) | h
            · exact Or.inl h
            · exact Or.inr (Or.inl (Or.inl h))
            · exact Or.inr (Or.inl (Or.inr h))
            · exact Or.inr (Or.inr h)
      · intro C hC
        rcases List.mem_cons.1 hC with rfl | hC
        · simp
        · exact h3 C hC

/-- `rule_to_cluster` agrees with membership in `clusters`. -/
theorem dictGet_label (Cs : List (List Nat)) : ∀ (c : Nat), Cs.flatten.Nodup → ∀ j k,
    dictGet (label c Cs) j = some k ↔ c ≤ k ∧ ∃ C, Cs[k - c]? = some C ∧ j ∈ C := by
  induction Cs with
  | nil => intro c _ j k; simp [label, dictGet]
  | cons C Cs ih =>
    intro c hnd j k
    simp only [List.flatten_cons, List.nodup_append] at hnd
    obtain ⟨_, hCs, hdisj⟩ := hnd
    rw [label, dictGet_append]
    by_cases hj : j ∈ C
    · rw [dictGet_map_const hj]
      simp only [Option.some_or, Option.some.injEq]
      constructor
      · rintro rfl; exact ⟨Nat.le_refl _, C, by simp, hj⟩
      · rintro ⟨hck, C', hC', hjC'⟩
        rcases Nat.eq_or_lt_of_le hck with h | h
        · exact h
        · exfalso
          have : k - c = (k - (c + 1)) + 1 := by omega
          rw [this, List.getElem?_cons_succ] at hC'
          have hmem : j ∈ Cs.flatten := List.mem_flatten.2 ⟨C', List.mem_of_getElem? hC', hjC'⟩
          exact hdisj j hj j hmem rfl
    · rw [dictGet_eq_none (by simpa using hj)]
      simp only [Option.none_or]
      rw [ih (c + 1) hCs j k]
      constructor
      · rintro ⟨hck, C', hC', hjC'⟩
        refine ⟨by omega, C', ?_, hjC'⟩
        have : k - c = (k - (c + 1)) + 1 := by omega
        rw [this, List.getElem?_cons_succ]; exact hC'
      · rintro ⟨hck, C', hC', hjC'⟩
        rcases Nat.eq_or_lt_of_le hck with h | h
        · subst h; simp at hC'; subst hC'; exact absurd hjC' hj
        · refine ⟨by omega, C', ?_, hjC'⟩
          have : k - c = (k - (c + 1)) + 1 := by omega
          rw [this, List.getElem?_cons_succ] at hC'; exact hC'

/-- The final state of `iterative_cluster` in closed form. -/
theorem iterState_eq (iso : α → α → Bool) (key : α → κ) (xs : List α) :
    iterState iso key xs =
      { visited := (parts iso key [] (enumFrom 0 xs)).flatten
        clusters := parts iso key [] (enumFrom 0 xs)
        r2c := label 0 (parts iso key [] (enumFrom 0 xs)) } := by
  unfold iterState
  rw [outer_eq iso key _ {} (enumFrom_nodup 0 xs) rfl]
  simp

theorem mem_range'_iff (j n : Nat) : j ∈ List.range' 0 n ↔ j < n := by
  simp [List.mem_range']

/-! ## 4. one-shot clustering = sequential classification (no hypothesis on `iso`) -/

/-- The test `lib_check` and the inner loop apply: equal attribute and `iso(representative, item)`. -/
def matchB (iso : α → α → Bool) (key : α → κ) (r x : α) : Bool := decide (key r = key x) && iso r x

/-- Sequential classification against the growing list `R` of representatives: the class of an
item is the position of the first representative that matches it, else a new representative. -/
def seqCls (iso : α → α → Bool) (key : α → κ) : List α → List α → List Nat
  | _, [] => []
  | R, x :: l =>
    match R.findIdx? (fun r => matchB iso key r x) with
    | some c => c :: seqCls iso key R l
    | none => R.length :: seqCls iso key (R ++ [x]) l

/-- The representatives after the sequential classification. -/
def seqReps (iso : α → α → Bool) (key : α → κ) : List α → List α → List α
  | R, [] => R
  | R, x :: l =>
    match R.findIdx? (fun r => matchB iso key r x) with
    | some _ => seqReps iso key R l
    | none => seqReps iso key (R ++ [x]) l

theorem seqCls_found (iso : α → α → Bool) (key : α → κ) (l : List α) :
    ∀ (R : List α) (k : Nat) (x : α) (c : Nat), l[k]? = some x →
      R.findIdx? (fun r => matchB iso key r x) = some c → (seqCls iso key R l)[k]? = some c := by
  induction l with
  | nil => intro R k x c h; simp at h
  | cons y l ih =>
    intro R k x c hk hc
    cases k with
    | zero =>
      simp only [List.getElem?_cons_zero, Option.some.injEq] at hk
      subst hk
      simp [seqCls, hc]
    | succ k =>
      simp only [List.getElem?_cons_succ] at hk
      unfold seqCls
      split
      · simp only [List.getElem?_cons_succ]; exact ih R k x c hk hc
      · simp only [List.getElem?_cons_succ]
        exact ih (R ++ [y]) k x c hk (by rw [List.findIdx?_append, hc]; rfl)

theorem snd_unique (l : List (Nat × α)) (hnd : (l.map (·.1)).Nodup) (j : Nat) (y y' : α)
    (h : (j, y) ∈ l) (h' : (j, y') ∈ l) : y = y' := by
  induction l with
  | nil => simp at h
  | cons p rest ih =>
    simp only [List.map_cons, List.nodup_cons] at hnd
    rcases List.mem_cons.1 h with h | h <;> rcases List.mem_cons.1 h' with h' | h'
    · rw [← h] at h'; exact (Prod.mk.inj h').2.symm
    · have e : p.1 = j := by rw [← h]
      exact absurd (List.mem_map_of_mem (f := (·.1)) h') (by simpa [e] using hnd.1)
    · have e : p.1 = j := by rw [← h']
      exact absurd (List.mem_map_of_mem (f := (·.1)) h) (by simpa [e] using hnd.1)
    · exact ih hnd.2 h h'

theorem findIdx?_isSome_of_mem {β : Type} {p : β → Bool} {l : List β} {r : β} (h : r ∈ l) (hp : p r = true) :
    ∃ c, l.findIdx? p = some c := by
  cases hf : l.findIdx? p with
  | some c => exact ⟨c, rfl⟩
  | none => rw [List.findIdx?_eq_none_iff] at hf; rw [hf r h] at hp; exact absurd hp (by simp)

theorem sim (iso : α → α → Bool) (key : α → κ) (l : List (Nat × α)) :
    ∀ (R : List α) (V : List Nat), (l.map (·.1)).Nodup →
      (∀ p ∈ l, p.1 ∈ V ↔ ∃ r ∈ R, matchB iso key r p.2 = true) →
      ∀ (k : Nat) (p : Nat × α), l[k]? = some p → p.1 ∉ V →
        dictGet (label R.length (parts iso key V l)) p.1 = (seqCls iso key R (l.map (·.2)))[k]? := by
  induction l with
  | nil => intro R V _ _ k p h; simp at h
  | cons q rest ih =>
    obtain ⟨i, x⟩ := q
    intro R V hnd hcons k p hk hpV
    simp only [List.map_cons, List.nodup_cons] at hnd
    have hcons' : ∀ p ∈ rest, p.1 ∈ V ↔ ∃ r ∈ R, matchB iso key r p.2 = true :=
      fun p hp => hcons p (List.mem_cons_of_mem _ hp)
    by_cases hi : i ∈ V
    · obtain ⟨r, hr, hm⟩ := (hcons (i, x) (List.mem_cons_self ..)).1 hi
      obtain ⟨c, hc⟩ := findIdx?_isSome_of_mem (p := fun r => matchB iso key r x) hr hm
      cases k with
      | zero =>
        simp only [List.getElem?_cons_zero, Option.some.injEq] at hk
        subst hk; exact absurd hi hpV
      | succ k =>
        simp only [List.getElem?_cons_succ] at hk
        simp only [parts, hi, if_true, List.map_cons, seqCls, hc, List.getElem?_cons_succ]
        exact ih R V hnd.2 hcons' k p hk hpV
    · have hnone : R.findIdx? (fun r => matchB iso key r x) = none := by
        rw [List.findIdx?_eq_none_iff]
        intro r hr
        cases hm : matchB iso key r x with
        | false => rfl
        | true => exact absurd ((hcons (i, x) (List.mem_cons_self ..)).2 ⟨r, hr, hm⟩) hi
      simp only [parts, hi, if_false, List.map_cons, seqCls, hnone, label]
      have hmapC : ∀ P : List Nat, ((i, R.length) :: List.map (fun j => (j, R.length)) P) =
          List.map (fun j => (j, R.length)) (i :: P) := fun _ => rfl
      rw [dictGet_append, hmapC]
      cases k with
      | zero =>
        simp only [List.getElem?_cons_zero, Option.some.injEq] at hk
        subst hk
        rw [dictGet_map_const (List.mem_cons_self ..)]; rfl
      | succ k =>
        simp only [List.getElem?_cons_succ] at hk ⊢
        obtain ⟨j, y⟩ := p
        have hmem : (j, y) ∈ rest := List.mem_of_getElem? hk
        have hji : j ≠ i := fun e => hnd.1 (e ▸ List.mem_map_of_mem (f := (·.1)) hmem)
        have hnoR : ∀ r ∈ R, matchB iso key r y = false := by
          intro r hr
          cases hm : matchB iso key r y with
          | false => rfl
          | true => exact absurd ((hcons' (j, y) hmem).2 ⟨r, hr, hm⟩) hpV
        by_cases hjP : j ∈ pick iso key x (V ++ [i]) rest
        · rw [dictGet_map_const (List.mem_cons_of_mem _ hjP)]
          simp only [Option.some_or]
          obtain ⟨y', hy', h1, _, h3⟩ := (mem_pick iso key x (V ++ [i]) rest j).1 hjP
          have : y' = y := snd_unique rest hnd.2 j y' y hy' hmem
          subst this
          symm
          apply seqCls_found iso key (rest.map (·.2)) (R ++ [x]) k y' R.length
          · rw [List.getElem?_map, hk]; rfl
          · rw [List.findIdx?_append, List.findIdx?_eq_none_iff.2 hnoR]
            simp [matchB, h1, h3]
        · rw [dictGet_eq_none (by
            simp only [List.map_map, List.map_cons, List.mem_cons, not_or]
            refine ⟨hji, ?_⟩
            simpa [Function.comp_def] using hjP)]
          simp only [Option.none_or]
          have hlen : (R ++ [x]).length = R.length + 1 := by simp
          rw [← hlen]
          apply ih (R ++ [x]) _ hnd.2 _ k (j, y) hk
          · simp only [List.mem_append, List.mem_cons, not_or]
            exact ⟨hpV, hji, hjP⟩
          · intro q hq
            obtain ⟨j', y'⟩ := q
            have hj'i : j' ≠ i := fun e => hnd.1 (e ▸ List.mem_map_of_mem (f := (·.1)) hq)
            simp only [List.mem_append, List.mem_cons, List.not_mem_nil, or_false]
            constructor
            · rintro (h | h | h)
              · obtain ⟨r, hr, hm⟩ := (hcons' (j', y') hq).1 h
                exact ⟨r, Or.inl hr, hm⟩
              · exact absurd h hj'i
              · obtain ⟨y'', hy'', h1, _, h3⟩ := (mem_pick iso key x (V ++ [i]) rest j').1 h
                have : y'' = y' := snd_unique rest hnd.2 j' y'' y' hy'' hq
                subst this
                exact ⟨x, Or.inr rfl, by simp [matchB, h1, h3]⟩
            · rintro ⟨r, hr | hr, hm⟩
              · exact Or.inl ((hcons' (j', y') hq).2 ⟨r, hr, hm⟩)
              · subst hr
                by_cases hV : j' ∈ V
                · exact Or.inl hV
                · right; right
                  simp only [matchB, Bool.and_eq_true, decide_eq_true_eq] at hm
                  exact (mem_pick iso key r (V ++ [i]) rest j').2
                    ⟨y', hq, hm.1, by simp [hV, hj'i], hm.2⟩

theorem enumFrom_getElem? (i : Nat) (xs : List α) (k : Nat) :
    (enumFrom i xs)[k]? = xs[k]?.map fun x => (i + k, x) := by
  induction xs generalizing i k with
  | nil => simp [enumFrom]
  | cons x xs ih =>
    cases k with
    | zero => simp [enumFrom]
    | succ k => simp [enumFrom, ih, Nat.add_assoc, Nat.add_comm 1 k]

/-- **Key lemma.** The class `rule_to_cluster` gives index `j` is the class the sequential
classification gives the `j`-th item. No hypothesis on `iso` or `key`. -/
theorem r2c_eq_seqCls (iso : α → α → Bool) (key : α → κ) (xs : List α) (j : Nat) (hj : j < xs.length) :
    classOf iso key xs j = (seqCls iso key [] xs)[j]? := by
  unfold classOf
  rw [iterState_eq]
  have h := sim iso key (enumFrom 0 xs) [] [] (enumFrom_nodup 0 xs) (by simp) j (j, xs[j])
    (by rw [enumFrom_getElem?]; simp [hj]) (by simp)
  rw [enumFrom_map_snd] at h
  exact h

theorem seqCls_length (iso : α → α → Bool) (key : α → κ) (l : List α) :
    ∀ R, (seqCls iso key R l).length = l.length := by
  induction l with
  | nil => intro R; rfl
  | cons x l ih => intro R; unfold seqCls; split <;> simp [ih]

theorem gcClasses_eq_seqCls (iso : α → α → Bool) (key : α → κ) (xs : List α) :
    gcClasses iso key xs = (seqCls iso key [] xs).map some := by
  apply List.ext_getElem?
  intro j
  unfold gcClasses
  by_cases hj : j < xs.length
  · rw [List.getElem?_map, List.getElem?_range hj, List.getElem?_map]
    simp only [Option.map_some]
    rw [r2c_eq_seqCls iso key xs j hj]
    have : j < (seqCls iso key [] xs).length := by rw [seqCls_length]; exact hj
    rw [List.getElem?_eq_getElem this]; rfl
  · have h1 : ((List.range xs.length).map fun idx => classOf iso key xs idx)[j]? = none := by
      rw [List.getElem?_eq_none]; simp; omega
    have h2 : ((seqCls iso key [] xs).map some)[j]? = none := by
      rw [List.getElem?_eq_none]; simp [seqCls_length]; omega
    rw [h1, h2]

/-! ## 5. the sequential classification under reflexivity / equivalence -/

theorem seqReps_prefix (iso : α → α → Bool) (key : α → κ) (l : List α) :
    ∀ R, ∃ E, seqReps iso key R l = R ++ E := by
  induction l with
  | nil => intro R; exact ⟨[], by simp [seqReps]⟩
  | cons x l ih =>
    intro R
    unfold seqReps
    split
    · exact ih R
    · obtain ⟨E, hE⟩ := ih (R ++ [x]); exact ⟨x :: E, by rw [hE]; simp⟩

/-- With a reflexive test, the class of an item is the position of the first FINAL representative
that matches it (classes are numbered by first appearance). -/
theorem seqCls_eq_findIdx (iso : α → α → Bool) (key : α → κ)
    (hrefl : ∀ x, matchB iso key x x = true) (l : List α) :
    ∀ R, (seqCls iso key R l).map some =
      l.map fun x => (seqReps iso key R l).findIdx? (fun r => matchB iso key r x) := by
  induction l with
  | nil => intro R; rfl
  | cons x l ih =>
    intro R
    cases h : R.findIdx? (fun r => matchB iso key r x) with
    | some c =>
      obtain ⟨E, hE⟩ := seqReps_prefix iso key l R
      simp only [seqCls, seqReps, h, List.map_cons]
      rw [ih R]
      congr 1
      rw [hE, List.findIdx?_append, h]; rfl
    | none =>
      obtain ⟨E, hE⟩ := seqReps_prefix iso key l (R ++ [x])
      simp only [seqCls, seqReps, h, List.map_cons]
      rw [ih (R ++ [x])]
      congr 1
      rw [hE, List.append_assoc, List.findIdx?_append, h]
      simp [List.findIdx?_cons, hrefl x]

/-- `iso` is an equivalence relation (hypothesis on the oracle; proved for the engine in C07). -/
structure IsEquiv (iso : α → α → Bool) : Prop where
  refl : ∀ x, iso x x = true
  symm : ∀ x y, iso x y = true → iso y x = true
  trans : ∀ x y z, iso x y = true → iso y z = true → iso x z = true

/-- The pre-grouping attribute is isomorphism-invariant. -/
def KeyInv (iso : α → α → Bool) (key : α → κ) : Prop := ∀ x y, iso x y = true → key x = key y

theorem matchB_eq_iso {iso : α → α → Bool} {key : α → κ} (hK : KeyInv iso key) (r x : α) :
    matchB iso key r x = iso r x := by
  unfold matchB
  cases h : iso r x with
  | false => simp
  | true => simp [hK r x h]

theorem seqCls_getElem_findIdx (iso : α → α → Bool) (key : α → κ)
    (hrefl : ∀ x, matchB iso key x x = true) (l R : List α) (i : Nat) (hi : i < l.length) :
    (seqReps iso key R l).findIdx? (fun r => matchB iso key r l[i]) =
      some ((seqCls iso key R l)[i]'(by rw [seqCls_length]; exact hi)) := by
  have h := congrArg (·[i]?) (seqCls_eq_findIdx iso key hrefl l R)
  simp only [List.getElem?_map] at h
  rw [List.getElem?_eq_getElem hi, List.getElem?_eq_getElem (by rw [seqCls_length]; exact hi)] at h
  simp only [Option.map_some, Option.some.injEq] at h
  exact h.symm

/-- "same class ⇔ iso" for the sequential classification. -/
theorem seqCls_same_iff {iso : α → α → Bool} {key : α → κ} (hE : IsEquiv iso) (hK : KeyInv iso key)
    (l R : List α) (i j : Nat) (hi : i < l.length) (hj : j < l.length) :
    (seqCls iso key R l)[i]'(by rw [seqCls_length]; exact hi) =
      (seqCls iso key R l)[j]'(by rw [seqCls_length]; exact hj) ↔ iso l[i] l[j] = true := by
  have hrefl : ∀ x, matchB iso key x x = true := fun x => by rw [matchB_eq_iso hK]; exact hE.refl x
  have h1 := seqCls_getElem_findIdx iso key hrefl l R i hi
  have h2 := seqCls_getElem_findIdx iso key hrefl l R j hj
  constructor
  · intro e
    rw [e] at h1
    obtain ⟨hc, hp1, _⟩ := List.findIdx?_eq_some_iff_getElem.1 h1
    obtain ⟨_, hp2, _⟩ := List.findIdx?_eq_some_iff_getElem.1 h2
    rw [matchB_eq_iso hK] at hp1 hp2
    exact hE.trans _ _ _ (hE.symm _ _ hp1) hp2
  · intro e
    have hfun : (fun r => matchB iso key r l[i]) = (fun r => matchB iso key r l[j]) := by
      funext r
      rw [matchB_eq_iso hK, matchB_eq_iso hK]
      cases ha : iso r l[i] with
      | true => exact (hE.trans _ _ _ ha e).symm
      | false =>
        cases hb : iso r l[j] with
        | false => rfl
        | true => rw [hE.trans _ _ _ hb (hE.symm _ _ e)] at ha; exact absurd ha (by simp)
    rw [hfun, h2] at h1
    exact (Option.some.inj h1).symm

/-! ## 6. `lib_check`, `cluster`, `fit` -/

theorem le_foldl_max (l : List Int) : ∀ init : Int, init ≤ l.foldl max init ∧ ∀ a ∈ l, a ≤ l.foldl max init := by
  induction l with
  | nil => intro init; simp
  | cons b l ih =>
    intro init
    obtain ⟨h1, h2⟩ := ih (max init b)
    simp only [List.foldl_cons, List.mem_cons]
    refine ⟨by omega, ?_⟩
    rintro a (rfl | ha)
    · omega
    · exact h2 a ha

/-- The class `lib_check` allocates is larger than every template class, hence fresh. -/
theorem lt_newClass (ts : List (Tmpl α)) (t : Tmpl α) (h : t ∈ ts) : t.cls < newClass ts := by
  unfold newClass
  have := (le_foldl_max (ts.map (·.cls)) (-1)).2 t.cls (List.mem_map_of_mem h)
  omega

theorem libCheck_eq (iso : α → α → Bool) (key : α → κ) (x : α) (ts : List (Tmpl α)) :
    libCheck iso key x ts =
      match ts.find? (fun t => matchB iso key t.item x) with
      | some t => (t.cls, ts)
      | none => (newClass ts, ts ++ [⟨x, newClass ts⟩]) := by
  unfold libCheck
  rw [List.find?_filter]
  have : (fun a : Tmpl α => decide (decide (key a.item = key x) = true ∧ iso a.item x = true)) =
      (fun t => matchB iso key t.item x) := by
    funext a; simp [matchB]
  rw [this]
  cases List.find? (fun t => matchB iso key t.item x) ts <;> rfl

/-- Template classes are `0, 1, …, n-1` in order (the state reached from empty templates). -/
def Contig (ts : List (Tmpl α)) : Prop := ts.map (·.cls) = (List.range ts.length).map Int.ofNat

theorem foldl_max_range (k : Nat) : ((List.range k).map Int.ofNat).foldl max (-1) = (k : Int) - 1 := by
  induction k with
  | zero => rfl
  | succ k ih =>
    rw [List.range_succ, List.map_append, List.foldl_append, ih]
    simp only [List.map_cons, List.map_nil, List.foldl_cons, List.foldl_nil, Int.ofNat_eq_natCast]
    omega

theorem newClass_contig (ts : List (Tmpl α)) (h : Contig ts) : newClass ts = ts.length := by
  unfold newClass
  rw [h, foldl_max_range]; omega

theorem contig_append (ts : List (Tmpl α)) (h : Contig ts) (x : α) :
    Contig (ts ++ [⟨x, (ts.length : Int)⟩]) := by
  unfold Contig at *
  simp [List.range_succ, h]

theorem clusterRun_contig (iso : α → α → Bool) (key : α → κ) (l : List α) :
    ∀ ts : List (Tmpl α), Contig ts →
      (clusterRun iso key l ts).1 = (seqCls iso key (ts.map (·.item)) l).map Int.ofNat ∧
      Contig (clusterRun iso key l ts).2 ∧
      (clusterRun iso key l ts).2.map (·.item) = seqReps iso key (ts.map (·.item)) l := by
  induction l with
  | nil => intro ts h; exact ⟨rfl, h, rfl⟩
  | cons x l ih =>
    intro ts h
    have hidx : (ts.map (·.item)).findIdx? (fun r => matchB iso key r x) =
        ts.findIdx? (fun t => matchB iso key t.item x) := by
      rw [List.findIdx?_map]; rfl
    simp only [clusterRun, libCheck_eq, seqCls, seqReps, hidx]
    rw [List.find?_eq_bind_findIdx?_getElem?]
    cases hf : ts.findIdx? (fun t => matchB iso key t.item x) with
    | some c =>
      obtain ⟨hc, _, _⟩ := List.findIdx?_eq_some_iff_getElem.1 hf
      have hcls : ts[c].cls = Int.ofNat c := by
        have := congrArg (·[c]?) h
        simp only [List.getElem?_map, List.getElem?_eq_getElem hc, List.getElem?_range hc,
          Option.map_some, Option.some.injEq] at this
        exact this
      simp only [Option.bind_some, List.getElem?_eq_getElem hc]
      obtain ⟨h1, h2, h3⟩ := ih ts h
      exact ⟨by simp [h1, hcls], h2, h3⟩
    | none =>
      simp only [Option.bind_none]
      rw [newClass_contig ts h]
      obtain ⟨h1, h2, h3⟩ := ih _ (contig_append ts h x)
      simp only [List.map_append, List.map_cons, List.map_nil] at h1 h3
      exact ⟨by simp [h1], h2, h3⟩

theorem clusterRun_append (iso : α → α → Bool) (key : α → κ) (xs ys : List α) :
    ∀ ts : List (Tmpl α), clusterRun iso key (xs ++ ys) ts =
      ((clusterRun iso key xs ts).1 ++ (clusterRun iso key ys (clusterRun iso key xs ts).2).1,
       (clusterRun iso key ys (clusterRun iso key xs ts).2).2) := by
  induction xs with
  | nil => intro ts; simp [clusterRun]
  | cons x xs ih => intro ts; simp [clusterRun, ih]

theorem fitBatches_eq (iso : α → α → Bool) (key : α → κ) (bs : List (List α)) :
    ∀ ts : List (Tmpl α), fitBatches iso key bs ts = clusterRun iso key bs.flatten ts := by
  induction bs with
  | nil => intro ts; rfl
  | cons b bs ih => intro ts; simp [fitBatches, ih, clusterRun_append]

theorem chunks_flatten (k : Nat) (hk : 1 ≤ k) : ∀ (fuel : Nat) (l : List α), l.length ≤ fuel →
    (chunks k fuel l).flatten = l := by
  intro fuel
  induction fuel with
  | zero => intro l h; have : l = [] := List.length_eq_zero_iff.1 (by omega); subst this; rfl
  | succ fuel ih =>
    intro l h
    cases l with
    | nil => rfl
    | cons x l =>
      simp only [chunks, List.flatten_cons]
      rw [ih _ (by simp only [List.length_drop, List.length_cons] at h ⊢; omega)]
      exact List.take_append_drop k (x :: l)

theorem matchB_iff (iso : α → α → Bool) (key : α → κ) (r x : α) :
    matchB iso key r x = true ↔ key r = key x ∧ iso r x = true := by
  simp [matchB]

/-- Invariant of a template list: one representative per class — templates at different positions
are not isomorphic and carry different class numbers. -/
def TInv (iso : α → α → Bool) (ts : List (Tmpl α)) : Prop :=
  ∀ (i j : Nat) (a b : Tmpl α), ts[i]? = some a → ts[j]? = some b → i ≠ j →
    iso a.item b.item = false ∧ a.cls ≠ b.cls

theorem libCheck_cases (iso : α → α → Bool) (key : α → κ) (x : α) (ts : List (Tmpl α)) :
    (∃ pre t post, ts = pre ++ t :: post ∧ (key t.item = key x ∧ iso t.item x = true) ∧
        (∀ u ∈ pre, ¬ (key u.item = key x ∧ iso u.item x = true)) ∧ libCheck iso key x ts = (t.cls, ts)) ∨
    ((∀ t ∈ ts, ¬ (key t.item = key x ∧ iso t.item x = true)) ∧
        libCheck iso key x ts = (newClass ts, ts ++ [⟨x, newClass ts⟩]) ∧ ∀ t ∈ ts, t.cls ≠ newClass ts) := by
  rw [libCheck_eq]
  cases h : ts.find? (fun t => matchB iso key t.item x) with
  | some t =>
    left
    obtain ⟨hp, pre, post, hts, hpre⟩ := List.find?_eq_some_iff_append.1 h
    refine ⟨pre, t, post, hts, (matchB_iff iso key _ _).1 hp, ?_, rfl⟩
    intro u hu hm
    have := hpre u hu
    rw [(matchB_iff iso key _ _).2 hm] at this
    simp at this
  | none =>
    right
    rw [List.find?_eq_none] at h
    refine ⟨fun t ht hm => h t ht ((matchB_iff iso key _ _).2 hm), rfl, ?_⟩
    intro t ht e
    have := lt_newClass ts t ht
    omega

theorem tinv_append {iso : α → α → Bool} (hE : IsEquiv iso) (ts : List (Tmpl α)) (hT : TInv iso ts) (x : α) (c : Int)
    (hx : ∀ t ∈ ts, iso t.item x = false) (hc : ∀ t ∈ ts, t.cls ≠ c) : TInv iso (ts ++ [⟨x, c⟩]) := by
  have hx' : ∀ t ∈ ts, iso x t.item = false := by
    intro t ht
    cases h : iso x t.item with
    | false => rfl
    | true => have := hx t ht; rw [hE.symm _ _ h] at this; exact absurd this (by simp)
  intro i j a b ha hb hij
  rw [List.getElem?_append] at ha hb
  by_cases hi : i < ts.length <;> by_cases hj : j < ts.length
  · simp only [hi, hj, if_true] at ha hb; exact hT i j a b ha hb hij
  · simp only [hi, hj, if_true, if_false] at ha hb
    have hj0 : j - ts.length = 0 := by
      rcases Nat.eq_zero_or_pos (j - ts.length) with h | h
      · exact h
      · rw [List.getElem?_eq_none (by simp; omega)] at hb; exact absurd hb (by simp)
    rw [hj0] at hb; simp at hb; subst hb
    exact ⟨hx a (List.mem_of_getElem? ha), hc a (List.mem_of_getElem? ha)⟩
  · simp only [hi, hj, if_true, if_false] at ha hb
    have hi0 : i - ts.length = 0 := by
      rcases Nat.eq_zero_or_pos (i - ts.length) with h | h
      · exact h
      · rw [List.getElem?_eq_none (by simp; omega)] at ha; exact absurd ha (by simp)
    rw [hi0] at ha; simp at ha; subst ha
    exact ⟨hx' b (List.mem_of_getElem? hb), fun e => hc b (List.mem_of_getElem? hb) e.symm⟩
  · simp only [hi, hj, if_false] at ha hb
    have hi0 : i - ts.length = 0 := by
      rcases Nat.eq_zero_or_pos (i - ts.length) with h | h
      · exact h
      · rw [List.getElem?_eq_none (by simp; omega)] at ha; exact absurd ha (by simp)
    have hj0 : j - ts.length = 0 := by
      rcases Nat.eq_zero_or_pos (j - ts.length) with h | h
      · exact h
      · rw [List.getElem?_eq_none (by simp; omega)] at hb; exact absurd hb (by simp)
    omega

theorem libCheck_tinv {iso : α → α → Bool} {key : α → κ} (hE : IsEquiv iso) (hK : KeyInv iso key)
    (ts : List (Tmpl α)) (hT : TInv iso ts) (x : α) :
    (∀ t ∈ ts, iso t.item x = true → libCheck iso key x ts = (t.cls, ts)) ∧
    ((∀ t ∈ ts, iso t.item x = false) →
        (libCheck iso key x ts).1 ∉ ts.map (·.cls) ∧
        (libCheck iso key x ts).2 = ts ++ [⟨x, (libCheck iso key x ts).1⟩]) ∧
    TInv iso (libCheck iso key x ts).2 := by
  rcases libCheck_cases iso key x ts with ⟨pre, t0, post, hts, hm, _, hres⟩ | ⟨hno, hres, hfresh⟩
  · refine ⟨?_, ?_, by rw [hres]; exact hT⟩
    · intro t ht hiso
      rw [hres]
      obtain ⟨i, hi⟩ := List.mem_iff_getElem?.1 ht
      have h0 : ts[pre.length]? = some t0 := by rw [hts]; simp
      by_cases e : i = pre.length
      · subst e; rw [hi] at h0; rw [Option.some.inj h0]
      · have := (hT i pre.length t t0 hi h0 e).1
        rw [hE.trans _ _ _ hiso (hE.symm _ _ hm.2)] at this
        exact absurd this (by simp)
    · intro hall
      have : t0 ∈ ts := by rw [hts]; simp
      rw [hall t0 this] at hm; exact absurd hm.2 (by simp)
  · have hno' : ∀ t ∈ ts, iso t.item x = false := by
      intro t ht
      cases h : iso t.item x with
      | false => rfl
      | true => exact absurd ⟨hK _ _ h, h⟩ (hno t ht)
    refine ⟨?_, ?_, ?_⟩
    · intro t ht hiso; rw [hno' t ht] at hiso; exact absurd hiso (by simp)
    · intro _
      rw [hres]
      refine ⟨?_, rfl⟩
      simp only [List.mem_map, not_exists, not_and]
      intro t ht; exact hfresh t ht
    · rw [hres]
      exact tinv_append hE ts hT x _ hno' hfresh

theorem tinv_unique {iso : α → α → Bool} {ts : List (Tmpl α)} (hT : TInv iso ts) (t u : Tmpl α)
    (ht : t ∈ ts) (hu : u ∈ ts) (h : iso t.item u.item = true ∨ t.cls = u.cls) : t = u := by
  obtain ⟨p, hp⟩ := List.mem_iff_getElem?.1 ht
  obtain ⟨q, hq⟩ := List.mem_iff_getElem?.1 hu
  by_cases e : p = q
  · subst e; rw [hp] at hq; exact Option.some.inj hq
  · obtain ⟨h1, h2⟩ := hT p q t u hp hq e
    rcases h with h | h
    · rw [h] at h1; exact absurd h1 (by simp)
    · exact absurd h h2

theorem clusterRun_length (iso : α → α → Bool) (key : α → κ) (l : List α) :
    ∀ ts : List (Tmpl α), (clusterRun iso key l ts).1.length = l.length := by
  induction l with
  | nil => intro ts; rfl
  | cons x l ih => intro ts; simp [clusterRun, ih]

/-- A run of `cluster` over templates that are one representative per class: the invariant is kept,
templates are only appended, and every item ends in the class of a final template isomorphic to it. -/
theorem clusterRun_tinv {iso : α → α → Bool} {key : α → κ} (hE : IsEquiv iso) (hK : KeyInv iso key)
    (l : List α) : ∀ ts : List (Tmpl α), TInv iso ts →
      TInv iso (clusterRun iso key l ts).2 ∧ (∃ E, (clusterRun iso key l ts).2 = ts ++ E) ∧
      ∀ (k : Nat) (x : α) (c : Int), l[k]? = some x → (clusterRun iso key l ts).1[k]? = some c →
        ∃ t ∈ (clusterRun iso key l ts).2, iso t.item x = true ∧ t.cls = c := by
  induction l with
  | nil => intro ts hT; exact ⟨hT, ⟨[], by simp [clusterRun]⟩, by intro k x c h; simp at h⟩
  | cons y l ih =>
    intro ts hT
    obtain ⟨_, _, hT0⟩ := libCheck_tinv hE hK ts hT y
    obtain ⟨hT', ⟨E', hE'⟩, hcl⟩ := ih _ hT0
    have h0 : ∃ E0, (libCheck iso key y ts).2 = ts ++ E0 ∧
        ∃ t ∈ (libCheck iso key y ts).2, iso t.item y = true ∧ t.cls = (libCheck iso key y ts).1 := by
      rcases libCheck_cases iso key y ts with ⟨pre, t0, post, hts, hm, _, hres⟩ | ⟨_, hres, _⟩
      · rw [hres]; exact ⟨[], by simp, t0, by rw [hts]; simp, hm.2, rfl⟩
      · rw [hres]; exact ⟨_, rfl, ⟨y, newClass ts⟩, by simp, hE.refl y, rfl⟩
    obtain ⟨E0, hE0, t0, ht0, hiso0, hcls0⟩ := h0
    simp only [clusterRun]
    refine ⟨hT', ⟨E0 ++ E', by rw [hE', hE0, List.append_assoc]⟩, ?_⟩
    intro k x c hk hc
    cases k with
    | zero =>
      simp only [List.getElem?_cons_zero, Option.some.injEq] at hk hc
      subst hk; subst hc
      exact ⟨t0, by rw [hE']; exact List.mem_append_left _ ht0, hiso0, hcls0⟩
    | succ k =>
      simp only [List.getElem?_cons_succ] at hk hc
      exact hcl k x c hk hc

/-- Classes assigned by a run of `cluster` over one-representative-per-class templates follow
isomorphism: among the items, and between items and the templates given at the start. -/
theorem clusterRun_spec {iso : α → α → Bool} {key : α → κ} (hE : IsEquiv iso) (hK : KeyInv iso key)
    (l : List α) (ts : List (Tmpl α)) (hT : TInv iso ts) :
    (∀ (i j : Nat) (xi xj : α) (ci cj : Int), l[i]? = some xi → l[j]? = some xj →
      (clusterRun iso key l ts).1[i]? = some ci → (clusterRun iso key l ts).1[j]? = some cj →
      (ci = cj ↔ iso xi xj = true)) ∧
    (∀ t ∈ ts, ∀ (k : Nat) (x : α) (c : Int), l[k]? = some x → (clusterRun iso key l ts).1[k]? = some c →
      (c = t.cls ↔ iso t.item x = true)) := by
  obtain ⟨hT', ⟨E, hE'⟩, hcl⟩ := clusterRun_tinv hE hK l ts hT
  constructor
  · intro i j xi xj ci cj hi hj hci hcj
    obtain ⟨ti, hti, hisoi, hclsi⟩ := hcl i xi ci hi hci
    obtain ⟨tj, htj, hisoj, hclsj⟩ := hcl j xj cj hj hcj
    constructor
    · intro e
      have : ti = tj := tinv_unique hT' ti tj hti htj (Or.inr (by rw [hclsi, hclsj, e]))
      subst this
      exact hE.trans _ _ _ (hE.symm _ _ hisoi) hisoj
    · intro e
      have : ti = tj := tinv_unique hT' ti tj hti htj
        (Or.inl (hE.trans _ _ _ (hE.trans _ _ _ hisoi e) (hE.symm _ _ hisoj)))
      subst this
      rw [← hclsi, ← hclsj]
  · intro t ht k x c hk hc
    obtain ⟨tk, htk, hisok, hclsk⟩ := hcl k x c hk hc
    have ht' : t ∈ (clusterRun iso key l ts).2 := by rw [hE']; exact List.mem_append_left _ ht
    constructor
    · intro e
      have : tk = t := tinv_unique hT' tk t htk ht' (Or.inr (by rw [hclsk, e]))
      subst this; exact hisok
    · intro e
      have : tk = t := tinv_unique hT' tk t htk ht'
        (Or.inl (hE.trans _ _ _ hisok (hE.symm _ _ e)))
      subst this; exact hclsk.symm

end
end SynKit.Cluster

import SynKitModel.SubgraphSearch
import SynKitProofs.SubgraphSearchLemmas
import SynKitProofs.GraphMatcherEngineLemmas
import Mathlib.Data.List.Basic
import Mathlib.Data.List.Nodup
import Mathlib.Data.List.Perm.Subperm
/-!
# Helper lemmas for C06, `_quick_pre_filter`

`quickLoop` (the model of the loop in `_quick_pre_filter`) is characterised by two plain
quantities: the per-pattern-node candidate lists `cands` (host nodes whose selected attributes are
equal, whose hydrogen count is at least the pattern's and whose degree is at least the pattern
node's degree) and the product `estimate` of their lengths.  Then:

* a monomorphism sends every pattern node to one of its candidates (`mono_candidate`; the degree
  part is `mono_degree_le`), so a pattern node without candidates rules out every match
  (`allMonos_nil_of_zero`);
* the monomorphisms inject into the Cartesian product of the candidate lists, so their number is at
  most `estimate` (`allMonos_length_le_estimate`);
* the loop gives up iff some pattern node has no candidate or `estimate > thr * 10000`
  (`quickLoop_true_imp`, `quickLoop_true_of`).
-/
namespace SynKit.SubgraphSearch
open SynKit.Match SynKit.GraphAlg

/-! ## candidates and the estimate -/

/-- The host nodes counted by `_quick_pre_filter` for the pattern node `n = (p, pat_data)`:
`all(host_data.get(a) == pat_data.get(a) for a in node_attrs) and host_data.get("hcount", 0) >=
pat_data.get("hcount", 0) and host.degree(_) >= pat_deg`. -/
def cands (sel : Sel) (H P : LGraph) (n : Nat × Attrs) : List (Nat × Attrs) :=
  H.nodes.filter fun ha => nodeOk sel ha.2 n.2 && decide (degree H ha.1 ≥ degree P n.1)

/-- `count` of the loop body. -/
def candCount (sel : Sel) (H P : LGraph) (n : Nat × Attrs) : Nat := (cands sel H P n).length

/-- Product of the candidate counts over a list of pattern nodes. -/
def estimateOf (sel : Sel) (H P : LGraph) : List (Nat × Attrs) → Nat
  | [] => 1
  | n :: rest => candCount sel H P n * estimateOf sel H P rest

/-- The value `estimate` would reach if the loop of `_quick_pre_filter` ran to its end: the product,
over all pattern nodes, of the number of candidate host nodes. -/
def estimate (sel : Sel) (H P : LGraph) : Nat := estimateOf sel H P P.nodes

theorem mem_cands (sel : Sel) (H P : LGraph) (n ha : Nat × Attrs) :
    ha ∈ cands sel H P n ↔ ha ∈ H.nodes ∧ nodeOk sel ha.2 n.2 = true ∧ degree H ha.1 ≥ degree P n.1 := by
  unfold cands
  rw [List.mem_filter, Bool.and_eq_true, decide_eq_true_eq]

theorem candCount_eq_zero_iff (sel : Sel) (H P : LGraph) (n : Nat × Attrs) :
    candCount sel H P n = 0 ↔
      ∀ ha ∈ H.nodes, ¬ (nodeOk sel ha.2 n.2 = true ∧ degree H ha.1 ≥ degree P n.1) := by
  unfold candCount
  rw [List.length_eq_zero_iff, List.eq_nil_iff_forall_not_mem]
  constructor
  · intro h ha hha hc; exact h ha ((mem_cands sel H P n ha).2 ⟨hha, hc⟩)
  · intro h ha hha
    obtain ⟨h1, h2⟩ := (mem_cands sel H P n ha).1 hha
    exact h ha h1 h2

theorem estimateOf_pos (sel : Sel) (H P : LGraph) (nodes : List (Nat × Attrs))
    (h : ∀ n ∈ nodes, candCount sel H P n ≠ 0) : 0 < estimateOf sel H P nodes := by
  induction nodes with
  | nil => exact Nat.one_pos
  | cons n rest ih =>
    unfold estimateOf
    exact Nat.mul_pos (Nat.pos_of_ne_zero (h n List.mem_cons_self))
      (ih fun x hx => h x (List.mem_cons_of_mem _ hx))

theorem estimateOf_eq_zero (sel : Sel) (H P : LGraph) (nodes : List (Nat × Attrs))
    (h : ∃ n ∈ nodes, candCount sel H P n = 0) : estimateOf sel H P nodes = 0 := by
  induction nodes with
  | nil => obtain ⟨n, hn, -⟩ := h; cases hn
  | cons x rest ih =>
    obtain ⟨n, hn, h0⟩ := h
    unfold estimateOf
    rcases List.mem_cons.1 hn with rfl | hm
    · rw [h0, Nat.zero_mul]
    · rw [ih ⟨n, hm, h0⟩, Nat.mul_zero]

/-! ## the loop -/

theorem quickLoop_cons (sel : Sel) (H P : LGraph) (thr : Nat) (n : Nat × Attrs) (rest : List (Nat × Attrs)) (e : Nat) :
    quickLoop sel H P thr (n :: rest) e =
      if candCount sel H P n = 0 then true
      else if e * candCount sel H P n > thr * 10000 then true
      else quickLoop sel H P thr rest (e * candCount sel H P n) := by
  obtain ⟨p, pa⟩ := n
  rfl

/-- If the loop gives up, some pattern node has no candidate or the full product exceeds the bound. -/
theorem quickLoop_true_imp (sel : Sel) (H P : LGraph) (thr : Nat) (nodes : List (Nat × Attrs)) (e : Nat)
    (h : quickLoop sel H P thr nodes e = true) :
    (∃ n ∈ nodes, candCount sel H P n = 0) ∨ e * estimateOf sel H P nodes > thr * 10000 := by
  induction nodes generalizing e with
  | nil => simp [quickLoop] at h
  | cons n rest ih =>
    rw [quickLoop_cons] at h
    by_cases hz : ∃ x ∈ rest, candCount sel H P x = 0
    · obtain ⟨x, hx, h0⟩ := hz
      exact Or.inl ⟨x, List.mem_cons_of_mem _ hx, h0⟩
    · have hpos : 0 < estimateOf sel H P rest :=
        estimateOf_pos sel H P rest fun x hx h0 => hz ⟨x, hx, h0⟩
      split at h
      · next h0 => exact Or.inl ⟨n, List.mem_cons_self, h0⟩
      · split at h
        · next hgt =>
          right
          unfold estimateOf
          rw [← Nat.mul_assoc]
          have := Nat.le_mul_of_pos_right (e * candCount sel H P n) hpos
          omega
        · rcases ih _ h with hz' | hgt
          · exact absurd hz' hz
          · right
            unfold estimateOf
            rw [← Nat.mul_assoc]
            exact hgt

/-- Conversely (the running product not yet over the bound on entry). -/
theorem quickLoop_true_of (sel : Sel) (H P : LGraph) (thr : Nat) (nodes : List (Nat × Attrs)) (e : Nat)
    (he : e ≤ thr * 10000)
    (h : (∃ n ∈ nodes, candCount sel H P n = 0) ∨ e * estimateOf sel H P nodes > thr * 10000) :
    quickLoop sel H P thr nodes e = true := by
  induction nodes generalizing e with
  | nil =>
    rcases h with ⟨n, hn, -⟩ | h
    · cases hn
    · unfold estimateOf at h; omega
  | cons n rest ih =>
    rw [quickLoop_cons]
    split
    · rfl
    · next h0 =>
      split
      · rfl
      · next hle =>
        apply ih _ (by omega)
        rcases h with ⟨x, hx, hx0⟩ | h
        · rcases List.mem_cons.1 hx with rfl | hm
          · exact absurd hx0 h0
          · exact Or.inl ⟨x, hm, hx0⟩
        · right
          unfold estimateOf at h
          rw [← Nat.mul_assoc] at h
          exact h

/-- `_quick_pre_filter` gives up exactly when some pattern node has no candidate host node or the
product of the candidate counts exceeds `threshold * 10⁴` (for `threshold = 0` and an empty pattern
the loop body never runs and the function returns `False`, hence the side condition). -/
theorem quickPreFilter_iff (sel : Sel) (H P : LGraph) (thr : Nat) (hne : 0 < thr ∨ P.nodes ≠ []) :
    quickPreFilter sel H P thr = true ↔
      (∃ n ∈ P.nodes, candCount sel H P n = 0) ∨ estimate sel H P > thr * 10000 := by
  unfold quickPreFilter estimate
  constructor
  · intro h
    have := quickLoop_true_imp sel H P thr P.nodes 1 h
    rwa [Nat.one_mul] at this
  · intro h
    rcases Nat.eq_zero_or_pos thr with h0 | hpos
    · -- `thr = 0`, non-empty pattern: the first iteration already gives up
      subst h0
      cases hn : P.nodes with
      | nil => rcases hne with h | h
               · omega
               · exact absurd hn h
      | cons n rest =>
        rw [quickLoop_cons]
        split
        · rfl
        · next h0 =>
          rw [if_pos (by have := Nat.pos_of_ne_zero h0; omega)]
    · exact quickLoop_true_of sel H P thr P.nodes 1 (by omega) (by rwa [Nat.one_mul])

/-! ## a monomorphism picks a candidate for every pattern node -/

theorem attrs_of_mem_ids (G : LGraph) (v : Nat) (hv : v ∈ G.ids) : ∃ a ∈ G.nodes, a.1 = v ∧ G.attrs v = a.2 := by
  unfold LGraph.attrs
  cases hf : G.nodes.find? (·.1 = v) with
  | none =>
    exfalso
    rw [List.find?_eq_none] at hf
    obtain ⟨n, hn, rfl⟩ := List.mem_map.1 hv
    exact hf n hn (by simp)
  | some a =>
    refine ⟨a, List.mem_of_find?_eq_some hf, ?_, rfl⟩
    have := List.find?_some hf
    simpa using this

/-- **Degrees grow along a monomorphism**: the neighbours of a pattern node go, injectively, to
neighbours of its image. -/
theorem mono_degree_le {sel : Sel} {H P : LGraph} {m : Mapping} (hP : P.WF) (hm : IsMono sel H P m)
    (p h : Nat) (g : m.get? p = some h) : degree P p ≤ degree H h := by
  unfold degree
  have hfst : m.map (·.1) = P.ids := hm.1
  have hget : ∀ q ∈ P.ids, m.get? q = some (GME.mapFn m q) :=
    fun q hq => GME.get?_mapFn m q (by rw [hfst]; exact hq)
  have hnbr : ∀ q ∈ P.neighbors p, q ∈ P.ids := fun q hq =>
    (GME.hasEdge_mem_ids P hP p q ((GME.mem_neighbors P p q).1 hq)).2
  have hnd : ((P.neighbors p).map (GME.mapFn m)).Nodup := by
    refine List.Nodup.map_on ?_ (GME.neighbors_nodup P hP p)
    intro x hx y hy e
    exact GME.get?_inj m hm.2.1 x y (GME.mapFn m x) (hget x (hnbr x hx)) (by rw [e]; exact hget y (hnbr y hy))
  have hsub : (P.neighbors p).map (GME.mapFn m) ⊆ H.neighbors h := by
    intro h' hh'
    obtain ⟨q, hq, rfl⟩ := List.mem_map.1 hh'
    rw [GME.mem_neighbors]
    exact GME.mono_hasEdge hm p q h _ g (hget q (hnbr q hq)) ((GME.mem_neighbors P p q).1 hq)
  have := (hnd.subperm hsub).length_le
  rwa [List.length_map] at this

/-- The image of a pattern node under a monomorphism is one of the host nodes `_quick_pre_filter`
counts for it. -/
theorem mono_candidate {sel : Sel} {H P : LGraph} {m : Mapping} (hP : P.WF) (hm : IsMono sel H P m)
    (x : Nat × Nat) (hx : x ∈ m) (n : Nat × Attrs) (hn : n ∈ P.nodes) (hxn : x.1 = n.1) :
    ∃ ha ∈ cands sel H P n, ha.1 = x.2 := by
  obtain ⟨hid, hok⟩ := hm.2.2.1 x hx
  obtain ⟨a, ha, ha1, ha2⟩ := attrs_of_mem_ids H x.2 hid
  have hpa : P.attrs x.1 = n.2 := by rw [hxn]; exact attrs_of_mem P hP.1 n hn
  have hg : m.get? x.1 = some x.2 := get?_of_mem m (mono_keys_nodup hP hm) x.1 x.2 hx
  refine ⟨a, (mem_cands sel H P n a).2 ⟨ha, ?_, ?_⟩, ha1⟩
  · rw [← ha2, ← hpa]; exact hok
  · rw [ha1, ← hxn]; exact mono_degree_le hP hm x.1 x.2 hg

/-- **Zero branch is sound**: a pattern node without a candidate host node rules out every
monomorphism. -/
theorem no_mono_of_zero (sel : Sel) (H P : LGraph) (hP : P.WF) (n : Nat × Attrs) (hn : n ∈ P.nodes)
    (h0 : candCount sel H P n = 0) (m : Mapping) : ¬ IsMono sel H P m := by
  intro hm
  obtain ⟨h, -, hmem⟩ := mono_get?_total hm n.1 (List.mem_map.2 ⟨n, hn, rfl⟩)
  obtain ⟨a, ha, -⟩ := mono_candidate hP hm (n.1, h) hmem n hn rfl
  unfold candCount at h0
  rw [List.length_eq_zero_iff] at h0
  rw [h0] at ha
  cases ha

theorem allMonos_nil_of_zero (sel : Sel) (H P : LGraph) (hP : P.WF) (n : Nat × Attrs) (hn : n ∈ P.nodes)
    (h0 : candCount sel H P n = 0) : allMonos sel H P = [] := by
  rw [List.eq_nil_iff_forall_not_mem]
  intro m hm
  exact no_mono_of_zero sel H P hP n hn h0 m ((mem_allMonos sel H P hP m).1 hm)

/-! ## the monomorphisms inject into the product of the candidate lists -/

/-- One candidate per pattern node, in all possible ways. -/
def prodList (sel : Sel) (H P : LGraph) : List (Nat × Attrs) → List Mapping
  | [] => [[]]
  | n :: rest => (cands sel H P n).flatMap fun ha => (prodList sel H P rest).map fun m => (n.1, ha.1) :: m

theorem length_flatMap_const {α β : Type} (l : List α) (f : α → List β) (c : Nat) (h : ∀ a, (f a).length = c) :
    (l.flatMap f).length = l.length * c := by
  induction l with
  | nil => simp
  | cons a l ih => rw [List.flatMap_cons, List.length_append, ih, h, List.length_cons, Nat.succ_mul, Nat.add_comm]

theorem length_prodList (sel : Sel) (H P : LGraph) (nodes : List (Nat × Attrs)) :
    (prodList sel H P nodes).length = estimateOf sel H P nodes := by
  induction nodes with
  | nil => rfl
  | cons n rest ih =>
    unfold prodList estimateOf candCount
    rw [length_flatMap_const _ _ (estimateOf sel H P rest)]
    intro a
    rw [List.length_map, ih]

theorem mem_prodList (sel : Sel) (H P : LGraph) (nodes : List (Nat × Attrs)) (m : Mapping)
    (hfst : m.map (·.1) = nodes.map (·.1))
    (hc : ∀ x ∈ m, ∀ n ∈ nodes, x.1 = n.1 → ∃ ha ∈ cands sel H P n, ha.1 = x.2) :
    m ∈ prodList sel H P nodes := by
  induction nodes generalizing m with
  | nil =>
    rw [List.map_nil, List.map_eq_nil_iff] at hfst
    subst hfst
    exact List.mem_singleton.2 rfl
  | cons n rest ih =>
    cases m with
    | nil => cases hfst
    | cons x m' =>
      rw [List.map_cons, List.map_cons, List.cons.injEq] at hfst
      obtain ⟨h1, h2⟩ := hfst
      obtain ⟨a, ha, e⟩ := hc x List.mem_cons_self n List.mem_cons_self h1
      unfold prodList
      rw [List.mem_flatMap]
      refine ⟨a, ha, List.mem_map.2 ⟨m', ?_, ?_⟩⟩
      · exact ih m' h2 fun y hy k hk => hc y (List.mem_cons_of_mem _ hy) k (List.mem_cons_of_mem _ hk)
      · rw [← h1, e]

/-- **The estimate is an upper bound on the number of monomorphisms.** -/
theorem allMonos_length_le_estimate (sel : Sel) (H P : LGraph) (hH : H.ids.Nodup) (hP : P.WF) :
    (allMonos sel H P).length ≤ estimate sel H P := by
  unfold estimate
  rw [← length_prodList]
  refine ((allMonos_nodup sel H P hH).subperm ?_).length_le
  intro m hm
  have hmono := (mem_allMonos sel H P hP m).1 hm
  exact mem_prodList sel H P P.nodes m hmono.1 fun x hx n hn e => mono_candidate hP hmono x hx n hn e

end SynKit.SubgraphSearch

import Mathlib.LinearAlgebra.Matrix.Rank
import SynKitModel.Stoich
import SynKitProofs.StoreLemmas
/-!
# Helper lemmas for C17 (stoichiometric analysis = exact linear algebra)

* list/sort/accumulation lemmas behind `buildS_entry`;
* the bridge from the executable checkers (`sumTo`, `allTo` over `Nat`-indexed entry
  functions of core `Rat`) to Mathlib matrices over `ℚ` (`toMat`, `toVec`), and the soundness
  of every checker against `Matrix.rank`, `Matrix.mulVec`, `Matrix.vecMul`, `LinearIndependent`;
* elementary lemmas on strictly positive kernel vectors used by the decision-logic theorems.

The specification side uses **Mathlib's** `Matrix.rank` (not an ad-hoc notion of rank).
-/
open Matrix SynKit SynKit.Store

namespace SynKit.Stoich

/-! ## `build_S` -/
theorem insertBy_perm {α : Type} (key : α → String) (x : α) (l : List α) :
    (insertBy key x l).Perm (x :: l) := by
  induction l with
  | nil => exact List.Perm.refl _
  | cons y ys ih =>
    simp only [insertBy]
    split
    · exact ((List.Perm.cons y ih).trans (List.Perm.swap x y ys))
    · exact List.Perm.refl _

theorem sortBy_perm {α : Type} (key : α → String) (l : List α) : (sortBy key l).Perm l := by
  induction l with
  | nil => exact List.Perm.refl _
  | cons x xs ih => exact (insertBy_perm key x _).trans (List.Perm.cons x ih)

theorem sumCoeff_aux (side : Side) (s : String) (acc : Int) :
    side.foldl (fun acc kv => if kv.1 = s then acc + (kv.2 : Int) else acc) acc
      = acc + sumCoeff side s := by
  induction side generalizing acc with
  | nil => simp [sumCoeff]
  | cons kv rest ih =>
    simp only [sumCoeff, List.foldl_cons]
    rw [ih, ih (if kv.1 = s then (0 : Int) + kv.2 else 0)]
    split <;> simp [sumCoeff] <;> omega

theorem sumCoeff_eq_coeff (side : Side) (h : side.keys.Nodup) (s : String) :
    sumCoeff side s = coeff side s := by
  induction side with
  | nil => simp [sumCoeff, coeff, Dict.getD, Dict.get?]
  | cons kv rest ih =>
    obtain ⟨k, v⟩ := kv
    simp only [Dict.keys, List.map_cons, List.nodup_cons] at h
    have ih' := ih h.2
    unfold sumCoeff
    rw [List.foldl_cons, sumCoeff_aux]
    simp only [coeff, Dict.getD, Dict.get?]
    by_cases hk : k = s
    · subst hk
      have : Dict.get? rest k = none := (Dict.get?_eq_none_iff rest k).2 h.1
      simp only [if_true, Option.getD_some]
      rw [ih']
      simp [coeff, Dict.getD, this]
    · simp only [hk, if_false]
      rw [ih']; simp [coeff, Dict.getD]

theorem buildS_fields (N : Net) (res : SResult) (h : buildS N = .ok res) :
    res.species = speciesOrder N ∧ res.rules = (rxnOrder N).map (·.rule) ∧
    res.S = matSub (buildSPlus N) (buildSMinus N) := by
  unfold buildS at h
  split at h
  · cases h
  · cases h; exact ⟨rfl, rfl, rfl⟩

theorem entry_matSub (N : Net) (i j : Nat) (hi : i < (speciesOrder N).length) (hj : j < (rxnOrder N).length) :
    entryI (matSub (buildSPlus N) (buildSMinus N)) i j =
      sumCoeff ((rxnOrder N)[j]).products ((speciesOrder N)[i]) -
      sumCoeff ((rxnOrder N)[j]).reactants ((speciesOrder N)[i]) := by
  simp [entryI, matSub, buildSPlus, buildSMinus, List.getD_eq_getElem?_getD, hi, hj]


theorem sortBy_length {α : Type} (key : α → String) (l : List α) : (sortBy key l).length = l.length :=
  (sortBy_perm key l).length_eq

theorem buildS_shape' (N : Net) (res : SResult) (h : buildS N = .ok res) :
    res.species.length = (speciesSet N).length ∧ res.rules.length = N.edges.length ∧
    res.S.length = res.species.length ∧ ∀ row ∈ res.S, row.length = res.rules.length := by
  obtain ⟨h1, h2, h3⟩ := buildS_fields N res h
  have hr : (rxnOrder N).length = N.edges.length := by
    unfold rxnOrder viewOrder; rw [sortBy_length, sortBy_length]
  refine ⟨by rw [h1]; exact sortBy_length _ _, by rw [h2, List.length_map, hr], ?_, ?_⟩
  · rw [h3, h1]; simp [matSub, buildSPlus, buildSMinus]
  · intro row hrow
    rw [h3] at hrow
    simp only [matSub, buildSPlus, buildSMinus, List.zipWith_map_left, List.zipWith_map_right] at hrow
    rw [h2]
    simp only [List.zipWith_self, List.mem_map] at hrow
    obtain ⟨s, _, rfl⟩ := hrow
    simp

theorem buildS_entry' (N : Net) (res : SResult) (h : buildS N = .ok res)
    (wf : ∀ e ∈ N.edges, e.reactants.keys.Nodup ∧ e.products.keys.Nodup)
    (i j : Nat) (hi : i < (speciesOrder N).length) (hj : j < (rxnOrder N).length) :
    entryI res.S i j
      = coeff ((rxnOrder N)[j]).products ((speciesOrder N)[i])
        - coeff ((rxnOrder N)[j]).reactants ((speciesOrder N)[i]) ∧
    entryI res.S i j = (incidenceEdge ((rxnOrder N)[j])).getD ((speciesOrder N)[i]) 0 := by
  obtain ⟨_, _, h3⟩ := buildS_fields N res h
  have hmem : (rxnOrder N)[j] ∈ N.edges := by
    have : (rxnOrder N)[j] ∈ rxnOrder N := List.getElem_mem hj
    exact ((sortBy_perm _ _).trans (sortBy_perm _ _)).mem_iff.1 this
  obtain ⟨wr, wp⟩ := wf _ hmem
  have key : entryI res.S i j = coeff ((rxnOrder N)[j]).products ((speciesOrder N)[i])
        - coeff ((rxnOrder N)[j]).reactants ((speciesOrder N)[i]) := by
    rw [h3, entry_matSub N i j hi hj, sumCoeff_eq_coeff _ wp, sumCoeff_eq_coeff _ wr]
  exact ⟨key, by rw [key, incidence_spec' _ wr wp]⟩

theorem buildS_orders' (N : Net) (res : SResult) (h : buildS N = .ok res) :
    res.species = speciesOrder N ∧ (speciesOrder N).Perm (speciesSet N) ∧
    res.rules = (rxnOrder N).map (·.rule) ∧ (rxnOrder N).Perm N.edges ∧
    (rxnOrder N).Perm (viewOrder N) ∧
    (∀ i j, entryI (incidenceMat N) i j =
      match (speciesOrder N)[i]?, (viewOrder N)[j]? with
      | some s, some e => (incidenceEdge e).getD s 0
      | _, _ => 0) := by
  obtain ⟨h1, h2, _⟩ := buildS_fields N res h
  refine ⟨h1, sortBy_perm _ _, h2, (sortBy_perm _ _).trans (sortBy_perm _ _), sortBy_perm _ _, ?_⟩
  intro i j
  simp only [entryI, incidenceMat, List.getD_eq_getElem?_getD, List.getElem?_map]
  cases hs : (speciesOrder N)[i]? <;> cases he : (viewOrder N)[j]? <;> simp [he]

/-! ## Checkers against Mathlib matrices -/

theorem allTo_iff (n : Nat) (p : Nat → Bool) : allTo n p = true ↔ ∀ i, i < n → p i = true := by
  induction n with
  | zero => simp [allTo]
  | succ n ih =>
    simp only [allTo, Bool.and_eq_true, ih]
    constructor
    · rintro ⟨h1, h2⟩ i hi
      rcases Nat.lt_succ_iff_lt_or_eq.1 hi with h | h
      · exact h1 i h
      · subst h; exact h2
    · intro h; exact ⟨fun i hi => h i (Nat.lt_succ_of_lt hi), h n (Nat.lt_succ_self n)⟩

theorem anyTo_iff (n : Nat) (p : Nat → Bool) : anyTo n p = true ↔ ∃ i, i < n ∧ p i = true := by
  induction n with
  | zero => simp [anyTo]
  | succ n ih =>
    simp only [anyTo, Bool.or_eq_true, ih]
    constructor
    · rintro (⟨i, hi, h⟩ | h)
      · exact ⟨i, Nat.lt_succ_of_lt hi, h⟩
      · exact ⟨n, Nat.lt_succ_self n, h⟩
    · rintro ⟨i, hi, h⟩
      rcases Nat.lt_succ_iff_lt_or_eq.1 hi with h' | h'
      · exact Or.inl ⟨i, h', h⟩
      · subst h'; exact Or.inr h

theorem sumTo_eq_sum (n : Nat) (f : Nat → ℚ) : sumTo n f = ∑ i : Fin n, f i := by
  induction n with
  | zero => simp [sumTo]
  | succ n ih => rw [sumTo, ih, Fin.sum_univ_castSucc]; simp

def toMat (m n : ℕ) (S : Ent) : Matrix (Fin m) (Fin n) ℚ := Matrix.of fun i j => S i j

theorem rank_of_cert {m n r : ℕ} (S : Matrix (Fin m) (Fin n) ℚ) (f : Fin r → Fin n)
    (L : Matrix (Fin r) (Fin m) ℚ) (C : Matrix (Fin r) (Fin n) ℚ)
    (hL : L * S.submatrix id f = 1) (hC : S = S.submatrix id f * C) : S.rank = r := by
  set B := S.submatrix id f with hB
  apply le_antisymm
  · calc S.rank = (B * C).rank := by rw [← hC]
      _ ≤ B.rank := rank_mul_le_left B C
      _ ≤ r := by simpa using rank_le_card_width B
  · have h1 : (1 : Matrix (Fin r) (Fin r) ℚ).rank = r := by simp
    calc r = (L * B).rank := by rw [hL, h1]
      _ ≤ B.rank := rank_mul_le_right L B
      _ ≤ S.rank := by
        have : B = S * (1 : Matrix (Fin n) (Fin n) ℚ).submatrix id f := by
          ext i j; simp [hB, Matrix.mul_apply, Matrix.one_apply]
        rw [this]; exact rank_mul_le_left _ _

theorem checkRank_sound' (m n : ℕ) (S : Ent) (c : RankCert) (h : checkRank m n S c = true) :
    (toMat m n S).rank = c.cols.length := by
  simp only [checkRank, Bool.and_eq_true, allTo_iff, decide_eq_true_eq] at h
  obtain ⟨⟨h1, h2⟩, h3⟩ := h
  let f : Fin c.cols.length → Fin n := fun k => ⟨c.cols.getD k 0, h1 k k.2⟩
  refine rank_of_cert (toMat m n S) f (toMat _ m (entQ c.L)) (toMat _ n (entQ c.C)) ?_ ?_
  · ext i j
    rw [Matrix.mul_apply, Matrix.one_apply]
    have := h2 i i.2 j j.2
    rw [sumTo_eq_sum] at this
    simp only [toMat, Matrix.of_apply, Matrix.submatrix_apply, id, f]
    rw [this]
    simp [Fin.ext_iff]
  · ext i j
    rw [Matrix.mul_apply]
    have := h3 i i.2 j j.2
    rw [sumTo_eq_sum] at this
    simp only [toMat, Matrix.of_apply, Matrix.submatrix_apply, id, f]
    exact this


def toVec (n : ℕ) (v : QVec) : Fin n → ℚ := fun j => vget v j

theorem toMat_entT (m n : ℕ) (S : Ent) : toMat n m (entT S) = (toMat m n S)ᵀ := rfl

theorem checkPositive_sound' (m n : ℕ) (A : Ent) (x : QVec) (h : checkPositiveKernel m n A x = true) :
    (∀ j, 0 < toVec n x j) ∧ (toMat m n A).mulVec (toVec n x) = 0 := by
  simp only [checkPositiveKernel, Bool.and_eq_true, allTo_iff, decide_eq_true_eq] at h
  refine ⟨fun j => h.1 j j.2, ?_⟩
  funext i
  have := h.2 i i.2
  rw [sumTo_eq_sum] at this
  simpa [Matrix.mulVec, dotProduct, toMat, toVec] using this

/-- Easy half of Stiemke's theorem. -/
theorem stiemke_easy' {m n : ℕ} (A : Matrix (Fin m) (Fin n) ℚ)
    (h : ∃ y : Fin m → ℚ, (∀ j, 0 ≤ Matrix.vecMul y A j) ∧ Matrix.vecMul y A ≠ 0) :
    ¬ ∃ x : Fin n → ℚ, (∀ j, 0 < x j) ∧ A.mulVec x = 0 := by
  rintro ⟨x, hx, hAx⟩
  obtain ⟨y, hy, hne⟩ := h
  have h0 : Matrix.vecMul y A ⬝ᵥ x = 0 := by
    rw [← Matrix.dotProduct_mulVec, hAx, dotProduct_zero]
  have hpos : 0 < Matrix.vecMul y A ⬝ᵥ x := by
    obtain ⟨j, hj⟩ : ∃ j, Matrix.vecMul y A j ≠ 0 := by
      by_contra hcon
      exact hne (funext fun j => not_not.1 fun hj => hcon ⟨j, hj⟩)
    unfold dotProduct
    apply Finset.sum_pos'
    · intro i _; exact mul_nonneg (hy i) (hx i).le
    · exact ⟨j, Finset.mem_univ j, mul_pos (lt_of_le_of_ne (hy j) (Ne.symm hj)) (hx j)⟩
  linarith

theorem stiemke_easy_left' {m n : ℕ} (S : Matrix (Fin m) (Fin n) ℚ)
    (h : ∃ v : Fin n → ℚ, (∀ i, 0 ≤ S.mulVec v i) ∧ S.mulVec v ≠ 0) :
    ¬ ∃ mv : Fin m → ℚ, (∀ i, 0 < mv i) ∧ Matrix.vecMul mv S = 0 := by
  have := stiemke_easy' Sᵀ (by simpa [Matrix.vecMul_transpose] using h)
  simpa [Matrix.mulVec_transpose] using this

theorem checkAlternative_sound' (m n : ℕ) (A : Ent) (y : QVec) (h : checkAlternative m n A y = true) :
    ¬ ∃ x : Fin n → ℚ, (∀ j, 0 < x j) ∧ (toMat m n A).mulVec x = 0 := by
  simp only [checkAlternative, Bool.and_eq_true, allTo_iff, anyTo_iff, decide_eq_true_eq] at h
  apply stiemke_easy'
  have key : ∀ j : Fin n, Matrix.vecMul (toVec m y) (toMat m n A) j = sumTo m (fun i => vget y i * A i j) := by
    intro j; rw [sumTo_eq_sum]; simp [Matrix.vecMul, dotProduct, toMat, toVec]
  refine ⟨toVec m y, fun j => ?_, ?_⟩
  · rw [key]; exact h.1 j j.2
  · obtain ⟨j, hj, hne⟩ := h.2
    intro h0
    apply hne
    rw [← key ⟨j, hj⟩, h0]; rfl

theorem checkKernelBasis_sound' (m n : ℕ) (A : Ent) (r : ℕ) (B : List QVec) (L : QMat)
    (h : checkKernelBasis m n A r B L = true) :
    B.length + r = n ∧
    (∀ a : Fin B.length, (toMat m n A).mulVec (toVec n (B.getD a [])) = 0) ∧
    LinearIndependent ℚ (fun a : Fin B.length => toVec n (B.getD a [])) := by
  simp only [checkKernelBasis, Bool.and_eq_true, allTo_iff, decide_eq_true_eq] at h
  obtain ⟨⟨h1, h2⟩, h3⟩ := h
  refine ⟨h1, fun a => ?_, ?_⟩
  · funext i
    have := h2 a a.2 i i.2
    rw [sumTo_eq_sum] at this
    simpa [Matrix.mulVec, dotProduct, toMat, toVec] using this
  · rw [Fintype.linearIndependent_iff]
    intro g hg a
    -- apply row `a` of the left inverse
    have hrow : ∑ j : Fin n, entQ L a j * (∑ a' : Fin B.length, g a' • toVec n (B.getD a' [])) j = 0 := by
      rw [hg]; simp
    have : ∑ j : Fin n, entQ L a j * (∑ a' : Fin B.length, g a' • toVec n (B.getD a' [])) j
        = ∑ a' : Fin B.length, g a' * (if (a : ℕ) = a' then 1 else 0) := by
      simp only [Finset.sum_apply, Pi.smul_apply, smul_eq_mul, Finset.mul_sum]
      rw [Finset.sum_comm]
      apply Finset.sum_congr rfl
      intro a' _
      have := h3 a a.2 a' a'.2
      rw [sumTo_eq_sum] at this
      rw [← this, Finset.mul_sum]
      apply Finset.sum_congr rfl
      intro j _
      simp only [toVec]; ring
    rw [this] at hrow
    have hc : ∀ x : Fin B.length, ((a : ℕ) = x) = (a = x) := fun x => by simp [Fin.ext_iff]
    simpa [hc, Finset.sum_ite_eq] using hrow

theorem kernel_dims' (m n : ℕ) (S : Ent) (c : RankCert) (h : checkRank m n S c = true) :
    Module.finrank ℚ (LinearMap.ker (toMat m n S).mulVecLin) = n - c.cols.length ∧
    Module.finrank ℚ (LinearMap.ker (toMat m n S)ᵀ.mulVecLin) = m - c.cols.length := by
  have hr := checkRank_sound' m n S c h
  constructor
  · have := LinearMap.finrank_range_add_finrank_ker (toMat m n S).mulVecLin
    simp only [Module.finrank_fintype_fun_eq_card, Fintype.card_fin] at this
    have h2 : Module.finrank ℚ (LinearMap.range (toMat m n S).mulVecLin) = c.cols.length := hr
    omega
  · have := LinearMap.finrank_range_add_finrank_ker (toMat m n S)ᵀ.mulVecLin
    simp only [Module.finrank_fintype_fun_eq_card, Fintype.card_fin] at this
    have h2 : Module.finrank ℚ (LinearMap.range (toMat m n S)ᵀ.mulVecLin) = c.cols.length := by
      have := Matrix.rank_transpose (toMat m n S)
      rw [hr] at this
      exact this
    omega

theorem kernelBasis_spans' (m n : ℕ) (A : Ent) (c : RankCert) (B : List QVec) (L : QMat)
    (hr : checkRank m n A c = true) (hb : checkKernelBasis m n A c.cols.length B L = true) :
    Submodule.span ℚ (Set.range fun a : Fin B.length => toVec n (B.getD a [])) =
      LinearMap.ker (toMat m n A).mulVecLin := by
  obtain ⟨hcount, hker, hli⟩ := checkKernelBasis_sound' m n A c.cols.length B L hb
  have hdim := (kernel_dims' m n A c hr).1
  apply Submodule.eq_of_le_of_finrank_eq
  · rw [Submodule.span_le]
    rintro _ ⟨a, rfl⟩
    simp only [SetLike.mem_coe, LinearMap.mem_ker, Matrix.mulVecLin_apply]
    exact hker a
  · rw [finrank_span_eq_card hli, hdim, Fintype.card_fin]
    omega

theorem conservative_cert_sound' (m n : ℕ) (S : Ent) (mv : QVec)
    (h : checkPositiveLeftKernel m n S mv = true) :
    ∃ w : Fin m → ℚ, (∀ i, 0 < w i) ∧ Matrix.vecMul w (toMat m n S) = 0 := by
  obtain ⟨h1, h2⟩ := checkPositive_sound' n m (entT S) mv h
  refine ⟨toVec m mv, h1, ?_⟩
  rw [toMat_entT, Matrix.mulVec_transpose] at h2
  exact h2

theorem not_conservative_cert_sound' (m n : ℕ) (S : Ent) (v : QVec)
    (h : checkNotConservative m n S v = true) :
    ¬ ∃ w : Fin m → ℚ, (∀ i, 0 < w i) ∧ Matrix.vecMul w (toMat m n S) = 0 := by
  have := checkAlternative_sound' n m (entT S) v h
  rw [toMat_entT] at this
  simpa [Matrix.mulVec_transpose] using this

/-! ## Strictly positive kernel vectors, elementary form -/

theorem sumTo_eq_range (n : Nat) (f : Nat → ℚ) : sumTo n f = ∑ i ∈ Finset.range n, f i := by
  induction n with
  | zero => simp [sumTo]
  | succ n ih => rw [sumTo, ih, Finset.sum_range_succ]

/-- `x` is a strictly positive vector in the kernel of `A` (`rows × cols`). -/
def PosKer (rows cols : ℕ) (A : Ent) (x : ℕ → ℚ) : Prop :=
  (∀ j, j < cols → 0 < x j) ∧ ∀ i, i < rows → sumTo cols (fun j => A i j * x j) = 0

/-- Every column of `K` (`cols × k`) lies in the kernel of `A`. -/
def KerCols (rows cols k : ℕ) (A K : Ent) : Prop :=
  ∀ c, c < k → ∀ i, i < rows → sumTo cols (fun j => A i j * K j c) = 0

/-- Every kernel vector of `A` is a combination of the columns of `K`. -/
def SpansKer (rows cols k : ℕ) (A K : Ent) : Prop :=
  ∀ x : ℕ → ℚ, (∀ i, i < rows → sumTo cols (fun j => A i j * x j) = 0) →
    ∃ a : ℕ → ℚ, ∀ j, j < cols → x j = sumTo k (fun c => K j c * a c)

theorem signDef_posKer (rows cols k : ℕ) (A K : Ent) (eps : ℚ) (c : ℕ) (hc : c < k) (heps : 0 ≤ eps)
    (hK : KerCols rows cols k A K) (h : colSignDef cols K eps c = true) : ∃ x, PosKer rows cols A x := by
  simp only [colSignDef, Bool.or_eq_true, allTo_iff, decide_eq_true_eq] at h
  rcases h with h | h
  · exact ⟨fun j => K j c, fun j hj => lt_of_le_of_lt heps (h j hj), fun i hi => hK c hc i hi⟩
  · refine ⟨fun j => -K j c, fun j hj => ?_, fun i hi => ?_⟩
    · have := h j hj; linarith
    · have := hK c hc i hi
      rw [sumTo_eq_range] at this ⊢
      simp only [mul_neg, Finset.sum_neg_distrib, this, neg_zero]

theorem combo_posKer (rows cols k : ℕ) (A K : Ent) (a : QVec)
    (hK : KerCols rows cols k A K) (hpos : ∀ j, j < cols → 0 < combo k K a j) :
    PosKer rows cols A (combo k K a) := by
  refine ⟨hpos, fun i hi => ?_⟩
  simp only [combo, sumTo_eq_range]
  simp only [Finset.mul_sum]
  rw [Finset.sum_comm]
  apply Finset.sum_eq_zero
  intro c hc
  have := hK c (Finset.mem_range.1 hc) i hi
  rw [sumTo_eq_range] at this
  have h2 : ∑ j ∈ Finset.range cols, A i j * (K j c * vget a c) = (∑ j ∈ Finset.range cols, A i j * K j c) * vget a c := by
    rw [Finset.sum_mul]; apply Finset.sum_congr rfl; intros; ring
  rw [h2, this, zero_mul]

theorem no_posKer_of_k0 (rows cols : ℕ) (A K : Ent) (hcols : 0 < cols) (hS : SpansKer rows cols 0 A K) :
    ¬ ∃ x, PosKer rows cols A x := by
  rintro ⟨x, hx, hk⟩
  obtain ⟨a, ha⟩ := hS x hk
  have := ha 0 hcols
  simp only [sumTo] at this
  have := hx 0 hcols
  linarith

theorem k1_complete (rows cols : ℕ) (A K : Ent) (eps : ℚ)
    (hS : SpansKer rows cols 1 A K) (hmargin : ∀ j, j < cols → K j 0 = 0 ∨ eps < |K j 0|)
    (hcols : 0 < cols) (h : ∃ x, PosKer rows cols A x) : colSignDef cols K eps 0 = true := by
  obtain ⟨x, hx, hk⟩ := h
  obtain ⟨a, ha⟩ := hS x hk
  have hx' : ∀ j, j < cols → 0 < K j 0 * a 0 := by
    intro j hj
    have := ha j hj
    simp only [sumTo, zero_add] at this
    rw [← this]; exact hx j hj
  simp only [colSignDef, Bool.or_eq_true, allTo_iff, decide_eq_true_eq]
  rcases lt_trichotomy (a 0) 0 with h0 | h0 | h0
  · right
    intro j hj
    have h1 := hx' j hj
    have hneg : K j 0 < 0 := by
      by_contra hcon
      have : K j 0 * a 0 ≤ 0 := mul_nonpos_of_nonneg_of_nonpos (not_lt.1 hcon) h0.le
      linarith
    rcases hmargin j hj with h2 | h2
    · rw [h2] at hneg; exact absurd hneg (lt_irrefl _)
    · rw [abs_of_neg hneg] at h2; linarith
  · have := hx' 0 hcols; rw [h0, mul_zero] at this; exact absurd this (lt_irrefl _)
  · left
    intro j hj
    have h1 := hx' j hj
    have hpos : 0 < K j 0 := by
      by_contra hcon
      have : K j 0 * a 0 ≤ 0 := mul_nonpos_of_nonpos_of_nonneg (not_lt.1 hcon) h0.le
      linarith
    rcases hmargin j hj with h2 | h2
    · rw [h2] at hpos; exact absurd hpos (lt_irrefl _)
    · rw [abs_of_pos hpos] at h2; exact h2

theorem scale_ge (cols : ℕ) (x : ℕ → ℚ) (hx : ∀ j, j < cols → 0 < x j) (δ : ℚ) (hδ : 0 < δ) :
    ∃ t : ℚ, 0 < t ∧ ∀ j, j < cols → δ ≤ t * x j := by
  refine ⟨δ * (1 + ∑ l ∈ Finset.range cols, (x l)⁻¹), ?_, ?_⟩
  · apply mul_pos hδ
    have : 0 ≤ ∑ l ∈ Finset.range cols, (x l)⁻¹ :=
      Finset.sum_nonneg fun l hl => (inv_pos.2 (hx l (Finset.mem_range.1 hl))).le
    linarith
  · intro j hj
    have hle : (x j)⁻¹ ≤ ∑ l ∈ Finset.range cols, (x l)⁻¹ :=
      Finset.single_le_sum (f := fun l => (x l)⁻¹)
        (fun l hl => (inv_pos.2 (hx l (Finset.mem_range.1 hl))).le) (Finset.mem_range.2 hj)
    have hxj := hx j hj
    have h1 : 1 ≤ (1 + ∑ l ∈ Finset.range cols, (x l)⁻¹) * x j := by
      have : (x j)⁻¹ * x j = 1 := inv_mul_cancel₀ hxj.ne'
      nlinarith
    calc δ = δ * 1 := (mul_one δ).symm
      _ ≤ δ * ((1 + ∑ l ∈ Finset.range cols, (x l)⁻¹) * x j) := mul_le_mul_of_nonneg_left h1 hδ.le
      _ = δ * (1 + ∑ l ∈ Finset.range cols, (x l)⁻¹) * x j := by ring


/-! ## Decision logic -/

/-- The network with stoichiometric matrix `S` (`m × n`) has a strictly positive conservation
law. Elementary form; `conservative_iff` is the Mathlib form `∃ mv > 0, mvᵀ S = 0`. -/
def Conservative (m n : ℕ) (S : Ent) : Prop := ∃ x, PosKer n m (entT S) x
/-- The network has a strictly positive steady flux (`consistent_iff`: `∃ v > 0, S v = 0`). -/
def Consistent (m n : ℕ) (S : Ent) : Prop := ∃ x, PosKer m n S x

def listOf (k : ℕ) (a : ℕ → ℚ) : QVec := (List.range k).map a

theorem vget_listOf (k : ℕ) (a : ℕ → ℚ) (j : ℕ) (hj : j < k) : vget (listOf k a) j = a j := by
  simp [vget, listOf, List.getD_eq_getElem?_getD, hj]

theorem sumTo_congr (n : ℕ) (f g : ℕ → ℚ) (h : ∀ i, i < n → f i = g i) : sumTo n f = sumTo n g := by
  rw [sumTo_eq_range, sumTo_eq_range]
  exact Finset.sum_congr rfl fun i hi => h i (Finset.mem_range.1 hi)

/-- Correctness of an answer to the LP `min Σa  s.t.  K a ≥ eps` (`K : cols × k`). -/
def LPCorrectLaw (cols k : ℕ) (K : Ent) (eps : ℚ) : LPOut → Prop
  | .optimal a => ∀ j, j < cols → eps ≤ combo k K a j
  | .infeasible => ¬ ∃ a : QVec, ∀ j, j < cols → eps ≤ combo k K a j
  | .unbounded => ∃ a : QVec, ∀ j, j < cols → eps ≤ combo k K a j
  | .failed => True

theorem infeasible_no_posKer (rows cols k : ℕ) (A K : Ent) (eps : ℚ) (heps : 0 < eps)
    (hS : SpansKer rows cols k A K) (hlp : LPCorrectLaw cols k K eps .infeasible) :
    ¬ ∃ x, PosKer rows cols A x := by
  rintro ⟨x, hx, hk⟩
  obtain ⟨a, ha⟩ := hS x hk
  obtain ⟨t, _, ht⟩ := scale_ge cols x hx eps heps
  apply hlp
  refine ⟨listOf k (fun c => t * a c), fun j hj => ?_⟩
  have : combo k K (listOf k (fun c => t * a c)) j = t * x j := by
    rw [ha j hj]
    unfold combo
    rw [sumTo_congr k _ (fun c => t * (K j c * a c))]
    · rw [sumTo_eq_range, sumTo_eq_range, Finset.mul_sum]
    · intro c hc; rw [vget_listOf k _ c hc]; ring
  rw [this]; exact ht j hj

theorem firstTrue_some (k : ℕ) (scan : ℕ → Bool) (j : ℕ) (h : firstTrue k scan = some j) :
    j < k ∧ scan j = true := by
  unfold firstTrue at h
  have h1 := List.mem_of_find?_eq_some h
  have h2 := List.find?_some h
  exact ⟨List.mem_range.1 h1, h2⟩

theorem isConservativeQ_eq (m n k : ℕ) (B : Ent) (eps : ℚ) (scipy : Bool) (lp : LPOut) (hn : n ≠ 0) :
    isConservativeQ m n k B eps scipy lp =
      if k = 0 then some false
      else if k = 1 then some (colSignDef m B eps 0)
      else match firstTrue k (colSignDef m B eps) with
        | some _ => some true
        | none => if scipy then
            (if lpObsOf m k B eps lp = .optimalStrict then some true else some false) else none := by
  unfold isConservativeQ isConservativeAbs posLawAbs
  by_cases h0 : k = 0
  · simp [h0, hn]
  by_cases h1 : k = 1
  · subst h1
    simp only [hn, if_false]
    cases hsc : colSignDef m B eps 0 <;> simp [Wit.isSome]
  · simp only [hn, if_false, h0, h1, beq_iff_eq]
    cases hf : firstTrue k (colSignDef m B eps) with
    | some j => simp [Wit.isSome]
    | none =>
      cases scipy
      · simp [Wit.isSome]
      · cases hl : lpObsOf m k B eps lp <;> simp [Wit.isSome]

theorem lpObsOf_strict (m k : ℕ) (B : Ent) (eps : ℚ) (lp : LPOut) (h : lpObsOf m k B eps lp = .optimalStrict) :
    ∃ a, lp = .optimal a ∧ ∀ i, i < m → eps < combo k B a i := by
  cases lp with
  | optimal a =>
    simp only [lpObsOf] at h
    split at h
    · rename_i hall
      simp only [allTo_iff, decide_eq_true_eq] at hall
      exact ⟨a, rfl, hall⟩
    · cases h
  | infeasible => cases h
  | unbounded => cases h
  | failed => cases h

/-- **Decision logic of `is_conservative`** over an exact left-kernel basis `B` (`m × k`) and a
correct LP answer. -/
theorem conservative_logic' (m n k : ℕ) (S B : Ent) (eps : ℚ) (scipy : Bool) (lp : LPOut)
    (hm : 0 < m) (hn : n ≠ 0) (heps : 0 < eps)
    (hK : KerCols n m k (entT S) B) (hS : SpansKer n m k (entT S) B)
    (hmargin : ∀ i, i < m → ∀ c, c < k → B i c = 0 ∨ eps < |B i c|)
    (hlp : LPCorrectLaw m k B eps lp) :
    (isConservativeQ m n k B eps scipy lp = some true → Conservative m n S) ∧
    (isConservativeQ m n k B eps scipy lp = some false →
      ¬ Conservative m n S ∨ (lpStage m k B eps scipy = true ∧ lp ≠ .infeasible)) ∧
    (isConservativeQ m n k B eps scipy lp = none → scipy = false ∧ 2 ≤ k) := by
  rw [isConservativeQ_eq m n k B eps scipy lp hn]
  by_cases h0 : k = 0
  · subst h0
    simp only [if_true]
    refine ⟨fun h => (by cases h), fun _ => Or.inl (no_posKer_of_k0 n m (entT S) B hm hS), fun h => (by cases h)⟩
  by_cases h1 : k = 1
  · subst h1
    simp only [h0, if_false, if_true]
    refine ⟨fun h => ?_, fun h => Or.inl fun hc => ?_, fun h => (by cases h)⟩
    · exact signDef_posKer n m 1 (entT S) B eps 0 Nat.one_pos heps.le hK (by simpa using h)
    · have := k1_complete n m (entT S) B eps hS (fun j hj => hmargin j hj 0 Nat.one_pos) hm hc
      rw [this] at h; cases h
  · simp only [h0, h1, if_false]
    have hk2 : 2 ≤ k := by omega
    cases hf : firstTrue k (colSignDef m B eps) with
    | some j =>
      obtain ⟨hj, hsc⟩ := firstTrue_some k _ j hf
      exact ⟨fun _ => signDef_posKer n m k (entT S) B eps j hj heps.le hK hsc, fun h => (by cases h), fun h => (by cases h)⟩
    | none =>
      cases scipy
      · exact ⟨fun h => (by cases h), fun h => (by cases h), fun _ => ⟨rfl, hk2⟩⟩
      · simp only [if_true]
        refine ⟨fun h => ?_, fun h => ?_, fun h => ?_⟩
        · split at h
          · rename_i hst
            obtain ⟨a, rfl, ha⟩ := lpObsOf_strict m k B eps lp hst
            exact ⟨_, combo_posKer n m k (entT S) B a hK fun j hj => lt_trans heps (ha j hj)⟩
          · cases h
        · by_cases hinf : lp = .infeasible
          · subst hinf
            exact Or.inl (infeasible_no_posKer n m k (entT S) B eps heps hS hlp)
          · refine Or.inr ⟨?_, hinf⟩
            simp [lpStage, hk2, hf]
        · split at h <;> cases h

/-- Correctness of an answer to the LP `min Σv  s.t.  S v = 0, v ≥ 1` of the repaired
`is_consistent`. The objective is bounded below by `n`, so `unbounded` is never correct. -/
def LPCorrectFlux (m n : ℕ) (S : Ent) : LPOut → Prop
  | .optimal v => (∀ i, i < m → sumTo n (fun j => S i j * vget v j) = 0) ∧ ∀ j, j < n → 1 ≤ vget v j
  | .infeasible => ¬ ∃ v : QVec, (∀ i, i < m → sumTo n (fun j => S i j * vget v j) = 0) ∧ ∀ j, j < n → 1 ≤ vget v j
  | .unbounded => False
  | .failed => True

theorem absQ_zero : absQ 0 = 0 := by simp [absQ]

theorem maxAbs_nonneg (n : ℕ) (v : QVec) : 0 ≤ maxAbs n v := by
  have key : ∀ (l : List ℕ) (acc : ℚ), 0 ≤ acc →
      0 ≤ l.foldl (fun acc j => if acc < absQ (vget v j) then absQ (vget v j) else acc) acc := by
    intro l
    induction l with
    | nil => intro acc h; exact h
    | cons j l ih =>
      intro acc h
      simp only [List.foldl_cons]
      apply ih
      split
      · rename_i hlt; exact le_of_lt (lt_of_le_of_lt h hlt)
      · exact h
  unfold maxAbs
  simp only
  split
  · exact zero_le_one
  · exact key _ 0 le_rfl

theorem anyTo_scan_posKer (rows cols k : ℕ) (A K : Ent) (eps : ℚ) (heps : 0 ≤ eps)
    (hK : KerCols rows cols k A K) (h : anyTo k (colSignDef cols K eps) = true) : ∃ x, PosKer rows cols A x := by
  obtain ⟨c, hc, hs⟩ := (anyTo_iff _ _).1 h
  exact signDef_posKer rows cols k A K eps c hc heps hK hs

/-- **Decision logic of the repaired `is_consistent`** over an exact right-kernel basis `R`
(`n × k`) and a correct LP answer. -/
theorem consistent_logic' (m n k : ℕ) (S R : Ent) (eps tol : ℚ) (scipy : Bool) (lp : LPOut)
    (hn : 0 < n) (heps0 : 0 ≤ eps) (heps1 : eps < 1) (htol : 0 ≤ tol)
    (hK : KerCols m n k S R) (hS : SpansKer m n k S R) (hlp : LPCorrectFlux m n S lp) :
    (isConsistentQ m n k S R eps tol scipy lp = some true → Consistent m n S) ∧
    (isConsistentQ m n k S R eps tol scipy lp = some false → ¬ Consistent m n S) ∧
    (scipy = true → lp ≠ .failed → isConsistentQ m n k S R eps tol scipy lp ≠ none) := by
  have hn' : n ≠ 0 := Nat.pos_iff_ne_zero.1 hn
  -- the kernel-basis fall-back
  have fb : ∀ t : Tri, (if (k == 0) = true then some false else if anyTo k (colSignDef n R eps) = true then some true else none) = t →
      (t = some true → Consistent m n S) ∧ (t = some false → ¬ Consistent m n S) := by
    intro t ht
    by_cases h0 : k = 0
    · subst h0
      simp only [beq_self_eq_true, if_true] at ht
      subst ht
      exact ⟨fun h => (by cases h), fun _ => no_posKer_of_k0 m n S R hn hS⟩
    · have : (k == 0) = false := by simpa using h0
      simp only [this, Bool.false_eq_true, if_false] at ht
      split at ht
      · rename_i hany
        subst ht
        exact ⟨fun _ => anyTo_scan_posKer m n k S R eps heps0 hK hany, fun h => (by cases h)⟩
      · subst ht
        exact ⟨fun h => (by cases h), fun h => (by cases h)⟩
  unfold isConsistentQ isConsistentAbs
  simp only [hn', if_false]
  cases scipy
  · simp only [Bool.false_eq_true, if_false]
    exact ⟨(fb _ rfl).1, (fb _ rfl).2, fun h => (by cases h)⟩
  · simp only [if_true]
    cases lp with
    | optimal v =>
      obtain ⟨hker, hge⟩ := hlp
      have hr : allTo m (fun i => decide (absQ (sumTo n (fun j => S i j * vget v j)) ≤ tol * maxAbs n v)) = true := by
        rw [allTo_iff]; intro i hi
        rw [hker i hi, absQ_zero]
        simpa using mul_nonneg htol (maxAbs_nonneg n v)
      have hp : allTo n (fun j => decide (eps < vget v j)) = true := by
        rw [allTo_iff]; intro j hj
        simpa using lt_of_lt_of_le heps1 (hge j hj)
      simp only [lpObsCOf, hr, hp, Bool.and_self]
      refine ⟨fun _ => ⟨fun j => vget v j, fun j hj => lt_of_lt_of_le one_pos (hge j hj), hker⟩,
        fun h => (by cases h), fun _ _ h => (by cases h)⟩
    | infeasible =>
      simp only [lpObsCOf]
      refine ⟨fun h => (by cases h), fun _ => ?_, fun _ _ h => (by cases h)⟩
      rintro ⟨x, hx, hk⟩
      obtain ⟨t, _, ht⟩ := scale_ge n x hx 1 one_pos
      apply hlp
      refine ⟨listOf n (fun j => t * x j), fun i hi => ?_, fun j hj => ?_⟩
      · rw [sumTo_congr n _ (fun j => t * (S i j * x j))]
        · rw [sumTo_eq_range, ← Finset.mul_sum, ← sumTo_eq_range, hk i hi, mul_zero]
        · intro j hj; rw [vget_listOf n _ j hj]; ring
      · rw [vget_listOf n _ j hj]; exact ht j hj
    | unbounded => exact absurd hlp id
    | failed =>
      simp only [lpObsCOf]
      exact ⟨(fb _ rfl).1, (fb _ rfl).2, fun _ h => absurd rfl h⟩

/-! Bridges to the Mathlib formulation. -/
theorem conservative_iff (m n : ℕ) (S : Ent) :
    Conservative m n S ↔ ∃ mv : Fin m → ℚ, (∀ i, 0 < mv i) ∧ Matrix.vecMul mv (toMat m n S) = 0 := by
  constructor
  · rintro ⟨x, hx, hk⟩
    refine ⟨fun i => x i, fun i => hx i i.2, ?_⟩
    funext j
    have := hk j j.2
    rw [sumTo_eq_sum] at this
    simp only [Matrix.vecMul, dotProduct, toMat, Matrix.of_apply, Pi.zero_apply]
    rw [← this]
    exact Finset.sum_congr rfl fun i _ => by simp only [entT]; ring
  · rintro ⟨mv, hpos, hk⟩
    refine ⟨fun i => if h : i < m then mv ⟨i, h⟩ else 0, fun i hi => by simpa [hi] using hpos ⟨i, hi⟩, fun j hj => ?_⟩
    rw [sumTo_eq_sum]
    have := congrFun hk ⟨j, hj⟩
    simp only [Matrix.vecMul, dotProduct, toMat, Matrix.of_apply, Pi.zero_apply] at this
    rw [← this]
    exact Finset.sum_congr rfl fun i _ => by simp only [entT, i.2, dite_true]; ring

theorem consistent_iff (m n : ℕ) (S : Ent) :
    Consistent m n S ↔ ∃ v : Fin n → ℚ, (∀ j, 0 < v j) ∧ (toMat m n S).mulVec v = 0 := by
  constructor
  · rintro ⟨x, hx, hk⟩
    refine ⟨fun j => x j, fun j => hx j j.2, ?_⟩
    funext i
    have := hk i i.2
    rw [sumTo_eq_sum] at this
    simpa [Matrix.mulVec, dotProduct, toMat] using this
  · rintro ⟨v, hpos, hk⟩
    refine ⟨fun j => if h : j < n then v ⟨j, h⟩ else 0, fun j hj => by simpa [hj] using hpos ⟨j, hj⟩, fun i hi => ?_⟩
    rw [sumTo_eq_sum]
    have := congrFun hk ⟨i, hi⟩
    simp only [Matrix.mulVec, dotProduct, toMat, Matrix.of_apply, Pi.zero_apply] at this
    rw [← this]
    exact Finset.sum_congr rfl fun j _ => by simp only [j.2, dite_true]


/-- `a` is an optimal point of the LP `min Σa  s.t.  K a ≥ eps` (`K : cols × k`). -/
def LPOptimalLaw (cols k : ℕ) (K : Ent) (eps : ℚ) (a : QVec) : Prop :=
  (∀ j, j < cols → eps ≤ combo k K a j) ∧
  ∀ a' : QVec, (∀ j, j < cols → eps ≤ combo k K a' j) → sumTo k (vget a) ≤ sumTo k (vget a')

/-- At an optimum of `min Σa, K a ≥ eps` some constraint is tight (otherwise every coefficient
could be lowered a little), so the strict test `np.all(K a > eps)` fails. -/
theorem lp_optimum_is_tight (cols k : ℕ) (K : Ent) (eps : ℚ) (a : QVec) (hk : 0 < k)
    (hopt : LPOptimalLaw cols k K eps a) : ¬ ∀ j, j < cols → eps < combo k K a j := by
  intro hstrict
  obtain ⟨_, hmin⟩ := hopt
  let s : ℕ → ℚ := fun j => |sumTo k (fun c => K j c)|
  let g : ℕ → ℚ := fun j => combo k K a j - eps
  have hg : ∀ j, j < cols → 0 < g j := fun j hj => sub_pos.2 (hstrict j hj)
  let D : ℚ := 1 + ∑ l ∈ Finset.range cols, s l / g l
  have hsum_nonneg : 0 ≤ ∑ l ∈ Finset.range cols, s l / g l :=
    Finset.sum_nonneg fun l hl => div_nonneg (abs_nonneg _) (hg l (Finset.mem_range.1 hl)).le
  have hD : 0 < D := by positivity
  have hδ : ∀ j, j < cols → D⁻¹ * s j ≤ g j := by
    intro j hj
    have hle : s j / g j ≤ ∑ l ∈ Finset.range cols, s l / g l :=
      Finset.single_le_sum (f := fun l => s l / g l)
        (fun l hl => div_nonneg (abs_nonneg _) (hg l (Finset.mem_range.1 hl)).le) (Finset.mem_range.2 hj)
    have h1 : s j ≤ g j * D := by
      have : s j = g j * (s j / g j) := by field_simp [(hg j hj).ne']
      calc s j = g j * (s j / g j) := this
        _ ≤ g j * D := mul_le_mul_of_nonneg_left (by simp only [D]; linarith) (hg j hj).le
    rw [inv_mul_le_iff₀ hD]
    linarith [mul_comm (g j) D]
  -- lower every coefficient by D⁻¹
  have hfeas : ∀ j, j < cols → eps ≤ combo k K (listOf k (fun c => vget a c - D⁻¹)) j := by
    intro j hj
    have hc : combo k K (listOf k (fun c => vget a c - D⁻¹)) j
        = combo k K a j - D⁻¹ * sumTo k (fun c => K j c) := by
      unfold combo
      rw [sumTo_congr k _ (fun c => K j c * vget a c - D⁻¹ * K j c)
        (fun c hc => by rw [vget_listOf k _ c hc]; ring)]
      simp only [sumTo_eq_range, Finset.sum_sub_distrib, Finset.mul_sum]
    rw [hc]
    have h2 : D⁻¹ * sumTo k (fun c => K j c) ≤ D⁻¹ * s j :=
      mul_le_mul_of_nonneg_left (le_abs_self _) (inv_pos.2 hD).le
    have h3 := hδ j hj
    simp only [g] at h3
    linarith
  have hobj := hmin _ hfeas
  have : sumTo k (vget (listOf k (fun c => vget a c - D⁻¹))) = sumTo k (vget a) - k * D⁻¹ := by
    rw [sumTo_congr k _ (fun c => vget a c - D⁻¹) (fun c hc => vget_listOf k _ c hc)]
    simp only [sumTo_eq_range, Finset.sum_sub_distrib, Finset.sum_const, Finset.card_range, nsmul_eq_mul]
  rw [this] at hobj
  have hkpos : (0 : ℚ) < k * D⁻¹ := mul_pos (by exact_mod_cast hk) (inv_pos.2 hD)
  linarith

theorem conservative_lp_stage_never_true' (m n k : ℕ) (B : Ent) (eps : ℚ) (lp : LPOut) (hn : n ≠ 0)
    (hstage : lpStage m k B eps true = true)
    (hopt : ∀ a, lp = .optimal a → LPOptimalLaw m k B eps a) :
    isConservativeQ m n k B eps true lp = some false := by
  simp only [lpStage, Bool.and_eq_true, decide_eq_true_eq, Option.isNone_iff_eq_none, and_true] at hstage
  obtain ⟨hk2, hf⟩ := hstage
  rw [isConservativeQ_eq m n k B eps true lp hn]
  have h0 : k ≠ 0 := by omega
  have h1 : k ≠ 1 := by omega
  simp only [h0, h1, if_false, hf, if_true]
  split
  · rename_i hst
    obtain ⟨a, rfl, ha⟩ := lpObsOf_strict m k B eps _ hst
    exact absurd ha (lp_optimum_is_tight m k B eps a (by omega) (hopt a rfl))
  · rfl


theorem conservative_unbounded_witness' :
    let S := entI [[1], [-1], [-1], [1]]
    let B := entQ [[1, 0, -1], [1, 0, 0], [0, 1, -1], [0, 1, 0]]
    let eps : ℚ := 1 / 100000000
    checkPositiveLeftKernel 4 1 S [1, 1, 1, 1] = true ∧
    KerCols 1 4 3 (entT S) B ∧
    lpStage 4 3 B eps true = true ∧
    (∀ t : ℚ, 0 ≤ t → ∀ i, i < 4 → eps ≤ combo 3 B [eps, eps, -t] i) ∧
    LPCorrectLaw 4 3 B eps .unbounded ∧
    isConservativeQ 4 1 3 B eps true .unbounded = some false := by
  have hfeas : ∀ t : ℚ, 0 ≤ t → ∀ i, i < 4 →
      (1 / 100000000 : ℚ) ≤ combo 3 (entQ [[1, 0, -1], [1, 0, 0], [0, 1, -1], [0, 1, 0]])
        [1 / 100000000, 1 / 100000000, -t] i := by
    intro t ht i hi
    have hi' : i = 0 ∨ i = 1 ∨ i = 2 ∨ i = 3 := by omega
    rcases hi' with rfl | rfl | rfl | rfl <;>
      simp [combo, sumTo, entQ, vget] <;> linarith
  refine ⟨by decide +kernel, ?_, by decide +kernel, hfeas, ⟨[1 / 100000000, 1 / 100000000, -0], hfeas 0 le_rfl⟩, by decide +kernel⟩
  intro c hc i hi
  have hi' : i = 0 := by omega
  have hc' : c = 0 ∨ c = 1 ∨ c = 2 := by omega
  subst hi'
  rcases hc' with rfl | rfl | rfl <;> simp [sumTo, entT, entI, entryI, entQ]

end SynKit.Stoich

import SynKitModel.Canon
import SynKitProofs.CanonOrder
import Mathlib.Data.List.Nodup
import Mathlib.Data.List.Perm.Basic
import Mathlib.Tactic.Ring
/-! Helper lemmas for C08 (canonicalisation). Property theorems are in `Props/C08.lean`. -/
set_option linter.unusedSimpArgs false
set_option linter.unnecessarySeqFocus false
set_option linter.unusedVariables false
namespace SynKit.Canon
open SynKit SynKit.Match

/-! ### Graph basics -/

theorem attrs_of_mem (g : LGraph) (hn : g.ids.Nodup) (v : Nat) (a : Attrs) (h : (v, a) ∈ g.nodes) :
    g.attrs v = a := by
  unfold LGraph.attrs
  unfold LGraph.ids at hn
  generalize g.nodes = ns at *
  induction ns with
  | nil => simp at h
  | cons p rest ih =>
    simp only [List.map_cons, List.nodup_cons] at hn
    simp only [List.mem_cons] at h
    rcases h with h | h
    · subst h; simp [List.find?]
    · have hne : p.1 ≠ v := by
        intro e; apply hn.1; rw [e]; exact List.mem_map.2 ⟨(v, a), h, rfl⟩
      simp only [List.find?, hne, decide_false]
      exact ih hn.2 h

/-- Edge `u–v` with attribute dict `a` is in the edge list (either orientation). -/
def EdgeRel (g : LGraph) (u v : Nat) (a : Attrs) : Prop :=
  ∃ e ∈ g.edges, ((e.1 = u ∧ e.2.1 = v) ∨ (e.1 = v ∧ e.2.1 = u)) ∧ e.2.2 = a

theorem upair_eq_iff (a b c d : Nat) :
    upair a b = upair c d ↔ (a = c ∧ b = d) ∨ (a = d ∧ b = c) := by
  unfold upair
  simp only [Prod.mk.injEq]
  omega

theorem edgeRel_of_edge? (g : LGraph) (u v : Nat) (a : Attrs) (h : g.edge? u v = some a) :
    EdgeRel g u v a := by
  unfold LGraph.edge? at h
  simp only [Option.map_eq_some_iff] at h
  obtain ⟨e, he, rfl⟩ := h
  have hm := List.mem_of_find?_eq_some he
  have hp := List.find?_some he
  simp only [decide_eq_true_eq] at hp
  exact ⟨e, hm, hp, rfl⟩

theorem edge?_of_edgeRel (g : LGraph) (hw : g.WF) (u v : Nat) (a : Attrs) (h : EdgeRel g u v a) :
    g.edge? u v = some a := by
  obtain ⟨e, he, hm, rfl⟩ := h
  have hnd := hw.2.2
  unfold LGraph.edge?
  generalize g.edges = es at *
  induction es with
  | nil => simp at he
  | cons x rest ih =>
    simp only [List.map_cons, List.nodup_cons] at hnd
    simp only [List.mem_cons] at he
    by_cases hx : (x.1 = u ∧ x.2.1 = v) ∨ (x.1 = v ∧ x.2.1 = u)
    · simp only [List.find?, hx, decide_true, Option.map_some, Option.some.injEq]
      rcases he with he | he
      · rw [he]
      · exfalso; apply hnd.1
        refine List.mem_map.2 ⟨e, he, ?_⟩
        have := (upair_eq_iff e.1 e.2.1 x.1 x.2.1).2 (by omega)
        simpa [upair] using this
    · simp only [List.find?, hx, decide_false]
      rcases he with he | he
      · subst he; exact absurd hm hx
      · exact ih he hnd.2

theorem edge?_eq_some_iff (g : LGraph) (hw : g.WF) (u v : Nat) (a : Attrs) :
    g.edge? u v = some a ↔ EdgeRel g u v a :=
  ⟨edgeRel_of_edge? g u v a, edge?_of_edgeRel g hw u v a⟩

theorem edge?_congr (g h : LGraph) (hg : g.WF) (hh : h.WF) (u v u' v' : Nat)
    (hr : ∀ a, EdgeRel g u v a ↔ EdgeRel h u' v' a) : g.edge? u v = h.edge? u' v' := by
  apply Option.ext
  intro a
  rw [edge?_eq_some_iff g hg, edge?_eq_some_iff h hh, hr]

/-! ### Positions in an order -/

theorem pos_inj (o : List Nat) (a b : Nat) (ha : a ∈ o) (h : pos o a = pos o b) : a = b := by
  unfold pos at h
  have h' : o.idxOf a = o.idxOf b := by omega
  have hl : o.idxOf a < o.length := List.idxOf_lt_length_of_mem ha
  have hb : o.idxOf b < o.length := by omega
  have e1 := List.getElem_idxOf (x := a) (xs := o) hl
  have e2 := List.getElem_idxOf (x := b) (xs := o) hb
  rw [← e1, ← e2]
  simp [h']

theorem map_pos_eq_range (o : List Nat) (hn : o.Nodup) : o.map (pos o) = List.range' 1 o.length := by
  apply List.ext_getElem
  · simp
  · intro i h1 h2
    simp only [List.getElem_map, List.getElem_range', pos]
    have hi : i < o.length := by simpa using h1
    rw [hn.idxOf_getElem i hi]; ring

theorem sortBy_perm' {α : Type} (lt : α → α → Bool) (xs : List α) : (sortBy lt xs).Perm xs := by
  have hins : ∀ (x : α) (l : List α), (insertBy lt x l).Perm (x :: l) := by
    intro x l
    induction l with
    | nil => simp [insertBy]
    | cons y ys ih =>
      simp only [insertBy]
      split
      · exact (List.Perm.cons y ih).trans (List.Perm.swap x y ys)
      · exact List.Perm.refl _
  induction xs with
  | nil => simp [sortBy]
  | cons x rest ih =>
    simp only [sortBy, List.foldr_cons] at ih ⊢
    exact (hins x _).trans (List.Perm.cons x ih)

/-! ### `canonBy` -/

/-- The edge list `canonBy` sorts. -/
def relEdges (o : List Nat) (g : LGraph) : List (Nat × Nat × Attrs) :=
  g.edges.map fun e => (min (pos o e.1) (pos o e.2.1), max (pos o e.1) (pos o e.2.1), e.2.2)

theorem canonBy_edges_perm (o : List Nat) (g : LGraph) : (canonBy o g).edges.Perm (relEdges o g) :=
  sortBy_perm' _ _

theorem canonBy_ids (o : List Nat) (g : LGraph) (hn : o.Nodup) :
    (canonBy o g).ids = List.range' 1 o.length := by
  unfold LGraph.ids canonBy
  simp only [List.map_map]
  exact map_pos_eq_range o hn

theorem canonBy_ids' (o : List Nat) (g : LGraph) : (canonBy o g).ids = o.map (pos o) := by
  unfold LGraph.ids canonBy
  simp [List.map_map, Function.comp_def]

theorem canonBy_attrs (o : List Nat) (g : LGraph) (hn : o.Nodup) (v : Nat) (hv : v ∈ o) :
    (canonBy o g).attrs (pos o v) = g.attrs v := by
  apply attrs_of_mem
  · rw [canonBy_ids o g hn]; exact List.nodup_range'
  · unfold canonBy; exact List.mem_map.2 ⟨v, hv, rfl⟩

theorem minmax_match (x y p q : Nat) :
    ((min x y = p ∧ max x y = q) ∨ (min x y = q ∧ max x y = p)) ↔ ((x = p ∧ y = q) ∨ (x = q ∧ y = p)) := by
  omega

theorem canonBy_edgeRel (o : List Nat) (g : LGraph) (hw : g.WF) (hp : o.Perm g.ids)
    (u v : Nat) (hu : u ∈ o) (hv : v ∈ o) (a : Attrs) :
    EdgeRel (canonBy o g) (pos o u) (pos o v) a ↔ EdgeRel g u v a := by
  have hmem : ∀ x, x ∈ (canonBy o g).edges ↔ x ∈ relEdges o g := fun x => (canonBy_edges_perm o g).mem_iff
  constructor
  · rintro ⟨e', he', hm, rfl⟩
    rw [hmem] at he'
    obtain ⟨e, he, rfl⟩ := List.mem_map.1 he'
    have hends := hw.2.1 e he
    have h1 : e.1 ∈ o := hp.mem_iff.2 hends.1
    have h2 : e.2.1 ∈ o := hp.mem_iff.2 hends.2.1
    refine ⟨e, he, ?_, rfl⟩
    have := (minmax_match _ _ _ _).1 hm
    rcases this with ⟨a1, a2⟩ | ⟨a1, a2⟩
    · exact Or.inl ⟨pos_inj o _ _ h1 a1, pos_inj o _ _ h2 a2⟩
    · exact Or.inr ⟨pos_inj o _ _ h1 a1, pos_inj o _ _ h2 a2⟩
  · rintro ⟨e, he, hm, rfl⟩
    refine ⟨(min (pos o e.1) (pos o e.2.1), max (pos o e.1) (pos o e.2.1), e.2.2), ?_, ?_, rfl⟩
    · rw [hmem]; exact List.mem_map.2 ⟨e, he, rfl⟩
    · apply (minmax_match _ _ _ _).2
      rcases hm with ⟨a1, a2⟩ | ⟨a1, a2⟩
      · left; rw [a1, a2]; exact ⟨rfl, rfl⟩
      · right; rw [a1, a2]; exact ⟨rfl, rfl⟩

theorem canonBy_wf (o : List Nat) (g : LGraph) (hw : g.WF) (hp : o.Perm g.ids) : (canonBy o g).WF := by
  have hn : o.Nodup := hp.nodup_iff.2 hw.1
  have hmem : ∀ x, x ∈ (canonBy o g).edges ↔ x ∈ relEdges o g := fun x => (canonBy_edges_perm o g).mem_iff
  refine ⟨?_, ?_, ?_⟩
  · rw [canonBy_ids o g hn]; exact List.nodup_range'
  · intro e' he'
    rw [hmem] at he'
    obtain ⟨e, he, rfl⟩ := List.mem_map.1 he'
    have hends := hw.2.1 e he
    have h1 : e.1 ∈ o := hp.mem_iff.2 hends.1
    have h2 : e.2.1 ∈ o := hp.mem_iff.2 hends.2.1
    have m1 : pos o e.1 ∈ (canonBy o g).ids := by rw [canonBy_ids']; exact List.mem_map.2 ⟨_, h1, rfl⟩
    have m2 : pos o e.2.1 ∈ (canonBy o g).ids := by rw [canonBy_ids']; exact List.mem_map.2 ⟨_, h2, rfl⟩
    have hne : pos o e.1 ≠ pos o e.2.1 := fun h => hends.2.2 (pos_inj o _ _ h1 h)
    simp only
    refine ⟨?_, ?_, ?_⟩
    · rcases Nat.le_total (pos o e.1) (pos o e.2.1) with h | h
      · rw [Nat.min_eq_left h]; exact m1
      · rw [Nat.min_eq_right h]; exact m2
    · rcases Nat.le_total (pos o e.1) (pos o e.2.1) with h | h
      · rw [Nat.max_eq_right h]; exact m2
      · rw [Nat.max_eq_left h]; exact m1
    · omega
  · have hperm := (canonBy_edges_perm o g).map (fun e => (min e.1 e.2.1, max e.1 e.2.1))
    rw [hperm.nodup_iff]
    have hnd := hw.2.2
    have : (relEdges o g).map (fun e => (min e.1 e.2.1, max e.1 e.2.1)) =
        (g.edges.map fun e => (min e.1 e.2.1, max e.1 e.2.1)).map (fun p => upair (pos o p.1) (pos o p.2)) := by
      unfold relEdges
      simp only [List.map_map]
      apply List.map_congr_left
      intro e _
      simp only [Function.comp_def, upair]
      rcases Nat.le_total e.1 e.2.1 with h | h <;> simp [Nat.min_eq_left, Nat.min_eq_right, Nat.max_eq_left, Nat.max_eq_right, h] <;> omega
    rw [this]
    apply List.Nodup.map_on _ hnd
    intro x hx y hy hxy
    obtain ⟨e1, he1, rfl⟩ := List.mem_map.1 hx
    obtain ⟨e2, he2, rfl⟩ := List.mem_map.1 hy
    have a1 := hw.2.1 e1 he1
    have a2 := hw.2.1 e2 he2
    have mo : ∀ z, z ∈ g.ids → z ∈ o := fun z hz => hp.mem_iff.2 hz
    have hmin1 : min e1.1 e1.2.1 ∈ o := by
      rcases Nat.le_total e1.1 e1.2.1 with h | h
      · rw [Nat.min_eq_left h]; exact mo _ a1.1
      · rw [Nat.min_eq_right h]; exact mo _ a1.2.1
    have hmax1 : max e1.1 e1.2.1 ∈ o := by
      rcases Nat.le_total e1.1 e1.2.1 with h | h
      · rw [Nat.max_eq_right h]; exact mo _ a1.2.1
      · rw [Nat.max_eq_left h]; exact mo _ a1.1
    rcases (upair_eq_iff _ _ _ _).1 hxy with ⟨b1, b2⟩ | ⟨b1, b2⟩
    · have c1 := pos_inj o _ _ hmin1 b1
      have c2 := pos_inj o _ _ hmax1 b2
      simp only [Prod.mk.injEq]; exact ⟨c1, c2⟩
    · have c1 := pos_inj o _ _ hmin1 b1
      have c2 := pos_inj o _ _ hmax1 b2
      simp only [Prod.mk.injEq]; omega

theorem canonBy_edge? (o : List Nat) (g : LGraph) (hw : g.WF) (hp : o.Perm g.ids)
    (u v : Nat) (hu : u ∈ o) (hv : v ∈ o) :
    (canonBy o g).edge? (pos o u) (pos o v) = g.edge? u v :=
  edge?_congr _ _ (canonBy_wf o g hw hp) hw _ _ _ _ (fun a => canonBy_edgeRel o g hw hp u v hu hv a)

theorem canonBy_isRelabelling (o : List Nat) (g : LGraph) (hw : g.WF) (hp : o.Perm g.ids) :
    IsRelabelling g (canonBy o g) (g.ids.map fun v => (v, pos o v)) := by
  have hn : o.Nodup := hp.nodup_iff.2 hw.1
  have hlen : g.nodes.length = o.length := by
    have := hp.length_eq; simp [LGraph.ids] at this; omega
  have himg : (g.ids.map (pos o)).Perm (List.range' 1 g.nodes.length) := by
    rw [hlen, ← map_pos_eq_range o hn]; exact (hp.symm).map _
  refine ⟨?_, ?_, canonBy_wf o g hw hp, ?_, ?_, ?_⟩
  · simp [List.map_map, Function.comp_def]
  · simpa [List.map_map, Function.comp_def] using himg
  · rw [canonBy_ids']
    simpa [List.map_map, Function.comp_def] using hp.map (pos o)
  · intro p hpm
    obtain ⟨v, hv, rfl⟩ := List.mem_map.1 hpm
    exact canonBy_attrs o g hn v (hp.mem_iff.2 hv)
  · intro p hpm q hqm
    obtain ⟨u, hu, rfl⟩ := List.mem_map.1 hpm
    obtain ⟨v, hv, rfl⟩ := List.mem_map.1 hqm
    exact canonBy_edge? o g hw hp u v (hp.mem_iff.2 hu) (hp.mem_iff.2 hv)

/-! ### Serialisation is injective on the covered data -/

/-- Equality on the covered attributes (Prop form of `covEq`): same node ids, same node keys,
same adjacency with the same edge keys. -/
def CovEqP (G H : LGraph) : Prop :=
  G.ids.Perm H.ids ∧ (∀ v ∈ G.ids, nodeKey (G.attrs v) = nodeKey (H.attrs v)) ∧
  ∀ u v, (G.edge? u v).map edgeKey = (H.edge? u v).map edgeKey

theorem edge?_map_eq_some_iff (g : LGraph) (hw : g.WF) (u v : Nat) (k : List Val) :
    (g.edge? u v).map edgeKey = some k ↔
      ∃ x ∈ g.edges.map (fun e => ((e.1, e.2.1), upair e.1 e.2.1, edgeKey e.2.2)),
        ((x.1.1 = u ∧ x.1.2 = v) ∨ (x.1.1 = v ∧ x.1.2 = u)) ∧ x.2.2 = k := by
  simp only [Option.map_eq_some_iff]
  constructor
  · rintro ⟨a, ha, rfl⟩
    obtain ⟨e, he, hm, rfl⟩ := (edge?_eq_some_iff g hw u v a).1 ha
    exact ⟨_, List.mem_map.2 ⟨e, he, rfl⟩, hm, rfl⟩
  · rintro ⟨x, hx, hm, rfl⟩
    obtain ⟨e, he, rfl⟩ := List.mem_map.1 hx
    exact ⟨e.2.2, (edge?_eq_some_iff g hw u v _).2 ⟨e, he, hm, rfl⟩, rfl⟩

theorem serialise_inj' (G H : LGraph) (hG : G.WF) (hH : H.WF) (h : serialise G = serialise H) :
    CovEqP G H := by
  have hnodes : (G.nodes.map fun p => (p.1, nodeKey p.2)).Perm (H.nodes.map fun p => (p.1, nodeKey p.2)) := by
    have e : (serialise G).nodes = (serialise H).nodes := by rw [h]
    simp only [serialise] at e
    exact (((sortBy_perm' nodeLt G.nodes).map _).symm.trans (e ▸ List.Perm.refl _)).trans
      ((sortBy_perm' nodeLt H.nodes).map _)
  have hedges : (G.edges.map fun e => ((e.1, e.2.1), upair e.1 e.2.1, edgeKey e.2.2)).Perm
      (H.edges.map fun e => ((e.1, e.2.1), upair e.1 e.2.1, edgeKey e.2.2)) := by
    have e : (serialise G).edges = (serialise H).edges := by rw [h]
    simp only [serialise] at e
    exact (((sortBy_perm' edgeLt G.edges).map _).symm.trans (e ▸ List.Perm.refl _)).trans
      ((sortBy_perm' edgeLt H.edges).map _)
  refine ⟨?_, ?_, ?_⟩
  · have := hnodes.map (·.1)
    simpa [LGraph.ids, List.map_map, Function.comp_def] using this
  · intro v hv
    obtain ⟨p, hp, rfl⟩ := List.mem_map.1 hv
    have hGa : G.attrs p.1 = p.2 := attrs_of_mem G hG.1 p.1 p.2 hp
    have : (p.1, nodeKey p.2) ∈ H.nodes.map fun p => (p.1, nodeKey p.2) :=
      hnodes.mem_iff.1 (List.mem_map.2 ⟨p, hp, rfl⟩)
    obtain ⟨q, hq, hqe⟩ := List.mem_map.1 this
    simp only [Prod.mk.injEq] at hqe
    have hHa : H.attrs q.1 = q.2 := attrs_of_mem H hH.1 q.1 q.2 hq
    rw [hGa, ← hqe.1, hHa, hqe.2]
  · intro u v
    apply Option.ext
    intro k
    rw [edge?_map_eq_some_iff G hG, edge?_map_eq_some_iff H hH]
    constructor
    · rintro ⟨x, hx, hm⟩; exact ⟨x, hedges.mem_iff.1 hx, hm⟩
    · rintro ⟨x, hx, hm⟩; exact ⟨x, hedges.mem_iff.2 hx, hm⟩

/-! ### Bridge to the shared engine's `IsIso` -/

theorem nodeOk_cov_iff (a b : Attrs) :
    nodeOk covSel (covNodeAttrs a) (covNodeAttrs b) = true ↔ nodeKey a = nodeKey b := by
  simp [nodeOk, covSel, nodeKeyNames, covNodeAttrs, Attrs.get, Dict.getD, Dict.get?, nodeKey, and_assoc]

theorem edgeOk_cov_iff (a b : Attrs) :
    edgeOk covSel (covEdgeAttrs a) (covEdgeAttrs b) = true ↔ edgeKey a = edgeKey b := by
  simp [edgeOk, covSel, edgeKeyNames, covEdgeAttrs, Attrs.get, Dict.getD, Dict.get?, edgeKey]

theorem cov_ids (g : LGraph) : (cov g).ids = g.ids := by
  simp [cov, LGraph.ids, List.map_map, Function.comp_def]

theorem cov_attrs (g : LGraph) (v : Nat) (hv : v ∈ g.ids) : (cov g).attrs v = covNodeAttrs (g.attrs v) := by
  unfold LGraph.attrs cov
  simp only [List.find?_map, Function.comp_def]
  cases h : g.nodes.find? (fun p => decide (p.1 = v)) with
  | some p => simp
  | none =>
    exfalso
    obtain ⟨p, hp, rfl⟩ := List.mem_map.1 hv
    have := List.find?_eq_none.1 h p hp
    simp at this

theorem cov_edge? (g : LGraph) (u v : Nat) : (cov g).edge? u v = (g.edge? u v).map covEdgeAttrs := by
  unfold LGraph.edge? cov
  simp only [List.find?_map, Function.comp_def, Option.map_map]

theorem mapping_get? (ids : List Nat) (g : Nat → Nat) (p : Nat) :
    Mapping.get? (ids.map fun p => (p, g p)) p = if p ∈ ids then some (g p) else none := by
  unfold Mapping.get?
  induction ids with
  | nil => simp
  | cons x rest ih =>
    by_cases hx : x = p
    · subst hx; simp [List.find?]
    · have : ¬ p = x := fun e => hx e.symm
      simp only [List.map_cons, List.find?, hx, decide_false, List.mem_cons, this, false_or]
      exact ih

/-- `g` maps the nodes of `H` bijectively onto the nodes of `G`, preserving the covered node
keys and the adjacency together with the covered edge keys. -/
structure IsoCov (G H : LGraph) (g : Nat → Nat) : Prop where
  perm : (H.ids.map g).Perm G.ids
  node : ∀ p ∈ H.ids, nodeKey (G.attrs (g p)) = nodeKey (H.attrs p)
  edge : ∀ p ∈ H.ids, ∀ q ∈ H.ids, (G.edge? (g p) (g q)).map edgeKey = (H.edge? p q).map edgeKey

theorem isIso_of_isoCov (G H : LGraph) (hG : G.WF) (hH : H.WF) (g : Nat → Nat) (h : IsoCov G H g) :
    IsIso covSel (cov G) (cov H) (H.ids.map fun p => (p, g p)) := by
  have hgmem : ∀ p ∈ H.ids, g p ∈ G.ids := fun p hp => h.perm.mem_iff.1 (List.mem_map.2 ⟨p, hp, rfl⟩)
  refine ⟨⟨⟨?_, ?_, ?_, ?_⟩, ?_⟩, ?_⟩
  · simp [cov_ids, List.map_map, Function.comp_def]
  · simp only [List.map_map, Function.comp_def]
    exact h.perm.nodup_iff.2 hG.1
  · intro ph hph
    obtain ⟨p, hp, rfl⟩ := List.mem_map.1 hph
    refine ⟨by rw [cov_ids]; exact hgmem p hp, ?_⟩
    simp only
    rw [cov_attrs G _ (hgmem p hp), cov_attrs H _ hp, nodeOk_cov_iff]
    exact h.node p hp
  · intro e he
    obtain ⟨e0, he0, rfl⟩ := List.mem_map.1 he
    have hends := hH.2.1 e0 he0
    have hHe : H.edge? e0.1 e0.2.1 = some e0.2.2 :=
      (edge?_eq_some_iff H hH _ _ _).2 ⟨e0, he0, Or.inl ⟨rfl, rfl⟩, rfl⟩
    have hk := h.edge _ hends.1 _ hends.2.1
    rw [hHe] at hk
    simp only [Option.map_some, Option.map_eq_some_iff] at hk
    obtain ⟨a, ha, hak⟩ := hk
    refine ⟨g e0.1, g e0.2.1, covEdgeAttrs a, ?_, ?_, ?_, ?_⟩
    · rw [mapping_get?]; simp [hends.1]
    · rw [mapping_get?]; simp [hends.2.1]
    · rw [cov_edge?, ha]; rfl
    · exact (edgeOk_cov_iff _ _).2 hak
  · intro p q hp' hq' e1 e2 hne
    rw [mapping_get?] at e1 e2
    split at e1
    · split at e2
      · rename_i hp hq
        simp only [Option.some.injEq] at e1 e2
        subst e1; subst e2
        have hk := h.edge p hp q hq
        unfold LGraph.hasEdge at hne ⊢
        rw [cov_edge?] at hne ⊢
        cases hx : H.edge? p q with
        | some a => rw [hx] at hne; simp at hne
        | none =>
          rw [hx] at hk
          cases hy : G.edge? (g p) (g q) with
          | some b => rw [hy] at hk; simp at hk
          | none => simp
      · simp at e2
    · simp at e1
  · have := h.perm.length_eq
    simp [LGraph.ids, cov] at this ⊢
    omega


/-! ### Equal serialisations give an isomorphism -/

/-- The node of `o₁` at the position `p` has in `o₂` (π₁⁻¹ ∘ π₂). -/
def transfer (o₁ o₂ : List Nat) (p : Nat) : Nat := o₁.getD (o₂.idxOf p) 0

theorem transfer_spec (o₁ o₂ : List Nat) (hn₁ : o₁.Nodup) (hlen : o₁.length = o₂.length) (p : Nat) (hp : p ∈ o₂) :
    transfer o₁ o₂ p ∈ o₁ ∧ pos o₁ (transfer o₁ o₂ p) = pos o₂ p := by
  have hi : o₂.idxOf p < o₁.length := by rw [hlen]; exact List.idxOf_lt_length_of_mem hp
  unfold transfer
  rw [List.getD_eq_getElem?_getD, List.getElem?_eq_getElem hi, Option.getD_some]
  refine ⟨List.getElem_mem hi, ?_⟩
  unfold pos
  rw [hn₁.idxOf_getElem _ hi]

theorem map_transfer (o₁ o₂ : List Nat) (hn₂ : o₂.Nodup) (hlen : o₁.length = o₂.length) :
    o₂.map (transfer o₁ o₂) = o₁ := by
  apply List.ext_getElem
  · simp [hlen]
  · intro i h1 h2
    have hi : i < o₂.length := by simpa using h1
    simp only [List.getElem_map, transfer]
    rw [hn₂.idxOf_getElem i hi, List.getD_eq_getElem?_getD, List.getElem?_eq_getElem h2, Option.getD_some]

theorem isoCov_of_ser_eq (G H : LGraph) (hG : G.WF) (hH : H.WF) (o₁ o₂ : List Nat)
    (hp₁ : o₁.Perm G.ids) (hp₂ : o₂.Perm H.ids)
    (h : serialise (canonBy o₁ G) = serialise (canonBy o₂ H)) : IsoCov G H (transfer o₁ o₂) := by
  have hn₁ : o₁.Nodup := hp₁.nodup_iff.2 hG.1
  have hn₂ : o₂.Nodup := hp₂.nodup_iff.2 hH.1
  have hc := serialise_inj' _ _ (canonBy_wf o₁ G hG hp₁) (canonBy_wf o₂ H hH hp₂) h
  have hlen : o₁.length = o₂.length := by
    have := hc.1.length_eq
    rw [canonBy_ids o₁ G hn₁, canonBy_ids o₂ H hn₂] at this
    simpa using this
  have hmemG' : ∀ p ∈ o₂, pos o₂ p ∈ (canonBy o₁ G).ids := by
    intro p hp
    rw [hc.1.mem_iff, canonBy_ids']
    exact List.mem_map.2 ⟨p, hp, rfl⟩
  refine ⟨?_, ?_, ?_⟩
  · have := (hp₂.symm).map (transfer o₁ o₂)
    rw [map_transfer o₁ o₂ hn₂ hlen] at this
    exact this.trans hp₁
  · intro p hp
    have hp' : p ∈ o₂ := hp₂.mem_iff.2 hp
    obtain ⟨hm, hpos⟩ := transfer_spec o₁ o₂ hn₁ hlen p hp'
    rw [← canonBy_attrs o₁ G hn₁ _ hm, hpos, hc.2.1 _ (hmemG' p hp'), canonBy_attrs o₂ H hn₂ p hp']
  · intro p hp q hq
    have hp' : p ∈ o₂ := hp₂.mem_iff.2 hp
    have hq' : q ∈ o₂ := hp₂.mem_iff.2 hq
    obtain ⟨hm, hpos⟩ := transfer_spec o₁ o₂ hn₁ hlen p hp'
    obtain ⟨hm2, hpos2⟩ := transfer_spec o₁ o₂ hn₁ hlen q hq'
    rw [← canonBy_edge? o₁ G hG hp₁ _ _ hm hm2, hpos, hpos2, hc.2.2, canonBy_edge? o₂ H hH hp₂ p q hp' hq']


/-! ### An engine isomorphism gives `IsoCov` -/

theorem edge?_symm (g : LGraph) (u v : Nat) : g.edge? u v = g.edge? v u := by
  unfold LGraph.edge?
  congr 2
  funext e
  simp only [decide_eq_decide]
  exact Or.comm

theorem get?_of_mem (m : Mapping) (hn : (m.map (·.1)).Nodup) (p h : Nat) (hm : (p, h) ∈ m) :
    Mapping.get? m p = some h := by
  unfold Mapping.get?
  induction m with
  | nil => simp at hm
  | cons x rest ih =>
    simp only [List.map_cons, List.nodup_cons] at hn
    simp only [List.mem_cons] at hm
    rcases hm with hm | hm
    · subst hm; simp [List.find?]
    · have hne : x.1 ≠ p := by
        intro e; apply hn.1; rw [e]; exact List.mem_map.2 ⟨(p, h), hm, rfl⟩
      simp only [List.find?, hne, decide_false]
      exact ih hn.2 hm

/-- The node map of an engine isomorphism. -/
def mapOf (m : Mapping) (p : Nat) : Nat := (Mapping.get? m p).getD 0

theorem isoCov_of_isIso (G H : LGraph) (hG : G.WF) (hH : H.WF) (m : Mapping)
    (h : IsIso covSel (cov G) (cov H) m) : IsoCov G H (mapOf m) := by
  obtain ⟨⟨⟨hdom, hinj, hnode, hedge⟩, hind⟩, hlen⟩ := h
  rw [cov_ids] at hdom
  have hnd : (m.map (·.1)).Nodup := by rw [hdom]; exact hH.1
  have hget : ∀ ph ∈ m, Mapping.get? m ph.1 = some ph.2 := fun ph hph => get?_of_mem m hnd ph.1 ph.2 hph
  have hmap : ∀ ph ∈ m, mapOf m ph.1 = ph.2 := fun ph hph => by simp [mapOf, hget ph hph]
  have hex : ∀ p ∈ H.ids, (p, mapOf m p) ∈ m := by
    intro p hp
    rw [← hdom] at hp
    obtain ⟨ph, hph, rfl⟩ := List.mem_map.1 hp
    rw [hmap ph hph]; exact hph
  have himg : H.ids.map (mapOf m) = m.map (·.2) := by
    rw [← hdom, List.map_map]
    apply List.map_congr_left
    intro ph hph; exact hmap ph hph
  refine ⟨?_, ?_, ?_⟩
  · rw [himg]
    have hsub : m.map (·.2) ⊆ G.ids := by
      intro x hx
      obtain ⟨ph, hph, rfl⟩ := List.mem_map.1 hx
      have := (hnode ph hph).1
      rwa [cov_ids] at this
    apply (List.subperm_of_subset hinj hsub).perm_of_length_le
    have : m.length = H.nodes.length := by
      have := congrArg List.length hdom
      simpa [LGraph.ids] using this
    simp only [LGraph.ids, List.length_map, cov] at hlen ⊢
    omega
  · intro p hp
    have := (hnode _ (hex p hp)).2
    simp only at this
    have hgm : mapOf m p ∈ G.ids := by
      have := (hnode _ (hex p hp)).1; rwa [cov_ids] at this
    rw [cov_attrs G _ hgm, cov_attrs H _ hp, nodeOk_cov_iff] at this
    exact this
  · intro p hp q hq
    cases hx : H.edge? p q with
    | none =>
      have hne : (cov H).hasEdge p q = false := by
        unfold LGraph.hasEdge; rw [cov_edge?, hx]; rfl
      have := hind p q _ _ (hget _ (hex p hp)) (hget _ (hex q hq)) hne
      unfold LGraph.hasEdge at this
      rw [cov_edge?] at this
      cases hy : G.edge? (mapOf m p) (mapOf m q) with
      | none => rfl
      | some b => rw [hy] at this; simp at this
    | some a =>
      obtain ⟨e, he, hm, rfl⟩ := edgeRel_of_edge? H p q a hx
      have hce : (e.1, e.2.1, covEdgeAttrs e.2.2) ∈ (cov H).edges := List.mem_map.2 ⟨e, he, rfl⟩
      obtain ⟨hu, hv, ea, g1, g2, g3, g4⟩ := hedge _ hce
      simp only at g1 g2 g4
      have hends := hH.2.1 e he
      have e1 : hu = mapOf m e.1 := by simp [mapOf, g1]
      have e2 : hv = mapOf m e.2.1 := by simp [mapOf, g2]
      subst e1; subst e2
      rw [cov_edge?] at g3
      simp only [Option.map_eq_some_iff] at g3
      obtain ⟨b, hb, rfl⟩ := g3
      have hk := (edgeOk_cov_iff _ _).1 g4
      rcases hm with ⟨rfl, rfl⟩ | ⟨rfl, rfl⟩
      · rw [hb]; simp [hk]
      · rw [edge?_symm, hb]; simp [hk]


/-! ### Serialisations of canonical graphs under an isomorphism -/

theorem pos_map (o : List Nat) (g : Nat → Nat) (hinj : ∀ a ∈ o, ∀ b ∈ o, g a = g b → a = b)
    (p : Nat) (hp : p ∈ o) : pos (o.map g) (g p) = pos o p := by
  unfold pos
  congr 1
  induction o with
  | nil => simp at hp
  | cons x xs ih =>
    simp only [List.map_cons, List.idxOf_cons]
    by_cases hx : x = p
    · subst hx; simp
    · have hp' : p ∈ xs := by
        rcases List.mem_cons.1 hp with h | h
        · exact absurd h.symm hx
        · exact h
      have hgx : g x ≠ g p := fun e => hx (hinj x (List.mem_cons_self) p hp e)
      have e1 : (g x == g p) = false := by simpa using hgx
      have e2 : (x == p) = false := by simpa using hx
      rw [e1, e2]
      simp only [cond_false]
      congr 1
      exact ih (fun a ha b hb => hinj a (List.mem_cons_of_mem _ ha) b (List.mem_cons_of_mem _ hb)) hp'

/-- `a.1 < b.1 or (a.1 == b.1 and a.2 < b.2)`. -/
def lexOr {α β : Type} [BEq α] (lt₁ : α → α → Bool) (lt₂ : β → β → Bool) (a b : α × β) : Bool :=
  lt₁ a.1 b.1 || (a.1 == b.1 && lt₂ a.2 b.2)

theorem lexOr_irrefl {α β : Type} [BEq α] [LawfulBEq α] (lt₁ : α → α → Bool) (lt₂ : β → β → Bool)
    (h₁ : StrictTotal lt₁) (h₂ : StrictTotal lt₂) (a : α × β) : lexOr lt₁ lt₂ a a = false := by
  simp [lexOr, h₁.irrefl, h₂.irrefl]

theorem lexOr_trans {α β : Type} [BEq α] [LawfulBEq α] (lt₁ : α → α → Bool) (lt₂ : β → β → Bool)
    (h₁ : StrictTotal lt₁) (h₂ : StrictTotal lt₂) (a b c : α × β)
    (hab : lexOr lt₁ lt₂ a b = true) (hbc : lexOr lt₁ lt₂ b c = true) : lexOr lt₁ lt₂ a c = true := by
  simp only [lexOr, Bool.or_eq_true, Bool.and_eq_true, beq_iff_eq] at *
  rcases hab with hab | ⟨e1, hab⟩
  · rcases hbc with hbc | ⟨e2, hbc⟩
    · exact Or.inl (h₁.trans _ _ _ hab hbc)
    · rw [← e2]; exact Or.inl hab
  · rcases hbc with hbc | ⟨e2, hbc⟩
    · rw [e1]; exact Or.inl hbc
    · exact Or.inr ⟨e1.trans e2, h₂.trans _ _ _ hab hbc⟩

/-- Comparison of serialised edge items (`_default_edge_key` on the printed data). -/
def ltE (x y : (Nat × Nat) × (Nat × Nat) × List Val) : Bool := lexOr pairLt Val.ltList x.2 y.2

def serE (e : Nat × Nat × Attrs) : (Nat × Nat) × (Nat × Nat) × List Val :=
  ((e.1, e.2.1), upair e.1 e.2.1, edgeKey e.2.2)

def keyLt (x y : Nat × List Val) : Bool := Val.ltList x.2 y.2

theorem serialise_nodes_eq (g : LGraph) :
    (serialise g).nodes = sortBy keyLt (g.nodes.map fun p => (p.1, nodeKey p.2)) := by
  simp only [serialise]
  exact (sortBy_map (fun p : Nat × Attrs => (p.1, nodeKey p.2)) nodeLt keyLt (fun a b => rfl) g.nodes).symm

theorem serialise_edges_eq (g : LGraph) : (serialise g).edges = sortBy ltE (g.edges.map serE) := by
  simp only [serialise]
  exact (sortBy_map serE edgeLt ltE (fun a b => rfl) g.edges).symm

theorem mem_canonBy_edges_serE (o : List Nat) (g : LGraph) (x) :
    x ∈ (canonBy o g).edges.map serE ↔
      ∃ e ∈ g.edges, x = ((min (pos o e.1) (pos o e.2.1), max (pos o e.1) (pos o e.2.1)),
        (min (pos o e.1) (pos o e.2.1), max (pos o e.1) (pos o e.2.1)), edgeKey e.2.2) := by
  constructor
  · intro hx
    obtain ⟨e', he', rfl⟩ := List.mem_map.1 hx
    have := (canonBy_edges_perm o g).mem_iff.1 he'
    obtain ⟨e, he, rfl⟩ := List.mem_map.1 this
    refine ⟨e, he, ?_⟩
    simp only [serE, upair, Prod.mk.injEq, true_and, and_true]
    omega
  · rintro ⟨e, he, rfl⟩
    refine List.mem_map.2 ⟨(min (pos o e.1) (pos o e.2.1), max (pos o e.1) (pos o e.2.1), e.2.2), ?_, ?_⟩
    · exact (canonBy_edges_perm o g).mem_iff.2 (List.mem_map.2 ⟨e, he, rfl⟩)
    · simp only [serE, upair, Prod.mk.injEq, true_and, and_true]
      omega

theorem canonBy_serE_nodup (o : List Nat) (g : LGraph) (hw : g.WF) (hp : o.Perm g.ids) :
    (((canonBy o g).edges.map serE).map (·.2.1)).Nodup := by
  have := (canonBy_wf o g hw hp).2.2
  simpa [List.map_map, Function.comp_def, serE, upair] using this


theorem isoCov_inj (G H : LGraph) (hG : G.WF) (g : Nat → Nat) (h : IsoCov G H g) :
    ∀ a ∈ H.ids, ∀ b ∈ H.ids, g a = g b → a = b :=
  List.inj_on_of_nodup_map (h.perm.nodup_iff.2 hG.1)

theorem serialise_canonBy_congr (G H : LGraph) (hG : G.WF) (hH : H.WF) (g : Nat → Nat)
    (h : IsoCov G H g) (o₂ : List Nat) (hp₂ : o₂.Perm H.ids) :
    serialise (canonBy (o₂.map g) G) = serialise (canonBy o₂ H) := by
  have hinjH := isoCov_inj G H hG g h
  have hinj : ∀ a ∈ o₂, ∀ b ∈ o₂, g a = g b → a = b :=
    fun a ha b hb => hinjH a (hp₂.mem_iff.1 ha) b (hp₂.mem_iff.1 hb)
  have hp₁ : (o₂.map g).Perm G.ids := (hp₂.map g).trans h.perm
  have hpos : ∀ p ∈ H.ids, pos (o₂.map g) (g p) = pos o₂ p :=
    fun p hp => pos_map o₂ g hinj p (hp₂.mem_iff.2 hp)
  have hnodes : (serialise (canonBy (o₂.map g) G)).nodes = (serialise (canonBy o₂ H)).nodes := by
    rw [serialise_nodes_eq, serialise_nodes_eq]
    congr 1
    simp only [canonBy, List.map_map]
    apply List.map_congr_left
    intro p hp
    have hpH : p ∈ H.ids := hp₂.mem_iff.1 hp
    simp only [Function.comp_def]
    rw [hpos p hpH, h.node p hpH]
  have hedges : (serialise (canonBy (o₂.map g) G)).edges = (serialise (canonBy o₂ H)).edges := by
    rw [serialise_edges_eq, serialise_edges_eq]
    have ndA := canonBy_serE_nodup (o₂.map g) G hG hp₁
    have ndB := canonBy_serE_nodup o₂ H hH hp₂
    have hperm : ((canonBy (o₂.map g) G).edges.map serE).Perm ((canonBy o₂ H).edges.map serE) := by
      rw [List.perm_ext_iff_of_nodup (List.Nodup.of_map _ ndA) (List.Nodup.of_map _ ndB)]
      intro x
      rw [mem_canonBy_edges_serE, mem_canonBy_edges_serE]
      constructor
      · rintro ⟨e, he, rfl⟩
        have hends := hG.2.1 e he
        obtain ⟨p, hp, hpe⟩ := List.mem_map.1 (h.perm.mem_iff.2 hends.1)
        obtain ⟨q, hq, hqe⟩ := List.mem_map.1 (h.perm.mem_iff.2 hends.2.1)
        have hGe : G.edge? (g p) (g q) = some e.2.2 :=
          (edge?_eq_some_iff G hG _ _ _).2 ⟨e, he, Or.inl ⟨hpe.symm, hqe.symm⟩, rfl⟩
        have hk := h.edge p hp q hq
        rw [hGe] at hk
        simp only [Option.map_some] at hk
        have hk' := hk.symm
        simp only [Option.map_eq_some_iff] at hk'
        obtain ⟨a', ha', hak⟩ := hk'
        obtain ⟨e₂, he₂, hm, rfl⟩ := edgeRel_of_edge? H p q a' ha'
        refine ⟨e₂, he₂, ?_⟩
        rw [← hpe, ← hqe, hpos p hp, hpos q hq, ← hak]
        rcases hm with ⟨rfl, rfl⟩ | ⟨rfl, rfl⟩
        · rfl
        · simp only [Prod.mk.injEq, and_true]
          omega
      · rintro ⟨e₂, he₂, rfl⟩
        have hends := hH.2.1 e₂ he₂
        have hHe : H.edge? e₂.1 e₂.2.1 = some e₂.2.2 :=
          (edge?_eq_some_iff H hH _ _ _).2 ⟨e₂, he₂, Or.inl ⟨rfl, rfl⟩, rfl⟩
        have hk := h.edge _ hends.1 _ hends.2.1
        rw [hHe] at hk
        simp only [Option.map_some, Option.map_eq_some_iff] at hk
        obtain ⟨a', ha', hak⟩ := hk
        obtain ⟨e, he, hm, rfl⟩ := edgeRel_of_edge? G _ _ a' ha'
        refine ⟨e, he, ?_⟩
        rw [← hpos _ hends.1, ← hpos _ hends.2.1, ← hak]
        rcases hm with ⟨e1, e2⟩ | ⟨e1, e2⟩
        · rw [e1, e2]
        · rw [e1, e2]
          simp only [Prod.mk.injEq, and_true]
          omega
    apply sortBy_eq_of_perm ltE
    · intro a; exact lexOr_irrefl pairLt Val.ltList pairLt_strictTotal Val.ltList_strictTotal a.2
    · intro a b c; exact lexOr_trans pairLt Val.ltList pairLt_strictTotal Val.ltList_strictTotal a.2 b.2 c.2
    · exact hperm
    · intro a ha b hb
      by_cases hab : a.2.1 = b.2.1
      · left; exact List.inj_on_of_nodup_map ndA ha hb hab
      · right
        rcases pairLt_strictTotal.total a.2.1 b.2.1 with h1 | h1 | h1
        · left; simp [ltE, lexOr, h1]
        · exact absurd h1 hab
        · right; simp [ltE, lexOr, h1]
  have : ∀ a b : Ser, a.nodes = b.nodes → a.edges = b.edges → a = b := by
    intro a b h1 h2; cases a; cases b; simp_all
  exact this _ _ hnodes hedges


/-! ### The brute-force form is invariant -/

theorem exists_perm_map (f : Nat → Nat) : ∀ (l₁ l₂ : List Nat), l₁.Perm (l₂.map f) →
    ∃ l₂' : List Nat, l₂'.Perm l₂ ∧ l₁ = l₂'.map f := by
  intro l₁
  induction l₁ with
  | nil =>
    intro l₂ h
    have : l₂ = [] := by
      have := h.length_eq; simp at this
      exact List.eq_nil_of_length_eq_zero this.symm
    subst this
    exact ⟨[], List.Perm.refl _, rfl⟩
  | cons a t ih =>
    intro l₂ h
    have ha : a ∈ l₂.map f := h.mem_iff.1 List.mem_cons_self
    obtain ⟨x, hx, rfl⟩ := List.mem_map.1 ha
    have h2 : l₂.Perm (x :: l₂.erase x) := List.perm_cons_erase hx
    have h3 : (f x :: t).Perm (f x :: (l₂.erase x).map f) := h.trans (h2.map f)
    obtain ⟨l', hl', rfl⟩ := ih (l₂.erase x) h3.cons_inv
    exact ⟨x :: l', (List.Perm.cons x hl').trans h2.symm, rfl⟩

theorem bruteOrder_perm (g : LGraph) : (bruteOrder g).Perm g.ids := by
  have := minBy_mem (fun o₁ o₂ => Ser.lt (serialise (canonBy o₁ g)) (serialise (canonBy o₂ g))) g.ids (perms g.ids)
  rcases List.mem_cons.1 this with h | h
  · unfold bruteOrder; rw [h]
  · exact (mem_perms _ _).1 h

theorem mem_cands (l o : List Nat) : o ∈ l :: perms l ↔ o.Perm l := by
  rw [List.mem_cons, mem_perms]
  constructor
  · rintro (rfl | h)
    · exact List.Perm.refl _
    · exact h
  · exact Or.inr

theorem sigBrute_invariant (G H : LGraph) (hG : G.WF) (hH : H.WF) (g : Nat → Nat) (h : IsoCov G H g) :
    sigBrute G = sigBrute H := by
  unfold sigBrute canonBrute bruteOrder
  apply minBy_key_congr Ser.lt Ser.lt_strictTotal (fun o => serialise (canonBy o G)) (fun o => serialise (canonBy o H))
  intro k
  constructor
  · rintro ⟨o, ho, rfl⟩
    have hoP : o.Perm G.ids := (mem_cands _ _).1 ho
    obtain ⟨o', ho', rfl⟩ := exists_perm_map g o H.ids (hoP.trans h.perm.symm)
    exact ⟨o', (mem_cands _ _).2 ho', (serialise_canonBy_congr G H hG hH g h o' ho').symm⟩
  · rintro ⟨o', ho', rfl⟩
    have hoP : o'.Perm H.ids := (mem_cands _ _).1 ho'
    exact ⟨o'.map g, (mem_cands _ _).2 ((hoP.map g).trans h.perm), serialise_canonBy_congr G H hG hH g h o' hoP⟩


/-! ### Composition; a canonical graph is isomorphic to its input -/

theorem IsoCov.trans {A B C : LGraph} {f g : Nat → Nat} (h₁ : IsoCov A B f) (h₂ : IsoCov B C g) :
    IsoCov A C (f ∘ g) := by
  have hmem : ∀ p ∈ C.ids, g p ∈ B.ids := fun p hp => h₂.perm.mem_iff.1 (List.mem_map.2 ⟨p, hp, rfl⟩)
  refine ⟨?_, ?_, ?_⟩
  · rw [← List.map_map]; exact (h₂.perm.map f).trans h₁.perm
  · intro p hp
    simp only [Function.comp_def]
    rw [h₁.node _ (hmem p hp), h₂.node p hp]
  · intro p hp q hq
    simp only [Function.comp_def]
    rw [h₁.edge _ (hmem p hp) _ (hmem q hq), h₂.edge p hp q hq]

theorem isoCov_canonBy_left (o : List Nat) (G : LGraph) (hw : G.WF) (hp : o.Perm G.ids) :
    IsoCov (canonBy o G) G (pos o) := by
  have hn : o.Nodup := hp.nodup_iff.2 hw.1
  refine ⟨?_, ?_, ?_⟩
  · rw [canonBy_ids']; exact (hp.symm).map _
  · intro p hpG
    rw [canonBy_attrs o G hn p (hp.mem_iff.2 hpG)]
  · intro p hpG q hqG
    rw [canonBy_edge? o G hw hp p q (hp.mem_iff.2 hpG) (hp.mem_iff.2 hqG)]

/-- Inverse of `pos o`. -/
def unpos (o : List Nat) (i : Nat) : Nat := o.getD (i - 1) 0

theorem unpos_pos (o : List Nat) (v : Nat) (hv : v ∈ o) : unpos o (pos o v) = v := by
  unfold unpos pos
  have hi : o.idxOf v < o.length := List.idxOf_lt_length_of_mem hv
  simp only [Nat.add_sub_cancel]
  rw [List.getD_eq_getElem?_getD, List.getElem?_eq_getElem hi, Option.getD_some]
  exact List.getElem_idxOf hi

theorem isoCov_canonBy_right (o : List Nat) (G : LGraph) (hw : G.WF) (hp : o.Perm G.ids) :
    IsoCov G (canonBy o G) (unpos o) := by
  have hn : o.Nodup := hp.nodup_iff.2 hw.1
  have hmem : ∀ i ∈ (canonBy o G).ids, ∃ v ∈ o, i = pos o v := by
    intro i hi
    rw [canonBy_ids'] at hi
    obtain ⟨v, hv, rfl⟩ := List.mem_map.1 hi
    exact ⟨v, hv, rfl⟩
  refine ⟨?_, ?_, ?_⟩
  · rw [canonBy_ids', List.map_map]
    have : o.map (unpos o ∘ pos o) = o := by
      conv_rhs => rw [← List.map_id o]
      apply List.map_congr_left
      intro v hv; exact unpos_pos o v hv
    rw [this]; exact hp
  · intro i hi
    obtain ⟨v, hv, rfl⟩ := hmem i hi
    rw [unpos_pos o v hv, canonBy_attrs o G hn v hv]
  · intro i hi j hj
    obtain ⟨u, hu, rfl⟩ := hmem i hi
    obtain ⟨v, hv, rfl⟩ := hmem j hj
    rw [unpos_pos o u hu, unpos_pos o v hv, canonBy_edge? o G hw hp u v hu hv]

theorem cov_wf (H : LGraph) (hH : H.WF) : (cov H).WF := by
  obtain ⟨h1, h2, h3⟩ := hH
  refine ⟨by rw [cov_ids]; exact h1, ?_, ?_⟩
  · intro e he
    obtain ⟨e0, he0, rfl⟩ := List.mem_map.1 he
    rw [cov_ids]; exact h2 e0 he0
  · simpa [cov, List.map_map, Function.comp_def] using h3


/-! ### The executable faithfulness check -/

theorem perm_of_nodup_len_all (xs ys : List Nat) (hx : xs.Nodup) (hlen : xs.length = ys.length)
    (hall : ∀ v ∈ xs, v ∈ ys) : xs.Perm ys :=
  (List.subperm_of_subset hx hall).perm_of_length_le (by omega)

theorem isPermOfRange_iff (xs : List Nat) (n : Nat) :
    isPermOfRange xs n = true ↔ xs.Perm (List.range' 1 n) := by
  unfold isPermOfRange
  simp only [Bool.and_eq_true, beq_iff_eq, List.all_eq_true, List.contains_iff_mem]
  constructor
  · rintro ⟨hl, hall⟩
    exact (perm_of_nodup_len_all _ _ List.nodup_range' (by simp [hl]) hall).symm
  · intro h
    refine ⟨by simpa using h.length_eq, fun i hi => h.mem_iff.2 hi⟩

theorem check_ok_iff_bools (G H : LGraph) (m : Mapping) :
    checkRelabelling G H m = "ok" ↔
      (m.map (·.1) = G.ids ∧ isPermOfRange (m.map (·.2)) G.nodes.length = true ∧ H.WF ∧
       (H.ids.length == m.length && H.ids.all (fun v => (m.map (·.2)).contains v)) = true ∧
       (m.all fun p => decide (H.attrs p.2 = G.attrs p.1)) = true ∧
       (m.all fun p => m.all fun q => decide (H.edge? p.2 q.2 = G.edge? p.1 q.1)) = true) := by
  unfold checkRelabelling
  split
  · simp_all
  split
  · simp_all
  split
  · simp_all
  split
  · rename_i h
    constructor
    · intro e; exact absurd e (by decide)
    · intro hh; simp only [hh.2.2.2.1, Bool.not_true] at h; exact absurd h (by decide)
  split
  · rename_i h
    constructor
    · intro e; exact absurd e (by decide)
    · intro hh; simp only [hh.2.2.2.2.1, Bool.not_true] at h; exact absurd h (by decide)
  split
  · rename_i h
    constructor
    · intro e; exact absurd e (by decide)
    · intro hh; simp only [hh.2.2.2.2.2, Bool.not_true] at h; exact absurd h (by decide)
  · rename_i h1 h2 h3 h4 h5 h6
    simp only [Bool.not_eq_true', Bool.not_eq_false] at h2 h4 h5 h6
    simp only [ne_eq, Decidable.not_not] at h1
    simp only [Bool.not_eq_true, Bool.decide_eq_false, Bool.not_eq_eq_eq_not, Bool.not_true, decide_eq_false_iff_not, Decidable.not_not] at h3
    exact ⟨fun _ => ⟨h1, h2, h3, h4, h5, h6⟩, fun _ => rfl⟩

/-- The driver's `spec.isRelabelling` answers "ok" exactly when `IsRelabelling` holds. -/
theorem checkRelabelling_ok_iff (G H : LGraph) (m : Mapping) :
    checkRelabelling G H m = "ok" ↔ IsRelabelling G H m := by
  rw [check_ok_iff_bools]
  unfold IsRelabelling
  constructor
  · rintro ⟨h1, h2, h3, h4, h5, h6⟩
    refine ⟨h1, (isPermOfRange_iff _ _).1 h2, h3, ?_, by simpa using h5, by simpa using h6⟩
    simp only [Bool.and_eq_true, beq_iff_eq, List.all_eq_true, List.contains_iff_mem] at h4
    exact perm_of_nodup_len_all _ _ h3.1 (by simp [h4.1]) h4.2
  · rintro ⟨h1, h2, h3, h4, h5, h6⟩
    refine ⟨h1, (isPermOfRange_iff _ _).2 h2, h3, ?_, by simpa using h5, by simpa using h6⟩
    simp only [Bool.and_eq_true, beq_iff_eq, List.all_eq_true, List.contains_iff_mem]
    exact ⟨by simpa using h4.length_eq, fun v hv => h4.mem_iff.1 hv⟩


end SynKit.Canon

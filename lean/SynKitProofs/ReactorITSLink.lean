import SynKitProofs.ReactorLink
import SynKitProofs.ITSLemmas
import SynKitProofs.Props.C01
import SynKitProofs.Props.C02
import SynKitProofs.SubgraphSearchLemmas
/-!
# Linking the ITS family (C01/C02: `ITS.construct`, `ITS.getRc`) to the reactor family (C03/C04)

Helper lemmas only; the property-level corollaries live in `Props/C04.lean` (last section).

* §1 `getRc_wf`: the reaction centre of a simple graph is a simple graph;
* §2 `ReactionOf G I`, `StrongLab G I`, `SubITS T I` and `ownTemplate_of_sub`: what
  `ReactorLink.OwnTemplate G I T` needs, split into a part about the reaction `I` of the reactant graph
  `G` and a part about the template `T` as a sub-ITS of `I`;
* §3 `RxnPairW G H` / `RxnPair G H`: a balanced pair of molecule graphs on a shared atom set (the
  hypotheses on `(G, H)` only; `RxnPair` adds "no atom changes its aromatic flag or `neighbors` entry");
  `construct o G H` is a `ReactionOf G`, with `StrongLab` under `RxnPair`;
* §4 the full ITS and its centre are `SubITS` of the full ITS; `CentreCovers` gives `RcComplete` for
  the centre;
* §5 `_invert_template` of a `SubITS` of `construct o G H` is a `SubITS` of `construct o H G`
  (backward direction);
* §6 connected components of the prepared pattern of the full ITS; when the component-aware search
  returns a given match (`mem_findComp_of_mono`);
* §7 `coreProj`, `ItsCoreEquiv`, `fixI`: comparison of reactions up to the product-side aromatic flag
  and `neighbors` entry, which `_node_glue` cannot reproduce (closes gap (i) of
  `glue_own_template_partial` for that comparison).
-/

/-! ## §1 the reaction centre of a simple graph is a simple graph -/
namespace SynKit.ITS
open SynKit

/-- Every edge joins two distinct present nodes. -/
def EndsIn (rc : LGraph) : Prop := ∀ e ∈ rc.edges, e.1 ∈ rc.ids ∧ e.2.1 ∈ rc.ids ∧ e.1 ≠ e.2.1

def ekey (e : Nat × Nat × Attrs) : Nat × Nat := (min e.1 e.2.1, max e.1 e.2.1)

theorem ensureNode_ids_nodup (keys : List String) (I rc : LGraph) (n : Nat) (h : rc.ids.Nodup) :
    (ensureNode keys I rc n).ids.Nodup := by
  unfold ensureNode
  split
  · exact h
  · next hn =>
    have hn' : n ∉ rc.ids := fun hm => hn ((hasNode_iff rc n).2 hm)
    show (List.map (·.1) (rc.nodes ++ [(n, proj keys (I.attrs n))])).Nodup
    rw [List.map_append, List.nodup_append]
    refine ⟨h, by simp, ?_⟩
    intro a ha b hb hab
    simp only [List.map_cons, List.map_nil, List.mem_singleton] at hb
    subst hab; subst hb; exact hn' ha

theorem ensureNodeHH_ids_nodup (keys : List String) (I rc : LGraph) (n : Nat) (h : rc.ids.Nodup) :
    (ensureNodeHH keys I rc n).ids.Nodup := by
  unfold ensureNodeHH
  split
  · exact h
  · next hn =>
    have hn' : n ∉ rc.ids := fun hm => hn ((hasNode_iff rc n).2 hm)
    show (List.map (·.1) (rc.nodes ++ [(n, hhLabel keys (I.attrs n))])).Nodup
    rw [List.map_append, List.nodup_append]
    refine ⟨h, by simp, ?_⟩
    intro a ha b hb hab
    simp only [List.map_cons, List.map_nil, List.mem_singleton] at hb
    subst hab; subst hb; exact hn' ha

theorem changedStep_inv (o : RcOpts) (I rc : LGraph) (e : Nat × Nat × Attrs) (hne : e.1 ≠ e.2.1)
    (h : rc.ids.Nodup ∧ EndsIn rc) : (changedStep o I rc e).ids.Nodup ∧ EndsIn (changedStep o I rc e) := by
  unfold changedStep
  split
  · refine ⟨?_, ?_⟩
    · rw [pushEdge_ids]
      exact ensureNode_ids_nodup _ _ _ _ (ensureNode_ids_nodup _ _ _ _ h.1)
    · intro x hx
      rw [pushEdge_ids]
      simp only [mem_ids_ensureNode]
      unfold pushEdge at hx
      simp only [ensureNode_edges, List.mem_append, List.mem_singleton] at hx
      rcases hx with hx | rfl
      · obtain ⟨a, b, c⟩ := h.2 x hx
        exact ⟨Or.inl (Or.inl a), Or.inl (Or.inl b), c⟩
      · exact ⟨Or.inl (Or.inr rfl), Or.inr rfl, hne⟩
  · exact h

theorem hhStep_inv (o : RcOpts) (I rc : LGraph) (e : Nat × Nat × Attrs) (hne : e.1 ≠ e.2.1)
    (h : rc.ids.Nodup ∧ EndsIn rc) : (hhStep o I rc e).ids.Nodup ∧ EndsIn (hhStep o I rc e) := by
  unfold hhStep
  split
  · simp only
    have hn : (ensureNodeHH o.elementKey I (ensureNodeHH o.elementKey I rc e.1) e.2.1).ids.Nodup :=
      ensureNodeHH_ids_nodup _ _ _ _ (ensureNodeHH_ids_nodup _ _ _ _ h.1)
    have hold : ∀ x ∈ rc.edges,
        x.1 ∈ (ensureNodeHH o.elementKey I (ensureNodeHH o.elementKey I rc e.1) e.2.1).ids ∧
        x.2.1 ∈ (ensureNodeHH o.elementKey I (ensureNodeHH o.elementKey I rc e.1) e.2.1).ids ∧ x.1 ≠ x.2.1 := by
      intro x hx
      simp only [mem_ids_ensureNodeHH]
      obtain ⟨a, b, c⟩ := h.2 x hx
      exact ⟨Or.inl (Or.inl a), Or.inl (Or.inl b), c⟩
    split
    · refine ⟨hn, ?_⟩
      intro x hx
      simp only [ensureNodeHH_edges] at hx
      exact hold x hx
    · refine ⟨by rw [pushEdge_ids]; exact hn, ?_⟩
      intro x hx
      rw [pushEdge_ids]
      unfold pushEdge at hx
      simp only [ensureNodeHH_edges, List.mem_append, List.mem_singleton] at hx
      rcases hx with hx | rfl
      · exact hold x hx
      · exact ⟨(mem_ids_ensureNodeHH _ _ _ _ _).2 (Or.inl ((mem_ids_ensureNodeHH _ _ _ _ _).2 (Or.inr rfl))),
          (mem_ids_ensureNodeHH _ _ _ _ _).2 (Or.inr rfl), hne⟩
  · exact h

theorem changedStep_edges (o : RcOpts) (I rc : LGraph) (e : Nat × Nat × Attrs) :
    (changedStep o I rc e).edges = rc.edges ++ (if includeEdge o e.2.2 then [mkE o e] else []) := by
  unfold changedStep
  split
  · next h => simp [pushEdge, ensureNode_edges, mkE]
  · next h => simp

theorem addChanged_edges_aux (o : RcOpts) (I : LGraph) (es : List (Nat × Nat × Attrs)) (rc : LGraph) :
    (es.foldl (changedStep o I) rc).edges = rc.edges ++ (es.filter fun e => includeEdge o e.2.2).map (mkE o) := by
  induction es generalizing rc with
  | nil => simp
  | cons e es ih =>
    rw [List.foldl_cons, ih, changedStep_edges, List.filter_cons]
    cases includeEdge o e.2.2 <;> simp

theorem ekey_mkE (o : RcOpts) (e : Nat × Nat × Attrs) : ekey (mkE o e) = ekey e := rfl

theorem hasEdge_false_key {rc : LGraph} {u v : Nat} (h : rc.hasEdge u v = false) :
    (min u v, max u v) ∉ rc.edges.map ekey := by
  intro hm
  obtain ⟨x, hx, hk⟩ := List.mem_map.1 hm
  have hadj : Adj x u v := by
    unfold ekey at hk
    rcases (C01L.norm_eq_iff _ _ _ _).1 hk with h1 | h1
    · exact Or.inl h1
    · exact Or.inr h1
  have := (hasEdge_iff rc u v).2 ⟨x, hx, hadj⟩
  rw [h] at this; cases this

theorem hhStep_keys (o : RcOpts) (I rc : LGraph) (e : Nat × Nat × Attrs) (h : (rc.edges.map ekey).Nodup) :
    ((hhStep o I rc e).edges.map ekey).Nodup := by
  unfold hhStep
  split
  · simp only
    split
    · simpa only [ensureNodeHH_edges] using h
    · next hno =>
      have hno' : rc.hasEdge e.1 e.2.1 = false := by
        have := hasEdge_congr (a := ensureNodeHH o.elementKey I (ensureNodeHH o.elementKey I rc e.1) e.2.1) (b := rc)
          (by rw [ensureNodeHH_edges, ensureNodeHH_edges]) e.1 e.2.1
        rw [← this]; simpa using hno
      unfold pushEdge
      simp only [ensureNodeHH_edges, List.map_append, List.map_cons, List.map_nil]
      rw [List.nodup_append]
      refine ⟨h, by simp, ?_⟩
      intro a ha b hb hab
      simp only [List.mem_singleton] at hb
      subst hab; subst hb
      exact hasEdge_false_key hno' ha
  · exact h

/-- **The reaction centre of a simple graph is a simple graph** (default options). -/
theorem getRc_wf (I : LGraph) (hI : I.WF) : (getRc {} I).WF := by
  have hne : ∀ e ∈ I.edges, e.1 ≠ e.2.1 := fun e he => (hI.2.1 e he).2.2
  -- the pass over the changed bonds
  have h1 : (addChanged {} I {}).ids.Nodup ∧ EndsIn (addChanged {} I {}) := by
    unfold addChanged
    apply foldl_inv (changedStep {} I) (fun rc => rc.ids.Nodup ∧ EndsIn rc)
    · intro rc e he h; exact changedStep_inv {} I rc e (hne e he) h
    · exact ⟨by simp [LGraph.ids], fun e he => by cases he⟩
  have h1k : ((addChanged {} I {}).edges.map ekey).Nodup := by
    unfold addChanged
    rw [addChanged_edges_aux]
    simp only [List.nil_append, List.map_map]
    have : (ekey ∘ mkE {}) = ekey := by funext e; rfl
    rw [this]
    exact List.Nodup.sublist (List.Sublist.map _ List.filter_sublist) hI.2.2
  -- the pass over the H–H bonds
  have h2 : (getRc {} I).ids.Nodup ∧ EndsIn (getRc {} I) := by
    show (addHH {} I (addChanged {} I {})).ids.Nodup ∧ EndsIn (addHH {} I (addChanged {} I {}))
    unfold addHH
    apply foldl_inv (hhStep {} I) (fun rc => rc.ids.Nodup ∧ EndsIn rc)
    · intro rc e he h; exact hhStep_inv {} I rc e (hne e he) h
    · exact h1
  have h2k : ((getRc {} I).edges.map ekey).Nodup := by
    show ((addHH {} I (addChanged {} I {})).edges.map ekey).Nodup
    unfold addHH
    apply foldl_inv (hhStep {} I) (fun rc => (rc.edges.map ekey).Nodup)
    · intro rc e _ h; exact hhStep_keys {} I rc e h
    · exact h1k
  exact ⟨h2.1, h2.2, h2k⟩

end SynKit.ITS

/-! ## §2 what `OwnTemplate` needs, split between the reaction and the template -/
namespace SynKit.ReactorLink
open SynKit SynKit.Match SynKit.Reactor SynKit.ReactorInv

/-- `I` is (the ITS of) a reaction whose reactant graph is `G`: same atoms; every atom labelled with
`G`'s label on the reactant side and, on the product side, the same element, a numeric hydrogen count
and any charge / aromatic flag / `neighbors` entry (`StrongLab` below additionally asks for `G`'s
aromatic flag and `neighbors` entry there — the gap (i) of `glue_own_template_partial`); every bond of `G` is a bond of `I` with
`G`'s order on the reactant side; every bond of `I` either lies on a bond of `G` (reactant order not 0)
or is formed (reactant order 0, product order not 0). -/
structure ReactionOf (G I : LGraph) : Prop where
  hG : WFHost G
  hI : I.WF
  ids : ∀ v, v ∈ I.ids ↔ v ∈ G.ids
  len : I.nodes.length = G.nodes.length
  hnum : ∀ v ∈ G.ids, pyGet (G.attrs v) "hcount" (.num 0) = .num (numOf (pyGet (G.attrs v) "hcount" (.num 0)))
  keys : ∀ v ∈ G.ids, hasKey (G.attrs v) "element" = true ∧ hasKey (G.attrs v) "charge" = true
  lab : ∀ v ∈ G.ids, ∃ hp cp ar nb, Attrs.get (I.attrs v) "typesGH" =
      .tup [gSide (G.attrs v), .tup [pyGet (G.attrs v) "element" (.str "*"), ar, .num hp, cp, nb]]
  ordKey : ∀ e0 ∈ G.edges, hasKey e0.2.2 "order" = true
  gE : ∀ e0 ∈ G.edges, ∃ a y, I.edge? e0.1 e0.2.1 = some a ∧
      Attrs.get a "order" = .tup [pyGet e0.2.2 "order" (.num 2), y]
  iE : ∀ e ∈ I.edges, ∃ x y, Attrs.get e.2.2 "order" = .tup [x, y] ∧
      (G.hasEdge e.1 e.2.1 = true → x ≠ .num 0) ∧ (G.hasEdge e.1 e.2.1 = false → x = .num 0 ∧ y ≠ .num 0)

/-- The product-side label keeps the substrate's aromatic flag and `neighbors` entry (what
`OwnTemplate.lab` asks: `_node_glue` copies both from the substrate). -/
def StrongLab (G I : LGraph) : Prop :=
  ∀ v ∈ G.ids, ∃ hp cp, Attrs.get (I.attrs v) "typesGH" =
      .tup [gSide (G.attrs v),
            .tup [pyGet (G.attrs v) "element" (.str "*"), pyGet (G.attrs v) "aromatic" (.bool false), .num hp, cp,
                  pyGet (G.attrs v) "neighbors" (.tup [])]]

/-- `T` is a template cut out of the reaction `I`: a well-formed template on atoms of `I`, carrying
`I`'s element, hydrogen count and charge on both sides, whose bonds are bonds of `I` with the same
order pair, and which contains every changed bond of `I`. -/
structure SubITS (T I : LGraph) : Prop where
  hT : WFTemplate T
  ids : ∀ v ∈ T.ids, v ∈ I.ids
  lab : ∀ v ∈ T.ids, ∀ s i, (s = 0 ∨ s = 1) → (i = 0 ∨ i = 2 ∨ i = 3) →
      tgField (T.attrs v) s i = tgField (I.attrs v) s i
  edge : ∀ te ∈ T.edges, ∃ a, I.edge? te.1 te.2.1 = some a ∧ Attrs.get a "order" = Attrs.get te.2.2 "order"
  chg : ∀ e ∈ I.edges, ordAt e.2.2 0 ≠ ordAt e.2.2 1 → T.hasEdge e.1 e.2.1 = true

theorem left_attrs_hcount (T : LGraph) (hT : WFTemplate T) (q : Nat) (hq : q ∈ T.ids) :
    Attrs.get ((left T).attrs q) "hcount" = tgField (T.attrs q) 0 2 := by
  have hnodes : (left T).nodes = T.nodes.map (fun p => sideNode p.1 (tupGet (Attrs.get p.2 "typesGH") 0)) := by
    unfold left decompSide
    simp only
    apply filterMap_eq_map_of
    intro p hp; simp [(hT.2.1 p hp).1]
  have : (left T).attrs q = (sideNode q (tupGet (Attrs.get (T.attrs q) "typesGH") 0)).2 := by
    have h1 : left T = ⟨(left T).nodes, (left T).edges⟩ := rfl
    rw [h1, hnodes]
    have := attrs_map_nodes T.nodes (left T).edges T.edges
      (fun p => sideNode p.1 (tupGet (Attrs.get p.2 "typesGH") 0)) (fun p => rfl) q hq
    rw [this]
  rw [this]
  simp [sideNode, get_cons, tgField]

theorem mem_left_edges_inv (T : LGraph) (e : Nat × Nat × Attrs) (he : e ∈ (left T).edges) :
    ∃ te ∈ T.edges, hasKey te.2.2 "order" = true ∧ numOf (ordAt te.2.2 0) > 0 ∧
      e = (te.1, te.2.1, [("order", ordAt te.2.2 0)]) := by
  unfold left decompSide at he
  simp only [List.mem_filterMap] at he
  obtain ⟨te, hte, h⟩ := he
  split at h
  · next hc => exact ⟨te, hte, hc.1, hc.2, (Option.some.inj h).symm⟩
  · cases h

theorem hcountOf_of_pyGet (a : Attrs) (n : Int) (h : pyGet a "hcount" (.num 0) = .num n) : hcountOf a = n := by
  unfold pyGet Dict.getD at h
  unfold hcountOf Attrs.get Dict.getD
  cases hg : Dict.get? a "hcount" with
  | none => rw [hg] at h; simp only [Option.getD_none, Val.num.injEq] at h; simp [h]
  | some x => rw [hg] at h; simp only [Option.getD_some] at h; simp [h]

theorem hasEdge_comm' (g : LGraph) (u v : Nat) : g.hasEdge u v = g.hasEdge v u :=
  ITS.C01L.hasEdge_comm g u v

theorem ordAt_of_order {a : Attrs} {x y : Val} (h : Attrs.get a "order" = .tup [x, y]) :
    ordAt a 0 = x ∧ ordAt a 1 = y := by
  unfold ordAt; rw [h]; exact ⟨rfl, rfl⟩

/-- **`OwnTemplate` from its two halves.** -/
theorem ownTemplate_of_sub (G I T : LGraph) (hR : ReactionOf G I) (hlabS : StrongLab G I) (hS : SubITS T I) :
    OwnTemplate G I T := by
  obtain ⟨hG, hI, hids, hlen, hnum, hkeys, hlab, hordKey, hgE, hiE⟩ := hR
  obtain ⟨hT, hTids, hTlab, hTedge, hTchg⟩ := hS
  have hget : ∀ v ∈ T.ids, (idMap T).get? v = some v := fun v hv => SynKit.ReactorInv.idMap_get? T.ids v hv
  -- labels of `I` read field by field
  have hI00 : ∀ v ∈ G.ids, tgField (I.attrs v) 0 0 = pyGet (G.attrs v) "element" (.str "*") := by
    intro v hv; obtain ⟨hp, cp, ar, nb, hl⟩ := hlab v hv; unfold tgField; rw [hl]; rfl
  have hI02 : ∀ v ∈ G.ids, tgField (I.attrs v) 0 2 = pyGet (G.attrs v) "hcount" (.num 0) := by
    intro v hv; obtain ⟨hp, cp, ar, nb, hl⟩ := hlab v hv; unfold tgField; rw [hl]; rfl
  have hI03 : ∀ v ∈ G.ids, tgField (I.attrs v) 0 3 = pyGet (G.attrs v) "charge" (.num 0) := by
    intro v hv; obtain ⟨hp, cp, ar, nb, hl⟩ := hlab v hv; unfold tgField; rw [hl]; rfl
  -- the bond of `I` on a bond of `G`
  have hIG : ∀ e ∈ I.edges, G.hasEdge e.1 e.2.1 = true → ∃ e0 ∈ G.edges, ∃ y,
      ((e0.1 = e.1 ∧ e0.2.1 = e.2.1) ∨ (e0.1 = e.2.1 ∧ e0.2.1 = e.1)) ∧
      Attrs.get e.2.2 "order" = .tup [pyGet e0.2.2 "order" (.num 2), y] := by
    intro e he hg
    obtain ⟨e0, he0, hend⟩ := hasEdge_mem hg
    obtain ⟨a, y, ha, hord⟩ := hgE e0 he0
    have : I.edge? e0.1 e0.2.1 = some e.2.2 := by
      apply Reactor.edge?_of_mem I hI e he
      rcases hend with ⟨a1, a2⟩ | ⟨a1, a2⟩
      · exact Or.inl ⟨a1.symm, a2.symm⟩
      · exact Or.inr ⟨a2.symm, a1.symm⟩
    rw [this] at ha; cases ha
    exact ⟨e0, he0, y, hend, hord⟩
  refine
    { hG := hG, hT := hT, hI := hI, hid := ?_, ids := hids, len := hlen, hnum := hnum, lab := hlabS,
      tpl := ?_, gEdge := ?_, iEdge := ?_, tEdge := ?_ }
  · -- the identity is a match of the prepared pattern
    refine ⟨?_, ?_, ?_, ?_⟩
    · rw [left_ids T hT]; simp [idMap, List.map_map, Function.comp_def]
    · have : (idMap T).map (·.2) = T.ids := by simp [idMap, List.map_map, Function.comp_def]
      rw [this]; exact hT.1.1
    · intro ph hph
      obtain ⟨v, hv, rfl⟩ := List.mem_map.1 hph
      have hvG : v ∈ G.ids := (hids v).1 (hTids v hv)
      refine ⟨hvG, ?_⟩
      have hl := left_attrs_get T hT v hv
      have hh := left_attrs_hcount T hT v hv
      have e1 : Attrs.get (G.attrs v) "element" = Attrs.get ((left T).attrs v) "element" := by
        rw [hl.1, hTlab v hv 0 0 (Or.inl rfl) (Or.inl rfl), hI00 v hvG, pyGet_of_hasKey _ _ _ (hkeys v hvG).1]
      have e2 : Attrs.get (G.attrs v) "charge" = Attrs.get ((left T).attrs v) "charge" := by
        rw [hl.2, hTlab v hv 0 3 (Or.inl rfl) (Or.inr (Or.inr rfl)), hI03 v hvG, pyGet_of_hasKey _ _ _ (hkeys v hvG).2]
      have e3 : hcountOf ((left T).attrs v) = hcountOf (G.attrs v) := by
        rw [hcountOf_of_pyGet _ _ (hnum v hvG)]
        unfold hcountOf
        rw [hh, hTlab v hv 0 2 (Or.inl rfl) (Or.inr (Or.inl rfl)), hI02 v hvG, hnum v hvG]
        rfl
      simp only [nodeOk, monoSel, List.all_cons, List.all_nil, Bool.and_true, Bool.and_eq_true,
        decide_eq_true_eq, Bool.not_true, Bool.false_or, ge_iff_le]
      exact ⟨⟨e1, e2⟩, le_of_eq e3⟩
    · intro e he
      obtain ⟨te, hte, hkey, hpos, rfl⟩ := mem_left_edges_inv T e he
      obtain ⟨q1, q2, _⟩ := hT.1.2.1 te hte
      obtain ⟨a, ha, hord⟩ := hTedge te hte
      obtain ⟨eI, heI, _, hendI⟩ := Reactor.edge?_some_mem I _ _ a ha
      -- `eI` is the bond of `I` under `te`; its reactant order is positive, so it lies on a bond of `G`
      have haI : eI.2.2 = a := by
        have := Reactor.edge?_of_mem I hI eI heI te.1 te.2.1 hendI
        rw [ha] at this; exact (Option.some.inj this).symm
      obtain ⟨x, y, hxy, hg1, hg0⟩ := hiE eI heI
      have hx : ordAt te.2.2 0 = x := by
        have := (ordAt_of_order hxy).1
        rw [haI] at this
        unfold ordAt at this ⊢
        rw [← hord]; exact this
      have hgE' : G.hasEdge eI.1 eI.2.1 = true := by
        cases hh : G.hasEdge eI.1 eI.2.1 with
        | true => rfl
        | false =>
          exfalso
          have := (hg0 hh).1
          rw [← hx] at this
          rw [this] at hpos
          exact absurd hpos (by decide)
      obtain ⟨e0, he0, y', hend0, hord0⟩ := hIG eI heI hgE'
      have hy : x = pyGet e0.2.2 "order" (.num 2) := by
        rw [hxy] at hord0
        injection hord0 with h1
        injection h1 with h2 _
      have hGe : G.edge? te.1 te.2.1 = some e0.2.2 := by
        apply Reactor.edge?_of_mem G hG.1 e0 he0
        rcases hendI with ⟨a1, a2⟩ | ⟨a1, a2⟩ <;> rcases hend0 with ⟨b1, b2⟩ | ⟨b1, b2⟩
        · exact Or.inl ⟨b1.trans a1, b2.trans a2⟩
        · exact Or.inr ⟨b1.trans a2, b2.trans a1⟩
        · exact Or.inr ⟨b1.trans a1, b2.trans a2⟩
        · exact Or.inl ⟨b1.trans a2, b2.trans a1⟩
      refine ⟨te.1, te.2.1, e0.2.2, hget _ q1, hget _ q2, hGe, ?_⟩
      simp only [edgeOk, monoSel, List.all_cons, List.all_nil, Bool.and_true, decide_eq_true_eq]
      rw [get_cons, if_pos rfl, hx, hy, pyGet_of_hasKey _ _ _ (hordKey e0 he0)]
  · -- hydrogen-count change and product charge
    intro v hv
    unfold hR hL
    rw [hTlab v hv 1 2 (Or.inr rfl) (Or.inr (Or.inl rfl)), hTlab v hv 0 2 (Or.inl rfl) (Or.inr (Or.inl rfl)),
      hTlab v hv 1 3 (Or.inr rfl) (Or.inr (Or.inr rfl))]
    exact ⟨rfl, rfl⟩
  · -- bonds of `G`
    intro e0 he0
    obtain ⟨a, y, ha, hord⟩ := hgE e0 he0
    refine ⟨a, ha, ?_⟩
    intro hno
    obtain ⟨eI, heI, haI, hendI⟩ := Reactor.edge?_some_mem I _ _ a ha
    by_cases hch : ordAt eI.2.2 0 = ordAt eI.2.2 1
    · rw [haI] at hch
      have := ordAt_of_order hord
      rw [this.1, this.2] at hch
      rw [hord, ← hch]
    · exfalso
      obtain ⟨te, hte, hendt⟩ := hasEdge_mem (hTchg eI heI hch)
      obtain ⟨q1, q2, _⟩ := hT.1.2.1 te hte
      have := hno te hte
      have hl : landsOn (idMap T) te e0.1 e0.2.1 = true := by
        rw [landsOn_idMap T te q1 q2]
        rcases hendI with ⟨a1, a2⟩ | ⟨a1, a2⟩ <;> rcases hendt with ⟨b1, b2⟩ | ⟨b1, b2⟩
        · exact Or.inl ⟨b1.trans a1, b2.trans a2⟩
        · exact Or.inr ⟨b1.trans a2, b2.trans a1⟩
        · exact Or.inr ⟨b1.trans a1, b2.trans a2⟩
        · exact Or.inl ⟨b1.trans a2, b2.trans a1⟩
      rw [hl] at this; cases this
  · -- bonds of `I`
    intro e he
    obtain ⟨x, y, hxy, hg1, hg0⟩ := hiE e he
    cases hh : G.hasEdge e.1 e.2.1 with
    | true => exact Or.inl rfl
    | false =>
      right
      apply hTchg e he
      rw [(ordAt_of_order hxy).1, (ordAt_of_order hxy).2, (hg0 hh).1]
      exact fun h => (hg0 hh).2 h.symm
  · -- bonds of `T`
    intro te hte
    obtain ⟨a, ha, hord⟩ := hTedge te hte
    refine ⟨a, ha, hord, ?_⟩
    intro hg
    obtain ⟨eI, heI, haI, hendI⟩ := Reactor.edge?_some_mem I _ _ a ha
    obtain ⟨x, y, hxy, hg1, hg0⟩ := hiE eI heI
    have hgI : G.hasEdge eI.1 eI.2.1 = true := by
      rcases hendI with ⟨a1, a2⟩ | ⟨a1, a2⟩
      · rw [a1, a2]; exact hg
      · rw [a1, a2, hasEdge_comm']; exact hg
    have hx : ordAt te.2.2 0 = x := by
      have := (ordAt_of_order hxy).1
      rw [haI] at this
      unfold ordAt at this ⊢
      rw [← hord]; exact this
    rw [hx]; exact hg1 hgI

/-! ## §3 balanced pairs of molecule graphs; `construct o G H` is a reaction of `G` -/

/-- A balanced mapped reaction at graph level — hypotheses on the two molecule graphs only: both as
`rsmi_to_graph` produces them (`ITS.MolWF`) on the same atoms (`ITS.SameNodes`), no `typesGH` yet, every
atom keeps its element (a string other than the wildcard), hydrogen counts are numbers, every atom
carries a `neighbors` entry. -/
structure RxnPairW (G H : LGraph) : Prop where
  molG : ITS.MolWF G
  molH : ITS.MolWF H
  same : ITS.SameNodes G H
  noTgG : ∀ p ∈ G.nodes, hasKey p.2 "typesGH" = false
  noTgH : ∀ p ∈ H.nodes, hasKey p.2 "typesGH" = false
  elem : ∀ v ∈ G.ids, ∃ s, s ≠ "*" ∧ Dict.get? (G.attrs v) "element" = some (.str s) ∧
      Dict.get? (H.attrs v) "element" = some (.str s)
  hcnt : ∀ v ∈ G.ids, (∃ h, Dict.get? (G.attrs v) "hcount" = some (.num h)) ∧
      ∃ h, Dict.get? (H.attrs v) "hcount" = some (.num h)
  nbKey : ∀ v ∈ G.ids, (∃ nb, Dict.get? (G.attrs v) "neighbors" = some nb) ∧
      ∃ nb, Dict.get? (H.attrs v) "neighbors" = some nb

/-- … in which, moreover, no atom changes its aromatic flag or its `neighbors` entry — gap (i) of
`glue_own_template_partial`: `_node_glue` copies both from the substrate, so the glued ITS carries the
substrate's values on the product side whatever the reaction does. -/
structure RxnPair (G H : LGraph) : Prop extends RxnPairW G H where
  arom : ∀ v ∈ G.ids, Dict.get? (H.attrs v) "aromatic" = Dict.get? (G.attrs v) "aromatic"
  nbrs : ∀ v ∈ G.ids, Dict.get? (H.attrs v) "neighbors" = Dict.get? (G.attrs v) "neighbors"

/-- The reversed reaction is again a balanced pair. -/
theorem RxnPairW.symm {G H : LGraph} (h : RxnPairW G H) : RxnPairW H G where
  molG := h.molH
  molH := h.molG
  same := fun n => (h.same n).symm
  noTgG := h.noTgH
  noTgH := h.noTgG
  elem := fun v hv => by
    obtain ⟨s, a, b, c⟩ := h.elem v ((h.same v).2 hv); exact ⟨s, a, c, b⟩
  hcnt := fun v hv => ((h.hcnt v ((h.same v).2 hv))).symm
  nbKey := fun v hv => ((h.nbKey v ((h.same v).2 hv))).symm

theorem RxnPair.symm {G H : LGraph} (h : RxnPair G H) : RxnPair H G where
  toRxnPairW := h.toRxnPairW.symm
  arom := fun v hv => (h.arom v ((h.same v).2 hv)).symm
  nbrs := fun v hv => (h.nbrs v ((h.same v).2 hv)).symm

theorem orderOf_of_hasEdge (S : LGraph) (hS : ITS.C01L.EdgePos S) (u v : Nat) (h : S.hasEdge u v = true) :
    ∃ n : Int, 0 < n ∧ ITS.orderOf S u v = .num n := by
  unfold LGraph.hasEdge at h
  obtain ⟨a, ha⟩ := Option.isSome_iff_exists.1 h
  obtain ⟨e, he, hattr, _⟩ := Reactor.edge?_some_mem S u v a ha
  obtain ⟨n, hn, hord⟩ := hS e he
  refine ⟨n, hn, ?_⟩
  unfold ITS.orderOf
  rw [ha]
  simp only
  rw [← hattr, hord]; rfl

theorem orderOf_of_not_hasEdge (S : LGraph) (u v : Nat) (h : S.hasEdge u v = false) : ITS.orderOf S u v = .num 0 := by
  unfold LGraph.hasEdge at h
  unfold ITS.orderOf
  cases hs : S.edge? u v with
  | none => rfl
  | some a => rw [hs] at h; cases h

theorem hasKey_of_get? {a : Attrs} {k : String} {v : Val} (h : Dict.get? a k = some v) : hasKey a k = true := by
  unfold hasKey; rw [h]; rfl

theorem pyGet_of_get? {a : Attrs} {k : String} {v d : Val} (h : Dict.get? a k = some v) : pyGet a k d = v := by
  unfold pyGet Dict.getD; rw [h]; rfl

theorem get_of_get? {a : Attrs} {k : String} {v : Val} (h : Dict.get? a k = some v) : Attrs.get a k = v := by
  unfold Attrs.get Dict.getD; rw [h]; rfl

theorem molWF_attr {G : LGraph} (hG : ITS.MolWF G) (v : Nat) (hv : v ∈ G.ids) (k : String)
    (hk : k ∈ ["element", "aromatic", "hcount", "charge"]) : ∃ x, Dict.get? (G.attrs v) k = some x :=
  Option.isSome_iff_exists.1 ((hG.2.1 (v, G.attrs v) (attrs_mem G v hv)).1 k hk)

theorem molWF_wfHost {G : LGraph} (hG : ITS.MolWF G) (hno : ∀ p ∈ G.nodes, hasKey p.2 "typesGH" = false) : WFHost G := by
  refine ⟨hG.1, hno, ?_⟩
  intro e he
  obtain ⟨n, hn, hord⟩ := hG.2.2 e he
  rw [pyGet_of_get? hord]; exact hn

/-- The explicit label pair `construct` writes on an atom of a balanced pair. -/
theorem construct_label (o : ITS.Opts) {G H : LGraph} (hp : RxnPairW G H) (v : Nat) (hv : v ∈ G.ids) :
    ∃ (s : String) (arG arH : Val) (hg hh : Int) (cg ch nbG nbH : Val), s ≠ "*" ∧
      Dict.get? (G.attrs v) "element" = some (.str s) ∧ Dict.get? (G.attrs v) "aromatic" = some arG ∧
      Dict.get? (G.attrs v) "hcount" = some (.num hg) ∧ Dict.get? (G.attrs v) "charge" = some cg ∧
      Dict.get? (G.attrs v) "neighbors" = some nbG ∧
      Dict.get? (H.attrs v) "element" = some (.str s) ∧ Dict.get? (H.attrs v) "aromatic" = some arH ∧
      Dict.get? (H.attrs v) "hcount" = some (.num hh) ∧ Dict.get? (H.attrs v) "charge" = some ch ∧
      Dict.get? (H.attrs v) "neighbors" = some nbH ∧
      Attrs.get ((ITS.construct o G H).attrs v) "typesGH" =
        .tup [.tup [.str s, arG, .num hg, cg, nbG], .tup [.str s, arH, .num hh, ch, nbH]] := by
  have hvH : v ∈ H.ids := (hp.same v).1 hv
  obtain ⟨s, hs, eG, eH⟩ := hp.elem v hv
  obtain ⟨⟨hg, hgG⟩, ⟨hh, hhH⟩⟩ := hp.hcnt v hv
  obtain ⟨⟨nbG, nG⟩, ⟨nbH, nH⟩⟩ := hp.nbKey v hv
  obtain ⟨arG, aG⟩ := molWF_attr hp.molG v hv "aromatic" (by decide)
  obtain ⟨arH, aH⟩ := molWF_attr hp.molH v hvH "aromatic" (by decide)
  obtain ⟨cg, cG⟩ := molWF_attr hp.molG v hv "charge" (by decide)
  obtain ⟨ch, cH⟩ := molWF_attr hp.molH v hvH "charge" (by decide)
  refine ⟨s, arG, arH, hg, hh, cg, ch, nbG, nbH, hs, eG, aG, hgG, cG, nG, eH, aH, hhH, cH, nH, ?_⟩
  rw [ITS.construct_typesGH o G H v ((ITS.construct_nodes o G H v).2 (Or.inl hv))]
  simp [ITS.sideTuple, ITS.typesKeys, eG, aG, hgG, cG, nG, eH, aH, hhH, cH, nH]

theorem construct_order_of_mem (o : ITS.Opts) (G H : LGraph) (hG : G.WF) (hH : H.WF) (e : Nat × Nat × Attrs)
    (he : e ∈ (ITS.construct o G H).edges) :
    (G.hasEdge e.1 e.2.1 || H.hasEdge e.1 e.2.1) = true ∧
      e.2.2 = ITS.itsEdgeAttrs o.ignoreArom (ITS.orderOf G e.1 e.2.1) (ITS.orderOf H e.1 e.2.1) := by
  have h1 := Reactor.edge?_of_mem _ (ITS.construct_wf o G H hG hH) e he e.1 e.2.1 (Or.inl ⟨rfl, rfl⟩)
  rw [ITS.construct_edges] at h1
  split at h1
  · next hc => exact ⟨hc, (Option.some.inj h1).symm⟩
  · cases h1

/-- **`construct o G H` is a reaction of `G`** (in the sense `OwnTemplate` needs). -/
theorem reactionOf_construct (o : ITS.Opts) {G H : LGraph} (hp : RxnPairW G H) :
    ReactionOf G (ITS.construct o G H) := by
  have hGwf := hp.molG.1
  have hHwf := hp.molH.1
  have hIwf := ITS.construct_wf o G H hGwf hHwf
  have hids : ∀ v, v ∈ (ITS.construct o G H).ids ↔ v ∈ G.ids := by
    intro v
    rw [ITS.construct_nodes]
    exact ⟨fun h => h.elim id (hp.same v).2, Or.inl⟩
  refine
    { hG := molWF_wfHost hp.molG hp.noTgG, hI := hIwf, ids := hids, len := ?_, hnum := ?_, keys := ?_,
      lab := ?_, ordKey := ?_, gE := ?_, iE := ?_ }
  · have hperm : (ITS.construct o G H).ids.Perm G.ids :=
      (List.perm_ext_iff_of_nodup hIwf.1 hGwf.1).2 hids
    have := hperm.length_eq
    simpa [LGraph.ids] using this
  · intro v hv
    obtain ⟨⟨hg, hgG⟩, _⟩ := hp.hcnt v hv
    rw [pyGet_of_get? hgG]; rfl
  · intro v hv
    obtain ⟨x, hx⟩ := molWF_attr hp.molG v hv "element" (by decide)
    obtain ⟨y, hy⟩ := molWF_attr hp.molG v hv "charge" (by decide)
    exact ⟨hasKey_of_get? hx, hasKey_of_get? hy⟩
  · intro v hv
    obtain ⟨s, arG, arH, hg, hh, cg, ch, nbG, nbH, _, eG, aG, hgG, cG, nG, _, _, _, _, _, hl⟩ :=
      construct_label o hp v hv
    refine ⟨hh, ch, arH, nbH, ?_⟩
    rw [hl]
    unfold gSide
    rw [pyGet_of_get? eG, pyGet_of_get? aG, pyGet_of_get? hgG, pyGet_of_get? cG, pyGet_of_get? nG]
  · intro e0 he0
    obtain ⟨n, _, hord⟩ := hp.molG.2.2 e0 he0
    exact hasKey_of_get? hord
  · intro e0 he0
    have hg : G.hasEdge e0.1 e0.2.1 = true := ITS.C01L.hasEdge_of_mem G e0 he0
    refine ⟨ITS.itsEdgeAttrs o.ignoreArom (ITS.orderOf G e0.1 e0.2.1) (ITS.orderOf H e0.1 e0.2.1),
      ITS.orderOf H e0.1 e0.2.1, ?_, ?_⟩
    · rw [ITS.construct_edges, hg]; rfl
    · rw [ITS.construct_order]
      obtain ⟨n, _, hord⟩ := hp.molG.2.2 e0 he0
      have : ITS.orderOf G e0.1 e0.2.1 = .num n := by
        unfold ITS.orderOf
        rw [Reactor.edge?_of_mem G hGwf e0 he0 _ _ (Or.inl ⟨rfl, rfl⟩)]
        simp only
        rw [hord]; rfl
      rw [this, pyGet_of_get? hord]
  · intro e he
    obtain ⟨hc, hattr⟩ := construct_order_of_mem o G H hGwf hHwf e he
    refine ⟨ITS.orderOf G e.1 e.2.1, ITS.orderOf H e.1 e.2.1, ?_, ?_, ?_⟩
    · rw [hattr, ITS.construct_order]
    · intro hg
      obtain ⟨n, hn, hord⟩ := orderOf_of_hasEdge G hp.molG.2.2 _ _ hg
      rw [hord]; intro h; injection h with h; omega
    · intro hg
      refine ⟨orderOf_of_not_hasEdge G _ _ hg, ?_⟩
      rw [hg, Bool.false_or] at hc
      obtain ⟨n, hn, hord⟩ := orderOf_of_hasEdge H hp.molH.2.2 _ _ hc
      rw [hord]; intro h; injection h with h; omega

/-- Under the additional hypotheses of `RxnPair` the product side keeps the substrate's aromatic flag
and `neighbors` entry. -/
theorem strongLab_construct (o : ITS.Opts) {G H : LGraph} (hp : RxnPair G H) : StrongLab G (ITS.construct o G H) := by
  intro v hv
  obtain ⟨s, arG, arH, hg, hh, cg, ch, nbG, nbH, _, eG, aG, hgG, cG, nG, _, aH, _, _, nH, hl⟩ :=
    construct_label o hp.toRxnPairW v hv
  refine ⟨hh, ch, ?_⟩
  have e1 : arH = arG := by
    have := hp.arom v hv; rw [aH, aG] at this; exact Option.some.inj this
  have e2 : nbH = nbG := by
    have := hp.nbrs v hv; rw [nH, nG] at this; exact Option.some.inj this
  rw [hl, e1, e2]
  unfold gSide
  rw [pyGet_of_get? eG, pyGet_of_get? aG, pyGet_of_get? hgG, pyGet_of_get? cG, pyGet_of_get? nG]

/-! ## §4 the full ITS and its centre as templates of the full ITS -/

/-- A well-formed template is a template of itself. -/
theorem subITS_self (I : LGraph) (hT : WFTemplate I) : SubITS I I where
  hT := hT
  ids := fun _ h => h
  lab := fun _ _ _ _ _ _ => rfl
  edge := fun te hte => ⟨te.2.2, Reactor.edge?_of_mem I hT.1 te hte _ _ (Or.inl ⟨rfl, rfl⟩), rfl⟩
  chg := fun e he _ => hasEdge_of_mem I hT.1 e he _ _ (Or.inl ⟨rfl, rfl⟩)

theorem rcEdgeAttrs_default (a : Attrs) :
    ITS.rcEdgeAttrs {} a = [("order", Attrs.get a "order"), ("standard_order", Attrs.get a "standard_order"),
      ("is_mtg", (Dict.get? a "is_mtg").getD (.bool false))] := by
  simp [ITS.rcEdgeAttrs, Dict.set]

theorem ordAt_rcEdgeAttrs (a : Attrs) (s : Nat) : ordAt (ITS.rcEdgeAttrs {} a) s = ordAt a s := by
  unfold ordAt; rw [ITS.rcEdgeAttrs_order]

theorem hasKey_of_isSome {a : Attrs} {k : String} (h : (Dict.get? a k).isSome = true) : hasKey a k = true := h

/-- **The reaction centre of a well-formed ITS that is a well-formed template is a template cut out
of it**: atoms of the ITS with its label pairs, bonds of the ITS with its order pairs, containing every
changed bond. -/
theorem subITS_getRc (I : LGraph) (hW : ITS.WFits I) (hT : WFTemplate I) : SubITS (ITS.getRc {} I) I := by
  have hRwf := ITS.getRc_wf I hW.1
  have hsub : ∀ n ∈ (ITS.getRc {} I).ids, n ∈ I.ids := fun n hn => ITS.getRc_ids_sub hW.1 {} rfl n hn
  have htg : ∀ n ∈ (ITS.getRc {} I).ids,
      Attrs.get ((ITS.getRc {} I).attrs n) "typesGH" = Attrs.get (I.attrs n) "typesGH" :=
    fun n hn => ITS.rc_labels I hW n hn "typesGH" (by decide)
  refine { hT := ⟨hRwf, ?_, ?_⟩, ids := hsub, lab := ?_, edge := ?_, chg := ?_ }
  · intro p hp
    have hp1 : p.1 ∈ (ITS.getRc {} I).ids := List.mem_map.2 ⟨p, hp, rfl⟩
    have hpa : (ITS.getRc {} I).attrs p.1 = p.2 := Reactor.attrs_of_mem _ hRwf.1 p hp
    have hI := hT.2.1 (p.1, I.attrs p.1) (attrs_mem I p.1 (hsub _ hp1))
    have e := htg p.1 hp1
    rw [hpa] at e
    refine ⟨?_, ?_, ?_, ?_⟩
    · have := ITS.getRc_has_typesGH hW p.1 hp1
      rw [hpa] at this; exact hasKey_of_isSome this
    · unfold tgField; rw [e]; exact hI.2.1
    · unfold tgField; rw [e]; exact hI.2.2.1
    · unfold tgField; rw [e]; exact hI.2.2.2
  · intro e he
    obtain ⟨eI, heI, _, rfl⟩ := ITS.getRc_edges_from {} rfl I e he
    have hI := hT.2.2 eI heI
    show (Dict.keys (ITS.rcEdgeAttrs {} eI.2.2)).Nodup ∧ hasKey (ITS.rcEdgeAttrs {} eI.2.2) "order" = true ∧
      ordAt (ITS.rcEdgeAttrs {} eI.2.2) 0 = .num (numOf (ordAt (ITS.rcEdgeAttrs {} eI.2.2) 0)) ∧
      numOf (ordAt (ITS.rcEdgeAttrs {} eI.2.2) 0) ≥ 0 ∧
      ordAt (ITS.rcEdgeAttrs {} eI.2.2) 1 = .num (numOf (ordAt (ITS.rcEdgeAttrs {} eI.2.2) 1)) ∧
      numOf (ordAt (ITS.rcEdgeAttrs {} eI.2.2) 1) ≥ 0
    simp only [ordAt_rcEdgeAttrs]
    refine ⟨?_, ?_, hI.2.2.1, hI.2.2.2.1, hI.2.2.2.2.1, hI.2.2.2.2.2⟩
    · rw [rcEdgeAttrs_default]; simp [Dict.keys]
    · rw [rcEdgeAttrs_default]; rfl
  · intro v hv s i _ _
    unfold tgField; rw [htg v hv]
  · intro te hte
    have h1 := Reactor.edge?_of_mem _ hRwf te hte _ _ (Or.inl ⟨rfl, rfl⟩)
    obtain ⟨a, ha, ho, _⟩ := ITS.rc_edge_labels I hW.1 _ _ _ h1
    exact ⟨a, ha, ho.symm⟩
  · intro e he hch
    rw [ITS.mem_rc_edge_iff_std I hW.1]
    refine ⟨e.2.2, Reactor.edge?_of_mem I hW.1 e he _ _ (Or.inl ⟨rfl, rfl⟩), Or.inl ?_⟩
    obtain ⟨a, b, ho, hs⟩ := hW.2.2 e he
    rw [hs]
    have h0 : ordAt e.2.2 0 = .num a := by unfold ordAt; rw [ho]; rfl
    have h1 : ordAt e.2.2 1 = .num b := by unfold ordAt; rw [ho]; rfl
    rw [h0, h1] at hch
    have : a - b ≠ 0 := fun h => hch (by rw [show a = b by omega])
    simpa [ITS.stdNonzero] using this

theorem orderOf_num (S : LGraph) (hS : ITS.C01L.EdgePos S) (u v : Nat) :
    ∃ n : Int, 0 ≤ n ∧ ITS.orderOf S u v = .num n ∧ (S.hasEdge u v = true → 0 < n) ∧ (S.hasEdge u v = false → n = 0) := by
  cases h : S.hasEdge u v with
  | true =>
    obtain ⟨n, hn, ho⟩ := orderOf_of_hasEdge S hS u v h
    exact ⟨n, by omega, ho, fun _ => hn, fun h => (by cases h)⟩
  | false => exact ⟨0, by omega, orderOf_of_not_hasEdge S u v h, fun h => (by cases h), fun _ => rfl⟩

/-- The full ITS of a balanced pair is a well-formed template. -/
theorem wfTemplate_construct (o : ITS.Opts) {G H : LGraph} (hp : RxnPairW G H) : WFTemplate (ITS.construct o G H) := by
  have hR := reactionOf_construct o hp
  refine ⟨hR.hI, ?_, ?_⟩
  · intro p hpn
    have hp1 : p.1 ∈ (ITS.construct o G H).ids := List.mem_map.2 ⟨p, hpn, rfl⟩
    have hpa : (ITS.construct o G H).attrs p.1 = p.2 := Reactor.attrs_of_mem _ hR.hI.1 p hpn
    obtain ⟨s, arG, arH, hg, hh, cg, ch, nbG, nbH, hs, _, _, _, _, _, _, _, _, _, _, hl⟩ :=
      construct_label o hp p.1 ((hR.ids p.1).1 hp1)
    rw [hpa] at hl
    have hk := ITS.C01L.construct_typesGH' o G H p.1 hp1
    rw [hpa] at hk
    refine ⟨hasKey_of_get? hk, ?_, ?_, ?_⟩
    · unfold tgField; rw [hl]
      show Val.str s ≠ Val.str "*"
      intro h; injection h with h; exact hs h
    · unfold tgField; rw [hl]
      show Val.str s ≠ Val.str "*"
      intro h; injection h with h; exact hs h
    · unfold tgField; rw [hl]; rfl
  · intro e he
    obtain ⟨_, hattr⟩ := construct_order_of_mem o G H hp.molG.1 hp.molH.1 e he
    obtain ⟨a, ha, hoa, _, _⟩ := orderOf_num G hp.molG.2.2 e.1 e.2.1
    obtain ⟨b, hb, hob, _, _⟩ := orderOf_num H hp.molH.2.2 e.1 e.2.1
    have h0 : ordAt e.2.2 0 = .num a := by unfold ordAt; rw [hattr, ITS.construct_order, hoa]; rfl
    have h1 : ordAt e.2.2 1 = .num b := by unfold ordAt; rw [hattr, ITS.construct_order, hob]; rfl
    refine ⟨?_, ?_, ?_, ?_, ?_, ?_⟩
    · rw [hattr]; simp [ITS.itsEdgeAttrs, Dict.keys]
    · rw [hattr]; exact hasKey_mk _ _
    · rw [h0]; rfl
    · rw [h0]; exact ha
    · rw [h1]; rfl
    · rw [h1]; exact hb

/-- The full ITS of a balanced pair, built without `ignore_aromaticity`, is a well-formed ITS in the
sense of C02 (`standard_order` is the difference of the two orders). -/
theorem wfits_construct (o : ITS.Opts) (ho : o.ignoreArom = false) {G H : LGraph} (hp : RxnPairW G H) :
    ITS.WFits (ITS.construct o G H) := by
  refine ⟨ITS.construct_wf o G H hp.molG.1 hp.molH.1, ?_, ?_⟩
  · intro n hn
    rw [ITS.C01L.construct_typesGH' o G H n hn]; rfl
  · intro e he
    obtain ⟨_, hattr⟩ := construct_order_of_mem o G H hp.molG.1 hp.molH.1 e he
    obtain ⟨a, _, hoa, _, _⟩ := orderOf_num G hp.molG.2.2 e.1 e.2.1
    obtain ⟨b, _, hob, _, _⟩ := orderOf_num H hp.molH.2.2 e.1 e.2.1
    refine ⟨a, b, ?_, ?_⟩
    · rw [hattr, ITS.construct_order, hoa, hob]
    · rw [hattr]; exact ITS.construct_standard_order o G H e.1 e.2.1 a b ho hoa hob

/-- `RcComplete` at the level of the two molecule graphs: every atom all of whose bonds keep their
order keeps its hydrogen count and its charge.  (FALSE for reactions like phosphate protonation —
finding F10 — where an atom changes charge without any of its bonds changing.) -/
def CentreCovers (G H : LGraph) : Prop :=
  ∀ v ∈ G.ids, (∀ u, ITS.orderOf G v u = ITS.orderOf H v u) →
    Attrs.get (G.attrs v) "hcount" = Attrs.get (H.attrs v) "hcount" ∧
    Attrs.get (G.attrs v) "charge" = Attrs.get (H.attrs v) "charge"

theorem CentreCovers.symm {G H : LGraph} (hs : ITS.SameNodes G H) (h : CentreCovers G H) : CentreCovers H G := by
  intro v hv hu
  obtain ⟨a, b⟩ := h v ((hs v).2 hv) (fun u => (hu u).symm)
  exact ⟨a.symm, b.symm⟩

/-- `RcComplete` for the centre template, from `CentreCovers`. -/
theorem rcComplete_getRc (o : ITS.Opts) (ho : o.ignoreArom = false) {G H : LGraph} (hp : RxnPairW G H)
    (hc : CentreCovers G H) : RcComplete (ITS.construct o G H) (ITS.getRc {} (ITS.construct o G H)) := by
  have hW := wfits_construct o ho hp
  have hRe := reactionOf_construct o hp
  intro v hvI hvT
  have hvG := (hRe.ids v).1 hvI
  have hsame : ∀ u, ITS.orderOf G v u = ITS.orderOf H v u := by
    intro u
    by_contra hne
    apply hvT
    rw [ITS.rc_nodes_eq_endpoints]
    refine ⟨u, ?_⟩
    rw [ITS.mem_rc_edge_iff_std _ hW.1]
    obtain ⟨a, _, hoa, _, ha0⟩ := orderOf_num G hp.molG.2.2 v u
    obtain ⟨b, _, hob, _, hb0⟩ := orderOf_num H hp.molH.2.2 v u
    have hab : a ≠ b := fun h => hne (by rw [hoa, hob, h])
    have hex : (G.hasEdge v u || H.hasEdge v u) = true := by
      cases hg : G.hasEdge v u with
      | true => rfl
      | false =>
        cases hh : H.hasEdge v u with
        | true => rfl
        | false => exact absurd ((ha0 hg).trans (hb0 hh).symm) hab
    refine ⟨_, by rw [ITS.construct_edges, hex]; rfl, Or.inl ?_⟩
    rw [ITS.construct_standard_order o G H v u a b ho hoa hob]
    have : a - b ≠ 0 := by omega
    simpa [ITS.stdNonzero] using this
  obtain ⟨h1, h2⟩ := hc v hvG hsame
  obtain ⟨s, arG, arH, hg, hh, cg, ch, nbG, nbH, _, _, _, hgG, cG, _, _, _, hhH, cH, _, hl⟩ :=
    construct_label o hp v hvG
  rw [get_of_get? hgG, get_of_get? hhH] at h1
  rw [get_of_get? cG, get_of_get? cH] at h2
  unfold hR hL tgField
  rw [hl, h1, h2]
  exact ⟨rfl, rfl⟩

/-- `RcComplete` is vacuous for the full ITS. -/
theorem rcComplete_self (I : LGraph) : RcComplete I I := fun _ hv hn => absurd hv hn

/-! ## §5 `_invert_template` of a template of `construct o G H` is a template of `construct o H G` -/

/-- The node `_invert_template` builds from a template node. -/
def invNode (p : Nat × Attrs) : Nat × Attrs :=
  let r := tupGet (p.2.get "typesGH") 1
  let l := tupGet (p.2.get "typesGH") 0
  let nb := Val.tup [.str "", .str ""]
  let side (t : Val) : Val := .tup [tupGet t 0, tupGet t 1, tupGet t 2, tupGet t 3, nb]
  (p.1, [("element", tupGet r 0), ("aromatic", tupGet r 1), ("hcount", tupGet r 2), ("charge", tupGet r 3),
         ("atom_map", Val.num (2 * (p.1 : Int))), ("typesGH", .tup [side r, side l]), ("neighbors", nb)])

theorem invert_nodes (T : LGraph) (hT : WFTemplate T) : (invert T).nodes = T.nodes.map invNode := by
  unfold invert
  simp only
  apply filterMap_eq_map_of
  intro p hp
  simp [(hT.2.1 p hp).1, invNode]

theorem invert_ids (T : LGraph) (hT : WFTemplate T) : (invert T).ids = T.ids := by
  unfold LGraph.ids
  rw [invert_nodes T hT, List.map_map]
  rfl

theorem invNode_tg (p : Nat × Attrs) (s i : Nat) (hs : s = 0 ∨ s = 1) (hi : i < 4) :
    tgField (invNode p).2 s i = tgField p.2 (1 - s) i := by
  have : i = 0 ∨ i = 1 ∨ i = 2 ∨ i = 3 := by omega
  rcases hs with rfl | rfl <;> rcases this with rfl | rfl | rfl | rfl <;>
    simp [invNode, tgField, get_cons, tupGet, tupList]

theorem invert_attrs (T : LGraph) (hT : WFTemplate T) (v : Nat) (hv : v ∈ T.ids) :
    (invert T).attrs v = (invNode (v, T.attrs v)).2 := by
  have h1 : invert T = ⟨(invert T).nodes, (invert T).edges⟩ := rfl
  rw [h1, invert_nodes T hT]
  exact attrs_map_nodes T.nodes (invert T).edges T.edges invNode (fun _ => rfl) v hv

/-- The bond `_invert_template` builds from a template bond with non-negative numeric orders. -/
def invEdge (te : Nat × Nat × Attrs) : Nat × Nat × Attrs :=
  (te.1, te.2.1, [("order", Val.tup [.num (numOf (ordAt te.2.2 1)), .num (numOf (ordAt te.2.2 0))]),
                  ("standard_order", Val.num (numOf (ordAt te.2.2 1) - numOf (ordAt te.2.2 0)))])

theorem mem_invert_edges (T : LGraph) (hT : WFTemplate T) (e : Nat × Nat × Attrs) :
    e ∈ (invert T).edges ↔ ∃ te ∈ T.edges, (numOf (ordAt te.2.2 0) > 0 ∨ numOf (ordAt te.2.2 1) > 0) ∧ e = invEdge te := by
  unfold invert
  simp only [List.mem_filterMap]
  constructor
  · rintro ⟨te, hte, h⟩
    obtain ⟨_, hk, _, h0, _, h1⟩ := hT.2.2 te hte
    rw [if_pos hk] at h
    split at h
    · next hc =>
      refine ⟨te, hte, hc, ?_⟩
      have e0 : (if numOf (ordAt te.2.2 0) > 0 then numOf (ordAt te.2.2 0) else 0) = numOf (ordAt te.2.2 0) := by
        split <;> omega
      have e1 : (if numOf (ordAt te.2.2 1) > 0 then numOf (ordAt te.2.2 1) else 0) = numOf (ordAt te.2.2 1) := by
        split <;> omega
      rw [e0, e1] at h
      exact (Option.some.inj h).symm
    · cases h
  · rintro ⟨te, hte, hc, rfl⟩
    obtain ⟨_, hk, _, h0, _, h1⟩ := hT.2.2 te hte
    refine ⟨te, hte, ?_⟩
    rw [if_pos hk]
    rw [if_pos hc]
    have e0 : (if numOf (ordAt te.2.2 0) > 0 then numOf (ordAt te.2.2 0) else 0) = numOf (ordAt te.2.2 0) := by
      split <;> omega
    have e1 : (if numOf (ordAt te.2.2 1) > 0 then numOf (ordAt te.2.2 1) else 0) = numOf (ordAt te.2.2 1) := by
      split <;> omega
    rw [e0, e1]; rfl

theorem filterMap_key_sublist {α κ : Type} (f : α → Option α) (k : α → κ) (hf : ∀ a b, f a = some b → k b = k a)
    (l : List α) : ((l.filterMap f).map k).Sublist (l.map k) := by
  induction l with
  | nil => exact List.Sublist.slnil
  | cons a l ih =>
    rw [List.filterMap_cons]
    cases h : f a with
    | none => exact ih.cons _
    | some b =>
      simp only [List.map_cons]
      rw [hf a b h]
      exact ih.cons_cons _

/-- `_invert_template` of a well-formed template whose product-side elements are strings is a
well-formed template. -/
theorem wfTemplate_invert (T : LGraph) (hT : WFTemplate T) (hstr : ∀ p ∈ T.nodes, isStr (tgField p.2 1 0) = true) :
    WFTemplate (invert T) := by
  refine ⟨⟨?_, ?_, ?_⟩, ?_, ?_⟩
  · rw [invert_ids T hT]; exact hT.1.1
  · intro e he
    obtain ⟨te, hte, _, rfl⟩ := (mem_invert_edges T hT e).1 he
    rw [invert_ids T hT]
    exact hT.1.2.1 te hte
  · refine List.Nodup.sublist ?_ hT.1.2.2
    unfold invert
    simp only
    apply filterMap_key_sublist
    intro a b h
    split at h
    · split at h
      · cases h; rfl
      · cases h
    · cases h
  · intro p' hp'
    rw [invert_nodes T hT] at hp'
    obtain ⟨p, hp, rfl⟩ := List.mem_map.1 hp'
    obtain ⟨_, h0, h1, _⟩ := hT.2.1 p hp
    refine ⟨by simp [invNode, hasKey_cons], ?_, ?_, ?_⟩
    · rw [invNode_tg p 0 0 (Or.inl rfl) (by omega)]; exact h1
    · rw [invNode_tg p 1 0 (Or.inr rfl) (by omega)]; exact h0
    · rw [invNode_tg p 0 0 (Or.inl rfl) (by omega)]; exact hstr p hp
  · intro e he
    obtain ⟨te, hte, _, rfl⟩ := (mem_invert_edges T hT e).1 he
    obtain ⟨_, _, _, h0, _, h1⟩ := hT.2.2 te hte
    unfold invEdge
    refine ⟨by simp [Dict.keys], hasKey_mk _ _, ?_, ?_, ?_, ?_⟩
    · rw [ordAt_mk _ _ _ 0 (by omega)]; rfl
    · rw [ordAt_mk _ _ _ 0 (by omega)]; exact h1
    · rw [ordAt_mk _ _ _ 1 (by omega)]; rfl
    · rw [ordAt_mk _ _ _ 1 (by omega)]; exact h0

theorem construct_tg_swap (o : ITS.Opts) (G H : LGraph) (_hs : ITS.SameNodes G H) (v : Nat) (hv : v ∈ G.ids)
    (s i : Nat) (h01 : s = 0 ∨ s = 1) :
    tgField ((ITS.construct o H G).attrs v) s i = tgField ((ITS.construct o G H).attrs v) (1 - s) i := by
  have h1 := ITS.construct_typesGH o G H v ((ITS.construct_nodes o G H v).2 (Or.inl hv))
  have h2 := ITS.construct_typesGH o H G v ((ITS.construct_nodes o H G v).2 (Or.inr hv))
  unfold tgField
  rw [h1, h2]
  rcases h01 with rfl | rfl <;> rfl

theorem edge?_adj (g : LGraph) {e : Nat × Nat × Attrs} {u v : Nat}
    (h : (e.1 = u ∧ e.2.1 = v) ∨ (e.1 = v ∧ e.2.1 = u)) : g.edge? e.1 e.2.1 = g.edge? u v := by
  rcases h with ⟨a, b⟩ | ⟨a, b⟩
  · rw [a, b]
  · rw [a, b, ITS.C01L.edge?_comm]

theorem construct_edge?_some (o : ITS.Opts) (G H : LGraph) (u v : Nat) (a : Attrs)
    (h : (ITS.construct o G H).edge? u v = some a) :
    (G.hasEdge u v || H.hasEdge u v) = true ∧
      a = ITS.itsEdgeAttrs o.ignoreArom (ITS.orderOf G u v) (ITS.orderOf H u v) := by
  rw [ITS.construct_edges] at h
  split at h
  · next hc => exact ⟨hc, (Option.some.inj h).symm⟩
  · cases h

/-- **Backward templates.** If `T` is a template cut out of the full ITS of `(G, H)`, then
`_invert_template T` is a template cut out of the full ITS of the reversed reaction `(H, G)`. -/
theorem subITS_invert (o : ITS.Opts) {G H : LGraph} (hp : RxnPairW G H) (T : LGraph)
    (hS : SubITS T (ITS.construct o G H)) : SubITS (invert T) (ITS.construct o H G) := by
  obtain ⟨hT, hTids, hTlab, hTedge, hTchg⟩ := hS
  have hRe := reactionOf_construct o hp
  have hRe' := reactionOf_construct o hp.symm
  have hIwf := hRe.hI
  have hids' : ∀ v, v ∈ (ITS.construct o H G).ids ↔ v ∈ (ITS.construct o G H).ids :=
    fun v => ITS.construct_swap_nodes o G H v
  -- orders of a template bond
  have hord : ∀ te ∈ T.edges, ∃ a b : Int, 0 ≤ a ∧ 0 ≤ b ∧
      ITS.orderOf G te.1 te.2.1 = .num a ∧ ITS.orderOf H te.1 te.2.1 = .num b ∧
      ordAt te.2.2 0 = .num a ∧ ordAt te.2.2 1 = .num b ∧
      (G.hasEdge te.1 te.2.1 || H.hasEdge te.1 te.2.1) = true := by
    intro te hte
    obtain ⟨x, hx, hxo⟩ := hTedge te hte
    obtain ⟨hc, rfl⟩ := construct_edge?_some o G H _ _ x hx
    obtain ⟨a, ha, hoa, _, _⟩ := orderOf_num G hp.molG.2.2 te.1 te.2.1
    obtain ⟨b, hb, hob, _, _⟩ := orderOf_num H hp.molH.2.2 te.1 te.2.1
    rw [ITS.construct_order, hoa, hob] at hxo
    refine ⟨a, b, ha, hb, hoa, hob, ?_, ?_, hc⟩
    · unfold ordAt; rw [← hxo]; rfl
    · unfold ordAt; rw [← hxo]; rfl
  have hstr : ∀ p ∈ T.nodes, isStr (tgField p.2 1 0) = true := by
    intro p hpn
    have hp1 : p.1 ∈ T.ids := List.mem_map.2 ⟨p, hpn, rfl⟩
    have hpa : T.attrs p.1 = p.2 := Reactor.attrs_of_mem _ hT.1.1 p hpn
    have hvG : p.1 ∈ G.ids := (hRe.ids p.1).1 (hTids p.1 hp1)
    have := hTlab p.1 hp1 1 0 (Or.inr rfl) (Or.inl rfl)
    rw [hpa] at this
    rw [this]
    obtain ⟨s, arG, arH, hg, hh, cg, ch, nbG, nbH, _, _, _, _, _, _, _, _, _, _, _, hl⟩ :=
      construct_label o hp p.1 hvG
    unfold tgField; rw [hl]; rfl
  have hTinv := wfTemplate_invert T hT hstr
  refine { hT := hTinv, ids := ?_, lab := ?_, edge := ?_, chg := ?_ }
  · intro v hv
    rw [invert_ids T hT] at hv
    exact (hids' v).2 (hTids v hv)
  · intro v hv s i hs hi
    rw [invert_ids T hT] at hv
    have hvG : v ∈ G.ids := (hRe.ids v).1 (hTids v hv)
    have hs' : 1 - s = 0 ∨ 1 - s = 1 := by omega
    rw [invert_attrs T hT v hv, invNode_tg _ s i hs (by omega)]
    show tgField (T.attrs v) (1 - s) i = _
    rw [hTlab v hv (1 - s) i hs' hi, construct_tg_swap o G H hp.same v hvG s i hs]
  · intro te' hte'
    obtain ⟨te, hte, _, rfl⟩ := (mem_invert_edges T hT te').1 hte'
    obtain ⟨a, b, _, _, hoa, hob, h0, h1, hc⟩ := hord te hte
    refine ⟨ITS.itsEdgeAttrs o.ignoreArom (ITS.orderOf H te.1 te.2.1) (ITS.orderOf G te.1 te.2.1), ?_, ?_⟩
    · show (ITS.construct o H G).edge? te.1 te.2.1 = _
      rw [ITS.construct_edges, Bool.or_comm, hc]; rfl
    · rw [ITS.construct_order, hoa, hob]
      unfold invEdge
      rw [get_cons, if_pos rfl, h0, h1]; rfl
  · intro e he hch
    obtain ⟨hc, hattr⟩ := construct_order_of_mem o H G hp.molH.1 hp.molG.1 e he
    obtain ⟨a, ha, hoa, _, _⟩ := orderOf_num G hp.molG.2.2 e.1 e.2.1
    obtain ⟨b, hb, hob, _, _⟩ := orderOf_num H hp.molH.2.2 e.1 e.2.1
    have hab : a ≠ b := by
      intro h
      apply hch
      unfold ordAt
      rw [hattr, ITS.construct_order, hoa, hob, h]; rfl
    -- the bond of the forward ITS on the same pair is changed, hence a template bond
    have hI : (ITS.construct o G H).edge? e.1 e.2.1 =
        some (ITS.itsEdgeAttrs o.ignoreArom (ITS.orderOf G e.1 e.2.1) (ITS.orderOf H e.1 e.2.1)) := by
      rw [ITS.construct_edges, Bool.or_comm, hc]; rfl
    obtain ⟨eI, heI, hattrI, hendI⟩ := Reactor.edge?_some_mem _ _ _ _ hI
    have hchI : ordAt eI.2.2 0 ≠ ordAt eI.2.2 1 := by
      unfold ordAt
      rw [hattrI, ITS.construct_order, hoa, hob]
      intro h
      apply hab
      have h' : Val.num a = Val.num b := h
      injection h'
    obtain ⟨te, hte, hendt⟩ := hasEdge_mem (hTchg eI heI hchI)
    have hadj : (te.1 = e.1 ∧ te.2.1 = e.2.1) ∨ (te.1 = e.2.1 ∧ te.2.1 = e.1) := by
      rcases hendI with ⟨a1, a2⟩ | ⟨a1, a2⟩ <;> rcases hendt with ⟨b1, b2⟩ | ⟨b1, b2⟩
      · exact Or.inl ⟨b1.trans a1, b2.trans a2⟩
      · exact Or.inr ⟨b1.trans a2, b2.trans a1⟩
      · exact Or.inr ⟨b1.trans a1, b2.trans a2⟩
      · exact Or.inl ⟨b1.trans a2, b2.trans a1⟩
    obtain ⟨a', b', _, _, hoa', hob', h0, h1, _⟩ := hord te hte
    have ea : a' = a := by
      have : ITS.orderOf G te.1 te.2.1 = ITS.orderOf G e.1 e.2.1 := by
        unfold ITS.orderOf; rw [edge?_adj G hadj]
      rw [hoa', hoa] at this; injection this
    have eb : b' = b := by
      have : ITS.orderOf H te.1 te.2.1 = ITS.orderOf H e.1 e.2.1 := by
        unfold ITS.orderOf; rw [edge?_adj H hadj]
      rw [hob', hob] at this; injection this
    have hpos : numOf (ordAt te.2.2 0) > 0 ∨ numOf (ordAt te.2.2 1) > 0 := by
      rw [h0, h1, ea, eb]
      show a > 0 ∨ b > 0
      omega
    have hmem : invEdge te ∈ (invert T).edges := (mem_invert_edges T hT _).2 ⟨te, hte, hpos, rfl⟩
    exact hasEdge_of_mem (invert T) hTinv.1 (invEdge te) hmem _ _ hadj

/-! ## §6 connected components of the prepared pattern of the full ITS -/

theorem baseIsG_of_len (o : ITS.Opts) (G H : LGraph) (h : G.nodes.length = H.nodes.length) :
    ITS.baseIsG o G H = true := by
  unfold ITS.baseIsG
  cases o.balance <;> simp [h]

/-- On a shared atom set the full ITS lists the atoms in the reactant graph's order. -/
theorem construct_ids_eq_of_same (o : ITS.Opts) (G H : LGraph) (hG : G.WF) (hH : H.WF) (hs : ITS.SameNodes G H) :
    (ITS.construct o G H).ids = G.ids := by
  have hlen : G.nodes.length = H.nodes.length := by
    have hperm : G.ids.Perm H.ids := (List.perm_ext_iff_of_nodup hG.1 hH.1).2 hs
    simpa [LGraph.ids] using hperm.length_eq
  rw [ITS.C01L.construct_ids_eq]
  unfold ITS.C01L.rawOf
  rw [baseIsG_of_len o G H hlen]
  simp only [if_true]
  have : H.nodes.filter (fun p => !G.hasNode p.1) = [] := by
    rw [List.filter_eq_nil_iff]
    intro p hp
    have : p.1 ∈ G.ids := (hs p.1).2 (List.mem_map.2 ⟨p, hp, rfl⟩)
    simp [(ITS.C01L.hasNode_iff G p.1).2 this]
  rw [this, List.append_nil]
  rfl

/-- The reactant side of the full ITS has exactly the bonds of the reactant graph, in its order. -/
theorem left_construct_endpoints (o : ITS.Opts) {G H : LGraph} (hp : RxnPairW G H) :
    SubgraphSearch.endpoints (left (ITS.construct o G H)) = SubgraphSearch.endpoints G := by
  unfold SubgraphSearch.endpoints left decompSide
  simp only
  rw [ITS.C01L.construct_edges_eq]
  unfold ITS.C01L.pairsOf
  rw [List.map_append, List.filterMap_append, List.map_append]
  have h2 : List.filterMap
      (fun e : Nat × Nat × Attrs => if hasKey e.2.2 "order" = true ∧ numOf (ordAt e.2.2 0) > 0 then
        some (e.1, e.2.1, [("order", ordAt e.2.2 0)]) else none)
      (List.map (fun uv : Nat × Nat => (uv.1, uv.2, ITS.C01L.itsF o G H uv.1 uv.2))
        (List.map (fun e : Nat × Nat × Attrs => (e.1, e.2.1)) (List.filter (fun e => !G.hasEdge e.1 e.2.1) H.edges))) = [] := by
    apply filterMap_eq_nil_of
    intro x hx
    obtain ⟨uv, huv, rfl⟩ := List.mem_map.1 hx
    obtain ⟨e, he, rfl⟩ := List.mem_map.1 huv
    have hno : G.hasEdge e.1 e.2.1 = false := by simpa using (List.mem_filter.1 he).2
    have h0 : ordAt (ITS.C01L.itsF o G H e.1 e.2.1) 0 = .num 0 := by
      unfold ordAt ITS.C01L.itsF
      rw [ITS.C01L.itsEdgeAttrs_order, orderOf_of_not_hasEdge G _ _ hno]; rfl
    simp [h0]
  rw [h2, List.map_nil, List.append_nil]
  rw [filterMap_eq_map_of _ (fun e : Nat × Nat × Attrs => (e.1, e.2.1, [("order", ordAt e.2.2 0)]))]
  · simp [List.map_map, Function.comp_def]
  · intro x hx
    obtain ⟨uv, huv, rfl⟩ := List.mem_map.1 hx
    obtain ⟨e, he, rfl⟩ := List.mem_map.1 huv
    have hyes : G.hasEdge e.1 e.2.1 = true := ITS.C01L.hasEdge_of_mem G e he
    obtain ⟨n, hn, hord⟩ := orderOf_of_hasEdge G hp.molG.2.2 _ _ hyes
    have h0 : ordAt (ITS.C01L.itsF o G H e.1 e.2.1) 0 = .num n := by
      unfold ordAt ITS.C01L.itsF
      rw [ITS.C01L.itsEdgeAttrs_order, hord]; rfl
    have hk : hasKey (ITS.C01L.itsF o G H e.1 e.2.1) "order" = true := hasKey_mk _ _
    simp [h0, hk, hn]

/-- … hence the same connected components, in the same order. -/
theorem comps_left_construct (o : ITS.Opts) {G H : LGraph} (hp : RxnPairW G H) :
    SubgraphSearch.comps (left (ITS.construct o G H)) = SubgraphSearch.comps G := by
  unfold SubgraphSearch.comps
  rw [left_construct_endpoints o hp, left_ids _ (wfTemplate_construct o hp),
    construct_ids_eq_of_same o G H hp.molG.1 hp.molH.1 hp.same]

/-- The identity match of the full ITS sends different pattern components to different substrate
components (they are the same components). -/
theorem distinctComponents_full_its (o : ITS.Opts) {G H : LGraph} (hp : RxnPairW G H) :
    SubgraphSearch.DistinctComponents G (left (ITS.construct o G H)) (idMap (ITS.construct o G H)) := by
  intro p q p' q' h1 h2 hn
  have e1 := (mget_map_some _ (fun v => v) p p' h1).2
  have e2 := (mget_map_some _ (fun v => v) q q' h2).2
  subst e1; subst e2
  rw [left_construct_endpoints o hp, left_ids _ (wfTemplate_construct o hp),
    construct_ids_eq_of_same o G H hp.molG.1 hp.molH.1 hp.same] at hn
  exact hn

/-- **When the component-aware search returns a given match** (no `max_results`; any
`strict_cc_count`): the match separates the pattern components (`DistinctComponents`), the substrate
has at least as many components as the pattern — exactly as many when `strict_cc_count` is set — and
no threshold fires.  (`SubgraphSearch.comp_complete` is the case `strict = false` with a non-empty pattern.) -/
theorem mem_findComp_of_mono (sel : Sel) (H P : LGraph) (hH : H.WF) (hP : P.WF) (m : Mapping)
    (hm : IsMono sel H P m) (hd : SubgraphSearch.DistinctComponents H P m) (strict : Bool) (thr : Nat)
    (hle : (SubgraphSearch.comps P).length ≤ (SubgraphSearch.comps H).length)
    (hstrict : strict = true → (SubgraphSearch.comps H).length ≤ (SubgraphSearch.comps P).length)
    (hthr : ∀ maps ∈ SubgraphSearch.perCc sel H P, maps.length ≤ thr)
    (hlen : (SubgraphSearch.compEnum sel H P).length ≤ thr) :
    m ∈ SubgraphSearch.findComp sel H P 0 strict thr := by
  rw [SubgraphSearch.findComp_eq]
  by_cases h0 : (SubgraphSearch.comps P).length = 0
  · rw [if_pos h0]
    have hids := SubgraphSearch.ids_nil_of_no_comps P hP h0
    have h1 : m.map (·.1) = [] := by have := hm.1; rw [hids] at this; exact this
    have : m = [] := List.map_eq_nil_iff.1 h1
    rw [this]; exact List.mem_singleton.2 rfl
  · have hmem := SubgraphSearch.mem_compEnum_of_mono sel H P hH hP m hm hd
    have h3 : ¬ ((SubgraphSearch.perCc sel H P).any (fun maps => maps.isEmpty) = true) := by
      rw [List.any_eq_true]
      rintro ⟨maps, hmaps, he⟩
      exact SubgraphSearch.perCc_ne_nil_of_mono sel H P hH hP m hm maps hmaps (List.isEmpty_iff.1 he)
    have h4 : ¬ ((SubgraphSearch.perCc sel H P).any (fun maps => decide (maps.length > thr)) = true) := by
      rw [List.any_eq_true]
      rintro ⟨maps, hmaps, he⟩
      have := hthr maps hmaps
      simp only [decide_eq_true_eq] at he
      omega
    have h2 : ¬ ((SubgraphSearch.comps H).length > (SubgraphSearch.comps P).length ∧ strict = true) := by
      rintro ⟨a, b⟩
      have := hstrict b
      omega
    rw [if_neg h0, if_neg (by omega), if_neg h2, if_neg h3, if_neg h4]
    rw [List.take_of_length_le]
    · exact hmem
    · unfold SubgraphSearch.stopLen; simp; omega

/-- `RcComplete` passes to the inverted template and the reversed reaction. -/
theorem rcComplete_invert (o : ITS.Opts) {G H : LGraph} (hp : RxnPairW G H) (T : LGraph) (hT : WFTemplate T)
    (h : RcComplete (ITS.construct o G H) T) : RcComplete (ITS.construct o H G) (invert T) := by
  intro v hv hn
  rw [invert_ids T hT] at hn
  have hvI : v ∈ (ITS.construct o G H).ids := (ITS.construct_swap_nodes o G H v).1 hv
  have hvG : v ∈ G.ids := ((reactionOf_construct o hp).ids v).1 hvI
  obtain ⟨a, b⟩ := h v hvI hn
  unfold hR hL at a ⊢
  rw [construct_tg_swap o G H hp.same v hvG 1 2 (Or.inr rfl), construct_tg_swap o G H hp.same v hvG 0 2 (Or.inl rfl),
    construct_tg_swap o G H hp.same v hvG 1 3 (Or.inr rfl), construct_tg_swap o G H hp.same v hvG 0 3 (Or.inl rfl)]
  exact ⟨a.symm, b.symm⟩

/-! ## §7 closing gap (i): comparison of reactions on what `_node_glue` can reproduce

`_node_glue` copies the aromatic flag and the `neighbors` entry of the product-side label from the
substrate; a reaction in which an atom changes one of them is therefore rebuilt with the *substrate's*
values there.  `coreProj` forgets exactly these two product-side entries (element, hydrogen count and
charge of the product side and the whole reactant-side label stay); `ItsCoreEquiv` is `ItsEquiv` after
`coreProj`.  `fixI G I` is the reaction `I` with the two entries overwritten by the substrate's: it has
the same `coreProj`, and satisfies `StrongLab`. -/

/-- The label pair without the product side's aromatic flag and `neighbors` entry. -/
def coreTg (t : Val) : Val :=
  .tup [tupGet t 0, .tup [tupGet (tupGet t 1) 0, tupGet (tupGet t 1) 2, tupGet (tupGet t 1) 3]]

def coreProj (I : LGraph) : LGraph :=
  { nodes := I.nodes.map fun p => (p.1, Dict.set p.2 "typesGH" (coreTg (Attrs.get p.2 "typesGH")))
    edges := I.edges }

/-- "The same reaction" up to the product-side aromatic flags and `neighbors` entries. -/
def ItsCoreEquiv (a b : LGraph) : Prop := ItsEquiv (coreProj a) (coreProj b)

/-- The label pair with the product side's aromatic flag and `neighbors` entry taken from the substrate atom `g`. -/
def fixTg (g : Attrs) (t : Val) : Val :=
  .tup [tupGet t 0, .tup [tupGet (tupGet t 1) 0, pyGet g "aromatic" (.bool false), tupGet (tupGet t 1) 2,
                          tupGet (tupGet t 1) 3, pyGet g "neighbors" (.tup [])]]

def fixI (G I : LGraph) : LGraph :=
  { nodes := I.nodes.map fun p => (p.1, Dict.set p.2 "typesGH" (fixTg (G.attrs p.1) (Attrs.get p.2 "typesGH")))
    edges := I.edges }

theorem coreTg_fixTg (g : Attrs) (t : Val) : coreTg (fixTg g t) = coreTg t := by
  simp [coreTg, fixTg, tupGet, tupList]

theorem dict_set_set (a : Attrs) (k : String) (x y : Val) : Dict.set (Dict.set a k x) k y = Dict.set a k y := by
  induction a with
  | nil => simp [Dict.set]
  | cons p rest ih =>
    obtain ⟨k', v'⟩ := p
    by_cases h : k' = k
    · simp [Dict.set, h]
    · simp [Dict.set, h, ih]

theorem coreProj_fixI (G I : LGraph) : coreProj (fixI G I) = coreProj I := by
  unfold coreProj fixI
  simp only [List.map_map, LGraph.mk.injEq, and_true]
  apply List.map_congr_left
  intro p _
  simp only [Function.comp, get_set_self, coreTg_fixTg, dict_set_set]

theorem coreProj_ids (I : LGraph) : (coreProj I).ids = I.ids := by
  simp [coreProj, LGraph.ids, List.map_map, Function.comp_def]

theorem fixI_ids (G I : LGraph) : (fixI G I).ids = I.ids := by
  simp [fixI, LGraph.ids, List.map_map, Function.comp_def]

theorem coreProj_WF_iff (I : LGraph) : (coreProj I).WF ↔ I.WF := by
  unfold LGraph.WF; rw [coreProj_ids]; rfl

theorem fixI_WF_iff (G I : LGraph) : (fixI G I).WF ↔ I.WF := by
  unfold LGraph.WF; rw [fixI_ids]; rfl

theorem coreProj_attrs (I : LGraph) (v : Nat) (hv : v ∈ I.ids) :
    (coreProj I).attrs v = Dict.set (I.attrs v) "typesGH" (coreTg (Attrs.get (I.attrs v) "typesGH")) :=
  attrs_map_nodes I.nodes I.edges I.edges
    (fun p => (p.1, Dict.set p.2 "typesGH" (coreTg (Attrs.get p.2 "typesGH")))) (fun _ => rfl) v hv

theorem fixI_attrs (G I : LGraph) (v : Nat) (hv : v ∈ I.ids) :
    (fixI G I).attrs v = Dict.set (I.attrs v) "typesGH" (fixTg (G.attrs v) (Attrs.get (I.attrs v) "typesGH")) :=
  attrs_map_nodes I.nodes I.edges I.edges
    (fun p => (p.1, Dict.set p.2 "typesGH" (fixTg (G.attrs p.1) (Attrs.get p.2 "typesGH")))) (fun _ => rfl) v hv

/-- `fixI` keeps element, hydrogen count and charge on both sides (and the whole reactant side). -/
theorem fixI_tg (G I : LGraph) (v : Nat) (hv : v ∈ I.ids) (s i : Nat) (hs : s = 0 ∨ s = 1)
    (hi : i = 0 ∨ i = 2 ∨ i = 3) : tgField ((fixI G I).attrs v) s i = tgField (I.attrs v) s i := by
  rw [fixI_attrs G I v hv]
  unfold tgField
  rw [get_set_self]
  rcases hs with rfl | rfl <;> rcases hi with rfl | rfl | rfl <;> simp [fixTg, tupGet, tupList]

/-- An isomorphism of ITS graphs is one of their `coreProj`s. -/
theorem isIso_coreProj (a b : LGraph) (m : Mapping) (h : IsIso itsSel a b m) :
    IsIso itsSel (coreProj a) (coreProj b) m := by
  obtain ⟨⟨⟨h1, h2, h3, h4⟩, h5⟩, h6⟩ := h
  refine ⟨⟨⟨?_, h2, ?_, h4⟩, h5⟩, ?_⟩
  · rw [coreProj_ids]; exact h1
  · intro ph hph
    obtain ⟨ha, hok⟩ := h3 ph hph
    have hb : ph.1 ∈ b.ids := by
      have h1' : m.map (·.1) = b.ids := h1
      rw [← h1']; exact List.mem_map.2 ⟨ph, hph, rfl⟩
    refine ⟨by rw [coreProj_ids]; exact ha, ?_⟩
    rw [coreProj_attrs a _ ha, coreProj_attrs b _ hb]
    simp only [nodeOk, itsSel, List.all_cons, List.all_nil, Bool.and_true, Bool.not_false, Bool.true_or,
      decide_eq_true_eq] at hok ⊢
    rw [get_set_self, get_set_self, hok]
  · simpa [coreProj] using h6

theorem itsEquiv_coreProj {a b : LGraph} (h : ItsEquiv a b) : ItsCoreEquiv a b := by
  rcases h with rfl | ⟨ha, hb, m, hm⟩
  · exact Or.inl rfl
  · exact Or.inr ⟨(coreProj_WF_iff a).2 ha, (coreProj_WF_iff b).2 hb, m, isIso_coreProj a b m hm⟩

/-- A result that is the fixed reaction is the reaction, up to `coreProj`. -/
theorem itsCoreEquiv_of_fix {r G I : LGraph} (h : ItsEquiv r (fixI G I)) : ItsCoreEquiv r I := by
  have := itsEquiv_coreProj h
  unfold ItsCoreEquiv at this
  rwa [coreProj_fixI] at this

/-- The fixed reaction is a reaction of `G` with the strong product-side label. -/
theorem reactionOf_fix {G I : LGraph} (hR : ReactionOf G I) : ReactionOf G (fixI G I) ∧ StrongLab G (fixI G I) := by
  have hlabS : StrongLab G (fixI G I) := by
    intro v hv
    have hvI : v ∈ I.ids := (hR.ids v).2 hv
    obtain ⟨hp, cp, ar, nb, hl⟩ := hR.lab v hv
    refine ⟨hp, cp, ?_⟩
    rw [fixI_attrs G I v hvI, get_set_self, hl]
    simp [fixTg, tupGet, tupList]
  refine ⟨{ hG := hR.hG, hI := (fixI_WF_iff G I).2 hR.hI, ids := ?_, len := ?_, hnum := hR.hnum, keys := hR.keys,
            lab := ?_, ordKey := hR.ordKey, gE := hR.gE, iE := hR.iE }, hlabS⟩
  · intro v; rw [fixI_ids]; exact hR.ids v
  · rw [← hR.len]; simp [fixI]
  · intro v hv
    obtain ⟨hp, cp, h⟩ := hlabS v hv
    exact ⟨hp, cp, _, _, h⟩

theorem subITS_fix {G I T : LGraph} (hS : SubITS T I) : SubITS T (fixI G I) where
  hT := hS.hT
  ids := fun v hv => by rw [fixI_ids]; exact hS.ids v hv
  lab := fun v hv s i hs hi => by rw [fixI_tg G I v (hS.ids v hv) s i hs hi]; exact hS.lab v hv s i hs hi
  edge := hS.edge
  chg := hS.chg

theorem rcComplete_fix {G I T : LGraph} (h : RcComplete I T) : RcComplete (fixI G I) T := by
  intro v hv hn
  rw [fixI_ids] at hv
  obtain ⟨a, b⟩ := h v hv hn
  unfold hR hL at a ⊢
  rw [fixI_tg G I v hv 1 2 (Or.inr rfl) (Or.inr (Or.inl rfl)), fixI_tg G I v hv 0 2 (Or.inl rfl) (Or.inr (Or.inl rfl)),
    fixI_tg G I v hv 1 3 (Or.inr rfl) (Or.inr (Or.inr rfl)), fixI_tg G I v hv 0 3 (Or.inl rfl) (Or.inr (Or.inr rfl))]
  exact ⟨a, b⟩

/-- **`OwnTemplate` without gap (i)**: for *any* reaction `I` of `G` and template `T` cut out of it, `T` is
an own template of the fixed reaction `fixI G I`. -/
theorem ownTemplate_fix (G I T : LGraph) (hR : ReactionOf G I) (hS : SubITS T I) : OwnTemplate G (fixI G I) T :=
  ownTemplate_of_sub _ _ _ (reactionOf_fix hR).1 (reactionOf_fix hR).2 (subITS_fix hS)

end SynKit.ReactorLink

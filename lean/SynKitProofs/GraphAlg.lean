import Mathlib.Logic.Relation
import Mathlib.Data.List.Basic
import Mathlib.Data.List.Induction
import Mathlib.Data.List.Nodup
import SynKitModel.GraphAlg

/-!
# Correctness of the connected-components model (`SynKitModel.GraphAlg`)

Specification: `Conn nodes edges` is the reflexive-transitive closure of the (symmetric)
adjacency relation restricted to `nodes`.  Main results: `sameComp_iff`,
`mem_components_iff`, `components_cover`, `components_disjoint`, `components_nodup`,
`components_sublist`, `components_flatten_perm`, `compIndex_spec`, `compIndex_eq_iff`.
-/

namespace SynKit.GraphAlg

/-- adjacency restricted to `nodes` -/
def Adj (nodes : List Nat) (edges : List (Nat × Nat)) (u v : Nat) : Prop :=
  u ∈ nodes ∧ v ∈ nodes ∧ ((u, v) ∈ edges ∨ (v, u) ∈ edges)

/-- connected = reflexive-transitive closure of adjacency -/
def Conn (nodes : List Nat) (edges : List (Nat × Nat)) (u v : Nat) : Prop :=
  Relation.ReflTransGen (Adj nodes edges) u v

/-! ## The specification relation -/

theorem Adj.symm {nodes edges u v} (h : Adj nodes edges u v) : Adj nodes edges v u :=
  ⟨h.2.1, h.1, h.2.2.symm⟩

theorem Conn.refl {nodes edges} (u : Nat) : Conn nodes edges u u := Relation.ReflTransGen.refl

theorem Conn.trans {nodes edges u v w} (h₁ : Conn nodes edges u v) (h₂ : Conn nodes edges v w) :
    Conn nodes edges u w := Relation.ReflTransGen.trans h₁ h₂

theorem Conn.symm {nodes edges u v} (h : Conn nodes edges u v) : Conn nodes edges v u := by
  induction h with
  | refl => exact Relation.ReflTransGen.refl
  | tail _ hab ih => exact Relation.ReflTransGen.head hab.symm ih

theorem Conn.of_adj {nodes edges u v} (h : Adj nodes edges u v) : Conn nodes edges u v :=
  Relation.ReflTransGen.single h

theorem Conn.mono {nodes E E' u v} (hE : ∀ x y, Adj nodes E x y → Adj nodes E' x y)
    (h : Conn nodes E u v) : Conn nodes E' u v :=
  Relation.ReflTransGen.mono hE _ _ h

/-- Connectivity is an equivalence relation. -/
theorem Conn.equivalence (nodes : List Nat) (edges : List (Nat × Nat)) :
    Equivalence (Conn nodes edges) :=
  ⟨Conn.refl, Conn.symm, Conn.trans⟩

/-! ## Association-list lemmas -/

theorem lookup_eq_none_iff (x : Nat) (L : List (Nat × Nat)) :
    lookup x L = none ↔ x ∉ L.map Prod.fst := by
  induction L with
  | nil => simp [lookup]
  | cons p rest ih =>
    by_cases h : p.1 = x
    · simp [lookup, h]
    · simp [lookup, h, ih, Ne.symm h]

theorem lookup_isSome_of_mem {x : Nat} {L : List (Nat × Nat)} (h : x ∈ L.map Prod.fst) :
    ∃ l, lookup x L = some l := by
  cases hl : lookup x L with
  | none => exact absurd h ((lookup_eq_none_iff x L).1 hl)
  | some l => exact ⟨l, rfl⟩

theorem mem_keys_of_lookup {x l : Nat} {L : List (Nat × Nat)} (h : lookup x L = some l) :
    x ∈ L.map Prod.fst := by
  by_contra hx
  rw [(lookup_eq_none_iff x L).2 hx] at h
  cases h

theorem lookup_map (g : Nat → Nat) (x : Nat) (L : List (Nat × Nat)) :
    lookup x (L.map (fun p => (p.1, g p.2))) = (lookup x L).map g := by
  induction L with
  | nil => simp [lookup]
  | cons p rest ih =>
    by_cases h : p.1 = x
    · simp [lookup, h]
    · simp [lookup, h, ih]

theorem mem_of_lookup {x l : Nat} {L : List (Nat × Nat)} (h : lookup x L = some l) :
    (x, l) ∈ L := by
  induction L with
  | nil => simp [lookup] at h
  | cons p rest ih =>
    by_cases hp : p.1 = x
    · simp [lookup, hp] at h
      have : p = (x, l) := by cases p; simp_all
      simp [this]
    · simp [lookup, hp] at h
      exact List.mem_cons_of_mem _ (ih h)

theorem lookup_of_mem {x l : Nat} {L : List (Nat × Nat)} (hk : (L.map Prod.fst).Nodup)
    (h : (x, l) ∈ L) : lookup x L = some l := by
  induction L with
  | nil => simp at h
  | cons p rest ih =>
    rw [List.map_cons, List.nodup_cons] at hk
    rcases List.mem_cons.1 h with h | h
    · subst h; simp [lookup]
    · have hx : x ∈ rest.map Prod.fst := List.mem_map.2 ⟨(x, l), h, rfl⟩
      have hne : p.1 ≠ x := fun e => hk.1 (e ▸ hx)
      simp [lookup, hne, ih hk.2 h]

theorem lookup_initLabels (x : Nat) (nodes : List Nat) :
    lookup x (initLabels nodes) = if x ∈ nodes then some x else none := by
  induction nodes with
  | nil => simp [initLabels, lookup]
  | cons n rest ih =>
    unfold initLabels at ih ⊢
    by_cases h : n = x
    · simp [lookup, h]
    · simp [lookup, h, ih, Ne.symm h]

/-! ## The labelling -/

theorem step_keys (L : List (Nat × Nat)) (e : Nat × Nat) :
    (step L e).map Prod.fst = L.map Prod.fst := by
  unfold step
  split
  · simp [List.map_map, Function.comp_def]
  · rfl

theorem labels_keys (nodes : List Nat) (edges : List (Nat × Nat)) :
    (labels nodes edges).map Prod.fst = nodes := by
  unfold labels
  induction edges using List.reverseRecOn with
  | nil => simp [initLabels, List.map_map, Function.comp_def]
  | append_singleton es e ih => simp [List.foldl_append, step_keys, ih]

theorem labels_snoc (nodes : List Nat) (es : List (Nat × Nat)) (e : Nat × Nat) :
    labels nodes (es ++ [e]) = step (labels nodes es) e := by
  simp [labels, List.foldl_append]

theorem lookup_labels_isSome {nodes : List Nat} (edges : List (Nat × Nat)) {x : Nat}
    (h : x ∈ nodes) : ∃ l, lookup x (labels nodes edges) = some l :=
  lookup_isSome_of_mem (by rw [labels_keys]; exact h)

theorem mem_nodes_of_lookup_labels {nodes : List Nat} {edges : List (Nat × Nat)} {x l : Nat}
    (h : lookup x (labels nodes edges) = some l) : x ∈ nodes := by
  have := mem_keys_of_lookup h
  rwa [labels_keys] at this

theorem lookup_step_some {L : List (Nat × Nat)} {e : Nat × Nat} {la lb : Nat}
    (ha : lookup e.1 L = some la) (hb : lookup e.2 L = some lb) (x : Nat) :
    lookup x (step L e) = (lookup x L).map (relabel la lb) := by
  unfold step
  rw [ha, hb]
  exact lookup_map _ _ _

theorem step_none {L : List (Nat × Nat)} {e : Nat × Nat}
    (h : lookup e.1 L = none ∨ lookup e.2 L = none) : step L e = L := by
  unfold step
  split
  · rename_i la lb ha hb
    rcases h with h | h
    · rw [h] at ha; cases ha
    · rw [h] at hb; cases hb
  · rfl

/-- Key invariant: two nodes carry the same label iff they are connected. -/
theorem labels_spec (nodes : List Nat) (edges : List (Nat × Nat)) :
    ∀ u v, u ∈ nodes → v ∈ nodes →
      (lookup u (labels nodes edges) = lookup v (labels nodes edges) ↔ Conn nodes edges u v) := by
  induction edges using List.reverseRecOn with
  | nil =>
    intro u v hu hv
    simp only [labels, List.foldl_nil, lookup_initLabels, hu, hv, if_true]
    constructor
    · intro h
      cases h
      exact Conn.refl _
    · intro h
      induction h with
      | refl => rfl
      | tail _ hab _ => exact absurd hab.2.2 (by simp)
  | append_singleton es e ih =>
    intro u v hu hv
    rw [labels_snoc]
    have hmono : ∀ x y, Conn nodes es x y → Conn nodes (es ++ [e]) x y := fun x y h =>
      h.mono (fun x y hxy => ⟨hxy.1, hxy.2.1, hxy.2.2.imp
        (fun h => List.mem_append_left _ h) (fun h => List.mem_append_left _ h)⟩)
    cases ha : lookup e.1 (labels nodes es) with
    | none =>
      rw [step_none (Or.inl ha), ih u v hu hv]
      have hna : e.1 ∉ nodes := by
        have := (lookup_eq_none_iff _ _).1 ha
        rwa [labels_keys] at this
      constructor
      · exact hmono u v
      · intro h
        refine h.mono (fun x y hxy => ⟨hxy.1, hxy.2.1, ?_⟩)
        rcases hxy with ⟨hx, hy, h | h⟩
        · rcases List.mem_append.1 h with h | h
          · exact Or.inl h
          · simp at h; subst h; exact absurd hx hna
        · rcases List.mem_append.1 h with h | h
          · exact Or.inr h
          · simp at h; subst h; exact absurd hy hna
    | some la =>
      cases hb : lookup e.2 (labels nodes es) with
      | none =>
        rw [step_none (Or.inr hb), ih u v hu hv]
        have hnb : e.2 ∉ nodes := by
          have := (lookup_eq_none_iff _ _).1 hb
          rwa [labels_keys] at this
        constructor
        · exact hmono u v
        · intro h
          refine h.mono (fun x y hxy => ⟨hxy.1, hxy.2.1, ?_⟩)
          rcases hxy with ⟨hx, hy, h | h⟩
          · rcases List.mem_append.1 h with h | h
            · exact Or.inl h
            · simp at h; subst h; exact absurd hy hnb
          · rcases List.mem_append.1 h with h | h
            · exact Or.inr h
            · simp at h; subst h; exact absurd hx hnb
      | some lb =>
        have hA : e.1 ∈ nodes := mem_nodes_of_lookup_labels ha
        have hB : e.2 ∈ nodes := mem_nodes_of_lookup_labels hb
        have hab : Conn nodes (es ++ [e]) e.1 e.2 :=
          Conn.of_adj ⟨hA, hB, Or.inl (by simp)⟩
        constructor
        · -- soundness: equal new labels → connected
          intro h
          rw [lookup_step_some ha hb, lookup_step_some ha hb] at h
          obtain ⟨lu, hlu⟩ := lookup_labels_isSome es hu
          obtain ⟨lv, hlv⟩ := lookup_labels_isSome es hv
          rw [hlu, hlv] at h
          simp only [Option.map_some, Option.some.injEq, relabel, beq_iff_eq] at h
          -- helpers: equal old labels → connected in the new graph
          have old : ∀ x y lx, x ∈ nodes → y ∈ nodes → lookup x (labels nodes es) = some lx →
              lookup y (labels nodes es) = some lx → Conn nodes (es ++ [e]) x y :=
            fun x y lx hx hy h₁ h₂ => hmono x y ((ih x y hx hy).1 (h₁.trans h₂.symm))
          by_cases h₁ : lu = la
          · by_cases h₂ : lv = la
            · subst h₁ h₂
              exact old u v _ hu hv hlu hlv
            · rw [if_pos h₁, if_neg h₂] at h
              subst h₁ h
              exact ((old u e.1 _ hu hA hlu ha).trans hab).trans (old e.2 v _ hB hv hb hlv)
          · by_cases h₂ : lv = la
            · rw [if_neg h₁, if_pos h₂] at h
              subst h₂ h
              exact ((old u e.2 _ hu hB hlu hb).trans hab.symm).trans (old e.1 v _ hA hv ha hlv)
            · rw [if_neg h₁, if_neg h₂] at h
              subst h
              exact old u v _ hu hv hlu hlv
        · -- completeness: connected → equal new labels
          intro h
          clear hu hv
          induction h with
          | refl => rfl
          | @tail w v' _ hwv ihc =>
            rw [ihc]
            obtain ⟨hw, hv', hE⟩ := hwv
            rw [lookup_step_some ha hb, lookup_step_some ha hb]
            have key : ∀ x y, x ∈ nodes → y ∈ nodes → (x, y) ∈ es ++ [e] →
                (lookup x (labels nodes es)).map (relabel la lb)
                  = (lookup y (labels nodes es)).map (relabel la lb) := by
              intro x y hx hy hxy
              rcases List.mem_append.1 hxy with hxy | hxy
              · rw [(ih x y hx hy).2 (Conn.of_adj ⟨hx, hy, Or.inl hxy⟩)]
              · simp at hxy
                subst hxy
                simp only at ha hb
                rw [ha, hb]
                simp [relabel]
            rcases hE with hE | hE
            · exact key w v' hw hv' hE
            · exact (key v' w hv' hw hE).symm

/-! ## Grouping lemmas (`classOf`, `isFirst`, `componentsOf`) -/

theorem mem_classOf {L : List (Nat × Nat)} {l v : Nat} : v ∈ classOf L l ↔ (v, l) ∈ L := by
  unfold classOf
  simp only [List.mem_map, List.mem_filter, beq_iff_eq]
  constructor
  · rintro ⟨⟨a, b⟩, ⟨hp, rfl⟩, rfl⟩
    exact hp
  · intro h
    exact ⟨(v, l), ⟨h, rfl⟩, rfl⟩

theorem mem_componentsOf {L : List (Nat × Nat)} {c : List Nat} :
    c ∈ componentsOf L ↔ ∃ p ∈ L, isFirst L p = true ∧ classOf L p.2 = c := by
  unfold componentsOf
  simp only [List.mem_map, List.mem_filter]
  constructor
  · rintro ⟨p, ⟨hp, hf⟩, rfl⟩; exact ⟨p, hp, hf, rfl⟩
  · rintro ⟨p, hp, hf, rfl⟩; exact ⟨p, ⟨hp, hf⟩, rfl⟩

theorem isFirst_inj {L : List (Nat × Nat)} {p q : Nat × Nat}
    (hp : isFirst L p = true) (hq : isFirst L q = true) (h : p.2 = q.2) : p = q := by
  unfold isFirst at hp hq
  rw [h] at hp
  cases hf : L.find? (fun r => r.2 == q.2) with
  | none => rw [hf] at hp; cases hp
  | some r =>
    rw [hf] at hp hq
    simp only [beq_iff_eq] at hp hq
    exact Prod.ext (hp.symm.trans hq) h

theorem exists_first {L : List (Nat × Nat)} {v l : Nat} (h : (v, l) ∈ L) :
    ∃ q ∈ L, isFirst L q = true ∧ q.2 = l := by
  cases hf : L.find? (fun r => r.2 == l) with
  | none =>
    have := List.find?_eq_none.1 hf (v, l) h
    simp at this
  | some q =>
    have hq2 : q.2 = l := by simpa using List.find?_some hf
    refine ⟨q, List.mem_of_find?_eq_some hf, ?_, hq2⟩
    unfold isFirst
    rw [hq2, hf]
    simp

/-! ## Main theorems -/

theorem sameComp_eq_true_iff_lookup (nodes : List Nat) (edges : List (Nat × Nat)) (u v : Nat)
    (hu : u ∈ nodes) :
    sameComp nodes edges u v = true ↔
      lookup u (labels nodes edges) = lookup v (labels nodes edges) := by
  obtain ⟨l, hl⟩ := lookup_labels_isSome edges hu
  unfold sameComp
  rw [hl]
  simp only [beq_iff_eq]
  exact eq_comm

theorem sameComp_iff (nodes : List Nat) (edges : List (Nat × Nat)) (_hn : nodes.Nodup)
    (u v : Nat) (hu : u ∈ nodes) (hv : v ∈ nodes) :
    sameComp nodes edges u v = true ↔ Conn nodes edges u v := by
  rw [sameComp_eq_true_iff_lookup nodes edges u v hu]
  exact labels_spec nodes edges u v hu hv

/-- `sameComp` is `false` as soon as one argument is not a node. -/
theorem sameComp_of_not_mem (nodes : List Nat) (edges : List (Nat × Nat)) (u v : Nat)
    (h : u ∉ nodes ∨ v ∉ nodes) : sameComp nodes edges u v = false := by
  unfold sameComp
  cases hl : lookup u (labels nodes edges) with
  | none => rfl
  | some l =>
    have hu := mem_nodes_of_lookup_labels hl
    rcases h with h | h
    · exact absurd hu h
    · simp only [beq_eq_false_iff_ne, ne_eq]
      intro hv
      exact h (mem_nodes_of_lookup_labels hv)

theorem mem_components_iff (nodes : List Nat) (edges : List (Nat × Nat)) (hn : nodes.Nodup)
    (c : List Nat) (u : Nat) (hc : c ∈ components nodes edges) (hu : u ∈ c) (v : Nat) :
    v ∈ c ↔ (v ∈ nodes ∧ Conn nodes edges u v) := by
  obtain ⟨p, _, _, rfl⟩ := mem_componentsOf.1 hc
  have hk : ((labels nodes edges).map Prod.fst).Nodup := by rw [labels_keys]; exact hn
  rw [mem_classOf] at hu ⊢
  have hlu := lookup_of_mem hk hu
  have hun : u ∈ nodes := mem_nodes_of_lookup_labels hlu
  constructor
  · intro hv
    have hlv := lookup_of_mem hk hv
    have hvn : v ∈ nodes := mem_nodes_of_lookup_labels hlv
    exact ⟨hvn, (labels_spec nodes edges u v hun hvn).1 (hlu.trans hlv.symm)⟩
  · rintro ⟨hvn, hconn⟩
    have := (labels_spec nodes edges u v hun hvn).2 hconn
    exact mem_of_lookup (this ▸ hlu)

theorem components_cover (nodes : List Nat) (edges : List (Nat × Nat)) (_hn : nodes.Nodup)
    (v : Nat) : v ∈ nodes ↔ ∃ c ∈ components nodes edges, v ∈ c := by
  constructor
  · intro hv
    obtain ⟨l, hl⟩ := lookup_labels_isSome edges hv
    have hm := mem_of_lookup hl
    obtain ⟨q, hq, hf, hq2⟩ := exists_first hm
    exact ⟨classOf (labels nodes edges) q.2, mem_componentsOf.2 ⟨q, hq, hf, rfl⟩,
      mem_classOf.2 (hq2 ▸ hm)⟩
  · rintro ⟨c, hc, hv⟩
    obtain ⟨p, _, _, rfl⟩ := mem_componentsOf.1 hc
    have : v ∈ (labels nodes edges).map Prod.fst := List.mem_map.2 ⟨_, mem_classOf.1 hv, rfl⟩
    rwa [labels_keys] at this

theorem components_ne_nil (nodes : List Nat) (edges : List (Nat × Nat)) (c : List Nat)
    (hc : c ∈ components nodes edges) : c ≠ [] := by
  obtain ⟨p, hp, _, rfl⟩ := mem_componentsOf.1 hc
  have : p.1 ∈ classOf (labels nodes edges) p.2 := mem_classOf.2 hp
  exact List.ne_nil_of_mem this

theorem components_sublist (nodes : List Nat) (edges : List (Nat × Nat)) :
    ∀ c ∈ components nodes edges, c.Sublist nodes := by
  intro c hc
  obtain ⟨p, _, _, rfl⟩ := mem_componentsOf.1 hc
  have h : (classOf (labels nodes edges) p.2).Sublist ((labels nodes edges).map Prod.fst) :=
    List.Sublist.map _ List.filter_sublist
  rwa [labels_keys] at h

theorem components_nodup (nodes : List Nat) (edges : List (Nat × Nat)) (hn : nodes.Nodup) :
    ∀ c ∈ components nodes edges, c.Nodup :=
  fun c hc => (components_sublist nodes edges c hc).nodup hn

theorem components_disjoint (nodes : List Nat) (edges : List (Nat × Nat)) (hn : nodes.Nodup) :
    (components nodes edges).Pairwise List.Disjoint := by
  have hk : ((labels nodes edges).map Prod.fst).Nodup := by rw [labels_keys]; exact hn
  have hL : (labels nodes edges).Nodup := List.Nodup.of_map _ hk
  unfold components componentsOf
  rw [List.pairwise_map]
  have h₁ : ((labels nodes edges).filter (isFirst (labels nodes edges))).Pairwise (· ≠ ·) :=
    hL.filter _
  refine List.Pairwise.imp_of_mem ?_ h₁
  intro p q hp hq hne
  rw [List.mem_filter] at hp hq
  intro v hvp hvq
  rw [mem_classOf] at hvp hvq
  have := (lookup_of_mem hk hvp).symm.trans (lookup_of_mem hk hvq)
  exact hne (isFirst_inj hp.2 hq.2 (Option.some.inj this))

theorem components_length_le (nodes : List Nat) (edges : List (Nat × Nat)) :
    (components nodes edges).length ≤ nodes.length := by
  unfold components componentsOf
  rw [List.length_map]
  calc _ ≤ (labels nodes edges).length := List.length_filter_le _ _
    _ = ((labels nodes edges).map Prod.fst).length := (List.length_map _).symm
    _ = nodes.length := by rw [labels_keys]

/-! ## `compIndex` -/

theorem compIndex_spec (nodes : List Nat) (edges : List (Nat × Nat)) (hn : nodes.Nodup)
    (v i : Nat) :
    compIndex nodes edges v = some i ↔ ∃ c, (components nodes edges)[i]? = some c ∧ v ∈ c := by
  unfold compIndex
  rw [List.findIdx?_eq_some_iff_getElem]
  constructor
  · rintro ⟨hi, hv, _⟩
    exact ⟨_, List.getElem?_eq_getElem hi, by simpa using hv⟩
  · rintro ⟨c, hc, hv⟩
    obtain ⟨hi, rfl⟩ := List.getElem?_eq_some_iff.1 hc
    refine ⟨hi, by simpa using hv, ?_⟩
    intro j hji hvj
    have hd := List.pairwise_iff_getElem.1 (components_disjoint nodes edges hn) j i
      (Nat.lt_trans hji hi) hi hji
    exact hd (by simpa using hvj) hv

theorem compIndex_isSome (nodes : List Nat) (edges : List (Nat × Nat)) (hn : nodes.Nodup)
    (v : Nat) (hv : v ∈ nodes) : ∃ i, compIndex nodes edges v = some i := by
  obtain ⟨c, hc, hvc⟩ := (components_cover nodes edges hn v).1 hv
  obtain ⟨i, hi, rfl⟩ := List.getElem_of_mem hc
  exact ⟨i, (compIndex_spec nodes edges hn v i).2 ⟨_, List.getElem?_eq_getElem hi, hvc⟩⟩

theorem compIndex_eq_none_iff (nodes : List Nat) (edges : List (Nat × Nat)) (hn : nodes.Nodup)
    (v : Nat) : compIndex nodes edges v = none ↔ v ∉ nodes := by
  constructor
  · intro h hv
    obtain ⟨i, hi⟩ := compIndex_isSome nodes edges hn v hv
    rw [h] at hi; cases hi
  · intro hv
    cases h : compIndex nodes edges v with
    | none => rfl
    | some i =>
      obtain ⟨c, hc, hvc⟩ := (compIndex_spec nodes edges hn v i).1 h
      exact absurd ((components_cover nodes edges hn v).2 ⟨c, List.mem_of_getElem? hc, hvc⟩) hv

theorem compIndex_eq_iff (nodes : List Nat) (edges : List (Nat × Nat)) (hn : nodes.Nodup)
    (u v : Nat) (hu : u ∈ nodes) (hv : v ∈ nodes) :
    compIndex nodes edges u = compIndex nodes edges v ↔ Conn nodes edges u v := by
  obtain ⟨i, hi⟩ := compIndex_isSome nodes edges hn u hu
  obtain ⟨c, hc, huc⟩ := (compIndex_spec nodes edges hn u i).1 hi
  have hcm : c ∈ components nodes edges := List.mem_of_getElem? hc
  constructor
  · intro h
    rw [hi] at h
    obtain ⟨c', hc', hvc'⟩ := (compIndex_spec nodes edges hn v i).1 h.symm
    rw [hc] at hc'
    cases hc'
    exact ((mem_components_iff nodes edges hn c u hcm huc v).1 hvc').2
  · intro h
    have hvc : v ∈ c := (mem_components_iff nodes edges hn c u hcm huc v).2 ⟨hv, h⟩
    rw [hi, (compIndex_spec nodes edges hn v i).2 ⟨c, hc, hvc⟩]

/-! ## The components form a partition of `nodes` -/

theorem components_flatten_perm (nodes : List Nat) (edges : List (Nat × Nat)) (hn : nodes.Nodup) :
    (components nodes edges).flatten.Perm nodes := by
  have hnd : (components nodes edges).flatten.Nodup := by
    rw [List.nodup_flatten]
    exact ⟨components_nodup nodes edges hn, components_disjoint nodes edges hn⟩
  refine (List.perm_ext_iff_of_nodup hnd hn).2 ?_
  intro v
  rw [List.mem_flatten, components_cover nodes edges hn v]

/-! ## Order of the components (NetworkX order: by first node of each component) -/

theorem head?_classOf_of_isFirst {L : List (Nat × Nat)} {p : Nat × Nat}
    (hf : isFirst L p = true) : (classOf L p.2).head? = some p.1 := by
  unfold isFirst at hf
  unfold classOf
  rw [List.head?_map, List.head?_filter]
  cases hq : L.find? (fun q => q.2 == p.2) with
  | none => rw [hq] at hf; cases hf
  | some q =>
    rw [hq] at hf
    simp only [beq_iff_eq] at hf
    simp [hf]

/-- The first nodes of the components, in the order of `components`, appear in `nodes` in
that same order. -/
theorem components_heads_sublist (nodes : List Nat) (edges : List (Nat × Nat)) :
    ((components nodes edges).filterMap List.head?).Sublist nodes := by
  have h : (components nodes edges).filterMap List.head?
      = ((labels nodes edges).filter (isFirst (labels nodes edges))).map Prod.fst := by
    unfold components componentsOf
    rw [List.filterMap_map, ← List.filterMap_eq_map]
    apply List.filterMap_congr
    intro p hp
    exact head?_classOf_of_isFirst (List.mem_filter.1 hp).2
  rw [h]
  have := List.Sublist.map Prod.fst
    (List.filter_sublist (p := isFirst (labels nodes edges)) (l := labels nodes edges))
  rwa [labels_keys] at this

/-! ## Non-vacuity checks -/

example : components [3, 1, 2, 5] [(1, 2), (5, 5), (2, 1)] = [[3], [1, 2], [5]] := by decide
example : components [4, 0, 7, 2, 9] [(9, 4), (2, 0), (8, 7), (0, 2), (2, 2)]
    = [[4, 9], [0, 2], [7]] := by decide
example : components [] [(1, 2)] = [] := by decide
example : sameComp [3, 1, 2, 5] [(1, 2), (5, 5), (2, 1)] 2 1 = true := by decide
example : sameComp [3, 1, 2, 5] [(1, 2), (5, 5), (2, 1)] 3 1 = false := by decide
example : compIndex [3, 1, 2, 5] [(1, 2), (5, 5), (2, 1)] 5 = some 2 := by decide
example : compIndex [3, 1, 2, 5] [(1, 2), (5, 5), (2, 1)] 4 = none := by decide
example : Conn [3, 1, 2, 5] [(1, 2), (5, 5), (2, 1)] 2 1 :=
  (sameComp_iff _ _ (by decide) 2 1 (by decide) (by decide)).1 (by decide)
example : ¬ Conn [3, 1, 2, 5] [(1, 2), (5, 5), (2, 1)] 3 1 := fun h =>
  absurd ((sameComp_iff _ _ (by decide) 3 1 (by decide) (by decide)).2 h) (by decide)

end SynKit.GraphAlg

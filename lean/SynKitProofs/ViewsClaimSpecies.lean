import SynKitModel.ViewsClaim
import SynKitProofs.ViewsClaimBasic
import SynKitProofs.ViewsLemmas.Species
/-! # C16: the species-graph importer on degraded views (claim condition ⇒ round trip)

* §A  generic part: the first pass of the raw importer is a fold of `Sp.MStep`s; whenever the step
  list says about `N` what `MSpec` asks, the raw importer rebuilds `N` (`roundtrip_of_mspec`).
* §B  the exported graph satisfies `MSpec`, `arcOK` transfers it to a degraded graph, hence
  `speciesRawClaim_roundtrip`.
* §C  `via` handed over as a bare id / not at all.
* §D  legacy coefficients: `ArcsUniform` / `AllOnes` imply the claim for the standard degradations.
-/
namespace SynKit.Views.Raw
open SynKit SynKit.Views

/-! ## A. Generic part -/

/-- What the list of (arc, id) steps fed to the first pass must say about `N`. -/
structure MSpec (N : Net) (M : List Sp.MStep) : Prop where
  sound : ∀ m ∈ M, ∃ e ∈ N.rxns, e.id = m.eid ∧ (m.sr, m.cr) ∈ e.reactants ∧ (m.sp, m.cp) ∈ e.products
  cover : ∀ e ∈ N.rxns, ∀ r ∈ e.reactants, ∀ p ∈ e.products,
    ∃ m ∈ M, m.eid = e.id ∧ m.sr = r.1 ∧ m.sp = p.1

/-- The `(arc, id)` steps of one raw arc. -/
def mstepsOfRaw (genArc : GenArc) (g : RSGraph) (a : REdge) : List Sp.MStep :=
  (a.eids genArc).map fun eid =>
    ⟨eid, g.labelOf a.src, g.labelOf a.dst, coeffFor a.rMap a.stoichR eid, coeffFor a.pMap a.stoichP eid,
      a.rules.toList⟩

theorem collectEntriesRaw_eq (genArc : GenArc) (g : RSGraph) :
    collectEntriesRaw genArc g = (g.edges.flatMap (mstepsOfRaw genArc g)).foldl Sp.stepU [] := by
  unfold collectEntriesRaw
  rw [List.foldl_flatMap]
  congr 1
  funext es a
  unfold mstepsOfRaw
  rw [List.foldl_map]
  rfl

theorem mem_mstepsOfRaw (genArc : GenArc) (g : RSGraph) (a : REdge) (m : Sp.MStep) :
    m ∈ mstepsOfRaw genArc g a ↔
      m.eid ∈ a.eids genArc ∧ m.sr = g.labelOf a.src ∧ m.sp = g.labelOf a.dst ∧
        m.cr = coeffFor a.rMap a.stoichR m.eid ∧ m.cp = coeffFor a.pMap a.stoichP m.eid ∧
        m.rules = a.rules.toList := by
  unfold mstepsOfRaw
  rw [List.mem_map]
  constructor
  · rintro ⟨eid, he, rfl⟩; exact ⟨he, rfl, rfl, rfl, rfl, rfl⟩
  · rintro ⟨h1, h2, h3, h4, h5, h6⟩
    refine ⟨m.eid, h1, ?_⟩
    cases m; simp_all

/-- The reaction an entry becomes under `default_rule = d`. -/
def toRxnD (d : String) (x : Entry) : Rxn := ⟨x.eid, normRule (x.rules.head?.getD d), x.reactants, x.products⟩

theorem materialiseRaw_ok (d : String) (E : List Entry) : ∀ N0 : Net,
    (N0.ids ++ E.map (·.eid)).Nodup →
    (∀ x ∈ E, WfSide x.reactants ∧ WfSide x.products ∧ x.reactants ≠ []) →
    ∃ N1, materialiseRaw d N0 E = .ok N1 ∧ N1.rxns = N0.rxns ++ E.map (toRxnD d) ∧ N1.mol = N0.mol ∧
      ∀ s, s ∈ N1.species ↔
        s ∈ N0.species ∨ ∃ x ∈ E, s ∈ x.reactants.keys ∨ s ∈ x.products.keys := by
  induction E with
  | nil => intro N0 _ _; exact ⟨N0, rfl, by simp, rfl, by simp⟩
  | cons x rest ih =>
    intro N0 hn hw
    obtain ⟨wr, wp, hne⟩ := hw x List.mem_cons_self
    have hx : x.eid ∉ N0.ids := by
      intro hh
      unfold List.Nodup at hn
      rw [List.pairwise_append] at hn
      exact hn.2.2 _ hh x.eid (by simp) rfl
    have hemp : (x.reactants.isEmpty && x.products.isEmpty) = false := by
      cases hr : x.reactants with
      | nil => exact absurd hr hne
      | cons _ _ => rfl
    have hadd : ∃ N0', N0.addRxn x.reactants x.products (x.rules.head?.getD d) x.eid = .ok N0' ∧
        N0'.rxns = N0.rxns ++ [toRxnD d x] ∧ N0'.mol = N0.mol ∧
        ∀ s, s ∈ N0'.species ↔ s ∈ N0.species ∨ (s ∈ x.reactants.keys ∨ s ∈ x.products.keys) := by
      refine ⟨{ N0 with rxns := N0.rxns ++ [toRxnD d x],
                        species := (toRxnD d x).speciesOf.foldl setAdd N0.species }, ?_, rfl, rfl, ?_⟩
      · unfold Net.addRxn
        simp only [Sp.normSide_id _ wr, Sp.normSide_id _ wp, hx, hemp, if_false, Bool.false_eq_true, toRxnD]
      · intro s
        show s ∈ (toRxnD d x).speciesOf.foldl setAdd N0.species ↔ _
        rw [Sp.mem_foldl_setAdd]
        show _ ∨ s ∈ x.reactants.keys ++ x.products.keys ↔ _
        rw [List.mem_append]
    obtain ⟨N0', hadd, hr0, hm0, hs0⟩ := hadd
    unfold materialiseRaw
    rw [hadd]
    simp only
    have hn' : (N0'.ids ++ rest.map (·.eid)).Nodup := by
      have : N0'.ids = N0.ids ++ [x.eid] := by
        simp [Net.ids, hr0, toRxnD]
      rw [this, List.append_assoc]
      simpa using hn
    obtain ⟨N1, h1, h2, h3, h4⟩ := ih _ hn' (fun y hy => hw y (List.mem_cons_of_mem _ hy))
    refine ⟨N1, h1, ?_, h3.trans hm0, ?_⟩
    · rw [h2, hr0]; simp
    · intro s
      rw [h4, hs0]
      constructor
      · rintro ((h | h) | ⟨y, hy, h⟩)
        · exact Or.inl h
        · exact Or.inr ⟨x, List.mem_cons_self, h⟩
        · exact Or.inr ⟨y, List.mem_cons_of_mem _ hy, h⟩
      · rintro (h | ⟨y, hy, h⟩)
        · exact Or.inl (Or.inl h)
        · rcases List.mem_cons.1 hy with rfl | hy'
          · exact Or.inl (Or.inr h)
          · exact Or.inr ⟨y, hy', h⟩

/-! ### Assembly from `MSpec` -/

theorem mspec_entry_sub (N : Net) (M : List Sp.MStep) (E : List Entry) (hN : WfNet N)
    (hM : MSpec N M) (hE : Sp.EntInv M E)
    (x : Entry) (hx : x ∈ E) (e : Rxn) (he : e ∈ N.rxns) (hid : e.id = x.eid) :
    (∀ p ∈ x.reactants, p ∈ e.reactants) ∧ (∀ p ∈ x.products, p ∈ e.products) := by
  constructor
  · intro p hp
    obtain ⟨m, hm, hm1, hm2⟩ := hE.srcR x hx p hp
    obtain ⟨e', he', h1, h2, _⟩ := hM.sound m hm
    have : e' = e := Sp.inj_of_nodup_map (fun e : Rxn => e.id) N.rxns hN.idsNodup e' e he' he
      (h1.trans (hm1.trans hid.symm))
    rw [← hm2, ← this]; exact h2
  · intro p hp
    obtain ⟨m, hm, hm1, hm2⟩ := hE.srcP x hx p hp
    obtain ⟨e', he', h1, _, h3⟩ := hM.sound m hm
    have : e' = e := Sp.inj_of_nodup_map (fun e : Rxn => e.id) N.rxns hN.idsNodup e' e he' he
      (h1.trans (hm1.trans hid.symm))
    rw [← hm2, ← this]; exact h3

theorem mspec_entry_rxn (N : Net) (M : List Sp.MStep) (E : List Entry)
    (hM : MSpec N M) (hE : Sp.EntInv M E) (x : Entry) (hx : x ∈ E) : ∃ e ∈ N.rxns, e.id = x.eid := by
  obtain ⟨p, hp⟩ := Sp.exists_mem_of_ne_nil _ (hE.ne x hx).1
  obtain ⟨m, hm, hm1, _⟩ := hE.srcR x hx p hp
  obtain ⟨e, he, h1, _⟩ := hM.sound m hm
  exact ⟨e, he, h1.trans hm1⟩

theorem mspec_entry_cover (N : Net) (M : List Sp.MStep) (E : List Entry)
    (hM : MSpec N M) (hE : Sp.EntInv M E)
    (e : Rxn) (he : e ∈ N.rxns) (r p : String × Nat) (hr : r ∈ e.reactants) (hp : p ∈ e.products) :
    ∃ x ∈ E, x.eid = e.id ∧ r.1 ∈ x.reactants.keys ∧ p.1 ∈ x.products.keys := by
  obtain ⟨m, hm, h1, h2, h3⟩ := hM.cover e he r hr p hp
  obtain ⟨x, hx, hx1, hx2, hx3⟩ := hE.cover m hm
  exact ⟨x, hx, hx1.trans h1, h2 ▸ hx2, h3 ▸ hx3⟩

theorem mspec_entry_perm (N : Net) (M : List Sp.MStep) (E : List Entry) (hN : WfNet N) (h2 : TwoSided N)
    (hM : MSpec N M) (hE : Sp.EntInv M E) (e : Rxn) (he : e ∈ N.rxns) :
    ∃ x ∈ E, x.eid = e.id ∧ x.reactants.Perm e.reactants ∧ x.products.Perm e.products := by
  obtain ⟨hr0, hp0⟩ := h2 e he
  obtain ⟨r0, hr0⟩ := Sp.exists_mem_of_ne_nil _ hr0
  obtain ⟨p0, hp0⟩ := Sp.exists_mem_of_ne_nil _ hp0
  obtain ⟨x, hx, hx1, _, _⟩ := mspec_entry_cover N M E hM hE e he r0 p0 hr0 hp0
  obtain ⟨sr, sp⟩ := mspec_entry_sub N M E hN hM hE x hx e he hx1.symm
  obtain ⟨wr, wp⟩ := hN.sides e he
  obtain ⟨kr, kp⟩ := hE.keys x hx
  have same : ∀ x' ∈ E, x'.eid = e.id → x' = x := fun x' hx' h' =>
    Sp.inj_of_nodup_map (fun y : Entry => y.eid) E hE.eids x' x hx' hx (h'.trans hx1.symm)
  refine ⟨x, hx, hx1, ?_, ?_⟩
  · apply Sp.perm_of_sub_of_keys _ _ kr wr.1 sr
    intro r hr
    obtain ⟨x', hx', h1, h2, _⟩ := mspec_entry_cover N M E hM hE e he r p0 hr hp0
    rw [same x' hx' h1] at h2; exact h2
  · apply Sp.perm_of_sub_of_keys _ _ kp wp.1 sp
    intro p hp
    obtain ⟨x', hx', h1, _, h3⟩ := mspec_entry_cover N M E hM hE e he r0 p hr0 hp
    rw [same x' hx' h1] at h3; exact h3

/-- The entries of the first pass and the materialised network, for any step list meeting `MSpec`. -/
theorem mspec_core (N : Net) (hN : WfNet N) (h2 : TwoSided N) (M : List Sp.MStep) (hM : MSpec N M)
    (d : String) :
    ∃ (E : List Entry) (N1 : Net),
      materialiseRaw d {} (M.foldl Sp.stepU []) = .ok N1 ∧
      N1.rxns = E.map (toRxnD d) ∧ N1.mol = [] ∧
      (∀ s, s ∈ N1.species ↔ ∃ x ∈ E, s ∈ x.reactants.keys ∨ s ∈ x.products.keys) ∧
      (E.map (·.eid)).Nodup ∧
      (∀ x ∈ E, ∃ e ∈ N.rxns, e.id = x.eid ∧
        (∀ p ∈ x.reactants, p ∈ e.reactants) ∧ (∀ p ∈ x.products, p ∈ e.products)) ∧
      (∀ e ∈ N.rxns, ∃ x ∈ E, x.eid = e.id ∧
        x.reactants.Perm e.reactants ∧ x.products.Perm e.products) := by
  have hE : Sp.EntInv M (M.foldl Sp.stepU []) := Sp.entInv_fold M
  generalize M.foldl Sp.stepU [] = E at hE
  have hsub : ∀ x ∈ E, ∃ e ∈ N.rxns, e.id = x.eid ∧
      (∀ p ∈ x.reactants, p ∈ e.reactants) ∧ (∀ p ∈ x.products, p ∈ e.products) := by
    intro x hx
    obtain ⟨e, he, hid⟩ := mspec_entry_rxn N M E hM hE x hx
    exact ⟨e, he, hid, mspec_entry_sub N M E hN hM hE x hx e he hid⟩
  have hwf : ∀ x ∈ E, WfSide x.reactants ∧ WfSide x.products ∧ x.reactants ≠ [] := by
    intro x hx
    obtain ⟨e, he, _, sr, sp⟩ := hsub x hx
    obtain ⟨wr, wp⟩ := hN.sides e he
    exact ⟨⟨(hE.keys x hx).1, fun kv hkv => wr.2 kv (sr kv hkv)⟩,
      ⟨(hE.keys x hx).2, fun kv hkv => wp.2 kv (sp kv hkv)⟩, (hE.ne x hx).1⟩
  obtain ⟨N1, hmat, hrx, hmol, hsp⟩ := materialiseRaw_ok d E {} (by simpa [Net.ids] using hE.eids) hwf
  refine ⟨E, N1, hmat, by rw [hrx]; rfl, hmol, ?_, hE.eids, hsub,
    fun e he => mspec_entry_perm N M E hN h2 hM hE e he⟩
  intro s
  rw [hsp]
  constructor
  · rintro (h | h)
    · cases h
    · exact h
  · exact Or.inr

theorem roundtrip_of_mspec (N : Net) (hN : WfNet N) (h2 : TwoSided N) (M : List Sp.MStep)
    (hM : MSpec N M) (d : String) :
    ∃ N1, materialiseRaw d {} (M.foldl Sp.stepU []) = .ok N1 ∧ N1.ids.Perm N.ids ∧
      ∀ e ∈ N.rxns, ∃ e' ∈ N1.rxns, e'.id = e.id ∧
        e'.reactants.Perm e.reactants ∧ e'.products.Perm e.products := by
  obtain ⟨E, N1, hmat, hrx, _, _, hnd, hsub, hperm⟩ := mspec_core N hN h2 M hM d
  refine ⟨N1, hmat, ?_, ?_⟩
  · have hids : N1.ids = E.map (·.eid) := by
      unfold Net.ids
      rw [hrx, List.map_map]
      rfl
    rw [hids, List.perm_ext_iff_of_nodup hnd hN.idsNodup]
    intro i
    constructor
    · intro hi
      obtain ⟨x, hx, rfl⟩ := List.mem_map.1 hi
      obtain ⟨e, he, hid, _⟩ := hsub x hx
      exact List.mem_map.2 ⟨e, he, hid⟩
    · intro hi
      obtain ⟨e, he, rfl⟩ := List.mem_map.1 hi
      obtain ⟨x, hx, hx1, _⟩ := hperm e he
      exact List.mem_map.2 ⟨x, hx, hx1⟩
  · intro e he
    obtain ⟨x, hx, hx1, hx2, hx3⟩ := hperm e he
    refine ⟨toRxnD d x, ?_, hx1, hx2, hx3⟩
    rw [hrx]
    exact List.mem_map.2 ⟨x, hx, rfl⟩

theorem importMolSRaw_rxns (molOn : Bool) (g : RSGraph) (N : Net) : (importMolSRaw molOn g N).rxns = N.rxns := by
  unfold importMolSRaw
  cases molOn
  · rfl
  · exact Sp.importMolS_rxns_aux g.nodes N

theorem importMolSRaw_ids (molOn : Bool) (g : RSGraph) (N : Net) : (importMolSRaw molOn g N).ids = N.ids := by
  unfold Net.ids; rw [importMolSRaw_rxns]

/-! ## B. The exported graph meets the spec, and the claim condition transfers it -/

/-- The arc map of `SGraph.toRaw`. -/
def rawArc (a : SEdge) : REdge :=
  { src := a.src, dst := a.dst, via := .seq a.via, rules := .set a.rules,
    stoichR := some a.stoichR, stoichP := some a.stoichP, rMap := some a.rMap, pMap := some a.pMap }

theorem sToRaw_edges (g : SGraph) : g.toRaw.edges = g.edgesIter.map rawArc := rfl
theorem sToRaw_nodes (g : SGraph) : g.toRaw.nodes = g.nodes := rfl
theorem sLabelOf_toRaw (g : SGraph) (i : String) : g.toRaw.labelOf i = g.labelOf i := rfl

theorem coeffFor_some_some (m : Dict Nat) (c : Nat) (eid : String) :
    coeffFor (some m) (some c) eid = (m.get? eid).getD c := by
  unfold coeffFor
  show (match m.get? eid with | some c => c | none => c) = _
  cases m.get? eid <;> rfl

theorem coeffFor_of_get (m : Dict Nat) (l : Option Nat) (eid : String) (v : Nat) (h : m.get? eid = some v) :
    coeffFor (some m) l eid = v := by
  unfold coeffFor
  show (match m.get? eid with | some c => c | none => l.getD 1) = _
  rw [h]

theorem coeffFor_none_none (eid : String) : coeffFor none none eid = 1 := rfl

theorem coeffFor_none_some (c : Nat) (eid : String) : coeffFor none (some c) eid = c := rfl

theorem eids_rawArc (genArc : GenArc) (a : SEdge) (h : a.via ≠ []) : (rawArc a).eids genArc = a.via := by
  unfold REdge.eids rawArc
  cases hv : a.via with
  | nil => exact absurd hv h
  | cons x xs => rfl

/-- What is known about the exported species graph of a well-formed network. -/
structure ExportFacts (N : Net) (g : SGraph) : Prop where
  nodeOK : Sp.NodeOK g.nodes
  edges_eq : g.edges = (Sp.allSteps N).foldl Sp.stepE []
  arcInv : Sp.ArcInv (Sp.allSteps N) g.edges
  iter : ∀ a, a ∈ g.edgesIter ↔ a ∈ g.edges

theorem export_facts (b : Bool) (N : Net) (hN : WfNet N) : ExportFacts N (toSpeciesGraph b N) := by
  have hg := Sp.toSpeciesGraph_eq b N
  generalize toSpeciesGraph b N = g at hg
  have hedges : g.edges = (Sp.allSteps N).foldl Sp.stepE [] := by
    rw [hg, Sp.foldl_stepG_edges]; rfl
  have hnodes := Sp.nodes_fold (Sp.allSteps N)
    (N.species.map fun s => (⟨s, some s, if b then N.mol.get? s else none⟩ : SNode))
    (by intro n hn; obtain ⟨s, _, rfl⟩ := List.mem_map.1 hn; rfl)
  have hnodes' : g.nodes = (Sp.allSteps N).foldl Sp.stepN
      (N.species.map fun s => (⟨s, some s, if b then N.mol.get? s else none⟩ : SNode)) := by
    rw [hg, Sp.foldl_stepG_nodes]; rfl
  rw [← hnodes'] at hnodes
  obtain ⟨hOK, _, hHas⟩ := hnodes
  have hA : Sp.ArcInv (Sp.allSteps N) g.edges := by
    rw [hedges]; exact Sp.arcInv_fold _ (Sp.functional_allSteps N hN)
  refine ⟨hOK, hedges, hA, ?_⟩
  intro a
  rw [Sp.mem_edgesIter]
  constructor
  · exact And.left
  · intro ha
    refine ⟨ha, ?_⟩
    obtain ⟨eid, heid⟩ := Sp.exists_mem_of_ne_nil _ (hA.via_ne a ha)
    obtain ⟨t, ht, h1, _⟩ := (hA.via_iff a ha eid).1 heid
    rw [← h1]; exact hHas t ht

/-- On the exported graph the raw steps of an arc are the steps `Sp.mstepsOf`. -/
theorem mstepsOfRaw_rawArc (genArc : GenArc) (g : SGraph) (hOK : Sp.NodeOK g.nodes) (a : SEdge)
    (hv : a.via ≠ []) : mstepsOfRaw genArc g.toRaw (rawArc a) = Sp.mstepsOf a := by
  unfold mstepsOfRaw Sp.mstepsOf
  rw [eids_rawArc genArc a hv]
  apply List.map_congr_left
  intro eid _
  simp only [sLabelOf_toRaw, Sp.labelOf_eq g hOK]
  show Sp.MStep.mk eid a.src a.dst (coeffFor (some a.rMap) (some a.stoichR) eid)
    (coeffFor (some a.pMap) (some a.stoichP) eid) a.rules = _
  rw [coeffFor_some_some, coeffFor_some_some]

theorem mem_export_steps (genArc : GenArc) (N : Net) (g : SGraph) (hg : ExportFacts N g) (m : Sp.MStep) :
    m ∈ g.toRaw.edges.flatMap (mstepsOfRaw genArc g.toRaw) ↔ m ∈ g.edgesIter.flatMap Sp.mstepsOf := by
  rw [sToRaw_edges]
  simp only [List.mem_flatMap, List.mem_map]
  constructor
  · rintro ⟨a', ⟨a, ha, rfl⟩, hm⟩
    rw [mstepsOfRaw_rawArc genArc g hg.nodeOK a (hg.arcInv.via_ne a ((hg.iter a).1 ha))] at hm
    exact ⟨a, ha, hm⟩
  · rintro ⟨a, ha, hm⟩
    refine ⟨rawArc a, ⟨a, ha, rfl⟩, ?_⟩
    rw [mstepsOfRaw_rawArc genArc g hg.nodeOK a (hg.arcInv.via_ne a ((hg.iter a).1 ha))]
    exact hm

theorem mspec_export (b : Bool) (N : Net) (genArc : GenArc) (hN : WfNet N) :
    MSpec N ((toSpeciesGraph b N).toRaw.edges.flatMap (mstepsOfRaw genArc (toSpeciesGraph b N).toRaw)) := by
  have hg := export_facts b N hN
  generalize toSpeciesGraph b N = g at hg
  have hA := hg.arcInv
  constructor
  · intro m hm
    rw [mem_export_steps genArc N g hg] at hm
    exact Sp.mstep_spec N g.edges g.edgesIter hA (fun a ha => (hg.iter a).1 ha) m hm
  · intro e he r hr p hp
    have ht : (⟨r.1, p.1, e.id, e.rule, r.2, p.2⟩ : Sp.Step) ∈ Sp.allSteps N :=
      (Sp.mem_allSteps N _).2 ⟨e, he, (Sp.mem_stepsOf e _).2 ⟨rfl, rfl, hr, hp⟩⟩
    obtain ⟨a, ha, h1, h2⟩ := hA.cover _ ht
    have hvia : e.id ∈ a.via := (hA.via_iff a ha e.id).2 ⟨_, ht, h1.symm, h2.symm, rfl⟩
    refine ⟨⟨e.id, a.src, a.dst, (a.rMap.get? e.id).getD a.stoichR, (a.pMap.get? e.id).getD a.stoichP,
      a.rules⟩, ?_, rfl, h1, h2⟩
    rw [mem_export_steps genArc N g hg]
    exact List.mem_flatMap.2 ⟨a, (hg.iter a).2 ha, (Sp.mem_mstepsOf a _).2 ⟨hvia, rfl, rfl, rfl, rfl, rfl⟩⟩

/-! ### Transfer along `arcOK` -/

/-- Two steps that agree on everything `MSpec` looks at (all but the rules). -/
def Same5 (m m' : Sp.MStep) : Prop :=
  m.eid = m'.eid ∧ m.sr = m'.sr ∧ m.sp = m'.sp ∧ m.cr = m'.cr ∧ m.cp = m'.cp

theorem mspec_transfer (N : Net) (M M' : List Sp.MStep)
    (h1 : ∀ m' ∈ M', ∃ m ∈ M, Same5 m m') (h2 : ∀ m ∈ M, ∃ m' ∈ M', Same5 m m')
    (hM : MSpec N M) : MSpec N M' := by
  constructor
  · intro m' hm'
    obtain ⟨m, hm, a1, a2, a3, a4, a5⟩ := h1 m' hm'
    obtain ⟨e, he, b1, b2, b3⟩ := hM.sound m hm
    exact ⟨e, he, b1.trans a1, a2 ▸ a4 ▸ b2, a3 ▸ a5 ▸ b3⟩
  · intro e he r hr p hp
    obtain ⟨m, hm, b1, b2, b3⟩ := hM.cover e he r hr p hp
    obtain ⟨m', hm', a1, a2, a3, _, _⟩ := h2 m hm
    exact ⟨m', hm', a1.symm.trans b1, a2.symm.trans b2, a3.symm.trans b3⟩

theorem all2_mem_left {α β : Type} (r : α → β → Bool) : ∀ (l : List α) (l' : List β),
    all2 r l l' = true → ∀ a ∈ l, ∃ a' ∈ l', r a a' = true := by
  intro l
  induction l with
  | nil => intro l' _ a ha; cases ha
  | cons x xs ih =>
    intro l' h a ha
    cases l' with
    | nil => simp [all2] at h
    | cons y ys =>
      simp only [all2, Bool.and_eq_true] at h
      rcases List.mem_cons.1 ha with rfl | ha
      · exact ⟨y, List.mem_cons_self, h.1⟩
      · obtain ⟨a', ha', hr⟩ := ih ys h.2 a ha
        exact ⟨a', List.mem_cons_of_mem _ ha', hr⟩

theorem all2_mem_right {α β : Type} (r : α → β → Bool) : ∀ (l : List α) (l' : List β),
    all2 r l l' = true → ∀ a' ∈ l', ∃ a ∈ l, r a a' = true := by
  intro l
  induction l with
  | nil => intro l' h a' ha'; cases l' with
    | nil => cases ha'
    | cons y ys => simp [all2] at h
  | cons x xs ih =>
    intro l' h a' ha'
    cases l' with
    | nil => cases ha'
    | cons y ys =>
      simp only [all2, Bool.and_eq_true] at h
      rcases List.mem_cons.1 ha' with rfl | ha'
      · exact ⟨x, List.mem_cons_self, h.1⟩
      · obtain ⟨a, ha, hr⟩ := ih ys h.2 a' ha'
        exact ⟨a, List.mem_cons_of_mem _ ha, hr⟩

theorem arcOK_iff (g g' : RSGraph) (a a' : REdge) : arcOK g g' a a' = true ↔
    g'.labelOf a'.src = g.labelOf a.src ∧ g'.labelOf a'.dst = g.labelOf a.dst ∧
    ∃ xs ys, a.viaList? = some xs ∧ a'.viaList? = some ys ∧ (∀ x ∈ xs, x ∈ ys) ∧ (∀ y ∈ ys, y ∈ xs) ∧
      ∀ eid ∈ xs, coeffFor a'.rMap a'.stoichR eid = coeffFor a.rMap a.stoichR eid ∧
        coeffFor a'.pMap a'.stoichP eid = coeffFor a.pMap a.stoichP eid := by
  unfold arcOK
  cases a.viaList? with
  | none => simp
  | some xs =>
    cases a'.viaList? with
    | none => simp
    | some ys =>
      simp only [Bool.and_eq_true, decide_eq_true_eq, List.all_eq_true, Option.some.injEq,
        exists_and_left, exists_eq_left']
      constructor
      · rintro ⟨⟨h1, h2⟩, ⟨h3, h4⟩, h5⟩; exact ⟨h1, h2, h3, h4, h5⟩
      · rintro ⟨h1, h2, h3, h4, h5⟩; exact ⟨⟨h1, h2⟩, ⟨h3, h4⟩, h5⟩

/-- An arc that names its reactions names exactly those, whatever `genArc`. -/
theorem eids_of_viaList (genArc : GenArc) (a : REdge) (xs : List String) (h : a.viaList? = some xs) :
    a.eids genArc = xs := by
  unfold REdge.viaList? at h
  unfold REdge.eids
  cases hv : a.via with
  | absent => rw [hv] at h; cases h
  | seq l =>
    rw [hv] at h
    cases l with
    | nil => cases h
    | cons y ys => exact Option.some.inj h
  | scalar x =>
    rw [hv] at h
    by_cases hx : x = ""
    · simp [hx] at h
    · simp only [hx, if_false] at h ⊢; exact Option.some.inj h

theorem arcOK_steps (genArc genArc' : GenArc) (g g' : RSGraph) (a a' : REdge) (h : arcOK g g' a a' = true) :
    (∀ m' ∈ mstepsOfRaw genArc' g' a', ∃ m ∈ mstepsOfRaw genArc g a, Same5 m m') ∧
    (∀ m ∈ mstepsOfRaw genArc g a, ∃ m' ∈ mstepsOfRaw genArc' g' a', Same5 m m') := by
  obtain ⟨hs, hd, xs, ys, hxs, hys, hxy, hyx, hco⟩ := (arcOK_iff g g' a a').1 h
  have e1 := eids_of_viaList genArc a xs hxs
  have e2 := eids_of_viaList genArc' a' ys hys
  constructor
  · intro m' hm'
    obtain ⟨k1, k2, k3, k4, k5, _⟩ := (mem_mstepsOfRaw genArc' g' a' m').1 hm'
    rw [e2] at k1
    have hin := hyx _ k1
    obtain ⟨c1, c2⟩ := hco _ hin
    refine ⟨⟨m'.eid, g.labelOf a.src, g.labelOf a.dst, coeffFor a.rMap a.stoichR m'.eid,
      coeffFor a.pMap a.stoichP m'.eid, a.rules.toList⟩, ?_, rfl, ?_, ?_, ?_, ?_⟩
    · exact (mem_mstepsOfRaw genArc g a _).2 ⟨by rw [e1]; exact hin, rfl, rfl, rfl, rfl, rfl⟩
    · exact (k2.trans hs).symm
    · exact (k3.trans hd).symm
    · exact (k4.trans c1).symm
    · exact (k5.trans c2).symm
  · intro m hm
    obtain ⟨k1, k2, k3, k4, k5, _⟩ := (mem_mstepsOfRaw genArc g a m).1 hm
    rw [e1] at k1
    obtain ⟨c1, c2⟩ := hco _ k1
    refine ⟨⟨m.eid, g'.labelOf a'.src, g'.labelOf a'.dst, coeffFor a'.rMap a'.stoichR m.eid,
      coeffFor a'.pMap a'.stoichP m.eid, a'.rules.toList⟩, ?_, rfl, ?_, ?_, ?_, ?_⟩
    · exact (mem_mstepsOfRaw genArc' g' a' _).2 ⟨by rw [e2]; exact hxy _ k1, rfl, rfl, rfl, rfl, rfl⟩
    · exact k2.trans hs.symm
    · exact k3.trans hd.symm
    · exact k4.trans c1.symm
    · exact k5.trans c2.symm

/-- `MSpec` travels along an arc-by-arc `arcOK` comparison (any two graphs). -/
theorem mspec_of_all2 (N : Net) (g g' : RSGraph) (genArc genArc' : GenArc)
    (h : all2 (arcOK g g') g.edges g'.edges = true)
    (hM : MSpec N (g.edges.flatMap (mstepsOfRaw genArc g))) :
    MSpec N (g'.edges.flatMap (mstepsOfRaw genArc' g')) := by
  apply mspec_transfer N _ _ ?_ ?_ hM
  · intro m' hm'
    obtain ⟨a', ha', hma'⟩ := List.mem_flatMap.1 hm'
    obtain ⟨a, ha, hok⟩ := all2_mem_right _ _ _ h a' ha'
    obtain ⟨m, hm, hs⟩ := (arcOK_steps genArc genArc' g g' a a' hok).1 m' hma'
    exact ⟨m, List.mem_flatMap.2 ⟨a, ha, hm⟩, hs⟩
  · intro m hm
    obtain ⟨a, ha, hma⟩ := List.mem_flatMap.1 hm
    obtain ⟨a', ha', hok⟩ := all2_mem_left _ _ _ h a ha
    obtain ⟨m', hm', hs⟩ := (arcOK_steps genArc genArc' g g' a a' hok).2 m hma
    exact ⟨m', List.mem_flatMap.2 ⟨a', ha', hm'⟩, hs⟩

theorem mspec_of_claim (b : Bool) (N : Net) (g' : RSGraph) (genArc : GenArc) (hN : WfNet N)
    (h : all2 (arcOK (toSpeciesGraph b N).toRaw g') (toSpeciesGraph b N).toRaw.edges g'.edges = true) :
    MSpec N (g'.edges.flatMap (mstepsOfRaw genArc g')) :=
  mspec_of_all2 N _ g' genArc genArc h (mspec_export b N genArc hN)

theorem speciesRawClaim_iff (b : Bool) (N : Net) (g' : RSGraph) : speciesRawClaim b N g' = true ↔
    WfNet N ∧ TwoSided N ∧
      all2 (arcOK (toSpeciesGraph b N).toRaw g') (toSpeciesGraph b N).toRaw.edges g'.edges = true := by
  unfold speciesRawClaim
  rw [Bool.and_eq_true, Bool.and_eq_true, wfNetB_iff, twoSidedB_iff, and_assoc]

/-- **The claim condition of `species-importer-raw` implies the round trip**: whenever
`speciesRawClaim` holds of the degraded graph, the raw importer (any `genArc`, any `default_rule`,
with or without the `mol` pass) rebuilds the reaction ids and both sides of every reaction. -/
theorem speciesRawClaim_roundtrip (b : Bool) (N : Net) (g' : RSGraph) (genArc : GenArc) (d : String)
    (molOn : Bool) (h : speciesRawClaim b N g' = true) :
    ∃ N', ofSpeciesGraphRaw genArc d molOn g' = .ok N' ∧ N'.ids.Perm N.ids ∧
      ∀ e ∈ N.rxns, ∃ e' ∈ N'.rxns, e'.id = e.id ∧
        e'.reactants.Perm e.reactants ∧ e'.products.Perm e.products := by
  obtain ⟨hN, h2, hall⟩ := (speciesRawClaim_iff b N g').1 h
  have hM := mspec_of_claim b N g' genArc hN hall
  obtain ⟨N1, hmat, hids, hrx⟩ := roundtrip_of_mspec N hN h2 _ hM d
  refine ⟨importMolSRaw molOn g' N1, ?_, ?_, ?_⟩
  · unfold ofSpeciesGraphRaw
    rw [collectEntriesRaw_eq, hmat]
  · rw [importMolSRaw_ids]; exact hids
  · intro e he
    obtain ⟨e', he', h'⟩ := hrx e he
    exact ⟨e', by rw [importMolSRaw_rxns]; exact he', h'⟩

/-! ## D. Legacy coefficients -/

/-- Steps on the same species pair carry the same two coefficients. -/
def Uniform (L : List Sp.Step) : Prop :=
  ∀ t ∈ L, ∀ t' ∈ L, t.r = t'.r → t.p = t'.p → t.rc = t'.rc ∧ t.pc = t'.pc

/-- The legacy values of every arc are the coefficients of every step on it. -/
def Leg (L : List Sp.Step) (es : List SEdge) : Prop :=
  ∀ a ∈ es, ∀ t ∈ L, t.r = a.src → t.p = a.dst → a.stoichR = t.rc ∧ a.stoichP = t.pc

theorem uniform_functional (L : List Sp.Step) (h : Uniform L) : Sp.Functional L :=
  fun t ht t' ht' h1 h2 _ => h t ht t' ht' h1 h2

theorem leg_step (L : List Sp.Step) (es : List SEdge) (t : Sp.Step) (hU : Uniform (L ++ [t]))
    (hA : Sp.ArcInv L es) (hL : Leg L es) : Leg (L ++ [t]) (Sp.stepE es t) := by
  rw [Sp.stepE_eq es t hA.distinct]
  have htL : t ∈ L ++ [t] := List.mem_append_right _ (List.mem_singleton.2 rfl)
  intro b hb t' ht' h1 h2
  rcases List.mem_append.1 hb with hb | hb
  · obtain ⟨a, ha, rfl⟩ := List.mem_map.1 hb
    rw [Sp.fArc_src] at h1; rw [Sp.fArc_dst] at h2
    obtain ⟨eid, heid⟩ := Sp.exists_mem_of_ne_nil _ (hA.via_ne a ha)
    obtain ⟨t0, ht0, k1, k2, _⟩ := (hA.via_iff a ha eid).1 heid
    obtain ⟨l1, l2⟩ := hL a ha t0 ht0 k1 k2
    have u := hU t0 (List.mem_append_left _ ht0) t' ht' (k1.trans h1.symm) (k2.trans h2.symm)
    unfold Sp.fArc
    split
    · next hh =>
      have u2 := hU t htL t' ht' (hh.1.symm.trans h1.symm) (hh.2.symm.trans h2.symm)
      show min a.stoichR t.rc = t'.rc ∧ min a.stoichP t.pc = t'.pc
      rw [l1, l2, u.1, u.2, u2.1, u2.2, Nat.min_self, Nat.min_self]
      exact ⟨rfl, rfl⟩
    · exact ⟨l1.trans u.1, l2.trans u.2⟩
  · split at hb
    · cases hb
    · rw [List.mem_singleton] at hb; subst hb
      have h1' : t'.r = t.r := h1
      have h2' : t'.p = t.p := h2
      exact hU t htL t' ht' h1'.symm h2'.symm

theorem leg_fold_aux (L : List Sp.Step) : ∀ (L0 : List Sp.Step) (es : List SEdge),
    Sp.ArcInv L0 es → Leg L0 es → Uniform (L0 ++ L) → Leg (L0 ++ L) (L.foldl Sp.stepE es) := by
  induction L with
  | nil => intro L0 es _ h _; simpa using h
  | cons t rest ih =>
    intro L0 es hA hL hU
    have e : L0 ++ t :: rest = (L0 ++ [t]) ++ rest := by simp
    rw [e] at hU ⊢
    rw [List.foldl_cons]
    have hU1 : Uniform (L0 ++ [t]) := fun a ha b hb =>
      hU a (List.mem_append_left _ ha) b (List.mem_append_left _ hb)
    exact ih _ _ (Sp.arcInv_step _ _ _ (uniform_functional _ hU1) hA) (leg_step _ _ _ hU1 hA hL) hU

theorem leg_fold (L : List Sp.Step) (hU : Uniform L) : Leg L (L.foldl Sp.stepE []) := by
  have := leg_fold_aux L [] [] ⟨List.Pairwise.nil, by simp, by simp, by simp, by simp⟩
    (fun a ha => nomatch ha) (by simpa using hU)
  simpa using this

theorem uniform_allSteps (N : Net) (hu : ArcsUniform N) : Uniform (Sp.allSteps N) := by
  intro t ht t' ht' h1 h2
  obtain ⟨e, he, hte⟩ := (Sp.mem_allSteps N t).1 ht
  obtain ⟨e', he', hte'⟩ := (Sp.mem_allSteps N t').1 ht'
  rw [Sp.mem_stepsOf] at hte hte'
  exact hu e he e' he' (t.r, t.rc) hte.2.2.1 (t.p, t.pc) hte.2.2.2 (t'.r, t'.rc) hte'.2.2.1
    (t'.p, t'.pc) hte'.2.2.2 h1 h2

/-- **Exporter invariant for uniform arcs**: the legacy single values of an arc are the values of
its per-reaction maps at every reaction id the arc names. -/
theorem legacy_eq_map (b : Bool) (N : Net) (hN : WfNet N) (hu : ArcsUniform N) :
    ∀ a ∈ (toSpeciesGraph b N).edges, ∀ eid ∈ a.via,
      a.rMap.get? eid = some a.stoichR ∧ a.pMap.get? eid = some a.stoichP := by
  have hg := export_facts b N hN
  generalize toSpeciesGraph b N = g at hg
  intro a ha eid heid
  have hL : Leg (Sp.allSteps N) g.edges := by
    rw [hg.edges_eq]; exact leg_fold _ (uniform_allSteps N hu)
  obtain ⟨t, ht, k1, k2, k3⟩ := (hg.arcInv.via_iff a ha eid).1 heid
  obtain ⟨m1, m2⟩ := hg.arcInv.maps a ha t ht k1 k2
  obtain ⟨l1, l2⟩ := hL a ha t ht k1 k2
  rw [k3] at m1 m2
  rw [m1, m2, l1, l2]
  exact ⟨rfl, rfl⟩

/-- The map values of an exported arc are coefficients of `N`. -/
theorem map_is_coeff (b : Bool) (N : Net) (hN : WfNet N) :
    ∀ a ∈ (toSpeciesGraph b N).edges, ∀ eid ∈ a.via, ∃ e ∈ N.rxns, ∃ rc pc,
      a.rMap.get? eid = some rc ∧ a.pMap.get? eid = some pc ∧
      (a.src, rc) ∈ e.reactants ∧ (a.dst, pc) ∈ e.products := by
  have hg := export_facts b N hN
  generalize toSpeciesGraph b N = g at hg
  intro a ha eid heid
  obtain ⟨t, ht, k1, k2, k3⟩ := (hg.arcInv.via_iff a ha eid).1 heid
  obtain ⟨m1, m2⟩ := hg.arcInv.maps a ha t ht k1 k2
  obtain ⟨e, he, _, e2, e3⟩ := Sp.rxn_of_step N t ht
  rw [k3] at m1 m2
  exact ⟨e, he, t.rc, t.pc, m1, m2, k1 ▸ e2, k2 ▸ e3⟩

theorem all2_map_self {α β : Type} (r : α → β → Bool) (φ : α → β) (l : List α)
    (h : ∀ a ∈ l, r a (φ a) = true) : all2 r l (l.map φ) = true := by
  induction l with
  | nil => rfl
  | cons x xs ih =>
    simp only [List.map_cons, all2, Bool.and_eq_true]
    exact ⟨h x List.mem_cons_self, ih (fun a ha => h a (List.mem_cons_of_mem _ ha))⟩

theorem labelOf_mapEdges (φ : REdge → REdge) (g : RSGraph) (i : String) :
    (g.mapEdges φ).labelOf i = g.labelOf i := rfl

theorem viaList_rawArc (a : SEdge) (h : a.via ≠ []) : (rawArc a).viaList? = some a.via := by
  unfold REdge.viaList? rawArc
  cases hv : a.via with
  | nil => exact absurd hv h
  | cons x xs => rfl

/-- The claim condition for an arc-wise degradation that keeps the ends and `via` and reproduces
every coefficient of every reaction id of every exported arc. -/
theorem claim_mapEdges (b : Bool) (N : Net) (hN : WfNet N) (h2 : TwoSided N) (φ : REdge → REdge)
    (hsrc : ∀ a, (φ a).src = a.src) (hdst : ∀ a, (φ a).dst = a.dst) (hvia : ∀ a, (φ a).via = a.via)
    (hco : ∀ s ∈ (toSpeciesGraph b N).edges, ∀ eid ∈ s.via,
      coeffFor (φ (rawArc s)).rMap (φ (rawArc s)).stoichR eid = coeffFor (some s.rMap) (some s.stoichR) eid ∧
      coeffFor (φ (rawArc s)).pMap (φ (rawArc s)).stoichP eid = coeffFor (some s.pMap) (some s.stoichP) eid) :
    speciesRawClaim b N ((toSpeciesGraph b N).toRaw.mapEdges φ) = true := by
  rw [speciesRawClaim_iff]
  refine ⟨hN, h2, ?_⟩
  have hg := export_facts b N hN
  generalize toSpeciesGraph b N = g at hg hco
  show all2 (arcOK g.toRaw (g.toRaw.mapEdges φ)) g.toRaw.edges (g.toRaw.edges.map φ) = true
  apply all2_map_self
  intro a' ha'
  rw [sToRaw_edges] at ha'
  obtain ⟨s, hs, rfl⟩ := List.mem_map.1 ha'
  have hs' := (hg.iter s).1 hs
  have hv := viaList_rawArc s (hg.arcInv.via_ne s hs')
  have hv' : (φ (rawArc s)).viaList? = some s.via := by
    rw [← hv]; unfold REdge.viaList?; rw [hvia]
  rw [arcOK_iff]
  refine ⟨by rw [labelOf_mapEdges, hsrc], by rw [labelOf_mapEdges, hdst], s.via, s.via, hv, hv',
    fun _ h => h, fun _ h => h, ?_⟩
  intro eid heid
  exact hco s hs' eid heid

/-- Without the per-reaction maps the legacy values reproduce every coefficient when the arcs
are uniform. -/
theorem claim_dropMaps (b : Bool) (N : Net) (hN : WfNet N) (h2 : TwoSided N) (hu : ArcsUniform N)
    (r p : Bool) :
    speciesRawClaim b N ((toSpeciesGraph b N).toRaw.mapEdges (REdge.dropMaps r p)) = true := by
  apply claim_mapEdges b N hN h2 (REdge.dropMaps r p) (fun _ => rfl) (fun _ => rfl) (fun _ => rfl)
  intro s hs eid heid
  obtain ⟨k1, k2⟩ := legacy_eq_map b N hN hu s hs eid heid
  rw [coeffFor_of_get _ _ _ _ k1, coeffFor_of_get _ _ _ _ k2]
  constructor
  · show coeffFor (if r = true then none else some s.rMap) (some s.stoichR) eid = s.stoichR
    cases r
    · exact coeffFor_of_get _ _ _ _ k1
    · rfl
  · show coeffFor (if p = true then none else some s.pMap) (some s.stoichP) eid = s.stoichP
    cases p
    · exact coeffFor_of_get _ _ _ _ k2
    · rfl

/-- With the per-reaction maps present the legacy values are never consulted. -/
theorem claim_dropLegacy (b : Bool) (N : Net) (hN : WfNet N) (h2 : TwoSided N) :
    speciesRawClaim b N ((toSpeciesGraph b N).toRaw.mapEdges REdge.dropLegacy) = true := by
  apply claim_mapEdges b N hN h2 REdge.dropLegacy (fun _ => rfl) (fun _ => rfl) (fun _ => rfl)
  intro s hs eid heid
  obtain ⟨e, _, rc, pc, k1, k2, _, _⟩ := map_is_coeff b N hN s hs eid heid
  rw [coeffFor_of_get _ _ _ _ k1, coeffFor_of_get _ _ _ _ k2]
  exact ⟨coeffFor_of_get _ _ _ _ k1, coeffFor_of_get _ _ _ _ k2⟩

/-- With maps and legacy values both absent every coefficient is read as 1, which is right when
every coefficient of the network is 1. -/
theorem claim_dropBoth (b : Bool) (N : Net) (hN : WfNet N) (h2 : TwoSided N) (h1 : AllOnes N)
    (r p : Bool) :
    speciesRawClaim b N
      ((toSpeciesGraph b N).toRaw.mapEdges fun a => (a.dropMaps r p).dropLegacy) = true := by
  apply claim_mapEdges b N hN h2 (fun a => (a.dropMaps r p).dropLegacy) (fun _ => rfl) (fun _ => rfl)
    (fun _ => rfl)
  intro s hs eid heid
  obtain ⟨e, he, rc, pc, k1, k2, e1, e2⟩ := map_is_coeff b N hN s hs eid heid
  have hrc : rc = 1 := (h1 e he).1 _ e1
  have hpc : pc = 1 := (h1 e he).2 _ e2
  rw [coeffFor_of_get _ _ _ _ k1, coeffFor_of_get _ _ _ _ k2]
  constructor
  · show coeffFor (if r = true then none else some s.rMap) none eid = rc
    cases r
    · exact coeffFor_of_get _ _ _ _ k1
    · rw [hrc]; rfl
  · show coeffFor (if p = true then none else some s.pMap) none eid = pc
    cases p
    · exact coeffFor_of_get _ _ _ _ k2
    · rw [hpc]; rfl

/-! ## C. `via` handed over in another form -/

theorem eids_viaScalar (genArc : GenArc) (a : REdge) (h : a.via ≠ .seq [""]) :
    a.viaScalar.eids genArc = a.eids genArc := by
  unfold REdge.viaScalar REdge.eids
  cases hv : a.via with
  | absent => rfl
  | scalar x => rfl
  | seq l =>
    match l, hv with
    | [], _ => rfl
    | [x], hv =>
      have hx : x ≠ "" := fun hx => h (by rw [hv, hx])
      simp only [hx, if_false]
    | x :: y :: zs, _ => rfl

theorem mstepsOfRaw_viaScalar (genArc : GenArc) (g : RSGraph) (a : REdge) (h : a.via ≠ .seq [""]) :
    mstepsOfRaw genArc (g.mapEdges REdge.viaScalar) a.viaScalar = mstepsOfRaw genArc g a := by
  unfold mstepsOfRaw
  rw [eids_viaScalar genArc a h]
  rfl

theorem flatMap_map_congr {α β γ : Type} (φ : α → β) (f : β → List γ) (f' : α → List γ) (l : List α)
    (h : ∀ a ∈ l, f (φ a) = f' a) : (l.map φ).flatMap f = l.flatMap f' := by
  induction l with
  | nil => rfl
  | cons x xs ih =>
    rw [List.map_cons, List.flatMap_cons, List.flatMap_cons, h x List.mem_cons_self,
      ih (fun a ha => h a (List.mem_cons_of_mem _ ha))]

theorem collectEntriesRaw_viaScalar (genArc : GenArc) (g : RSGraph) (h : ∀ a ∈ g.edges, a.via ≠ .seq [""]) :
    collectEntriesRaw genArc (g.mapEdges REdge.viaScalar) = collectEntriesRaw genArc g := by
  rw [collectEntriesRaw_eq, collectEntriesRaw_eq]
  congr 1
  exact flatMap_map_congr _ _ _ _ (fun a ha => mstepsOfRaw_viaScalar genArc g a (h a ha))

/-- A single reaction id handed over bare instead of as a one-element collection gives exactly
the same network. -/
theorem ofSpeciesGraphRaw_viaScalar (genArc : GenArc) (d : String) (molOn : Bool) (g : RSGraph)
    (h : ∀ a ∈ g.edges, a.via ≠ .seq [""]) :
    ofSpeciesGraphRaw genArc d molOn (g.mapEdges REdge.viaScalar) = ofSpeciesGraphRaw genArc d molOn g := by
  unfold ofSpeciesGraphRaw
  rw [collectEntriesRaw_viaScalar genArc g h]
  rfl

theorem updEntry_fresh (es : List Entry) (eid sr sp : String) (cr cp : Nat) (rules : List String)
    (h : eid ∉ es.map (·.eid)) :
    updEntry es eid sr sp cr cp rules = es ++ [⟨eid, [(sr, cr)], [(sp, cp)], rules.foldl setAdd []⟩] := by
  induction es with
  | nil => rfl
  | cons x rest ih =>
    rw [List.map_cons, List.mem_cons, not_or] at h
    unfold updEntry
    rw [if_neg (fun hh => h.1 hh.symm), ih h.2]
    rfl

/-- The synthetic entry of an arc without `via`. -/
def synEntry (genArc : GenArc) (g : RSGraph) (a : REdge) : Entry :=
  ⟨genArc a.src a.dst, [(g.labelOf a.src, coeffFor a.rMap a.stoichR (genArc a.src a.dst))],
    [(g.labelOf a.dst, coeffFor a.pMap a.stoichP (genArc a.src a.dst))], a.rules.toList.foldl setAdd []⟩

theorem dropVia_fold (genArc : GenArc) (g : RSGraph) : ∀ (as : List REdge) (es : List Entry),
    (es.map (·.eid) ++ as.map fun a => genArc a.src a.dst).Nodup →
    as.foldl (fun es a => updEntry es (genArc a.src a.dst) (g.labelOf a.src) (g.labelOf a.dst)
      (coeffFor a.rMap a.stoichR (genArc a.src a.dst)) (coeffFor a.pMap a.stoichP (genArc a.src a.dst))
      a.rules.toList) es = es ++ as.map (synEntry genArc g) := by
  intro as
  induction as with
  | nil => intro es _; simp
  | cons a rest ih =>
    intro es hn
    have hfresh : genArc a.src a.dst ∉ es.map (·.eid) := by
      intro hh
      unfold List.Nodup at hn
      rw [List.pairwise_append] at hn
      exact hn.2.2 _ hh _ (by simp) rfl
    rw [List.foldl_cons, updEntry_fresh _ _ _ _ _ _ _ hfresh, ih]
    · simp [synEntry]
    · simpa [List.map_append] using hn

/-- Arcs without `via`: one synthetic entry per arc. -/
theorem collectEntriesRaw_dropVia (genArc : GenArc) (g : RSGraph)
    (hnd : (g.edges.map fun a => genArc a.src a.dst).Nodup) :
    collectEntriesRaw genArc (g.mapEdges REdge.dropVia) = g.edges.map fun a =>
      (⟨genArc a.src a.dst, [(g.labelOf a.src, coeffFor a.rMap a.stoichR (genArc a.src a.dst))],
        [(g.labelOf a.dst, coeffFor a.pMap a.stoichP (genArc a.src a.dst))],
        a.rules.toList.foldl setAdd []⟩ : Entry) := by
  unfold collectEntriesRaw
  show List.foldl _ [] (g.edges.map REdge.dropVia) = _
  rw [List.foldl_map]
  exact dropVia_fold genArc g g.edges [] (by simpa using hnd)

/-- Arcs without `via`: every arc becomes one reaction of its own with a synthetic id. -/
theorem ofSpeciesGraphRaw_dropVia (genArc : GenArc) (d : String) (molOn : Bool) (g : RSGraph)
    (hnd : (g.edges.map fun a => genArc a.src a.dst).Nodup)
    (hpos : ∀ a ∈ g.edges, 0 < coeffFor a.rMap a.stoichR (genArc a.src a.dst) ∧
      0 < coeffFor a.pMap a.stoichP (genArc a.src a.dst)) :
    ∃ N', ofSpeciesGraphRaw genArc d molOn (g.mapEdges REdge.dropVia) = .ok N' ∧
      N'.rxns = g.edges.map fun a =>
        (⟨genArc a.src a.dst, normRule ((a.rules.toList.foldl setAdd []).head?.getD d),
          [(g.labelOf a.src, coeffFor a.rMap a.stoichR (genArc a.src a.dst))],
          [(g.labelOf a.dst, coeffFor a.pMap a.stoichP (genArc a.src a.dst))]⟩ : Rxn) := by
  have hcol := collectEntriesRaw_dropVia genArc g hnd
  have hE : ∀ x ∈ g.edges.map (synEntry genArc g),
      WfSide x.reactants ∧ WfSide x.products ∧ x.reactants ≠ [] := by
    intro x hx
    obtain ⟨a, ha, rfl⟩ := List.mem_map.1 hx
    obtain ⟨p1, p2⟩ := hpos a ha
    refine ⟨⟨by simp [synEntry, Dict.keys], ?_⟩, ⟨by simp [synEntry, Dict.keys], ?_⟩, List.cons_ne_nil _ _⟩
    · intro kv hkv
      have : kv = (g.labelOf a.src, coeffFor a.rMap a.stoichR (genArc a.src a.dst)) := by
        simpa [synEntry] using hkv
      rw [this]; exact p1
    · intro kv hkv
      have : kv = (g.labelOf a.dst, coeffFor a.pMap a.stoichP (genArc a.src a.dst)) := by
        simpa [synEntry] using hkv
      rw [this]; exact p2
  obtain ⟨N1, hmat, hrx, _, _⟩ := materialiseRaw_ok d (g.edges.map (synEntry genArc g)) {}
    (by simpa [Net.ids, List.map_map, synEntry, Function.comp_def] using hnd) hE
  refine ⟨importMolSRaw molOn (g.mapEdges REdge.dropVia) N1, ?_, ?_⟩
  · unfold ofSpeciesGraphRaw
    rw [hcol]
    show (match materialiseRaw d {} (g.edges.map (synEntry genArc g)) with
      | .ok N => Except.ok (importMolSRaw molOn (g.mapEdges REdge.dropVia) N)
      | .error e => .error e) = _
    rw [hmat]
  · rw [importMolSRaw_rxns, hrx, List.map_map]
    rfl

/-! ## D6. Examples -/

/-- Two reactions on the arc `A → B` with different coefficients of `A`. -/
def exNonUniform : Net :=
  { species := ["A", "B"],
    rxns := [⟨"r1", "R", [("A", 1)], [("B", 1)]⟩, ⟨"r2", "R", [("A", 2)], [("B", 1)]⟩],
    mol := [] }

/-- Two reactions sharing the arc `A → B` with the same coefficients. -/
def exShared : Net :=
  { species := ["A", "B", "C"],
    rxns := [⟨"r1", "R", [("A", 2)], [("B", 1)]⟩, ⟨"r2", "S", [("A", 2)], [("B", 1), ("C", 3)]⟩],
    mol := [("A", "CC")] }

theorem exNonUniform_not_uniform : ¬ ArcsUniform exNonUniform := by decide

theorem exNonUniform_dropMaps_not_claimed :
    speciesRawClaim false exNonUniform
      ((toSpeciesGraph false exNonUniform).toRaw.mapEdges (REdge.dropMaps true true)) = false := by decide

theorem exShared_claimed :
    speciesRawClaim true exShared (toSpeciesGraph true exShared).toRaw = true := by decide

end SynKit.Views.Raw

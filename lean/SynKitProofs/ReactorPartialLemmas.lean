import SynKitProofs.ReactorInvLemmas
/-!
# Lemmas for the pruning of possibly partial matches (`prunePartial`, `pruneWithCap`; C11, reactor clause)

`SynKitModel/ReactorInv.lean` follows `SynReactor._prune_by_rule_automorphisms` literally for match
lists that may hold partial matches: a match that lacks a pattern node gets NO key and is passed
through; a match that covers the pattern nodes is keyed by the least of its images under the rule
automorphisms, the images sorted and compared through `repr` strings; `KeyError` / `ValueError` are
outcomes; above `max_group` automorphisms the input comes back.

What the proofs need from the key is small: it is ONE OF the images, up to the order of its pairs
(`keyP_key`), and two images of maps on `keep` that agree up to the order of their pairs are equal
(`composeOn_eq_of_mem`).  So two matches with the same key have a common image (`same_key_related`),
whatever order `sorted` / `min` use.
-/
namespace SynKit.ReactorInv
open SynKit SynKit.Match

/-! ## `sorted`, `min`: only membership matters -/

theorem mem_insertRepr (x y : Nat × Nat) (l : Mapping) : y ∈ insertRepr x l ↔ y = x ∨ y ∈ l := by
  induction l with
  | nil => simp [insertRepr]
  | cons a rest ih =>
    simp only [insertRepr]
    by_cases c : reprPairLt a x = true
    · rw [if_pos c]
      simp only [List.mem_cons, ih]
      constructor
      · rintro (h | h | h)
        · exact Or.inr (Or.inl h)
        · exact Or.inl h
        · exact Or.inr (Or.inr h)
      · rintro (h | h | h)
        · exact Or.inr (Or.inl h)
        · exact Or.inl h
        · exact Or.inr (Or.inr h)
    · rw [if_neg c]
      simp only [List.mem_cons]

/-- `sorted(l)` has the elements of `l`. -/
theorem mem_sortRepr (y : Nat × Nat) (l : Mapping) : y ∈ sortRepr l ↔ y ∈ l := by
  induction l with
  | nil => simp [sortRepr]
  | cons a rest ih => simp only [sortRepr, mem_insertRepr, ih, List.mem_cons]

/-- `min(b :: l)` is one of the candidates. -/
theorem minKey_mem (b : Mapping) (l : List Mapping) : minKey b l ∈ b :: l := by
  induction l generalizing b with
  | nil => simp [minKey]
  | cons y ys ih =>
    simp only [minKey]
    by_cases c : reprKeyLt y b = true
    · rw [if_pos c]
      rcases List.mem_cons.1 (ih y) with h | h
      · rw [h]; exact List.mem_cons_of_mem _ (List.mem_cons_self ..)
      · exact List.mem_cons_of_mem _ (List.mem_cons_of_mem _ h)
    · rw [if_neg c]
      rcases List.mem_cons.1 (ih b) with h | h
      · rw [h]; exact List.mem_cons_self ..
      · exact List.mem_cons_of_mem _ (List.mem_cons_of_mem _ h)

/-! ## `mapOpt` -/

theorem mapOpt_some_fwd {α β : Type} (f : α → Option β) (l : List α) (r : List β) (h : mapOpt f l = some r) :
    ∀ a ∈ l, ∃ b ∈ r, f a = some b := by
  induction l generalizing r with
  | nil => intro a ha; cases ha
  | cons x rest ih =>
    simp only [mapOpt] at h
    cases hfx : f x with
    | none => rw [hfx] at h; cases h
    | some b =>
      cases hr : mapOpt f rest with
      | none => rw [hfx, hr] at h; cases h
      | some bs =>
        rw [hfx, hr] at h
        simp only [Option.some.injEq] at h
        subst h
        intro a ha
        cases ha with
        | head => exact ⟨b, List.mem_cons_self .., hfx⟩
        | tail _ ha' =>
          obtain ⟨b', hb', e⟩ := ih bs hr a ha'
          exact ⟨b', List.mem_cons_of_mem _ hb', e⟩

theorem mapOpt_congr {α β : Type} {f g : α → Option β} {l : List α} (h : ∀ a ∈ l, f a = g a) :
    mapOpt f l = mapOpt g l := by
  induction l with
  | nil => rfl
  | cons x rest ih =>
    simp only [mapOpt]
    rw [h x (List.mem_cons_self ..), ih (fun a ha => h a (List.mem_cons_of_mem _ ha))]

theorem mapOpt_isSome {α β : Type} (f : α → Option β) (l : List α) (h : ∀ a ∈ l, ∃ b, f a = some b) :
    ∃ r, mapOpt f l = some r := by
  induction l with
  | nil => exact ⟨[], rfl⟩
  | cons x rest ih =>
    obtain ⟨b, hb⟩ := h x (List.mem_cons_self ..)
    obtain ⟨bs, hbs⟩ := ih (fun a ha => h a (List.mem_cons_of_mem _ ha))
    exact ⟨b :: bs, by simp only [mapOpt, hb, hbs]⟩

theorem mapOpt_cons_some {α β : Type} (f : α → Option β) (x : α) (rest : List α) (r : List β)
    (h : mapOpt f (x :: rest) = some r) : ∃ b bs, r = b :: bs := by
  simp only [mapOpt] at h
  cases hfx : f x with
  | none => rw [hfx] at h; cases h
  | some b =>
    cases hr : mapOpt f rest with
    | none => rw [hfx, hr] at h; cases h
    | some bs =>
      rw [hfx, hr] at h
      simp only [Option.some.injEq] at h
      exact ⟨b, bs, h.symm⟩

/-! ## Images of a match: `composeOn` through the partial composite `pcomp` -/

theorem composeOn_fn (m σ : Mapping) (p : Nat) :
    ((Mapping.get? σ p).bind fun q => (Mapping.get? m q).map fun h => (p, h)) = (pcomp m σ p).map fun h => (p, h) := by
  unfold pcomp
  cases Mapping.get? σ p <;> rfl

/-- Images of partial composites that agree on `keep` are equal. -/
theorem composeOn_congr (keep : List Nat) (m σ m' σ' : Mapping)
    (h : ∀ p ∈ keep, pcomp m σ p = pcomp m' σ' p) : composeOn keep m σ = composeOn keep m' σ' := by
  unfold composeOn
  apply mapOpt_congr
  intro p hp
  rw [composeOn_fn, composeOn_fn, h p hp]

/-- An image lists, for every pattern node, the value of the composite there — and nothing else. -/
theorem composeOn_pcomp (keep : List Nat) (m σ k : Mapping) (h : composeOn keep m σ = some k) :
    (∀ p ∈ keep, ∃ hh, pcomp m σ p = some hh ∧ (p, hh) ∈ k) ∧
    (∀ x ∈ k, x.1 ∈ keep ∧ pcomp m σ x.1 = some x.2) := by
  unfold composeOn at h
  constructor
  · intro p hp
    obtain ⟨b, hb, e⟩ := mapOpt_some_fwd _ _ _ h p hp
    rw [composeOn_fn] at e
    cases hc : pcomp m σ p with
    | none => rw [hc] at e; cases e
    | some hh =>
      rw [hc] at e
      simp only [Option.map_some, Option.some.injEq] at e
      exact ⟨hh, rfl, e ▸ hb⟩
  · intro x hx
    obtain ⟨p, hp, e⟩ := mapOpt_some_mem _ _ _ h x hx
    rw [composeOn_fn] at e
    cases hc : pcomp m σ p with
    | none => rw [hc] at e; cases e
    | some hh =>
      rw [hc] at e
      simp only [Option.map_some, Option.some.injEq] at e
      subst e
      exact ⟨hp, hc⟩

/-- Two images with the same elements (e.g. equal after sorting) are equal, and the two composites
agree on `keep`. -/
theorem composeOn_eq_of_mem (keep : List Nat) (m σ k m' σ' k' : Mapping)
    (h₁ : composeOn keep m σ = some k) (h₂ : composeOn keep m' σ' = some k') (hmem : ∀ x, x ∈ k ↔ x ∈ k') :
    k = k' ∧ ∀ p ∈ keep, pcomp m σ p = pcomp m' σ' p := by
  have hpt : ∀ p ∈ keep, pcomp m σ p = pcomp m' σ' p := by
    intro p hp
    obtain ⟨hh, e, hin⟩ := (composeOn_pcomp keep m σ k h₁).1 p hp
    have := ((composeOn_pcomp keep m' σ' k' h₂).2 (p, hh) ((hmem _).1 hin)).2
    rw [e]; exact this.symm
  refine ⟨?_, hpt⟩
  have := composeOn_congr keep m σ m' σ' hpt
  rw [h₁, h₂] at this
  exact Option.some.inj this

/-! ## The key -/

theorem coversB_iff (keep : List Nat) (m : Mapping) :
    coversB keep m = true ↔ ∀ p ∈ keep, ∃ h, Mapping.get? m p = some h := by
  unfold coversB
  rw [List.all_eq_true]
  constructor
  · intro h p hp; exact Option.isSome_iff_exists.1 (h p hp)
  · intro h p hp; exact Option.isSome_iff_exists.2 (h p hp)

/-- A key is built only for a match that covers the pattern nodes, and it is one of the images of
the match under the group, up to the order of its pairs. -/
theorem keyP_key (keep : List Nat) (group : List Mapping) (m k : Mapping) (h : keyP keep group m = .key k) :
    coversB keep m = true ∧ ∃ σ ∈ group, ∃ i, composeOn keep m σ = some i ∧ sortRepr i = k := by
  unfold keyP at h
  by_cases c : coversB keep m = true
  · rw [if_pos c] at h
    refine ⟨c, ?_⟩
    cases hr : mapOpt (composeOn keep m) group with
    | none => rw [hr] at h; cases h
    | some imgs =>
      rw [hr] at h
      cases imgs with
      | nil => cases h
      | cons i is =>
        simp only [KeyRes.key.injEq] at h
        have hmem := minKey_mem (sortRepr i) (is.map sortRepr)
        rw [h] at hmem
        have hk : k ∈ (i :: is).map sortRepr := by rw [List.map_cons]; exact hmem
        obtain ⟨j, hj, e⟩ := List.mem_map.1 hk
        obtain ⟨σ, hσ, eσ⟩ := mapOpt_some_mem _ _ _ hr j hj
        exact ⟨σ, hσ, j, eσ, e⟩
  · rw [if_neg c] at h; cases h

/-- A match has no key exactly when it lacks a pattern node. -/
theorem keyP_lacking_iff (keep : List Nat) (group : List Mapping) (m : Mapping) :
    keyP keep group m = .lacking ↔ coversB keep m = false := by
  unfold keyP
  by_cases c : coversB keep m = true
  · rw [if_pos c]
    constructor
    · intro h
      cases hr : mapOpt (composeOn keep m) group with
      | none => rw [hr] at h; cases h
      | some imgs =>
        rw [hr] at h
        cases imgs with
        | nil => cases h
        | cons i is => cases h
    · intro h; rw [c] at h; cases h
  · rw [if_neg c]
    constructor
    · intro _; simpa using c
    · intro _; rfl

/-- Matches with the same key have a common image under the group: they are `Related`. -/
theorem same_key_related (keep : List Nat) (group : List Mapping) (m m' k : Mapping)
    (h₁ : keyP keep group m = .key k) (h₂ : keyP keep group m' = .key k) : Related keep group m m' := by
  obtain ⟨_, σ₁, hσ₁, i₁, e₁, s₁⟩ := keyP_key keep group m k h₁
  obtain ⟨_, σ₂, hσ₂, i₂, e₂, s₂⟩ := keyP_key keep group m' k h₂
  have hmem : ∀ x, x ∈ i₁ ↔ x ∈ i₂ := fun x => by
    rw [← mem_sortRepr x i₁, ← mem_sortRepr x i₂, s₁, s₂]
  obtain ⟨e, _⟩ := composeOn_eq_of_mem keep m σ₁ i₁ m' σ₂ i₂ e₁ e₂ hmem
  exact ⟨σ₁, hσ₁, σ₂, hσ₂, i₁, e₁, by rw [e]; exact e₂⟩

/-- When every listed automorphism maps `keep` into `keep` and the list is not empty (it holds the
identity), no key computation raises. -/
theorem keyP_no_error (keep : List Nat) (group : List Mapping)
    (hg : ∀ σ ∈ group, ∀ p ∈ keep, ∃ q ∈ keep, Mapping.get? σ p = some q) (hne : group ≠ []) (m : Mapping) :
    keyP keep group m = .lacking ∨ ∃ k, keyP keep group m = .key k := by
  by_cases c : coversB keep m = true
  · right
    have hall : ∀ σ ∈ group, ∃ i, composeOn keep m σ = some i := by
      intro σ hσ
      unfold composeOn
      apply mapOpt_isSome
      intro p hp
      obtain ⟨q, hq, e⟩ := hg σ hσ p hp
      obtain ⟨hh, ehh⟩ := (coversB_iff keep m).1 c q hq
      exact ⟨(p, hh), by rw [e]; simp only [Option.bind_some, ehh, Option.map_some]⟩
    obtain ⟨imgs, hi⟩ := mapOpt_isSome _ _ hall
    cases group with
    | nil => exact absurd rfl hne
    | cons g gs =>
      obtain ⟨b, bs, rfl⟩ := mapOpt_cons_some _ _ _ _ hi
      unfold keyP
      rw [if_pos c, hi]
      exact ⟨_, rfl⟩
  · left
    exact (keyP_lacking_iff keep group m).2 (by simpa using c)

/-! ## The loop -/

theorem consOk_ok (m : Mapping) (res : PruneRes) (r' : List Mapping) :
    consOk m res = .ok r' ↔ ∃ r, res = .ok r ∧ r' = m :: r := by
  cases res with
  | ok r =>
    simp only [consOk, PruneRes.ok.injEq]
    constructor
    · intro h; exact ⟨r, rfl, h.symm⟩
    · rintro ⟨r₀, e, rfl⟩; rw [e]
  | keyError =>
    simp only [consOk]
    constructor
    · intro h; cases h
    · rintro ⟨_, e, _⟩; cases e
  | valueError =>
    simp only [consOk]
    constructor
    · intro h; cases h
    · rintro ⟨_, e, _⟩; cases e

theorem dedupP_sublist (key : Mapping → KeyRes) (seen ms r : List Mapping) (h : dedupP key seen ms = .ok r) :
    r.Sublist ms := by
  induction ms generalizing seen r with
  | nil =>
    simp only [dedupP, PruneRes.ok.injEq] at h
    subst h; exact List.Sublist.slnil
  | cons m ms ih =>
    simp only [dedupP] at h
    cases hk : key m with
    | lacking =>
      rw [hk] at h
      obtain ⟨r₀, h₀, rfl⟩ := (consOk_ok _ _ _).1 h
      exact (ih seen r₀ h₀).cons_cons m
    | keyError => rw [hk] at h; cases h
    | valueError => rw [hk] at h; cases h
    | key k =>
      rw [hk] at h
      simp only at h
      by_cases c : seen.contains k = true
      · rw [if_pos c] at h
        exact (ih seen r h).cons m
      · rw [if_neg c] at h
        obtain ⟨r₀, h₀, rfl⟩ := (consOk_ok _ _ _).1 h
        exact (ih (k :: seen) r₀ h₀).cons_cons m

/-- Every match is kept, or a kept (or earlier) match has the same key. -/
theorem dedupP_covers (key : Mapping → KeyRes) (seen ms r : List Mapping) (h : dedupP key seen ms = .ok r) :
    ∀ m ∈ ms, m ∈ r ∨ ∃ k, key m = .key k ∧ (k ∈ seen ∨ ∃ m' ∈ r, key m' = .key k) := by
  induction ms generalizing seen r with
  | nil => intro m hm; cases hm
  | cons a ms ih =>
    intro m hm
    simp only [dedupP] at h
    cases hk : key a with
    | keyError => rw [hk] at h; cases h
    | valueError => rw [hk] at h; cases h
    | lacking =>
      rw [hk] at h
      obtain ⟨r₀, h₀, rfl⟩ := (consOk_ok _ _ _).1 h
      cases hm with
      | head => exact Or.inl (List.mem_cons_self ..)
      | tail _ hm' =>
        rcases ih seen r₀ h₀ m hm' with h1 | ⟨k, hkm, h1 | ⟨m', hm'', hk'⟩⟩
        · exact Or.inl (List.mem_cons_of_mem _ h1)
        · exact Or.inr ⟨k, hkm, Or.inl h1⟩
        · exact Or.inr ⟨k, hkm, Or.inr ⟨m', List.mem_cons_of_mem _ hm'', hk'⟩⟩
    | key k =>
      rw [hk] at h
      simp only at h
      by_cases c : seen.contains k = true
      · rw [if_pos c] at h
        cases hm with
        | head => exact Or.inr ⟨k, hk, Or.inl (List.contains_iff_mem.1 c)⟩
        | tail _ hm' => exact ih seen r h m hm'
      · rw [if_neg c] at h
        obtain ⟨r₀, h₀, rfl⟩ := (consOk_ok _ _ _).1 h
        cases hm with
        | head => exact Or.inl (List.mem_cons_self ..)
        | tail _ hm' =>
          rcases ih (k :: seen) r₀ h₀ m hm' with h1 | ⟨k', hkm, h1 | ⟨m', hm'', hk'⟩⟩
          · exact Or.inl (List.mem_cons_of_mem _ h1)
          · cases h1 with
            | head => exact Or.inr ⟨k, hkm, Or.inr ⟨a, List.mem_cons_self .., hk⟩⟩
            | tail _ h' => exact Or.inr ⟨k', hkm, Or.inl h'⟩
          · exact Or.inr ⟨k', hkm, Or.inr ⟨m', List.mem_cons_of_mem _ hm'', hk'⟩⟩

/-- The matches without key come back exactly: the same ones, as often, in the same order (`P` is
any Boolean test for "has no key"). -/
theorem dedupP_lacking (key : Mapping → KeyRes) (P : Mapping → Bool) (hP : ∀ m, P m = true ↔ key m = .lacking)
    (seen ms r : List Mapping) (h : dedupP key seen ms = .ok r) : r.filter P = ms.filter P := by
  induction ms generalizing seen r with
  | nil =>
    simp only [dedupP, PruneRes.ok.injEq] at h
    subst h; rfl
  | cons a ms ih =>
    simp only [dedupP] at h
    cases hk : key a with
    | keyError => rw [hk] at h; cases h
    | valueError => rw [hk] at h; cases h
    | lacking =>
      rw [hk] at h
      obtain ⟨r₀, h₀, rfl⟩ := (consOk_ok _ _ _).1 h
      have d : P a = true := (hP a).2 hk
      rw [List.filter_cons_of_pos d, List.filter_cons_of_pos d, ih seen r₀ h₀]
    | key k =>
      rw [hk] at h
      simp only at h
      have d : ¬ P a = true := fun e => by
        have := (hP a).1 e; rw [hk] at this; cases this
      by_cases c : seen.contains k = true
      · rw [if_pos c] at h
        rw [List.filter_cons_of_neg d]
        exact ih seen r h
      · rw [if_neg c] at h
        obtain ⟨r₀, h₀, rfl⟩ := (consOk_ok _ _ _).1 h
        rw [List.filter_cons_of_neg d, List.filter_cons_of_neg d]
        exact ih (k :: seen) r₀ h₀

/-- If no key computation raises, the loop returns a list. -/
theorem dedupP_ok (key : Mapping → KeyRes) (seen ms : List Mapping)
    (h : ∀ m ∈ ms, key m = .lacking ∨ ∃ k, key m = .key k) : ∃ r, dedupP key seen ms = .ok r := by
  induction ms generalizing seen with
  | nil => exact ⟨[], rfl⟩
  | cons a ms ih =>
    have hrest : ∀ m ∈ ms, key m = .lacking ∨ ∃ k, key m = .key k := fun m hm => h m (List.mem_cons_of_mem _ hm)
    simp only [dedupP]
    rcases h a (List.mem_cons_self ..) with hk | ⟨k, hk⟩
    · rw [hk]
      obtain ⟨r, hr⟩ := ih seen hrest
      exact ⟨a :: r, by simp only [hr, consOk]⟩
    · rw [hk]
      simp only
      by_cases c : seen.contains k = true
      · rw [if_pos c]; exact ih seen hrest
      · rw [if_neg c]
        obtain ⟨r, hr⟩ := ih (k :: seen) hrest
        exact ⟨a :: r, by simp only [hr, consOk]⟩

/-! ## `prunePartial`, `pruneWithCap` -/

/-- Below two matches and above the bound nothing is computed; otherwise the bound plays no role. -/
theorem pruneWithCap_eq (cap : Nat) (keep : List Nat) (group ms : List Mapping) :
    pruneWithCap cap keep group ms = if group.length > cap then .ok ms else prunePartial keep group ms := by
  unfold pruneWithCap prunePartial
  by_cases h1 : ms.length < 2
  · rw [if_pos h1, if_pos h1]; split <;> rfl
  · rw [if_neg h1, if_neg h1]

theorem prunePartial_sublist' (keep : List Nat) (group ms r : List Mapping) (h : prunePartial keep group ms = .ok r) :
    r.Sublist ms := by
  unfold prunePartial at h
  split at h
  · simp only [PruneRes.ok.injEq] at h; subst h; exact List.Sublist.refl _
  · exact dedupP_sublist _ _ _ _ h

/-- Every raw match is kept or shares its key with a kept match. -/
theorem prunePartial_covers' (keep : List Nat) (group ms r : List Mapping) (h : prunePartial keep group ms = .ok r) :
    ∀ m ∈ ms, m ∈ r ∨ ∃ k m', m' ∈ r ∧ keyP keep group m = .key k ∧ keyP keep group m' = .key k := by
  intro m hm
  unfold prunePartial at h
  split at h
  · simp only [PruneRes.ok.injEq] at h; subst h; exact Or.inl hm
  · rcases dedupP_covers _ _ _ _ h m hm with h1 | ⟨k, hk, h1 | ⟨m', hm', hk'⟩⟩
    · exact Or.inl h1
    · cases h1
    · exact Or.inr ⟨k, m', hm', hk, hk'⟩

/-- The matches that lack a pattern node come back exactly (same ones, as often, same order). -/
theorem prunePartial_lacking' (keep : List Nat) (group ms r : List Mapping) (h : prunePartial keep group ms = .ok r) :
    r.filter (fun m => !coversB keep m) = ms.filter (fun m => !coversB keep m) := by
  have hP : ∀ m, (!coversB keep m) = true ↔ keyP keep group m = .lacking := by
    intro m
    rw [keyP_lacking_iff]
    cases coversB keep m <;> simp
  unfold prunePartial at h
  split at h
  · simp only [PruneRes.ok.injEq] at h; subst h; rfl
  · exact dedupP_lacking _ _ hP _ _ _ h

theorem prunePartial_ok' (keep : List Nat) (group : List Mapping)
    (hg : ∀ σ ∈ group, ∀ p ∈ keep, ∃ q ∈ keep, Mapping.get? σ p = some q) (hne : group ≠ []) (ms : List Mapping) :
    ∃ r, prunePartial keep group ms = .ok r := by
  unfold prunePartial
  split
  · exact ⟨ms, rfl⟩
  · exact dedupP_ok _ _ _ (fun m _ => keyP_no_error keep group hg hne m)

/-! ## The relation on partial matches -/

/-- A common image is in particular a common partial image. -/
theorem related_relatedP (keep : List Nat) (group : List Mapping) (m m' : Mapping) (h : Related keep group m m') :
    RelatedP keep group m m' := by
  obtain ⟨σ₁, h₁, σ₂, h₂, k, e₁, e₂⟩ := h
  exact ⟨σ₁, h₁, σ₂, h₂, (composeOn_eq_of_mem keep m σ₁ k m' σ₂ k e₁ e₂ (fun _ => Iff.rfl)).2⟩

/-- On matches that cover `keep`, under automorphisms that map `keep` into `keep`, a common partial
image is a common image. -/
theorem relatedP_related (keep : List Nat) (group : List Mapping)
    (hg : ∀ σ ∈ group, ∀ p ∈ keep, ∃ q ∈ keep, Mapping.get? σ p = some q)
    (m m' : Mapping) (hm : coversB keep m = true) (h : RelatedP keep group m m') : Related keep group m m' := by
  obtain ⟨σ₁, h₁, σ₂, h₂, hpt⟩ := h
  have : ∃ k, composeOn keep m σ₁ = some k := by
    unfold composeOn
    apply mapOpt_isSome
    intro p hp
    obtain ⟨q, hq, e⟩ := hg σ₁ h₁ p hp
    obtain ⟨hh, ehh⟩ := (coversB_iff keep m).1 hm q hq
    exact ⟨(p, hh), by rw [e]; simp only [Option.bind_some, ehh, Option.map_some]⟩
  obtain ⟨k, hk⟩ := this
  exact ⟨σ₁, h₁, σ₂, h₂, k, hk, by rw [← composeOn_congr keep m σ₁ m' σ₂ hpt]; exact hk⟩

/-- Composites that agree on `keep` are defined at the same pattern nodes. -/
theorem domOn_congr (keep : List Nat) (m σ m' σ' : Mapping) (h : ∀ p ∈ keep, pcomp m σ p = pcomp m' σ' p) :
    domOn keep m σ = domOn keep m' σ' := by
  unfold domOn
  apply List.filter_congr
  intro p hp
  rw [h p hp]

end SynKit.ReactorInv

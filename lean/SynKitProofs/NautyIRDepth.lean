import SynKitModel.NautyIR
import SynKitProofs.NautyIRWf
import SynKitProofs.NautyIRSearch
import SynKitProofs.NautyIRLemmas
/-!
# The individualisation–refinement search with a depth cap (`max_depth`) — C08

`irSearchCapped` (model of `_search(…, depth, max_depth=d)`) against the uncapped `irSearch`:

* `irSearchCapped_flag_false`: a run that returns `early_stop = False` has returned what the uncapped
  search returns (from every state, every fuel; no hypothesis on the graph).
* `irSearchCapped_no_stop`: when every leaf below a node lies at depth `≤ d`, the capped search never
  stops early there (needs the fuel to be adequate: every node of the tree has a leaf below it).
* `irSearchCapped_result`: the returned `best` is the `best` handed in or `(label, order)` of a leaf of
  depth `≤ d` of the (unpruned) tree.
* `irSearchCapped_first`: from `best = None`, the run ends with `best = None` exactly when the FIRST leaf
  of the tree in visiting order lies deeper than `d` (the descent to the first leaf is never pruned, and
  the first call beyond the cap ends the whole search); it then also reports the early stop.

The generic lemmas on folds whose state carries a stop flag are shared with `CrnIRDepth.lean`.
-/
set_option linter.unusedSimpArgs false
set_option linter.unusedVariables false
namespace SynKit.Canon
open SynKit

/-! ## Folds whose state carries a stop flag -/

section Flag
variable {σ β : Type}

/-- once the flag is up the loop has been left -/
theorem foldl_flag_sticky (step : σ × Bool → β → σ × Bool) (hst : ∀ s v, step (s, true) v = (s, true)) :
    ∀ (cs : List β) (s : σ), cs.foldl step (s, true) = (s, true)
  | [], _ => rfl
  | v :: cs, s => by rw [List.foldl_cons, hst, foldl_flag_sticky step hst cs s]

/-- a loop that ends with the flag down has done in every round what the loop without flag does -/
theorem foldl_flag_false_eq (stepC : σ × Bool → β → σ × Bool) (stepU : σ → β → σ)
    (hst : ∀ s v, stepC (s, true) v = (s, true)) :
    ∀ (cs : List β), (∀ s v r, v ∈ cs → stepC (s, false) v = (r, false) → r = stepU s v) →
      ∀ s r, cs.foldl stepC (s, false) = (r, false) → r = cs.foldl stepU s := by
  intro cs
  induction cs with
  | nil =>
    intro _ s r h
    simp only [List.foldl_nil, Prod.mk.injEq] at h
    exact h.1.symm
  | cons v cs ih =>
    intro hstep s r h
    rw [List.foldl_cons] at h ⊢
    cases hs : stepC (s, false) v with
    | mk r1 f1 =>
      rw [hs] at h
      cases f1 with
      | true =>
        rw [foldl_flag_sticky stepC hst] at h
        simp at h
      | false =>
        have e := hstep s v r1 List.mem_cons_self hs
        rw [← e]
        exact ih (fun s' v' r' hv' => hstep s' v' r' (List.mem_cons_of_mem _ hv')) r1 r h

/-- a loop none of whose rounds raises the flag ends with the flag down -/
theorem foldl_flag_stays_false (stepC : σ × Bool → β → σ × Bool) :
    ∀ (cs : List β), (∀ s v, v ∈ cs → (stepC (s, false) v).2 = false) →
      ∀ s, (cs.foldl stepC (s, false)).2 = false := by
  intro cs
  induction cs with
  | nil => intro _ s; rfl
  | cons v cs ih =>
    intro hstep s
    rw [List.foldl_cons]
    cases hs : stepC (s, false) v with
    | mk r1 f1 =>
      have := hstep s v List.mem_cons_self
      rw [hs] at this
      simp only at this
      subst this
      exact ih (fun s' v' hv' => hstep s' v' (List.mem_cons_of_mem _ hv')) r1

/-- an invariant of every round is an invariant of the loop -/
theorem foldl_inv {γ : Type} (step : γ → β → γ) (I : γ → Prop) :
    ∀ (cs : List β), (∀ s v, v ∈ cs → I s → I (step s v)) → ∀ s, I s → I (cs.foldl step s) := by
  intro cs
  induction cs with
  | nil => intro _ s hs; exact hs
  | cons v cs ih =>
    intro hstep s hs
    rw [List.foldl_cons]
    exact ih (fun s' v' hv' => hstep s' v' (List.mem_cons_of_mem _ hv')) _ (hstep s v List.mem_cons_self hs)

end Flag

/-! ## Depths of leaves -/

theorem irMaxDepth_foldl_le (ls : List (List Nat × List Nat)) (m d : Nat) :
    ls.foldl (fun m l => Nat.max m (irLeafDepth l)) m ≤ d ↔ m ≤ d ∧ ∀ l ∈ ls, l.1.length ≤ d := by
  induction ls generalizing m with
  | nil => simp
  | cons a ls ih =>
    rw [List.foldl_cons, ih]
    simp only [List.mem_cons, forall_eq_or_imp, irLeafDepth, Nat.max_def]
    constructor
    · rintro ⟨h1, h2⟩
      split at h1 <;> exact ⟨by omega, by omega, h2⟩
    · rintro ⟨h1, h2, h3⟩
      split <;> exact ⟨by omega, h3⟩

/-- `d` is at least the deepest leaf iff every leaf lies at depth `≤ d` -/
theorem irMaxDepth_le_iff (ls : List (List Nat × List Nat)) (d : Nat) :
    irMaxDepth ls ≤ d ↔ ∀ l ∈ ls, l.1.length ≤ d := by
  unfold irMaxDepth
  rw [irMaxDepth_foldl_le]
  simp

theorem irDepth_le_iff (G : LGraph) (d : Nat) : irDepth G ≤ d ↔ ∀ l ∈ irRootLeaves G, l.1.length ≤ d :=
  irMaxDepth_le_iff _ d

/-- the deepest leaf is attained (when there is a leaf) -/
theorem irMaxDepth_attained (ls : List (List Nat × List Nat)) (h : ls ≠ []) :
    ∃ l ∈ ls, l.1.length = irMaxDepth ls := by
  by_cases hz : irMaxDepth ls = 0
  · cases ls with
    | nil => exact absurd rfl h
    | cons a ls =>
      have := (irMaxDepth_le_iff (a :: ls) 0).1 (by omega) a List.mem_cons_self
      exact ⟨a, List.mem_cons_self, by omega⟩
  · have h1 : ¬ irMaxDepth ls ≤ irMaxDepth ls - 1 := by omega
    rw [irMaxDepth_le_iff] at h1
    have h1' : ∃ l ∈ ls, ¬ l.1.length ≤ irMaxDepth ls - 1 := by
      apply Classical.byContradiction
      intro hc
      apply h1
      intro l hl
      apply Classical.byContradiction
      intro hc'
      exact hc ⟨l, hl, hc'⟩
    obtain ⟨l, hl, h2⟩ := h1'
    have h3 := (irMaxDepth_le_iff ls (irMaxDepth ls)).1 (Nat.le_refl _) l hl
    exact ⟨l, hl, by omega⟩

/-- every call of the search consumes one unit of the model's fuel: a leaf below a node lies less than
`fuel` levels below it -/
theorem irLeaves_depth_lt (G : LGraph) (fuel : Nat) (P : List (List Nat)) (pfx : List Nat) :
    ∀ l ∈ irLeaves G fuel P pfx, l.1.length + 1 ≤ pfx.length + fuel := by
  induction fuel generalizing P pfx with
  | zero => intro l hl; simp [irLeaves] at hl
  | succ fuel ih =>
    intro l hl
    simp only [irLeaves] at hl
    split at hl
    · simp only [List.mem_singleton] at hl
      subst hl
      simp only
      omega
    · split at hl
      · simp at hl
      · rw [List.mem_flatMap] at hl
        obtain ⟨v, _, hv⟩ := hl
        have := ih _ _ l hv
        simp only [List.length_append, List.length_cons, List.length_nil] at this
        omega

/-- the deepest leaf lies at depth at most the number of nodes -/
theorem irDepth_le_nodes (G : LGraph) : irDepth G ≤ G.nodes.length := by
  rw [irDepth_le_iff]
  intro l hl
  have := irLeaves_depth_lt G _ _ _ l hl
  simp only [List.length_nil] at this
  omega

/-! ## The capped search, one node -/

theorem irPruned_none (pgt) (G : LGraph) (cp : List Nat) : irPruned pgt G cp none = false := rfl

theorem irSearchCapped_succ (lt pgt) (prune : Bool) (G : LGraph) (d fuel depth : Nat) (P : List (List Nat))
    (pfx : List Nat) (best : IRBest) :
    irSearchCapped lt pgt prune G d (fuel + 1) depth P pfx best =
      if depth > d then (best, true)
      else if irIsDiscrete (irRefine G P) then
        (irUpdate lt best (irBuildLabel G (pfx ++ (irRefine G P).flatten)) (irRefine G P).flatten, false)
      else
        match irTargetCell (irRefine G P) with
        | none => (best, false)
        | some (pre, c, post) =>
          (irChildren G c).foldl (fun st v =>
            if st.2 then st
            else if prune && irPruned pgt G (pfx ++ [v]) st.1 then st
            else irSearchCapped lt pgt prune G d fuel (depth + 1) (irIndividualise pre c post v) (pfx ++ [v]) st.1)
            (best, false) := rfl

theorem irSearch_succ (lt pgt) (prune : Bool) (G : LGraph) (fuel : Nat) (P : List (List Nat))
    (pfx : List Nat) (best : IRBest) :
    irSearch lt pgt prune G (fuel + 1) P pfx best =
      if irIsDiscrete (irRefine G P) then
        irUpdate lt best (irBuildLabel G (pfx ++ (irRefine G P).flatten)) (irRefine G P).flatten
      else
        match irTargetCell (irRefine G P) with
        | none => best
        | some (pre, c, post) =>
          (irChildren G c).foldl (fun best v =>
            if prune && irPruned pgt G (pfx ++ [v]) best then best
            else irSearch lt pgt prune G fuel (irIndividualise pre c post v) (pfx ++ [v]) best) best := rfl

/-! ## (b) an answer without the flag is the full answer -/

/-- **a run that ends with `early_stop = False` returns what the uncapped search returns** -/
theorem irSearchCapped_flag_false (lt pgt) (prune : Bool) (G : LGraph) (d : Nat) :
    ∀ (fuel depth : Nat) (P : List (List Nat)) (pfx : List Nat) (best r : IRBest),
      irSearchCapped lt pgt prune G d fuel depth P pfx best = (r, false) →
        r = irSearch lt pgt prune G fuel P pfx best := by
  intro fuel
  induction fuel with
  | zero =>
    intro depth P pfx best r h
    simp only [irSearchCapped, Prod.mk.injEq] at h
    simp only [irSearch]
    exact h.1.symm
  | succ fuel ih =>
    intro depth P pfx best r h
    rw [irSearchCapped_succ] at h
    rw [irSearch_succ]
    split at h
    · simp at h
    · split at h
      · rename_i hd
        rw [if_pos hd]
        simp only [Prod.mk.injEq] at h
        exact h.1.symm
      · rename_i hd
        rw [if_neg hd]
        split at h
        · rename_i ht
          simp only [Prod.mk.injEq] at h
          exact h.1.symm
        · rename_i pre c post ht
          refine foldl_flag_false_eq _ _ ?_ (irChildren G c) ?_ best r h
          · intro s v
            simp
          · intro s v r' _ hr'
            simp only [Bool.false_eq_true, if_false] at hr'
            split at hr'
            · rename_i hp
              rw [if_pos hp]
              simp only [Prod.mk.injEq] at hr'
              exact hr'.1.symm
            · rename_i hp
              rw [if_neg hp]
              exact ih _ _ _ _ _ hr'

/-! ## (a) a cap at or below which every leaf lies is never reached -/

/-- **when every leaf below a node lies at depth `≤ d`, the capped search does not stop early there** -/
theorem irSearchCapped_no_stop (lt pgt) (prune : Bool) (G : LGraph) (d : Nat) {ids : List Nat} (hn : ids.Nodup) :
    ∀ (fuel depth : Nat) (P : List (List Nat)) (pfx : List Nat) (best : IRBest),
      IRPartOK ids P → ids.length < fuel + P.length → depth = pfx.length →
      (∀ l ∈ irLeaves G fuel P pfx, l.1.length ≤ d) →
        (irSearchCapped lt pgt prune G d fuel depth P pfx best).2 = false := by
  intro fuel
  induction fuel with
  | zero => intro depth P pfx best _ _ _ _; rfl
  | succ fuel ih =>
    intro depth P pfx best hok hf hdep hle
    have hr := irRefine_ok G ids P hok
    have hlen := irRefine_length_le G P
    -- the node has a leaf below it, which extends its prefix
    have hne := irLeaves_ne_nil G hn (fuel + 1) P pfx hok hf
    have hdd : ¬ depth > d := by
      cases hL : irLeaves G (fuel + 1) P pfx with
      | nil => exact absurd hL hne
      | cons l0 rest =>
        have hm : l0 ∈ irLeaves G (fuel + 1) P pfx := by rw [hL]; exact List.mem_cons_self
        have h1 := (irLeaves_prefix G (fuel + 1) P pfx l0 hm).length_le
        have h2 := hle l0 hm
        omega
    rw [irSearchCapped_succ, if_neg hdd]
    rw [irLeaves_succ] at hle
    split
    · rfl
    · rename_i hd
      rw [if_neg hd] at hle
      cases ht : irTargetCell (irRefine G P) with
      | none => rfl
      | some t =>
        obtain ⟨pre, c, post⟩ := t
        rw [ht] at hle
        simp only at hle ⊢
        obtain ⟨hP, hc⟩ := irTargetCell_some ht
        rw [hP] at hr
        apply foldl_flag_stays_false
        intro s v hv
        have hv' : v ∈ c := by
          unfold irChildren at hv
          exact (mem_sortBy _ _ _).1 hv
        obtain ⟨hok', hlen'⟩ := irIndividualise_ok hn hr hv' hc
        simp only [Bool.false_eq_true, if_false]
        split
        · rfl
        · apply ih _ _ _ _ hok' (by rw [hlen', ← hP]; omega) (by simp [hdep])
          intro l hl
          exact hle l (List.mem_flatMap.2 ⟨v, hv, hl⟩)

/-! ## (c) what a capped run returns is a leaf at depth `≤ d` -/

/-- **the `best` a capped run returns is the one handed in, or `(label, order)` of a leaf of the
(unpruned, uncapped) tree that lies at depth `≤ d`** -/
theorem irSearchCapped_result (lt pgt) (prune : Bool) (G : LGraph) (d : Nat) :
    ∀ (fuel depth : Nat) (P : List (List Nat)) (pfx : List Nat) (best : IRBest), depth = pfx.length →
      (irSearchCapped lt pgt prune G d fuel depth P pfx best).1 = best ∨
      ∃ l ∈ irLeaves G fuel P pfx, l.1.length ≤ d ∧
        (irSearchCapped lt pgt prune G d fuel depth P pfx best).1 = some (irLeafLabel G l, l.2) := by
  intro fuel
  induction fuel with
  | zero => intro depth P pfx best _; exact Or.inl rfl
  | succ fuel ih =>
    intro depth P pfx best hdep
    rw [irSearchCapped_succ, irLeaves_succ]
    split
    · exact Or.inl rfl
    · rename_i hdd
      split
      · cases best with
        | none =>
          refine Or.inr ⟨(pfx, (irRefine G P).flatten), List.mem_singleton.2 rfl, by simp only; omega, rfl⟩
        | some b =>
          obtain ⟨bl, bo⟩ := b
          simp only [irUpdate]
          split
          · refine Or.inr ⟨(pfx, (irRefine G P).flatten), List.mem_singleton.2 rfl, by simp only; omega, rfl⟩
          · exact Or.inl rfl
      · cases ht : irTargetCell (irRefine G P) with
        | none => exact Or.inl rfl
        | some t =>
          obtain ⟨pre, c, post⟩ := t
          simp only
          refine foldl_inv _
            (fun st : IRBest × Bool => st.1 = best ∨
              ∃ l ∈ (irChildren G c).flatMap (fun v => irLeaves G fuel (irIndividualise pre c post v) (pfx ++ [v])),
                l.1.length ≤ d ∧ st.1 = some (irLeafLabel G l, l.2)) (irChildren G c) ?_ (best, false) (Or.inl rfl)
          intro st v hv hI
          split
          · exact hI
          · split
            · exact hI
            · rcases ih (depth + 1) (irIndividualise pre c post v) (pfx ++ [v]) st.1 (by simp [hdep]) with h | ⟨l, hl, hld, he⟩
              · rw [h]; exact hI
              · exact Or.inr ⟨l, List.mem_flatMap.2 ⟨v, hv, hl⟩, hld, he⟩

/-- a `best` that is set stays set -/
theorem irSearchCapped_isSome (lt pgt) (prune : Bool) (G : LGraph) (d : Nat)
    (fuel depth : Nat) (P : List (List Nat)) (pfx : List Nat) (best : IRBest) (hdep : depth = pfx.length)
    (h : best.isSome = true) : (irSearchCapped lt pgt prune G d fuel depth P pfx best).1.isSome = true := by
  rcases irSearchCapped_result lt pgt prune G d fuel depth P pfx best hdep with e | ⟨l, _, _, e⟩
  · rw [e]; exact h
  · rw [e]; rfl

/-! ## The `RuntimeError` case: the first leaf decides -/

/-- **from `best = None`: if the first leaf below the node lies deeper than `d`, the run ends with
`(None, True)`; otherwise it ends with a `best`** -/
theorem irSearchCapped_first (lt pgt) (prune : Bool) (G : LGraph) (d : Nat) {ids : List Nat} (hn : ids.Nodup) :
    ∀ (fuel depth : Nat) (P : List (List Nat)) (pfx : List Nat) (l0 : List Nat × List Nat)
      (rest : List (List Nat × List Nat)),
      IRPartOK ids P → ids.length < fuel + P.length → depth = pfx.length →
      irLeaves G fuel P pfx = l0 :: rest →
        (d < l0.1.length → irSearchCapped lt pgt prune G d fuel depth P pfx none = (none, true)) ∧
        (l0.1.length ≤ d → (irSearchCapped lt pgt prune G d fuel depth P pfx none).1.isSome = true) := by
  intro fuel
  induction fuel with
  | zero => intro depth P pfx l0 rest _ _ _ hL; simp [irLeaves] at hL
  | succ fuel ih =>
    intro depth P pfx l0 rest hok hf hdep hL
    have hr := irRefine_ok G ids P hok
    have hlen := irRefine_length_le G P
    have hm : l0 ∈ irLeaves G (fuel + 1) P pfx := by rw [hL]; exact List.mem_cons_self
    have hpre := (irLeaves_prefix G (fuel + 1) P pfx l0 hm).length_le
    rw [irSearchCapped_succ]
    rw [irLeaves_succ] at hL
    split
    · rename_i hdd
      exact ⟨fun _ => rfl, fun h => by omega⟩
    · rename_i hdd
      split
      · rename_i hd
        rw [if_pos hd] at hL
        simp only [List.cons.injEq] at hL
        have : l0.1.length = pfx.length := by rw [← hL.1]
        exact ⟨fun h => by omega, fun _ => rfl⟩
      · rename_i hd
        rw [if_neg hd] at hL
        cases ht : irTargetCell (irRefine G P) with
        | none => rw [ht] at hL; simp at hL
        | some t =>
          obtain ⟨pre, c, post⟩ := t
          rw [ht] at hL
          simp only at hL ⊢
          obtain ⟨hP, hc⟩ := irTargetCell_some ht
          rw [hP] at hr
          cases hch : irChildren G c with
          | nil => rw [hch] at hL; simp at hL
          | cons v vs =>
            have hv : v ∈ c := by
              have : v ∈ irChildren G c := by rw [hch]; exact List.mem_cons_self
              unfold irChildren at this
              exact (mem_sortBy _ _ _).1 this
            obtain ⟨hok', hlen'⟩ := irIndividualise_ok hn hr hv hc
            have hf' : ids.length < fuel + (irIndividualise pre c post v).length := by rw [hlen', ← hP]; omega
            have hne := irLeaves_ne_nil G hn fuel (irIndividualise pre c post v) (pfx ++ [v]) hok' hf'
            rw [hch, List.flatMap_cons] at hL
            cases hLv : irLeaves G fuel (irIndividualise pre c post v) (pfx ++ [v]) with
            | nil => exact absurd hLv hne
            | cons l1 rest1 =>
              rw [hLv, List.cons_append, List.cons.injEq] at hL
              obtain ⟨rfl, _⟩ := hL
              obtain ⟨hA, hB⟩ := ih (depth + 1) _ _ l1 rest1 hok' hf' (by simp [hdep]) hLv
              rw [List.foldl_cons]
              simp only [irPruned_none, Bool.and_false, Bool.false_eq_true, if_false]
              constructor
              · intro hlt'
                rw [hA hlt']
                exact foldl_flag_sticky _ (fun s w => by simp) vs none
              · intro hle'
                refine foldl_inv _ (fun st : IRBest × Bool => st.1.isSome = true) vs ?_ _ (hB hle')
                intro st w _ hI
                split
                · exact hI
                · split
                  · exact hI
                  · exact irSearchCapped_isSome lt pgt prune G d fuel (depth + 1) _ _ st.1 (by simp [hdep]) hI

/-! ## At the root: `canonical_form(max_depth=d)` -/

/-- (b) at the root -/
theorem irCanonCappedWith_flag_sound (lt pgt) (prune : Bool) (G : LGraph) (d : Nat) (r : IRBest)
    (h : irCanonCappedWith lt pgt prune G d = (r, false)) : r = irCanonWith lt pgt prune G :=
  irSearchCapped_flag_false lt pgt prune G d _ _ _ _ _ _ h

/-- (a) at the root -/
theorem irCanonCappedWith_full (lt pgt) (prune : Bool) (G : LGraph) (hn : G.ids.Nodup) (d : Nat)
    (h : irDepth G ≤ d) : irCanonCappedWith lt pgt prune G d = (irCanonWith lt pgt prune G, false) := by
  have hflag : (irCanonCappedWith lt pgt prune G d).2 = false := by
    apply irSearchCapped_no_stop lt pgt prune G d hn _ _ _ _ _ (irInitialPartition_ok G) _ rfl
      ((irDepth_le_iff G d).1 h)
    have := LGraph_ids_length G
    omega
  cases hc : irCanonCappedWith lt pgt prune G d with
  | mk r f =>
    rw [hc] at hflag
    simp only at hflag
    subst hflag
    rw [irCanonCappedWith_flag_sound lt pgt prune G d r hc]

/-- (c) at the root -/
theorem irCanonCappedWith_leaf (lt pgt) (prune : Bool) (G : LGraph) (d : Nat) (L : IRLabel) (o : List Nat)
    (h : (irCanonCappedWith lt pgt prune G d).1 = some (L, o)) :
    ∃ l ∈ irRootLeaves G, l.1.length ≤ d ∧ L = irLeafLabel G l ∧ o = l.2 := by
  rcases irSearchCapped_result lt pgt prune G d (G.nodes.length + 1) 0 (irInitialPartition G) [] none rfl with e | ⟨l, hl, hd, e⟩
  · unfold irCanonCappedWith at h
    rw [e] at h
    simp at h
  · unfold irCanonCappedWith at h
    rw [e] at h
    simp only [Option.some.injEq, Prod.mk.injEq] at h
    exact ⟨l, hl, hd, h.1.symm, h.2.symm⟩

/-- the `RuntimeError` case at the root: exactly when the first leaf lies deeper than `d`; the flag is
then up -/
theorem irCanonCappedWith_none_iff (lt pgt) (prune : Bool) (G : LGraph) (hn : G.ids.Nodup) (d : Nat) :
    ((irCanonCappedWith lt pgt prune G d).1 = none ↔ ∃ l rest, irRootLeaves G = l :: rest ∧ d < l.1.length) ∧
    ((irCanonCappedWith lt pgt prune G d).1 = none → irCanonCappedWith lt pgt prune G d = (none, true)) := by
  have hne := irLeaves_root_ne_nil G hn
  cases hL : irLeaves G (G.nodes.length + 1) (irInitialPartition G) [] with
  | nil => exact absurd hL hne
  | cons l0 rest =>
    have hf : G.ids.length < G.nodes.length + 1 + (irInitialPartition G).length := by
      have := LGraph_ids_length G
      omega
    obtain ⟨hA, hB⟩ := irSearchCapped_first lt pgt prune G d hn _ 0 _ [] l0 rest (irInitialPartition_ok G) hf rfl hL
    unfold irRootLeaves irCanonCappedWith
    rw [hL]
    by_cases hd : d < l0.1.length
    · rw [hA hd]
      exact ⟨⟨fun _ => ⟨l0, rest, rfl, hd⟩, fun _ => rfl⟩, fun _ => rfl⟩
    · have hs := hB (by omega)
      constructor
      · constructor
        · intro h; rw [h] at hs; simp at hs
        · rintro ⟨l, rest', he, hlt'⟩
          simp only [List.cons.injEq] at he
          rw [← he.1] at hlt'
          omega
      · intro h; rw [h] at hs; simp at hs

end SynKit.Canon

import SynKitModel.CrnIR
import SynKitProofs.CrnIRLemmas
/-!
# The views of a network satisfy the attribute hypothesis of the IR theorems (C18)

`CrnAttrOK`: no selected attribute is `None` or the empty string, and `order` is not tuple valued.
Bipartite view: node keys among `kind`, `bipartite`, any arc keys.  Species view: node key `kind`,
any arc keys.
-/
set_option linter.unusedSimpArgs false
set_option linter.unusedVariables false
namespace SynKit.CrnCanon
open SynKit

/-- a value that `_label` and `_sig` read the same way -/
def GoodVal (v : Val) : Prop := v ≠ Val.none ∧ v ≠ Val.str ""

theorem get?_good {a : Attrs} (h : ∀ kv ∈ a, GoodVal kv.2) (k : String) :
    Dict.get? a k ≠ some Val.none ∧ Dict.get? a k ≠ some (.str "") := by
  cases hx : Dict.get? a k with
  | none => simp
  | some v =>
    have := h _ (Dict.get?_some_mem a k v hx)
    simp only [ne_eq, Option.some.injEq]
    exact this

theorem get?_notTup {a : Attrs} (h : ∀ kv ∈ a, ∀ xs, kv.2 ≠ Val.tup xs) (k : String) :
    valIsTup (Dict.get? a k) = false := by
  cases hx : Dict.get? a k with
  | none => rfl
  | some v =>
    have := h _ (Dict.get?_some_mem a k v hx)
    cases v with
    | tup xs => exact absurd rfl (this xs)
    | _ => rfl

theorem crnAttrOK_viewBip (sel : SelD) (stoich : Bool) (N : Net)
    (hsel : ∀ k ∈ sel.nodeKeys, k = "kind" ∨ k = "bipartite") : CrnAttrOK sel (viewBip stoich N) := by
  constructor
  · intro p hp k hk
    simp only [viewBip, List.mem_append, List.mem_map] at hp
    rcases hp with ⟨li, _, rfl⟩ | ⟨rj, _, rfl⟩
    · rcases hsel k hk with rfl | rfl <;> simp [spAttrsBip, Dict.get?, natVal]
    · rcases hsel k hk with rfl | rfl <;> simp [rxAttrsBip, Dict.get?, natVal]
  · intro e he k hk
    simp only [viewBip, List.mem_flatMap, List.mem_append, List.mem_map] at he
    have hshape : ∃ c role, (role = "reactant" ∨ role = "product") ∧ e.2.2 = arcAttrsBip stoich c role := by
      obtain ⟨rj, _, h | h⟩ := he
      · obtain ⟨sc, _, rfl⟩ := h
        exact ⟨sc.2, "reactant", Or.inl rfl, rfl⟩
      · obtain ⟨sc, _, rfl⟩ := h
        exact ⟨sc.2, "product", Or.inr rfl, rfl⟩
    obtain ⟨c, role, hrole, ea⟩ := hshape
    rw [ea]
    have hgood : ∀ kv ∈ arcAttrsBip stoich c role, GoodVal kv.2 ∧ ∀ xs, kv.2 ≠ Val.tup xs := by
      intro kv hkv
      unfold arcAttrsBip at hkv
      cases stoich <;> rcases hrole with rfl | rfl <;>
        simp only [if_true, if_false, Bool.false_eq_true, List.nil_append, List.cons_append, List.mem_cons,
          List.not_mem_nil, or_false] at hkv
      all_goals
        rcases hkv with rfl | rfl <;> simp [GoodVal, natVal]
    have h1 := get?_good (fun kv hkv => (hgood kv hkv).1) k
    exact ⟨h1.1, h1.2, fun _ => get?_notTup (fun kv hkv => (hgood kv hkv).2) k⟩

theorem crnAttrOK_viewSpecies (sel : SelD) (N : Net) (hselN : ∀ k ∈ sel.nodeKeys, k = "kind") :
    CrnAttrOK sel (viewSpecies N) := by
  constructor
  · intro p hp k hk
    simp only [viewSpecies, List.mem_map] at hp
    obtain ⟨li, _, rfl⟩ := hp
    rw [hselN k hk]
    simp [Dict.get?]
  · intro e he k hk
    simp only [viewSpecies, List.mem_map] at he
    obtain ⟨a, _, rfl⟩ := he
    have hgood : ∀ kv ∈ a.attrs, GoodVal kv.2 := by
      intro kv hkv
      simp only [SArc.attrs, List.mem_cons, List.not_mem_nil, or_false] at hkv
      rcases hkv with rfl | rfl | rfl | rfl | rfl | rfl <;> simp [GoodVal, natVal, strTup, mapTup]
    have h1 := get?_good hgood k
    refine ⟨h1.1, h1.2, ?_⟩
    rintro rfl
    simp [SArc.attrs, Dict.get?, valIsTup]

end SynKit.CrnCanon

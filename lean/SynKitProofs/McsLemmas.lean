import SynKitModel.Mcs
import SynKitProofs.Match
import Mathlib.Data.List.Nodup
import Mathlib.Data.List.Perm.Subperm
/-!
# Helper lemmas for C12 (common-subgraph matcher)

1. the normalised labels turn the engine's `.get` equality into the Python closures;
2. graph facts: `edge?`/`attrs`/`ids`/`WF` of `induce` and `normGraph`;
3. `IsInduced` of the engine on (normalised host, induced normalised sub-pattern) ⇔ `IsCommonInduced`;
4. `combinations` = sublists of given length;
5. the search loop.
-/
namespace SynKit.Mcs
open SynKit SynKit.Match

/-! ## 1. Closures -/

theorem attrs_get_single (k : String) (v : Val) : Attrs.get [(k, v)] k = v := by
  simp [Attrs.get, Dict.getD, Dict.get?]

theorem nodeOk_norm (cfg : Cfg) (a b : Attrs) :
    nodeOk theSel (normNodeAttrs cfg a) (normNodeAttrs cfg b) = nodeMatch cfg a b := by
  rw [Bool.eq_iff_iff]
  simp only [nodeOk, theSel, normNodeAttrs, attrs_get_single, List.all_cons, List.all_nil, Bool.and_true,
    Bool.not_false, Bool.true_or, decide_eq_true_eq, Val.tup.injEq, List.map_inj_left, nodeMatch, nodeMatchPy,
    List.all_eq_true, beq_iff_eq]

theorem edgeVal_main (cfg : Cfg) (hv : cfg.variant = .main) (b1 b2 : Bool) (x y : Val) :
    normEdgeVal cfg b1 x = normEdgeVal cfg b2 y ↔ edgeAttrMatchPy x y = true := by
  cases x <;> cases y <;> simp [normEdgeVal, edgeAttrMatchPy, toFloat?, hv]

theorem edgeVal_mtg (cfg : Cfg) (hv : cfg.variant = .mtg) (x y : Val) :
    normEdgeVal cfg true x = normEdgeVal cfg false y ↔ edgeAttrMatchMtg x y = true := by
  cases x <;> cases y <;> simp [normEdgeVal, edgeAttrMatchMtg, toFloat?, hv]

theorem edgeOk_norm (cfg : Cfg) (b a : Attrs) :
    edgeOk theSel (normEdgeAttrs cfg true b) (normEdgeAttrs cfg false a) = edgeMatch cfg b a := by
  rw [Bool.eq_iff_iff]
  simp only [edgeOk, theSel, normEdgeAttrs, attrs_get_single, List.all_cons, List.all_nil, Bool.and_true,
    decide_eq_true_eq, Val.tup.injEq, List.map_inj_left, edgeMatch]
  cases hv : cfg.variant
  · simp only [edgeMatchPy, List.all_eq_true]
    exact forall₂_congr fun k _ => edgeVal_main cfg hv true false _ _
  · simp only [edgeMatchMtg, List.all_eq_true]
    exact forall₂_congr fun k _ => edgeVal_mtg cfg hv _ _

theorem edgeAttrMatchPy_symm (x y : Val) : edgeAttrMatchPy x y = edgeAttrMatchPy y x := by
  cases x <;> cases y <;> simp [edgeAttrMatchPy, toFloat?, eq_comm]

theorem edgeAttrMatchMtg_symm (x y : Val) : edgeAttrMatchMtg x y = edgeAttrMatchMtg y x := by
  cases x <;> cases y <;> simp [edgeAttrMatchMtg, toFloat?, eq_comm]

theorem nodeMatch_symm (cfg : Cfg) (a b : Attrs) : nodeMatch cfg a b = nodeMatch cfg b a := by
  simp only [nodeMatch, nodeMatchPy]
  congr 1; funext kd; rw [Bool.eq_iff_iff]; simp only [beq_iff_eq]; exact eq_comm

theorem edgeMatch_symm (cfg : Cfg) (a b : Attrs) : edgeMatch cfg a b = edgeMatch cfg b a := by
  simp only [edgeMatch]
  cases cfg.variant
  · simp only [edgeMatchPy]; congr 1; funext k; exact edgeAttrMatchPy_symm _ _
  · simp only [edgeMatchMtg]; congr 1; funext k; exact edgeAttrMatchMtg_symm _ _

/-! ## 2. Graph facts -/

theorem find?_congr' {α : Type} {p q : α → Bool} : ∀ {l : List α}, (∀ x ∈ l, p x = q x) → l.find? p = l.find? q
  | [], _ => rfl
  | a :: l, h => by
    have ha := h a (List.mem_cons_self ..)
    have ih := find?_congr' (l := l) fun x hx => h x (List.mem_cons_of_mem _ hx)
    simp only [List.find?_cons, ha, ih]

theorem ids_normGraph (cfg : Cfg) (b : Bool) (g : LGraph) : (normGraph cfg b g).ids = g.ids := by
  simp [normGraph, LGraph.ids, List.map_map, Function.comp_def]

theorem ids_induce (g : LGraph) (S : List Nat) : (induce g S).ids = g.ids.filter (· ∈ S) := by
  simp only [induce, LGraph.ids, List.filter_map]; rfl

theorem edge?_comm (g : LGraph) (u v : Nat) : g.edge? u v = g.edge? v u := by
  unfold LGraph.edge?
  congr 1
  apply find?_congr'
  intro e _
  rw [Bool.eq_iff_iff]; simp only [decide_eq_true_eq]; exact or_comm

theorem edge?_normGraph (cfg : Cfg) (b : Bool) (g : LGraph) (u v : Nat) :
    (normGraph cfg b g).edge? u v = (g.edge? u v).map (normEdgeAttrs cfg b) := by
  simp only [LGraph.edge?, normGraph, List.find?_map, Option.map_map]
  rfl

theorem hasEdge_normGraph (cfg : Cfg) (b : Bool) (g : LGraph) (u v : Nat) :
    (normGraph cfg b g).hasEdge u v = g.hasEdge u v := by
  simp [LGraph.hasEdge, edge?_normGraph]

theorem edge?_induce (g : LGraph) (S : List Nat) (u v : Nat) :
    (induce g S).edge? u v = if u ∈ S ∧ v ∈ S then g.edge? u v else none := by
  simp only [LGraph.edge?, induce, List.find?_filter]
  split
  · rename_i h
    congr 1
    apply find?_congr'
    intro e _
    rw [Bool.eq_iff_iff]
    simp only [decide_eq_true_eq]
    constructor
    · exact fun h' => h'.2
    · rintro (⟨rfl, rfl⟩ | ⟨rfl, rfl⟩)
      · exact ⟨h, Or.inl ⟨rfl, rfl⟩⟩
      · exact ⟨h.symm, Or.inr ⟨rfl, rfl⟩⟩
  · rename_i h
    rw [Option.map_eq_none_iff, List.find?_eq_none]
    intro e _
    simp only [decide_eq_true_eq, not_and]
    rintro ⟨h1, h2⟩ (⟨rfl, rfl⟩ | ⟨rfl, rfl⟩)
    · exact h ⟨h1, h2⟩
    · exact h ⟨h2, h1⟩

/-- `LGraph.attrs` on a bare node list. -/
def lookupA (ns : List (Nat × Attrs)) (v : Nat) : Attrs :=
  match ns.find? (·.1 = v) with
  | some p => p.2
  | none => []

theorem attrs_eq_lookupA (g : LGraph) (v : Nat) : g.attrs v = lookupA g.nodes v := rfl

theorem lookupA_cons (p : Nat × Attrs) (ns : List (Nat × Attrs)) (v : Nat) :
    lookupA (p :: ns) v = if p.1 = v then p.2 else lookupA ns v := by
  unfold lookupA
  by_cases h : p.1 = v <;> simp [h]

theorem lookupA_map (cfg : Cfg) (v : Nat) : ∀ (ns : List (Nat × Attrs)), v ∈ ns.map (·.1) →
    lookupA (ns.map fun p => (p.1, normNodeAttrs cfg p.2)) v = normNodeAttrs cfg (lookupA ns v)
  | [], hv => by simp at hv
  | p :: ns, hv => by
    simp only [List.map_cons, lookupA_cons]
    by_cases h : p.1 = v
    · simp [h]
    · simp only [h, if_false]
      apply lookupA_map cfg v ns
      simp only [List.map_cons, List.mem_cons] at hv
      rcases hv with hv | hv
      · exact absurd hv.symm h
      · exact hv

theorem lookupA_filter (S : List Nat) (v : Nat) (hv : v ∈ S) : ∀ (ns : List (Nat × Attrs)),
    lookupA (ns.filter fun p => p.1 ∈ S) v = lookupA ns v
  | [] => rfl
  | p :: ns => by
    have ih := lookupA_filter S v hv ns
    by_cases h2 : p.1 ∈ S
    · rw [List.filter_cons_of_pos (by simpa using h2), lookupA_cons, lookupA_cons, ih]
    · have h : p.1 ≠ v := fun e => h2 (e ▸ hv)
      rw [List.filter_cons_of_neg (by simpa using h2), lookupA_cons, if_neg h, ih]

theorem attrs_normGraph (cfg : Cfg) (b : Bool) (g : LGraph) (v : Nat) (hv : v ∈ g.ids) :
    (normGraph cfg b g).attrs v = normNodeAttrs cfg (g.attrs v) := by
  rw [attrs_eq_lookupA, attrs_eq_lookupA]
  exact lookupA_map cfg v g.nodes hv

theorem attrs_induce (g : LGraph) (S : List Nat) (v : Nat) (hv : v ∈ S) : (induce g S).attrs v = g.attrs v := by
  rw [attrs_eq_lookupA, attrs_eq_lookupA]
  exact lookupA_filter S v hv g.nodes

theorem wf_normGraph (cfg : Cfg) (b : Bool) (g : LGraph) (hg : g.WF) : (normGraph cfg b g).WF := by
  obtain ⟨h1, h2, h3⟩ := hg
  refine ⟨by rwa [ids_normGraph], ?_, ?_⟩
  · intro e he
    simp only [normGraph, List.mem_map] at he
    obtain ⟨e0, he0, rfl⟩ := he
    simpa [ids_normGraph] using h2 e0 he0
  · simpa [normGraph, List.map_map, Function.comp_def] using h3

theorem wf_induce (g : LGraph) (S : List Nat) (hg : g.WF) : (induce g S).WF := by
  obtain ⟨h1, h2, h3⟩ := hg
  refine ⟨?_, ?_, ?_⟩
  · rw [ids_induce]; exact h1.sublist List.filter_sublist
  · intro e he
    simp only [induce, List.mem_filter, decide_eq_true_eq] at he
    obtain ⟨he, hs1, hs2⟩ := he
    obtain ⟨a, b, c⟩ := h2 e he
    rw [ids_induce]
    exact ⟨List.mem_filter.2 ⟨a, by simpa using hs1⟩, List.mem_filter.2 ⟨b, by simpa using hs2⟩, c⟩
  · exact h3.sublist (List.Sublist.map _ List.filter_sublist)

theorem mem_of_edge? (g : LGraph) (u v : Nat) (a : Attrs) (h : g.edge? u v = some a) :
    ∃ e ∈ g.edges, e.2.2 = a ∧ ((e.1 = u ∧ e.2.1 = v) ∨ (e.1 = v ∧ e.2.1 = u)) := by
  simp only [LGraph.edge?, Option.map_eq_some_iff] at h
  obtain ⟨e, he, rfl⟩ := h
  exact ⟨e, List.mem_of_find?_eq_some he, rfl, by simpa using List.find?_some he⟩

theorem edge?_of_mem (g : LGraph) (hg : g.WF) (e : Nat × Nat × Attrs) (he : e ∈ g.edges) :
    g.edge? e.1 e.2.1 = some e.2.2 := by
  cases h : g.edge? e.1 e.2.1 with
  | none =>
    simp only [LGraph.edge?, Option.map_eq_none_iff, List.find?_eq_none] at h
    exact absurd (by simp) (h e he)
  | some a =>
    obtain ⟨e', he', rfl, hor⟩ := mem_of_edge? g _ _ _ h
    have hk : (min e'.1 e'.2.1, max e'.1 e'.2.1) = (min e.1 e.2.1, max e.1 e.2.1) := by
      rcases hor with ⟨h1, h2⟩ | ⟨h1, h2⟩
      · rw [h1, h2]
      · rw [h1, h2, Nat.min_comm, Nat.max_comm]
    rw [List.inj_on_of_nodup_map hg.2.2 he' he hk]

theorem get?_of_mem (m : Mapping) (hn : (m.map (·.1)).Nodup) (p h : Nat) (hm : (p, h) ∈ m) :
    m.get? p = some h := by
  induction m with
  | nil => simp at hm
  | cons x m ih =>
    simp only [List.map_cons, List.nodup_cons] at hn
    simp only [Mapping.get?, List.find?_cons]
    rcases List.mem_cons.1 hm with rfl | hm
    · simp
    · have : x.1 ≠ p := fun e => hn.1 (e ▸ List.mem_map.2 ⟨(p, h), hm, rfl⟩)
      simp only [this, decide_false]
      exact ih hn.2 hm

theorem mem_of_get? (m : Mapping) (p h : Nat) (hg : m.get? p = some h) : (p, h) ∈ m := by
  simp only [Mapping.get?, Option.map_eq_some_iff] at hg
  obtain ⟨x, hx, rfl⟩ := hg
  have := List.find?_some hx
  simp only [decide_eq_true_eq] at this
  rw [← this]
  exact List.mem_of_find?_eq_some hx

/-! ## 3. Engine embeddings of an induced sub-pattern ⇔ common induced sub-graphs -/

theorem edgeAgree_some_left (cfg : Cfg) (a : Attrs) (e₂ : Option Attrs) :
    EdgeAgree cfg (some a) e₂ ↔ ∃ b, e₂ = some b ∧ edgeMatch cfg b a = true := by
  cases e₂ <;> simp [EdgeAgree]

theorem edgeAgree_none_left (cfg : Cfg) (e₂ : Option Attrs) : EdgeAgree cfg none e₂ ↔ e₂ = none := by
  cases e₂ <;> simp [EdgeAgree]

/-- The engine's induced embeddings of the sub-pattern induced by `S` (both graphs normalised)
are exactly the common induced sub-graphs whose domain, read in pattern node order, is `S ∩ P`. -/
theorem isInduced_iff (cfg : Cfg) (P H : LGraph) (hP : P.WF) (S : List Nat) (m : Mapping) :
    IsInduced theSel (normGraph cfg true H) (induce (normGraph cfg false P) S) m ↔
      m.map (·.1) = P.ids.filter (· ∈ S) ∧ IsCommonInduced cfg P H m := by
  have hids : (induce (normGraph cfg false P) S).ids = P.ids.filter (· ∈ S) := by
    rw [ids_induce, ids_normGraph]
  constructor
  · rintro ⟨⟨h1, h2, h3, h4⟩, h5⟩
    rw [hids] at h1
    have hfst : ∀ ph ∈ m, ph.1 ∈ P.ids ∧ ph.1 ∈ S := by
      intro ph hph
      have : ph.1 ∈ m.map (·.1) := List.mem_map.2 ⟨ph, hph, rfl⟩
      rw [h1, List.mem_filter] at this
      exact ⟨this.1, by simpa using this.2⟩
    have hnd : (m.map (·.1)).Nodup := h1 ▸ hP.1.sublist List.filter_sublist
    refine ⟨h1, hnd, ?_, h2, ?_, ?_, ?_⟩
    · intro p hp
      obtain ⟨ph, hph, rfl⟩ := List.mem_map.1 hp
      exact (hfst ph hph).1
    · intro h hh
      obtain ⟨ph, hph, rfl⟩ := List.mem_map.1 hh
      simpa [ids_normGraph] using (h3 ph hph).1
    · intro ph hph
      have := (h3 ph hph).2
      rw [attrs_induce _ _ _ (hfst ph hph).2, attrs_normGraph _ _ _ _ (hfst ph hph).1,
        attrs_normGraph _ _ _ _ (by simpa [ids_normGraph] using (h3 ph hph).1), nodeOk_norm] at this
      exact this
    · intro ph hph qh hqh
      have gp := get?_of_mem m hnd ph.1 ph.2 hph
      have gq := get?_of_mem m hnd qh.1 qh.2 hqh
      cases hpe : P.edge? ph.1 qh.1 with
      | some a =>
        rw [edgeAgree_some_left]
        obtain ⟨e, he, rfl, hor⟩ := mem_of_edge? P _ _ _ hpe
        have hmem : (e.1, e.2.1, normEdgeAttrs cfg false e.2.2) ∈ (induce (normGraph cfg false P) S).edges := by
          simp only [induce, normGraph, List.mem_filter, List.mem_map, decide_eq_true_eq]
          refine ⟨⟨e, he, rfl⟩, ?_⟩
          rcases hor with ⟨h1', h2'⟩ | ⟨h1', h2'⟩
          · rw [h1', h2']; exact ⟨(hfst ph hph).2, (hfst qh hqh).2⟩
          · rw [h1', h2']; exact ⟨(hfst qh hqh).2, (hfst ph hph).2⟩
        obtain ⟨hu, hv, ea, g1, g2, hed, hok⟩ := h4 _ hmem
        simp only at g1 g2 hok
        have hed' : (normGraph cfg true H).edge? ph.2 qh.2 = some ea := by
          rcases hor with ⟨h1', h2'⟩ | ⟨h1', h2'⟩
          · rw [h1'] at g1; rw [h2'] at g2
            rw [gp] at g1; rw [gq] at g2
            cases g1; cases g2; exact hed
          · rw [h1'] at g1; rw [h2'] at g2
            rw [gq] at g1; rw [gp] at g2
            cases g1; cases g2; rw [edge?_comm]; exact hed
        rw [edge?_normGraph, Option.map_eq_some_iff] at hed'
        obtain ⟨b, hb, rfl⟩ := hed'
        exact ⟨b, hb, by rw [← edgeOk_norm]; exact hok⟩
      | none =>
        rw [edgeAgree_none_left]
        have hno : (induce (normGraph cfg false P) S).hasEdge ph.1 qh.1 = false := by
          simp [LGraph.hasEdge, edge?_induce, edge?_normGraph, hpe]
        have := h5 _ _ _ _ gp gq hno
        simpa [LGraph.hasEdge, edge?_normGraph] using this
  · rintro ⟨h1, c1, c2, c3, c4, c5, c6⟩
    have hfst : ∀ ph ∈ m, ph.1 ∈ P.ids ∧ ph.1 ∈ S := by
      intro ph hph
      have : ph.1 ∈ m.map (·.1) := List.mem_map.2 ⟨ph, hph, rfl⟩
      rw [h1, List.mem_filter] at this
      exact ⟨this.1, by simpa using this.2⟩
    have hdom : ∀ p, p ∈ P.ids → p ∈ S → ∃ h, (p, h) ∈ m := by
      intro p hp hs
      have : p ∈ m.map (·.1) := by rw [h1, List.mem_filter]; exact ⟨hp, by simpa using hs⟩
      obtain ⟨ph, hph, rfl⟩ := List.mem_map.1 this
      exact ⟨ph.2, hph⟩
    refine ⟨⟨by rw [hids]; exact h1, c3, ?_, ?_⟩, ?_⟩
    · intro ph hph
      have hh : ph.2 ∈ H.ids := c4 _ (List.mem_map.2 ⟨ph, hph, rfl⟩)
      refine ⟨by simpa [ids_normGraph] using hh, ?_⟩
      rw [attrs_induce _ _ _ (hfst ph hph).2, attrs_normGraph _ _ _ _ (hfst ph hph).1,
        attrs_normGraph _ _ _ _ hh, nodeOk_norm]
      exact c5 ph hph
    · intro e'' he''
      simp only [induce, normGraph, List.mem_filter, List.mem_map, decide_eq_true_eq] at he''
      obtain ⟨⟨e, he, rfl⟩, hs1, hs2⟩ := he''
      simp only at hs1 hs2 ⊢
      obtain ⟨w1, w2, _⟩ := hP.2.1 e he
      obtain ⟨hu, hmu⟩ := hdom _ w1 hs1
      obtain ⟨hv, hmv⟩ := hdom _ w2 hs2
      have := c6 _ hmu _ hmv
      simp only at this
      rw [edge?_of_mem P hP e he, edgeAgree_some_left] at this
      obtain ⟨b, hb, hbm⟩ := this
      refine ⟨hu, hv, normEdgeAttrs cfg true b, get?_of_mem m c1 _ _ hmu, get?_of_mem m c1 _ _ hmv, ?_, ?_⟩
      · rw [edge?_normGraph, hb]; rfl
      · rw [edgeOk_norm]; exact hbm
    · intro p q hp hq gp gq hno
      have mp := mem_of_get? m _ _ gp
      have mq := mem_of_get? m _ _ gq
      have sp := (hfst _ mp).2
      have sq := (hfst _ mq).2
      simp only at sp sq
      have hpn : P.edge? p q = none := by
        simpa [LGraph.hasEdge, edge?_induce, edge?_normGraph, sp, sq] using hno
      have := c6 _ mp _ mq
      simp only at this
      rw [hpn, edgeAgree_none_left] at this
      simp [LGraph.hasEdge, edge?_normGraph, this]

/-! ## 4. `combinations`, one level of the search -/

theorem mem_combinations {α : Type} : ∀ (k : Nat) (xs S : List α),
    S ∈ combinations k xs ↔ S.Sublist xs ∧ S.length = k
  | 0, xs, S => by
    cases xs <;> simp only [combinations, List.mem_singleton] <;>
    · constructor
      · rintro rfl; exact ⟨List.nil_sublist _, rfl⟩
      · rintro ⟨_, h⟩; exact List.eq_nil_of_length_eq_zero h
  | k + 1, [], S => by
    simp only [combinations, List.not_mem_nil, List.sublist_nil, false_iff, not_and]
    rintro rfl; simp
  | k + 1, x :: xs, S => by
    simp only [combinations, List.mem_append, List.mem_map, mem_combinations k xs, mem_combinations (k + 1) xs,
      List.sublist_cons_iff]
    constructor
    · rintro (⟨T, ⟨hT, hl⟩, rfl⟩ | ⟨h1, h2⟩)
      · exact ⟨Or.inr ⟨T, rfl, hT⟩, by simp [hl]⟩
      · exact ⟨Or.inl h1, h2⟩
    · rintro ⟨h1 | ⟨T, rfl, hT⟩, h2⟩
      · exact Or.inr ⟨h1, h2⟩
      · exact Or.inl ⟨T, ⟨hT, by simpa using h2⟩, rfl⟩

theorem filter_mem_of_sublist {l S : List Nat} (hs : S.Sublist l) (hl : l.Nodup) : l.filter (· ∈ S) = S := by
  induction hs with
  | slnil => rfl
  | @cons S l a hs ih =>
    rw [List.nodup_cons] at hl
    have : a ∉ S := fun h => hl.1 (hs.subset h)
    rw [List.filter_cons_of_neg (by simpa using this)]
    exact ih hl.2
  | @cons_cons S l a hs ih =>
    rw [List.nodup_cons] at hl
    rw [List.filter_cons_of_pos (by simp)]
    congr 1
    rw [← ih hl.2]
    apply List.filter_congr
    intro x hx
    have : x ≠ a := fun e => hl.1 (e ▸ hx)
    simp [this, ih hl.2]

/-- One level of the search (on the normalised graphs) finds exactly the common induced sub-graphs with
`k` nodes, each written in pattern node order. -/
theorem mem_levelCands (cfg : Cfg) (P H : LGraph) (hP : P.WF) (k : Nat) (m : Mapping) :
    m ∈ levelCands (normGraph cfg false P) (normGraph cfg true H) k ↔
      (m.map (·.1)).Sublist P.ids ∧ m.length = k ∧ IsCommonInduced cfg P H m := by
  simp only [levelCands, List.mem_flatMap, mem_combinations, ids_normGraph]
  constructor
  · rintro ⟨S, ⟨hS, hk⟩, hm⟩
    rw [mem_allInduced _ _ _ (wf_induce _ _ (wf_normGraph _ _ _ hP)), isInduced_iff cfg P H hP,
      filter_mem_of_sublist hS hP.1] at hm
    refine ⟨hm.1 ▸ hS, ?_, hm.2⟩
    rw [← hk, ← hm.1, List.length_map]
  · rintro ⟨hS, hk, hm⟩
    refine ⟨m.map (·.1), ⟨hS, by rw [List.length_map, hk]⟩, ?_⟩
    rw [mem_allInduced _ _ _ (wf_induce _ _ (wf_normGraph _ _ _ hP)), isInduced_iff cfg P H hP,
      filter_mem_of_sublist hS hP.1]
    exact ⟨rfl, hm⟩

/-! ## 5. Sorting, the visit step, the loop -/

theorem insertBy_perm {α : Type} (le : α → α → Bool) (x : α) : ∀ l : List α, (insertBy le x l).Perm (x :: l)
  | [] => List.Perm.refl _
  | y :: ys => by
    simp only [insertBy]
    split
    · exact List.Perm.refl _
    · exact ((insertBy_perm le x ys).cons y).trans (List.Perm.swap x y ys)

theorem isort_perm {α : Type} (le : α → α → Bool) : ∀ l : List α, (isort le l).Perm l
  | [] => List.Perm.refl _
  | x :: xs => (insertBy_perm le x _).trans ((isort_perm le xs).cons x)

theorem mem_isort {α : Type} (le : α → α → Bool) (l : List α) (x : α) : x ∈ isort le l ↔ x ∈ l :=
  (isort_perm le l).mem_iff

theorem mem_levels : ∀ (n k : Nat), k ∈ levels n ↔ 1 ≤ k ∧ k ≤ n
  | 0, k => by simp only [levels, List.not_mem_nil, false_iff]; omega
  | n + 1, k => by simp only [levels, List.mem_cons, mem_levels n k]; omega

/-- The first hit of a descending scan is the largest hit. -/
theorem find?_levels (p : Nat → Bool) : ∀ n : Nat,
    match (levels n).find? p with
    | none => ∀ k, 1 ≤ k → k ≤ n → p k = false
    | some k' => p k' = true ∧ 1 ≤ k' ∧ k' ≤ n ∧ ∀ k, k' < k → k ≤ n → p k = false
  | 0 => by simp only [levels, List.find?_nil]; intro k h1 h2; omega
  | n + 1 => by
    simp only [levels, List.find?_cons]
    cases hp : p (n + 1) with
    | true => exact ⟨hp, by omega, by omega, fun k h1 h2 => by omega⟩
    | false =>
      have ih := find?_levels p n
      cases hf : (levels n).find? p with
      | none =>
        rw [hf] at ih
        intro k h1 h2
        by_cases hk : k = n + 1
        · rw [hk]; exact hp
        · exact ih k h1 (by omega)
      | some k' =>
        rw [hf] at ih
        obtain ⟨a, b, c, d⟩ := ih
        refine ⟨a, b, by omega, fun k h1 h2 => ?_⟩
        by_cases hk : k = n + 1
        · rw [hk]; exact hp
        · exact d k h1 (by omega)

theorem sameSet_refl (a : List Nat) : sameSet a a = true := by simp [sameSet]

theorem sameSet_comm (a b : List Nat) : sameSet a b = sameSet b a := by
  simp only [sameSet]; exact Bool.and_comm _ _

theorem sameSet_iff (a b : List Nat) : sameSet a b = true ↔ ∀ x, x ∈ a ↔ x ∈ b := by
  simp only [sameSet, Bool.and_eq_true, List.all_eq_true, decide_eq_true_eq]
  exact ⟨fun h x => ⟨h.1 x, h.2 x⟩, fun h => ⟨fun x => (h x).1, fun x => (h x).2⟩⟩

/-- What the search state guarantees at every moment. -/
structure Inv (prune : Bool) (st : St) : Prop where
  out_sub : ∀ m ∈ st.out, m ∈ st.seen
  seen_sub : prune = false → ∀ m ∈ st.seen, m ∈ st.out
  nodup : st.out.Nodup
  hs : prune = true → ∀ s, s ∈ st.hostSets ↔ ∃ m ∈ st.out, s = m.map (·.2)
  rep : prune = true → ∀ m ∈ st.seen, ∃ m' ∈ st.out, sameSet (m.map (·.2)) (m'.map (·.2)) = true
  distinct : prune = true → st.out.Pairwise fun a b => sameSet (a.map (·.2)) (b.map (·.2)) = false

theorem inv_init (prune : Bool) : Inv prune {} :=
  ⟨by simp, by simp, List.nodup_nil, by simp, by simp, fun _ => List.Pairwise.nil⟩

theorem visit_seen (prune : Bool) (st : St) (m x : Mapping) :
    x ∈ (visit prune st m).seen ↔ x = m ∨ x ∈ st.seen := by
  unfold visit
  by_cases h : m ∈ st.seen
  · simp only [h, if_true]
    constructor
    · exact Or.inr
    · rintro (rfl | h') <;> assumption
  · simp only [h, if_false]
    cases prune
    · simp
    · simp only [if_true]
      split <;> simp

theorem visit_out (prune : Bool) (st : St) (m x : Mapping) (hx : x ∈ (visit prune st m).out) :
    x ∈ st.out ∨ x = m := by
  unfold visit at hx
  by_cases h : m ∈ st.seen
  · simp only [h, if_true] at hx; exact Or.inl hx
  · simp only [h, if_false] at hx
    cases prune
    · simpa using hx
    · simp only [if_true] at hx
      split at hx
      · exact Or.inl hx
      · simpa using hx

theorem visit_best (prune : Bool) (st : St) (m : Mapping) : (visit prune st m).best = st.best := by
  unfold visit
  by_cases h : m ∈ st.seen
  · simp [h]
  · simp only [h, if_false]
    cases prune
    · simp
    · simp only [if_true]; split <;> rfl

theorem visit_found_mono (prune : Bool) (st : St) (m : Mapping) (hf : st.found = true) :
    (visit prune st m).found = true := by
  unfold visit
  by_cases h : m ∈ st.seen
  · simp [h, hf]
  · simp only [h, if_false]
    cases prune
    · simp
    · simp only [if_true]; split
      · exact hf
      · rfl

theorem visit_inv (prune : Bool) (st : St) (m : Mapping) (hI : Inv prune st) : Inv prune (visit prune st m) := by
  unfold visit
  by_cases h : m ∈ st.seen
  · simp only [h, if_true]; exact hI
  · simp only [h, if_false]
    have hmo : m ∉ st.out := fun h' => h (hI.out_sub m h')
    cases prune with
    | false =>
      simp only [Bool.false_eq_true, if_false]
      refine ⟨?_, ?_, ?_, by simp, by simp, by simp⟩
      · intro x hx
        rcases List.mem_append.1 hx with hx | hx
        · exact List.mem_cons_of_mem _ (hI.out_sub x hx)
        · simp only [List.mem_singleton] at hx; rw [hx]; exact List.mem_cons_self ..
      · intro _ x hx
        rcases List.mem_cons.1 hx with rfl | hx
        · simp
        · exact List.mem_append_left _ (hI.seen_sub rfl x hx)
      · exact List.nodup_append.2 ⟨hI.nodup, List.nodup_singleton m, by
          intro a ha b hb; simp only [List.mem_singleton] at hb; rw [hb]; rintro rfl; exact hmo ha⟩
    | true =>
      simp only [if_true]
      split
      · rename_i hany
        refine ⟨fun x hx => List.mem_cons_of_mem _ (hI.out_sub x hx), by simp, hI.nodup, hI.hs, ?_, hI.distinct⟩
        intro _ x hx
        rcases List.mem_cons.1 hx with rfl | hx
        · simp only [List.any_eq_true] at hany
          obtain ⟨s, hs, hss⟩ := hany
          obtain ⟨m', hm', rfl⟩ := (hI.hs rfl s).1 hs
          exact ⟨m', hm', hss⟩
        · exact hI.rep rfl x hx
      · rename_i hany
        simp only [List.any_eq_true, not_exists, not_and, Bool.not_eq_true] at hany
        refine ⟨?_, by simp, ?_, ?_, ?_, ?_⟩
        · intro x hx
          rcases List.mem_append.1 hx with hx | hx
          · exact List.mem_cons_of_mem _ (hI.out_sub x hx)
          · simp only [List.mem_singleton] at hx; rw [hx]; exact List.mem_cons_self ..
        · exact List.nodup_append.2 ⟨hI.nodup, List.nodup_singleton m, by
            intro a ha b hb; simp only [List.mem_singleton] at hb; rw [hb]; rintro rfl; exact hmo ha⟩
        · intro _ s
          simp only [List.mem_cons, List.mem_append, List.not_mem_nil, or_false, hI.hs rfl s]
          constructor
          · rintro (rfl | ⟨m', hm', rfl⟩)
            · exact ⟨m, Or.inr rfl, rfl⟩
            · exact ⟨m', Or.inl hm', rfl⟩
          · rintro ⟨m', hm' | rfl, rfl⟩
            · exact Or.inr ⟨m', hm', rfl⟩
            · exact Or.inl rfl
        · intro _ x hx
          rcases List.mem_cons.1 hx with rfl | hx
          · exact ⟨x, by simp, sameSet_refl _⟩
          · obtain ⟨m', hm', hss⟩ := hI.rep rfl x hx
            exact ⟨m', List.mem_append_left _ hm', hss⟩
        · intro _
          rw [List.pairwise_append]
          refine ⟨hI.distinct rfl, List.pairwise_singleton _ _, ?_⟩
          intro a ha b hb
          simp only [List.mem_singleton] at hb
          rw [hb, sameSet_comm]
          exact hany _ ((hI.hs rfl _).2 ⟨a, ha, rfl⟩)

theorem fold_inv (prune : Bool) : ∀ (cs : List Mapping) (st : St), Inv prune st →
    Inv prune (cs.foldl (visit prune) st)
  | [], _, h => h
  | c :: cs, st, h => fold_inv prune cs _ (visit_inv prune st c h)

theorem fold_seen (prune : Bool) : ∀ (cs : List Mapping) (st : St) (x : Mapping),
    x ∈ (cs.foldl (visit prune) st).seen ↔ x ∈ cs ∨ x ∈ st.seen
  | [], st, x => by simp
  | c :: cs, st, x => by
    rw [List.foldl_cons, fold_seen prune cs, visit_seen, List.mem_cons]
    constructor
    · rintro (h | rfl | h)
      · exact Or.inl (Or.inr h)
      · exact Or.inl (Or.inl rfl)
      · exact Or.inr h
    · rintro ((rfl | h) | h)
      · exact Or.inr (Or.inl rfl)
      · exact Or.inl h
      · exact Or.inr (Or.inr h)

theorem fold_out (prune : Bool) : ∀ (cs : List Mapping) (st : St) (x : Mapping),
    x ∈ (cs.foldl (visit prune) st).out → x ∈ st.out ∨ x ∈ cs
  | [], st, x, h => Or.inl h
  | c :: cs, st, x, h => by
    rcases fold_out prune cs _ x h with h | h
    · rcases visit_out prune st c x h with h | rfl
      · exact Or.inl h
      · exact Or.inr (List.mem_cons_self ..)
    · exact Or.inr (List.mem_cons_of_mem _ h)

theorem fold_best (prune : Bool) : ∀ (cs : List Mapping) (st : St), (cs.foldl (visit prune) st).best = st.best
  | [], _ => rfl
  | c :: cs, st => by rw [List.foldl_cons, fold_best prune cs, visit_best]

theorem fold_found_mono (prune : Bool) : ∀ (cs : List Mapping) (st : St), st.found = true →
    (cs.foldl (visit prune) st).found = true
  | [], _, h => h
  | c :: cs, st, h => fold_found_mono prune cs _ (visit_found_mono prune st c h)

theorem fold_found_cons (prune : Bool) (c : Mapping) (cs : List Mapping) :
    ((c :: cs).foldl (visit prune) {}).found = true := by
  rw [List.foldl_cons]
  apply fold_found_mono
  cases prune <;> simp [visit]

/-- Every mapping the loop outputs was in the start state or is a candidate of one of the levels. -/
theorem loop_out (prune mcs : Bool) (cands : Nat → List Mapping) : ∀ (ks : List Nat) (st : St) (x : Mapping),
    x ∈ (loop prune mcs cands ks st).out → x ∈ st.out ∨ ∃ k ∈ ks, x ∈ cands k
  | [], st, x, h => Or.inl h
  | k :: ks, st, x, h => by
    unfold loop at h
    split at h
    · exact Or.inl h
    · have hk : ∀ y, y ∈ ((cands k).foldl (visit prune) { st with found := false }).out →
          y ∈ st.out ∨ ∃ k' ∈ k :: ks, y ∈ cands k' := by
        intro y hy
        rcases fold_out prune _ _ y hy with hy | hy
        · exact Or.inl hy
        · exact Or.inr ⟨k, List.mem_cons_self .., hy⟩
      have hrec : ∀ st', x ∈ (loop prune mcs cands ks st').out →
          (∀ y, y ∈ st'.out → y ∈ st.out ∨ ∃ k' ∈ k :: ks, y ∈ cands k') →
          x ∈ st.out ∨ ∃ k' ∈ k :: ks, x ∈ cands k' := by
        intro st' hx hst'
        rcases loop_out prune mcs cands ks st' x hx with hx | ⟨k', hk', hx⟩
        · exact hst' x hx
        · exact Or.inr ⟨k', List.mem_cons_of_mem _ hk', hx⟩
      simp only at h
      split at h
      · split at h
        · exact hk x h
        · exact hrec _ h hk
      · exact hrec _ h hk

/-- In maximum mode, from the empty state, the loop processes exactly the first non-empty level. -/
theorem loop_mcs (prune : Bool) (cands : Nat → List Mapping) : ∀ ks : List Nat,
    loop prune true cands ks {} =
      match ks.find? (fun k => !(cands k).isEmpty) with
      | none => {}
      | some k => { (cands k).foldl (visit prune) {} with best := k }
  | [] => rfl
  | k :: ks => by
    unfold loop
    have h0 : (true && (({} : St).best != 0) && decide (k < ({} : St).best)) = false := by simp
    rw [h0]
    simp only [Bool.false_eq_true, if_false, List.find?_cons]
    cases hc : cands k with
    | nil =>
      simp only [List.foldl_nil, List.isEmpty_nil, Bool.not_true, Bool.false_eq_true, if_false]
      exact loop_mcs prune cands ks
    | cons c cs =>
      have := fold_found_cons prune c cs
      simp only [List.isEmpty_cons, Bool.not_false]
      change (if ((c :: cs).foldl (visit prune) {}).found = true then _ else _) = _
      rw [this]
      simp only [hc]
      simpa using this

/-! ## 6. Re-ordering a mapping into pattern node order; inversion; symmetry -/

theorem isCommonInduced_perm (cfg : Cfg) (G₁ G₂ : LGraph) {m m' : Mapping} (hp : m.Perm m')
    (h : IsCommonInduced cfg G₁ G₂ m) : IsCommonInduced cfg G₁ G₂ m' := by
  obtain ⟨c1, c2, c3, c4, c5, c6⟩ := h
  refine ⟨((hp.map _).nodup_iff).1 c1, fun p hp' => c2 p ((hp.map _).mem_iff.2 hp'),
    ((hp.map _).nodup_iff).1 c3, fun p hp' => c4 p ((hp.map _).mem_iff.2 hp'),
    fun ph h' => c5 ph (hp.mem_iff.2 h'), fun ph h' qh h'' => c6 ph (hp.mem_iff.2 h') qh (hp.mem_iff.2 h'')⟩

/-- The mapping re-written in the node order of `P`. -/
def canon (P : LGraph) (m : Mapping) : Mapping := P.ids.filterMap fun p => m.find? (·.1 = p)

theorem find?_of_mem (m : Mapping) (hn : (m.map (·.1)).Nodup) (x : Nat × Nat) (hx : x ∈ m) :
    m.find? (·.1 = x.1) = some x := by
  induction m with
  | nil => simp at hx
  | cons y m ih =>
    simp only [List.map_cons, List.nodup_cons] at hn
    rcases List.mem_cons.1 hx with rfl | hx
    · simp
    · have : y.1 ≠ x.1 := fun e => hn.1 (e ▸ List.mem_map.2 ⟨x, hx, rfl⟩)
      rw [List.find?_cons_of_neg (by simpa using this)]
      exact ih hn.2 hx

theorem filterMap_map_sublist {α β : Type} (f : α → Option β) (g : β → α) (hfg : ∀ a x, f a = some x → g x = a) :
    ∀ l : List α, ((l.filterMap f).map g).Sublist l
  | [] => List.Sublist.slnil
  | a :: l => by
    rw [List.filterMap_cons]
    cases h : f a with
    | none => exact (filterMap_map_sublist f g hfg l).cons _
    | some x =>
      simp only [List.map_cons]
      rw [hfg a x h]
      exact (filterMap_map_sublist f g hfg l).cons_cons _

theorem canon_fst_sublist (P : LGraph) (m : Mapping) : ((canon P m).map (·.1)).Sublist P.ids := by
  apply filterMap_map_sublist
  intro a x h
  simpa using List.find?_some h

theorem canon_perm (P : LGraph) (hP : P.ids.Nodup) (m : Mapping) (c1 : (m.map (·.1)).Nodup)
    (c2 : ∀ p ∈ m.map (·.1), p ∈ P.ids) : (canon P m).Perm m := by
  have hn : (canon P m).Nodup := List.Nodup.of_map _ (hP.sublist (canon_fst_sublist P m))
  rw [List.perm_ext_iff_of_nodup hn (List.Nodup.of_map _ c1)]
  intro x
  simp only [canon, List.mem_filterMap]
  constructor
  · rintro ⟨p, _, h⟩; exact List.mem_of_find?_eq_some h
  · intro hx
    exact ⟨x.1, c2 _ (List.mem_map.2 ⟨x, hx, rfl⟩), find?_of_mem m c1 x hx⟩

/-- A common induced sub-graph with `k` nodes shows up (re-ordered) among the candidates of level `k`. -/
theorem canon_mem_levelCands (cfg : Cfg) (P H : LGraph) (hP : P.WF) (m : Mapping)
    (h : IsCommonInduced cfg P H m) :
    canon P m ∈ levelCands (normGraph cfg false P) (normGraph cfg true H) m.length := by
  have hp := canon_perm P hP.1 m h.1 h.2.1
  rw [mem_levelCands cfg P H hP]
  exact ⟨canon_fst_sublist P m, hp.length_eq, isCommonInduced_perm cfg P H hp.symm h⟩

theorem length_le_of_common (cfg : Cfg) (P H : LGraph) (m : Mapping) (h : IsCommonInduced cfg P H m) :
    m.length ≤ min P.nodes.length H.nodes.length := by
  obtain ⟨c1, c2, c3, c4, _, _⟩ := h
  have a := (List.Nodup.subperm c1 c2).length_le
  have b := (List.Nodup.subperm c3 c4).length_le
  simp only [List.length_map, LGraph.ids] at a b
  omega

theorem dictSet_fresh : ∀ (acc : Mapping) (k v : Nat), k ∉ acc.map (·.1) → dictSet acc k v = acc ++ [(k, v)]
  | [], k, v, _ => rfl
  | (k', v') :: rest, k, v, h => by
    simp only [List.map_cons, List.mem_cons, not_or] at h
    simp only [dictSet, Ne.symm h.1, if_false, List.cons_append, dictSet_fresh rest k v h.2]

theorem invert_aux : ∀ (m acc : Mapping), (acc.map (·.1) ++ m.map (·.2)).Nodup →
    m.foldl (fun acc ab => dictSet acc ab.2 ab.1) acc = acc ++ Mapping.inverse m
  | [], acc, _ => by simp [Mapping.inverse]
  | ab :: m, acc, h => by
    have hfresh : ab.2 ∉ acc.map (·.1) := by
      intro hin
      rw [List.nodup_append] at h
      exact h.2.2 _ hin _ (by simp) rfl
    rw [List.foldl_cons, dictSet_fresh acc _ _ hfresh, invert_aux m]
    · simp [Mapping.inverse]
    · simp only [List.map_append, List.map_cons, List.map_nil, List.append_assoc, List.singleton_append]
      simpa using h

theorem invert_eq_inverse (m : Mapping) (h : (m.map (·.2)).Nodup) : invert m = Mapping.inverse m := by
  have := invert_aux m [] (by simpa using h)
  simpa [invert] using this

theorem inverse_inverse (m : Mapping) : Mapping.inverse (Mapping.inverse m) = m := by
  simp [Mapping.inverse, List.map_map, Function.comp_def]

theorem inverse_fst (m : Mapping) : (Mapping.inverse m).map (·.1) = m.map (·.2) := by
  simp [Mapping.inverse, List.map_map, Function.comp_def]

theorem inverse_snd (m : Mapping) : (Mapping.inverse m).map (·.2) = m.map (·.1) := by
  simp [Mapping.inverse, List.map_map, Function.comp_def]

theorem inverse_length (m : Mapping) : (Mapping.inverse m).length = m.length := by simp [Mapping.inverse]

theorem edgeAgree_symm (cfg : Cfg) (e₁ e₂ : Option Attrs) : EdgeAgree cfg e₁ e₂ ↔ EdgeAgree cfg e₂ e₁ := by
  cases e₁ <;> cases e₂ <;> simp [EdgeAgree, edgeMatch_symm]

theorem isCommonInduced_inverse (cfg : Cfg) (G₁ G₂ : LGraph) (m : Mapping) (h : IsCommonInduced cfg G₁ G₂ m) :
    IsCommonInduced cfg G₂ G₁ (Mapping.inverse m) := by
  obtain ⟨c1, c2, c3, c4, c5, c6⟩ := h
  refine ⟨by rwa [inverse_fst], by rwa [inverse_fst], by rwa [inverse_snd], by rwa [inverse_snd], ?_, ?_⟩
  · intro ph hph
    simp only [Mapping.inverse, List.mem_map] at hph
    obtain ⟨x, hx, rfl⟩ := hph
    rw [nodeMatch_symm]; exact c5 x hx
  · intro ph hph qh hqh
    simp only [Mapping.inverse, List.mem_map] at hph hqh
    obtain ⟨x, hx, rfl⟩ := hph
    obtain ⟨y, hy, rfl⟩ := hqh
    rw [edgeAgree_symm]; exact c6 x hx y hy

theorem isCommonInduced_inverse_iff (cfg : Cfg) (G₁ G₂ : LGraph) (m : Mapping) :
    IsCommonInduced cfg G₁ G₂ m ↔ IsCommonInduced cfg G₂ G₁ (Mapping.inverse m) :=
  ⟨isCommonInduced_inverse cfg G₁ G₂ m, fun h => by
    have := isCommonInduced_inverse cfg G₂ G₁ _ h
    rwa [inverse_inverse] at this⟩

/-- Part of a common induced sub-graph is a common induced sub-graph. -/
theorem isCommonInduced_sublist (cfg : Cfg) (G₁ G₂ : LGraph) {m m' : Mapping} (hs : m'.Sublist m)
    (h : IsCommonInduced cfg G₁ G₂ m) : IsCommonInduced cfg G₁ G₂ m' := by
  obtain ⟨c1, c2, c3, c4, c5, c6⟩ := h
  exact ⟨c1.sublist (hs.map _), fun p hp => c2 p ((hs.map _).subset hp), c3.sublist (hs.map _),
    fun p hp => c4 p ((hs.map _).subset hp), fun ph h' => c5 ph (hs.subset h'),
    fun ph h' qh h'' => c6 ph (hs.subset h') qh (hs.subset h'')⟩

/-! ## 7. `search` -/

/-- The candidates of level `k` for pattern `P` and host `H`. -/
def candsOf (cfg : Cfg) (P H : LGraph) (k : Nat) : List Mapping :=
  levelCands (normGraph cfg false P) (normGraph cfg true H) k

theorem search_mem (cfg : Cfg) (mcs : Bool) (P H : LGraph) (m : Mapping) (hm : m ∈ (search cfg mcs P H).1) :
    ∃ k, m ∈ candsOf cfg P H k := by
  simp only [search, mem_isort] at hm
  have hout : m ∈ (loop cfg.pruneAut mcs (candsOf cfg P H) (levels (min P.nodes.length H.nodes.length)) {}).out := by
    split at hm
    · exact (List.mem_filter.1 hm).1
    · exact hm
  rcases loop_out _ _ _ _ _ _ hout with h | ⟨k, _, h⟩
  · simp at h
  · exact ⟨k, h⟩

theorem search_mcs_eq (cfg : Cfg) (P H : LGraph) :
    search cfg true P H =
      match (levels (min P.nodes.length H.nodes.length)).find? (fun k => !(candsOf cfg P H k).isEmpty) with
      | none => ([], 0)
      | some k => (isort keyLe ((((candsOf cfg P H k).foldl (visit cfg.pruneAut) {}).out).filter
          (fun m => m.length == k)), k) := by
  have hl := loop_mcs cfg.pruneAut (levelCands (normGraph cfg false P) (normGraph cfg true H))
    (levels (min P.nodes.length H.nodes.length))
  unfold search
  simp only [candsOf]
  rw [hl]
  cases hf : (levels (min P.nodes.length H.nodes.length)).find? (fun k => !(levelCands (normGraph cfg false P) (normGraph cfg true H) k).isEmpty) with
  | none =>
    cases hv : cfg.variant <;> simp [isort]
  | some k =>
    have hk : 1 ≤ k := ((mem_levels _ _).1 (List.mem_of_find?_eq_some hf)).1
    have hk0 : (k != 0) = true := by simp; omega
    cases hv : cfg.variant <;> simp [hk0]

theorem search_valid (cfg : Cfg) (mcs : Bool) (P H : LGraph) (hP : P.WF) (m : Mapping)
    (hm : m ∈ (search cfg mcs P H).1) : (m.map (·.1)).Sublist P.ids ∧ IsCommonInduced cfg P H m := by
  obtain ⟨k, hk⟩ := search_mem cfg mcs P H m hm
  rw [candsOf, mem_levelCands cfg P H hP] at hk
  exact ⟨hk.1, hk.2.2⟩

theorem search_same_size (cfg : Cfg) (P H : LGraph) (m : Mapping) (hm : m ∈ (search cfg true P H).1) :
    m.length = (search cfg true P H).2 := by
  rw [search_mcs_eq] at hm ⊢
  split at hm
  · simp at hm
  · simp only [mem_isort, List.mem_filter, beq_iff_eq] at hm
    exact hm.2

theorem search_maximal (cfg : Cfg) (P H : LGraph) (hP : P.WF) (m : Mapping) (h : IsCommonInduced cfg P H m) :
    m.length ≤ (search cfg true P H).2 := by
  have hmem := canon_mem_levelCands cfg P H hP m h
  have hle := length_le_of_common cfg P H m h
  have hfl := find?_levels (fun k => !(candsOf cfg P H k).isEmpty) (min P.nodes.length H.nodes.length)
  rw [search_mcs_eq]
  have hne : ∀ k, m.length = k → (!(candsOf cfg P H k).isEmpty) = false → False := by
    intro k hk he
    subst hk
    simp only [candsOf, Bool.not_eq_false', List.isEmpty_iff] at he
    rw [he] at hmem
    simp at hmem
  cases hf : (levels (min P.nodes.length H.nodes.length)).find? (fun k => !(candsOf cfg P H k).isEmpty) with
  | none =>
    rw [hf] at hfl
    by_cases h0 : m.length = 0
    · simp [h0]
    · exact absurd (hfl m.length (by omega) hle) (fun he => hne _ rfl he)
  | some k' =>
    rw [hf] at hfl
    simp only
    by_contra hlt
    exact hne _ rfl (hfl.2.2.2 m.length (by omega) hle)

/-- Without automorphism pruning the maximum-mode result is duplicate-free and contains (in pattern node
order) every non-empty common induced sub-graph of the reported size. -/
theorem search_all (cfg : Cfg) (P H : LGraph) (hP : P.WF) (hpr : cfg.pruneAut = false) :
    (search cfg true P H).1.Nodup ∧
    ∀ m, IsCommonInduced cfg P H m → m.length = (search cfg true P H).2 → m ≠ [] →
      canon P m ∈ (search cfg true P H).1 := by
  rw [search_mcs_eq]
  have hfl := find?_levels (fun k => !(candsOf cfg P H k).isEmpty) (min P.nodes.length H.nodes.length)
  cases hf : (levels (min P.nodes.length H.nodes.length)).find? (fun k => !(candsOf cfg P H k).isEmpty) with
  | none =>
    refine ⟨List.nodup_nil, ?_⟩
    intro m _ hl hne
    simp only at hl
    exact absurd (List.eq_nil_of_length_eq_zero hl) hne
  | some k =>
    have hI := fold_inv cfg.pruneAut (candsOf cfg P H k) {} (inv_init _)
    simp only
    refine ⟨((isort_perm _ _).nodup_iff).2 (hI.nodup.sublist List.filter_sublist), ?_⟩
    intro m hm hl _
    have hp := canon_perm P hP.1 m hm.1 hm.2.1
    rw [mem_isort, List.mem_filter]
    refine ⟨?_, by simp [hp.length_eq, hl]⟩
    apply hI.seen_sub hpr
    rw [fold_seen]
    left
    have := canon_mem_levelCands cfg P H hP m hm
    rw [hl] at this
    exact this

/-- With automorphism pruning: sub-set of the unpruned result, same size, every host node set of the
unpruned result represented, and no host node set twice. -/
theorem search_pruned (cfg : Cfg) (P H : LGraph) (hP : P.WF) (hpr : cfg.pruneAut = true) :
    let rp := search cfg true P H
    let ru := search { cfg with prune := false } true P H
    rp.2 = ru.2 ∧ (∀ m ∈ rp.1, m ∈ ru.1) ∧
    (∀ m ∈ ru.1, ∃ m' ∈ rp.1, sameSet (m.map (·.2)) (m'.map (·.2)) = true) ∧
    rp.1.Pairwise (fun a b => sameSet (a.map (·.2)) (b.map (·.2)) = false) := by
  have hcu : ∀ k, candsOf { cfg with prune := false } P H k = candsOf cfg P H k := fun _ => rfl
  have hpu : Cfg.pruneAut { cfg with prune := false } = false := by simp [Cfg.pruneAut]
  simp only
  rw [search_mcs_eq, search_mcs_eq]
  simp only [hcu, hpu, hpr]
  cases hf : (levels (min P.nodes.length H.nodes.length)).find? (fun k => !(candsOf cfg P H k).isEmpty) with
  | none => simp
  | some k =>
    have hIp := fold_inv true (candsOf cfg P H k) {} (inv_init _)
    have hIu := fold_inv false (candsOf cfg P H k) {} (inv_init _)
    have hseen : ∀ b x, x ∈ ((candsOf cfg P H k).foldl (visit b) {}).seen ↔ x ∈ candsOf cfg P H k := by
      intro b x; rw [fold_seen]; simp
    simp only [mem_isort, List.mem_filter, beq_iff_eq]
    refine ⟨trivial, ?_, ?_, ?_⟩
    · rintro m ⟨hm, hl⟩
      exact ⟨hIu.seen_sub rfl m ((hseen false m).2 ((hseen true m).1 (hIp.out_sub m hm))), hl⟩
    · rintro m ⟨hm, hl⟩
      obtain ⟨m', hm', hss⟩ := hIp.rep rfl m ((hseen true m).2 ((hseen false m).1 (hIu.out_sub m hm)))
      refine ⟨m', ⟨hm', ?_⟩, hss⟩
      have hc := (hseen true m').1 (hIp.out_sub m' hm')
      rw [candsOf, mem_levelCands cfg P H hP] at hc
      exact hc.2.1
    · apply List.Perm.pairwise (isort_perm _ _).symm _ (fun {x y} h => by rw [sameSet_comm]; exact h)
      exact (hIp.distinct rfl).sublist List.filter_sublist

/-! ## 8. `find`, `get_mappings` -/

theorem wf_used (cfg : Cfg) (G : LGraph) (h : G.WF) : (used cfg G).WF := by
  unfold used
  split
  · exact wf_induce _ _ h
  · exact h

theorem used_of_none (cfg : Cfg) (G : LGraph) (h : cfg.pruneWc = none) : used cfg G = G := by
  unfold used; rw [h]; cases cfg.variant <;> rfl

theorem used_mtg (cfg : Cfg) (G : LGraph) (h : cfg.variant = .mtg) : used cfg G = G := by
  unfold used; rw [h]

theorem find_spec (cfg : Cfg) (mcs : Bool) (G₁ G₂ : LGraph) :
    ((find cfg mcs G₁ G₂).patternIsG1 = some true ∧
      ((find cfg mcs G₁ G₂).mappings, (find cfg mcs G₁ G₂).lastSize) = search cfg mcs (used cfg G₁) (used cfg G₂)) ∨
    ((find cfg mcs G₁ G₂).patternIsG1 = some false ∧ cfg.variant = .main ∧
      ¬ (used cfg G₁).nodes.length ≤ (used cfg G₂).nodes.length ∧
      ((find cfg mcs G₁ G₂).mappings, (find cfg mcs G₁ G₂).lastSize) = search cfg mcs (used cfg G₂) (used cfg G₁)) := by
  unfold find
  cases hv : cfg.variant with
  | mtg => left; simp [used_mtg cfg _ hv]
  | main =>
    simp only
    split
    · left; simp
    · right; rename_i h; exact ⟨rfl, trivial, h, rfl⟩

theorem find_main (cfg : Cfg) (mcs : Bool) (G₁ G₂ : LGraph) (hv : cfg.variant = .main) :
    find cfg mcs G₁ G₂ =
      if (used cfg G₁).nodes.length ≤ (used cfg G₂).nodes.length then
        { mappings := (search cfg mcs (used cfg G₁) (used cfg G₂)).1
          lastSize := (search cfg mcs (used cfg G₁) (used cfg G₂)).2, patternIsG1 := some true }
      else
        { mappings := (search cfg mcs (used cfg G₂) (used cfg G₁)).1
          lastSize := (search cfg mcs (used cfg G₂) (used cfg G₁)).2, patternIsG1 := some false } := by
  unfold find
  simp only [hv]

theorem dirs_true (r : Result) (h : r.patternIsG1 = some true) :
    r.getMappings "G1_to_G2" = .ok r.mappings ∧ r.getMappings "G2_to_G1" = .ok (r.mappings.map invert) ∧
    r.g1ToG2 = r.mappings ∧ r.g2ToG1 = r.mappings.map invert := by
  simp [Result.g1ToG2, Result.g2ToG1, Result.getMappings, h]

theorem dirs_false (r : Result) (h : r.patternIsG1 = some false) :
    r.getMappings "G1_to_G2" = .ok (r.mappings.map invert) ∧ r.getMappings "G2_to_G1" = .ok r.mappings ∧
    r.g1ToG2 = r.mappings.map invert ∧ r.g2ToG1 = r.mappings := by
  simp [Result.g1ToG2, Result.g2ToG1, Result.getMappings, h]

theorem dirs_pattern (r : Result) : r.getMappings "pattern_to_host" = .ok r.mappings := by
  simp [Result.getMappings]

theorem dirs_other (r : Result) (b : Bool) (h : r.patternIsG1 = some b) (d : String)
    (h1 : d ≠ "pattern_to_host") (h2 : d ≠ "G1_to_G2") (h3 : d ≠ "G2_to_G1") :
    r.getMappings d = .error .valueError := by
  simp [Result.getMappings, h, h1, h2, h3]

theorem dirs_fresh (r : Result) (h : r.patternIsG1 = none) (d : String) : r.getMappings d = .ok r.mappings := by
  simp [Result.getMappings, h]

/-! ## 9. Concrete graphs for the non-vacuity examples of `Props/C12.lean` -/

def exEl (s : String) : Attrs := [("element", Val.str s)]
def exOrd (h : Int) : Attrs := [("order", Val.num h)]
/-- C–C–O (single bonds; orders in half-units). -/
def exA : LGraph :=
  { nodes := [(1, exEl "C"), (2, exEl "C"), (3, exEl "O")], edges := [(1, 2, exOrd 2), (2, 3, exOrd 2)] }
/-- C–O–C=C, ids 10…13, inserted in a different order. -/
def exB : LGraph :=
  { nodes := [(12, exEl "C"), (10, exEl "C"), (11, exEl "O"), (13, exEl "C")]
    edges := [(11, 10, exOrd 2), (11, 12, exOrd 2), (12, 13, exOrd 4)] }
/-- A three-ring of carbons (six automorphisms). -/
def exRing : LGraph :=
  { nodes := [(1, exEl "C"), (2, exEl "C"), (3, exEl "C")]
    edges := [(1, 2, exOrd 2), (2, 3, exOrd 2), (1, 3, exOrd 2)] }
/-- C–C where the bond carries no order; one atom carries no element. -/
def exBare : LGraph := { nodes := [(1, exEl "C"), (2, [])], edges := [(1, 2, [])] }
def exStar : LGraph := { nodes := [(7, exEl "*"), (8, exEl "C")], edges := [(7, 8, [("order", Val.none)])] }

end SynKit.Mcs

import SynKitProofs.ReprOptLemmas
import SynKitProofs.GmlReindexLemmas
/-!
# C10 — helper lemmas for the `explicit_hydrogen=True`, `reindex=True` round trip

`readX_spec` / `roundtripX` of `ReprOptLemmas.lean` are about the context graph `form I …` that
`h_to_explicit` builds (new hydrogens numbered from `maxId I + 1`).  With `reindex=True` the context
graph is that graph *renumbered on the atoms of `I` only*; here the two lemmas are redone for an
abstract pendant extension (`Pendant`): any context graph that consists of the atoms of `I` (labels
kept) plus new `H` atoms, each hanging on one atom of `I` by a fresh bond.
-/
namespace SynKit.ReprOpt
open SynKit SynKit.Repr SynKit.Gml

section GmlXR
open SynKit.Gml.Rd

/-- `K` is `I` plus the pendant hydrogens `P` (new id, atom it hangs on). -/
structure Pendant (I K : LGraph) (P : List (Nat × Nat)) : Prop where
  nd : (P.map (·.1)).Nodup
  fresh : ∀ q ∈ P, q.1 ∉ I.ids
  parent : ∀ q ∈ P, q.2 ∈ I.ids
  ids : ∀ n, n ∈ K.ids ↔ n ∈ I.ids ∨ ∃ q ∈ P, n = q.1
  knd : K.ids.Nodup
  edges : K.edges = I.edges ++ P.map freshEdge
  old : ∀ p ∈ I.nodes, nodeLabel (K.attrs p.1) = nodeLabel p.2
  new : ∀ q ∈ P, K.attrs q.1 = hAttrs

/-- the rule written (ids kept) from the sides of `I` and the context graph `K`. -/
def ruleXg (I K : LGraph) : Rule :=
  { left := sideItems (side 0 I) (chOf I), context := ctxItemsX K (chOf I), right := sideItems (side 1 I) (chOf I) }

/-- side `i` of `ruleXg I K` as `GMLToNX` rebuilds it. -/
def readXg (I K : LGraph) (i : Nat) : LGraph :=
  syncSide (readSection (sideItems (side i I) (chOf I))) (readSection (ctxItemsX K (chOf I)))

theorem gmlToIts_ruleXg (I K : LGraph) : gmlToIts (ruleXg I K) = construct (readXg I K 0) (readXg I K 1) := rfl

theorem pendant_nodup {I K : LGraph} {P : List (Nat × Nat)} (h : Pendant I K P) : P.Nodup :=
  List.Nodup.of_map (·.1) h.nd

theorem readXg_spec (I K : LGraph) (P : List (Nat × Nat)) (hs : ItsShape I) (hc : StdConsistent I)
    (hP : Pendant I K P) (i : Nat) :
    (∀ n, n ∈ (readXg I K i).ids ↔ n ∈ I.ids ∨ ∃ q ∈ P, n = q.1) ∧
    (∀ p ∈ I.nodes, (readXg I K i).attrs p.1 =
      nodeAttrsOf p.1 (nodeLabel (if p.1 ∈ chOf I then (side i I).attrs p.1 else p.2))) ∧
    (∀ q ∈ P, (readXg I K i).attrs q.1 = nodeAttrsOf q.1 (nodeLabel hAttrs)) ∧
    (readXg I K i).edges = ((side i I).edges.map fun e => (e.1, e.2.1, [("order", edgeOrderVal e.2.2)])) ++
      P.map fun q => (q.2, q.1, [("order", .num 2)]) := by
  have hs' := hs
  obtain ⟨hwf, hns, hes⟩ := hs'
  have hSok := sideOk_side I hs i
  have hSids : (side i I).ids = I.ids := side_ids i I hns
  have hmemK := hP.ids
  have hKnd := hP.knd
  have hKedges := hP.edges
  have hEz : K.edges.filter (fun e => stdZero e.2.2) =
      I.edges.filter (fun e => stdZero e.2.2) ++ P.map freshEdge := by
    rw [hKedges, List.filter_append]
    congr 1
    rw [List.filter_eq_self]
    intro e he
    obtain ⟨q, _, rfl⟩ := List.mem_map.1 he
    exact stdZero_orderOne
  -- no parallel bonds in the context graph
  have hukK : (K.edges.map ukey).Nodup := by
    rw [hKedges, List.map_append, List.nodup_append]
    refine ⟨hwf.2.2, ?_, ?_⟩
    · rw [List.map_map]
      refine List.Nodup.map_on ?_ (pendant_nodup hP)
      intro x hx y hy e
      have a1 := hP.fresh x hx
      have a2 := hP.parent x hx
      have b1 := hP.fresh y hy
      have b2 := hP.parent y hy
      simp only [Function.comp, ukey, freshEdge, Prod.mk.injEq] at e
      have hx1 : x.1 ≠ y.2 := fun h => a1 (h ▸ b2)
      have hy1 : y.1 ≠ x.2 := fun h => b1 (h ▸ a2)
      apply Prod.ext <;> omega
    · intro a ha b hb e
      obtain ⟨e0, he0, rfl⟩ := List.mem_map.1 ha
      obtain ⟨e1, he1, rfl⟩ := List.mem_map.1 hb
      obtain ⟨q, hq, rfl⟩ := List.mem_map.1 he1
      have b1 := hP.fresh q hq
      have h1 := (hwf.2.1 e0 he0).1
      have h2 := (hwf.2.1 e0 he0).2.1
      simp only [ukey, freshEdge, Prod.mk.injEq] at e
      have hq1 : q.1 ≠ e0.1 := fun h => b1 (h ▸ h1)
      have hq2 : q.1 ≠ e0.2.1 := fun h => b1 (h ▸ h2)
      omega
  -- apply the reader lemma
  obtain ⟨r1, r2, r3⟩ := readSideX_spec (side i I) K (chOf I)
    (K.edges.filter fun e => stdZero e.2.2) hSok hKnd
    (by intro n hn; rw [hSids] at hn; exact (hmemK n).2 (Or.inl hn))
    (by
      intro n hn
      have := mem_findChanged_left _ _ n hn
      rw [side_ids 0 I hns] at this
      rw [hSids]; exact this)
    (by
      intro e he
      have he' := (List.mem_filter.1 he).1
      rw [hKedges, List.mem_append] at he'
      rcases he' with he' | he'
      · exact ⟨(hmemK _).2 (Or.inl (hwf.2.1 e he').1), (hmemK _).2 (Or.inl (hwf.2.1 e he').2.1)⟩
      · obtain ⟨q, hq, rfl⟩ := List.mem_map.1 he'
        exact ⟨(hmemK _).2 (Or.inl (hP.parent q hq)), (hmemK _).2 (Or.inr ⟨q, hq, rfl⟩)⟩)
    (hukK.sublist (List.Sublist.map _ List.filter_sublist))
    (by
      intro e he
      have he' := (List.mem_filter.1 he).1
      rw [hKedges, List.mem_append] at he'
      rw [edgeItem_orderOne]
      rcases he' with he' | he'
      · obtain ⟨x, y, hxy, _⟩ := edgeShape_unpack' e.2.2 (hes e he')
        simp only [ctxEdgeItem, Dict.getD, hxy, Option.getD_some, orderLabel_tup]
      · obtain ⟨q, _, rfl⟩ := List.mem_map.1 he'
        simp only [ctxEdgeItem, freshEdge]
        have : orderLabel (Dict.getD orderOne "order" (.tup [.num 2, .num 2])) = ['-'] := by decide
        rw [this])
  -- which context edges are new for this side
  have hnew : (K.edges.filter fun e => stdZero e.2.2).filter
      (fun e => !(side i I).hasEdge e.1 e.2.1) = P.map freshEdge := by
    rw [hEz, List.filter_append]
    have h1 : (I.edges.filter fun e => stdZero e.2.2).filter (fun e => !(side i I).hasEdge e.1 e.2.1) = [] := by
      rw [List.filter_eq_nil_iff]
      intro e he
      obtain ⟨he1, he2⟩ := List.mem_filter.1 he
      obtain ⟨x, y, hxy, hx, hy, hnz⟩ := edgeShape_unpack' e.2.2 (hes e he1)
      have hxy' := hc.eq e he1 he2 x y hxy
      subst hxy'
      have hm : matchUV e.1 e.2.1 e = true := by simp [matchUV]
      obtain ⟨_, o2⟩ := side_edge? I hs i e.1 e.2.1 e he1 hm x x hxy hx hx
      have hpos : x > 0 := by
        simp only [stdOrder, Bool.or_eq_true, decide_eq_true_eq] at hx
        omega
      have : (if i = 0 then x else x) > 0 := by split <;> exact hpos
      simp only [this, decide_true] at o2
      simp only [LGraph.hasEdge, o2, Bool.not_true, Bool.false_eq_true, not_false_eq_true]
    have h2 : (P.map freshEdge).filter (fun e => !(side i I).hasEdge e.1 e.2.1) = P.map freshEdge := by
      rw [List.filter_eq_self]
      intro e he
      obtain ⟨q, hq, rfl⟩ := List.mem_map.1 he
      have b1 := hP.fresh q hq
      cases hh : (side i I).hasEdge (freshEdge q).1 (freshEdge q).2.1 with
      | false => rfl
      | true =>
        exfalso
        unfold LGraph.hasEdge at hh
        cases he? : (side i I).edge? (freshEdge q).1 (freshEdge q).2.1 with
        | none => rw [he?] at hh; cases hh
        | some a =>
          obtain ⟨e', he', hm, _⟩ := edge?_some_mem _ _ _ _ he?
          obtain ⟨c1, c2⟩ := hSok.ends e' he'
          rw [hSids] at c1 c2
          rcases matchUV_cases _ _ _ hm with ⟨_, m2⟩ | ⟨m1, _⟩
          · simp only [freshEdge] at m2; exact b1 (m2 ▸ c2)
          · simp only [freshEdge] at m1; exact b1 (m1 ▸ c1)
    rw [h1, h2, List.nil_append]
  unfold readXg ctxItemsX
  refine ⟨?_, ?_, ?_, ?_⟩
  · intro n; rw [r1 n, hmemK]
  · intro p hp
    have hpid : p.1 ∈ I.ids := List.mem_map.2 ⟨p, hp, rfl⟩
    rw [r2 p.1 ((hmemK _).2 (Or.inl hpid))]
    by_cases hch : p.1 ∈ chOf I
    · rw [if_pos hch, if_pos hch]
    · rw [if_neg hch, if_neg hch, hP.old p hp]
  · intro q hq
    have hnotI := hP.fresh q hq
    have hnch : q.1 ∉ chOf I := by
      intro h
      have := mem_findChanged_left _ _ _ h
      rw [side_ids 0 I hns] at this
      exact hnotI this
    rw [r2 q.1 ((hmemK _).2 (Or.inr ⟨q, hq, rfl⟩)), if_neg hnch, hP.new q hq]
  · rw [r3, hnew, List.map_map]
    rfl

/-- **`ruleXg I K`, read back**: on the atoms of `I` it is what the default export of `I` gives;
everything else is a hydrogen hanging on one atom of `I` by a (1, 1) bond. -/
theorem roundtripXg (I K : LGraph) (P : List (Nat × Nat)) (hs : ItsShape I) (hc : StdConsistent I)
    (hP : Pendant I K P) :
    (∀ n, n ∈ (gmlToIts (ruleXg I K)).ids ↔ n ∈ I.ids ∨ ∃ q ∈ P, n = q.1) ∧
    (∀ n ∈ I.ids, nodeView (gmlToIts (ruleXg I K)) n = nodeView (gmlToIts (itsToGml false false I)) n) ∧
    (∀ u ∈ I.ids, ∀ v ∈ I.ids, edgeView (gmlToIts (ruleXg I K)) u v =
      edgeView (gmlToIts (itsToGml false false I)) u v) ∧
    (∀ q ∈ P,
      nodeView (gmlToIts (ruleXg I K)) q.1 = .tup [.str "H", .num 0, .str "H", .num 0] ∧
      edgeView (gmlToIts (ruleXg I K)) q.2 q.1 = some (.tup [.num 2, .num 2]) ∧
      ∀ u, u ≠ q.2 → edgeView (gmlToIts (ruleXg I K)) u q.1 = none) := by
  obtain ⟨x1, x2, x3, x4⟩ := readXg_spec I K P hs hc hP 0
  obtain ⟨y1, y2, y3, y4⟩ := readXg_spec I K P hs hc hP 1
  obtain ⟨d1, d2, d3⟩ := readD_spec I hs 0
  obtain ⟨e1, e2, e3⟩ := readD_spec I hs 1
  rw [gmlToIts_ruleXg, gmlToIts_itsToGml]
  have hids : ∀ n, n ∈ (construct (readXg I K 0) (readXg I K 1)).ids ↔ n ∈ I.ids ∨ ∃ q ∈ P, n = q.1 := by
    intro n; rw [Rd.mem_construct_ids, x1, y1, or_self]
  have hids0 : ∀ n, n ∈ (construct (readD I 0) (readD I 1)).ids ↔ n ∈ I.ids := by
    intro n; rw [Rd.mem_construct_ids, d1, e1, or_self]
  -- the new bonds never join two atoms of `I`
  have hBold : ∀ u ∈ I.ids, ∀ v ∈ I.ids, ∀ e ∈ P.map (fun q => ((q.2, q.1, [("order", Val.num 2)]) : Nat × Nat × Attrs)),
      matchUV u v e = false := by
    intro u hu v hv e he
    obtain ⟨q, hq, rfl⟩ := List.mem_map.1 he
    have b1 := hP.fresh q hq
    cases hm : matchUV u v (q.2, q.1, [("order", Val.num 2)]) with
    | false => rfl
    | true =>
      exfalso
      rcases matchUV_cases _ _ _ hm with ⟨_, m2⟩ | ⟨_, m2⟩ <;> simp only at m2
      · exact b1 (m2 ▸ hv)
      · exact b1 (m2 ▸ hu)
  refine ⟨hids, ?_, ?_, ?_⟩
  · intro n hn
    obtain ⟨p, hp, rfl⟩ := List.mem_map.1 hn
    rw [construct_nodeView _ _ _ ((hids _).2 (Or.inl hn)), construct_nodeView _ _ _ ((hids0 _).2 hn)]
    rw [nodeRow_congr (readXg I K 0) (readD I 0) p.1
        (by rw [(Rd.hasNode_iff _ _).2 ((x1 _).2 (Or.inl hn)), (Rd.hasNode_iff _ _).2 ((d1 _).2 hn)])
        (by rw [x2 p hp, d2 p hp]),
      nodeRow_congr (readXg I K 1) (readD I 1) p.1
        (by rw [(Rd.hasNode_iff _ _).2 ((y1 _).2 (Or.inl hn)), (Rd.hasNode_iff _ _).2 ((e1 _).2 hn)])
        (by rw [y2 p hp, e2 p hp])]
  · intro u hu v hv
    rw [construct_edgeView, construct_edgeView]
    have h0 := edge?_append_nomatch (readXg I K 0) (readD I 0) _ (by rw [x4, d3]) u v (hBold u hu v hv)
    have h1 := edge?_append_nomatch (readXg I K 1) (readD I 1) _ (by rw [y4, e3]) u v (hBold u hu v hv)
    have hh0 : (readXg I K 0).hasEdge u v = (readD I 0).hasEdge u v := by simp only [LGraph.hasEdge, h0]
    have hh1 : (readXg I K 1).hasEdge u v = (readD I 1).hasEdge u v := by simp only [LGraph.hasEdge, h1]
    have ho0 : orderIn (readXg I K 0) u v = orderIn (readD I 0) u v := by simp only [orderIn, h0]
    have ho1 : orderIn (readXg I K 1) u v = orderIn (readD I 1) u v := by simp only [orderIn, h1]
    rw [hh0, hh1, ho0, ho1]
  · intro q hq
    have b1 := hP.fresh q hq
    have hqJ : q.1 ∈ (construct (readXg I K 0) (readXg I K 1)).ids := (hids _).2 (Or.inr ⟨q, hq, rfl⟩)
    -- no bond of a side graph touches the new hydrogen
    have hAno : ∀ (i : Nat) (u : Nat), ∀ e ∈ (side i I).edges.map (fun e => ((e.1, e.2.1, [("order", edgeOrderVal e.2.2)]) : Nat × Nat × Attrs)),
        matchUV u q.1 e = false := by
      intro i u e he
      obtain ⟨e0, he0, rfl⟩ := List.mem_map.1 he
      obtain ⟨c1, c2⟩ := (sideOk_side I hs i).ends e0 he0
      rw [side_ids i I hs.2.1] at c1 c2
      cases hm : matchUV u q.1 (e0.1, e0.2.1, [("order", edgeOrderVal e0.2.2)]) with
      | false => rfl
      | true =>
        exfalso
        rcases matchUV_cases _ _ _ hm with ⟨_, m2⟩ | ⟨m1, _⟩
        · simp only at m2; exact b1 (m2 ▸ c2)
        · simp only at m1; exact b1 (m1 ▸ c1)
    have hBc : ∀ e ∈ P.map (fun q => ((q.2, q.1, [("order", Val.num 2)]) : Nat × Nat × Attrs)),
        e.2.2 = [("order", Val.num 2)] := by
      intro e he; obtain ⟨q', _, rfl⟩ := List.mem_map.1 he; rfl
    have hBex : ∃ e ∈ P.map (fun q => ((q.2, q.1, [("order", Val.num 2)]) : Nat × Nat × Attrs)),
        matchUV q.2 q.1 e = true := ⟨_, List.mem_map.2 ⟨q, hq, rfl⟩, by simp [matchUV]⟩
    have hBno : ∀ u, u ≠ q.2 → ∀ e ∈ P.map (fun q => ((q.2, q.1, [("order", Val.num 2)]) : Nat × Nat × Attrs)),
        matchUV u q.1 e = false := by
      intro u hu e he
      obtain ⟨q', hq', rfl⟩ := List.mem_map.1 he
      have c2 := hP.parent q' hq'
      cases hm : matchUV u q.1 (q'.2, q'.1, [("order", Val.num 2)]) with
      | false => rfl
      | true =>
        exfalso
        rcases matchUV_cases _ _ _ hm with ⟨m1, m2⟩ | ⟨m1, _⟩
        · simp only at m1 m2
          have : q' = q := inj_of_nodup_map (·.1) P hP.nd q' q hq' hq m2
          rw [this] at m1; exact hu m1.symm
        · simp only at m1; exact b1 (m1 ▸ c2)
    refine ⟨?_, ?_, ?_⟩
    · rw [construct_nodeView _ _ _ hqJ,
        nodeRow_view (readXg I K 0) q.1 hAttrs ((x1 _).2 (Or.inr ⟨q, hq, rfl⟩)) alpha_hAttrs (x3 q hq),
        nodeRow_view (readXg I K 1) q.1 hAttrs ((y1 _).2 (Or.inr ⟨q, hq, rfl⟩)) alpha_hAttrs (y3 q hq), labView_hAttrs]
      rfl
    · rw [construct_edgeView]
      have h0 := edge?_const_of (readXg I K 0) _ _ x4 q.2 q.1 (hAno 0 q.2) _ hBc hBex
      have h1 := edge?_const_of (readXg I K 1) _ _ y4 q.2 q.1 (hAno 1 q.2) _ hBc hBex
      simp only [LGraph.hasEdge, orderIn, h0, h1]
      rfl
    · intro u hu
      rw [construct_edgeView]
      have h0 : (readXg I K 0).edge? u q.1 = none := by
        apply edge?_none_of
        intro e he; rw [x4, List.mem_append] at he
        rcases he with he | he
        · exact hAno 0 u e he
        · exact hBno u hu e he
      have h1 : (readXg I K 1).edge? u q.1 = none := by
        apply edge?_none_of
        intro e he; rw [y4, List.mem_append] at he
        rcases he with he | he
        · exact hAno 1 u e he
        · exact hBno u hu e he
      simp only [LGraph.hasEdge, h0, h1]
      rfl

/-! ### the re-indexed export -/

/-- the two facts inside `itsToGml_reindex`: changed atoms and side sections of the renumbered sides
are those of the sides of the renumbered ITS. -/
theorem reindex_sides (I : LGraph) (hs : ItsShape I) :
    findChanged ((side 0 I).relabel (indexMap (side 0 I))) ((side 1 I).relabel (indexMap (side 0 I))) =
      chOf (I.relabel (indexMap (side 0 I))) ∧
    ∀ i c, sideItems ((side i I).relabel (indexMap (side 0 I))) c =
      sideItems (side i (I.relabel (indexMap (side 0 I)))) c := by
  have hf := injOn_indexMap I hs
  generalize hfdef : indexMap (side 0 I) = f at hf
  have hs' : ItsShape (I.relabel f) := itsShape_relabel I hs f hf
  have hnodes : ∀ i, (side i (I.relabel f)).nodes = I.nodes.map fun p => (f p.1, sideAttrs i (f p.1, p.2)) := by
    intro i
    rw [side_nodes i _ hs'.2.1]
    simp [LGraph.relabel, List.map_map, Function.comp_def]
  have hnodesr : ∀ i, ((side i I).relabel f).nodes = I.nodes.map fun p => (f p.1, sideAttrs i p) := by
    intro i
    simp [LGraph.relabel, side_nodes i I hs.2.1, List.map_map, Function.comp_def]
  have hids : ∀ i, (side i (I.relabel f)).ids = ((side i I).relabel f).ids := by
    intro i
    simp [LGraph.ids, hnodes, hnodesr, List.map_map, Function.comp_def]
  have hidsr : ∀ i, ((side i I).relabel f).ids = I.ids.map f := by
    intro i
    simp [LGraph.ids, hnodesr, List.map_map, Function.comp_def]
  have hfi : ∀ i, Match.InjOnIds (side i I) f := by
    intro i a ha b hb; rw [side_ids i I hs.2.1] at ha hb; exact hf a ha b hb
  have hcharge : ∀ i, ∀ n' ∈ I.ids.map f,
      Attrs.get (((side i I).relabel f).attrs n') "charge" = Attrs.get ((side i (I.relabel f)).attrs n') "charge" := by
    intro i n' hn'
    obtain ⟨n, hn, rfl⟩ := List.mem_map.1 hn'
    obtain ⟨p, hp, rfl⟩ := List.mem_map.1 hn
    rw [Match.relabel_attrs_on (side i I) f (hfi i) p.1 (by rw [side_ids i I hs.2.1]; exact List.mem_map.2 ⟨p, hp, rfl⟩),
      side_attrs i I hs.1.1 hs.2.1 p hp]
    have hp' : (f p.1, p.2) ∈ (I.relabel f).nodes := by
      simp only [LGraph.relabel]; exact List.mem_map.2 ⟨p, hp, rfl⟩
    have := side_attrs i (I.relabel f) hs'.1.1 hs'.2.1 (f p.1, p.2) hp'
    simp only at this
    rw [this]
    exact (sideAttrs_indep i p.1 (f p.1) p.2 (hs.2.1 p hp)).2
  refine ⟨?_, ?_⟩
  · unfold chOf findChanged
    rw [hids 0, hidsr 0]
    apply List.filter_congr
    intro n' hn'
    rw [hcharge 0 n' hn', hcharge 1 n' hn']
    simp only [LGraph.hasNode, hids 1]
  · intro i c
    unfold sideItems
    rw [side_relabel_edges i I f, hnodes i, hnodesr i]
    congr 1
    apply sideItems_nodes_eq
    · intro p _; rfl
    · intro p hp
      exact (sideAttrs_indep i p.1 (f p.1) p.2 (hs.2.1 p hp)).1

/-- the new hydrogens get ids above the number of atoms: then the renumbering `1..n` of the atoms
cannot reach them.  (Fails exactly when the atoms are numbered `0..n-1` and a hydrogen is added.) -/
def FreshAbove (I : LGraph) : Prop := ∀ q ∈ addedH I, I.ids.length < q.1

instance (I : LGraph) : Decidable (FreshAbove I) := by unfold FreshAbove; infer_instance

theorem indexMap_old (I : LGraph) (hs : ItsShape I) (n : Nat) (hn : n ∈ I.ids) :
    indexMap (side 0 I) n = I.ids.idxOf n + 1 := by
  have hids := side_ids 0 I hs.2.1
  have : (side 0 I).hasNode n = true := by simpa [LGraph.hasNode, hids] using hn
  simp only [indexMap, this, if_true, hids]

theorem indexMap_new (I : LGraph) (hs : ItsShape I) (n : Nat) (hn : n ∉ I.ids) :
    indexMap (side 0 I) n = n := by
  have hids := side_ids 0 I hs.2.1
  have : (side 0 I).hasNode n = false := by simpa [LGraph.hasNode, hids] using hn
  simp only [indexMap, this]; rfl

theorem indexMap_old_le (I : LGraph) (hs : ItsShape I) (n : Nat) (hn : n ∈ I.ids) :
    1 ≤ indexMap (side 0 I) n ∧ indexMap (side 0 I) n ≤ I.ids.length := by
  rw [indexMap_old I hs n hn]
  have := List.idxOf_lt_length_iff.2 hn
  omega

theorem form_attrs_new (I : LGraph) (q : Nat × Nat) (hq : q ∈ addedH I) :
    (form I (expanded I [])).attrs q.1 = hAttrs := by
  obtain ⟨b1, _, _⟩ := addedH_spec I q hq
  have hnotI : q.1 ∉ I.ids := fun h => by have := le_maxId I _ h; omega
  unfold LGraph.attrs
  cases hf : (form I (expanded I [])).nodes.find? (fun p => decide (p.1 = q.1)) with
  | none =>
    exfalso
    have := List.find?_eq_none.1 hf (freshNode q) (by
      simp only [form, List.mem_append]; exact Or.inr (List.mem_map.2 ⟨q, hq, rfl⟩))
    simp [freshNode] at this
  | some r =>
    have hr := List.mem_of_find?_eq_some hf
    have hr1 : r.1 = q.1 := by simpa using List.find?_some hf
    simp only [form, List.mem_append] at hr
    rcases hr with hr | hr
    · exfalso
      apply hnotI
      rw [← form_old_ids I (expanded I []), ← hr1]
      exact List.mem_map.2 ⟨r, hr, rfl⟩
    · obtain ⟨x, _, rfl⟩ := List.mem_map.1 hr
      rfl

/-- the pendant hydrogens of the re-indexed export: same new ids, renumbered parents. -/
def addedHR (I : LGraph) : List (Nat × Nat) := (addedH I).map fun q => (q.1, indexMap (side 0 I) q.2)

theorem injOn_indexMap_form (I : LGraph) (hs : ItsShape I) (hfa : FreshAbove I) :
    Match.InjOnIds (form I (expanded I [])) (indexMap (side 0 I)) := by
  have hmem : ∀ n, n ∈ (form I (expanded I [])).ids ↔ n ∈ I.ids ∨ ∃ q ∈ addedH I, n = q.1 := by
    intro n; rw [form_ids, List.mem_append, mem_addedH_fst]
  intro a ha b hb e
  by_cases ha' : a ∈ I.ids <;> by_cases hb' : b ∈ I.ids
  · exact injOn_indexMap I hs a ha' b hb' e
  · rw [indexMap_new I hs b hb'] at e
    have := indexMap_old_le I hs a ha'
    rcases (hmem b).1 hb with h | ⟨q, hq, rfl⟩
    · exact absurd h hb'
    · have := hfa q hq; omega
  · rw [indexMap_new I hs a ha'] at e
    have := indexMap_old_le I hs b hb'
    rcases (hmem a).1 ha with h | ⟨q, hq, rfl⟩
    · exact absurd h ha'
    · have := hfa q hq; omega
  · rw [indexMap_new I hs a ha', indexMap_new I hs b hb'] at e; exact e

theorem pendant_reindex (I : LGraph) (hs : ItsShape I) (hfa : FreshAbove I) :
    Pendant (I.relabel (indexMap (side 0 I))) ((form I (expanded I [])).relabel (indexMap (side 0 I))) (addedHR I) := by
  have hinj := injOn_indexMap_form I hs hfa
  have hnew : ∀ q ∈ addedH I, q.1 ∉ I.ids := by
    intro q hq h
    obtain ⟨b1, _, _⟩ := addedH_spec I q hq
    have := le_maxId I _ h; omega
  have hfnew : ∀ q ∈ addedH I, indexMap (side 0 I) q.1 = q.1 := fun q hq => indexMap_new I hs q.1 (hnew q hq)
  have hmem : ∀ n, n ∈ (form I (expanded I [])).ids ↔ n ∈ I.ids ∨ ∃ q ∈ addedH I, n = q.1 := by
    intro n; rw [form_ids, List.mem_append, mem_addedH_fst]
  have hKnd : (form I (expanded I [])).ids.Nodup := by
    rw [form_ids, List.nodup_append]
    refine ⟨hs.1.1, List.nodup_range' 1 (by omega), ?_⟩
    intro a ha b hb e
    have := le_maxId I a ha
    have := (List.mem_range'_1.1 hb).1
    omega
  generalize hfdef : indexMap (side 0 I) = f at *
  refine ⟨?_, ?_, ?_, ?_, ?_, ?_, ?_, ?_⟩
  · unfold addedHR
    rw [hfdef, List.map_map]
    have : ((fun q : Nat × Nat => q.1) ∘ fun q : Nat × Nat => (q.1, f q.2)) = (·.1) := rfl
    rw [this]
    unfold addedH
    rw [planL_fst]; exact List.nodup_range' 1 (by omega)
  · intro q hq
    unfold addedHR at hq
    rw [hfdef] at hq
    obtain ⟨q0, hq0, rfl⟩ := List.mem_map.1 hq
    rw [Match.relabel_ids]
    intro h
    obtain ⟨n, hn, e⟩ := List.mem_map.1 h
    have h1 : f n ≤ I.ids.length := by rw [← hfdef]; exact (indexMap_old_le I hs n hn).2
    have := hfa q0 hq0
    simp only at e
    omega
  · intro q hq
    unfold addedHR at hq
    rw [hfdef] at hq
    obtain ⟨q0, hq0, rfl⟩ := List.mem_map.1 hq
    rw [Match.relabel_ids]
    exact List.mem_map.2 ⟨q0.2, (addedH_spec I q0 hq0).2.1, rfl⟩
  · intro n
    rw [Match.relabel_ids, Match.relabel_ids]
    unfold addedHR
    rw [hfdef]
    constructor
    · intro h
      obtain ⟨m, hm, rfl⟩ := List.mem_map.1 h
      rcases (hmem m).1 hm with h1 | ⟨q, hq, rfl⟩
      · exact Or.inl (List.mem_map.2 ⟨m, h1, rfl⟩)
      · exact Or.inr ⟨_, List.mem_map.2 ⟨q, hq, rfl⟩, hfnew q hq⟩
    · rintro (h | ⟨q, hq, rfl⟩)
      · obtain ⟨m, hm, rfl⟩ := List.mem_map.1 h
        exact List.mem_map.2 ⟨m, (hmem m).2 (Or.inl hm), rfl⟩
      · obtain ⟨q0, hq0, rfl⟩ := List.mem_map.1 hq
        exact List.mem_map.2 ⟨q0.1, (hmem _).2 (Or.inr ⟨q0, hq0, rfl⟩), hfnew q0 hq0⟩
  · rw [Match.relabel_ids]
    exact List.Nodup.map_on (fun a ha b hb e => hinj a ha b hb e) hKnd
  · unfold addedHR
    rw [hfdef]
    show ((form I (expanded I [])).edges.map fun e => (f e.1, f e.2.1, e.2.2)) =
      (I.edges.map fun e => (f e.1, f e.2.1, e.2.2)) ++ _
    have : (form I (expanded I [])).edges = I.edges ++ (addedH I).map freshEdge := rfl
    rw [this, List.map_append, List.map_map, List.map_map]
    congr 1
    apply List.map_congr_left
    intro q hq
    simp only [Function.comp, freshEdge, hfnew q hq]
  · intro p hp
    simp only [LGraph.relabel] at hp
    obtain ⟨p0, hp0, rfl⟩ := List.mem_map.1 hp
    have hp0id : p0.1 ∈ I.ids := List.mem_map.2 ⟨p0, hp0, rfl⟩
    show nodeLabel (((form I (expanded I [])).relabel f).attrs (f p0.1)) = nodeLabel p0.2
    rw [Match.relabel_attrs_on _ f hinj p0.1 ((hmem _).2 (Or.inl hp0id)), form_attrs_old I hs.1.1 _ p0 hp0]
    split
    · rw [nodeLabel_expNode]
    · rfl
  · intro q hq
    unfold addedHR at hq
    rw [hfdef] at hq
    obtain ⟨q0, hq0, rfl⟩ := List.mem_map.1 hq
    show ((form I (expanded I [])).relabel f).attrs q0.1 = hAttrs
    rw [← hfnew q0 hq0, Match.relabel_attrs_on _ f hinj q0.1 ((hmem _).2 (Or.inr ⟨q0, hq0, rfl⟩))]
    exact form_attrs_new I q0 hq0

theorem stdConsistent_relabel (I : LGraph) (hc : StdConsistent I) (f : Nat → Nat) : StdConsistent (I.relabel f) := by
  intro e he hz
  simp only [LGraph.relabel] at he
  obtain ⟨e0, he0, rfl⟩ := List.mem_map.1 he
  exact hc e0 he0 hz

theorem itsToGmlX_reindex (I : LGraph) (hs : ItsShape I) :
    itsToGmlX false true true I =
      ruleXg (I.relabel (indexMap (side 0 I))) ((form I (expanded I [])).relabel (indexMap (side 0 I))) := by
  obtain ⟨h1, h2⟩ := reindex_sides I hs
  have hK : hToExplicitG I [] false = form I (expanded I []) := hToExplicitG_eq_form I hs.1.1 []
  simp only [itsToGmlX, writeRuleX, decompose, if_true, Bool.false_eq_true, if_false, Bool.not_true, ruleXg]
  rw [h1, h2 0, h2 1, hK]

/-- **The rule written with `explicit_hydrogen=True`, `reindex=True`, read back** (full export). -/
theorem roundtripX_reindex (I : LGraph) (hs : ItsShape I) (hc : StdConsistent I) (hfa : FreshAbove I) :
    (∀ n, n ∈ (gmlToIts (itsToGmlX false true true I)).ids ↔
      n ∈ I.ids.map (indexMap (side 0 I)) ∨ ∃ q ∈ addedH I, n = q.1) ∧
    (∀ n ∈ I.ids,
      nodeView (gmlToIts (itsToGmlX false true true I)) (indexMap (side 0 I) n) = nodeView I n ∧
      nodeView (gmlToIts (itsToGmlX false true true I)) (indexMap (side 0 I) n) =
        nodeView (gmlToIts (itsToGml false true I)) (indexMap (side 0 I) n)) ∧
    (∀ u ∈ I.ids, ∀ v ∈ I.ids,
      edgeView (gmlToIts (itsToGmlX false true true I)) (indexMap (side 0 I) u) (indexMap (side 0 I) v) = edgeView I u v ∧
      edgeView (gmlToIts (itsToGmlX false true true I)) (indexMap (side 0 I) u) (indexMap (side 0 I) v) =
        edgeView (gmlToIts (itsToGml false true I)) (indexMap (side 0 I) u) (indexMap (side 0 I) v)) ∧
    (∀ q ∈ addedH I, q.1 ∉ I.ids.map (indexMap (side 0 I)) ∧ q.2 ∈ I.ids ∧
      nodeView (gmlToIts (itsToGmlX false true true I)) q.1 = .tup [.str "H", .num 0, .str "H", .num 0] ∧
      edgeView (gmlToIts (itsToGmlX false true true I)) (indexMap (side 0 I) q.2) q.1 = some (.tup [.num 2, .num 2]) ∧
      ∀ u, u ≠ indexMap (side 0 I) q.2 → edgeView (gmlToIts (itsToGmlX false true true I)) u q.1 = none) ∧
    (∀ v ∈ I.ids, ((addedH I).map (·.2)).count v = (hcnt (I.attrs v)).toNat) := by
  have hf := injOn_indexMap I hs
  have hsJ := itsShape_relabel I hs _ hf
  have hcJ := stdConsistent_relabel I hc (indexMap (side 0 I))
  have hP := pendant_reindex I hs hfa
  obtain ⟨a, b, c, d⟩ := roundtripXg _ _ _ hsJ hcJ hP
  obtain ⟨_, r2, r3⟩ := gml_roundtrip_full' _ hsJ
  rw [← itsToGmlX_reindex I hs] at a b c d
  rw [← itsToGml_reindex I hs] at b c r2 r3
  have hJids : (I.relabel (indexMap (side 0 I))).ids = I.ids.map (indexMap (side 0 I)) := Match.relabel_ids _ _
  rw [hJids] at a b c r2
  have hmemH : ∀ n, (∃ q ∈ addedHR I, n = q.1) ↔ ∃ q ∈ addedH I, n = q.1 := by
    intro n
    unfold addedHR
    constructor
    · rintro ⟨q, hq, rfl⟩
      obtain ⟨q0, hq0, rfl⟩ := List.mem_map.1 hq
      exact ⟨q0, hq0, rfl⟩
    · rintro ⟨q, hq, rfl⟩
      exact ⟨_, List.mem_map.2 ⟨q, hq, rfl⟩, rfl⟩
  refine ⟨?_, ?_, ?_, ?_, fun v hv => count_addedH I hs.1.1 v hv⟩
  · intro n; rw [a n, hmemH]
  · intro n hn
    have hfn : indexMap (side 0 I) n ∈ I.ids.map (indexMap (side 0 I)) := List.mem_map.2 ⟨n, hn, rfl⟩
    have hb := b _ hfn
    refine ⟨?_, hb⟩
    rw [hb, r2 _ hfn]
    unfold nodeView
    rw [Match.relabel_attrs_on I _ hf n hn]
  · intro u hu v hv
    have hfu : indexMap (side 0 I) u ∈ I.ids.map (indexMap (side 0 I)) := List.mem_map.2 ⟨u, hu, rfl⟩
    have hfv : indexMap (side 0 I) v ∈ I.ids.map (indexMap (side 0 I)) := List.mem_map.2 ⟨v, hv, rfl⟩
    have hcc := c _ hfu _ hfv
    refine ⟨?_, hcc⟩
    rw [hcc, r3]
    unfold edgeView
    rw [Match.relabel_edge?_on I hs.1 _ hf u v hu hv]
  · intro q hq
    have hqR : (q.1, indexMap (side 0 I) q.2) ∈ addedHR I := List.mem_map.2 ⟨q, hq, rfl⟩
    obtain ⟨d1, d2, d3⟩ := d _ hqR
    have hfr := hP.fresh _ hqR
    rw [hJids] at hfr
    exact ⟨hfr, (addedH_spec I q hq).2.1, d1, d2, d3⟩

/-- `FreshAbove` is necessary: whenever a new hydrogen is not an id of the renumbered atoms, its id
is above the number of atoms. -/
theorem freshAbove_of_not_mem (I : LGraph) (hs : ItsShape I)
    (h : ∀ q ∈ addedH I, q.1 ∉ I.ids.map (indexMap (side 0 I))) : FreshAbove I := by
  intro q hq
  have hq1 := h q hq
  obtain ⟨b1, _, _⟩ := addedH_spec I q hq
  have hmap : I.ids.map (indexMap (side 0 I)) = List.range' 1 I.ids.length := by
    rw [← map_idxOf_succ I.ids hs.1.1]
    apply List.map_congr_left
    intro n hn; exact indexMap_old I hs n hn
  rw [hmap, List.mem_range'_1] at hq1
  omega

theorem length_le_of_bounded : ∀ (m : Nat) (l : List Nat), l.Nodup → (∀ x ∈ l, 1 ≤ x ∧ x ≤ m) → l.length ≤ m := by
  intro m
  induction m with
  | zero =>
    intro l _ h
    cases l with
    | nil => simp
    | cons a t => have := h a List.mem_cons_self; omega
  | succ m ih =>
    intro l hn h
    have h1 := ih (l.erase (m + 1)) (hn.erase _) (by
      intro x hx
      have hx' := (hn.mem_erase_iff).1 hx
      have := h x hx'.2
      have := hx'.1
      omega)
    have h2 := List.length_erase_le (a := m + 1) (l := l)
    by_cases hm : m + 1 ∈ l
    · rw [List.length_erase_of_mem hm] at h1; omega
    · rw [List.erase_of_not_mem hm] at h1; omega

/-- ids ≥ 1 (what every SynKit producer delivers) is enough for `FreshAbove`. -/
theorem freshAbove_of_pos (I : LGraph) (hn : I.ids.Nodup) (hpos : ∀ n ∈ I.ids, 1 ≤ n) : FreshAbove I := by
  intro q hq
  obtain ⟨b1, _, _⟩ := addedH_spec I q hq
  have := length_le_of_bounded (maxId I) I.ids hn (fun x hx => ⟨hpos x hx, le_maxId I x hx⟩)
  omega

/-- the renumbering the writer applies to the atoms of `I`: `indexMap` of the left side for
`reindex=True` (the map of `itsToGml_reindex`), nothing otherwise. -/
def renum (ri : Bool) (I : LGraph) : Nat → Nat := if ri then indexMap (side 0 I) else id

theorem renum_true (I : LGraph) : renum true I = indexMap (side 0 I) := rfl
theorem renum_false (I : LGraph) : renum false I = id := rfl

end GmlXR
end SynKit.ReprOpt

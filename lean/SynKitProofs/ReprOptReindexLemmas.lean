import SynKitProofs.ReprOptLemmas
import SynKitProofs.GmlReindexLemmas
/-!
# C10 — helper lemmas for the `explicit_hydrogen=True`, `reindex=True` round trip

`readX_spec` / `roundtripX` of `ReprOptLemmas.lean` are about the context graph `form I …` that
`h_to_explicit` builds (new hydrogens numbered from `maxId I + 1`).  With `reindex=True` the writer
renumbers the atoms first and expands afterwards (F44 repaired), so the rule is the ids-kept export of
the renumbered ITS (`itsToGmlX_reindex`) and the round trip is `roundtripX` of that graph read through
the renumbering (`roundtripX_reindex`).  The first part redoes the two lemmas for an abstract pendant
extension (`Pendant`): any context graph that consists of the atoms of `I` (labels kept) plus new `H`
atoms, each hanging on one atom of `I` by a fresh bond — independent of how the new ids are chosen.
-/
namespace SynKit.ReprOpt
open SynKit SynKit.Repr SynKit.Gml

section GmlXR
open SynKit.Gml.Rd

/-- `K` is `I` plus the pendant hydrogens `P` (new id, atom it hangs on). -/
structure Pendant (I K : LGraph) (P : List (Nat × Nat)) : Prop where
  nd : (P.map (·.1)).Nodup
  fresh : ∀ q ∈ P, q.1 ∉ I.ids
  parent : ∀ q ∈ P, q.2 ∈ I.ids
  ids : ∀ n, n ∈ K.ids ↔ n ∈ I.ids ∨ ∃ q ∈ P, n = q.1
  knd : K.ids.Nodup
  edges : K.edges = I.edges ++ P.map freshEdge
  old : ∀ p ∈ I.nodes, nodeLabel (K.attrs p.1) = nodeLabel p.2
  new : ∀ q ∈ P, K.attrs q.1 = hAttrs

/-- the rule written (ids kept) from the sides of `I` and the context graph `K`. -/
def ruleXg (I K : LGraph) : Rule :=
  { left := sideItems (side 0 I) (chOf I), context := ctxItemsX K (chOf I), right := sideItems (side 1 I) (chOf I) }

/-- side `i` of `ruleXg I K` as `GMLToNX` rebuilds it. -/
def readXg (I K : LGraph) (i : Nat) : LGraph :=
  syncSide (readSection (sideItems (side i I) (chOf I))) (readSection (ctxItemsX K (chOf I)))

theorem gmlToIts_ruleXg (I K : LGraph) : gmlToIts (ruleXg I K) = construct (readXg I K 0) (readXg I K 1) := rfl

theorem pendant_nodup {I K : LGraph} {P : List (Nat × Nat)} (h : Pendant I K P) : P.Nodup :=
  List.Nodup.of_map (·.1) h.nd

theorem readXg_spec (I K : LGraph) (P : List (Nat × Nat)) (hs : ItsShape I) (hc : StdConsistent I)
    (hP : Pendant I K P) (i : Nat) :
    (∀ n, n ∈ (readXg I K i).ids ↔ n ∈ I.ids ∨ ∃ q ∈ P, n = q.1) ∧
    (∀ p ∈ I.nodes, (readXg I K i).attrs p.1 =
      nodeAttrsOf p.1 (nodeLabel (if p.1 ∈ chOf I then (side i I).attrs p.1 else p.2))) ∧
    (∀ q ∈ P, (readXg I K i).attrs q.1 = nodeAttrsOf q.1 (nodeLabel hAttrs)) ∧
    (readXg I K i).edges = ((side i I).edges.map fun e => (e.1, e.2.1, [("order", edgeOrderVal e.2.2)])) ++
      P.map fun q => (q.2, q.1, [("order", .num 2)]) := by
  have hs' := hs
  obtain ⟨hwf, hns, hes⟩ := hs'
  have hSok := sideOk_side I hs i
  have hSids : (side i I).ids = I.ids := side_ids i I hns
  have hmemK := hP.ids
  have hKnd := hP.knd
  have hKedges := hP.edges
  have hEz : K.edges.filter (fun e => stdZero e.2.2) =
      I.edges.filter (fun e => stdZero e.2.2) ++ P.map freshEdge := by
    rw [hKedges, List.filter_append]
    congr 1
    rw [List.filter_eq_self]
    intro e he
    obtain ⟨q, _, rfl⟩ := List.mem_map.1 he
    exact stdZero_orderOne
  -- no parallel bonds in the context graph
  have hukK : (K.edges.map ukey).Nodup := by
    rw [hKedges, List.map_append, List.nodup_append]
    refine ⟨hwf.2.2, ?_, ?_⟩
    · rw [List.map_map]
      refine List.Nodup.map_on ?_ (pendant_nodup hP)
      intro x hx y hy e
      have a1 := hP.fresh x hx
      have a2 := hP.parent x hx
      have b1 := hP.fresh y hy
      have b2 := hP.parent y hy
      simp only [Function.comp, ukey, freshEdge, Prod.mk.injEq] at e
      have hx1 : x.1 ≠ y.2 := fun h => a1 (h ▸ b2)
      have hy1 : y.1 ≠ x.2 := fun h => b1 (h ▸ a2)
      apply Prod.ext <;> omega
    · intro a ha b hb e
      obtain ⟨e0, he0, rfl⟩ := List.mem_map.1 ha
      obtain ⟨e1, he1, rfl⟩ := List.mem_map.1 hb
      obtain ⟨q, hq, rfl⟩ := List.mem_map.1 he1
      have b1 := hP.fresh q hq
      have h1 := (hwf.2.1 e0 he0).1
      have h2 := (hwf.2.1 e0 he0).2.1
      simp only [ukey, freshEdge, Prod.mk.injEq] at e
      have hq1 : q.1 ≠ e0.1 := fun h => b1 (h ▸ h1)
      have hq2 : q.1 ≠ e0.2.1 := fun h => b1 (h ▸ h2)
      omega
  -- apply the reader lemma
  obtain ⟨r1, r2, r3⟩ := readSideX_spec (side i I) K (chOf I)
    (K.edges.filter fun e => stdZero e.2.2) hSok hKnd
    (by intro n hn; rw [hSids] at hn; exact (hmemK n).2 (Or.inl hn))
    (by
      intro n hn
      have := mem_findChanged_left _ _ n hn
      rw [side_ids 0 I hns] at this
      rw [hSids]; exact this)
    (by
      intro e he
      have he' := (List.mem_filter.1 he).1
      rw [hKedges, List.mem_append] at he'
      rcases he' with he' | he'
      · exact ⟨(hmemK _).2 (Or.inl (hwf.2.1 e he').1), (hmemK _).2 (Or.inl (hwf.2.1 e he').2.1)⟩
      · obtain ⟨q, hq, rfl⟩ := List.mem_map.1 he'
        exact ⟨(hmemK _).2 (Or.inl (hP.parent q hq)), (hmemK _).2 (Or.inr ⟨q, hq, rfl⟩)⟩)
    (hukK.sublist (List.Sublist.map _ List.filter_sublist))
    (by
      intro e he
      have he' := (List.mem_filter.1 he).1
      rw [hKedges, List.mem_append] at he'
      rw [edgeItem_orderOne]
      rcases he' with he' | he'
      · obtain ⟨x, y, hxy, _⟩ := edgeShape_unpack' e.2.2 (hes e he')
        simp only [ctxEdgeItem, Dict.getD, hxy, Option.getD_some, orderLabel_tup]
      · obtain ⟨q, _, rfl⟩ := List.mem_map.1 he'
        simp only [ctxEdgeItem, freshEdge]
        have : orderLabel (Dict.getD orderOne "order" (.tup [.num 2, .num 2])) = ['-'] := by decide
        rw [this])
  -- which context edges are new for this side
  have hnew : (K.edges.filter fun e => stdZero e.2.2).filter
      (fun e => !(side i I).hasEdge e.1 e.2.1) = P.map freshEdge := by
    rw [hEz, List.filter_append]
    have h1 : (I.edges.filter fun e => stdZero e.2.2).filter (fun e => !(side i I).hasEdge e.1 e.2.1) = [] := by
      rw [List.filter_eq_nil_iff]
      intro e he
      obtain ⟨he1, he2⟩ := List.mem_filter.1 he
      obtain ⟨x, y, hxy, hx, hy, hnz⟩ := edgeShape_unpack' e.2.2 (hes e he1)
      have hxy' := hc.eq e he1 he2 x y hxy
      subst hxy'
      have hm : matchUV e.1 e.2.1 e = true := by simp [matchUV]
      obtain ⟨_, o2⟩ := side_edge? I hs i e.1 e.2.1 e he1 hm x x hxy hx hx
      have hpos : x > 0 := by
        simp only [stdOrder, Bool.or_eq_true, decide_eq_true_eq] at hx
        omega
      have : (if i = 0 then x else x) > 0 := by split <;> exact hpos
      simp only [this, decide_true] at o2
      simp only [LGraph.hasEdge, o2, Bool.not_true, Bool.false_eq_true, not_false_eq_true]
    have h2 : (P.map freshEdge).filter (fun e => !(side i I).hasEdge e.1 e.2.1) = P.map freshEdge := by
      rw [List.filter_eq_self]
      intro e he
      obtain ⟨q, hq, rfl⟩ := List.mem_map.1 he
      have b1 := hP.fresh q hq
      cases hh : (side i I).hasEdge (freshEdge q).1 (freshEdge q).2.1 with
      | false => rfl
      | true =>
        exfalso
        unfold LGraph.hasEdge at hh
        cases he? : (side i I).edge? (freshEdge q).1 (freshEdge q).2.1 with
        | none => rw [he?] at hh; cases hh
        | some a =>
          obtain ⟨e', he', hm, _⟩ := edge?_some_mem _ _ _ _ he?
          obtain ⟨c1, c2⟩ := hSok.ends e' he'
          rw [hSids] at c1 c2
          rcases matchUV_cases _ _ _ hm with ⟨_, m2⟩ | ⟨m1, _⟩
          · simp only [freshEdge] at m2; exact b1 (m2 ▸ c2)
          · simp only [freshEdge] at m1; exact b1 (m1 ▸ c1)
    rw [h1, h2, List.nil_append]
  unfold readXg ctxItemsX
  refine ⟨?_, ?_, ?_, ?_⟩
  · intro n; rw [r1 n, hmemK]
  · intro p hp
    have hpid : p.1 ∈ I.ids := List.mem_map.2 ⟨p, hp, rfl⟩
    rw [r2 p.1 ((hmemK _).2 (Or.inl hpid))]
    by_cases hch : p.1 ∈ chOf I
    · rw [if_pos hch, if_pos hch]
    · rw [if_neg hch, if_neg hch, hP.old p hp]
  · intro q hq
    have hnotI := hP.fresh q hq
    have hnch : q.1 ∉ chOf I := by
      intro h
      have := mem_findChanged_left _ _ _ h
      rw [side_ids 0 I hns] at this
      exact hnotI this
    rw [r2 q.1 ((hmemK _).2 (Or.inr ⟨q, hq, rfl⟩)), if_neg hnch, hP.new q hq]
  · rw [r3, hnew, List.map_map]
    rfl

/-- **`ruleXg I K`, read back**: on the atoms of `I` it is what the default export of `I` gives;
everything else is a hydrogen hanging on one atom of `I` by a (1, 1) bond. -/
theorem roundtripXg (I K : LGraph) (P : List (Nat × Nat)) (hs : ItsShape I) (hc : StdConsistent I)
    (hP : Pendant I K P) :
    (∀ n, n ∈ (gmlToIts (ruleXg I K)).ids ↔ n ∈ I.ids ∨ ∃ q ∈ P, n = q.1) ∧
    (∀ n ∈ I.ids, nodeView (gmlToIts (ruleXg I K)) n = nodeView (gmlToIts (itsToGml false false I)) n) ∧
    (∀ u ∈ I.ids, ∀ v ∈ I.ids, edgeView (gmlToIts (ruleXg I K)) u v =
      edgeView (gmlToIts (itsToGml false false I)) u v) ∧
    (∀ q ∈ P,
      nodeView (gmlToIts (ruleXg I K)) q.1 = .tup [.str "H", .num 0, .str "H", .num 0] ∧
      edgeView (gmlToIts (ruleXg I K)) q.2 q.1 = some (.tup [.num 2, .num 2]) ∧
      ∀ u, u ≠ q.2 → edgeView (gmlToIts (ruleXg I K)) u q.1 = none) := by
  obtain ⟨x1, x2, x3, x4⟩ := readXg_spec I K P hs hc hP 0
  obtain ⟨y1, y2, y3, y4⟩ := readXg_spec I K P hs hc hP 1
  obtain ⟨d1, d2, d3⟩ := readD_spec I hs 0
  obtain ⟨e1, e2, e3⟩ := readD_spec I hs 1
  rw [gmlToIts_ruleXg, gmlToIts_itsToGml]
  have hids : ∀ n, n ∈ (construct (readXg I K 0) (readXg I K 1)).ids ↔ n ∈ I.ids ∨ ∃ q ∈ P, n = q.1 := by
    intro n; rw [Rd.mem_construct_ids, x1, y1, or_self]
  have hids0 : ∀ n, n ∈ (construct (readD I 0) (readD I 1)).ids ↔ n ∈ I.ids := by
    intro n; rw [Rd.mem_construct_ids, d1, e1, or_self]
  -- the new bonds never join two atoms of `I`
  have hBold : ∀ u ∈ I.ids, ∀ v ∈ I.ids, ∀ e ∈ P.map (fun q => ((q.2, q.1, [("order", Val.num 2)]) : Nat × Nat × Attrs)),
      matchUV u v e = false := by
    intro u hu v hv e he
    obtain ⟨q, hq, rfl⟩ := List.mem_map.1 he
    have b1 := hP.fresh q hq
    cases hm : matchUV u v (q.2, q.1, [("order", Val.num 2)]) with
    | false => rfl
    | true =>
      exfalso
      rcases matchUV_cases _ _ _ hm with ⟨_, m2⟩ | ⟨_, m2⟩ <;> simp only at m2
      · exact b1 (m2 ▸ hv)
      · exact b1 (m2 ▸ hu)
  refine ⟨hids, ?_, ?_, ?_⟩
  · intro n hn
    obtain ⟨p, hp, rfl⟩ := List.mem_map.1 hn
    rw [construct_nodeView _ _ _ ((hids _).2 (Or.inl hn)), construct_nodeView _ _ _ ((hids0 _).2 hn)]
    rw [nodeRow_congr (readXg I K 0) (readD I 0) p.1
        (by rw [(Rd.hasNode_iff _ _).2 ((x1 _).2 (Or.inl hn)), (Rd.hasNode_iff _ _).2 ((d1 _).2 hn)])
        (by rw [x2 p hp, d2 p hp]),
      nodeRow_congr (readXg I K 1) (readD I 1) p.1
        (by rw [(Rd.hasNode_iff _ _).2 ((y1 _).2 (Or.inl hn)), (Rd.hasNode_iff _ _).2 ((e1 _).2 hn)])
        (by rw [y2 p hp, e2 p hp])]
  · intro u hu v hv
    rw [construct_edgeView, construct_edgeView]
    have h0 := edge?_append_nomatch (readXg I K 0) (readD I 0) _ (by rw [x4, d3]) u v (hBold u hu v hv)
    have h1 := edge?_append_nomatch (readXg I K 1) (readD I 1) _ (by rw [y4, e3]) u v (hBold u hu v hv)
    have hh0 : (readXg I K 0).hasEdge u v = (readD I 0).hasEdge u v := by simp only [LGraph.hasEdge, h0]
    have hh1 : (readXg I K 1).hasEdge u v = (readD I 1).hasEdge u v := by simp only [LGraph.hasEdge, h1]
    have ho0 : orderIn (readXg I K 0) u v = orderIn (readD I 0) u v := by simp only [orderIn, h0]
    have ho1 : orderIn (readXg I K 1) u v = orderIn (readD I 1) u v := by simp only [orderIn, h1]
    rw [hh0, hh1, ho0, ho1]
  · intro q hq
    have b1 := hP.fresh q hq
    have hqJ : q.1 ∈ (construct (readXg I K 0) (readXg I K 1)).ids := (hids _).2 (Or.inr ⟨q, hq, rfl⟩)
    -- no bond of a side graph touches the new hydrogen
    have hAno : ∀ (i : Nat) (u : Nat), ∀ e ∈ (side i I).edges.map (fun e => ((e.1, e.2.1, [("order", edgeOrderVal e.2.2)]) : Nat × Nat × Attrs)),
        matchUV u q.1 e = false := by
      intro i u e he
      obtain ⟨e0, he0, rfl⟩ := List.mem_map.1 he
      obtain ⟨c1, c2⟩ := (sideOk_side I hs i).ends e0 he0
      rw [side_ids i I hs.2.1] at c1 c2
      cases hm : matchUV u q.1 (e0.1, e0.2.1, [("order", edgeOrderVal e0.2.2)]) with
      | false => rfl
      | true =>
        exfalso
        rcases matchUV_cases _ _ _ hm with ⟨_, m2⟩ | ⟨m1, _⟩
        · simp only at m2; exact b1 (m2 ▸ c2)
        · simp only at m1; exact b1 (m1 ▸ c1)
    have hBc : ∀ e ∈ P.map (fun q => ((q.2, q.1, [("order", Val.num 2)]) : Nat × Nat × Attrs)),
        e.2.2 = [("order", Val.num 2)] := by
      intro e he; obtain ⟨q', _, rfl⟩ := List.mem_map.1 he; rfl
    have hBex : ∃ e ∈ P.map (fun q => ((q.2, q.1, [("order", Val.num 2)]) : Nat × Nat × Attrs)),
        matchUV q.2 q.1 e = true := ⟨_, List.mem_map.2 ⟨q, hq, rfl⟩, by simp [matchUV]⟩
    have hBno : ∀ u, u ≠ q.2 → ∀ e ∈ P.map (fun q => ((q.2, q.1, [("order", Val.num 2)]) : Nat × Nat × Attrs)),
        matchUV u q.1 e = false := by
      intro u hu e he
      obtain ⟨q', hq', rfl⟩ := List.mem_map.1 he
      have c2 := hP.parent q' hq'
      cases hm : matchUV u q.1 (q'.2, q'.1, [("order", Val.num 2)]) with
      | false => rfl
      | true =>
        exfalso
        rcases matchUV_cases _ _ _ hm with ⟨m1, m2⟩ | ⟨m1, _⟩
        · simp only at m1 m2
          have : q' = q := inj_of_nodup_map (·.1) P hP.nd q' q hq' hq m2
          rw [this] at m1; exact hu m1.symm
        · simp only at m1; exact b1 (m1 ▸ c2)
    refine ⟨?_, ?_, ?_⟩
    · rw [construct_nodeView _ _ _ hqJ,
        nodeRow_view (readXg I K 0) q.1 hAttrs ((x1 _).2 (Or.inr ⟨q, hq, rfl⟩)) alpha_hAttrs (x3 q hq),
        nodeRow_view (readXg I K 1) q.1 hAttrs ((y1 _).2 (Or.inr ⟨q, hq, rfl⟩)) alpha_hAttrs (y3 q hq), labView_hAttrs]
      rfl
    · rw [construct_edgeView]
      have h0 := edge?_const_of (readXg I K 0) _ _ x4 q.2 q.1 (hAno 0 q.2) _ hBc hBex
      have h1 := edge?_const_of (readXg I K 1) _ _ y4 q.2 q.1 (hAno 1 q.2) _ hBc hBex
      simp only [LGraph.hasEdge, orderIn, h0, h1]
      rfl
    · intro u hu
      rw [construct_edgeView]
      have h0 : (readXg I K 0).edge? u q.1 = none := by
        apply edge?_none_of
        intro e he; rw [x4, List.mem_append] at he
        rcases he with he | he
        · exact hAno 0 u e he
        · exact hBno u hu e he
      have h1 : (readXg I K 1).edge? u q.1 = none := by
        apply edge?_none_of
        intro e he; rw [y4, List.mem_append] at he
        rcases he with he | he
        · exact hAno 1 u e he
        · exact hBno u hu e he
      simp only [LGraph.hasEdge, h0, h1]
      rfl

/-! ### the re-indexed export -/

/-- the two facts inside `itsToGml_reindex`: changed atoms and side sections of the renumbered sides
are those of the sides of the renumbered ITS. -/
theorem reindex_sides (I : LGraph) (hs : ItsShape I) :
    findChanged ((side 0 I).relabel (indexMap (side 0 I))) ((side 1 I).relabel (indexMap (side 0 I))) =
      chOf (I.relabel (indexMap (side 0 I))) ∧
    ∀ i c, sideItems ((side i I).relabel (indexMap (side 0 I))) c =
      sideItems (side i (I.relabel (indexMap (side 0 I)))) c := by
  have hf := injOn_indexMap I hs
  generalize hfdef : indexMap (side 0 I) = f at hf
  have hs' : ItsShape (I.relabel f) := itsShape_relabel I hs f hf
  have hnodes : ∀ i, (side i (I.relabel f)).nodes = I.nodes.map fun p => (f p.1, sideAttrs i (f p.1, p.2)) := by
    intro i
    rw [side_nodes i _ hs'.2.1]
    simp [LGraph.relabel, List.map_map, Function.comp_def]
  have hnodesr : ∀ i, ((side i I).relabel f).nodes = I.nodes.map fun p => (f p.1, sideAttrs i p) := by
    intro i
    simp [LGraph.relabel, side_nodes i I hs.2.1, List.map_map, Function.comp_def]
  have hids : ∀ i, (side i (I.relabel f)).ids = ((side i I).relabel f).ids := by
    intro i
    simp [LGraph.ids, hnodes, hnodesr, List.map_map, Function.comp_def]
  have hidsr : ∀ i, ((side i I).relabel f).ids = I.ids.map f := by
    intro i
    simp [LGraph.ids, hnodesr, List.map_map, Function.comp_def]
  have hfi : ∀ i, Match.InjOnIds (side i I) f := by
    intro i a ha b hb; rw [side_ids i I hs.2.1] at ha hb; exact hf a ha b hb
  have hcharge : ∀ i, ∀ n' ∈ I.ids.map f,
      Attrs.get (((side i I).relabel f).attrs n') "charge" = Attrs.get ((side i (I.relabel f)).attrs n') "charge" := by
    intro i n' hn'
    obtain ⟨n, hn, rfl⟩ := List.mem_map.1 hn'
    obtain ⟨p, hp, rfl⟩ := List.mem_map.1 hn
    rw [Match.relabel_attrs_on (side i I) f (hfi i) p.1 (by rw [side_ids i I hs.2.1]; exact List.mem_map.2 ⟨p, hp, rfl⟩),
      side_attrs i I hs.1.1 hs.2.1 p hp]
    have hp' : (f p.1, p.2) ∈ (I.relabel f).nodes := by
      simp only [LGraph.relabel]; exact List.mem_map.2 ⟨p, hp, rfl⟩
    have := side_attrs i (I.relabel f) hs'.1.1 hs'.2.1 (f p.1, p.2) hp'
    simp only at this
    rw [this]
    exact (sideAttrs_indep i p.1 (f p.1) p.2 (hs.2.1 p hp)).2
  refine ⟨?_, ?_⟩
  · unfold chOf findChanged
    rw [hids 0, hidsr 0]
    apply List.filter_congr
    intro n' hn'
    rw [hcharge 0 n' hn', hcharge 1 n' hn']
    simp only [LGraph.hasNode, hids 1]
  · intro i c
    unfold sideItems
    rw [side_relabel_edges i I f, hnodes i, hnodesr i]
    congr 1
    apply sideItems_nodes_eq
    · intro p _; rfl
    · intro p hp
      exact (sideAttrs_indep i p.1 (f p.1) p.2 (hs.2.1 p hp)).1

theorem stdConsistent_relabel (I : LGraph) (hc : StdConsistent I) (f : Nat → Nat) : StdConsistent (I.relabel f) := by
  intro e he hz
  simp only [LGraph.relabel] at he
  obtain ⟨e0, he0, rfl⟩ := List.mem_map.1 he
  exact hc e0 he0 hz

/-- **`reindex=True` is `reindex=False` on the renumbered ITS**: the writer renumbers the three graphs
first and expands the hydrogens of the renumbered context graph afterwards, so the rule written with
`reindex=True`, `explicit_hydrogen=True` is the ids-kept explicit-hydrogen export of
`I.relabel (indexMap (side 0 I))` (the explicit-hydrogen counterpart of `itsToGml_reindex`). -/
theorem itsToGmlX_reindex (I : LGraph) (hs : ItsShape I) :
    itsToGmlX false true true I = itsToGmlX false false true (I.relabel (indexMap (side 0 I))) := by
  obtain ⟨h1, h2⟩ := reindex_sides I hs
  rw [itsToGmlX_full]
  simp only [itsToGmlX, writeRuleX, decompose, if_true, Bool.false_eq_true, if_false, Bool.not_true, ctxItemsX]
  unfold chOf at h1
  rw [h1, h2 0, h2 1]

/-- **The rule written with `explicit_hydrogen=True`, `reindex=True`, read back** (full export):
`roundtripX_full` / `roundtripX` of the renumbered ITS `J = I.relabel (indexMap (side 0 I))`, read
through the renumbering.  The new hydrogens are those of `J` (`addedH J`: ids `n+1, …`, parents
already renumbered), so no id condition is needed. -/
theorem roundtripX_reindex (I : LGraph) (hs : ItsShape I) (hc : StdConsistent I) :
    (∀ n, n ∈ (gmlToIts (itsToGmlX false true true I)).ids ↔
      n ∈ I.ids.map (indexMap (side 0 I)) ∨ ∃ q ∈ addedH (I.relabel (indexMap (side 0 I))), n = q.1) ∧
    (∀ n ∈ I.ids,
      nodeView (gmlToIts (itsToGmlX false true true I)) (indexMap (side 0 I) n) = nodeView I n ∧
      nodeView (gmlToIts (itsToGmlX false true true I)) (indexMap (side 0 I) n) =
        nodeView (gmlToIts (itsToGml false true I)) (indexMap (side 0 I) n)) ∧
    (∀ u ∈ I.ids, ∀ v ∈ I.ids,
      edgeView (gmlToIts (itsToGmlX false true true I)) (indexMap (side 0 I) u) (indexMap (side 0 I) v) = edgeView I u v ∧
      edgeView (gmlToIts (itsToGmlX false true true I)) (indexMap (side 0 I) u) (indexMap (side 0 I) v) =
        edgeView (gmlToIts (itsToGml false true I)) (indexMap (side 0 I) u) (indexMap (side 0 I) v)) ∧
    (∀ q ∈ addedH (I.relabel (indexMap (side 0 I))),
      q.1 ∉ I.ids.map (indexMap (side 0 I)) ∧ q.2 ∈ I.ids.map (indexMap (side 0 I)) ∧
      nodeView (gmlToIts (itsToGmlX false true true I)) q.1 = .tup [.str "H", .num 0, .str "H", .num 0] ∧
      edgeView (gmlToIts (itsToGmlX false true true I)) q.2 q.1 = some (.tup [.num 2, .num 2]) ∧
      ∀ u, u ≠ q.2 → edgeView (gmlToIts (itsToGmlX false true true I)) u q.1 = none) ∧
    (∀ v ∈ I.ids, ((addedH (I.relabel (indexMap (side 0 I)))).map (·.2)).count (indexMap (side 0 I) v) =
      (hcnt (I.attrs v)).toNat) := by
  have hf := injOn_indexMap I hs
  have hsJ := itsShape_relabel I hs _ hf
  have hcJ := stdConsistent_relabel I hc (indexMap (side 0 I))
  obtain ⟨a, b, c, d, e⟩ := roundtripX_full _ hsJ hcJ
  obtain ⟨_, b', c', _⟩ := roundtripX _ hsJ hcJ
  rw [← itsToGmlX_reindex I hs] at a b c d b' c'
  rw [← itsToGml_reindex I hs] at b' c'
  have hJids : (I.relabel (indexMap (side 0 I))).ids = I.ids.map (indexMap (side 0 I)) := Match.relabel_ids _ _
  rw [hJids] at a b c d e b' c'
  refine ⟨a, ?_, ?_, d, ?_⟩
  · intro n hn
    have hfn : indexMap (side 0 I) n ∈ I.ids.map (indexMap (side 0 I)) := List.mem_map.2 ⟨n, hn, rfl⟩
    refine ⟨?_, b' _ hfn⟩
    rw [b _ hfn]
    unfold nodeView
    rw [Match.relabel_attrs_on I _ hf n hn]
  · intro u hu v hv
    have hfu : indexMap (side 0 I) u ∈ I.ids.map (indexMap (side 0 I)) := List.mem_map.2 ⟨u, hu, rfl⟩
    have hfv : indexMap (side 0 I) v ∈ I.ids.map (indexMap (side 0 I)) := List.mem_map.2 ⟨v, hv, rfl⟩
    refine ⟨?_, c' _ hfu _ hfv⟩
    rw [c _ hfu _ hfv]
    unfold edgeView
    rw [Match.relabel_edge?_on I hs.1 _ hf u v hu hv]
  · intro v hv
    rw [e _ (List.mem_map.2 ⟨v, hv, rfl⟩), Match.relabel_attrs_on I _ hf v hv]

/-- the renumbering the writer applies to the atoms of `I`: `indexMap` of the left side for
`reindex=True` (the map of `itsToGml_reindex`), nothing otherwise. -/
def renum (ri : Bool) (I : LGraph) : Nat → Nat := if ri then indexMap (side 0 I) else id

theorem renum_true (I : LGraph) : renum true I = indexMap (side 0 I) := rfl
theorem renum_false (I : LGraph) : renum false I = id := rfl

/-- the graph whose ids-kept export the writer produces: the ITS renumbered by `renum ri I`. -/
def renumG (ri : Bool) (I : LGraph) : LGraph := if ri then I.relabel (indexMap (side 0 I)) else I

theorem renumG_true (I : LGraph) : renumG true I = I.relabel (indexMap (side 0 I)) := rfl
theorem renumG_false (I : LGraph) : renumG false I = I := rfl

end GmlXR
end SynKit.ReprOpt

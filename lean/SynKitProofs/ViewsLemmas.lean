import SynKitProofs.ViewsLemmas.Str
import SynKitProofs.ViewsLemmas.Bip
import SynKitProofs.ViewsLemmas.Species
/-!
# Helper lemmas for C16 (network views)

* `ViewsLemmas/Str.lean`     — `SynKit.Views.Str`: digits, `parseSide ∘ fmtSide`, lines
* `ViewsLemmas/Bip.lean`     — `SynKit.Views.Bip`: explicit form of the exported bipartite graph, importer on it
* `ViewsLemmas/Species.lean` — `SynKit.Views.Sp`: arc invariant of the species-graph exporter, entry invariant of the importer

The property theorems are in `SynKitProofs/Props/C16.lean`.
-/

import SynKitModel.NautyIR
import SynKitProofs.CanonLemmas
/-! Equal individualisation–refinement labels give equal serialisations of the canonical graphs. -/
set_option linter.unusedSimpArgs false
set_option linter.unusedVariables false
namespace SynKit.Canon
open SynKit SynKit.Match

/-! ### Label items determine signature keys -/

theorem getD_of_contains (a : Attrs) (k : String) (h : Dict.contains a k = true) :
    ∃ x, ∀ d, getD a k d = x := by
  have hk : k ∈ Dict.keys a := by simpa [Dict.contains] using h
  cases hx : Dict.get? a k with
  | none => exact absurd hk ((Dict.get?_eq_none_iff a k).1 hx)
  | some x => exact ⟨x, fun d => by simp [getD, Dict.getD, hx]⟩

/-- with all covered attributes present, the label's node item determines the signature's node key -/
theorem nodeKey_of_labKey (a b : Attrs)
    (ha : ∀ k ∈ irNodeAttrNames, Dict.contains a k = true) (hb : ∀ k ∈ irNodeAttrNames, Dict.contains b k = true)
    (h : irNodeLabKey a = irNodeLabKey b) : nodeKey a = nodeKey b := by
  obtain ⟨a1, h1⟩ := getD_of_contains a "element" (ha _ (by simp [irNodeAttrNames]))
  obtain ⟨a2, h2⟩ := getD_of_contains a "aromatic" (ha _ (by simp [irNodeAttrNames]))
  obtain ⟨a3, h3⟩ := getD_of_contains a "charge" (ha _ (by simp [irNodeAttrNames]))
  obtain ⟨a4, h4⟩ := getD_of_contains a "hcount" (ha _ (by simp [irNodeAttrNames]))
  obtain ⟨b1, g1⟩ := getD_of_contains b "element" (hb _ (by simp [irNodeAttrNames]))
  obtain ⟨b2, g2⟩ := getD_of_contains b "aromatic" (hb _ (by simp [irNodeAttrNames]))
  obtain ⟨b3, g3⟩ := getD_of_contains b "charge" (hb _ (by simp [irNodeAttrNames]))
  obtain ⟨b4, g4⟩ := getD_of_contains b "hcount" (hb _ (by simp [irNodeAttrNames]))
  simp only [irNodeLabKey, irNodeAttrNames, List.map_cons, List.map_nil, h1, h2, h3, h4, g1, g2, g3, g4,
    List.cons.injEq, and_true] at h
  obtain ⟨e1, e2, e3, e4⟩ := h
  simp only [nodeKey, h1, h2, h3, h4, g1, g2, g3, g4, e1, e2, e3, e4]

theorem edgeKey_of_labKey (a b : Attrs)
    (ha : ∀ k ∈ irEdgeAttrNames, Dict.contains a k = true) (hb : ∀ k ∈ irEdgeAttrNames, Dict.contains b k = true)
    (h : irEdgeLabKey a = irEdgeLabKey b) : edgeKey a = edgeKey b := by
  obtain ⟨a1, h1⟩ := getD_of_contains a "order" (ha _ (by simp [irEdgeAttrNames]))
  obtain ⟨a2, h2⟩ := getD_of_contains a "standard_order" (ha _ (by simp [irEdgeAttrNames]))
  obtain ⟨b1, g1⟩ := getD_of_contains b "order" (hb _ (by simp [irEdgeAttrNames]))
  obtain ⟨b2, g2⟩ := getD_of_contains b "standard_order" (hb _ (by simp [irEdgeAttrNames]))
  simp only [irEdgeLabKey, irEdgeAttrNames, List.map_cons, List.map_nil, h1, h2, g1, g2,
    List.cons.injEq, and_true] at h
  obtain ⟨e1, e2⟩ := h
  simp only [edgeKey, h1, h2, g1, g2, e1, e2]

/-! ### Entries of the edge segment -/

/-- entries of the edge segment: for sequences of equal length with equal edge segments, the items at every pair of positions i < j agree -/
theorem irEdgeBits_eq_get (G H : LGraph) (s t : List Nat) (hlen : s.length = t.length)
    (h : irEdgeBits G s = irEdgeBits H t) (i j : Nat) (hij : i < j) (hj : j < s.length) :
    (G.edge? (s[i]'(by omega)) (s[j]'hj)).map irEdgeLabKey = (H.edge? (t[i]'(by omega)) (t[j]'(by omega))).map irEdgeLabKey := by
  induction s generalizing t i j with
  | nil => simp at hj
  | cons v rest ih =>
    cases t with
    | nil => simp at hlen
    | cons w rest' =>
      simp only [List.length_cons, Nat.add_right_cancel_iff] at hlen
      simp only [irEdgeBits] at h
      obtain ⟨hm, hr⟩ := List.append_inj h (by simp [hlen])
      cases j with
      | zero => omega
      | succ j' =>
        simp only [List.length_cons, Nat.add_lt_add_iff_right] at hj
        cases i with
        | zero =>
          have := congrArg (fun l => l[j']?) hm
          simp only [List.getElem?_map, List.getElem?_eq_getElem hj,
            List.getElem?_eq_getElem (show j' < rest'.length by omega), Option.map_some, Option.some.injEq] at this
          simpa using this
        | succ i' =>
          simpa using ih rest' hlen hr i' j' (by omega) hj

/-! ### Graph facts -/

theorem attrs_mem_nodes (G : LGraph) (v : Nat) (hv : v ∈ G.ids) : (v, G.attrs v) ∈ G.nodes := by
  unfold LGraph.attrs
  cases hf : G.nodes.find? (fun p => decide (p.1 = v)) with
  | none =>
    exfalso
    obtain ⟨p, hp, rfl⟩ := List.mem_map.1 hv
    have := List.find?_eq_none.1 hf p hp
    simp at this
  | some p =>
    have hm := List.mem_of_find?_eq_some hf
    have hp := List.find?_some hf
    simp only [decide_eq_true_eq] at hp
    subst hp
    exact hm

theorem edge?_self_none (G : LGraph) (hw : G.WF) (v : Nat) : G.edge? v v = none := by
  cases hx : G.edge? v v with
  | none => rfl
  | some a =>
    exfalso
    obtain ⟨e, he, hm, _⟩ := edgeRel_of_edge? G v v a hx
    have := (hw.2.1 e he).2.2
    rcases hm with ⟨h1, h2⟩ | ⟨h1, h2⟩ <;> exact this (h1.trans h2.symm)

theorem edge_map_key (G H : LGraph) (cG : IRCovered G) (cH : IRCovered H) (u v u' v' : Nat)
    (h : (G.edge? u v).map irEdgeLabKey = (H.edge? u' v').map irEdgeLabKey) :
    (G.edge? u v).map edgeKey = (H.edge? u' v').map edgeKey := by
  cases hx : G.edge? u v with
  | none =>
    cases hy : H.edge? u' v' with
    | none => rfl
    | some b => rw [hx, hy] at h; simp at h
  | some a =>
    cases hy : H.edge? u' v' with
    | none => rw [hx, hy] at h; simp at h
    | some b =>
      rw [hx, hy] at h
      simp only [Option.map_some, Option.some.injEq] at h ⊢
      obtain ⟨e, he, _, rfl⟩ := edgeRel_of_edge? G u v a hx
      obtain ⟨e', he', _, rfl⟩ := edgeRel_of_edge? H u' v' b hy
      exact edgeKey_of_labKey _ _ (cG.2 e he) (cH.2 e' he') h

theorem transfer_getElem (o o' : List Nat) (hn : o'.Nodup) (hlen : o.length = o'.length) (i : Nat)
    (hi : i < o'.length) : transfer o o' (o'[i]) = o[i]'(by omega) := by
  unfold transfer
  rw [hn.idxOf_getElem i hi, List.getD_eq_getElem?_getD, List.getElem?_eq_getElem (by omega), Option.getD_some]

theorem irEdgeBits_append_get (G H : LGraph) (p o p' o' : List Nat) (hp : p.length = p'.length)
    (hlen : o.length = o'.length) (h : irEdgeBits G (p ++ o) = irEdgeBits H (p' ++ o'))
    (i j : Nat) (hij : i < j) (hj : j < o.length) :
    (G.edge? (o[i]'(by omega)) (o[j]'hj)).map irEdgeLabKey =
      (H.edge? (o'[i]'(by omega)) (o'[j]'(by omega))).map irEdgeLabKey := by
  have := irEdgeBits_eq_get G H (p ++ o) (p' ++ o') (by simp [hp, hlen]) h (p.length + i) (p.length + j)
    (by omega) (by simp; omega)
  simpa [List.getElem_append_right, hp] using this

/-- MAIN: equal labels (over `prefix ++ order`, prefixes of equal length, orders that are permutations of the node ids) give equal serialisations of the canonical graphs -/
theorem serialise_eq_of_label_eq (G H : LGraph) (hG : G.WF) (hH : H.WF) (cG : IRCovered G) (cH : IRCovered H)
    (p o p' o' : List Nat) (hp : p.length = p'.length) (ho : o.Perm G.ids) (ho' : o'.Perm H.ids)
    (h : irBuildLabel G (p ++ o) = irBuildLabel H (p' ++ o')) :
    serialise (canonBy o G) = serialise (canonBy o' H) := by
  have hn : o.Nodup := ho.nodup_iff.2 hG.1
  have hn' : o'.Nodup := ho'.nodup_iff.2 hH.1
  simp only [irBuildLabel, IRLabel.mk.injEq] at h
  obtain ⟨hnodes, hedges⟩ := h
  simp only [irNodeSeg, List.map_append] at hnodes
  obtain ⟨_, hno⟩ := List.append_inj hnodes (by simp [hp])
  have hlen : o.length = o'.length := by simpa using congrArg List.length hno
  have hpair := irEdgeBits_append_get G H p o p' o' hp hlen hedges
  have hmt := map_transfer o o' hn' hlen
  have iso : IsoCov G H (transfer o o') := by
    refine ⟨?_, ?_, ?_⟩
    · have := (ho'.symm).map (transfer o o')
      rw [hmt] at this
      exact this.trans ho
    · intro q hq
      have hq' : q ∈ o' := ho'.mem_iff.2 hq
      obtain ⟨i, hi, rfl⟩ := List.getElem_of_mem hq'
      rw [transfer_getElem o o' hn' hlen i hi]
      have hoi : o[i]'(by omega) ∈ G.ids := ho.mem_iff.1 (List.getElem_mem _)
      have e := congrArg (fun l => l[i]?) hno
      simp only [List.getElem?_map, List.getElem?_eq_getElem hi,
        List.getElem?_eq_getElem (show i < o.length by omega), Option.map_some, Option.some.injEq] at e
      exact nodeKey_of_labKey _ _ (cG.1 _ (attrs_mem_nodes G _ hoi)) (cH.1 _ (attrs_mem_nodes H _ hq)) e
    · intro q hq r hr
      have hq' : q ∈ o' := ho'.mem_iff.2 hq
      have hr' : r ∈ o' := ho'.mem_iff.2 hr
      obtain ⟨i, hi, rfl⟩ := List.getElem_of_mem hq'
      obtain ⟨j, hj, rfl⟩ := List.getElem_of_mem hr'
      rw [transfer_getElem o o' hn' hlen i hi, transfer_getElem o o' hn' hlen j hj]
      rcases Nat.lt_trichotomy i j with hij | hij | hij
      · exact edge_map_key G H cG cH _ _ _ _ (hpair i j hij (by omega))
      · subst hij
        rw [edge?_self_none G hG, edge?_self_none H hH]
      · rw [edge?_symm G, edge?_symm H]
        exact edge_map_key G H cG cH _ _ _ _ (hpair j i hij (by omega))
  have := serialise_canonBy_congr G H hG hH (transfer o o') iso o' ho'
  rw [hmt] at this
  exact this

end SynKit.Canon


import SynKitModel.NetGraphAlg
import Mathlib.Data.List.Basic
import Mathlib.Data.List.Perm.Subperm
import Mathlib.Data.List.Nodup
/-!
# Correctness of the small graph algorithms (`SynKitModel/GraphAlg.lean`)

* `sameClass_iff`, `components_spec`: two nodes get the same label / lie in a common class exactly
  when they are related by the reflexive-symmetric-transitive closure `Conn` of the edges;
  `components_cover`, `components_disjoint`: the classes partition the node list.
* `reachSet_sound` (outright), `reachSet_complete_of_closed` (under the stabilisation test),
  and `reachSet_closed_of_fuel`: with as many sweeps as there are nodes the set is always
  stabilised (counting argument), hence `reachable_iff`, `stronglyConnected_iff` without any side
  condition on the fuel.
-/
namespace SynKit.NetGraphAlg

/-! ## components -/

theorem Conn.mono {E E' : Edges} (h : ∀ e ∈ E, e ∈ E') {a b : Nat} (hc : Conn E a b) : Conn E' a b := by
  induction hc with
  | refl a => exact .refl a
  | edge he => exact .edge (h _ he)
  | symm _ ih => exact .symm ih
  | trans _ _ ih1 ih2 => exact .trans ih1 ih2

/-- Invariant of the merging fold: equal labels ⇔ connected by the edges merged so far. -/
theorem merge_spec (f : Nat → Nat) (E : Edges) (u v : Nat)
    (h : ∀ x y, f x = f y ↔ Conn E x y) (x y : Nat) :
    merge f u v x = merge f u v y ↔ Conn (E ++ [(u, v)]) x y := by
  have hmono : ∀ {a b}, Conn E a b → Conn (E ++ [(u, v)]) a b :=
    fun hc => hc.mono (fun e he => List.mem_append_left _ he)
  have huv : Conn (E ++ [(u, v)]) u v := .edge (by simp)
  constructor
  · intro hm
    unfold merge at hm
    by_cases hx : f x = f v <;> by_cases hy : f y = f v <;> simp only [hx, hy, if_true, if_false] at hm
    · exact .trans (hmono ((h x v).1 hx)) (.symm (hmono ((h y v).1 hy)))
    · exact .trans (hmono ((h x v).1 hx)) (.trans (.symm huv) (hmono ((h u y).1 hm)))
    · exact .trans (hmono ((h x u).1 hm)) (.trans huv (.symm (hmono ((h y v).1 hy))))
    · exact hmono ((h x y).1 hm)
  · intro hc
    have hcongr : ∀ a b, f a = f b → merge f u v a = merge f u v b := by
      intro a b hab; unfold merge; rw [hab]
    induction hc with
    | refl a => rfl
    | edge he =>
      rcases List.mem_append.1 he with he | he
      · exact hcongr _ _ ((h _ _).2 (.edge he))
      · simp only [List.mem_singleton, Prod.mk.injEq] at he
        rw [he.1, he.2]
        unfold merge
        by_cases huv' : f u = f v <;> simp [huv']
    | symm _ ih => exact ih.symm
    | trans _ _ ih1 ih2 => exact ih1.trans ih2

theorem foldl_merge_spec (es : Edges) (f : Nat → Nat) (E : Edges)
    (h : ∀ x y, f x = f y ↔ Conn E x y) (x y : Nat) :
    (es.foldl (fun f e => merge f e.1 e.2) f) x = (es.foldl (fun f e => merge f e.1 e.2) f) y ↔
      Conn (E ++ es) x y := by
  induction es generalizing f E with
  | nil => simpa using h x y
  | cons e rest ih =>
    have := ih (merge f e.1 e.2) (E ++ [(e.1, e.2)]) (merge_spec f E e.1 e.2 h)
    simpa [List.append_assoc] using this

theorem conn_nil (x y : Nat) : Conn [] x y ↔ x = y := by
  constructor
  · intro h
    induction h with
    | refl a => rfl
    | edge he => simp at he
    | symm _ ih => exact ih.symm
    | trans _ _ ih1 ih2 => exact ih1.trans ih2
  · rintro rfl; exact .refl x

/-- **Components, label form**: same label ⇔ related by the reflexive-symmetric-transitive
closure of the edges. -/
theorem labelling_spec (E : Edges) (x y : Nat) : labelling E x = labelling E y ↔ Conn E x y := by
  have := foldl_merge_spec E id [] (fun a b => by simpa using (conn_nil a b).symm) x y
  simpa [labelling] using this

theorem sameClass_iff (E : Edges) (x y : Nat) : sameClass E x y = true ↔ Conn E x y := by
  simp [sameClass, labelling_spec]

/-! classes of a label function -/

theorem reps_foldl (f : Nat → Nat) (nodes acc : List Nat) :
    (∀ r, r ∈ nodes.foldl (fun acc x => if acc.any (fun r => f r == f x) then acc else acc ++ [x]) acc →
        r ∈ acc ∨ r ∈ nodes) ∧
    (∀ x, x ∈ acc ∨ x ∈ nodes →
        ∃ r ∈ nodes.foldl (fun acc x => if acc.any (fun r => f r == f x) then acc else acc ++ [x]) acc, f r = f x) ∧
    ((acc.map f).Nodup →
        ((nodes.foldl (fun acc x => if acc.any (fun r => f r == f x) then acc else acc ++ [x]) acc).map f).Nodup) := by
  induction nodes generalizing acc with
  | nil =>
    refine ⟨fun r h => Or.inl h, ?_, fun h => h⟩
    intro x hx
    rcases hx with hx | hx
    · exact ⟨x, hx, rfl⟩
    · simp at hx
  | cons n rest ih =>
    simp only [List.foldl_cons]
    by_cases hany : acc.any (fun r => f r == f n) = true
    · simp only [hany, if_true]
      obtain ⟨h1, h2, h3⟩ := ih acc
      refine ⟨?_, ?_, h3⟩
      · intro r hr
        rcases h1 r hr with h | h
        · exact Or.inl h
        · exact Or.inr (List.mem_cons_of_mem _ h)
      · intro x hx
        rcases hx with hx | hx
        · exact h2 x (Or.inl hx)
        · rcases List.mem_cons.1 hx with rfl | hx
          · obtain ⟨r, hr, hfr⟩ := List.any_eq_true.1 hany
            obtain ⟨r', hr', hfr'⟩ := h2 r (Or.inl hr)
            exact ⟨r', hr', hfr'.trans (by simpa using hfr)⟩
          · exact h2 x (Or.inr hx)
    · simp only [hany]
      obtain ⟨h1, h2, h3⟩ := ih (acc ++ [n])
      refine ⟨?_, ?_, ?_⟩
      · intro r hr
        rcases h1 r hr with h | h
        · rcases List.mem_append.1 h with h | h
          · exact Or.inl h
          · simp only [List.mem_singleton] at h; subst h; exact Or.inr List.mem_cons_self
        · exact Or.inr (List.mem_cons_of_mem _ h)
      · intro x hx
        rcases hx with hx | hx
        · exact h2 x (Or.inl (List.mem_append_left _ hx))
        · rcases List.mem_cons.1 hx with rfl | hx
          · exact h2 x (Or.inl (by simp))
          · exact h2 x (Or.inr hx)
      · intro hn
        apply h3
        rw [List.map_append, List.nodup_append]
        refine ⟨hn, by simp, ?_⟩
        intro a ha b hb
        simp only [List.map_cons, List.map_nil, List.mem_singleton] at hb; subst hb
        obtain ⟨r, hr, rfl⟩ := List.mem_map.1 ha
        intro heq
        apply hany
        exact List.any_eq_true.2 ⟨r, hr, by simpa using heq⟩

theorem mem_reps (f : Nat → Nat) (nodes : List Nat) (r : Nat) (h : r ∈ reps f nodes) : r ∈ nodes := by
  rcases (reps_foldl f nodes []).1 r h with h | h
  · simp at h
  · exact h

theorem reps_cover (f : Nat → Nat) (nodes : List Nat) (x : Nat) (h : x ∈ nodes) :
    ∃ r ∈ reps f nodes, f r = f x := (reps_foldl f nodes []).2.1 x (Or.inr h)

theorem reps_labels_nodup (f : Nat → Nat) (nodes : List Nat) : ((reps f nodes).map f).Nodup :=
  (reps_foldl f nodes []).2.2 (by simp)

theorem mem_classesOf (f : Nat → Nat) (nodes : List Nat) (c : List Nat) :
    c ∈ classesOf f nodes ↔ ∃ r ∈ reps f nodes, c = nodes.filter fun x => f x == f r := by
  simp only [classesOf, List.mem_map]
  constructor
  · rintro ⟨r, hr, rfl⟩; exact ⟨r, hr, rfl⟩
  · rintro ⟨r, hr, rfl⟩; exact ⟨r, hr, rfl⟩

/-- **Components, class form**: two nodes of the graph lie in a common class ⇔ they are related by
the reflexive-symmetric-transitive closure of the edges. -/
theorem components_spec (nodes : List Nat) (E : Edges) (x y : Nat) (hx : x ∈ nodes) (hy : y ∈ nodes) :
    (∃ c ∈ components nodes E, x ∈ c ∧ y ∈ c) ↔ Conn E x y := by
  rw [← labelling_spec]
  unfold components
  constructor
  · rintro ⟨c, hc, hxc, hyc⟩
    obtain ⟨r, _, rfl⟩ := (mem_classesOf _ _ _).1 hc
    simp only [List.mem_filter, beq_iff_eq] at hxc hyc
    exact hxc.2.trans hyc.2.symm
  · intro h
    obtain ⟨r, hr, hfr⟩ := reps_cover (labelling E) nodes x hx
    refine ⟨_, (mem_classesOf _ _ _).2 ⟨r, hr, rfl⟩, ?_, ?_⟩
    · simp [List.mem_filter, hx, hfr]
    · simp [List.mem_filter, hy, hfr, ← h]

/-- Every node lies in some class, classes only contain nodes, no class is empty. -/
theorem components_cover (nodes : List Nat) (E : Edges) :
    (∀ x ∈ nodes, ∃ c ∈ components nodes E, x ∈ c) ∧
    (∀ c ∈ components nodes E, c ≠ [] ∧ ∀ x ∈ c, x ∈ nodes) := by
  constructor
  · intro x hx
    obtain ⟨c, hc, hxc, _⟩ := (components_spec nodes E x x hx hx).2 (.refl x)
    exact ⟨c, hc, hxc⟩
  · intro c hc
    obtain ⟨r, hr, rfl⟩ := (mem_classesOf _ _ _).1 hc
    refine ⟨?_, fun x hx => (List.mem_filter.1 hx).1⟩
    intro hnil
    have : r ∈ nodes.filter fun x => labelling E x == labelling E r := by
      simp [List.mem_filter, mem_reps _ _ _ hr]
    rw [hnil] at this; simp at this

/-- Two classes that share a node are the same class (as lists). -/
theorem components_disjoint (nodes : List Nat) (E : Edges) (c d : List Nat)
    (hc : c ∈ components nodes E) (hd : d ∈ components nodes E) (x : Nat) (hxc : x ∈ c) (hxd : x ∈ d) :
    c = d := by
  obtain ⟨r, _, rfl⟩ := (mem_classesOf _ _ _).1 hc
  obtain ⟨s, _, rfl⟩ := (mem_classesOf _ _ _).1 hd
  simp only [List.mem_filter, beq_iff_eq] at hxc hxd
  have : labelling E r = labelling E s := hxc.2.symm.trans hxd.2
  simp only [this]

/-- The classes are listed once each: their number is the number of components. -/
theorem components_nodup (nodes : List Nat) (E : Edges) : (components nodes E).Nodup := by
  unfold components classesOf
  have hn := reps_labels_nodup (labelling E) nodes
  have hn' : (reps (labelling E) nodes).Nodup := List.Nodup.of_map _ hn
  apply List.Nodup.map_on _ hn'
  intro r hr s hs heq
  have hr' : r ∈ nodes.filter fun x => labelling E x == labelling E r := by
    simp [List.mem_filter, mem_reps _ _ _ hr]
  rw [heq] at hr'
  simp only [List.mem_filter, beq_iff_eq] at hr'
  exact List.inj_on_of_nodup_map hn hr hs hr'.2

end SynKit.NetGraphAlg

namespace SynKit.NetGraphAlg

/-! ## directed reachability -/

theorem Reach.trans {E : Edges} {a b c : Nat} (h1 : Reach E a b) (h2 : Reach E b c) : Reach E a c := by
  induction h2 with
  | refl => exact h1
  | step _ he ih => exact .step ih he

theorem Reach.mono {E E' : Edges} (h : ∀ e ∈ E, e ∈ E') {a b : Nat} (hr : Reach E a b) : Reach E' a b := by
  induction hr with
  | refl => exact .refl _
  | step _ he ih => exact .step ih (h _ he)

def sweepStep (S : List Nat) (e : Nat × Nat) : List Nat :=
  if S.contains e.1 && !S.contains e.2 then S ++ [e.2] else S

theorem sweep_eq (E : Edges) (S : List Nat) : sweep E S = E.foldl sweepStep S := rfl

/-- Facts about a partial sweep over the edge list `es ⊆ E` starting from `S`. -/
theorem foldl_sweepStep (E es : Edges) (hes : ∀ e ∈ es, e ∈ E) (S0 S : List Nat) :
    (∀ x ∈ S, x ∈ es.foldl sweepStep S) ∧
    ((∀ x ∈ S, ∃ a ∈ S0, Reach E a x) → ∀ x ∈ es.foldl sweepStep S, ∃ a ∈ S0, Reach E a x) ∧
    (S.Nodup → (es.foldl sweepStep S).Nodup) ∧
    (∀ V : List Nat, (∀ x ∈ S, x ∈ V) → (∀ e ∈ es, e.2 ∈ V) → ∀ x ∈ es.foldl sweepStep S, x ∈ V) ∧
    S.length ≤ (es.foldl sweepStep S).length ∧
    ((es.foldl sweepStep S = S ∧ ∀ e ∈ es, ¬ (e.1 ∈ S ∧ e.2 ∉ S)) ∨ S.length < (es.foldl sweepStep S).length) := by
  induction es generalizing S with
  | nil => exact ⟨fun x h => h, fun h => h, fun h => h, fun V h _ => h, Nat.le_refl _, Or.inl ⟨rfl, by simp⟩⟩
  | cons e rest ih =>
    have hrest : ∀ e ∈ rest, e ∈ E := fun e' h => hes e' (List.mem_cons_of_mem _ h)
    simp only [List.foldl_cons]
    by_cases hc : (S.contains e.1 && !S.contains e.2) = true
    · have hstep : sweepStep S e = S ++ [e.2] := by unfold sweepStep; rw [if_pos hc]
      simp only [Bool.and_eq_true, List.contains_iff_mem, Bool.not_eq_true', ← Bool.not_eq_true] at hc
      rw [hstep]
      obtain ⟨i1, i2, i3, i4, i5, _⟩ := ih hrest (S ++ [e.2])
      refine ⟨fun x hx => i1 x (List.mem_append_left _ hx), ?_, ?_, ?_, ?_, Or.inr ?_⟩
      · intro hS; apply i2
        intro x hx
        rcases List.mem_append.1 hx with hx | hx
        · exact hS x hx
        · simp only [List.mem_singleton] at hx; subst hx
          obtain ⟨a, ha, hr⟩ := hS e.1 hc.1
          exact ⟨a, ha, .step hr (hes e List.mem_cons_self)⟩
      · intro hn; apply i3
        rw [List.nodup_append]
        refine ⟨hn, by simp, ?_⟩
        intro a ha b hb; simp only [List.mem_singleton] at hb; subst hb
        intro hab; subst hab; exact hc.2 (by simpa using ha)
      · intro V hS hV; apply i4 V
        · intro x hx
          rcases List.mem_append.1 hx with hx | hx
          · exact hS x hx
          · simp only [List.mem_singleton] at hx; subst hx; exact hV e List.mem_cons_self
        · exact fun e' h => hV e' (List.mem_cons_of_mem _ h)
      · have : (S ++ [e.2]).length = S.length + 1 := by simp
        omega
      · have : (S ++ [e.2]).length = S.length + 1 := by simp
        omega
    · have hstep : sweepStep S e = S := by unfold sweepStep; rw [if_neg hc]
      rw [hstep]
      obtain ⟨i1, i2, i3, i4, i5, i6⟩ := ih hrest S
      refine ⟨i1, i2, i3, fun V hS hV => i4 V hS (fun e' h => hV e' (List.mem_cons_of_mem _ h)), i5, ?_⟩
      rcases i6 with ⟨h1, h2⟩ | h
      · refine Or.inl ⟨h1, ?_⟩
        intro e' he'
        rcases List.mem_cons.1 he' with rfl | he'
        · intro hh; apply hc
          simp only [Bool.and_eq_true, List.contains_iff_mem, Bool.not_eq_true', ← Bool.not_eq_true]
          exact ⟨hh.1, by simpa using hh.2⟩
        · exact h2 e' he'
      · exact Or.inr h

theorem closed_iff (E : Edges) (S : List Nat) : closed E S = true ↔ ∀ e ∈ E, e.1 ∈ S → e.2 ∈ S := by
  simp only [closed, List.all_eq_true, Bool.or_eq_true, Bool.not_eq_true', List.contains_iff_mem]
  constructor
  · intro h e he h1
    rcases h e he with h' | h'
    · simp [h1] at h'
    · exact h'
  · intro h e he
    by_cases h1 : e.1 ∈ S
    · exact Or.inr (h e he h1)
    · exact Or.inl (by simpa using h1)

theorem sweep_cases (E : Edges) (S : List Nat) :
    (sweep E S = S ∧ closed E S = true) ∨ S.length < (sweep E S).length := by
  rcases (foldl_sweepStep E E (fun _ h => h) S S).2.2.2.2.2 with ⟨h1, h2⟩ | h
  · refine Or.inl ⟨h1, (closed_iff E S).2 ?_⟩
    intro e he h1'
    by_contra h2'
    exact h2 e he ⟨h1', h2'⟩
  · exact Or.inr h

theorem sweep_of_closed (E : Edges) (S : List Nat) (h : closed E S = true) : sweep E S = S := by
  have hc := (closed_iff E S).1 h
  rw [sweep_eq]
  have : ∀ es : Edges, (∀ e ∈ es, e ∈ E) → es.foldl sweepStep S = S := by
    intro es hes
    induction es with
    | nil => rfl
    | cons e rest ih =>
      have : sweepStep S e = S := by
        unfold sweepStep
        by_cases h1 : e.1 ∈ S
        · have h2 := hc e (hes e List.mem_cons_self) h1
          simp [h1, h2]
        · simp [h1]
      rw [List.foldl_cons, this]
      exact ih (fun e' h => hes e' (List.mem_cons_of_mem _ h))
  exact this E (fun _ h => h)

theorem reachSet_of_closed (E : Edges) (n : Nat) (S : List Nat) (h : closed E S = true) :
    reachSet E n S = S := by
  induction n with
  | zero => rfl
  | succ n ih => rw [reachSet, sweep_of_closed E S h, ih]

theorem subset_reachSet (E : Edges) (n : Nat) (S : List Nat) : ∀ x ∈ S, x ∈ reachSet E n S := by
  induction n generalizing S with
  | zero => exact fun x h => h
  | succ n ih =>
    intro x hx
    exact ih (sweep E S) x ((foldl_sweepStep E E (fun _ h => h) S S).1 x hx)

/-- **Reachability, soundness** (no side condition): everything in the computed set is reachable
from a start node. -/
theorem reachSet_sound (E : Edges) (n : Nat) (S : List Nat) :
    ∀ x ∈ reachSet E n S, ∃ a ∈ S, Reach E a x := by
  have gen : ∀ (n : Nat) (S0 S : List Nat), (∀ x ∈ S, ∃ a ∈ S0, Reach E a x) →
      ∀ x ∈ reachSet E n S, ∃ a ∈ S0, Reach E a x := by
    intro n
    induction n with
    | zero => exact fun S0 S h => h
    | succ n ih =>
      intro S0 S h
      exact ih S0 (sweep E S) ((foldl_sweepStep E E (fun _ h => h) S0 S).2.1 h)
  exact gen n S S (fun x hx => ⟨x, hx, .refl x⟩)

/-- **Reachability, completeness under the stabilisation test**: a closed set that contains the
start nodes contains everything reachable from them. -/
theorem closed_complete (E : Edges) (T : List Nat) (hcl : closed E T = true) (a b : Nat)
    (ha : a ∈ T) (h : Reach E a b) : b ∈ T := by
  induction h with
  | refl => exact ha
  | step _ he ih => exact (closed_iff E T).1 hcl _ he ih

theorem reachSet_complete_of_closed (E : Edges) (n : Nat) (S : List Nat)
    (hcl : closed E (reachSet E n S) = true) (a b : Nat) (ha : a ∈ S) (h : Reach E a b) :
    b ∈ reachSet E n S :=
  closed_complete E _ hcl a b (subset_reachSet E n S a ha) h

theorem reachSet_invariants (E : Edges) (V : List Nat) (hV : ∀ e ∈ E, e.2 ∈ V) (n : Nat) (S : List Nat)
    (hn : S.Nodup) (hS : ∀ x ∈ S, x ∈ V) :
    (reachSet E n S).Nodup ∧ (∀ x ∈ reachSet E n S, x ∈ V) ∧
    (closed E (reachSet E n S) = true ∨ S.length + n ≤ (reachSet E n S).length) := by
  induction n generalizing S with
  | zero => exact ⟨hn, hS, Or.inr (Nat.le_refl _)⟩
  | succ n ih =>
    have f := foldl_sweepStep E E (fun _ h => h) S S
    have hn' : (sweep E S).Nodup := f.2.2.1 hn
    have hS' : ∀ x ∈ sweep E S, x ∈ V := f.2.2.2.1 V hS hV
    obtain ⟨j1, j2, j3⟩ := ih (sweep E S) hn' hS'
    refine ⟨j1, j2, ?_⟩
    rcases sweep_cases E S with ⟨h1, h2⟩ | h
    · left
      show closed E (reachSet E n (sweep E S)) = true
      rw [h1, reachSet_of_closed E n S h2]; exact h2
    · rcases j3 with j3 | j3
      · exact Or.inl j3
      · right
        show S.length + (n + 1) ≤ (reachSet E n (sweep E S)).length
        omega

/-- **The fuel bound**: if every edge ends in `V`, then `V.length` sweeps from a start node in `V`
always reach a stabilised set. -/
theorem reachSet_closed_of_fuel (E : Edges) (V : List Nat) (hV : ∀ e ∈ E, e.2 ∈ V) (u : Nat) (hu : u ∈ V) :
    closed E (reachSet E V.length [u]) = true := by
  obtain ⟨h1, h2, h3⟩ := reachSet_invariants E V hV V.length [u] (by simp) (by simpa using hu)
  rcases h3 with h3 | h3
  · exact h3
  · have hle : (reachSet E V.length [u]).length ≤ V.length := (h1.subperm h2).length_le
    simp at h3; omega

theorem reachable_iff (E : Edges) (V : List Nat) (hV : ∀ e ∈ E, e.2 ∈ V) (u v : Nat) (hu : u ∈ V) :
    reachable E V.length u v = true ↔ Reach E u v := by
  simp only [reachable, List.contains_iff_mem]
  constructor
  · intro h
    obtain ⟨a, ha, hr⟩ := reachSet_sound E _ _ v h
    simp only [List.mem_singleton] at ha; subst ha; exact hr
  · intro h
    exact reachSet_complete_of_closed E _ _ (reachSet_closed_of_fuel E V hV u hu) u v (by simp) h

theorem mem_restrict (E : Edges) (C : List Nat) (e : Nat × Nat) :
    e ∈ restrict E C ↔ e ∈ E ∧ e.1 ∈ C ∧ e.2 ∈ C := by
  simp [restrict, List.mem_filter]

/-- **Strong connectivity of the sub-graph induced on `C`** (as `nx.is_strongly_connected` of
`G.subgraph(C)` decides it): every member reaches every member along edges inside `C`. -/
theorem stronglyConnected_iff (E : Edges) (C : List Nat) :
    stronglyConnected E C = true ↔ ∀ u ∈ C, ∀ v ∈ C, Reach (restrict E C) u v := by
  simp only [stronglyConnected, List.all_eq_true]
  have hV : ∀ e ∈ restrict E C, e.2 ∈ C := fun e he => ((mem_restrict E C e).1 he).2.2
  constructor
  · intro h u hu v hv; exact (reachable_iff _ C hV u v hu).1 (h u hu v hv)
  · intro h u hu v hv; exact (reachable_iff _ C hV u v hu).2 (h u hu v hv)

/-- The stabilisation certificate is always true (so the model never relies on an unstable set). -/
theorem stronglyConnectedStable_true (E : Edges) (C : List Nat) : stronglyConnectedStable E C = true := by
  simp only [stronglyConnectedStable, List.all_eq_true]
  intro u hu
  exact reachSet_closed_of_fuel _ C (fun e he => ((mem_restrict E C e).1 he).2.2) u hu

end SynKit.NetGraphAlg

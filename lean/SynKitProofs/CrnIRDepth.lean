import SynKitModel.CrnIR
import SynKitProofs.CrnIRWf
import SynKitProofs.CrnIRSearch
import SynKitProofs.NautyIRDepth
/-!
# The CRN individualisation–refinement search with a depth cap (`max_depth`) — C18

`crnSearchCapped` (model of `CRNCanonicalizer._search(…, depth, max_depth=d, …, timeout_sec=None)`)
against the uncapped `crnSearch`:

* `crnSearchCapped_flag_false`: a run that returns `False` (no early stop) has returned what the uncapped
  search returns — from every state, every fuel, no hypothesis on the graph.
* `crnSearchCapped_eq_takeWhile`: there is no pruning, so the capped search is *exactly* the fold of the
  leaf case over the leaves that come before the first leaf deeper than `d` in visiting order, and the
  flag says whether there is such a leaf (needs the fuel to be adequate: every node of the tree has a
  leaf below it).  Everything else at the root follows from this and from what the fold returns
  (`crnFoldLeaves_none_cons`).
-/
set_option linter.unusedSimpArgs false
set_option linter.unusedVariables false
namespace SynKit.CrnCanon
open SynKit
open SynKit.Canon (sortNat irIsDiscrete irTargetCell irIndividualise IRPartOK mem_sortNat sortNat_length
  irTargetCell_some irIndividualise_ok LGraph_ids_length foldl_flag_sticky foldl_flag_false_eq)

/-! ## Depths of leaves -/

/-- every leaf below a node of the search tree extends that node's prefix -/
theorem crnLeaves_prefix (sel : SelD) (G : LGraph) (fuel : Nat) (P : List (List Nat)) (pfx : List Nat) :
    ∀ l ∈ crnLeaves sel G fuel P pfx, pfx <+: l.1 := by
  induction fuel generalizing P pfx with
  | zero => intro l hl; simp [crnLeaves] at hl
  | succ fuel ih =>
    intro l hl
    simp only [crnLeaves] at hl
    split at hl
    · simp only [List.mem_singleton] at hl
      subst hl
      exact List.prefix_refl _
    · split at hl
      · simp at hl
      · rw [List.mem_flatMap] at hl
        obtain ⟨v, _, hv⟩ := hl
        exact (List.prefix_append pfx [v]).trans (ih _ _ l hv)

/-- every call consumes one unit of the model's fuel: a leaf below a node lies less than `fuel` levels
below it -/
theorem crnLeaves_depth_lt (sel : SelD) (G : LGraph) (fuel : Nat) (P : List (List Nat)) (pfx : List Nat) :
    ∀ l ∈ crnLeaves sel G fuel P pfx, l.1.length + 1 ≤ pfx.length + fuel := by
  induction fuel generalizing P pfx with
  | zero => intro l hl; simp [crnLeaves] at hl
  | succ fuel ih =>
    intro l hl
    simp only [crnLeaves] at hl
    split at hl
    · simp only [List.mem_singleton] at hl
      subst hl
      simp only
      omega
    · split at hl
      · simp at hl
      · rw [List.mem_flatMap] at hl
        obtain ⟨v, _, hv⟩ := hl
        have := ih _ _ l hv
        simp only [List.length_append, List.length_cons, List.length_nil] at this
        omega

theorem crnMaxDepth_foldl_le (ls : List (List Nat × List Nat)) (m d : Nat) :
    ls.foldl (fun m l => Nat.max m (crnLeafDepth l)) m ≤ d ↔ m ≤ d ∧ ∀ l ∈ ls, l.1.length ≤ d := by
  induction ls generalizing m with
  | nil => simp
  | cons a ls ih =>
    rw [List.foldl_cons, ih]
    simp only [List.mem_cons, forall_eq_or_imp, crnLeafDepth, Nat.max_def]
    constructor
    · rintro ⟨h1, h2⟩
      split at h1 <;> exact ⟨by omega, by omega, h2⟩
    · rintro ⟨h1, h2, h3⟩
      split <;> exact ⟨by omega, h3⟩

/-- `d` is at least the deepest leaf iff every leaf lies at depth `≤ d` -/
theorem crnMaxDepth_le_iff (ls : List (List Nat × List Nat)) (d : Nat) :
    crnMaxDepth ls ≤ d ↔ ∀ l ∈ ls, l.1.length ≤ d := by
  unfold crnMaxDepth
  rw [crnMaxDepth_foldl_le]
  simp

theorem crnDepth_le_iff (sel : SelD) (G : LGraph) (d : Nat) :
    crnDepth sel G ≤ d ↔ ∀ l ∈ crnRootLeaves sel G, l.1.length ≤ d :=
  crnMaxDepth_le_iff _ d

/-- the deepest leaf lies at depth at most the number of nodes -/
theorem crnDepth_le_nodes (sel : SelD) (G : LGraph) : crnDepth sel G ≤ G.nodes.length := by
  rw [crnDepth_le_iff]
  intro l hl
  have := crnLeaves_depth_lt sel G _ _ _ l hl
  simp only [List.length_nil] at this
  omega

/-! ## One node -/

theorem crnSearchCapped_succ (lt) (sel : SelD) (G : LGraph) (d fuel depth : Nat) (P : List (List Nat))
    (pfx : List Nat) (st : Option CrnBest) :
    crnSearchCapped lt sel G d (fuel + 1) depth P pfx st =
      if depth > d then (st, true)
      else if irIsDiscrete (crnRefine sel G P) then
        (crnUpdate lt st (crnBuildLabel sel G (crnRefine sel G P).flatten) (crnRefine sel G P).flatten, false)
      else
        match irTargetCell (crnRefine sel G P) with
        | none => (st, false)
        | some (pre, c, post) =>
          (crnChildren c).foldl (fun acc v =>
            if acc.2 then acc
            else crnSearchCapped lt sel G d fuel (depth + 1) (irIndividualise pre c post v) (pfx ++ [v]) acc.1)
            (st, false) := rfl

theorem crnSearch_succ (lt) (sel : SelD) (G : LGraph) (fuel : Nat) (P : List (List Nat))
    (pfx : List Nat) (st : Option CrnBest) :
    crnSearch lt sel G (fuel + 1) P pfx st =
      if irIsDiscrete (crnRefine sel G P) then
        crnUpdate lt st (crnBuildLabel sel G (crnRefine sel G P).flatten) (crnRefine sel G P).flatten
      else
        match irTargetCell (crnRefine sel G P) with
        | none => st
        | some (pre, c, post) =>
          (crnChildren c).foldl (fun st v =>
            crnSearch lt sel G fuel (irIndividualise pre c post v) (pfx ++ [v]) st) st := rfl

/-! ## (b) an answer without the flag is the full answer -/

/-- **a run that ends without the early-stop flag returns what the uncapped search returns** -/
theorem crnSearchCapped_flag_false (lt) (sel : SelD) (G : LGraph) (d : Nat) :
    ∀ (fuel depth : Nat) (P : List (List Nat)) (pfx : List Nat) (st r : Option CrnBest),
      crnSearchCapped lt sel G d fuel depth P pfx st = (r, false) →
        r = crnSearch lt sel G fuel P pfx st := by
  intro fuel
  induction fuel with
  | zero =>
    intro depth P pfx st r h
    simp only [crnSearchCapped, Prod.mk.injEq] at h
    simp only [crnSearch]
    exact h.1.symm
  | succ fuel ih =>
    intro depth P pfx st r h
    rw [crnSearchCapped_succ] at h
    rw [crnSearch_succ]
    split at h
    · simp at h
    · split at h
      · rename_i hd
        rw [if_pos hd]
        simp only [Prod.mk.injEq] at h
        exact h.1.symm
      · rename_i hd
        rw [if_neg hd]
        split at h
        · simp only [Prod.mk.injEq] at h
          exact h.1.symm
        · rename_i pre c post ht
          refine foldl_flag_false_eq _ _ ?_ (crnChildren c) ?_ st r h
          · intro s v
            simp
          · intro s v r' _ hr'
            simp only [Bool.false_eq_true, if_false] at hr'
            exact ih _ _ _ _ _ hr'

/-! ## The capped search is the fold over the leaves before the first one deeper than the cap -/

/-- the leaves of a list, in visiting order, before the first one that lies deeper than `d` -/
def crnVisited (d : Nat) (ls : List (List Nat × List Nat)) : List (List Nat × List Nat) :=
  ls.takeWhile fun l => decide (l.1.length ≤ d)

/-- some leaf of the list lies deeper than `d` -/
def crnAnyDeeper (d : Nat) (ls : List (List Nat × List Nat)) : Bool := ls.any fun l => decide (d < l.1.length)

theorem crnVisited_append_of_deeper (d : Nat) (a b : List (List Nat × List Nat)) (h : crnAnyDeeper d a = true) :
    crnVisited d (a ++ b) = crnVisited d a := by
  induction a with
  | nil => simp [crnAnyDeeper] at h
  | cons x a ih =>
    simp only [crnVisited, List.cons_append, List.takeWhile_cons]
    by_cases hx : x.1.length ≤ d
    · simp only [hx, decide_true, if_true, List.cons.injEq, true_and]
      apply ih
      simp only [crnAnyDeeper, List.any_cons, Bool.or_eq_true, decide_eq_true_eq] at h ⊢
      rcases h with h | h
      · omega
      · exact h
    · simp [hx]

theorem crnVisited_append_of_none_deeper (d : Nat) (a b : List (List Nat × List Nat)) (h : crnAnyDeeper d a = false) :
    crnVisited d (a ++ b) = a ++ crnVisited d b := by
  unfold crnVisited
  apply List.takeWhile_append_of_pos
  intro l hl
  simp only [decide_eq_true_eq]
  apply Classical.byContradiction
  intro hc
  have : crnAnyDeeper d a = true := by
    simp only [crnAnyDeeper, List.any_eq_true, decide_eq_true_eq]
    exact ⟨l, hl, by omega⟩
  rw [h] at this
  exact absurd this (by simp)

theorem crnVisited_self_of_none_deeper (d : Nat) (a : List (List Nat × List Nat)) (h : crnAnyDeeper d a = false) :
    crnVisited d a = a := by
  have := crnVisited_append_of_none_deeper d a [] h
  simpa [crnVisited] using this

theorem crnAnyDeeper_append (d : Nat) (a b : List (List Nat × List Nat)) :
    crnAnyDeeper d (a ++ b) = (crnAnyDeeper d a || crnAnyDeeper d b) := by
  simp [crnAnyDeeper, List.any_append]

theorem crnAnyDeeper_false_iff (d : Nat) (a : List (List Nat × List Nat)) :
    crnAnyDeeper d a = false ↔ ∀ l ∈ a, l.1.length ≤ d := by
  simp only [crnAnyDeeper, List.any_eq_false, decide_eq_true_eq]
  constructor
  · intro h l hl; have := h l hl; omega
  · intro h l hl; have := h l hl; omega

/-- the loop over the members of the target cell, given what each recursive call does -/
theorem foldl_capped_eq_visited {β : Type} (lt) (sel : SelD) (G : LGraph) (d : Nat)
    (child : β → Option CrnBest → Option CrnBest × Bool) (g : β → List (List Nat × List Nat)) :
    ∀ (cs : List β), (∀ v ∈ cs, ∀ st, child v st = (crnFoldLeaves lt sel G (crnVisited d (g v)) st, crnAnyDeeper d (g v))) →
      ∀ st, cs.foldl (fun acc v => if acc.2 then acc else child v acc.1) (st, false) =
        (crnFoldLeaves lt sel G (crnVisited d (cs.flatMap g)) st, crnAnyDeeper d (cs.flatMap g)) := by
  intro cs
  induction cs with
  | nil => intro _ st; rfl
  | cons v cs ih =>
    intro h st
    rw [List.foldl_cons, List.flatMap_cons]
    simp only [Bool.false_eq_true, if_false]
    rw [h v List.mem_cons_self st, crnAnyDeeper_append]
    cases hany : crnAnyDeeper d (g v) with
    | true =>
      rw [foldl_flag_sticky _ (fun s w => by simp), crnVisited_append_of_deeper d _ _ hany]
      rfl
    | false =>
      rw [ih (fun w hw => h w (List.mem_cons_of_mem _ hw)), crnVisited_append_of_none_deeper d _ _ hany,
        crnFoldLeaves_append, crnVisited_self_of_none_deeper d _ hany]
      rfl

/-- **the capped search = the fold of the leaf case over the leaves visited before the first leaf deeper
than `d`; the flag = "some leaf lies deeper than `d`"** -/
theorem crnSearchCapped_eq_visited (lt) (sel : SelD) (G : LGraph) (d : Nat) {ids : List Nat} (hn : ids.Nodup) :
    ∀ (fuel depth : Nat) (P : List (List Nat)) (pfx : List Nat) (st : Option CrnBest),
      IRPartOK ids P → ids.length < fuel + P.length → depth = pfx.length →
        crnSearchCapped lt sel G d fuel depth P pfx st =
          (crnFoldLeaves lt sel G (crnVisited d (crnLeaves sel G fuel P pfx)) st,
            crnAnyDeeper d (crnLeaves sel G fuel P pfx)) := by
  intro fuel
  induction fuel with
  | zero =>
    intro depth P pfx st hok hf _
    have := hok.length_le
    omega
  | succ fuel ih =>
    intro depth P pfx st hok hf hdep
    have hr := crnRefine_ok sel G ids P hok
    have hlen := crnRefine_length_le sel G P
    have hne := crnLeaves_ne_nil sel G hn (fuel + 1) P pfx hok hf
    have hpre := crnLeaves_prefix sel G (fuel + 1) P pfx
    rw [crnSearchCapped_succ]
    split
    · -- entered beyond the cap: every leaf below lies deeper, and there is one
      rename_i hdd
      cases hL : crnLeaves sel G (fuel + 1) P pfx with
      | nil => exact absurd hL hne
      | cons l0 rest =>
        have h0 : pfx.length ≤ l0.1.length := (hpre l0 (by rw [hL]; exact List.mem_cons_self)).length_le
        have hx : ¬ l0.1.length ≤ d := by omega
        have e1 : crnVisited d (l0 :: rest) = [] := by simp [crnVisited, List.takeWhile_cons, hx]
        have e2 : crnAnyDeeper d (l0 :: rest) = true := by
          simp only [crnAnyDeeper, List.any_cons, Bool.or_eq_true, decide_eq_true_eq]
          exact Or.inl (by omega)
        rw [e1, e2]
        rfl
    · rename_i hdd
      rw [crnLeaves_succ]
      split
      · have hx : pfx.length ≤ d := by omega
        simp [crnVisited, crnAnyDeeper, List.takeWhile_cons, hx, crnFoldLeaves, crnLeafLabel]
      · rename_i hd
        cases ht : irTargetCell (crnRefine sel G P) with
        | none => rfl
        | some t =>
          obtain ⟨pre, c, post⟩ := t
          simp only
          obtain ⟨hP, hc⟩ := irTargetCell_some ht
          rw [hP] at hr
          refine foldl_capped_eq_visited lt sel G d
            (fun v st => crnSearchCapped lt sel G d fuel (depth + 1) (irIndividualise pre c post v) (pfx ++ [v]) st)
            (fun v => crnLeaves sel G fuel (irIndividualise pre c post v) (pfx ++ [v])) (crnChildren c) ?_ st
          intro v hv st'
          have hv' : v ∈ c := by
            unfold crnChildren at hv
            exact (mem_sortNat _ _).1 hv
          obtain ⟨hok', hlen'⟩ := irIndividualise_ok hn hr hv' hc
          exact ih _ _ _ _ hok' (by rw [hlen', ← hP]; omega) (by simp [hdep])

/-! ## At the root: `_canon(max_depth=d)` -/

/-- the capped search at the root, exactly -/
theorem crnIrCappedWith_eq (lt) (sel : SelD) (G : LGraph) (hn : G.ids.Nodup) (d : Nat) :
    crnIrCappedWith lt sel G d =
      (crnFoldLeaves lt sel G (crnVisited d (crnRootLeaves sel G)) none, crnAnyDeeper d (crnRootLeaves sel G)) := by
  unfold crnIrCappedWith crnRootLeaves
  have hf : G.ids.length < G.nodes.length + 1 + (crnInitPart sel G).length := by
    have := LGraph_ids_length G
    omega
  exact crnSearchCapped_eq_visited lt sel G d hn (G.nodes.length + 1) 0 (crnInitPart sel G) [] none
    (crnInitPart_ok sel G) hf rfl

/-- (b) at the root -/
theorem crnIrCappedWith_flag_sound (lt) (sel : SelD) (G : LGraph) (d : Nat) (r : Option CrnBest)
    (h : crnIrCappedWith lt sel G d = (r, false)) : r = crnIrWith lt sel G :=
  crnSearchCapped_flag_false lt sel G d _ _ _ _ _ _ h

/-- (a) at the root -/
theorem crnIrCappedWith_full (lt) (sel : SelD) (G : LGraph) (hn : G.ids.Nodup) (d : Nat)
    (h : crnDepth sel G ≤ d) : crnIrCappedWith lt sel G d = (crnIrWith lt sel G, false) := by
  have hnone : crnAnyDeeper d (crnRootLeaves sel G) = false :=
    (crnAnyDeeper_false_iff d _).2 ((crnDepth_le_iff sel G d).1 h)
  rw [crnIrCappedWith_eq lt sel G hn d, hnone, crnVisited_self_of_none_deeper d _ hnone, crnIrWith_eq_fold]

/-- the visited leaves are leaves of depth `≤ d` -/
theorem mem_crnVisited {d : Nat} {ls : List (List Nat × List Nat)} {l : List Nat × List Nat}
    (h : l ∈ crnVisited d ls) : l ∈ ls ∧ l.1.length ≤ d := by
  induction ls with
  | nil => simp [crnVisited] at h
  | cons x ls ih =>
    simp only [crnVisited, List.takeWhile_cons] at h
    by_cases hx : x.1.length ≤ d
    · simp only [hx, decide_true, if_true, List.mem_cons] at h
      rcases h with rfl | h
      · exact ⟨List.mem_cons_self, hx⟩
      · exact ⟨List.mem_cons_of_mem _ (ih h).1, (ih h).2⟩
    · simp [hx] at h

/-- the flag is up iff some leaf lies deeper than `d`; no visited leaf iff the first leaf lies deeper -/
theorem crnVisited_eq_nil_iff (d : Nat) (l : List Nat × List Nat) (rest : List (List Nat × List Nat)) :
    crnVisited d (l :: rest) = [] ↔ d < l.1.length := by
  simp only [crnVisited, List.takeWhile_cons]
  by_cases hx : l.1.length ≤ d
  · simp [hx]
  · simp [hx]; omega

/-- what `_canon(max_depth=d)` ends with, for a strict total label order: nothing (and the flag) when the first
leaf lies deeper than `d`; otherwise the first least-label leaf AMONG THE VISITED ones, with the permutations of
all visited leaves carrying that label -/
theorem crnIrCappedWith_spec (lt) (hlt : Canon.StrictTotal lt) (sel : SelD) (G : LGraph) (hn : G.ids.Nodup) (d : Nat)
    (l : List Nat × List Nat) (rest : List (List Nat × List Nat)) (hL : crnRootLeaves sel G = l :: rest) :
    (d < l.1.length → crnIrCappedWith lt sel G d = (none, true)) ∧
    (l.1.length ≤ d → ∃ m ∈ crnVisited d (crnRootLeaves sel G),
      crnIrCappedWith lt sel G d =
        (some ⟨crnLeafLabel sel G m, m.2, crnWithLabel sel G (crnLeafLabel sel G m) (crnVisited d (crnRootLeaves sel G))⟩,
          crnAnyDeeper d (crnRootLeaves sel G)) ∧
      ∀ l' ∈ crnVisited d (crnRootLeaves sel G), lt (crnLeafLabel sel G l') (crnLeafLabel sel G m) = false) := by
  rw [crnIrCappedWith_eq lt sel G hn d, hL]
  constructor
  · intro hd
    rw [(crnVisited_eq_nil_iff d l rest).2 hd]
    have : crnAnyDeeper d (l :: rest) = true := by
      simp only [crnAnyDeeper, List.any_cons, Bool.or_eq_true, decide_eq_true_eq]
      exact Or.inl hd
    rw [this]
    rfl
  · intro hd
    have hv : crnVisited d (l :: rest) = l :: crnVisited d rest := by
      simp [crnVisited, List.takeWhile_cons, hd]
    rw [hv, crnFoldLeaves_none_cons lt hlt]
    exact ⟨crnMinLeaf lt sel G l (crnVisited d rest), Canon.minBy_mem _ l _, rfl, crnMinLeaf_least lt hlt sel G l _⟩

end SynKit.CrnCanon

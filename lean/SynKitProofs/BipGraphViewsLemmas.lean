import SynKitModel.BipGraphViews
import SynKitProofs.BipGraphLemmas
/-!
# The graph entry path of C19 / C20 agrees with the network-level models

Helper lemmas and the main theorems about `SynKitModel/BipGraphViews.lean`; the property-level
statements are restated in `Props/C19.lean` and `Props/C20.lean`.
-/
open SynKit SynKit.Store SynKit.Stoich SynKit.NetGraphAlg

namespace SynKit.BipGraph

/-! ## 1. Sums over incident arcs -/

theorem isum_aux {α : Type} (f : α → Int) (l : List α) (acc : Int) :
    l.foldl (fun acc a => acc + f a) acc = acc + l.foldl (fun acc a => acc + f a) 0 := by
  induction l generalizing acc with
  | nil => simp
  | cons a rest ih =>
    simp only [List.foldl_cons]
    rw [ih, ih (0 + f a)]; omega

theorem isum_cons {α : Type} (f : α → Int) (a : α) (l : List α) :
    (a :: l).foldl (fun acc a => acc + f a) 0 = f a + l.foldl (fun acc a => acc + f a) 0 := by
  rw [List.foldl_cons, isum_aux]; omega

theorem isum_append {α : Type} (f : α → Int) (l₁ l₂ : List α) :
    (l₁ ++ l₂).foldl (fun acc a => acc + f a) 0 =
      l₁.foldl (fun acc a => acc + f a) 0 + l₂.foldl (fun acc a => acc + f a) 0 := by
  rw [List.foldl_append, isum_aux]

theorem isum_filter {α : Type} (f : α → Int) (p : α → Bool) (l : List α) :
    (l.filter p).foldl (fun acc a => acc + f a) 0 =
      l.foldl (fun acc a => acc + (if p a then f a else 0)) 0 := by
  induction l with
  | nil => rfl
  | cons a l ih =>
    rw [isum_cons]
    cases hp : p a with
    | true => rw [List.filter_cons_of_pos hp, isum_cons, ih]; simp
    | false => rw [List.filter_cons_of_neg (by simp [hp]), ih]; simp

theorem isum_add {α : Type} (f g : α → Int) (l : List α) :
    l.foldl (fun acc a => acc + f a) 0 + l.foldl (fun acc a => acc + g a) 0 =
      l.foldl (fun acc a => acc + (f a + g a)) 0 := by
  induction l with
  | nil => rfl
  | cons a l ih => rw [isum_cons, isum_cons, isum_cons, ← ih]; omega

theorem isum_congr {α : Type} (f g : α → Int) (l : List α) (h : ∀ a ∈ l, f a = g a) :
    l.foldl (fun acc a => acc + f a) 0 = l.foldl (fun acc a => acc + g a) 0 := by
  induction l with
  | nil => rfl
  | cons a l ih =>
    rw [isum_cons, isum_cons, h a List.mem_cons_self, ih (fun b hb => h b (List.mem_cons_of_mem _ hb))]

/-- One arc, seen from reaction node `r`: what `in_edges(r)` and `out_edges(r)` together make of it
is what `build_S_minus_plus` makes of it (`s ≠ r`: a species node is not a reaction node). -/
theorem incCoeff_directed (role s r : String) (hne : s ≠ r) (a : BArc) :
    (if a.dst == r then incCoeff role s r a else 0) + (if a.src == r then incCoeff role s r a else 0) =
      arcCoeff role s r a := by
  unfold incCoeff otherEnd arcCoeff arcJoins
  cases hr : a.role == some role
  · simp
  · simp only [Bool.true_and, beq_iff_eq, Bool.or_eq_true, Bool.and_eq_true]
    split_ifs <;> first | rfl | omega | (exfalso; simp_all)

theorem incCoeff_undirected (role s r : String) (hne : s ≠ r) (a : BArc) :
    (if (a.src == r || a.dst == r) then incCoeff role s r a else 0) = arcCoeff role s r a := by
  unfold incCoeff otherEnd arcCoeff arcJoins
  cases hr : a.role == some role
  · simp
  · simp only [Bool.true_and, beq_iff_eq, Bool.or_eq_true, Bool.and_eq_true]
    split_ifs <;> first | rfl | omega | (exfalso; simp_all)

/-- The incident arcs of reaction node `r`, whichever way the graph is read, add up for species
node `s` to the entry `build_S_minus_plus` accumulates over all arcs. -/
theorem isum_incident (directed : Bool) (arcs : List BArc) (role s r : String) (hne : s ≠ r) :
    (incident directed arcs r).foldl (fun acc a => acc + incCoeff role s r a) 0 = arcSum role s r arcs := by
  unfold incident arcSum
  cases directed with
  | true =>
    simp only [if_true]
    rw [isum_append, isum_filter, isum_filter, isum_add]
    exact isum_congr _ _ _ (fun a _ => incCoeff_directed role s r hne a)
  | false =>
    simp only [Bool.false_eq_true, if_false]
    rw [isum_filter]
    exact isum_congr _ _ _ (fun a _ => incCoeff_undirected role s r hne a)

theorem sideVec_eq_arcSum (directed : Bool) (arcs : List BArc) (rows : List BNode) (role r : String)
    (h : ∀ s ∈ rows, s.id ≠ r) :
    sideVec directed arcs rows role r = rows.map fun s => arcSum role s.id r arcs := by
  unfold sideVec
  exact List.map_congr_left (fun s hs => isum_incident directed arcs role s.id r (h s hs))

/-! ## 2. The columns `_complex_vectors` reads are the sides of the described network -/

/-- The vector of one role at reaction node `r`, over the stored edges: the canonical form every
reading is brought to. -/
def colVec (g : BipGraph) (role : String) (r : BNode) : List Int :=
  (speciesRows g).map fun s => arcSum role s.id r.id (effArcs g)

theorem rows_ne (g : BipGraph) (hd : IdsDistinct g) (r : BNode) (hr : r ∈ reactionNodes g) :
    ∀ s ∈ speciesRows g, s.id ≠ r.id :=
  fun s hs => (typing_facts g hd s r ((mem_speciesRows g s).1 hs) hr).2.2.2.2

/-- On `_as_bipartite(G)` (what `compute_summary` hands over). -/
theorem sideVec_bip (g : BipGraph) (hd : IdsDistinct g) (r : BNode) (hr : r ∈ reactionNodes g)
    (role : String) (hrole : role = "reactant" ∨ role = "product") :
    sideVec true (asBipartite g) (speciesRows g) role r.id = colVec g role r := by
  rw [sideVec_eq_arcSum _ _ _ _ _ (rows_ne g hd r hr)]
  unfold colVec
  exact List.map_congr_left
    (fun s hs => arcSum_asBipartite g hd s r ((mem_speciesRows g s).1 hs) hr role hrole)

/-- On the graph as given (directed: `in_edges + out_edges`; undirected: `G.edges(r)`). -/
theorem sideVec_raw (g : BipGraph) (hd : IdsDistinct g) (r : BNode) (hr : r ∈ reactionNodes g)
    (role : String) :
    sideVec g.directed (effArcs g) (speciesRows g) role r.id = colVec g role r :=
  sideVec_eq_arcSum _ _ _ _ _ (rows_ne g hd r hr)

theorem analysisNet_species (g : BipGraph) : (analysisNet g).species = rowLabels g := by
  unfold analysisNet viewNet netOfGraph rowLabels speciesRows
  simp only
  rw [sortBy_map]
  rfl

theorem analysisNet_reactions (g : BipGraph) :
    (analysisNet g).reactions = (reactionNodes g).map fun r => rxnOfEdge (edgeOfNode g r) := by
  simp [analysisNet, viewNet, netOfGraph, List.map_map, Function.comp_def]

theorem sumOf_eq_sumCoeff (d : Side) (k : String) : ((Dict.sumOf d k : Nat) : Int) = sumCoeff d k := by
  induction d with
  | nil => simp [Dict.sumOf, sumCoeff]
  | cons kv rest ih =>
    rw [sumCoeff_cons, ← ih]
    simp only [Dict.sumOf]
    split <;> simp

theorem colVec_eq_lift (g : BipGraph) (wf : WF g) (role : String) (r : BNode) :
    colVec g role r = liftComplex (Deficiency.vecOf (analysisNet g) (sideOf g role r)) := by
  unfold colVec liftComplex Deficiency.vecOf
  rw [analysisNet_species, rowLabels, List.map_map, List.map_map]
  apply List.map_congr_left
  intro s hs
  simp only [Function.comp]
  rw [← sumCoeff_sideOf g wf.speciesLabels wf.coeffs role r s ((mem_speciesRows g s).1 hs)]
  exact (sumOf_eq_sumCoeff _ _).symm

/-! ## 3. The reaction loop of `_complex_vectors` -/

theorem liftComplex_inj {a b : Deficiency.Complex} (h : liftComplex a = liftComplex b) : a = b := by
  unfold liftComplex at h
  exact List.map_injective_iff.2 (fun x y hxy => Int.ofNat.inj hxy) h

theorem contains_lift (cs : List Deficiency.Complex) (v : Deficiency.Complex) :
    (cs.map liftComplex).contains (liftComplex v) = cs.contains v := by
  induction cs with
  | nil => rfl
  | cons c cs ih =>
    simp only [List.map_cons, List.contains_cons, ih]
    congr 1
    by_cases h : v = c
    · subst h; simp
    · have : liftComplex v ≠ liftComplex c := fun hh => h (liftComplex_inj hh)
      simp [h, this]

theorem idxOf_lift (cs : List Deficiency.Complex) (v : Deficiency.Complex) :
    (cs.map liftComplex).idxOf (liftComplex v) = cs.idxOf v := by
  induction cs with
  | nil => rfl
  | cons c cs ih =>
    simp only [List.map_cons, List.idxOf_cons, ih]
    by_cases h : c = v
    · subst h; simp
    · have : liftComplex c ≠ liftComplex v := fun hh => h (liftComplex_inj hh)
      rw [beq_false_of_ne this, beq_false_of_ne h]

theorem addIComplex_lift (cs : List Deficiency.Complex) (v : Deficiency.Complex) :
    addIComplex (cs.map liftComplex) (liftComplex v) =
      ((Deficiency.addComplex cs v).1.map liftComplex, (Deficiency.addComplex cs v).2) := by
  unfold addIComplex Deficiency.addComplex
  rw [contains_lift, idxOf_lift]
  split <;> simp

theorem complexStepOn_lift (directed : Bool) (arcs : List BArc) (rows : List BNode) (N : SynKit.Net)
    (st : List Deficiency.Complex × Edges) (r : BNode) (rx : Rxn)
    (h1 : sideVec directed arcs rows "reactant" r.id = liftComplex (Deficiency.vecOf N rx.reactants))
    (h2 : sideVec directed arcs rows "product" r.id = liftComplex (Deficiency.vecOf N rx.products)) :
    complexStepOn directed arcs rows (liftVectors st) r = liftVectors (Deficiency.complexStep N st rx) := by
  unfold complexStepOn Deficiency.complexStep liftVectors
  simp only [h1, h2, addIComplex_lift]


theorem foldl_complexStepOn_lift (directed : Bool) (arcs : List BArc) (rows : List BNode) (N : SynKit.Net)
    (rxOf : BNode → Rxn) (l : List BNode)
    (h : ∀ r ∈ l,
      sideVec directed arcs rows "reactant" r.id = liftComplex (Deficiency.vecOf N (rxOf r).reactants) ∧
      sideVec directed arcs rows "product" r.id = liftComplex (Deficiency.vecOf N (rxOf r).products))
    (st : List Deficiency.Complex × Edges) :
    l.foldl (complexStepOn directed arcs rows) (liftVectors st) =
      liftVectors ((l.map rxOf).foldl (Deficiency.complexStep N) st) := by
  induction l generalizing st with
  | nil => rfl
  | cons r l ih =>
    simp only [List.foldl_cons, List.map_cons]
    obtain ⟨h1, h2⟩ := h r List.mem_cons_self
    rw [complexStepOn_lift directed arcs rows N st r (rxOf r) h1 h2]
    exact ih (fun r' hr' => h r' (List.mem_cons_of_mem _ hr')) _

/-- Any reading whose per-reaction vectors are the canonical columns yields the complexes and the
complex graph of the described network. -/
theorem complexVectorsOn_eq (g : BipGraph) (wf : WF g) (directed : Bool) (arcs : List BArc)
    (h : ∀ r ∈ reactionNodes g, ∀ role, role = "reactant" ∨ role = "product" →
      sideVec directed arcs (speciesRows g) role r.id = colVec g role r) :
    complexVectorsOn g directed arcs = liftVectors (Deficiency.complexVectors (analysisNet g)) := by
  unfold complexVectorsOn Deficiency.complexVectors
  rw [analysisNet_reactions]
  exact foldl_complexStepOn_lift directed arcs (speciesRows g) (analysisNet g)
    (fun r => rxnOfEdge (edgeOfNode g r)) (reactionNodes g)
    (fun r hr => ⟨(h r hr _ (Or.inl rfl)).trans (colVec_eq_lift g wf "reactant" r),
      (h r hr _ (Or.inr rfl)).trans (colVec_eq_lift g wf "product" r)⟩) ([], [])

/-- **(a)** `_complex_vectors(_as_bipartite(G))`: complexes (as integer vectors, in the same order)
and complex-graph arcs are those of the network-level model on the described network. -/
theorem graphComplexVectors_eq (g : BipGraph) (wf : WF g) :
    graphComplexVectors g = liftVectors (Deficiency.complexVectors (analysisNet g)) :=
  complexVectorsOn_eq g wf true (asBipartite g) (fun r hr role hrole => sideVec_bip g wf.ids r hr role hrole)

/-- **(a), the helper on the graph as given** (`_complex_vectors(G)` with `G` of any of the four
classes, the undirected branch included). -/
theorem graphComplexVectorsRaw_eq (g : BipGraph) (wf : WF g) :
    graphComplexVectorsRaw g = liftVectors (Deficiency.complexVectors (analysisNet g)) :=
  complexVectorsOn_eq g wf g.directed (effArcs g) (fun r hr role _ => sideVec_raw g wf.ids r hr role)

/-- **(a), the reaction → (reactant complex, product complex) assignment.** -/
theorem graphReactionComplexes_eq (g : BipGraph) (wf : WF g) :
    graphReactionComplexes g = (analysisNet g).reactions.map fun rx =>
      (rx.id, liftComplex (Deficiency.vecOf (analysisNet g) rx.reactants),
        liftComplex (Deficiency.vecOf (analysisNet g) rx.products)) := by
  unfold graphReactionComplexes
  rw [analysisNet_reactions, List.map_map]
  apply List.map_congr_left
  intro r hr
  simp only [Function.comp]
  rw [sideVec_bip g wf.ids r hr _ (Or.inl rfl), sideVec_bip g wf.ids r hr _ (Or.inr rfl),
    colVec_eq_lift g wf, colVec_eq_lift g wf]
  rfl

theorem graphComplexes_length (g : BipGraph) (wf : WF g) :
    (graphComplexes g).length = (Deficiency.complexes (analysisNet g)).length := by
  unfold graphComplexes Deficiency.complexes
  rw [graphComplexVectors_eq g wf]; simp [liftVectors]

theorem graphComplexArcs_eq (g : BipGraph) (wf : WF g) :
    graphComplexArcs g = Deficiency.complexArcs (analysisNet g) := by
  unfold graphComplexArcs Deficiency.complexArcs
  rw [graphComplexVectors_eq g wf]; rfl

theorem graphLinkageClasses_eq (g : BipGraph) (wf : WF g) :
    graphLinkageClasses g = Deficiency.linkageClasses (analysisNet g) := by
  unfold graphLinkageClasses Deficiency.linkageClasses
  rw [graphComplexes_length g wf, graphComplexArcs_eq g wf]

theorem graphWeaklyReversible_eq (g : BipGraph) (wf : WF g) :
    graphWeaklyReversible g = Deficiency.weaklyReversible (analysisNet g) := by
  unfold graphWeaklyReversible Deficiency.weaklyReversible
  rw [graphLinkageClasses_eq g wf, graphComplexArcs_eq g wf]

theorem analysisNet_counts (g : BipGraph) :
    (analysisNet g).species.length = (speciesNodes g).length ∧
    (analysisNet g).reactions.length = (reactionNodes g).length := by
  refine ⟨?_, by rw [analysisNet_reactions, List.length_map]⟩
  rw [analysisNet_species, rowLabels, List.length_map]
  exact (sortBy_perm _ _).length_eq

theorem isEmpty_of_length_eq {α β : Type} (a : List α) (b : List β) (h : a.length = b.length) :
    a.isEmpty = b.isEmpty := by
  cases a <;> cases b <;> simp_all

/-- `compute_summary` on the graph = `compute_summary` of the described network, `ValueError`
branch included. -/
theorem graphSummary_eq' (g : BipGraph) (wf : WF g) (rank : Nat) :
    graphSummary g rank = Deficiency.computeSummary (analysisNet g) rank := by
  obtain ⟨h1, h2⟩ := analysisNet_counts g
  unfold graphSummary Deficiency.computeSummary
  rw [isEmpty_of_length_eq _ _ h1, isEmpty_of_length_eq _ _ h2, graphComplexes_length g wf,
    graphLinkageClasses_eq g wf, graphWeaklyReversible_eq g wf]
  simp only [Net.nSpecies, Net.nReactions, h1, h2]

/-! ## 4. Siphon / trap predicates -/

/-- The arc joins `s` and `r` with the given role and a positive coefficient. -/
def posB (role s r : String) (a : BArc) : Bool := arcJoins role s r a && decide (0 < a.stoich.getD 1)

def posAnyB (role s r : String) (l : List BArc) : Bool := l.any (posB role s r)

/-- The species nodes selected by an index set. -/
def selNodes (g : BipGraph) (S : List Nat) : List BNode := S.filterMap ((speciesRows g)[·]?)

theorem posB_rev (role s r : String) (a : BArc) : posB role s r a.rev = posB role s r a := by
  unfold posB; rw [arcJoins_rev]; rfl

theorem touchesOn_directed (arcs : List BArc) (role r : String) (Sn : List String)
    (h : ∀ s ∈ Sn, s ≠ r) :
    touchesOn true arcs role r Sn = Sn.any fun s => posAnyB role s r arcs := by
  rw [Bool.eq_iff_iff]
  simp only [touchesOn, incident, if_true, posAnyB, posB, arcJoins, otherEnd, List.any_eq_true,
    List.mem_append, List.mem_filter, Bool.and_eq_true, Bool.or_eq_true, decide_eq_true_eq, beq_iff_eq]
  constructor
  · rintro ⟨a, hmem, ⟨hS, hrole⟩, hpos⟩
    by_cases h1 : a.src = r
    · simp only [h1, if_true] at hS
      have ha : a ∈ arcs := by rcases hmem with hm | hm <;> exact hm.1
      exact ⟨a.dst, hS, a, ha, ⟨hrole, Or.inr ⟨h1, rfl⟩⟩, hpos⟩
    · simp only [h1, if_false] at hS
      rcases hmem with hm | hm
      · exact ⟨a.src, hS, a, hm.1, ⟨hrole, Or.inl ⟨rfl, hm.2⟩⟩, hpos⟩
      · exact absurd hm.2 h1
  · rintro ⟨s, hs, a, ha, ⟨hrole, hends⟩, hpos⟩
    rcases hends with ⟨h1, h2⟩ | ⟨h1, h2⟩
    · have hne : ¬ a.src = r := fun hh => h s hs (h1.symm.trans hh)
      refine ⟨a, Or.inl ⟨ha, h2⟩, ⟨?_, hrole⟩, hpos⟩
      simp only [hne, if_false]; rw [h1]; exact hs
    · refine ⟨a, Or.inr ⟨ha, h1⟩, ⟨?_, hrole⟩, hpos⟩
      simp only [h1, if_true]; rw [h2]; exact hs

/-- One undirected edge joining `s` and `r`: `_as_bipartite` keeps exactly one of its two arcs. -/
theorem bothWays_filter_join (g : BipGraph) (hd : IdsDistinct g) (s r : BNode)
    (hs : s ∈ speciesNodes g) (hr : r ∈ reactionNodes g) (role : String)
    (hrole : role = "reactant" ∨ role = "product") (a : BArc) (hj : arcJoins role s.id r.id a = true) :
    (bothWays a).filter (fun b => !dropArc g b) = [a] ∨
      (bothWays a).filter (fun b => !dropArc g b) = [a.rev] := by
  obtain ⟨f1, f2, f3, f4, f5⟩ := typing_facts g hd s r hs hr
  simp only [arcJoins, Bool.and_eq_true, Bool.or_eq_true, beq_iff_eq] at hj
  obtain ⟨hro, hends⟩ := hj
  have hne : (a.src == a.dst) = false := by
    apply beq_false_of_ne
    rcases hends with ⟨h1, h2⟩ | ⟨h1, h2⟩
    · rw [h1, h2]; exact f5
    · rw [h1, h2]; exact fun h => f5 h.symm
  rcases hends with ⟨h1, h2⟩ | ⟨h1, h2⟩ <;> rcases hrole with rfl | rfl
  · have d1 : dropArc g a = false := by simp [dropArc, hro, h1, f2]
    have d2 : dropArc g a.rev = true := by simp [dropArc, BArc.rev, hro, h2, f3]
    left; simp [bothWays, hne, d1, d2]
  · have d1 : dropArc g a = true := by simp [dropArc, hro, h1, f1]
    have d2 : dropArc g a.rev = false := by simp [dropArc, BArc.rev, hro, h2, f4]
    right; simp [bothWays, hne, d1, d2]
  · have d1 : dropArc g a = true := by simp [dropArc, hro, h1, f3]
    have d2 : dropArc g a.rev = false := by simp [dropArc, BArc.rev, hro, h2, f2]
    right; simp [bothWays, hne, d1, d2]
  · have d1 : dropArc g a = false := by simp [dropArc, hro, h1, f4]
    have d2 : dropArc g a.rev = true := by simp [dropArc, BArc.rev, hro, h2, f1]
    left; simp [bothWays, hne, d1, d2]

theorem bothWays_pos (g : BipGraph) (hd : IdsDistinct g) (s r : BNode)
    (hs : s ∈ speciesNodes g) (hr : r ∈ reactionNodes g) (role : String)
    (hrole : role = "reactant" ∨ role = "product") (a : BArc) :
    ((bothWays a).filter (fun b => !dropArc g b)).any (posB role s.id r.id) = posB role s.id r.id a := by
  cases hj : arcJoins role s.id r.id a with
  | false =>
    have hz : posB role s.id r.id a = false := by simp [posB, hj]
    rw [hz, List.any_eq_false]
    intro b hb
    have hb' := (List.mem_filter.1 hb).1
    unfold bothWays at hb'
    split at hb'
    · simp only [List.mem_singleton] at hb'; subst hb'; simp [hz]
    · simp only [List.mem_cons, List.not_mem_nil, or_false] at hb'
      rcases hb' with rfl | rfl
      · simp [hz]
      · rw [posB_rev]; simp [hz]
  | true =>
    rcases bothWays_filter_join g hd s r hs hr role hrole a hj with h | h <;> rw [h]
    · simp
    · simp [posB_rev]

theorem any_congr_mem {α : Type} (l : List α) (p q : α → Bool) (h : ∀ a ∈ l, p a = q a) :
    l.any p = l.any q := by
  induction l with
  | nil => rfl
  | cons a l ih =>
    rw [List.any_cons, List.any_cons, h a List.mem_cons_self,
      ih (fun b hb => h b (List.mem_cons_of_mem _ hb))]

theorem all_congr_mem {α : Type} (l : List α) (p q : α → Bool) (h : ∀ a ∈ l, p a = q a) :
    l.all p = l.all q := by
  induction l with
  | nil => rfl
  | cons a l ih =>
    rw [List.all_cons, List.all_cons, h a List.mem_cons_self,
      ih (fun b hb => h b (List.mem_cons_of_mem _ hb))]

/-- Whatever the class of the graph, `_as_bipartite(G)` has a positive arc of the role between
species node `s` and reaction node `r` exactly when the stored edges have one. -/
theorem posAnyB_asBipartite (g : BipGraph) (hd : IdsDistinct g) (s r : BNode)
    (hs : s ∈ speciesNodes g) (hr : r ∈ reactionNodes g) (role : String)
    (hrole : role = "reactant" ∨ role = "product") :
    posAnyB role s.id r.id (asBipartite g) = posAnyB role s.id r.id (effArcs g) := by
  unfold asBipartite posAnyB
  split
  · rfl
  · rw [List.filter_flatMap, List.any_flatMap]
    exact any_congr_mem _ _ _ (fun a _ => bothWays_pos g hd s r hs hr role hrole a)

theorem selNodes_sub (g : BipGraph) (S : List Nat) : ∀ s ∈ selNodes g S, s ∈ speciesNodes g := by
  intro s hs
  simp only [selNodes, List.mem_filterMap] at hs
  obtain ⟨i, _, hi⟩ := hs
  exact (mem_speciesRows g s).1 (List.mem_of_getElem? hi)

theorem sNodes_eq (g : BipGraph) (S : List Nat) : sNodes g S = (selNodes g S).map (·.id) := rfl

/-- The inner loop of `_is_siphon_indices` / `_is_trap_indices` on `_as_bipartite(G)`, in
canonical form: some selected species node has a positive stored edge of the role to `r`. -/
theorem touches_canon (g : BipGraph) (hd : IdsDistinct g) (r : BNode) (hr : r ∈ reactionNodes g)
    (role : String) (hrole : role = "reactant" ∨ role = "product") (S : List Nat) :
    touchesOn true (asBipartite g) role r.id (sNodes g S) =
      (selNodes g S).any fun s => posAnyB role s.id r.id (effArcs g) := by
  have hne : ∀ x ∈ sNodes g S, x ≠ r.id := by
    intro x hx
    rw [sNodes_eq, List.mem_map] at hx
    obtain ⟨s, hs, rfl⟩ := hx
    exact (typing_facts g hd s r (selNodes_sub g S s hs) hr).2.2.2.2
  rw [touchesOn_directed _ _ _ _ hne, sNodes_eq, List.any_map]
  exact any_congr_mem _ _ _
    (fun s hs => posAnyB_asBipartite g hd s r (selNodes_sub g S s hs) hr role hrole)

theorem arcSum_pos_iff (role s r : String) (l : List BArc) (h : ∀ a ∈ l, 0 ≤ a.stoich.getD 1) :
    0 < arcSum role s r l ↔ posAnyB role s r l = true := by
  induction l with
  | nil => simp [posAnyB]
  | cons a l ih =>
    have ih' := ih (fun b hb => h b (List.mem_cons_of_mem _ hb))
    have h0 := h a List.mem_cons_self
    have hl := arcSum_nonneg role s r l (fun b hb => h b (List.mem_cons_of_mem _ hb))
    rw [arcSum_cons]
    unfold posAnyB at ih' ⊢
    rw [List.any_cons, Bool.or_eq_true, ← ih']
    unfold arcCoeff posB
    cases arcJoins role s r a with
    | false => simp
    | true =>
      simp only [if_true, Bool.true_and, decide_eq_true_eq]
      constructor
      · intro hh; by_cases hp : 0 < a.stoich.getD 1
        · exact Or.inl hp
        · right; omega
      · rintro (hp | hp) <;> omega

theorem analysisNet_labelsOf (g : BipGraph) (S : List Nat) :
    (analysisNet g).labelsOf S = (selNodes g S).map nodeKey := by
  unfold Net.labelsOf selNodes
  rw [analysisNet_species, rowLabels, List.map_filterMap]
  apply List.filterMap_congr
  intro i _
  simp [List.getElem?_map]

/-- "Some arc of this side, with positive coefficient, touches a label of `S`", on the described
network, in the same canonical form. -/
theorem sideAny_canon (g : BipGraph) (wf : WF g) (role : String) (r : BNode) (S : List Nat) :
    ((sideOf g role r).any fun kv =>
        decide (kv.1 ∈ (analysisNet g).labelsOf S) && decide (0 < kv.2)) =
      (selNodes g S).any fun s => posAnyB role s.id r.id (effArcs g) := by
  have hnn := effArcs_nonneg g wf.coeffs
  rw [Bool.eq_iff_iff, analysisNet_labelsOf]
  simp only [sideOf, List.any_eq_true, List.mem_filterMap, Bool.and_eq_true, decide_eq_true_eq,
    List.mem_map]
  constructor
  · rintro ⟨kv, ⟨s, hs, hkv⟩, ⟨s', hs', hkey⟩, hpos⟩
    split at hkv
    · cases hkv
      simp only at hkey hpos
      have hss : s' = s :=
        List.inj_on_of_nodup_map wf.speciesLabels (selNodes_sub g S s' hs') hs hkey
      subst hss
      refine ⟨s', hs', (arcSum_pos_iff role s'.id r.id _ hnn).1 ?_⟩
      omega
    · cases hkv
  · rintro ⟨s, hs, hp⟩
    have hsum := (arcSum_pos_iff role s.id r.id _ hnn).2 hp
    have hany : (effArcs g).any (arcJoins role s.id r.id) = true := by
      simp only [posAnyB, posB, List.any_eq_true, Bool.and_eq_true] at hp ⊢
      obtain ⟨a, ha, hj, _⟩ := hp
      exact ⟨a, ha, hj⟩
    refine ⟨(nodeKey s, (arcSum role s.id r.id (effArcs g)).toNat),
      ⟨s, selNodes_sub g S s hs, by simpa [List.any_eq_true] using hany⟩, ⟨s, hs, rfl⟩, ?_⟩
    simp only; omega

/-- **(b)** `_is_siphon_indices` on the graph = the closure predicate of `Petri.lean` on the
described network. -/
theorem graphSiphonPred_eq' (g : BipGraph) (wf : WF g) (S : List Nat) :
    graphSiphonPred g S = Petri.isSiphon (analysisNet g) S := by
  unfold graphSiphonPred Petri.isSiphon
  rw [analysisNet_reactions, List.all_map]
  congr 1
  apply all_congr_mem
  intro r hr
  simp only [Function.comp, Rxn.producesAny, Rxn.consumesAny, rxnOfEdge, edgeOfNode]
  rw [touches_canon g wf.ids r hr _ (Or.inr rfl), touches_canon g wf.ids r hr _ (Or.inl rfl),
    sideAny_canon g wf "product" r S, sideAny_canon g wf "reactant" r S]

/-- **(b)** `_is_trap_indices` likewise. -/
theorem graphTrapPred_eq' (g : BipGraph) (wf : WF g) (S : List Nat) :
    graphTrapPred g S = Petri.isTrap (analysisNet g) S := by
  unfold graphTrapPred Petri.isTrap
  rw [analysisNet_reactions, List.all_map]
  congr 1
  apply all_congr_mem
  intro r hr
  simp only [Function.comp, Rxn.producesAny, Rxn.consumesAny, rxnOfEdge, edgeOfNode]
  rw [touches_canon g wf.ids r hr _ (Or.inr rfl), touches_canon g wf.ids r hr _ (Or.inl rfl),
    sideAny_canon g wf "product" r S, sideAny_canon g wf "reactant" r S]

theorem speciesRows_length (g : BipGraph) : (speciesRows g).length = (speciesNodes g).length :=
  (sortBy_perm _ _).length_eq

theorem graphLabelsOf_eq (g : BipGraph) (S : List Nat) :
    graphLabelsOf g S = (analysisNet g).labelsOf S := by
  unfold graphLabelsOf Net.labelsOf; rw [analysisNet_species]

/-- `find_siphons` / `find_traps` on the graph = the search of `Petri.lean` on the described
network: same index sets in the same order, same label sets. -/
theorem graphFind_eq' (g : BipGraph) (wf : WF g) (maxSize : Option Nat) :
    graphFindSiphonsIdx g maxSize = Petri.findSiphonsIdx (analysisNet g) maxSize ∧
    graphFindTrapsIdx g maxSize = Petri.findTrapsIdx (analysisNet g) maxSize ∧
    graphFindSiphons g maxSize = Petri.findSiphons (analysisNet g) maxSize ∧
    graphFindTraps g maxSize = Petri.findTraps (analysisNet g) maxSize := by
  have hs : graphSiphonPred g = Petri.isSiphon (analysisNet g) := funext (graphSiphonPred_eq' g wf)
  have ht : graphTrapPred g = Petri.isTrap (analysisNet g) := funext (graphTrapPred_eq' g wf)
  have hn : (speciesRows g).length = (analysisNet g).nSpecies := by
    rw [speciesRows_length, Net.nSpecies, (analysisNet_counts g).1]
  have hl : graphLabelsOf g = (analysisNet g).labelsOf := funext (graphLabelsOf_eq g)
  have h1 : graphFindSiphonsIdx g maxSize = Petri.findSiphonsIdx (analysisNet g) maxSize := by
    unfold graphFindSiphonsIdx Petri.findSiphonsIdx; rw [hs, hn]
  have h2 : graphFindTrapsIdx g maxSize = Petri.findTrapsIdx (analysisNet g) maxSize := by
    unfold graphFindTrapsIdx Petri.findTrapsIdx; rw [ht, hn]
  refine ⟨h1, h2, ?_, ?_⟩
  · unfold graphFindSiphons Petri.findSiphons; rw [h1, hl]
  · unfold graphFindTraps Petri.findTraps; rw [h2, hl]

/-! ## 5. The ways of writing the same graph -/

/-- Two graphs on the same nodes whose stored edges read the same: equal coefficient sums and
equal "positive arc present" tests between any two nodes, for every role. Orientation, graph
class and a spelled-out default coefficient do not change the reading (below). -/
structure SameReading (g g' : BipGraph) : Prop where
  nodes : g'.nodes = g.nodes
  sums : ∀ role s r, arcSum role s r (effArcs g') = arcSum role s r (effArcs g)
  pos : ∀ role s r, posAnyB role s r (effArcs g') = posAnyB role s r (effArcs g)

theorem posAnyB_reoriented (role s r : String) (l l' : List BArc) (h : Reoriented l l') :
    posAnyB role s r l' = posAnyB role s r l := by
  unfold posAnyB
  induction h with
  | nil => rfl
  | keep a _ ih => rw [List.any_cons, List.any_cons, ih]
  | flip a _ ih => rw [List.any_cons, List.any_cons, ih, posB_rev]

theorem sameReading_of_reoriented (g g' : BipGraph) (hn : g'.nodes = g.nodes)
    (ha : Reoriented g.arcs g'.arcs) (e : effArcs g = g.arcs) (e' : effArcs g' = g'.arcs) :
    SameReading g g' := by
  refine ⟨hn, fun role s r => ?_, fun role s r => ?_⟩
  · rw [e, e']; exact arcSum_reoriented role s r _ _ ha
  · rw [e, e']; exact posAnyB_reoriented role s r _ _ ha

/-- (b) Reversing any subset of the arcs of a directed graph. -/
theorem sameReading_orientation (g g' : BipGraph) (hn : g'.nodes = g.nodes)
    (hm : g'.multi = g.multi) (ha : Reoriented g.arcs g'.arcs)
    (hs : g.multi = true ∨ (ArcsSimple g ∧ ArcsSimple g')) : SameReading g g' :=
  sameReading_of_reoriented g g' hn ha (effArcs_eq_arcs g (hs.imp id (·.1)))
    (effArcs_eq_arcs g' (hs.imp (fun h => hm.trans h) (·.2)))

/-- (c) An undirected graph and the directed graph holding the same edges. -/
theorem sameReading_undirected (g g' : BipGraph) (hn : g'.nodes = g.nodes)
    (hd : g.directed = false) (hd' : g'.directed = true) (hm : g'.multi = g.multi)
    (ha : Reoriented g.arcs g'.arcs) (hs : g.multi = true ∨ ArcsSimple g) : SameReading g g' := by
  have hs2 : g'.multi = true ∨ ArcsSimple g' := by
    rcases hs with h | h
    · exact Or.inl (hm.trans h)
    · right
      unfold ArcsSimple at h ⊢
      rw [hd] at h; rw [hd']
      exact simple_of_reoriented _ _ ha h
  exact sameReading_of_reoriented g g' hn ha (effArcs_eq_arcs g hs) (effArcs_eq_arcs g' hs2)

/-- (d) Writing `stoich = 1` on every edge that has none. -/
theorem sameReading_fill (g g' : BipGraph) (hn : g'.nodes = g.nodes) (hd : g'.directed = g.directed)
    (hm : g'.multi = g.multi) (ha : g'.arcs = g.arcs.map BArc.fillStoich)
    (hs : g.multi = true ∨ ArcsSimple g) : SameReading g g' := by
  have hs2 : g'.multi = true ∨ ArcsSimple g' := by
    rcases hs with h | h
    · exact Or.inl (hm.trans h)
    · right
      unfold ArcsSimple at h ⊢
      rw [ha, hd, List.pairwise_map]
      exact h
  refine ⟨hn, fun role s r => ?_, fun role s r => ?_⟩
  · rw [effArcs_eq_arcs g' hs2, effArcs_eq_arcs g hs, ha]; exact arcSum_map_fill role s r _
  · rw [effArcs_eq_arcs g' hs2, effArcs_eq_arcs g hs, ha]
    unfold posAnyB
    rw [List.any_map]
    rfl

theorem foldl_congr_mem {α β : Type} (f f' : β → α → β) (l : List α)
    (h : ∀ b, ∀ a ∈ l, f b a = f' b a) (b : β) : l.foldl f b = l.foldl f' b := by
  induction l generalizing b with
  | nil => rfl
  | cons a l ih =>
    rw [List.foldl_cons, List.foldl_cons, h b a List.mem_cons_self]
    exact ih (fun b' a' ha' => h b' a' (List.mem_cons_of_mem _ ha')) _

theorem nodes_congr (g g' : BipGraph) (hn : g'.nodes = g.nodes) :
    speciesNodes g' = speciesNodes g ∧ reactionNodes g' = reactionNodes g ∧
    speciesRows g' = speciesRows g ∧ rowLabels g' = rowLabels g := by
  simp [speciesRows, rowLabels, speciesNodes, reactionNodes, hn]

theorem colVec_congr (g g' : BipGraph) (h : SameReading g g') (role : String) (r : BNode) :
    colVec g' role r = colVec g role r := by
  unfold colVec
  rw [(nodes_congr g g' h.nodes).2.2.1]
  exact List.map_congr_left (fun s _ => h.sums role s.id r.id)

theorem complexVectorsOn_congr (g g' : BipGraph) (d d' : Bool) (arcs arcs' : List BArc)
    (hn : g'.nodes = g.nodes)
    (h : ∀ r ∈ reactionNodes g, ∀ role, role = "reactant" ∨ role = "product" →
      sideVec d' arcs' (speciesRows g) role r.id = sideVec d arcs (speciesRows g) role r.id) :
    complexVectorsOn g' d' arcs' = complexVectorsOn g d arcs := by
  unfold complexVectorsOn
  rw [(nodes_congr g g' hn).2.1, (nodes_congr g g' hn).2.2.1]
  apply foldl_congr_mem
  intro st r hr
  unfold complexStepOn
  rw [h r hr _ (Or.inl rfl), h r hr _ (Or.inr rfl)]

/-- **(c) for C19.** Two graphs with the same reading give the same complexes, complex graph,
reaction → complex assignment, linkage classes, weak-reversibility verdict and summary — through
`_as_bipartite` and for the helper on the graph as given alike. Only `IdsDistinct` is used. -/
theorem complexes_congr (g g' : BipGraph) (hd : IdsDistinct g) (h : SameReading g g') :
    graphComplexVectors g' = graphComplexVectors g ∧
    graphComplexVectorsRaw g' = graphComplexVectorsRaw g ∧
    graphComplexVectorsRaw g = graphComplexVectors g ∧
    graphReactionComplexes g' = graphReactionComplexes g ∧
    graphLinkageClasses g' = graphLinkageClasses g ∧
    graphWeaklyReversible g' = graphWeaklyReversible g ∧
    ∀ rank, graphSummary g' rank = graphSummary g rank := by
  have hd' : IdsDistinct g' := by unfold IdsDistinct at hd ⊢; rw [h.nodes]; exact hd
  obtain ⟨n1, n2, n3, _⟩ := nodes_congr g g' h.nodes
  have hv : graphComplexVectors g' = graphComplexVectors g := by
    apply complexVectorsOn_congr g g' _ _ _ _ h.nodes
    intro r hr role hrole
    rw [sideVec_bip g hd r hr role hrole, ← colVec_congr g g' h role r, ← n3]
    exact sideVec_bip g' hd' r (n2 ▸ hr) role hrole
  have hraw : graphComplexVectorsRaw g' = graphComplexVectorsRaw g := by
    apply complexVectorsOn_congr g g' _ _ _ _ h.nodes
    intro r hr role _
    rw [sideVec_raw g hd r hr role, ← colVec_congr g g' h role r, ← n3]
    exact sideVec_raw g' hd' r (n2 ▸ hr) role
  have hrb : graphComplexVectorsRaw g = graphComplexVectors g := by
    apply complexVectorsOn_congr g g _ _ _ _ rfl
    intro r hr role hrole
    rw [sideVec_bip g hd r hr role hrole, sideVec_raw g hd r hr role]
  have hrc : graphReactionComplexes g' = graphReactionComplexes g := by
    unfold graphReactionComplexes
    rw [n2]
    apply List.map_congr_left
    intro r hr
    rw [sideVec_bip g hd r hr _ (Or.inl rfl), sideVec_bip g hd r hr _ (Or.inr rfl),
      ← colVec_congr g g' h "reactant" r, ← colVec_congr g g' h "product" r,
      sideVec_bip g' hd' r (n2 ▸ hr) _ (Or.inl rfl), sideVec_bip g' hd' r (n2 ▸ hr) _ (Or.inr rfl)]
  have hl : graphLinkageClasses g' = graphLinkageClasses g := by
    unfold graphLinkageClasses graphComplexes graphComplexArcs; rw [hv]
  have hw : graphWeaklyReversible g' = graphWeaklyReversible g := by
    unfold graphWeaklyReversible graphComplexArcs; rw [hl, hv]
  refine ⟨hv, hraw, hrb, hrc, hl, hw, fun rank => ?_⟩
  unfold graphSummary graphComplexes
  rw [n1, n2, hv, hl, hw]

/-- **(c) for C20.** Two graphs with the same reading give the same siphon / trap predicates and
the same reported families. Only `IdsDistinct` is used. -/
theorem structure_congr (g g' : BipGraph) (hd : IdsDistinct g) (h : SameReading g g') :
    (∀ S, graphSiphonPred g' S = graphSiphonPred g S) ∧
    (∀ S, graphTrapPred g' S = graphTrapPred g S) ∧
    (∀ ms, graphFindSiphons g' ms = graphFindSiphons g ms) ∧
    (∀ ms, graphFindTraps g' ms = graphFindTraps g ms) := by
  have hd' : IdsDistinct g' := by unfold IdsDistinct at hd ⊢; rw [h.nodes]; exact hd
  obtain ⟨_, n2, n3, n4⟩ := nodes_congr g g' h.nodes
  have hsel : ∀ S, selNodes g' S = selNodes g S := fun S => by unfold selNodes; rw [n3]
  have ht : ∀ S r, r ∈ reactionNodes g → ∀ role, role = "reactant" ∨ role = "product" →
      touchesOn true (asBipartite g') role r.id (sNodes g' S) =
        touchesOn true (asBipartite g) role r.id (sNodes g S) := by
    intro S r hr role hrole
    rw [touches_canon g hd r hr role hrole, touches_canon g' hd' r (n2 ▸ hr) role hrole, hsel]
    exact any_congr_mem _ _ _ (fun s _ => h.pos role s.id r.id)
  have hS : ∀ S, graphSiphonPred g' S = graphSiphonPred g S := by
    intro S
    unfold graphSiphonPred
    rw [n2]
    congr 1
    apply all_congr_mem
    intro r hr
    rw [ht S r hr _ (Or.inr rfl), ht S r hr _ (Or.inl rfl)]
  have hT : ∀ S, graphTrapPred g' S = graphTrapPred g S := by
    intro S
    unfold graphTrapPred
    rw [n2]
    congr 1
    apply all_congr_mem
    intro r hr
    rw [ht S r hr _ (Or.inr rfl), ht S r hr _ (Or.inl rfl)]
  have hl : graphLabelsOf g' = graphLabelsOf g := by funext S; unfold graphLabelsOf; rw [n4]
  refine ⟨hS, hT, fun ms => ?_, fun ms => ?_⟩
  · unfold graphFindSiphons graphFindSiphonsIdx; rw [funext hS, n3, hl]
  · unfold graphFindTraps graphFindTrapsIdx; rw [funext hT, n3, hl]

/-- The executable well-formedness test decides `WF`. -/
theorem wf_of_wfCoreB (g : BipGraph) (h : wfCoreB g = true) : WF g := by
  simp only [wfCoreB, Bool.and_eq_true, decide_eq_true_eq, List.all_eq_true] at h
  exact ⟨h.1.1, h.1.2, h.2⟩

end SynKit.BipGraph

import SynKitModel.NautyIR
import SynKitProofs.NautyIROrder
import Mathlib.Data.List.Perm.Basic
import Mathlib.Data.List.Nodup
import Mathlib.Data.List.Flatten
/-!
# Well-formedness of the individualisation–refinement search (C08)

Partitions stay partitions of the node list under refinement and individualisation, every leaf of
the search tree orders all nodes, and with `N + 1` fuel the tree has a leaf.
-/
set_option linter.unusedSimpArgs false
set_option linter.unusedVariables false
namespace SynKit.Canon
open SynKit

/-- a partition of the node list: the cells together are a permutation of `ids`, no cell is empty -/
def IRPartOK (ids : List Nat) (P : List (List Nat)) : Prop := P.flatten.Perm ids ∧ ∀ c ∈ P, c ≠ []

/-! ## `irSplitBy` -/

theorem filter_append_perm_or {α : Type} (c : List α) (p q : α → Bool)
    (h : ∀ v, p v = true → q v = true → False) :
    (c.filter p ++ c.filter q).Perm (c.filter fun v => p v || q v) := by
  induction c with
  | nil => simp
  | cons x xs ih =>
    cases hp : p x <;> cases hq : q x
    · simpa [List.filter_cons, hp, hq] using ih
    · simp only [List.filter_cons, hp, hq, Bool.false_or, if_true, if_false, Bool.false_eq_true]
      exact List.perm_middle.trans (List.Perm.cons x ih)
    · simp only [List.filter_cons, hp, hq, Bool.true_or, if_true, if_false, Bool.false_eq_true,
        List.cons_append]
      exact List.Perm.cons x ih
    · exact (h x hp hq).elim

theorem flatten_filter_keys {κ : Type} [DecidableEq κ] (key : Nat → κ) (c : List Nat) (ks : List κ)
    (hks : ks.Nodup) :
    (ks.map fun k => c.filter fun v => decide (key v = k)).flatten.Perm
      (c.filter fun v => decide (key v ∈ ks)) := by
  induction ks with
  | nil => simp
  | cons k ks ih =>
    rw [List.nodup_cons] at hks
    simp only [List.map_cons, List.flatten_cons]
    refine ((List.Perm.append_left _ (ih hks.2)).trans
      (filter_append_perm_or c _ _ ?_)).trans ?_
    · intro v h1 h2
      simp only [decide_eq_true_eq] at h1 h2
      exact hks.1 (h1 ▸ h2)
    · apply List.Perm.of_eq
      apply List.filter_congr
      intro v _
      simp [List.mem_cons]

theorem flatten_map_sortNat_perm {κ : Type} (f : κ → List Nat) (ks : List κ) :
    (ks.map fun k => sortNat (f k)).flatten.Perm (ks.map f).flatten := by
  induction ks with
  | nil => simp
  | cons k ks ih =>
    simp only [List.map_cons, List.flatten_cons]
    exact (sortNat_perm _).append ih

theorem irSplitBy_flatten_perm {κ : Type} [DecidableEq κ] (lt : κ → κ → Bool) (key : Nat → κ) (c : List Nat) :
    (irSplitBy lt key c).flatten.Perm c := by
  unfold irSplitBy
  refine (flatten_map_sortNat_perm (fun k => c.filter fun v => decide (key v = k)) _).trans ?_
  have hnd : (sortBy lt (irDedup (c.map key))).Nodup :=
    (sortBy_perm lt _).nodup_iff.2 (nodup_irDedup _)
  refine (flatten_filter_keys key c _ hnd).trans ?_
  apply List.Perm.of_eq
  rw [List.filter_eq_self]
  intro v hv
  simp only [decide_eq_true_eq]
  rw [mem_sortBy, mem_irDedup]
  exact List.mem_map_of_mem hv

theorem irSplitBy_ne_nil {κ : Type} [DecidableEq κ] (lt : κ → κ → Bool) (key : Nat → κ) (c : List Nat) :
    ∀ d ∈ irSplitBy lt key c, d ≠ [] := by
  intro d hd
  unfold irSplitBy at hd
  rw [List.mem_map] at hd
  obtain ⟨k, hk, rfl⟩ := hd
  rw [mem_sortBy, mem_irDedup, List.mem_map] at hk
  obtain ⟨v, hv, rfl⟩ := hk
  intro he
  have : v ∈ sortNat (c.filter fun w => decide (key w = key v)) := by
    rw [mem_sortNat, List.mem_filter]
    exact ⟨hv, by simp⟩
  rw [he] at this
  exact List.not_mem_nil this

theorem irInitialPartition_ok (G : LGraph) : IRPartOK G.ids (irInitialPartition G) :=
  ⟨irSplitBy_flatten_perm _ _ _, irSplitBy_ne_nil _ _ _⟩

/-! ## Refinement -/

theorem irRefineCell_flatten_perm (G : LGraph) (P : List (List Nat)) (c : List Nat) :
    (irRefineCell G P c).flatten.Perm c := by
  unfold irRefineCell
  split
  · simp
  · simp only
    split
    · exact irSplitBy_flatten_perm _ _ _
    · simp

theorem irRefineCell_ne_nil (G : LGraph) (P : List (List Nat)) (c : List Nat) (hc : c ≠ []) :
    ∀ d ∈ irRefineCell G P c, d ≠ [] := by
  unfold irRefineCell
  split
  · intro d hd
    simp only [List.mem_singleton] at hd
    exact hd ▸ hc
  · simp only
    split
    · exact irSplitBy_ne_nil _ _ _
    · intro d hd
      simp only [List.mem_singleton] at hd
      exact hd ▸ hc

theorem irRefineCell_length_pos (G : LGraph) (P : List (List Nat)) (c : List Nat) :
    1 ≤ (irRefineCell G P c).length := by
  unfold irRefineCell
  split
  · simp
  · simp only
    split
    · omega
    · simp

theorem flatMap_flatten_perm {α : Type} (f : List α → List (List α)) (P : List (List α))
    (h : ∀ c ∈ P, (f c).flatten.Perm c) : (P.flatMap f).flatten.Perm P.flatten := by
  induction P with
  | nil => simp
  | cons c P ih =>
    simp only [List.flatMap_cons, List.flatten_append, List.flatten_cons]
    exact (h c List.mem_cons_self).append (ih fun d hd => h d (List.mem_cons_of_mem _ hd))

theorem length_le_flatMap {α β : Type} (f : α → List β) (P : List α)
    (h : ∀ c ∈ P, 1 ≤ (f c).length) : P.length ≤ (P.flatMap f).length := by
  induction P with
  | nil => simp
  | cons c P ih =>
    simp only [List.flatMap_cons, List.length_append, List.length_cons]
    have := h c List.mem_cons_self
    have := ih fun d hd => h d (List.mem_cons_of_mem _ hd)
    omega

theorem irRefineStep_ok (G : LGraph) (ids : List Nat) (P : List (List Nat)) (h : IRPartOK ids P) :
    IRPartOK ids (irRefineStep G P) := by
  unfold irRefineStep
  refine ⟨(flatMap_flatten_perm _ P fun c _ => irRefineCell_flatten_perm G P c).trans h.1, ?_⟩
  intro d hd
  rw [List.mem_flatMap] at hd
  obtain ⟨c, hc, hd⟩ := hd
  exact irRefineCell_ne_nil G P c (h.2 c hc) d hd

theorem irRefineStep_length_le (G : LGraph) (P : List (List Nat)) : P.length ≤ (irRefineStep G P).length :=
  length_le_flatMap _ P fun c _ => irRefineCell_length_pos G P c

theorem irRefineLoop_ok (G : LGraph) (ids : List Nat) (k : Nat) (P : List (List Nat)) (h : IRPartOK ids P) :
    IRPartOK ids (irRefineLoop G k P) := by
  induction k generalizing P with
  | zero => exact h
  | succ k ih =>
    simp only [irRefineLoop]
    split
    · exact irRefineStep_ok G ids P h
    · exact ih _ (irRefineStep_ok G ids P h)

theorem irRefineLoop_length_le (G : LGraph) (k : Nat) (P : List (List Nat)) :
    P.length ≤ (irRefineLoop G k P).length := by
  induction k generalizing P with
  | zero => exact Nat.le_refl _
  | succ k ih =>
    simp only [irRefineLoop]
    split
    · exact irRefineStep_length_le G P
    · exact Nat.le_trans (irRefineStep_length_le G P) (ih _)

theorem irRefine_ok (G : LGraph) (ids : List Nat) (P : List (List Nat)) (h : IRPartOK ids P) :
    IRPartOK ids (irRefine G P) := irRefineLoop_ok G ids _ P h

theorem irRefine_length_le (G : LGraph) (P : List (List Nat)) : P.length ≤ (irRefine G P).length :=
  irRefineLoop_length_le G _ P

/-! ## Target cell -/

theorem irTargetCell_some {P pre post : List (List Nat)} {c : List Nat} (h : irTargetCell P = some (pre, c, post)) :
    P = pre ++ c :: post ∧ 1 < c.length := by
  induction P generalizing pre with
  | nil => simp [irTargetCell] at h
  | cons d rest ih =>
    simp only [irTargetCell] at h
    split at h
    · rename_i hd
      simp only [Option.some.injEq, Prod.mk.injEq] at h
      obtain ⟨rfl, rfl, rfl⟩ := h
      exact ⟨rfl, hd⟩
    · rw [Option.map_eq_some_iff] at h
      obtain ⟨⟨pre', c', post'⟩, hr, he⟩ := h
      simp only [Prod.mk.injEq] at he
      obtain ⟨rfl, rfl, rfl⟩ := he
      obtain ⟨h1, h2⟩ := ih hr
      exact ⟨by rw [h1]; rfl, h2⟩

theorem irTargetCell_none {P : List (List Nat)} (h : irTargetCell P = none) : ∀ c ∈ P, c.length ≤ 1 := by
  induction P with
  | nil => intro c hc; exact absurd hc List.not_mem_nil
  | cons d rest ih =>
    simp only [irTargetCell] at h
    split at h
    · exact absurd h (by simp)
    · rename_i hd
      rw [Option.map_eq_none_iff] at h
      intro c hc
      rcases List.mem_cons.1 hc with rfl | hc
      · omega
      · exact ih h c hc

/-- a partition with non-empty cells that has no target cell is discrete -/
theorem irIsDiscrete_of_targetCell_none {ids : List Nat} {P : List (List Nat)} (hok : IRPartOK ids P)
    (h : irTargetCell P = none) : irIsDiscrete P = true := by
  unfold irIsDiscrete
  rw [List.all_eq_true]
  intro c hc
  have h1 := irTargetCell_none h c hc
  have h2 : c.length ≠ 0 := fun h0 => hok.2 c hc (List.length_eq_zero_iff.1 h0)
  simp only [beq_iff_eq]
  omega

/-! ## Individualisation -/

theorem cons_filter_ne_perm {c : List Nat} (hn : c.Nodup) {v : Nat} (hv : v ∈ c) :
    (v :: c.filter fun w => decide (w ≠ v)).Perm c := by
  rw [List.perm_ext_iff_of_nodup _ hn]
  · intro a
    simp only [List.mem_cons, List.mem_filter, decide_eq_true_eq]
    constructor
    · rintro (rfl | ⟨h, _⟩)
      · exact hv
      · exact h
    · intro ha
      by_cases e : a = v
      · exact Or.inl e
      · exact Or.inr ⟨ha, e⟩
  · rw [List.nodup_cons]
    refine ⟨?_, hn.filter _⟩
    simp [List.mem_filter]

theorem irIndividualise_ok {ids : List Nat} (hn : ids.Nodup) {pre post : List (List Nat)} {c : List Nat} {v : Nat}
    (hok : IRPartOK ids (pre ++ c :: post)) (hv : v ∈ c) (hc : 1 < c.length) :
    IRPartOK ids (irIndividualise pre c post v) ∧
    (irIndividualise pre c post v).length = (pre ++ c :: post).length + 1 := by
  have hfn : (pre ++ c :: post).flatten.Nodup := hok.1.nodup_iff.2 hn
  have hcn : c.Nodup := (List.nodup_flatten.1 hfn).1 c (by simp)
  have hp := cons_filter_ne_perm hcn hv
  have hlen : (c.filter fun w => decide (w ≠ v)).length + 1 = c.length := by
    have := hp.length_eq
    simpa using this
  have hne : (c.filter fun w => decide (w ≠ v)) ≠ [] := by
    intro he
    rw [he] at hlen
    simp at hlen
    omega
  have hemp : (c.filter fun w => decide (w ≠ v)).isEmpty = false := by
    rw [Bool.eq_false_iff]
    intro he
    exact hne (List.isEmpty_iff.1 he)
  unfold irIndividualise
  simp only [hemp, Bool.false_eq_true, if_false]
  refine ⟨⟨?_, ?_⟩, ?_⟩
  · refine List.Perm.trans ?_ hok.1
    simp only [List.flatten_append, List.flatten_cons, List.flatten_nil, List.append_nil,
      List.append_assoc]
    apply List.Perm.append_left
    rw [← List.append_assoc]
    apply List.Perm.append_right
    exact ((sortNat_perm _).append_left [v]).trans hp
  · intro d hd
    simp only [List.mem_append, List.mem_singleton, List.mem_cons, List.not_mem_nil, or_false] at hd
    rcases hd with ((hd | rfl) | rfl) | hd
    · exact hok.2 d (by simp [hd])
    · simp
    · intro he
      have := sortNat_length (c.filter fun w => decide (w ≠ v))
      rw [he] at this
      exact hne (List.length_eq_zero_iff.1 this.symm)
    · exact hok.2 d (by simp [hd])
  · simp only [List.length_append, List.length_cons, List.length_nil]
    omega

theorem IRPartOK.length_le {ids : List Nat} {P : List (List Nat)} (h : IRPartOK ids P) : P.length ≤ ids.length := by
  rw [← h.1.length_eq]
  have h2 := h.2
  clear h
  induction P with
  | nil => simp
  | cons c P ih =>
    simp only [List.flatten_cons, List.length_append, List.length_cons]
    have hc : c.length ≠ 0 := fun h0 => h2 c List.mem_cons_self (List.length_eq_zero_iff.1 h0)
    have := ih fun d hd => h2 d (List.mem_cons_of_mem _ hd)
    omega

/-! ## The search tree -/

/-- every leaf's order is a permutation of the node list -/
theorem irLeaves_order_perm (G : LGraph) {ids : List Nat} (hn : ids.Nodup) (fuel : Nat) (P : List (List Nat)) (pfx : List Nat)
    (hok : IRPartOK ids P) : ∀ l ∈ irLeaves G fuel P pfx, l.2.Perm ids := by
  induction fuel generalizing P pfx with
  | zero => intro l hl; simp [irLeaves] at hl
  | succ fuel ih =>
    intro l hl
    have hr := irRefine_ok G ids P hok
    simp only [irLeaves] at hl
    split at hl
    · simp only [List.mem_singleton] at hl
      rw [hl]
      exact hr.1
    · split at hl
      · exact absurd hl List.not_mem_nil
      · rename_i pre c post ht
        obtain ⟨hP, hc⟩ := irTargetCell_some ht
        rw [List.mem_flatMap] at hl
        obtain ⟨v, hv, hl⟩ := hl
        unfold irChildren at hv
        rw [mem_sortBy] at hv
        rw [hP] at hr
        exact ih _ _ (irIndividualise_ok hn hr hv hc).1 l hl

/-- with enough fuel the search tree has a leaf -/
theorem irLeaves_ne_nil (G : LGraph) {ids : List Nat} (hn : ids.Nodup) (fuel : Nat) (P : List (List Nat)) (pfx : List Nat)
    (hok : IRPartOK ids P) (hf : ids.length < fuel + P.length) : irLeaves G fuel P pfx ≠ [] := by
  induction fuel generalizing P pfx with
  | zero =>
    have := hok.length_le
    omega
  | succ fuel ih =>
    have hr := irRefine_ok G ids P hok
    have hlen := irRefine_length_le G P
    simp only [irLeaves]
    split
    · simp
    · rename_i hdisc
      split
      · rename_i ht
        exact absurd (irIsDiscrete_of_targetCell_none hr ht) hdisc
      · rename_i pre c post ht
        obtain ⟨hP, hc⟩ := irTargetCell_some ht
        rw [hP] at hr
        have hchild : (irChildren G c).length = c.length := (sortBy_perm _ c).length_eq
        cases hch : irChildren G c with
        | nil => rw [hch] at hchild; simp at hchild; omega
        | cons v vs =>
          have hv : v ∈ c := by
            have : v ∈ irChildren G c := by rw [hch]; exact List.mem_cons_self
            unfold irChildren at this
            exact (mem_sortBy _ _ _).1 this
          obtain ⟨hok', hlen'⟩ := irIndividualise_ok hn hr hv hc
          have := ih (irIndividualise pre c post v) (pfx ++ [v]) hok' (by rw [hlen', ← hP]; omega)
          simp only [List.flatMap_cons]
          intro he
          exact this (List.append_eq_nil_iff.1 he).1

theorem irLeaves_root_perm (G : LGraph) (hn : G.ids.Nodup) :
    ∀ l ∈ irLeaves G (G.nodes.length + 1) (irInitialPartition G) [], l.2.Perm G.ids :=
  irLeaves_order_perm G hn _ _ _ (irInitialPartition_ok G)

theorem irLeaves_root_ne_nil (G : LGraph) (hn : G.ids.Nodup) :
    irLeaves G (G.nodes.length + 1) (irInitialPartition G) [] ≠ [] := by
  apply irLeaves_ne_nil G hn _ _ _ (irInitialPartition_ok G)
  have : G.ids.length = G.nodes.length := by unfold LGraph.ids; simp
  omega

end SynKit.Canon

import SynKitModel.Reactor
import SynKitProofs.ReactorLemmas
import Mathlib.Data.List.Nodup
import Mathlib.Data.List.Perm.Basic
import Mathlib.Tactic.Linarith
import Mathlib.Tactic.Ring
/-! Clause (c) of C03 in the form the specification evaluates: the labelled changed-bond graph of
the glued ITS is isomorphic (`IsIso`) to the template's. -/
namespace SynKit.Reactor
open SynKit.Match

/-- Is `v` an end atom of a changed bond of `I`? -/
def touchedB (I : LGraph) (v : Nat) : Bool :=
  (I.edges.filter fun e => changed e.2.2).any fun e => e.1 = v || e.2.1 = v

theorem changed_iff (a : Attrs) : changed a = true ↔ delta a ≠ 0 := by
  unfold changed delta
  simp only [decide_eq_true_eq]
  constructor <;> intro h <;> omega

theorem touchedB_iff (I : LGraph) (v : Nat) :
    touchedB I v = true ↔ ∃ e ∈ I.edges, delta e.2.2 ≠ 0 ∧ (e.1 = v ∨ e.2.1 = v) := by
  unfold touchedB
  simp only [List.any_eq_true, List.mem_filter, Bool.or_eq_true, decide_eq_true_eq, changed_iff]
  constructor
  · rintro ⟨e, ⟨he, hc⟩, hv⟩; exact ⟨e, he, hc, hv⟩
  · rintro ⟨e, he, hc, hv⟩; exact ⟨e, ⟨he, hc⟩, hv⟩

theorem lc_ids (I : LGraph) : (labelledChanges I).ids = I.ids.filter (touchedB I) := by
  unfold labelledChanges LGraph.ids touchedB
  simp only [List.map_map, List.filter_map]
  rfl

theorem mem_lc_edges (I : LGraph) (x : Nat × Nat × Attrs) :
    x ∈ (labelledChanges I).edges ↔
      ∃ e ∈ I.edges, delta e.2.2 ≠ 0 ∧ x = (e.1, e.2.1, [("d", Val.num (delta e.2.2))]) := by
  unfold labelledChanges
  simp only [List.mem_map, List.mem_filter, changed_iff]
  constructor
  · rintro ⟨e, ⟨he, hc⟩, rfl⟩; exact ⟨e, he, hc, rfl⟩
  · rintro ⟨e, he, hc, rfl⟩; exact ⟨e, ⟨he, hc⟩, rfl⟩

theorem lc_attrs (I : LGraph) (hn : I.ids.Nodup) (v : Nat) (hv : v ∈ (labelledChanges I).ids) :
    (labelledChanges I).attrs v =
      [("el", tgField (I.attrs v) 0 0), ("dh", Val.num (hR (I.attrs v) - hL (I.attrs v)))] := by
  have hm := attrs_mem (labelledChanges I) v hv
  unfold labelledChanges at hm
  simp only [List.mem_map, List.mem_filter] at hm
  obtain ⟨p, ⟨hp, _⟩, heq⟩ := hm
  have h1 : p.1 = v := congrArg Prod.fst heq
  have h2 := congrArg Prod.snd heq
  simp only at h2
  have h3 : I.attrs v = p.2 := by rw [← h1]; exact attrs_of_mem I hn p hp
  rw [h3]; exact h2.symm

theorem glue_ids (host T : LGraph) (m : Mapping) : (glue host T m).ids = host.ids := by
  unfold glue prepHost LGraph.ids
  simp only [List.map_map]
  apply List.map_congr_left
  intro p _
  simp [Function.comp, glueNode_fst, prepNode]

theorem mget_map_self (l : List Nat) (f : Nat → Nat) (q : Nat) (hq : q ∈ l) :
    Mapping.get? (l.map fun q => (q, f q)) q = some (f q) := by
  unfold Mapping.get?
  induction l with
  | nil => simp at hq
  | cons x xs ih =>
    simp only [List.map_cons, List.find?_cons]
    by_cases hx : x = q
    · simp [hx]
    · simp only [hx, decide_false]
      simp only [List.mem_cons] at hq
      rcases hq with h | h
      · exact absurd h.symm hx
      · exact ih h

theorem mget_map_some (l : List Nat) (f : Nat → Nat) (p hp : Nat)
    (h : Mapping.get? (l.map fun q => (q, f q)) p = some hp) : p ∈ l ∧ hp = f p := by
  have hmem := mget_mem _ p hp h
  simp only [List.mem_map, Prod.mk.injEq] at hmem
  obtain ⟨q, hq, rfl, rfl⟩ := hmem
  exact ⟨hq, rfl⟩

/-- Labels of a matched atom in the glued graph: the template atom's element and hydrogen-count
change. -/
theorem glue_node_labels (host T : LGraph) (m : Mapping) (hH : WFHost host) (hT : WFTemplate T)
    (hm : IsMono monoSel host (left T) m) (q h : Nat) (hqh : (q, h) ∈ m) :
    tgField ((glue host T m).attrs h) 0 0 = tgField (T.attrs q) 0 0 ∧
    hR ((glue host T m).attrs h) - hL ((glue host T m).attrs h) = hR (T.attrs q) - hL (T.attrs q) := by
  have hq : q ∈ T.ids := by
    rw [← left_ids T hT, ← hm.1]; exact List.mem_map.2 ⟨(q, h), hqh, rfl⟩
  have hqa := hT.2.1 (q, T.attrs q) (attrs_mem T q hq)
  have hel := (mono_node host T m hT hm q h hqh).1
  have e := glue_tg_matched host T m hH hT hm q h hqh
  have hL' : hL ((glue host T m).attrs h) = numOf (pyGet (host.attrs h) "hcount" (.num 0)) := by
    unfold hL tgField; rw [e]; rfl
  have hR' : hR ((glue host T m).attrs h) = numOf (pyGet (host.attrs h) "hcount" (.num 0)) -
      (numOf (tgField (T.attrs q) 0 2) - numOf (tgField (T.attrs q) 1 2)) := by
    unfold hR tgField; rw [e]; rfl
  have hE : tgField ((glue host T m).attrs h) 0 0 = pyGet (host.attrs h) "element" (.str "*") := by
    unfold tgField; rw [e]; rfl
  constructor
  · rw [hE]
    have hne : Attrs.get (host.attrs h) "element" ≠ Val.none := by
      rw [hel]; intro e'
      have := hqa.2.2.2
      rw [e'] at this; exact Bool.noConfusion this
    rw [pyGet_of_get_ne_none _ _ _ hne, hel]
  · rw [hL', hR']; unfold hR hL; ring

/-- End-point bookkeeping: if template edge `te` lands on `{x, y}` then `x` and `y` are the images
of its two end atoms. -/
theorem landsOn_ends (m : Mapping) (te : Nat × Nat × Attrs) (x y : Nat) (h : landsOn m te x y = true) :
    (m.get? te.1 = some x ∧ m.get? te.2.1 = some y) ∨ (m.get? te.1 = some y ∧ m.get? te.2.1 = some x) := by
  obtain ⟨hu, hv, g1, g2, hc⟩ := (landsOn_iff m te x y).1 h
  rcases hc with ⟨rfl, rfl⟩ | ⟨rfl, rfl⟩
  · exact Or.inl ⟨g1, g2⟩
  · exact Or.inr ⟨g1, g2⟩

/-- **C03 (c), specification form.** Under the hypotheses of `glue_rc_image`, the labelled graph of
changed bonds of the glued ITS (end atoms labelled with element and hydrogen-count change, bonds with
their order change) is isomorphic to the template's; the isomorphism is the match itself. -/
theorem glue_lc_iso (host T : LGraph) (m : Mapping) (hH : WFHost host) (hT : WFTemplate T)
    (hm : IsMono monoSel host (left T) m) (hr : RoundExact host T m) :
    ∃ m', IsIso chgSel (labelledChanges (glue host T m)) (labelledChanges T) m' := by
  have F1 := glue_edge_image host T m hT hm hr
  have F2 := glue_edges_classified host T m hT hr
  have hGn : (glue host T m).ids.Nodup := by rw [glue_ids]; exact hH.1.1
  have hTn : T.ids.Nodup := hT.1.1
  have hdom : ∀ v ∈ T.ids, ∃ h, m.get? v = some h := by
    intro v hv; apply mget_total; rw [hm.1, left_ids T hT]; exact hv
  -- the isomorphism
  let f : Nat → Nat := fun q => (m.get? q).getD 0
  have hf : ∀ q h, m.get? q = some h → f q = h := by intro q h hq; simp [f, hq]
  refine ⟨(labelledChanges T).ids.map fun q => (q, f q), ?_⟩
  -- A: template centre atoms and their images
  have hA : ∀ q ∈ (labelledChanges T).ids, q ∈ T.ids ∧ m.get? q = some (f q) ∧
      f q ∈ (labelledChanges (glue host T m)).ids := by
    intro q hq
    rw [lc_ids, List.mem_filter] at hq
    obtain ⟨hqT, hqt⟩ := hq
    obtain ⟨h, hg⟩ := hdom q hqT
    have hfq := hf q h hg
    refine ⟨hqT, by rw [hfq]; exact hg, ?_⟩
    rw [lc_ids, List.mem_filter, glue_ids]
    refine ⟨by rw [hfq]; exact (hm.2.2.1 (q, h) (mget_mem m q h hg)).1, ?_⟩
    obtain ⟨te, hte, hd, hend⟩ := (touchedB_iff T q).1 hqt
    obtain ⟨e, he, hl, hde⟩ := F1 te hte
    rw [touchedB_iff]
    refine ⟨e, he, by rw [hde]; exact hd, ?_⟩
    rcases landsOn_ends m te e.1 e.2.1 hl with ⟨g1, g2⟩ | ⟨g1, g2⟩ <;> rcases hend with rfl | rfl
    · left; rw [hfq]; rw [hg] at g1; exact (Option.some.inj g1).symm
    · right; rw [hfq]; rw [hg] at g2; exact (Option.some.inj g2).symm
    · right; rw [hfq]; rw [hg] at g1; exact (Option.some.inj g1).symm
    · left; rw [hfq]; rw [hg] at g2; exact (Option.some.inj g2).symm
  -- B: every centre atom of the result is such an image
  have hB : ∀ h ∈ (labelledChanges (glue host T m)).ids, ∃ q ∈ (labelledChanges T).ids, f q = h := by
    intro h hh
    rw [lc_ids, List.mem_filter] at hh
    obtain ⟨e, he, hd, hend⟩ := (touchedB_iff _ h).1 hh.2
    rcases F2 e he with ⟨te, hte, hl, hde⟩ | ⟨hz, _, _⟩
    · have hdt : delta te.2.2 ≠ 0 := by rw [← hde]; exact hd
      have hends := hT.1.2.1 te hte
      have t1 : te.1 ∈ (labelledChanges T).ids := by
        rw [lc_ids, List.mem_filter]; exact ⟨hends.1, (touchedB_iff T _).2 ⟨te, hte, hdt, Or.inl rfl⟩⟩
      have t2 : te.2.1 ∈ (labelledChanges T).ids := by
        rw [lc_ids, List.mem_filter]; exact ⟨hends.2.1, (touchedB_iff T _).2 ⟨te, hte, hdt, Or.inr rfl⟩⟩
      rcases landsOn_ends m te e.1 e.2.1 hl with ⟨g1, g2⟩ | ⟨g1, g2⟩ <;> rcases hend with rfl | rfl
      · exact ⟨te.1, t1, hf _ _ g1⟩
      · exact ⟨te.2.1, t2, hf _ _ g2⟩
      · exact ⟨te.2.1, t2, hf _ _ g2⟩
      · exact ⟨te.1, t1, hf _ _ g1⟩
    · exact absurd hz hd
  -- injectivity on the centre
  have hinj : ∀ p ∈ (labelledChanges T).ids, ∀ q ∈ (labelledChanges T).ids, f p = f q → p = q := by
    intro p hp q hq hpq
    have a := (hA p hp).2.1
    have b := (hA q hq).2.1
    rw [hpq] at a
    exact mget_inj m hm.2.1 p q (f q) a b
  have hPn : (labelledChanges T).ids.Nodup := by rw [lc_ids]; exact hTn.filter _
  have hHn : (labelledChanges (glue host T m)).ids.Nodup := by rw [lc_ids]; exact hGn.filter _
  have himg : ((labelledChanges T).ids.map f).Nodup := List.Nodup.map_on hinj hPn
  -- a changed bond of the result between two images comes from a changed template bond between the pre-images
  have hback : ∀ e ∈ (glue host T m).edges, delta e.2.2 ≠ 0 →
      ∃ te ∈ T.edges, delta te.2.2 = delta e.2.2 ∧ landsOn m te e.1 e.2.1 = true := by
    intro e he hd
    rcases F2 e he with ⟨te, hte, hl, hde⟩ | ⟨hz, _, _⟩
    · exact ⟨te, hte, hde.symm, hl⟩
    · exact absurd hz hd
  refine ⟨⟨⟨?_, ?_, ?_, ?_⟩, ?_⟩, ?_⟩
  · -- domain
    rw [List.map_map]
    exact (List.map_congr_left (fun q _ => rfl)).trans (List.map_id _)
  · -- images distinct
    rw [List.map_map]
    exact himg
  · -- node labels
    intro ph hph
    simp only [List.mem_map] at hph
    obtain ⟨q, hq, rfl⟩ := hph
    obtain ⟨hqT, hg, hfH⟩ := hA q hq
    refine ⟨hfH, ?_⟩
    simp only
    rw [lc_attrs _ hGn _ hfH, lc_attrs T hTn q hq]
    obtain ⟨n1, n2⟩ := glue_node_labels host T m hH hT hm q (f q) (mget_mem m q (f q) hg)
    simp only [nodeOk, chgSel, List.all_cons, List.all_nil, Bool.and_true, get_cons, Bool.not_false,
      Bool.true_or, Bool.and_eq_true, decide_eq_true_eq]
    simp [n1, n2]
  · -- bonds
    intro x hx
    obtain ⟨te, hte, hdt, rfl⟩ := (mem_lc_edges T x).1 hx
    have hends := hT.1.2.1 te hte
    have t1 : te.1 ∈ (labelledChanges T).ids := by
      rw [lc_ids, List.mem_filter]; exact ⟨hends.1, (touchedB_iff T _).2 ⟨te, hte, hdt, Or.inl rfl⟩⟩
    have t2 : te.2.1 ∈ (labelledChanges T).ids := by
      rw [lc_ids, List.mem_filter]; exact ⟨hends.2.1, (touchedB_iff T _).2 ⟨te, hte, hdt, Or.inr rfl⟩⟩
    obtain ⟨e, he, hl, hde⟩ := F1 te hte
    have hdE : delta e.2.2 ≠ 0 := by rw [hde]; exact hdt
    -- the result's changed-bond graph has an edge at the image end points
    have hx' : (e.1, e.2.1, [("d", Val.num (delta e.2.2))]) ∈ (labelledChanges (glue host T m)).edges :=
      (mem_lc_edges _ _).2 ⟨e, he, hdE, rfl⟩
    have hendE : ((e.1 = f te.1 ∧ e.2.1 = f te.2.1) ∨ (e.1 = f te.2.1 ∧ e.2.1 = f te.1)) := by
      rcases landsOn_ends m te e.1 e.2.1 hl with ⟨g1, g2⟩ | ⟨g1, g2⟩
      · exact Or.inl ⟨(hf _ _ g1).symm, (hf _ _ g2).symm⟩
      · exact Or.inr ⟨(hf _ _ g2).symm, (hf _ _ g1).symm⟩
    have hsome : ((labelledChanges (glue host T m)).edge? (f te.1) (f te.2.1)).isSome = true := by
      unfold LGraph.edge?
      rw [Option.isSome_map, List.find?_isSome]
      exact ⟨_, hx', by simpa using hendE⟩
    obtain ⟨ea, hea⟩ := Option.isSome_iff_exists.1 hsome
    refine ⟨f te.1, f te.2.1, ea, mget_map_self _ f _ t1, mget_map_self _ f _ t2, hea, ?_⟩
    -- whichever edge the lookup returns, it carries the template bond's order change
    obtain ⟨e2, he2, rfl, hend2⟩ := edge?_some_mem _ _ _ _ hea
    obtain ⟨eG, heG, hdG, rfl⟩ := (mem_lc_edges _ e2).1 he2
    obtain ⟨te', hte', hdd, hl'⟩ := hback eG heG hdG
    have hl2 : landsOn m te eG.1 eG.2.1 = true := by
      rw [landsOn_iff]
      refine ⟨f te.1, f te.2.1, (hA _ t1).2.1, (hA _ t2).2.1, ?_⟩
      simp only at hend2
      rcases hend2 with ⟨a, b⟩ | ⟨a, b⟩
      · exact Or.inl ⟨a.symm, b.symm⟩
      · exact Or.inr ⟨b.symm, a.symm⟩
    have := tpl_edge_unique T hT.1 m hm.2.1 te te' hte hte' _ _ hl2 hl'
    subst this
    simp [edgeOk, chgSel, get_cons, hdd]
  · -- non-bonds
    intro p q hp hq gp gq hno
    obtain ⟨hpP, rfl⟩ := mget_map_some _ f p hp gp
    obtain ⟨hqP, rfl⟩ := mget_map_some _ f q hq gq
    by_contra hcon
    have hsome : ((labelledChanges (glue host T m)).edge? (f p) (f q)).isSome = true := by
      cases hh : ((labelledChanges (glue host T m)).edge? (f p) (f q)).isSome with
      | true => rfl
      | false => exact absurd (by unfold LGraph.hasEdge; exact hh) hcon
    obtain ⟨ea, hea⟩ := Option.isSome_iff_exists.1 hsome
    obtain ⟨e2, he2, _, hend2⟩ := edge?_some_mem _ _ _ _ hea
    obtain ⟨eG, heG, hdG, rfl⟩ := (mem_lc_edges _ e2).1 he2
    obtain ⟨te', hte', hdd, hl'⟩ := hback eG heG hdG
    have hdt' : delta te'.2.2 ≠ 0 := by rw [hdd]; exact hdG
    -- te' joins p and q
    have hpq : (te'.1 = p ∧ te'.2.1 = q) ∨ (te'.1 = q ∧ te'.2.1 = p) := by
      have gp' := (hA p hpP).2.1
      have gq' := (hA q hqP).2.1
      simp only at hend2
      rcases landsOn_ends m te' eG.1 eG.2.1 hl' with ⟨g1, g2⟩ | ⟨g1, g2⟩ <;> rcases hend2 with ⟨a, b⟩ | ⟨a, b⟩
      · rw [a] at g1; rw [b] at g2
        exact Or.inl ⟨mget_inj m hm.2.1 _ _ _ g1 gp', mget_inj m hm.2.1 _ _ _ g2 gq'⟩
      · rw [a] at g1; rw [b] at g2
        exact Or.inr ⟨mget_inj m hm.2.1 _ _ _ g1 gq', mget_inj m hm.2.1 _ _ _ g2 gp'⟩
      · rw [b] at g1; rw [a] at g2
        exact Or.inr ⟨mget_inj m hm.2.1 _ _ _ g1 gq', mget_inj m hm.2.1 _ _ _ g2 gp'⟩
      · rw [b] at g1; rw [a] at g2
        exact Or.inl ⟨mget_inj m hm.2.1 _ _ _ g1 gp', mget_inj m hm.2.1 _ _ _ g2 gq'⟩
    have hx : (te'.1, te'.2.1, [("d", Val.num (delta te'.2.2))]) ∈ (labelledChanges T).edges :=
      (mem_lc_edges T _).2 ⟨te', hte', hdt', rfl⟩
    have : ((labelledChanges T).edge? p q).isSome = true := by
      unfold LGraph.edge?
      rw [Option.isSome_map, List.find?_isSome]
      exact ⟨_, hx, by simpa using hpq⟩
    unfold LGraph.hasEdge at hno
    rw [this] at hno; exact Bool.noConfusion hno
  · -- equally many centre atoms
    have hperm : (labelledChanges (glue host T m)).ids.Perm ((labelledChanges T).ids.map f) := by
      rw [List.perm_ext_iff_of_nodup hHn himg]
      intro h
      constructor
      · intro hh; obtain ⟨q, hq, rfl⟩ := hB h hh; exact List.mem_map.2 ⟨q, hq, rfl⟩
      · intro hh; obtain ⟨q, hq, rfl⟩ := List.mem_map.1 hh; exact (hA q hq).2.2
    have := hperm.length_eq
    simp only [List.length_map, LGraph.ids] at this
    exact this

/-- The labelled changed-bond graph of a well-formed ITS-like graph is a well-formed graph. -/
theorem lc_wf (T : LGraph) (hT : T.WF) : (labelledChanges T).WF := by
  refine ⟨by rw [lc_ids]; exact hT.1.filter _, ?_, ?_⟩
  · intro x hx
    obtain ⟨te, hte, hdt, rfl⟩ := (mem_lc_edges T x).1 hx
    have hends := hT.2.1 te hte
    refine ⟨?_, ?_, hends.2.2⟩
    · rw [lc_ids, List.mem_filter]; exact ⟨hends.1, (touchedB_iff T _).2 ⟨te, hte, hdt, Or.inl rfl⟩⟩
    · rw [lc_ids, List.mem_filter]; exact ⟨hends.2.1, (touchedB_iff T _).2 ⟨te, hte, hdt, Or.inr rfl⟩⟩
  · have : (labelledChanges T).edges.map (fun e => (min e.1 e.2.1, max e.1 e.2.1)) =
        (T.edges.filter fun e => changed e.2.2).map (fun e => (min e.1 e.2.1, max e.1 e.2.1)) := by
      unfold labelledChanges; simp only [List.map_map]; rfl
    rw [this]
    exact hT.2.2.sublist (List.Sublist.map _ List.filter_sublist)

/-- **C03 (c) as the verdict the harness computes** (`specC`, i.e. `isoDecide` on the two labelled
changed-bond graphs), given the matching engine's characterisation of `isoDecide`
(`SynKit.Match.isoDecide_iff`, proved in `SynKitProofs/Match.lean`; taken here as a hypothesis so that
this file does not depend on that development). -/
theorem glue_specC_of_engine
    (hengine : ∀ H P : LGraph, P.WF → (isoDecide chgSel H P = true ↔ ∃ m, IsIso chgSel H P m))
    (host T : LGraph) (m : Mapping) (hH : WFHost host) (hT : WFTemplate T)
    (hm : IsMono monoSel host (left T) m) (hr : RoundExact host T m) :
    specC (glue host T m) T = true := by
  unfold specC
  exact (hengine _ _ (lc_wf T hT.1)).2 (glue_lc_iso host T m hH hT hm hr)

/-! ### clause (a) as the verdict `specA` -/

theorem attrs_not_mem (g : LGraph) (v : Nat) (h : v ∉ g.ids) : g.attrs v = [] := by
  unfold LGraph.attrs
  cases hf : g.nodes.find? (fun q => decide (q.1 = v)) with
  | none => rfl
  | some q =>
    have h1 : q.1 = v := by simpa using List.find?_some hf
    have h2 := List.mem_of_find?_eq_some hf
    exact absurd (List.mem_map.2 ⟨q, h2, h1⟩) h

/-- The four label fields with `_default_tg`'s defaults. -/
def projAttrs (n : Nat) (a : Attrs) : Attrs :=
  [("element", pyGet a "element" (.str "*")), ("aromatic", pyGet a "aromatic" (.bool false)),
   ("hcount", pyGet a "hcount" (.num 0)), ("charge", pyGet a "charge" (.num 0)),
   ("atom_map", Val.num (2 * (n : Int)))]

theorem isH_projAttrs (n : Nat) (a : Attrs) : isH (projAttrs n a) = isH a := by
  unfold isH projAttrs
  rw [get_cons]
  simp only [if_true]
  unfold pyGet Attrs.get Dict.getD
  cases Dict.get? a "element" <;> simp

theorem pyGet_projAttrs (n : Nat) (a : Attrs) :
    pyGet (projAttrs n a) "element" (.str "*") = pyGet a "element" (.str "*") ∧
    pyGet (projAttrs n a) "aromatic" (.bool false) = pyGet a "aromatic" (.bool false) ∧
    pyGet (projAttrs n a) "hcount" (.num 0) = pyGet a "hcount" (.num 0) ∧
    pyGet (projAttrs n a) "charge" (.num 0) = pyGet a "charge" (.num 0) := by
  unfold projAttrs
  refine ⟨?_, ?_, ?_, ?_⟩ <;> simp [pyGet, Dict.getD, Dict.get?]

theorem hostProj_attrs (host : LGraph) (v : Nat) : isH ((hostProj host).attrs v) = isH (host.attrs v) := by
  by_cases hv : v ∈ host.ids
  · have := attrs_map_nodes host.nodes (hostProj host).edges host.edges
      (fun p => (p.1, projAttrs p.1 p.2)) (fun p => rfl) v hv
    have e : hostProj host = ⟨host.nodes.map (fun p => (p.1, projAttrs p.1 p.2)), (hostProj host).edges⟩ := rfl
    rw [e, this]
    exact isH_projAttrs _ _
  · have h2 : v ∉ (hostProj host).ids := by
      unfold hostProj LGraph.ids; simp only [List.map_map]
      intro hh; apply hv
      obtain ⟨p, hp, rfl⟩ := List.mem_map.1 hh
      exact List.mem_map.2 ⟨p, hp, rfl⟩
    rw [attrs_not_mem _ _ h2, attrs_not_mem _ _ hv]

theorem hostProj_neighbors (host : LGraph) (v : Nat) : (hostProj host).neighbors v = host.neighbors v := by
  unfold hostProj LGraph.neighbors
  simp only [List.filterMap_map]
  rfl

/-- Hydrogen normalisation does not see the difference between the substrate and its rendering by
`its_decompose`. -/
theorem normH_hostProj (host : LGraph) : normH (hostProj host) = normH host := by
  unfold normH
  simp only [hostProj_attrs, hostProj_neighbors]
  have hn : (hostProj host).nodes = host.nodes.map (fun p => (p.1, projAttrs p.1 p.2)) := rfl
  have he : (hostProj host).edges = host.edges.map (fun e => (e.1, e.2.1, [("order", pyGet e.2.2 "order" (.num 2))])) := rfl
  rw [hn, he]
  simp only [List.filter_map, List.map_map]
  congr 1
  · apply List.map_congr_left
    intro p _
    simp only [Function.comp]
    obtain ⟨a1, a2, a3, a4⟩ := pyGet_projAttrs p.1 p.2
    rw [a1, a2, a3, a4, isH_projAttrs]

theorem sameLabelled_refl (G : LGraph) : sameLabelled G G = true := by
  unfold sameLabelled
  simp only [Bool.and_eq_true, decide_eq_true_eq, List.all_eq_true, List.any_eq_true, Bool.or_eq_true]
  refine ⟨⟨⟨trivial, ?_⟩, trivial⟩, ?_⟩
  · intro p hp; exact List.contains_iff_mem.2 hp
  · intro e he; exact ⟨e, he, Or.inl rfl⟩

/-- **C03 (a) as the verdict the harness computes.** -/
theorem glue_specA_verdict (host T : LGraph) (m : Mapping) (hH : WFHost host) (hT : WFTemplate T)
    (hm : IsMono monoSel host (left T) m) : specA host (glue host T m) = true := by
  have h1 : left (glue host T m) = hostProj host := by
    have n := glue_left_nodes host T m hH hT hm
    have e := glue_left_edges host T m hH hT hm
    cases hL : left (glue host T m) with
    | mk ns es => rw [hL] at n e; simp only at n e; rw [n, e]
  unfold specA
  rw [h1, normH_hostProj]
  exact sameLabelled_refl _

theorem filterMap_ite_eq {α β : Type} (c : α → Prop) [DecidablePred c] (h : α → β) (l : List α) :
    l.filterMap (fun e => if c e then some (h e) else none) = (l.filter fun e => decide (c e)).map h := by
  induction l with
  | nil => rfl
  | cons x xs ih =>
    by_cases hx : c x <;> simp [List.filterMap_cons, List.filter_cons, hx, ih]

/-- The reactant side of a well-formed template is a well-formed graph. -/
theorem left_wf (T : LGraph) (hT : WFTemplate T) : (left T).WF := by
  have hids := left_ids T hT
  have hedges : (left T).edges = (T.edges.filter fun e => decide (hasKey e.2.2 "order" = true ∧ numOf (ordAt e.2.2 0) > 0)).map
      (fun e => (e.1, e.2.1, [("order", ordAt e.2.2 0)])) := by
    unfold left decompSide
    exact filterMap_ite_eq _ _ _
  refine ⟨by rw [hids]; exact hT.1.1, ?_, ?_⟩
  · intro x hx
    rw [hedges] at hx
    obtain ⟨e, he, rfl⟩ := List.mem_map.1 hx
    have := hT.1.2.1 e (List.mem_filter.1 he).1
    rw [hids]; exact this
  · rw [hedges, List.map_map]
    exact hT.1.2.2.sublist (List.Sublist.map _ List.filter_sublist)

end SynKit.Reactor

import SynKitModel.CrnCanon
import Mathlib.Data.List.Basic
import Mathlib.Logic.Relation
import Mathlib.Data.List.GetD
import Mathlib.Data.List.Nodup
import Mathlib.Data.List.Pairwise
import Mathlib.Data.List.Perm.Basic
import Mathlib.Data.List.Perm.Subperm
/-!
# C18 — helper lemmas for the directed isomorphism engine, orbits and canonical forms

Helper lemmas only; the property theorems are restated in `SynKitProofs/Props/C18.lean`
(the primed versions here are their proofs).
-/
namespace SynKit.CrnCanon
open SynKit

/-! ## coding of values is injective; lexicographic order; minimum of a list; permutations -/

/-! ## codeVal is injective (prefix-free) -/

theorem map_toNat_inj (a b : List Char) (h : a.map Char.toNat = b.map Char.toNat) : a = b := by
  induction a generalizing b with
  | nil => cases b <;> simp_all
  | cons x xs ih =>
    cases b with
    | nil => simp at h
    | cons y ys =>
      simp only [List.map_cons, List.cons.injEq] at h
      have := Char.toNat_inj.mp h.1
      rw [this, ih ys h.2]

mutual
theorem codeVal_pf : ∀ (a b : Val) (r r' : List Nat),
    codeVal a ++ r = codeVal b ++ r' → a = b ∧ r = r'
  | .none, b, r, r', h => by
    cases b <;> simp [codeVal] at h ⊢
    exact h
  | .num x, b, r, r', h => by
    cases b <;> simp [codeVal] at h ⊢
    rename_i y
    obtain ⟨h1, h2, h3⟩ := h
    refine ⟨?_, h3⟩
    split at h1 <;> split at h1 <;> omega
  | .str s, b, r, r', h => by
    cases b <;> simp [codeVal] at h ⊢
    rename_i t
    obtain ⟨h1, h2⟩ := h
    have := List.append_inj h2 (by simpa using h1)
    exact ⟨String.ext (map_toNat_inj _ _ this.1), this.2⟩
  | .bool x, b, r, r', h => by
    cases b <;> simp [codeVal] at h ⊢
    rename_i y
    obtain ⟨h1, h2⟩ := h
    refine ⟨?_, h2⟩
    cases x <;> cases y <;> simp_all
  | .tup xs, b, r, r', h => by
    cases b <;> simp [codeVal] at h ⊢
    rename_i ys
    obtain ⟨h1, h2⟩ := h
    exact codeVals_pf xs ys r r' h1 h2
theorem codeVals_pf : ∀ (xs ys : List Val) (r r' : List Nat), xs.length = ys.length →
    codeVals xs ++ r = codeVals ys ++ r' → xs = ys ∧ r = r'
  | [], ys, r, r', hl, h => by
    cases ys with
    | nil => simpa [codeVals] using h
    | cons => simp at hl
  | x :: xs, ys, r, r', hl, h => by
    cases ys with
    | nil => simp at hl
    | cons y ys =>
      simp only [codeVals, List.append_assoc] at h
      have h1 := codeVal_pf x y _ _ h
      have h2 := codeVals_pf xs ys r r' (by simpa using hl) h1.2
      exact ⟨by rw [h1.1, h2.1], h2.2⟩
end

theorem codeVal_injective (a b : Val) (h : codeVal a = codeVal b) : a = b :=
  (codeVal_pf a b [] [] (by simpa using h)).1

/-! ## lexLe is a total order -/

theorem lexLe_refl (a : List Nat) : lexLe a a = true := by
  induction a with
  | nil => simp [lexLe]
  | cons x xs ih => simp [lexLe, ih]

theorem lexLe_total (a b : List Nat) : lexLe a b = true ∨ lexLe b a = true := by
  induction a generalizing b with
  | nil => simp [lexLe]
  | cons x xs ih =>
    cases b with
    | nil => simp [lexLe]
    | cons y ys =>
      simp only [lexLe, Bool.or_eq_true, Bool.and_eq_true, decide_eq_true_eq, beq_iff_eq]
      rcases Nat.lt_trichotomy x y with h | h | h
      · exact Or.inl (Or.inl h)
      · subst h
        rcases ih ys with h | h
        · exact Or.inl (Or.inr ⟨rfl, h⟩)
        · exact Or.inr (Or.inr ⟨rfl, h⟩)
      · exact Or.inr (Or.inl h)

theorem lexLe_trans (a b c : List Nat) (h1 : lexLe a b = true) (h2 : lexLe b c = true) :
    lexLe a c = true := by
  induction a generalizing b c with
  | nil => simp [lexLe]
  | cons x xs ih =>
    cases b with
    | nil => simp [lexLe] at h1
    | cons y ys =>
      cases c with
      | nil => simp [lexLe] at h2
      | cons z zs =>
        simp only [lexLe, Bool.or_eq_true, Bool.and_eq_true, decide_eq_true_eq, beq_iff_eq] at h1 h2 ⊢
        rcases h1 with h1 | ⟨rfl, h1⟩
        · rcases h2 with h2 | ⟨rfl, h2⟩
          · exact Or.inl (by omega)
          · exact Or.inl h1
        · rcases h2 with h2 | ⟨rfl, h2⟩
          · exact Or.inl h2
          · exact Or.inr ⟨rfl, ih ys zs h1 h2⟩

theorem lexLe_antisymm (a b : List Nat) (h1 : lexLe a b = true) (h2 : lexLe b a = true) : a = b := by
  induction a generalizing b with
  | nil => cases b <;> simp_all [lexLe]
  | cons x xs ih =>
    cases b with
    | nil => simp [lexLe] at h1
    | cons y ys =>
      simp only [lexLe, Bool.or_eq_true, Bool.and_eq_true, decide_eq_true_eq, beq_iff_eq] at h1 h2
      rcases h1 with h1 | ⟨rfl, h1⟩
      · rcases h2 with h2 | ⟨rfl, h2⟩
        · omega
        · omega
      · rcases h2 with h2 | ⟨_, h2⟩
        · omega
        · rw [ih ys h1 h2]

/-! ## minList -/

theorem foldMin_mem (xs : List (List Nat)) (x : List Nat) :
    xs.foldl (fun m y => if lexLe m y then m else y) x ∈ x :: xs := by
  induction xs generalizing x with
  | nil => simp
  | cons y ys ih =>
    simp only [List.foldl_cons]
    by_cases hxy : lexLe x y = true
    · rw [if_pos hxy]
      rcases List.mem_cons.mp (ih x) with h | h
      · rw [h]; simp
      · exact List.mem_cons_of_mem _ (List.mem_cons_of_mem _ h)
    · rw [if_neg hxy]
      exact List.mem_cons_of_mem _ (ih y)

theorem foldMin_le_init (xs : List (List Nat)) (x : List Nat) :
    lexLe (xs.foldl (fun m y => if lexLe m y then m else y) x) x = true := by
  induction xs generalizing x with
  | nil => simpa using lexLe_refl x
  | cons y ys ih =>
    simp only [List.foldl_cons]
    by_cases hxy : lexLe x y = true
    · rw [if_pos hxy]; exact ih x
    · rw [if_neg hxy]
      rcases lexLe_total x y with h | h
      · exact absurd h hxy
      · exact lexLe_trans _ _ _ (ih y) h

theorem foldMin_le (xs : List (List Nat)) (x z : List Nat) (hz : z ∈ xs) :
    lexLe (xs.foldl (fun m y => if lexLe m y then m else y) x) z = true := by
  induction xs generalizing x with
  | nil => simp at hz
  | cons y ys ih =>
    simp only [List.foldl_cons]
    rcases List.mem_cons.mp hz with rfl | hz
    · by_cases hxz : lexLe x z = true
      · rw [if_pos hxz]
        exact lexLe_trans _ _ _ (foldMin_le_init ys x) hxz
      · rw [if_neg hxz]
        exact foldMin_le_init ys z
    · exact ih _ hz

theorem minList_mem (l : List (List Nat)) (h : l ≠ []) : minList l ∈ l := by
  cases l with
  | nil => exact absurd rfl h
  | cons x xs => exact foldMin_mem xs x

theorem minList_le (l : List (List Nat)) (x : List Nat) (hx : x ∈ l) : lexLe (minList l) x = true := by
  cases l with
  | nil => simp at hx
  | cons y ys =>
    rcases List.mem_cons.mp hx with rfl | hx
    · exact foldMin_le_init ys x
    · exact foldMin_le ys y x hx

theorem minList_congr (l₁ l₂ : List (List Nat)) (h : ∀ x, x ∈ l₁ ↔ x ∈ l₂) :
    minList l₁ = minList l₂ := by
  by_cases h1 : l₁ = []
  · subst h1
    have : l₂ = [] := List.eq_nil_iff_forall_not_mem.mpr fun x hx => by simpa using (h x).2 hx
    subst this; rfl
  · have h2 : l₂ ≠ [] := by
      intro e; subst e
      exact h1 (List.eq_nil_iff_forall_not_mem.mpr fun x hx => by simpa using (h x).1 hx)
    exact lexLe_antisymm _ _
      (minList_le l₁ _ ((h _).2 (minList_mem l₂ h2)))
      (minList_le l₂ _ ((h _).1 (minList_mem l₁ h1)))

/-! ## insertAll / perms -/

theorem mem_insertAll (x : Nat) (ys l : List Nat) :
    l ∈ insertAll x ys ↔ ∃ a b, ys = a ++ b ∧ l = a ++ x :: b := by
  induction ys generalizing l with
  | nil =>
    simp only [insertAll, List.mem_singleton]
    constructor
    · rintro rfl; exact ⟨[], [], rfl, rfl⟩
    · rintro ⟨a, b, h1, h2⟩
      have := List.append_eq_nil_iff.mp h1.symm
      rw [this.1, this.2] at h2; exact h2
  | cons y ys ih =>
    simp only [insertAll, List.mem_cons, List.mem_map]
    constructor
    · rintro (rfl | ⟨l', hl', rfl⟩)
      · exact ⟨[], y :: ys, rfl, rfl⟩
      · obtain ⟨a, b, rfl, rfl⟩ := (ih l').1 hl'
        exact ⟨y :: a, b, rfl, rfl⟩
    · rintro ⟨a, b, h1, rfl⟩
      cases a with
      | nil => left; simp at h1; simp [h1]
      | cons a0 as =>
        right
        simp only [List.cons_append, List.cons.injEq] at h1
        obtain ⟨rfl, rfl⟩ := h1
        exact ⟨as ++ x :: b, (ih _).2 ⟨as, b, rfl, rfl⟩, rfl⟩

theorem mem_perms (xs l : List Nat) : l ∈ perms xs ↔ l.Perm xs := by
  induction xs generalizing l with
  | nil => simp [perms]
  | cons x xs ih =>
    simp only [perms, List.mem_flatMap]
    constructor
    · rintro ⟨p, hp, hl⟩
      obtain ⟨a, b, rfl, rfl⟩ := (mem_insertAll x p l).1 hl
      have := (ih _).1 hp
      exact (List.perm_middle).trans (this.cons x)
    · intro h
      have hx : x ∈ l := h.symm.subset (List.mem_cons_self)
      obtain ⟨a, b, rfl⟩ := List.append_of_mem hx
      have h' : (a ++ b).Perm xs := (List.perm_middle.symm.trans h).cons_inv
      exact ⟨a ++ b, (ih _).2 h', (mem_insertAll x _ _).2 ⟨a, b, rfl, rfl⟩⟩

/-! ## the back-tracking enumerator `allIsoD` is sound, complete and duplicate-free -/

/-! ## Generic facts about the back-tracking recursion `extendG` -/

/-- `new` (most recent first) is a chain of accepted extensions of `acc`. -/
def ValidExt (ok : Mapping → Nat → Nat → Bool) (hs : List Nat) (acc : Mapping) : Mapping → Prop
  | [] => True
  | (p, h) :: rest => ValidExt ok hs acc rest ∧ h ∈ hs ∧ ok (rest ++ acc) p h = true

theorem validExt_snoc (ok : Mapping → Nat → Nat → Bool) (hs : List Nat) (acc new : Mapping) (p h : Nat) :
    ValidExt ok hs acc (new ++ [(p, h)]) ↔
      (h ∈ hs ∧ ok acc p h = true) ∧ ValidExt ok hs ((p, h) :: acc) new := by
  induction new with
  | nil => simp [ValidExt]
  | cons x xs ih =>
    obtain ⟨q, g⟩ := x
    simp only [List.cons_append, ValidExt, ih, List.append_assoc]
    constructor
    · rintro ⟨⟨a, b⟩, c, d⟩; exact ⟨a, b, c, d⟩
    · rintro ⟨a, b, c, d⟩; exact ⟨⟨a, b⟩, c, d⟩

theorem mem_extendG (ok : Mapping → Nat → Nat → Bool) (hs : List Nat) (ps : List Nat) (acc m : Mapping) :
    m ∈ extendG ok hs ps acc ↔
      ∃ new, m = new ++ acc ∧ new.map Prod.fst = ps.reverse ∧ ValidExt ok hs acc new := by
  induction ps generalizing acc m with
  | nil =>
    simp only [extendG, List.mem_singleton, List.reverse_nil, List.map_eq_nil_iff]
    constructor
    · intro h; exact ⟨[], by simp [h], rfl, trivial⟩
    · rintro ⟨new, rfl, rfl, -⟩; rfl
  | cons p ps ih =>
    simp only [extendG, List.mem_flatMap]
    constructor
    · rintro ⟨h, hh, hm⟩
      split at hm
      · next hok =>
        obtain ⟨new, rfl, hfst, hv⟩ := (ih _ _).1 hm
        exact ⟨new ++ [(p, h)], by simp, by simp [hfst],
          (validExt_snoc ok hs acc new p h).2 ⟨⟨hh, hok⟩, hv⟩⟩
      · simp at hm
    · rintro ⟨new, rfl, hfst, hv⟩
      rw [List.reverse_cons] at hfst
      obtain ⟨init, ⟨q, h⟩, rfl⟩ : ∃ init x, new = init ++ [x] := by
        cases hne : new.reverse with
        | nil => simp_all
        | cons x xs => exact ⟨xs.reverse, x, by simpa using congrArg List.reverse hne⟩
      simp only [List.map_append, List.map_cons, List.map_nil] at hfst
      obtain ⟨h1, h2⟩ := List.append_inj' hfst rfl
      simp only [List.cons.injEq, and_true] at h2
      subst h2
      obtain ⟨⟨hh, hok⟩, hv'⟩ := (validExt_snoc ok hs acc init q h).1 hv
      refine ⟨h, hh, ?_⟩
      rw [if_pos hok]
      exact (ih _ _).2 ⟨init, by simp, h1, hv'⟩

theorem extendG_shape (ok : Mapping → Nat → Nat → Bool) (hs ps : List Nat) (acc m : Mapping)
    (hm : m ∈ extendG ok hs ps acc) : ∃ new, m = new ++ acc ∧ new.length = ps.length := by
  obtain ⟨new, h1, h2, -⟩ := (mem_extendG ok hs ps acc m).1 hm
  exact ⟨new, h1, by simpa using congrArg List.length h2⟩

theorem extendG_nodup (ok : Mapping → Nat → Nat → Bool) (hs : List Nat) (hhs : hs.Nodup)
    (ps : List Nat) (acc : Mapping) : (extendG ok hs ps acc).Nodup := by
  induction ps generalizing acc with
  | nil => simp [extendG]
  | cons p ps ih =>
    simp only [extendG]
    rw [List.nodup_flatMap]
    refine ⟨fun h _ => ?_, ?_⟩
    · split
      · exact ih _
      · exact List.nodup_nil
    · refine List.Pairwise.imp ?_ hhs
      intro h h' hne
      show List.Disjoint _ _
      intro m hm hm'
      dsimp only at hm hm'
      split at hm
      · split at hm'
        · obtain ⟨n1, e1, l1⟩ := extendG_shape ok hs ps _ m hm
          obtain ⟨n2, e2, l2⟩ := extendG_shape ok hs ps _ m hm'
          have := List.append_inj (e1.symm.trans e2) (l1.trans l2.symm)
          simp only [List.cons.injEq, Prod.mk.injEq, true_and, and_true] at this
          exact hne this.2
        · simp at hm'
      · simp at hm

/-! ## `app` on duplicate-free mapping lists -/

theorem app_cons (q g : Nat) (rest : Mapping) (p : Nat) :
    app ((q, g) :: rest) p = if q = p then g else app rest p := by
  by_cases h : q = p
  · simp [app, h]
  · simp [app, h]

theorem app_of_mem (m : Mapping) (hm : (m.map (·.1)).Nodup) (p h : Nat) (hmem : (p, h) ∈ m) :
    app m p = h := by
  induction m with
  | nil => simp at hmem
  | cons x rest ih =>
    obtain ⟨q, g⟩ := x
    rw [app_cons]
    simp only [List.map_cons, List.nodup_cons] at hm
    rcases List.mem_cons.mp hmem with e | hmem
    · simp only [Prod.mk.injEq] at e
      rw [if_pos e.1.symm, e.2]
    · have hne : q ≠ p := by
        rintro rfl
        exact hm.1 (List.mem_map.mpr ⟨(q, h), hmem, rfl⟩)
      rw [if_neg hne]
      exact ih hm.2 hmem

theorem mem_of_app (m : Mapping) (p : Nat) (hp : p ∈ m.map (·.1)) : (p, app m p) ∈ m := by
  induction m with
  | nil => simp at hp
  | cons x rest ih =>
    obtain ⟨q, g⟩ := x
    rw [app_cons]
    by_cases h : q = p
    · rw [if_pos h, h]; exact List.mem_cons_self
    · rw [if_neg h]
      simp only [List.map_cons, List.mem_cons] at hp
      rcases hp with e | hp
      · exact absurd e.symm h
      · exact List.mem_cons_of_mem _ (ih hp)

/-! ## The accepted chains of `extendOkD`, order-independently -/

/-- Relation between two different entries of an accepted assignment. -/
def PairOk (sel : SelD) (H P : LGraph) (a b : Nat × Nat) : Prop :=
  a.2 ≠ b.2 ∧ arcOkD sel (H.arc? a.2 b.2) (P.arc? a.1 b.1) = true ∧
    arcOkD sel (H.arc? b.2 a.2) (P.arc? b.1 a.1) = true

theorem pairOk_symm (sel : SelD) (H P : LGraph) {a b : Nat × Nat} (h : PairOk sel H P a b) :
    PairOk sel H P b a := ⟨h.1.symm, h.2.2, h.2.1⟩

instance (sel : SelD) (H P : LGraph) : Std.Symm (PairOk sel H P) := ⟨fun _ _ h => pairOk_symm sel H P h⟩

/-- What one entry of an accepted assignment satisfies on its own. -/
def EntryOk (sel : SelD) (H P : LGraph) (a : Nat × Nat) : Prop :=
  a.2 ∈ H.ids ∧ nodeOkD sel (H.attrs a.2) (P.attrs a.1) = true ∧
    arcOkD sel (H.arc? a.2 a.2) (P.arc? a.1 a.1) = true

def Good (sel : SelD) (H P : LGraph) (m : Mapping) : Prop :=
  (∀ a ∈ m, EntryOk sel H P a) ∧ m.Pairwise (PairOk sel H P)

theorem validExt_iff_good (sel : SelD) (H P : LGraph) (new : Mapping) :
    ValidExt (extendOkD sel H P) H.ids [] new ↔ Good sel H P new := by
  induction new with
  | nil => simp [ValidExt, Good]
  | cons x rest ih =>
    obtain ⟨p, h⟩ := x
    simp only [ValidExt, ih, Good, List.append_nil, List.forall_mem_cons, List.pairwise_cons,
      EntryOk, PairOk, extendOkD, Bool.and_eq_true, Bool.not_eq_true', List.any_eq_false,
      List.all_eq_true, decide_eq_true_eq]
    constructor
    · rintro ⟨⟨h1, h2⟩, h3, ⟨⟨h4, h5⟩, h6⟩, h7⟩
      exact ⟨⟨⟨h3, h5, h6⟩, h1⟩, fun b hb => ⟨fun e => h4 b hb e.symm, (h7 b hb).1, (h7 b hb).2⟩, h2⟩
    · rintro ⟨⟨⟨h3, h5, h6⟩, h1⟩, h7, h2⟩
      exact ⟨⟨h1, h2⟩, h3, ⟨⟨fun b hb e => (h7 b hb).1 e.symm, h5⟩, h6⟩,
        fun b hb => ⟨(h7 b hb).2.1, (h7 b hb).2.2⟩⟩

theorem good_reverse (sel : SelD) (H P : LGraph) (m : Mapping) :
    Good sel H P m.reverse ↔ Good sel H P m := by
  unfold Good
  rw [List.pairwise_reverse]
  have : (fun a b => PairOk sel H P b a) = PairOk sel H P := by
    funext a b
    exact propext ⟨fun h => pairOk_symm sel H P h, fun h => pairOk_symm sel H P h⟩
  rw [this]
  simp only [List.mem_reverse]

theorem good_iff_iso (sel : SelD) (H P : LGraph) (hP : P.ids.Nodup) (m : Mapping)
    (hm : m.map (·.1) = P.ids) (hsize : H.ids.length = P.ids.length) :
    Good sel H P m ↔ IsIsoF sel H P (app m) := by
  have hnd : (m.map (·.1)).Nodup := hm ▸ hP
  have hin : ∀ p ∈ P.ids, (p, app m p) ∈ m := fun p hp => mem_of_app m p (hm ▸ hp)
  constructor
  · rintro ⟨hE, hR⟩
    have hall := List.Pairwise.forall hR
    refine ⟨?_, ?_, hsize, ?_, ?_⟩
    · intro p hp q hq e
      by_contra hne
      have := hall (hin p hp) (hin q hq) (fun e' => hne (congrArg Prod.fst e'))
      exact this.1 e
    · intro p hp; exact (hE _ (hin p hp)).1
    · intro p hp; exact (hE _ (hin p hp)).2.1
    · intro p hp q hq
      by_cases hpq : p = q
      · subst hpq; exact (hE _ (hin p hp)).2.2
      · exact (hall (hin p hp) (hin q hq) (fun e' => hpq (congrArg Prod.fst e'))).2.1
  · intro hI
    have hfst : ∀ a ∈ m, a.1 ∈ P.ids := fun a ha => hm ▸ List.mem_map.mpr ⟨a, ha, rfl⟩
    have hsnd : ∀ a ∈ m, a.2 = app m a.1 := fun a ha => (app_of_mem m hnd a.1 a.2 ha).symm
    refine ⟨?_, ?_⟩
    · intro a ha
      have hp := hfst a ha
      have e := hsnd a ha
      refine ⟨?_, ?_, ?_⟩
      · rw [e]; exact hI.mem _ hp
      · rw [e]; exact hI.node _ hp
      · rw [e]; exact hI.arc _ hp _ hp
    · have hne : m.Pairwise (fun a b => a.1 ≠ b.1) := (List.pairwise_map).1 hnd
      refine List.Pairwise.imp_of_mem ?_ hne
      intro a b ha hb hab
      have hpa := hfst a ha
      have hpb := hfst b hb
      refine ⟨?_, ?_, ?_⟩
      · rw [hsnd a ha, hsnd b hb]
        exact fun e => hab (hI.inj _ hpa _ hpb e)
      · rw [hsnd a ha, hsnd b hb]; exact hI.arc _ hpa _ hpb
      · rw [hsnd a ha, hsnd b hb]; exact hI.arc _ hpb _ hpa

/-! ## The enumerator -/

theorem mem_allIsoD' (sel : SelD) (H P : LGraph) (hP : P.ids.Nodup) (m : Mapping) :
    m ∈ allIsoD sel H P ↔ IsIsoD sel H P m := by
  unfold allIsoD IsIsoD
  by_cases hsize : H.ids.length = P.ids.length
  · rw [if_pos hsize]
    have hrev : m ∈ (extendG (extendOkD sel H P) H.ids P.ids []).map List.reverse ↔
        m.reverse ∈ extendG (extendOkD sel H P) H.ids P.ids [] := by
      rw [List.mem_map]
      constructor
      · rintro ⟨m', hm', rfl⟩; simpa using hm'
      · intro h; exact ⟨m.reverse, h, by simp⟩
    rw [hrev, mem_extendG]
    constructor
    · rintro ⟨new, e, hfst, hv⟩
      rw [List.append_nil] at e
      subst e
      have hm : m.map (·.1) = P.ids := by
        have := congrArg List.reverse hfst
        simpa using this
      refine ⟨hm, ?_⟩
      rw [validExt_iff_good, good_reverse] at hv
      exact (good_iff_iso sel H P hP m hm hsize).1 hv
    · rintro ⟨hm, hI⟩
      refine ⟨m.reverse, by simp, ?_, ?_⟩
      · rw [List.map_reverse]; exact congrArg List.reverse hm
      · rw [validExt_iff_good, good_reverse]
        exact (good_iff_iso sel H P hP m hm hsize).2 hI
  · rw [if_neg hsize]
    simp only [List.not_mem_nil, false_iff]
    rintro ⟨-, hI⟩
    exact hsize hI.size

theorem allIsoD_nodup' (sel : SelD) (H P : LGraph) (hH : H.ids.Nodup) : (allIsoD sel H P).Nodup := by
  unfold allIsoD
  split
  · exact (extendG_nodup _ _ hH _ _).map List.reverse_injective
  · exact List.nodup_nil

/-! ## structure-preserving maps: closure laws (identity, composition, inverse), surjectivity -/

/-! ## The closures are equivalence relations -/

theorem nodeOkD_iff (sel : SelD) (a b : Attrs) :
    nodeOkD sel a b = true ↔ sel.nodeKeys.map a.get = sel.nodeKeys.map b.get := by
  simp [nodeOkD, List.all_eq_true]

theorem nodeOkD_refl (sel : SelD) (a : Attrs) : nodeOkD sel a a = true :=
  (nodeOkD_iff sel a a).2 rfl

theorem nodeOkD_symm (sel : SelD) (a b : Attrs) (h : nodeOkD sel a b = true) : nodeOkD sel b a = true :=
  (nodeOkD_iff sel b a).2 ((nodeOkD_iff sel a b).1 h).symm

theorem nodeOkD_trans (sel : SelD) (a b c : Attrs) (h1 : nodeOkD sel a b = true) (h2 : nodeOkD sel b c = true) :
    nodeOkD sel a c = true :=
  (nodeOkD_iff sel a c).2 (((nodeOkD_iff sel a b).1 h1).trans ((nodeOkD_iff sel b c).1 h2))

theorem arcOkD_some_iff (sel : SelD) (a b : Attrs) :
    arcOkD sel (some a) (some b) = true ↔ sel.edgeKeys.map a.get = sel.edgeKeys.map b.get := by
  simp [arcOkD, List.all_eq_true]

theorem arcOkD_refl (sel : SelD) (a : Option Attrs) : arcOkD sel a a = true := by
  cases a with
  | none => rfl
  | some a => exact (arcOkD_some_iff sel a a).2 rfl

theorem arcOkD_symm (sel : SelD) (a b : Option Attrs) (h : arcOkD sel a b = true) : arcOkD sel b a = true := by
  cases a <;> cases b
  · rfl
  · simp [arcOkD] at h
  · simp [arcOkD] at h
  · exact (arcOkD_some_iff _ _ _).2 ((arcOkD_some_iff _ _ _).1 h).symm

theorem arcOkD_trans (sel : SelD) (a b c : Option Attrs) (h1 : arcOkD sel a b = true) (h2 : arcOkD sel b c = true) :
    arcOkD sel a c = true := by
  cases a <;> cases b <;> cases c
  all_goals first
    | rfl
    | (exfalso; simp [arcOkD] at h1; done)
    | (exfalso; simp [arcOkD] at h2; done)
    | exact (arcOkD_some_iff _ _ _).2 (((arcOkD_some_iff _ _ _).1 h1).trans ((arcOkD_some_iff _ _ _).1 h2))

/-! ## Pigeonhole -/

set_option linter.unusedVariables false in
/-- The images of P's nodes are a permutation of H's nodes (`hH` is not needed; kept for the
requested signature). -/
theorem IsIsoF.map_perm {sel : SelD} {H P : LGraph} {f : Nat → Nat} (h : IsIsoF sel H P f)
    (hH : H.ids.Nodup) (hP : P.ids.Nodup) : (P.ids.map f).Perm H.ids := by
  have hnd : (P.ids.map f).Nodup := List.Nodup.map_on h.inj hP
  have hsub : P.ids.map f ⊆ H.ids := by
    intro x hx
    obtain ⟨p, hp, rfl⟩ := List.mem_map.mp hx
    exact h.mem p hp
  exact (List.subperm_of_subset hnd hsub).perm_of_length_le (by simp [h.size])

/-- A structure-preserving map is onto the nodes of `H` (pigeonhole; ids distinct). -/
theorem IsIsoF.surj {sel : SelD} {H P : LGraph} {f : Nat → Nat} (h : IsIsoF sel H P f)
    (hH : H.ids.Nodup) (hP : P.ids.Nodup) : ∀ x ∈ H.ids, ∃ p ∈ P.ids, f p = x := by
  intro x hx
  have := (h.map_perm hH hP).mem_iff.2 hx
  obtain ⟨p, hp, e⟩ := List.mem_map.mp this
  exact ⟨p, hp, e⟩

/-! ## Group laws -/

theorem isIsoF_congr {sel : SelD} {H P : LGraph} {f g : Nat → Nat} (hfg : ∀ p ∈ P.ids, f p = g p)
    (h : IsIsoF sel H P f) : IsIsoF sel H P g where
  inj p hp q hq e := h.inj p hp q hq (by rw [hfg p hp, hfg q hq]; exact e)
  mem p hp := hfg p hp ▸ h.mem p hp
  size := h.size
  node p hp := hfg p hp ▸ h.node p hp
  arc p hp q hq := hfg p hp ▸ hfg q hq ▸ h.arc p hp q hq

theorem isIsoF_refl (sel : SelD) (G : LGraph) : IsIsoF sel G G id where
  inj _ _ _ _ e := e
  mem _ hp := hp
  size := rfl
  node _ _ := nodeOkD_refl _ _
  arc _ _ _ _ := arcOkD_refl _ _

theorem isIsoF_trans {sel : SelD} {K H P : LGraph} {f g : Nat → Nat}
    (h1 : IsIsoF sel H P f) (h2 : IsIsoF sel K H g) : IsIsoF sel K P (g ∘ f) where
  inj p hp q hq e := h1.inj p hp q hq (h2.inj _ (h1.mem p hp) _ (h1.mem q hq) e)
  mem p hp := h2.mem _ (h1.mem p hp)
  size := h2.size.trans h1.size
  node p hp := nodeOkD_trans _ _ _ _ (h2.node _ (h1.mem p hp)) (h1.node p hp)
  arc p hp q hq := arcOkD_trans _ _ _ _ (h2.arc _ (h1.mem p hp) _ (h1.mem q hq)) (h1.arc p hp q hq)

/-- Inverse of `f` on a node list: the first node whose image is `x` (0 when none). -/
def invOn (ids : List Nat) (f : Nat → Nat) (x : Nat) : Nat :=
  match ids.find? (fun p => f p = x) with
  | some p => p
  | none => 0

theorem invOn_right {ids : List Nat} {f : Nat → Nat} {x : Nat} (hx : ∃ p ∈ ids, f p = x) :
    f (invOn ids f x) = x ∧ invOn ids f x ∈ ids := by
  unfold invOn
  cases hfind : ids.find? (fun p => f p = x) with
  | none =>
    obtain ⟨p, hp, e⟩ := hx
    have := List.find?_eq_none.mp hfind p hp
    simp [e] at this
  | some q =>
    have h1 := List.find?_some hfind
    have h2 := List.mem_of_find?_eq_some hfind
    exact ⟨by simpa using h1, h2⟩

theorem invOn_left {ids : List Nat} {f : Nat → Nat} (hinj : ∀ p ∈ ids, ∀ q ∈ ids, f p = f q → p = q)
    {p : Nat} (hp : p ∈ ids) : invOn ids f (f p) = p := by
  obtain ⟨h1, h2⟩ := invOn_right (ids := ids) (f := f) (x := f p) ⟨p, hp, rfl⟩
  exact hinj _ h2 _ hp h1

theorem isIsoF_symm {sel : SelD} {H P : LGraph} {f : Nat → Nat} (h : IsIsoF sel H P f)
    (hH : H.ids.Nodup) (hP : P.ids.Nodup) : IsIsoF sel P H (invOn P.ids f) := by
  have hr : ∀ x ∈ H.ids, f (invOn P.ids f x) = x ∧ invOn P.ids f x ∈ P.ids :=
    fun x hx => invOn_right (h.surj hH hP x hx)
  refine ⟨?_, ?_, h.size.symm, ?_, ?_⟩
  · intro x hx y hy e
    rw [← (hr x hx).1, ← (hr y hy).1, e]
  · intro x hx; exact (hr x hx).2
  · intro x hx
    have := h.node _ (hr x hx).2
    rw [(hr x hx).1] at this
    exact nodeOkD_symm _ _ _ this
  · intro x hx y hy
    have := h.arc _ (hr x hx).2 _ (hr y hy).2
    rw [(hr x hx).1, (hr y hy).1] at this
    exact arcOkD_symm _ _ _ this

/-! ## list/function forms, canonical graph for any order, orbits, brute-force canonical form -/

/-! ## A. list ↔ function form, decision procedure -/

theorem app_graph {ids : List Nat} (hnd : ids.Nodup) (f : Nat → Nat) {p : Nat} (hp : p ∈ ids) :
    app (ids.map fun p => (p, f p)) p = f p := by
  apply app_of_mem
  · simpa [List.map_map, Function.comp_def] using hnd
  · exact List.mem_map.mpr ⟨p, hp, rfl⟩

theorem isIsoD_of_isIsoF {sel : SelD} {H P : LGraph} {f : Nat → Nat} (hP : P.ids.Nodup) (h : IsIsoF sel H P f) :
    IsIsoD sel H P (P.ids.map fun p => (p, f p)) := by
  refine ⟨by simp [List.map_map, Function.comp_def], ?_⟩
  exact isIsoF_congr (fun p hp => (app_graph hP f hp).symm) h

theorem exists_isIsoD_iff (sel : SelD) (H P : LGraph) (hP : P.ids.Nodup) :
    (∃ m, IsIsoD sel H P m) ↔ ∃ f, IsIsoF sel H P f :=
  ⟨fun ⟨m, hm⟩ => ⟨app m, hm.2⟩, fun ⟨_, hf⟩ => ⟨_, isIsoD_of_isIsoF hP hf⟩⟩

theorem isoDecideD_iff' (sel : SelD) (H P : LGraph) (hP : P.ids.Nodup) :
    isoDecideD sel H P = true ↔ ∃ f, IsIsoF sel H P f := by
  rw [← exists_isIsoD_iff sel H P hP]
  unfold isoDecideD
  constructor
  · intro h
    cases hl : allIsoD sel H P with
    | nil => simp [hl] at h
    | cons m ms =>
      exact ⟨m, (mem_allIsoD' sel H P hP m).1 (hl ▸ List.mem_cons_self)⟩
  · rintro ⟨m, hm⟩
    have := (mem_allIsoD' sel H P hP m).2 hm
    cases hl : allIsoD sel H P with
    | nil => simp [hl] at this
    | cons => simp

/-! ## B. the canonical graph for any order is faithful -/

theorem relabel_ids (G : LGraph) (f : Nat → Nat) : (G.relabel f).ids = G.ids.map f := by
  simp [LGraph.relabel, LGraph.ids, List.map_map, Function.comp_def]

theorem find?_congr_mem {α : Type} (l : List α) (p q : α → Bool) (h : ∀ x ∈ l, p x = q x) :
    l.find? p = l.find? q := by
  induction l with
  | nil => rfl
  | cons x xs ih =>
    simp only [List.find?_cons, h x List.mem_cons_self]
    rw [ih fun y hy => h y (List.mem_cons_of_mem _ hy)]

theorem relabel_attrs (G : LGraph) (f : Nat → Nat)
    (hinj : ∀ a ∈ G.ids, ∀ b ∈ G.ids, f a = f b → a = b) {v : Nat} (hv : v ∈ G.ids) :
    (G.relabel f).attrs (f v) = G.attrs v := by
  unfold LGraph.attrs LGraph.relabel
  simp only [List.find?_map]
  have : G.nodes.find? ((fun p : Nat × Attrs => decide (p.1 = f v)) ∘ fun p => (f p.1, p.2)) =
      G.nodes.find? (fun p => decide (p.1 = v)) := by
    apply find?_congr_mem
    intro p hp
    have hp' : p.1 ∈ G.ids := List.mem_map.mpr ⟨p, hp, rfl⟩
    simp only [Function.comp_apply, decide_eq_decide]
    exact ⟨fun e => hinj _ hp' _ hv e, fun e => by rw [e]⟩
  rw [this]
  cases G.nodes.find? (fun p => decide (p.1 = v)) <;> rfl

theorem relabel_arc? (G : LGraph) (f : Nat → Nat)
    (hinj : ∀ a ∈ G.ids, ∀ b ∈ G.ids, f a = f b → a = b)
    (hE : ∀ e ∈ G.edges, e.1 ∈ G.ids ∧ e.2.1 ∈ G.ids) {u v : Nat} (hu : u ∈ G.ids) (hv : v ∈ G.ids) :
    (G.relabel f).arc? (f u) (f v) = G.arc? u v := by
  unfold LGraph.arc? LGraph.relabel
  simp only [List.find?_map]
  have : G.edges.find? ((fun e : Nat × Nat × Attrs => decide (e.1 = f u ∧ e.2.1 = f v)) ∘
        fun e => (f e.1, f e.2.1, e.2.2)) =
      G.edges.find? (fun e => decide (e.1 = u ∧ e.2.1 = v)) := by
    apply find?_congr_mem
    intro e he
    obtain ⟨h1, h2⟩ := hE e he
    simp only [Function.comp_apply, decide_eq_decide]
    exact ⟨fun ⟨a, b⟩ => ⟨hinj _ h1 _ hu a, hinj _ h2 _ hv b⟩, fun ⟨a, b⟩ => by rw [a, b]; exact ⟨rfl, rfl⟩⟩
  rw [this]
  cases G.edges.find? (fun e => decide (e.1 = u ∧ e.2.1 = v)) <;> rfl

theorem posOf_inj (perm : List Nat) {a b : Nat} (ha : a ∈ perm) (h : posOf perm a = posOf perm b) : a = b := by
  unfold posOf at h
  exact (List.idxOf_inj ha).1 (Nat.succ.inj h)

theorem map_posOf (perm : List Nat) (hnd : perm.Nodup) :
    perm.map (posOf perm) = List.range' 1 perm.length := by
  apply List.ext_getElem
  · simp
  · intro i h1 h2
    simp only [List.getElem_map, List.getElem_range', posOf]
    rw [hnd.idxOf_getElem]
    omega

theorem canon_faithful' (sel : SelD) (G : LGraph) (perm : List Nat) (hG : WFD G) (hperm : IsOrder G perm) :
    IsIsoF sel (canonBy G perm) G (posOf perm) ∧
    (canonBy G perm).ids.Perm (List.range' 1 G.ids.length) ∧
    (∀ v ∈ G.ids, (canonBy G perm).attrs (posOf perm v) = G.attrs v) ∧
    (∀ u ∈ G.ids, ∀ v ∈ G.ids, (canonBy G perm).arc? (posOf perm u) (posOf perm v) = G.arc? u v) := by
  have hinj : ∀ a ∈ G.ids, ∀ b ∈ G.ids, posOf perm a = posOf perm b → a = b :=
    fun a ha b _ e => posOf_inj perm ((hperm.2 a).2 ha) e
  have hattrs : ∀ v ∈ G.ids, (canonBy G perm).attrs (posOf perm v) = G.attrs v :=
    fun v hv => relabel_attrs G _ hinj hv
  have harc : ∀ u ∈ G.ids, ∀ v ∈ G.ids,
      (canonBy G perm).arc? (posOf perm u) (posOf perm v) = G.arc? u v :=
    fun u hu v hv => relabel_arc? G _ hinj hG.2 hu hv
  have hids : (canonBy G perm).ids = G.ids.map (posOf perm) := relabel_ids G _
  have hp : G.ids.Perm perm := (List.perm_ext_iff_of_nodup hG.1 hperm.1).2 fun v => (hperm.2 v).symm
  refine ⟨⟨hinj, ?_, ?_, ?_, ?_⟩, ?_, hattrs, harc⟩
  · intro p hp; rw [hids]; exact List.mem_map_of_mem hp
  · rw [hids]; simp
  · intro p hp; rw [hattrs p hp]; exact nodeOkD_refl _ _
  · intro p hp q hq; rw [harc p hp q hq]; exact arcOkD_refl _ _
  · rw [hids, hp.length_eq, ← map_posOf perm hperm.1]
    exact hp.map _

/-! ## C. orbits -/

theorem mem_orbitOf (sel : SelD) (G : LGraph) (u v : Nat) :
    v ∈ orbitOf sel G u ↔ v ∈ G.ids ∧ ∃ σ ∈ autsD sel G, app σ u = v := by
  simp [orbitOf, List.mem_filter, List.any_eq_true]

theorem autcount_spec' (sel : SelD) (G : LGraph) (hG : G.ids.Nodup) :
    autCountD sel G = (autsD sel G).length ∧ (autsD sel G).Nodup ∧ ∀ m, m ∈ autsD sel G ↔ IsIsoD sel G G m :=
  ⟨rfl, allIsoD_nodup' sel G G hG, fun m => mem_allIsoD' sel G G hG m⟩

/-- Orbit relation. -/
def OrbRel (sel : SelD) (G : LGraph) (u v : Nat) : Prop := ∃ σ ∈ autsD sel G, app σ u = v

theorem orbRel_iff (sel : SelD) (G : LGraph) (hG : G.ids.Nodup) {u : Nat} (hu : u ∈ G.ids) (v : Nat) :
    OrbRel sel G u v ↔ ∃ f, IsIsoF sel G G f ∧ f u = v := by
  constructor
  · rintro ⟨σ, hσ, e⟩
    exact ⟨app σ, ((mem_allIsoD' sel G G hG σ).1 hσ).2, e⟩
  · rintro ⟨f, hf, e⟩
    exact ⟨_, (mem_allIsoD' sel G G hG _).2 (isIsoD_of_isIsoF hG hf), by rw [app_graph hG f hu, e]⟩

theorem orbRel_refl (sel : SelD) (G : LGraph) (hG : G.ids.Nodup) {u : Nat} (hu : u ∈ G.ids) :
    OrbRel sel G u u :=
  (orbRel_iff sel G hG hu u).2 ⟨id, isIsoF_refl sel G, rfl⟩

theorem orbRel_mem (sel : SelD) (G : LGraph) (hG : G.ids.Nodup) {u v : Nat} (hu : u ∈ G.ids)
    (h : OrbRel sel G u v) : v ∈ G.ids := by
  obtain ⟨f, hf, rfl⟩ := (orbRel_iff sel G hG hu v).1 h
  exact hf.mem u hu

theorem orbRel_symm (sel : SelD) (G : LGraph) (hG : G.ids.Nodup) {u v : Nat} (hu : u ∈ G.ids)
    (h : OrbRel sel G u v) : OrbRel sel G v u := by
  have hv := orbRel_mem sel G hG hu h
  obtain ⟨f, hf, rfl⟩ := (orbRel_iff sel G hG hu v).1 h
  exact (orbRel_iff sel G hG hv u).2 ⟨_, isIsoF_symm hf hG hG, invOn_left hf.inj hu⟩

theorem orbRel_trans (sel : SelD) (G : LGraph) (hG : G.ids.Nodup) {u v w : Nat} (hu : u ∈ G.ids)
    (h1 : OrbRel sel G u v) (h2 : OrbRel sel G v w) : OrbRel sel G u w := by
  have hv := orbRel_mem sel G hG hu h1
  obtain ⟨f, hf, rfl⟩ := (orbRel_iff sel G hG hu v).1 h1
  obtain ⟨g, hg, rfl⟩ := (orbRel_iff sel G hG hv w).1 h2
  exact (orbRel_iff sel G hG hu _).2 ⟨g ∘ f, isIsoF_trans hf hg, rfl⟩

theorem orbitOf_congr (sel : SelD) (G : LGraph) (hG : G.ids.Nodup) {u w : Nat} (hu : u ∈ G.ids)
    (h : OrbRel sel G u w) : orbitOf sel G u = orbitOf sel G w := by
  have hw := orbRel_mem sel G hG hu h
  unfold orbitOf
  apply List.filter_congr
  intro v _
  rw [Bool.eq_iff_iff]
  simp only [List.any_eq_true, decide_eq_true_eq]
  exact ⟨fun h' => orbRel_trans sel G hG hw (orbRel_symm sel G hG hu h) h',
    fun h' => orbRel_trans sel G hG hu h h'⟩

theorem mem_dedupL (l : List (List Nat)) (c : List Nat) : c ∈ dedupL l ↔ c ∈ l := by
  induction l with
  | nil => simp [dedupL]
  | cons x xs ih =>
    simp only [dedupL, List.mem_cons, List.mem_filter, ih, bne_iff_ne, ne_eq]
    by_cases h : c = x <;> simp [h]

theorem dedupL_nodup (l : List (List Nat)) : (dedupL l).Nodup := by
  induction l with
  | nil => simp [dedupL]
  | cons x xs ih =>
    simp only [dedupL, List.nodup_cons, List.mem_filter, bne_self_eq_false, Bool.false_eq_true,
      and_false, not_false_eq_true, true_and]
    exact ih.filter _

theorem orbits_partition_exact' (sel : SelD) (G : LGraph) (hG : G.ids.Nodup) :
    IsPartition (orbitsD sel G) G.ids ∧
    ∀ u ∈ G.ids, ∀ v ∈ G.ids, (SameClass (orbitsD sel G) u v ↔ ∃ σ ∈ autsD sel G, app σ u = v) := by
  have hmem : ∀ c, c ∈ orbitsD sel G ↔ ∃ a ∈ G.ids, orbitOf sel G a = c := by
    intro c; unfold orbitsD; rw [mem_dedupL, List.mem_map]
  have hself : ∀ a ∈ G.ids, a ∈ orbitOf sel G a :=
    fun a ha => (mem_orbitOf sel G a a).2 ⟨ha, orbRel_refl sel G hG ha⟩
  refine ⟨⟨?_, ?_, ?_⟩, ?_⟩
  · intro c hc
    obtain ⟨a, ha, rfl⟩ := (hmem c).1 hc
    exact ⟨List.ne_nil_of_mem (hself a ha), fun x hx => ((mem_orbitOf sel G a x).1 hx).1⟩
  · intro u hu
    exact ⟨_, (hmem _).2 ⟨u, hu, rfl⟩, hself u hu⟩
  · have hnd : (orbitsD sel G).Nodup := dedupL_nodup _
    refine List.Pairwise.imp_of_mem ?_ hnd
    intro c d hc hd hne x hxc hxd
    obtain ⟨a, ha, rfl⟩ := (hmem c).1 hc
    obtain ⟨b, hb, rfl⟩ := (hmem d).1 hd
    have h1 : OrbRel sel G a x := ((mem_orbitOf sel G a x).1 hxc).2
    have h2 : OrbRel sel G b x := ((mem_orbitOf sel G b x).1 hxd).2
    exact hne (orbitOf_congr sel G hG ha
      (orbRel_trans sel G hG ha h1 (orbRel_symm sel G hG hb h2)))
  · intro u hu v hv
    constructor
    · rintro ⟨c, hc, huc, hvc⟩
      obtain ⟨a, ha, rfl⟩ := (hmem c).1 hc
      have h1 : OrbRel sel G a u := ((mem_orbitOf sel G a u).1 huc).2
      have h2 : OrbRel sel G a v := ((mem_orbitOf sel G a v).1 hvc).2
      exact orbRel_trans sel G hG hu (orbRel_symm sel G hG ha h1) h2
    · intro h
      exact ⟨_, (hmem _).2 ⟨u, hu, rfl⟩, hself u hu, (mem_orbitOf sel G u v).2 ⟨hv, h⟩⟩

/-! ## D. brute-force canonical form is a complete invariant -/

theorem nodeVal_eq_iff (sel : SelD) (H P : LGraph) (a b : Nat) :
    nodeVal sel H a = nodeVal sel P b ↔ nodeOkD sel (H.attrs a) (P.attrs b) = true := by
  rw [nodeOkD_iff]
  unfold nodeVal
  exact ⟨fun h => by injection h, fun h => by rw [h]⟩

theorem arcVal_eq_iff (sel : SelD) (H P : LGraph) (a b c d : Nat) :
    arcVal sel H a b = arcVal sel P c d ↔ arcOkD sel (H.arc? a b) (P.arc? c d) = true := by
  unfold arcVal
  cases H.arc? a b <;> cases P.arc? c d
  · simp [arcOkD]
  · simp [arcOkD]
  · simp [arcOkD]
  · rw [arcOkD_some_iff]
    simp

theorem formD_map {sel : SelD} {H P : LGraph} {f : Nat → Nat} (h : IsIsoF sel H P f) (π : List Nat)
    (hπ : ∀ v ∈ π, v ∈ P.ids) : formD sel H (π.map f) = formD sel P π := by
  unfold formD
  have h1 : (π.map f).map (nodeVal sel H) = π.map (nodeVal sel P) := by
    rw [List.map_map]
    apply List.map_congr_left
    intro v hv
    exact (nodeVal_eq_iff sel H P _ _).2 (h.node v (hπ v hv))
  have h2 : ((π.map f).map fun u => Val.tup ((π.map f).map fun v => arcVal sel H u v)) =
      π.map fun u => Val.tup (π.map fun v => arcVal sel P u v) := by
    rw [List.map_map]
    apply List.map_congr_left
    intro u hu
    simp only [Function.comp_apply, List.map_map]
    congr 1
    apply List.map_congr_left
    intro v hv
    exact (arcVal_eq_iff sel H P _ _ _ _).2 (h.arc u (hπ u hu) v (hπ v hv))
  rw [h1, h2]

theorem serD_subset {sel : SelD} {H P : LGraph} {f : Nat → Nat} (h : IsIsoF sel H P f)
    (hH : H.ids.Nodup) (hP : P.ids.Nodup) (x : List Nat)
    (hx : x ∈ (perms P.ids).map (serD sel P)) : x ∈ (perms H.ids).map (serD sel H) := by
  obtain ⟨π, hπ, rfl⟩ := List.mem_map.mp hx
  have hp : π.Perm P.ids := (mem_perms _ _).1 hπ
  refine List.mem_map.mpr ⟨π.map f, (mem_perms _ _).2 ((hp.map f).trans (h.map_perm hH hP)), ?_⟩
  unfold serD
  rw [formD_map h π fun v hv => hp.subset hv]

theorem canonBruteD_invariant' (sel : SelD) (H P : LGraph) (hH : H.ids.Nodup) (hP : P.ids.Nodup)
    (h : ∃ f, IsIsoF sel H P f) : canonBruteD sel H = canonBruteD sel P := by
  obtain ⟨f, hf⟩ := h
  unfold canonBruteD
  apply minList_congr
  intro x
  exact ⟨serD_subset (isIsoF_symm hf hH hP) hP hH x, serD_subset hf hH hP x⟩

theorem map_eq_map_get {α β γ : Type} (l1 : List α) (l2 : List β) (g1 : α → γ) (g2 : β → γ)
    (h : l1.map g1 = l2.map g2) :
    l1.length = l2.length ∧ ∀ i (h1 : i < l1.length) (h2 : i < l2.length), g1 l1[i] = g2 l2[i] := by
  refine ⟨by simpa using congrArg List.length h, fun i h1 h2 => ?_⟩
  have := List.getElem_of_eq h (i := i) (by simpa using h1)
  simpa using this

theorem exists_serD_eq_canon (sel : SelD) (G : LGraph) :
    ∃ π, π.Perm G.ids ∧ serD sel G π = canonBruteD sel G := by
  have hne : (perms G.ids).map (serD sel G) ≠ [] := by
    have : G.ids ∈ perms G.ids := (mem_perms _ _).2 (List.Perm.refl _)
    exact List.ne_nil_of_mem (List.mem_map_of_mem this)
  obtain ⟨π, hπ, e⟩ := List.mem_map.mp (minList_mem _ hne)
  exact ⟨π, (mem_perms _ _).1 hπ, e⟩

set_option linter.unusedVariables false in
/-- (`hP` is not needed; kept for the requested signature.) -/
theorem canonBruteD_complete' (sel : SelD) (H P : LGraph) (hH : H.ids.Nodup) (hP : P.ids.Nodup)
    (h : canonBruteD sel H = canonBruteD sel P) : ∃ f, IsIsoF sel H P f := by
  obtain ⟨πH, hpH, eH⟩ := exists_serD_eq_canon sel H
  obtain ⟨πP, hpP, eP⟩ := exists_serD_eq_canon sel P
  have hform : formD sel H πH = formD sel P πP :=
    codeVal_injective _ _ (by unfold serD at eH eP; rw [eH, eP, h])
  unfold formD at hform
  injection hform with hform
  injection hform with hn hform
  injection hform with ha _
  injection hn with hn
  injection ha with ha
  obtain ⟨hlen, hnode⟩ := map_eq_map_get _ _ _ _ hn
  obtain ⟨_, harc⟩ := map_eq_map_get _ _ _ _ ha
  have hndH : πH.Nodup := hpH.nodup_iff.2 hH
  -- index description of `f`
  let f : Nat → Nat := fun p => πH.getD (πP.idxOf p) 0
  have hidx : ∀ p ∈ P.ids, ∃ i, ∃ h1 : i < πP.length, ∃ h2 : i < πH.length, πP[i] = p ∧ f p = πH[i] := by
    intro p hp
    have hp' : p ∈ πP := hpP.symm.subset hp
    have h1 : πP.idxOf p < πP.length := List.idxOf_lt_length_iff.2 hp'
    have h2 : πP.idxOf p < πH.length := hlen ▸ h1
    exact ⟨_, h1, h2, List.getElem_idxOf h1, List.getD_eq_getElem _ _ h2⟩
  refine ⟨f, ?_, ?_, ?_, ?_, ?_⟩
  · intro p hp q hq e
    obtain ⟨i, i1, i2, rfl, ei⟩ := hidx p hp
    obtain ⟨j, j1, j2, rfl, ej⟩ := hidx q hq
    rw [ei, ej] at e
    have : i = j := (List.Nodup.getElem_inj_iff hndH).1 e
    subst this; rfl
  · intro p hp
    obtain ⟨i, i1, i2, rfl, ei⟩ := hidx p hp
    rw [ei]; exact hpH.subset (List.getElem_mem _)
  · rw [← hpH.length_eq, ← hpP.length_eq, hlen]
  · intro p hp
    obtain ⟨i, i1, i2, rfl, ei⟩ := hidx p hp
    rw [ei]
    exact (nodeVal_eq_iff sel H P _ _).1 (hnode i i2 i1)
  · intro p hp q hq
    obtain ⟨i, i1, i2, rfl, ei⟩ := hidx p hp
    obtain ⟨j, j1, j2, rfl, ej⟩ := hidx q hq
    rw [ei, ej]
    have hrow := harc i i2 i1
    injection hrow with hrow
    exact (arcVal_eq_iff sel H P _ _ _ _).1 ((map_eq_map_get _ _ _ _ hrow).2 j j2 j1)

/-! ## E. kernel of `canonBy` -/

theorem canon_kernel' (sel : SelD) (G G' : LGraph) (perm perm' : List Nat) (hG : WFD G) (hG' : WFD G')
    (hp : IsOrder G perm) (hp' : IsOrder G' perm')
    (hsame : IsIsoF sel (canonBy G perm) (canonBy G' perm') id) : ∃ f, IsIsoF sel G G' f := by
  obtain ⟨f1, -, -, -⟩ := canon_faithful' sel G' perm' hG' hp'
  obtain ⟨f2, hperm, -, -⟩ := canon_faithful' sel G perm hG hp
  have hnd : (canonBy G perm).ids.Nodup := hperm.nodup_iff.2 List.nodup_range'
  have f2' := isIsoF_symm f2 hnd hG.1
  exact ⟨_, isIsoF_trans (isIsoF_trans f1 hsame) f2'⟩

/-! ## union–find merging (`orbitsUF`) computes the equivalence closure of its generator pairs -/

/-- Generator relation of the merging: some consumed mapping sends x to y. -/
def GenRel (maps : List Mapping) (x y : Nat) : Prop := ∃ m ∈ maps, (x, y) ∈ m

/-! ## `SameClass` on a partition is an equivalence on the ids -/

theorem part_unique {p : List (List Nat)} {ids : List Nat} (hp : IsPartition p ids)
    {c d : List Nat} (hc : c ∈ p) (hd : d ∈ p) {z : Nat} (hzc : z ∈ c) (hzd : z ∈ d) : c = d := by
  have : Std.Symm (fun c d : List Nat => ∀ x, x ∈ c → x ∉ d) := ⟨fun _ _ h x hx hx' => h x hx' hx⟩
  by_contra hne
  exact List.Pairwise.forall hp.2.2 hc hd hne z hzc hzd

theorem sc_refl {p : List (List Nat)} {ids : List Nat} (hp : IsPartition p ids) {u : Nat} (hu : u ∈ ids) :
    SameClass p u u := by
  obtain ⟨c, hc, huc⟩ := hp.2.1 u hu
  exact ⟨c, hc, huc, huc⟩

theorem sc_symm {p : List (List Nat)} {u v : Nat} (h : SameClass p u v) : SameClass p v u := by
  obtain ⟨c, hc, h1, h2⟩ := h
  exact ⟨c, hc, h2, h1⟩

theorem sc_trans {p : List (List Nat)} {ids : List Nat} (hp : IsPartition p ids) {u v w : Nat}
    (h1 : SameClass p u v) (h2 : SameClass p v w) : SameClass p u w := by
  obtain ⟨c, hc, huc, hvc⟩ := h1
  obtain ⟨d, hd, hvd, hwd⟩ := h2
  have := part_unique hp hc hd hvc hvd
  subst this
  exact ⟨c, hc, huc, hwd⟩

theorem sc_mem {p : List (List Nat)} {ids : List Nat} (hp : IsPartition p ids) {u v : Nat}
    (h : SameClass p u v) : u ∈ ids ∧ v ∈ ids := by
  obtain ⟨c, hc, h1, h2⟩ := h
  exact ⟨(hp.1 c hc).2 u h1, (hp.1 c hc).2 v h2⟩

/-! ## `findCls` and one `unionCls` step -/

theorem findCls_spec {p : List (List Nat)} {ids : List Nat} (hp : IsPartition p ids) {x : Nat}
    (hx : x ∈ ids) : findCls p x ∈ p ∧ x ∈ findCls p x := by
  unfold findCls
  cases hf : p.find? (·.contains x) with
  | none =>
    obtain ⟨c, hc, hxc⟩ := hp.2.1 x hx
    have := List.find?_eq_none.mp hf c hc
    simp [hxc] at this
  | some c =>
    exact ⟨List.mem_of_find?_eq_some hf, by simpa using List.find?_some hf⟩

theorem unionCls_cases (p : List (List Nat)) (x y : Nat) :
    (y ∈ findCls p x ∧ unionCls p x y = p) ∨
    (y ∉ findCls p x ∧ unionCls p x y =
      (findCls p x ++ findCls p y) :: p.filter fun c => !(c.contains x) && !(c.contains y)) := by
  unfold unionCls
  by_cases h : y ∈ findCls p x
  · left; simp [h]
  · right; simp [h]

theorem mem_filter_xy {p : List (List Nat)} {x y : Nat} {c : List Nat} :
    c ∈ p.filter (fun c => !(c.contains x) && !(c.contains y)) ↔ c ∈ p ∧ x ∉ c ∧ y ∉ c := by
  simp [List.mem_filter]

theorem unionCls_partition {p : List (List Nat)} {ids : List Nat} (hp : IsPartition p ids) {x y : Nat}
    (hx : x ∈ ids) (hy : y ∈ ids) : IsPartition (unionCls p x y) ids := by
  obtain ⟨hcx, hxcx⟩ := findCls_spec hp hx
  obtain ⟨hcy, hycy⟩ := findCls_spec hp hy
  rcases unionCls_cases p x y with ⟨_, e⟩ | ⟨_, e⟩
  · rw [e]; exact hp
  · rw [e]
    refine ⟨?_, ?_, ?_⟩
    · intro c hc
      rcases List.mem_cons.mp hc with rfl | hc
      · refine ⟨?_, ?_⟩
        · intro h
          have := (List.append_eq_nil_iff.mp h).1
          rw [this] at hxcx; simp at hxcx
        · intro z hz
          rcases List.mem_append.mp hz with hz | hz
          · exact (hp.1 _ hcx).2 z hz
          · exact (hp.1 _ hcy).2 z hz
      · exact hp.1 c (mem_filter_xy.mp hc).1
    · intro u hu
      obtain ⟨c, hc, huc⟩ := hp.2.1 u hu
      by_cases h1 : x ∈ c
      · have := part_unique hp hc hcx h1 hxcx
        subst this
        exact ⟨_, List.mem_cons_self, List.mem_append_left _ huc⟩
      · by_cases h2 : y ∈ c
        · have := part_unique hp hc hcy h2 hycy
          subst this
          exact ⟨_, List.mem_cons_self, List.mem_append_right _ huc⟩
        · exact ⟨c, List.mem_cons_of_mem _ (mem_filter_xy.mpr ⟨hc, h1, h2⟩), huc⟩
    · rw [List.pairwise_cons]
      refine ⟨?_, hp.2.2.filter _⟩
      intro d hd z hz hzd
      obtain ⟨hdp, hxd, hyd⟩ := mem_filter_xy.mp hd
      rcases List.mem_append.mp hz with hz | hz
      · have := part_unique hp hcx hdp hz hzd
        exact hxd (this ▸ hxcx)
      · have := part_unique hp hcy hdp hz hzd
        exact hyd (this ▸ hycy)

theorem unionCls_mono {p : List (List Nat)} {ids : List Nat} (hp : IsPartition p ids) {x y : Nat}
    (hx : x ∈ ids) (hy : y ∈ ids) {u v : Nat} (h : SameClass p u v) : SameClass (unionCls p x y) u v := by
  obtain ⟨hcx, hxcx⟩ := findCls_spec hp hx
  obtain ⟨hcy, hycy⟩ := findCls_spec hp hy
  rcases unionCls_cases p x y with ⟨_, e⟩ | ⟨_, e⟩
  · rw [e]; exact h
  · rw [e]
    obtain ⟨c, hc, huc, hvc⟩ := h
    by_cases h1 : x ∈ c
    · have := part_unique hp hc hcx h1 hxcx
      subst this
      exact ⟨_, List.mem_cons_self, List.mem_append_left _ huc, List.mem_append_left _ hvc⟩
    · by_cases h2 : y ∈ c
      · have := part_unique hp hc hcy h2 hycy
        subst this
        exact ⟨_, List.mem_cons_self, List.mem_append_right _ huc, List.mem_append_right _ hvc⟩
      · exact ⟨c, List.mem_cons_of_mem _ (mem_filter_xy.mpr ⟨hc, h1, h2⟩), huc, hvc⟩

theorem unionCls_joins {p : List (List Nat)} {ids : List Nat} (hp : IsPartition p ids) {x y : Nat}
    (hx : x ∈ ids) (hy : y ∈ ids) : SameClass (unionCls p x y) x y := by
  obtain ⟨hcx, hxcx⟩ := findCls_spec hp hx
  obtain ⟨hcy, hycy⟩ := findCls_spec hp hy
  rcases unionCls_cases p x y with ⟨hyx, e⟩ | ⟨_, e⟩
  · rw [e]; exact ⟨_, hcx, hxcx, hyx⟩
  · rw [e]
    exact ⟨_, List.mem_cons_self, List.mem_append_left _ hxcx, List.mem_append_right _ hycy⟩

theorem unionCls_only {p : List (List Nat)} {ids : List Nat} (hp : IsPartition p ids) {x y : Nat}
    (hx : x ∈ ids) (hy : y ∈ ids) {u v : Nat} (h : SameClass (unionCls p x y) u v) :
    SameClass p u v ∨
      ((SameClass p u x ∨ SameClass p u y) ∧ (SameClass p v x ∨ SameClass p v y)) := by
  obtain ⟨hcx, hxcx⟩ := findCls_spec hp hx
  obtain ⟨hcy, hycy⟩ := findCls_spec hp hy
  rcases unionCls_cases p x y with ⟨_, e⟩ | ⟨_, e⟩
  · rw [e] at h; exact Or.inl h
  · rw [e] at h
    obtain ⟨c, hc, huc, hvc⟩ := h
    rcases List.mem_cons.mp hc with rfl | hc
    · right
      have key : ∀ w, w ∈ findCls p x ++ findCls p y → SameClass p w x ∨ SameClass p w y := by
        intro w hw
        rcases List.mem_append.mp hw with hw | hw
        · exact Or.inl ⟨_, hcx, hw, hxcx⟩
        · exact Or.inr ⟨_, hcy, hw, hycy⟩
      exact ⟨key u huc, key v hvc⟩
    · exact Or.inl ⟨c, (mem_filter_xy.mp hc).1, huc, hvc⟩

/-! ## Folding over pairs -/

theorem eqvGen_ids {R : Nat → Nat → Prop} {ids : List Nat} (hR : ∀ a b, R a b → a ∈ ids ∧ b ∈ ids)
    {u v : Nat} (h : Relation.EqvGen R u v) : u ∈ ids ↔ v ∈ ids := by
  induction h with
  | rel a b h => exact ⟨fun _ => (hR a b h).2, fun _ => (hR a b h).1⟩
  | refl => exact Iff.rfl
  | symm _ _ _ ih => exact ih.symm
  | trans _ _ _ _ _ ih1 ih2 => exact ih1.trans ih2

theorem ufold_spec (ids : List Nat) (ps : List (Nat × Nat)) :
    ∀ (p : List (List Nat)) (R : Nat → Nat → Prop), IsPartition p ids →
      (∀ a b, R a b → a ∈ ids ∧ b ∈ ids) →
      (∀ u ∈ ids, ∀ v ∈ ids, (SameClass p u v ↔ Relation.EqvGen R u v)) →
      (∀ sd ∈ ps, sd.1 ∈ ids ∧ sd.2 ∈ ids) →
      IsPartition (ps.foldl (fun p sd => unionCls p sd.1 sd.2) p) ids ∧
      ∀ u ∈ ids, ∀ v ∈ ids, (SameClass (ps.foldl (fun p sd => unionCls p sd.1 sd.2) p) u v ↔
        Relation.EqvGen (fun a b => R a b ∨ (a, b) ∈ ps) u v) := by
  induction ps with
  | nil =>
    intro p R hp hR hS _
    refine ⟨hp, fun u hu v hv => ?_⟩
    rw [List.foldl_nil, hS u hu v hv]
    constructor
    · exact Relation.EqvGen.mono (fun a b h => Or.inl h) u v
    · exact Relation.EqvGen.mono (fun a b h => by simpa using h) u v
  | cons xy ps ih =>
    obtain ⟨x, y⟩ := xy
    intro p R hp hR hS hps
    have hx : x ∈ ids := (hps _ List.mem_cons_self).1
    have hy : y ∈ ids := (hps _ List.mem_cons_self).2
    let R' : Nat → Nat → Prop := fun a b => R a b ∨ (a = x ∧ b = y)
    have hR' : ∀ a b, R' a b → a ∈ ids ∧ b ∈ ids := by
      rintro a b (h | ⟨rfl, rfl⟩)
      · exact hR a b h
      · exact ⟨hx, hy⟩
    have hp' := unionCls_partition hp hx hy
    have hxy : Relation.EqvGen R' x y := Relation.EqvGen.rel _ _ (Or.inr ⟨rfl, rfl⟩)
    have hup : ∀ a b, a ∈ ids → b ∈ ids → SameClass p a b → Relation.EqvGen R' a b :=
      fun a b ha hb h => Relation.EqvGen.mono (fun _ _ h => Or.inl h) _ _ ((hS a ha b hb).1 h)
    have hS' : ∀ u ∈ ids, ∀ v ∈ ids, (SameClass (unionCls p x y) u v ↔ Relation.EqvGen R' u v) := by
      intro u hu v hv
      constructor
      · intro h
        rcases unionCls_only hp hx hy h with h | ⟨hu', hv'⟩
        · exact hup u v hu hv h
        · have eu : Relation.EqvGen R' u x := by
            rcases hu' with h | h
            · exact hup u x hu hx h
            · exact Relation.EqvGen.trans _ _ _ (hup u y hu hy h) (Relation.EqvGen.symm _ _ hxy)
          have ev : Relation.EqvGen R' x v := by
            rcases hv' with h | h
            · exact Relation.EqvGen.symm _ _ (hup v x hv hx h)
            · exact Relation.EqvGen.trans _ _ _ hxy (Relation.EqvGen.symm _ _ (hup v y hv hy h))
          exact Relation.EqvGen.trans _ _ _ eu ev
      · intro h
        have : ∀ a b, Relation.EqvGen R' a b → a ∈ ids → SameClass (unionCls p x y) a b := by
          intro a b hab
          induction hab with
          | rel a b h =>
            intro ha
            rcases h with h | ⟨rfl, rfl⟩
            · exact unionCls_mono hp hx hy
                ((hS a (hR a b h).1 b (hR a b h).2).2 (Relation.EqvGen.rel _ _ h))
            · exact unionCls_joins hp hx hy
          | refl a => exact fun ha => sc_refl hp' ha
          | symm a b hab ih =>
            exact fun ha => sc_symm (ih ((eqvGen_ids hR' hab).2 ha))
          | trans a b c hab _ ih1 ih2 =>
            exact fun ha => sc_trans hp' (ih1 ha) (ih2 ((eqvGen_ids hR' hab).1 ha))
        exact this u v h hu
    obtain ⟨h1, h2⟩ := ih (unionCls p x y) R' hp' hR' hS' fun sd hsd => hps sd (List.mem_cons_of_mem _ hsd)
    refine ⟨h1, fun u hu v hv => ?_⟩
    rw [List.foldl_cons, h2 u hu v hv]
    constructor
    · apply Relation.EqvGen.mono
      rintro a b ((h | ⟨rfl, rfl⟩) | h)
      · exact Or.inl h
      · exact Or.inr List.mem_cons_self
      · exact Or.inr (List.mem_cons_of_mem _ h)
    · apply Relation.EqvGen.mono
      rintro a b (h | h)
      · exact Or.inl (Or.inl h)
      · rcases List.mem_cons.mp h with e | h
        · simp only [Prod.mk.injEq] at e
          exact Or.inl (Or.inr e)
        · exact Or.inr h

/-! ## The start partition -/

theorem init_partition (ids : List Nat) (hids : ids.Nodup) : IsPartition (ids.map fun v => [v]) ids := by
  refine ⟨?_, ?_, ?_⟩
  · intro c hc
    obtain ⟨v, hv, rfl⟩ := List.mem_map.mp hc
    exact ⟨by simp, fun x hx => by simp at hx; exact hx ▸ hv⟩
  · intro u hu
    exact ⟨[u], List.mem_map.mpr ⟨u, hu, rfl⟩, by simp⟩
  · rw [List.pairwise_map]
    refine List.Pairwise.imp ?_ hids
    intro a b hab x hx hx'
    simp at hx hx'
    exact hab (hx.symm.trans hx')

theorem init_sameClass (ids : List Nat) (u v : Nat) (hu : u ∈ ids) :
    SameClass (ids.map fun v => [v]) u v ↔ u = v := by
  constructor
  · rintro ⟨c, hc, h1, h2⟩
    obtain ⟨w, _, rfl⟩ := List.mem_map.mp hc
    simp at h1 h2
    rw [h1, h2]
  · rintro rfl
    exact ⟨[u], List.mem_map.mpr ⟨u, hu, rfl⟩, by simp, by simp⟩

theorem eqvGen_false_iff (u v : Nat) : Relation.EqvGen (fun _ _ : Nat => False) u v ↔ u = v := by
  constructor
  · intro h
    induction h with
    | rel _ _ h => exact h.elim
    | refl => rfl
    | symm _ _ _ ih => exact ih.symm
    | trans _ _ _ _ _ ih1 ih2 => exact ih1.trans ih2
  · rintro rfl; exact Relation.EqvGen.refl _

/-! ## Main statements -/

theorem orbitsUF_spec' (ids : List Nat) (maps : List Mapping) (hids : ids.Nodup)
    (hmaps : ∀ m ∈ maps, ∀ sd ∈ m, sd.1 ∈ ids ∧ sd.2 ∈ ids) :
    IsPartition (orbitsUF ids maps) ids ∧
    ∀ u ∈ ids, ∀ v ∈ ids, (SameClass (orbitsUF ids maps) u v ↔ Relation.EqvGen (GenRel maps) u v) := by
  have hfold : orbitsUF ids maps =
      maps.flatten.foldl (fun p sd => unionCls p sd.1 sd.2) (ids.map fun v => [v]) := by
    unfold orbitsUF; rw [List.foldl_flatten]
  have hflat : ∀ sd ∈ maps.flatten, sd.1 ∈ ids ∧ sd.2 ∈ ids := by
    intro sd hsd
    obtain ⟨m, hm, h⟩ := List.mem_flatten.mp hsd
    exact hmaps m hm sd h
  obtain ⟨h1, h2⟩ := ufold_spec ids maps.flatten (ids.map fun v => [v]) (fun _ _ => False)
    (init_partition ids hids) (fun _ _ h => h.elim)
    (fun u hu v _ => by rw [init_sameClass ids u v hu, eqvGen_false_iff]) hflat
  rw [hfold]
  refine ⟨h1, fun u hu v hv => ?_⟩
  rw [h2 u hu v hv]
  constructor
  · apply Relation.EqvGen.mono
    rintro a b (h | h)
    · exact h.elim
    · obtain ⟨m, hm, h⟩ := List.mem_flatten.mp h
      exact ⟨m, hm, h⟩
  · apply Relation.EqvGen.mono
    rintro a b ⟨m, hm, h⟩
    exact Or.inr (List.mem_flatten.mpr ⟨m, hm, h⟩)

theorem orbitsUF_auts' (sel : SelD) (G : LGraph) (hG : G.ids.Nodup) :
    IsPartition (orbitsUF G.ids (autsD sel G)) G.ids ∧
    ∀ u ∈ G.ids, ∀ v ∈ G.ids, (SameClass (orbitsUF G.ids (autsD sel G)) u v ↔ ∃ σ ∈ autsD sel G, app σ u = v) := by
  have hσ : ∀ σ ∈ autsD sel G, σ.map (·.1) = G.ids ∧ IsIsoF sel G G (app σ) :=
    fun σ h => (mem_allIsoD' sel G G hG σ).1 h
  have hpair : ∀ σ ∈ autsD sel G, ∀ sd ∈ σ, sd.1 ∈ G.ids ∧ sd.2 = app σ sd.1 := by
    intro σ h sd hsd
    obtain ⟨h1, _⟩ := hσ σ h
    refine ⟨h1 ▸ List.mem_map.mpr ⟨sd, hsd, rfl⟩, ?_⟩
    exact (app_of_mem σ (h1 ▸ hG) sd.1 sd.2 hsd).symm
  have hmaps : ∀ m ∈ autsD sel G, ∀ sd ∈ m, sd.1 ∈ G.ids ∧ sd.2 ∈ G.ids := by
    intro σ h sd hsd
    obtain ⟨h1, h2⟩ := hpair σ h sd hsd
    exact ⟨h1, h2 ▸ (hσ σ h).2.mem _ h1⟩
  have hgen : ∀ a b, GenRel (autsD sel G) a b → a ∈ G.ids ∧ b ∈ G.ids ∧ OrbRel sel G a b := by
    rintro a b ⟨σ, h, hab⟩
    obtain ⟨h1, h2⟩ := hpair σ h _ hab
    exact ⟨h1, (hmaps σ h _ hab).2, σ, h, h2.symm⟩
  obtain ⟨hp, hS⟩ := orbitsUF_spec' G.ids (autsD sel G) hG hmaps
  refine ⟨hp, fun u hu v hv => ?_⟩
  rw [hS u hu v hv]
  constructor
  · intro h
    have : ∀ a b, Relation.EqvGen (GenRel (autsD sel G)) a b → (a ∈ G.ids ↔ b ∈ G.ids) ∧
        (a ∈ G.ids → OrbRel sel G a b) := by
      intro a b hab
      induction hab with
      | rel a b h =>
        obtain ⟨h1, h2, h3⟩ := hgen a b h
        exact ⟨⟨fun _ => h2, fun _ => h1⟩, fun _ => h3⟩
      | refl a => exact ⟨Iff.rfl, fun ha => orbRel_refl sel G hG ha⟩
      | symm a b _ ih => exact ⟨ih.1.symm, fun hb => orbRel_symm sel G hG (ih.1.2 hb) (ih.2 (ih.1.2 hb))⟩
      | trans a b c _ _ ih1 ih2 =>
        exact ⟨ih1.1.trans ih2.1, fun ha => orbRel_trans sel G hG ha (ih1.2 ha) (ih2.2 (ih1.1.1 ha))⟩
    exact (this u v h).2 hu
  · rintro ⟨σ, h, e⟩
    refine Relation.EqvGen.rel _ _ ⟨σ, h, ?_⟩
    have := mem_of_app σ u ((hσ σ h).1 ▸ hu)
    rwa [e] at this

/-! ## equivariance of `canonBy`; the views are well formed; renaming a network gives isomorphic views -/

/-! ## A. canonical graphs along corresponding orders are key-identical -/

theorem idxOf_map_of_inj (f : Nat → Nat) (perm : List Nat) (hnd : perm.Nodup)
    (hinj : ∀ a ∈ perm, ∀ b ∈ perm, f a = f b → a = b) {v : Nat} (hv : v ∈ perm) :
    (perm.map f).idxOf (f v) = perm.idxOf v := by
  have hnd' : (perm.map f).Nodup := List.Nodup.map_on hinj hnd
  have h1 : perm.idxOf v < perm.length := List.idxOf_lt_length_iff.2 hv
  have h2 : perm.idxOf v < (perm.map f).length := by simpa using h1
  have : (perm.map f)[perm.idxOf v] = f v := by
    rw [List.getElem_map, List.getElem_idxOf h1]
  rw [← this, hnd'.idxOf_getElem]

/-- If `f` is a structure-preserving map of `G` onto `G'` and `perm` an order of `G`, then the canonical
graph of `G'` along the transported order `perm.map f` and the canonical graph of `G` along `perm`
are identical on the configured keys (the identity is structure preserving between them). -/
theorem canon_equivariant' (sel : SelD) (G G' : LGraph) (f : Nat → Nat) (perm : List Nat)
    (hG : WFD G) (hG' : WFD G') (hf : IsIsoF sel G' G f) (hperm : IsOrder G perm) :
    IsOrder G' (perm.map f) ∧ IsIsoF sel (canonBy G' (perm.map f)) (canonBy G perm) id := by
  have hpm : ∀ v, v ∈ perm ↔ v ∈ G.ids := hperm.2
  have hinj : ∀ a ∈ perm, ∀ b ∈ perm, f a = f b → a = b :=
    fun a ha b hb e => hf.inj a ((hpm a).1 ha) b ((hpm b).1 hb) e
  have hord : IsOrder G' (perm.map f) := by
    refine ⟨List.Nodup.map_on hinj hperm.1, fun v => ⟨?_, ?_⟩⟩
    · intro hv
      obtain ⟨p, hp, rfl⟩ := List.mem_map.mp hv
      exact hf.mem p ((hpm p).1 hp)
    · intro hv
      obtain ⟨p, hp, rfl⟩ := hf.surj hG'.1 hG.1 v hv
      exact List.mem_map_of_mem ((hpm p).2 hp)
  have hpos : ∀ v ∈ G.ids, posOf (perm.map f) (f v) = posOf perm v := by
    intro v hv
    unfold posOf
    rw [idxOf_map_of_inj f perm hperm.1 hinj ((hpm v).2 hv)]
  obtain ⟨-, -, hat, har⟩ := canon_faithful' sel G perm hG hperm
  obtain ⟨-, -, hat', har'⟩ := canon_faithful' sel G' (perm.map f) hG' hord
  have hids : (canonBy G perm).ids = G.ids.map (posOf perm) := relabel_ids G _
  have hids' : (canonBy G' (perm.map f)).ids = G'.ids.map (posOf (perm.map f)) := relabel_ids G' _
  refine ⟨hord, ⟨fun _ _ _ _ e => e, ?_, ?_, ?_, ?_⟩⟩
  · intro x hx
    rw [hids] at hx
    obtain ⟨v, hv, rfl⟩ := List.mem_map.mp hx
    rw [id, ← hpos v hv, hids']
    exact List.mem_map_of_mem (hf.mem v hv)
  · rw [hids, hids', List.length_map, List.length_map, hf.size]
  · intro x hx
    rw [hids] at hx
    obtain ⟨v, hv, rfl⟩ := List.mem_map.mp hx
    rw [id, hat v hv, ← hpos v hv, hat' (f v) (hf.mem v hv)]
    exact hf.node v hv
  · intro x hx y hy
    rw [hids] at hx hy
    obtain ⟨u, hu, rfl⟩ := List.mem_map.mp hx
    obtain ⟨v, hv, rfl⟩ := List.mem_map.mp hy
    rw [id, id, har u hu v hv, ← hpos u hu, ← hpos v hv, har' (f u) (hf.mem u hu) (f v) (hf.mem v hv)]
    exact hf.arc u hu v hv

/-! ## Generic lookups in attribute graphs -/

theorem attrs_of_mem (g : LGraph) (hnd : g.ids.Nodup) {v : Nat} {a : Attrs} (h : (v, a) ∈ g.nodes) :
    g.attrs v = a := by
  obtain ⟨nodes, edges⟩ := g
  unfold LGraph.attrs
  simp only [LGraph.ids] at hnd h ⊢
  induction nodes with
  | nil => simp at h
  | cons x rest ih =>
    obtain ⟨w, b⟩ := x
    simp only [List.map_cons, List.nodup_cons] at hnd
    rcases List.mem_cons.mp h with e | h
    · simp only [Prod.mk.injEq] at e
      simp [e.1, e.2]
    · have hne : w ≠ v := by
        rintro rfl
        exact hnd.1 (List.mem_map.mpr ⟨(w, a), h, rfl⟩)
      simp only [List.find?_cons, hne, decide_false]
      exact ih hnd.2 h

/-- Edge lists in which an ordered pair carries at most one attribute dict. -/
def FunEdges (g : LGraph) : Prop :=
  ∀ u v a a', (u, v, a) ∈ g.edges → (u, v, a') ∈ g.edges → a = a'

theorem arc?_eq_some_iff (g : LGraph) (hfun : FunEdges g) (u v : Nat) (a : Attrs) :
    g.arc? u v = some a ↔ (u, v, a) ∈ g.edges := by
  unfold LGraph.arc?
  rw [Option.map_eq_some_iff]
  constructor
  · rintro ⟨e, hf, rfl⟩
    have h1 := List.find?_some hf
    have h2 := List.mem_of_find?_eq_some hf
    simp only [decide_eq_true_eq] at h1
    obtain ⟨e1, e2, e3⟩ := e
    simp only at h1
    rw [← h1.1, ← h1.2]; exact h2
  · intro h
    cases hf : g.edges.find? (fun e => decide (e.1 = u ∧ e.2.1 = v)) with
    | none =>
      have := List.find?_eq_none.mp hf _ h
      simp at this
    | some e =>
      have h1 := List.find?_some hf
      have h2 := List.mem_of_find?_eq_some hf
      simp only [decide_eq_true_eq] at h1
      obtain ⟨e1, e2, e3⟩ := e
      simp only at h1
      obtain ⟨rfl, rfl⟩ := h1
      exact ⟨_, rfl, hfun _ _ _ _ h2 h⟩

theorem arc?_eq_none_iff (g : LGraph) (u v : Nat) :
    g.arc? u v = none ↔ ∀ a, (u, v, a) ∉ g.edges := by
  unfold LGraph.arc?
  rw [Option.map_eq_none_iff, List.find?_eq_none]
  constructor
  · intro h a ha
    have := h _ ha
    simp at this
  · intro h e he
    obtain ⟨e1, e2, e3⟩ := e
    simp only [decide_eq_true_eq, not_and]
    rintro rfl rfl
    exact h _ he

/-! ## B. the bipartite view -/

theorem bip_ids (stoich : Bool) (N : Net) :
    (viewBip stoich N).ids = List.range' 0 (N.labels.length + N.rxns.length) := by
  unfold viewBip LGraph.ids
  simp only [List.map_append, List.map_map]
  have h1 : (N.labels.zipIdx.map ((fun x : Nat × Attrs => x.1) ∘ fun li => (li.2, spAttrsBip li.1))) =
      List.range' 0 N.labels.length := by
    rw [← List.zipIdx_map_snd 0 N.labels]; rfl
  have h2 : (N.rxns.zipIdx.map ((fun x : Nat × Attrs => x.1) ∘
        fun rj => (N.labels.length + rj.2, rxAttrsBip rj.1.rule))) =
      List.range' (N.labels.length) N.rxns.length := by
    have : ((fun x : Nat × Attrs => x.1) ∘ fun rj : Rxn × Nat => (N.labels.length + rj.2, rxAttrsBip rj.1.rule)) =
        (fun x => N.labels.length + x) ∘ Prod.snd := rfl
    rw [this, ← List.map_map, List.zipIdx_map_snd, List.map_add_range']
    rfl
  rw [h1, h2]
  have := @List.range'_append 0 N.labels.length N.rxns.length 1
  simpa using this

theorem bip_mem_ids (stoich : Bool) (N : Net) (v : Nat) :
    v ∈ (viewBip stoich N).ids ↔ v < N.labels.length + N.rxns.length := by
  rw [bip_ids, List.mem_range'_1]; omega

theorem bip_ids_nodup (stoich : Bool) (N : Net) : (viewBip stoich N).ids.Nodup := by
  rw [bip_ids]; exact List.nodup_range' 1

theorem bip_attrs_sp (stoich : Bool) (N : Net) {i : Nat} {l : String} (h : N.labels[i]? = some l) :
    (viewBip stoich N).attrs i = spAttrsBip l := by
  apply attrs_of_mem _ (bip_ids_nodup stoich N)
  unfold viewBip
  simp only
  apply List.mem_append_left
  exact List.mem_map.mpr ⟨(l, i), List.mem_zipIdx_iff_getElem?.mpr h, rfl⟩

theorem bip_attrs_rx (stoich : Bool) (N : Net) {j : Nat} {r : Rxn} (h : N.rxns[j]? = some r) :
    (viewBip stoich N).attrs (N.labels.length + j) = rxAttrsBip r.rule := by
  apply attrs_of_mem _ (bip_ids_nodup stoich N)
  unfold viewBip
  simp only
  apply List.mem_append_right
  exact List.mem_map.mpr ⟨(r, j), List.mem_zipIdx_iff_getElem?.mpr h, rfl⟩

theorem bip_mem_edges (stoich : Bool) (N : Net) (u v : Nat) (a : Attrs) :
    (u, v, a) ∈ (viewBip stoich N).edges ↔ ∃ r j, N.rxns[j]? = some r ∧
      ((∃ sc ∈ r.reactants, u = sc.1 ∧ v = N.labels.length + j ∧ a = arcAttrsBip stoich sc.2 "reactant") ∨
       (∃ sc ∈ r.products, u = N.labels.length + j ∧ v = sc.1 ∧ a = arcAttrsBip stoich sc.2 "product")) := by
  unfold viewBip
  simp only [List.mem_flatMap, List.mem_append, List.mem_map]
  constructor
  · rintro ⟨⟨r, j⟩, hj, h | h⟩
    · obtain ⟨sc, hc, e⟩ := h
      simp only [Prod.mk.injEq] at e
      exact ⟨r, j, List.mem_zipIdx_iff_getElem?.mp hj, Or.inl ⟨sc, hc, e.1.symm, e.2.1.symm, e.2.2.symm⟩⟩
    · obtain ⟨sc, hc, e⟩ := h
      simp only [Prod.mk.injEq] at e
      exact ⟨r, j, List.mem_zipIdx_iff_getElem?.mp hj, Or.inr ⟨sc, hc, e.1.symm, e.2.1.symm, e.2.2.symm⟩⟩
  · rintro ⟨r, j, hj, h | h⟩
    · obtain ⟨sc, hc, e1, e2, e3⟩ := h
      exact ⟨(r, j), List.mem_zipIdx_iff_getElem?.mpr hj, Or.inl ⟨sc, hc, by rw [e1, e2, e3]⟩⟩
    · obtain ⟨sc, hc, e1, e2, e3⟩ := h
      exact ⟨(r, j), List.mem_zipIdx_iff_getElem?.mpr hj, Or.inr ⟨sc, hc, by rw [e1, e2, e3]⟩⟩

theorem wf_bound {N : Net} (hN : N.WF) {r : Rxn} {j : Nat} (hj : N.rxns[j]? = some r) :
    (∀ sc ∈ r.reactants, sc.1 < N.labels.length) ∧ (∀ sc ∈ r.products, sc.1 < N.labels.length) ∧
    (r.reactants.map (·.1)).Nodup ∧ (r.products.map (·.1)).Nodup ∧ j < N.rxns.length := by
  have hr : r ∈ N.rxns := List.mem_of_getElem? hj
  obtain ⟨h1, h2, h3, -⟩ := hN.1 r hr
  refine ⟨fun sc hsc => (h1 sc (List.mem_append_left _ hsc)).1,
    fun sc hsc => (h1 sc (List.mem_append_right _ hsc)).1, h2, h3, ?_⟩
  obtain ⟨h, -⟩ := List.getElem?_eq_some_iff.mp hj
  exact h

theorem bip_funEdges (stoich : Bool) (N : Net) (hN : N.WF) : FunEdges (viewBip stoich N) := by
  intro u v a a' h h'
  obtain ⟨r, j, hj, hc⟩ := (bip_mem_edges stoich N u v a).1 h
  obtain ⟨r', j', hj', hc'⟩ := (bip_mem_edges stoich N u v a').1 h'
  obtain ⟨b1, b2, n1, n2, -⟩ := wf_bound hN hj
  obtain ⟨b1', b2', -, -, -⟩ := wf_bound hN hj'
  rcases hc with ⟨sc, hsc, e1, e2, e3⟩ | ⟨sc, hsc, e1, e2, e3⟩ <;>
    rcases hc' with ⟨sc', hsc', e1', e2', e3'⟩ | ⟨sc', hsc', e1', e2', e3'⟩
  · have : j = j' := by omega
    subst this
    have : r = r' := by rw [hj] at hj'; exact Option.some.inj hj'
    subst this
    have : sc = sc' := List.inj_on_of_nodup_map n1 hsc hsc' (e1.symm.trans e1')
    rw [e3, e3', this]
  · have := b1 sc hsc; omega
  · have := b1' sc' hsc'; omega
  · have : j = j' := by omega
    subst this
    have : r = r' := by rw [hj] at hj'; exact Option.some.inj hj'
    subst this
    have : sc = sc' := List.inj_on_of_nodup_map n2 hsc hsc' (e2.symm.trans e2')
    rw [e3, e3', this]

theorem viewBip_wfd' (stoich : Bool) (N : Net) (hN : N.WF) : WFD (viewBip stoich N) := by
  refine ⟨bip_ids_nodup stoich N, ?_⟩
  rintro ⟨u, v, a⟩ he
  obtain ⟨r, j, hj, hc⟩ := (bip_mem_edges stoich N u v a).1 he
  obtain ⟨b1, b2, -, -, hjl⟩ := wf_bound hN hj
  simp only [bip_mem_ids]
  rcases hc with ⟨sc, hsc, e1, e2, -⟩ | ⟨sc, hsc, e1, e2, -⟩
  · have := b1 sc hsc; omega
  · have := b2 sc hsc; omega

theorem perm_index {α : Type} [DecidableEq α] [Inhabited α] (l1 l2 : List α) (hp : l1.Perm l2)
    (hnd : l2.Nodup) :
    ∃ τ : Nat → Nat, (∀ j x, l1[j]? = some x → l2[τ j]? = some x) ∧
      (∀ i < l1.length, ∀ j < l1.length, τ i = τ j → i = j) := by
  have hnd1 : l1.Nodup := hp.nodup_iff.2 hnd
  have key : ∀ j x, l1[j]? = some x → l2[l2.idxOf (l1.getD j default)]? = some x := by
    intro j x hx
    have : l1.getD j default = x := by rw [List.getD_eq_getElem?_getD, hx]; rfl
    rw [this]
    exact List.getElem?_idxOf (hp.subset (List.mem_of_getElem? hx))
  refine ⟨fun j => l2.idxOf (l1.getD j default), key, ?_⟩
  intro i hi j hj e
  have g1 := key i _ (List.getElem?_eq_getElem hi)
  have g2 := key j _ (List.getElem?_eq_getElem hj)
  simp only at e
  rw [e, g2] at g1
  exact (hnd1.getElem_inj_iff).1 (Option.some.inj g1).symm

theorem sp_get_eq (l l' k : String) (hk : k = "kind" ∨ k = "bipartite") :
    (spAttrsBip l).get k = (spAttrsBip l').get k := by
  rcases hk with rfl | rfl <;> simp [spAttrsBip, Attrs.get, Dict.getD, Dict.get?]

theorem viewBip_iso_of_sameUpToNames' (sel : SelD) (stoich : Bool) (N N' : Net)
    (hsel : ∀ k ∈ sel.nodeKeys, k = "kind" ∨ k = "bipartite")
    (hN : N.WF) (hN' : N'.WF) (h : SameUpToNames N N') :
    ∃ f, IsIsoF sel (viewBip stoich N') (viewBip stoich N) f := by
  obtain ⟨hlen, σ, hσ1, hσ2, rs, hperm, hrl, hz⟩ := h
  have hndR' : N'.rxns.Nodup := List.Nodup.of_map _ hN'.2
  obtain ⟨τ, hτ, hτinj⟩ := perm_index rs N'.rxns hperm hndR'
  have hrl' : N'.rxns.length = N.rxns.length := by rw [← hperm.length_eq, hrl]
  have hpair : ∀ j r, N.rxns[j]? = some r → ∃ r', N'.rxns[τ j]? = some r' ∧ r'.rule = r.rule ∧
      r'.reactants.Perm (r.reactants.map fun sc => (σ sc.1, sc.2)) ∧
      r'.products.Perm (r.products.map fun sc => (σ sc.1, sc.2)) := by
    intro j r hj
    have hjl : j < rs.length := by rw [hrl]; exact (List.getElem?_eq_some_iff.mp hj).1
    have hr' : rs[j]? = some rs[j] := List.getElem?_eq_getElem hjl
    have hmem : (r, rs[j]) ∈ N.rxns.zip rs :=
      List.mem_iff_getElem?.mpr ⟨j, List.getElem?_zip_eq_some.mpr ⟨hj, hr'⟩⟩
    exact ⟨rs[j], hτ j _ hr', hz _ hmem⟩
  have hget : ∀ j (hj : j < N.rxns.length), N.rxns[j]? = some N.rxns[j] :=
    fun j hj => List.getElem?_eq_getElem hj
  have hτlt : ∀ j, j < N.rxns.length → τ j < N.rxns.length := by
    intro j hj
    obtain ⟨r', h1, -⟩ := hpair j _ (hget j hj)
    rw [← hrl']; exact (List.getElem?_eq_some_iff.mp h1).1
  have hτinj' : ∀ i, i < N.rxns.length → ∀ j, j < N.rxns.length → τ i = τ j → i = j :=
    fun i hi j hj => hτinj i (hrl ▸ hi) j (hrl ▸ hj)
  let f : Nat → Nat := fun v => if v < N.labels.length then σ v else N.labels.length + τ (v - N.labels.length)
  have hf1 : ∀ v, v < N.labels.length → f v = σ v := fun v hv => if_pos hv
  have hf3 : ∀ v, ¬ v < N.labels.length → f v = N.labels.length + τ (v - N.labels.length) :=
    fun v hv => if_neg hv
  have hf2 : ∀ j, f (N.labels.length + j) = N.labels.length + τ j := by
    intro j; rw [hf3 _ (by omega)]; congr 2; omega
  -- edges correspond
  have hedge : ∀ p q a, p < N.labels.length + N.rxns.length → q < N.labels.length + N.rxns.length →
      ((f p, f q, a) ∈ (viewBip stoich N').edges ↔ (p, q, a) ∈ (viewBip stoich N).edges) := by
    intro p q a hp hq
    rw [bip_mem_edges, bip_mem_edges, hlen]
    constructor
    · rintro ⟨r', j', hj', hc⟩
      obtain ⟨b1', b2', -, -, hj'l⟩ := wf_bound hN' hj'
      rw [hlen] at b1' b2'
      rcases hc with ⟨sc', hsc', e1, e2, e3⟩ | ⟨sc', hsc', e1, e2, e3⟩
      · have hpS : p < N.labels.length := by
          by_contra hc
          have := b1' sc' hsc'; rw [hf3 p hc] at e1; omega
        have hqS : ¬ q < N.labels.length := by
          intro hc
          have := hσ1 q hc; rw [hf1 q hc] at e2; omega
        have hjl : q - N.labels.length < N.rxns.length := by omega
        have hqe : q = N.labels.length + (q - N.labels.length) := by omega
        obtain ⟨r'', h1, -, h3, -⟩ := hpair _ _ (hget _ hjl)
        have hτj : τ (q - N.labels.length) = j' := by rw [hf3 q hqS] at e2; omega
        rw [hτj, hj'] at h1
        have hr : r' = r'' := Option.some.inj h1
        subst hr
        obtain ⟨sc, hsc, esc⟩ := List.mem_map.mp (h3.mem_iff.1 hsc')
        obtain ⟨c1, -, -, -, -⟩ := wf_bound hN (hget _ hjl)
        have hps : sc.1 = p := by
          apply hσ2 _ (c1 sc hsc) _ hpS
          rw [← hf1 p hpS, e1, ← esc]
        refine ⟨_, _, hget _ hjl, Or.inl ⟨sc, hsc, hps.symm, hqe, ?_⟩⟩
        rw [e3, ← esc]
      · have hqS : q < N.labels.length := by
          by_contra hc
          have := b2' sc' hsc'; rw [hf3 q hc] at e2; omega
        have hpS : ¬ p < N.labels.length := by
          intro hc
          have := hσ1 p hc; rw [hf1 p hc] at e1; omega
        have hjl : p - N.labels.length < N.rxns.length := by omega
        have hpe : p = N.labels.length + (p - N.labels.length) := by omega
        obtain ⟨r'', h1, -, -, h4⟩ := hpair _ _ (hget _ hjl)
        have hτj : τ (p - N.labels.length) = j' := by rw [hf3 p hpS] at e1; omega
        rw [hτj, hj'] at h1
        have hr : r' = r'' := Option.some.inj h1
        subst hr
        obtain ⟨sc, hsc, esc⟩ := List.mem_map.mp (h4.mem_iff.1 hsc')
        obtain ⟨-, c2, -, -, -⟩ := wf_bound hN (hget _ hjl)
        have hqs : sc.1 = q := by
          apply hσ2 _ (c2 sc hsc) _ hqS
          rw [← hf1 q hqS, e2, ← esc]
        refine ⟨_, _, hget _ hjl, Or.inr ⟨sc, hsc, hpe, hqs.symm, ?_⟩⟩
        rw [e3, ← esc]
    · rintro ⟨r, j, hj, hc⟩
      obtain ⟨r', h1, -, h3, h4⟩ := hpair j r hj
      obtain ⟨c1, c2, -, -, -⟩ := wf_bound hN hj
      rcases hc with ⟨sc, hsc, e1, e2, e3⟩ | ⟨sc, hsc, e1, e2, e3⟩
      · refine ⟨r', τ j, h1, Or.inl ⟨(σ sc.1, sc.2), ?_, ?_, ?_, e3⟩⟩
        · exact h3.mem_iff.2 (List.mem_map.mpr ⟨sc, hsc, rfl⟩)
        · rw [e1, hf1 _ (c1 sc hsc)]
        · rw [e2, hf2]
      · refine ⟨r', τ j, h1, Or.inr ⟨(σ sc.1, sc.2), ?_, ?_, ?_, e3⟩⟩
        · exact h4.mem_iff.2 (List.mem_map.mpr ⟨sc, hsc, rfl⟩)
        · rw [e1, hf2]
        · rw [e2, hf1 _ (c2 sc hsc)]
  have hfun := bip_funEdges stoich N hN
  have hfun' := bip_funEdges stoich N' hN'
  refine ⟨f, ?_, ?_, ?_, ?_, ?_⟩
  · intro p hp q hq e
    rw [bip_mem_ids] at hp hq
    by_cases h1 : p < N.labels.length <;> by_cases h2 : q < N.labels.length
    · rw [hf1 p h1, hf1 q h2] at e; exact hσ2 p h1 q h2 e
    · rw [hf1 p h1, hf3 q h2] at e; have := hσ1 p h1; omega
    · rw [hf3 p h1, hf1 q h2] at e; have := hσ1 q h2; omega
    · rw [hf3 p h1, hf3 q h2] at e
      have := hτinj' (p - N.labels.length) (by omega) (q - N.labels.length) (by omega) (by omega)
      omega
  · intro p hp
    rw [bip_mem_ids] at hp ⊢
    rw [hlen, hrl']
    by_cases h1 : p < N.labels.length
    · rw [hf1 p h1]; have := hσ1 p h1; omega
    · rw [hf3 p h1]; have := hτlt (p - N.labels.length) (by omega); omega
  · rw [bip_ids, bip_ids, List.length_range', List.length_range', hlen, hrl']
  · intro p hp
    rw [bip_mem_ids] at hp
    by_cases h1 : p < N.labels.length
    · have h1' : σ p < N'.labels.length := hlen ▸ hσ1 p h1
      rw [hf1 p h1, bip_attrs_sp stoich N (List.getElem?_eq_getElem h1),
        bip_attrs_sp stoich N' (List.getElem?_eq_getElem h1')]
      simp only [nodeOkD, List.all_eq_true, decide_eq_true_eq]
      intro k hk
      exact sp_get_eq _ _ k (hsel k hk)
    · have hjl : p - N.labels.length < N.rxns.length := by omega
      obtain ⟨r', h2, h3, -, -⟩ := hpair _ _ (hget _ hjl)
      have hpe : p = N.labels.length + (p - N.labels.length) := by omega
      have hfp : f p = N'.labels.length + τ (p - N.labels.length) := by rw [hf3 p h1, hlen]
      rw [hfp, bip_attrs_rx stoich N' h2, hpe, bip_attrs_rx stoich N (hget _ hjl), h3]
      exact nodeOkD_refl _ _
  · intro p hp q hq
    rw [bip_mem_ids] at hp hq
    have : (viewBip stoich N').arc? (f p) (f q) = (viewBip stoich N).arc? p q := by
      apply Option.ext
      intro a
      rw [arc?_eq_some_iff _ hfun', arc?_eq_some_iff _ hfun]
      exact hedge p q a hp hq
    rw [this]
    exact arcOkD_refl _ _

theorem canonBruteD_sameUpToNames_bip' (sel : SelD) (stoich : Bool) (N N' : Net)
    (hsel : ∀ k ∈ sel.nodeKeys, k = "kind" ∨ k = "bipartite")
    (hN : N.WF) (hN' : N'.WF) (h : SameUpToNames N N') :
    canonBruteD sel (viewBip stoich N') = canonBruteD sel (viewBip stoich N) :=
  canonBruteD_invariant' sel _ _ (bip_ids_nodup stoich N') (bip_ids_nodup stoich N)
    (viewBip_iso_of_sameUpToNames' sel stoich N N' hsel hN hN' h)

/-! ## The species view -/

/-- Ordered pairs joined by a list of aggregated arcs. -/
def arcPairs (arcs : List SArc) : List (Nat × Nat) := arcs.map fun a => (a.u, a.v)

theorem mem_pairs_addPair (arcs : List SArc) (eid rule : String) (r rc p pc : Nat) (x : Nat × Nat) :
    x ∈ arcPairs (addPair arcs eid rule r rc p pc) ↔ x ∈ arcPairs arcs ∨ x = (r, p) := by
  unfold addPair
  split
  · rename_i hany
    have hsame : arcPairs (arcs.map fun a =>
        if a.u = r ∧ a.v = p then
          { a with via := setAdd a.via eid, rules := setAdd a.rules rule,
                   srMap := Dict.set a.srMap eid rc, spMap := Dict.set a.spMap eid pc,
                   sr := min a.sr rc, sp := min a.sp pc }
        else a) = arcPairs arcs := by
      unfold arcPairs
      rw [List.map_map]
      apply List.map_congr_left
      intro a _
      simp only [Function.comp_apply]
      split <;> rfl
    rw [hsame]
    constructor
    · exact Or.inl
    · rintro (h | rfl)
      · exact h
      · obtain ⟨a, ha, hc⟩ := List.any_eq_true.mp hany
        simp only [decide_eq_true_eq] at hc
        exact List.mem_map.mpr ⟨a, ha, by rw [hc.1, hc.2]⟩
  · simp [arcPairs]

theorem mem_pairs_foldl {β : Type} (step : List SArc → β → List SArc) (Q : β → Nat × Nat → Prop)
    (hstep : ∀ arcs b x, x ∈ arcPairs (step arcs b) ↔ x ∈ arcPairs arcs ∨ Q b x)
    (l : List β) (arcs : List SArc) (x : Nat × Nat) :
    x ∈ arcPairs (l.foldl step arcs) ↔ x ∈ arcPairs arcs ∨ ∃ b ∈ l, Q b x := by
  induction l generalizing arcs with
  | nil => simp
  | cons b bs ih =>
    rw [List.foldl_cons, ih, hstep]
    simp only [List.mem_cons, exists_eq_or_imp]
    exact or_assoc

theorem mem_pairs_speciesArcs (N : Net) (x : Nat × Nat) :
    x ∈ arcPairs (speciesArcs N) ↔
      ∃ e ∈ N.rxns, ∃ rc ∈ e.reactants, ∃ pc ∈ e.products, x = (rc.1, pc.1) := by
  unfold speciesArcs
  rw [mem_pairs_foldl _ (fun e x => ∃ rc ∈ e.reactants, ∃ pc ∈ e.products, x = (rc.1, pc.1))]
  · simp [arcPairs]
  · intro arcs e x
    rw [mem_pairs_foldl _ (fun rc x => ∃ pc ∈ e.products, x = (rc.1, pc.1))]
    intro arcs rc x
    rw [mem_pairs_foldl _ (fun pc x => x = (rc.1, pc.1))]
    intro arcs pc x
    exact mem_pairs_addPair _ _ _ _ _ _ _ _

theorem sp_ids (N : Net) : (viewSpecies N).ids = List.range' 0 N.labels.length := by
  unfold viewSpecies LGraph.ids
  simp only [List.map_map]
  rw [← List.zipIdx_map_snd 0 N.labels]; rfl

theorem sp_mem_ids (N : Net) (v : Nat) : v ∈ (viewSpecies N).ids ↔ v < N.labels.length := by
  rw [sp_ids, List.mem_range'_1]; omega

theorem sp_ids_nodup (N : Net) : (viewSpecies N).ids.Nodup := by
  rw [sp_ids]; exact List.nodup_range' 1

theorem sp_mem_edges (N : Net) (u v : Nat) (a : Attrs) :
    (u, v, a) ∈ (viewSpecies N).edges ↔ ∃ x ∈ speciesArcs N, u = x.u ∧ v = x.v ∧ a = x.attrs := by
  unfold viewSpecies
  simp only [List.mem_map, Prod.mk.injEq]
  constructor
  · rintro ⟨x, hx, e1, e2, e3⟩; exact ⟨x, hx, e1.symm, e2.symm, e3.symm⟩
  · rintro ⟨x, hx, e1, e2, e3⟩; exact ⟨x, hx, e1.symm, e2.symm, e3.symm⟩

theorem sp_arc_ne_none_iff (N : Net) (u v : Nat) :
    (viewSpecies N).arc? u v ≠ none ↔ (u, v) ∈ arcPairs (speciesArcs N) := by
  rw [Ne, arc?_eq_none_iff]
  simp only [sp_mem_edges, not_forall, not_not]
  constructor
  · rintro ⟨a, x, hx, rfl, rfl, -⟩
    exact List.mem_map.mpr ⟨x, hx, rfl⟩
  · intro h
    obtain ⟨x, hx, e⟩ := List.mem_map.mp h
    simp only [Prod.mk.injEq] at e
    exact ⟨x.attrs, x, hx, e.1.symm, e.2.symm, rfl⟩

theorem sp_arc_some (N : Net) (u v : Nat) (a : Attrs) (h : (viewSpecies N).arc? u v = some a) :
    ∃ x : SArc, a = x.attrs := by
  unfold LGraph.arc? at h
  rw [Option.map_eq_some_iff] at h
  obtain ⟨e, hf, rfl⟩ := h
  have := List.mem_of_find?_eq_some hf
  obtain ⟨e1, e2, e3⟩ := e
  obtain ⟨x, -, -, -, hx⟩ := (sp_mem_edges N e1 e2 e3).1 this
  exact ⟨x, hx⟩

theorem viewSpecies_wfd' (N : Net) (hN : N.WF) : WFD (viewSpecies N) := by
  refine ⟨sp_ids_nodup N, ?_⟩
  rintro ⟨u, v, a⟩ he
  obtain ⟨x, hx, rfl, rfl, -⟩ := (sp_mem_edges N u v a).1 he
  have : (x.u, x.v) ∈ arcPairs (speciesArcs N) := List.mem_map.mpr ⟨x, hx, rfl⟩
  obtain ⟨e, he, rc, hrc, pc, hpc, heq⟩ := (mem_pairs_speciesArcs N _).1 this
  simp only [Prod.mk.injEq] at heq
  obtain ⟨hb, -⟩ := hN.1 e he
  simp only [sp_mem_ids]
  exact ⟨heq.1 ▸ (hb rc (List.mem_append_left _ hrc)).1, heq.2 ▸ (hb pc (List.mem_append_right _ hpc)).1⟩

theorem sarc_get_none (x : SArc) (k : String)
    (hk : k ∉ ["via", "rules", "stoich_r", "stoich_p", "stoich_r_map", "stoich_p_map"]) :
    x.attrs.get k = Val.none := by
  simp only [List.mem_cons, List.not_mem_nil, or_false, not_or] at hk
  obtain ⟨h1, h2, h3, h4, h5, h6⟩ := hk
  simp [SArc.attrs, Attrs.get, Dict.getD, Dict.get?, Ne.symm h1, Ne.symm h2, Ne.symm h3, Ne.symm h4,
    Ne.symm h5, Ne.symm h6]

set_option linter.unusedVariables false in
/-- (`hN'` is not needed; kept for the requested signature.) -/
theorem viewSpecies_iso_of_sameUpToNames' (sel : SelD) (N N' : Net)
    (hselN : ∀ k ∈ sel.nodeKeys, k = "kind")
    (hselE : ∀ k ∈ sel.edgeKeys, k ∉ ["via", "rules", "stoich_r", "stoich_p", "stoich_r_map", "stoich_p_map"])
    (hN : N.WF) (hN' : N'.WF) (h : SameUpToNames N N') :
    ∃ f, IsIsoF sel (viewSpecies N') (viewSpecies N) f := by
  obtain ⟨hlen, σ, hσ1, hσ2, rs, hperm, hrl, hz⟩ := h
  have hpairs : ∀ p q, p < N.labels.length → q < N.labels.length →
      ((σ p, σ q) ∈ arcPairs (speciesArcs N') ↔ (p, q) ∈ arcPairs (speciesArcs N)) := by
    intro p q hp hq
    rw [mem_pairs_speciesArcs, mem_pairs_speciesArcs]
    constructor
    · rintro ⟨e', he', rc', hrc', pc', hpc', heq⟩
      simp only [Prod.mk.injEq] at heq
      obtain ⟨j, hj⟩ := List.mem_iff_getElem?.mp (hperm.mem_iff.2 he')
      have hjl : j < N.rxns.length := hrl ▸ (List.getElem?_eq_some_iff.mp hj).1
      have hmem : (N.rxns[j], e') ∈ N.rxns.zip rs :=
        List.mem_iff_getElem?.mpr ⟨j, List.getElem?_zip_eq_some.mpr ⟨List.getElem?_eq_getElem hjl, hj⟩⟩
      obtain ⟨-, h3, h4⟩ := hz _ hmem
      have he : N.rxns[j] ∈ N.rxns := List.getElem_mem hjl
      obtain ⟨hb, -⟩ := hN.1 _ he
      obtain ⟨rc, hrc, erc⟩ := List.mem_map.mp (h3.mem_iff.1 hrc')
      obtain ⟨pc, hpc, epc⟩ := List.mem_map.mp (h4.mem_iff.1 hpc')
      refine ⟨_, he, rc, hrc, pc, hpc, ?_⟩
      have e1 : p = rc.1 := by
        apply hσ2 _ hp _ (hb rc (List.mem_append_left _ hrc)).1
        rw [heq.1, ← erc]
      have e2 : q = pc.1 := by
        apply hσ2 _ hq _ (hb pc (List.mem_append_right _ hpc)).1
        rw [heq.2, ← epc]
      rw [e1, e2]
    · rintro ⟨e, he, rc, hrc, pc, hpc, heq⟩
      simp only [Prod.mk.injEq] at heq
      obtain ⟨j, hj⟩ := List.mem_iff_getElem?.mp he
      have hjl : j < rs.length := by rw [hrl]; exact (List.getElem?_eq_some_iff.mp hj).1
      have hmem : (e, rs[j]) ∈ N.rxns.zip rs :=
        List.mem_iff_getElem?.mpr ⟨j, List.getElem?_zip_eq_some.mpr ⟨hj, List.getElem?_eq_getElem hjl⟩⟩
      obtain ⟨-, h3, h4⟩ := hz _ hmem
      refine ⟨rs[j], hperm.mem_iff.1 (List.getElem_mem hjl), (σ rc.1, rc.2),
        h3.mem_iff.2 (List.mem_map.mpr ⟨rc, hrc, rfl⟩), (σ pc.1, pc.2),
        h4.mem_iff.2 (List.mem_map.mpr ⟨pc, hpc, rfl⟩), ?_⟩
      rw [heq.1, heq.2]
  refine ⟨σ, ?_, ?_, ?_, ?_, ?_⟩
  · intro p hp q hq e
    rw [sp_mem_ids] at hp hq
    exact hσ2 p hp q hq e
  · intro p hp
    rw [sp_mem_ids] at hp ⊢
    rw [hlen]; exact hσ1 p hp
  · rw [sp_ids, sp_ids, List.length_range', List.length_range', hlen]
  · intro p hp
    rw [sp_mem_ids] at hp
    have hp' : σ p < N'.labels.length := hlen ▸ hσ1 p hp
    have a1 : (viewSpecies N).attrs p = [("label", .str N.labels[p]), ("kind", .str "species")] := by
      apply attrs_of_mem _ (sp_ids_nodup N)
      unfold viewSpecies
      exact List.mem_map.mpr ⟨(N.labels[p], p),
        List.mem_zipIdx_iff_getElem?.mpr (List.getElem?_eq_getElem hp), rfl⟩
    have a2 : (viewSpecies N').attrs (σ p) = [("label", .str N'.labels[σ p]), ("kind", .str "species")] := by
      apply attrs_of_mem _ (sp_ids_nodup N')
      unfold viewSpecies
      exact List.mem_map.mpr ⟨(N'.labels[σ p], σ p),
        List.mem_zipIdx_iff_getElem?.mpr (List.getElem?_eq_getElem hp'), rfl⟩
    rw [a1, a2]
    simp only [nodeOkD, List.all_eq_true, decide_eq_true_eq]
    intro k hk
    rw [hselN k hk]
    simp [Attrs.get, Dict.getD, Dict.get?]
  · intro p hp q hq
    rw [sp_mem_ids] at hp hq
    have hcorr := hpairs p q hp hq
    rw [← sp_arc_ne_none_iff, ← sp_arc_ne_none_iff] at hcorr
    cases hH : (viewSpecies N').arc? (σ p) (σ q) with
    | none =>
      cases hP : (viewSpecies N).arc? p q with
      | none => rfl
      | some b =>
        rw [hH, hP] at hcorr
        exact absurd (hcorr.2 (by simp)) (by simp)
    | some a =>
      cases hP : (viewSpecies N).arc? p q with
      | none =>
        rw [hH, hP] at hcorr
        exact absurd (hcorr.1 (by simp)) (by simp)
      | some b =>
        obtain ⟨x, rfl⟩ := sp_arc_some N' _ _ a hH
        obtain ⟨y, rfl⟩ := sp_arc_some N _ _ b hP
        rw [arcOkD_some_iff]
        apply List.map_congr_left
        intro k hk
        rw [sarc_get_none x k (hselE k hk), sarc_get_none y k (hselE k hk)]

/-! ## species view: the aggregated coefficients `stoich_r` / `stoich_p` are minima over the network's reactant/product pairs, hence invariant under renaming -/

/-! ## The legacy minima `sr` / `sp` of the aggregated arcs -/

/-- A processed `(reactant, its coefficient, product, its coefficient)` quadruple. -/
abbrev Quad := Nat × Nat × Nat × Nat

/-- `a.sr` / `a.sp` are the minima of the coefficients over the processed quadruples with the
arc's key. -/
def MinOf (a : SArc) (T : Quad → Prop) : Prop :=
  (∃ t, T t ∧ t.1 = a.u ∧ t.2.2.1 = a.v ∧ t.2.1 = a.sr) ∧
  (∀ t, T t → t.1 = a.u → t.2.2.1 = a.v → a.sr ≤ t.2.1) ∧
  (∃ t, T t ∧ t.1 = a.u ∧ t.2.2.1 = a.v ∧ t.2.2.2 = a.sp) ∧
  (∀ t, T t → t.1 = a.u → t.2.2.1 = a.v → a.sp ≤ t.2.2.2)

def InvS (arcs : List SArc) (T : Quad → Prop) : Prop :=
  (∀ t, T t → (t.1, t.2.2.1) ∈ arcPairs arcs) ∧ ∀ a ∈ arcs, MinOf a T

theorem invS_congr {arcs : List SArc} {T T' : Quad → Prop} (h : ∀ t, T t ↔ T' t) (hi : InvS arcs T) :
    InvS arcs T' := by
  have : T = T' := funext fun t => propext (h t)
  rw [← this]; exact hi

theorem minOf_unmatched {a : SArc} {T : Quad → Prop} (r rc p pc : Nat) (h : MinOf a T)
    (hk : ¬ (a.u = r ∧ a.v = p)) : MinOf a (fun t => T t ∨ t = (r, rc, p, pc)) := by
  obtain ⟨⟨t1, ht1, h1⟩, hle1, ⟨t2, ht2, h2⟩, hle2⟩ := h
  refine ⟨⟨t1, Or.inl ht1, h1⟩, ?_, ⟨t2, Or.inl ht2, h2⟩, ?_⟩
  · rintro t (ht | rfl) e1 e2
    · exact hle1 t ht e1 e2
    · exact absurd ⟨e1.symm, e2.symm⟩ hk
  · rintro t (ht | rfl) e1 e2
    · exact hle2 t ht e1 e2
    · exact absurd ⟨e1.symm, e2.symm⟩ hk

theorem invS_addPair (arcs : List SArc) (T : Quad → Prop) (eid rule : String) (r rc p pc : Nat)
    (hi : InvS arcs T) :
    InvS (addPair arcs eid rule r rc p pc) (fun t => T t ∨ t = (r, rc, p, pc)) := by
  refine ⟨?_, ?_⟩
  · rintro t (ht | rfl)
    · exact (mem_pairs_addPair _ _ _ _ _ _ _ _).2 (Or.inl (hi.1 t ht))
    · exact (mem_pairs_addPair _ _ _ _ _ _ _ _).2 (Or.inr rfl)
  · intro a' ha'
    unfold addPair at ha'
    split at ha'
    · obtain ⟨a, ha, rfl⟩ := List.mem_map.mp ha'
      by_cases hk : a.u = r ∧ a.v = p
      · rw [if_pos hk]
        obtain ⟨⟨t1, ht1, h1a, h1b, h1c⟩, hle1, ⟨t2, ht2, h2a, h2b, h2c⟩, hle2⟩ := hi.2 a ha
        refine ⟨?_, ?_, ?_, ?_⟩
        · show ∃ t : Quad, _ ∧ t.1 = a.u ∧ t.2.2.1 = a.v ∧ t.2.1 = min a.sr rc
          rcases Nat.le_total a.sr rc with h | h
          · exact ⟨t1, Or.inl ht1, h1a, h1b, by rw [Nat.min_eq_left h]; exact h1c⟩
          · exact ⟨_, Or.inr rfl, hk.1.symm, hk.2.symm, by rw [Nat.min_eq_right h]⟩
        · show ∀ t : Quad, _ → t.1 = a.u → t.2.2.1 = a.v → min a.sr rc ≤ t.2.1
          rintro t (ht | rfl) e1 e2
          · exact Nat.le_trans (Nat.min_le_left _ _) (hle1 t ht e1 e2)
          · exact Nat.min_le_right _ _
        · show ∃ t : Quad, _ ∧ t.1 = a.u ∧ t.2.2.1 = a.v ∧ t.2.2.2 = min a.sp pc
          rcases Nat.le_total a.sp pc with h | h
          · exact ⟨t2, Or.inl ht2, h2a, h2b, by rw [Nat.min_eq_left h]; exact h2c⟩
          · exact ⟨_, Or.inr rfl, hk.1.symm, hk.2.symm, by rw [Nat.min_eq_right h]⟩
        · show ∀ t : Quad, _ → t.1 = a.u → t.2.2.1 = a.v → min a.sp pc ≤ t.2.2.2
          rintro t (ht | rfl) e1 e2
          · exact Nat.le_trans (Nat.min_le_left _ _) (hle2 t ht e1 e2)
          · exact Nat.min_le_right _ _
      · rw [if_neg hk]
        exact minOf_unmatched r rc p pc (hi.2 a ha) hk
    · rename_i hany
      have hno : ∀ a ∈ arcs, ¬ (a.u = r ∧ a.v = p) := by
        intro a ha hk
        exact hany (List.any_eq_true.mpr ⟨a, ha, by simpa using hk⟩)
      rcases List.mem_append.mp ha' with ha | ha
      · exact minOf_unmatched r rc p pc (hi.2 a' ha) (hno a' ha)
      · rw [List.mem_singleton] at ha
        subst ha
        have hfresh : ∀ t, T t → t.1 = r → t.2.2.1 = p → False := by
          intro t ht e1 e2
          obtain ⟨a, ha, e⟩ := List.mem_map.mp (hi.1 t ht)
          simp only [Prod.mk.injEq] at e
          exact hno a ha ⟨e.1.trans e1, e.2.trans e2⟩
        refine ⟨⟨_, Or.inr rfl, rfl, rfl, rfl⟩, ?_, ⟨_, Or.inr rfl, rfl, rfl, rfl⟩, ?_⟩
        · rintro t (ht | rfl) e1 e2
          · exact (hfresh t ht e1 e2).elim
          · exact Nat.le_refl _
        · rintro t (ht | rfl) e1 e2
          · exact (hfresh t ht e1 e2).elim
          · exact Nat.le_refl _

theorem invS_foldl {β : Type} (step : List SArc → β → List SArc) (Q : β → Quad → Prop)
    (hstep : ∀ arcs b T, InvS arcs T → InvS (step arcs b) (fun t => T t ∨ Q b t))
    (l : List β) (arcs : List SArc) (T : Quad → Prop) (hi : InvS arcs T) :
    InvS (l.foldl step arcs) (fun t => T t ∨ ∃ b ∈ l, Q b t) := by
  induction l generalizing arcs T with
  | nil => exact invS_congr (fun t => by simp) hi
  | cons b bs ih =>
    rw [List.foldl_cons]
    refine invS_congr (fun t => ?_) (ih _ _ (hstep arcs b T hi))
    simp only [List.mem_cons, exists_eq_or_imp]
    exact or_assoc

/-- The quadruples of a network. -/
def Tri (N : Net) (t : Quad) : Prop :=
  ∃ e ∈ N.rxns, ∃ rc ∈ e.reactants, ∃ pc ∈ e.products, t = (rc.1, rc.2, pc.1, pc.2)

theorem invS_speciesArcs (N : Net) : InvS (speciesArcs N) (Tri N) := by
  have h0 : InvS [] (fun _ => False) := ⟨fun _ h => h.elim, fun _ h => by simp at h⟩
  have := invS_foldl
    (fun arcs (e : Rxn) => e.reactants.foldl (fun arcs rc =>
      e.products.foldl (fun arcs pc => addPair arcs e.id e.rule rc.1 rc.2 pc.1 pc.2) arcs) arcs)
    (fun (e : Rxn) (t : Quad) => ∃ rc ∈ e.reactants, ∃ pc ∈ e.products, t = (rc.1, rc.2, pc.1, pc.2))
    (by
      intro arcs e T hi
      exact invS_foldl _ (fun (rc : Nat × Nat) (t : Quad) => ∃ pc ∈ e.products, t = (rc.1, rc.2, pc.1, pc.2))
        (by
          intro arcs rc T hi
          exact invS_foldl _ (fun (pc : Nat × Nat) (t : Quad) => t = (rc.1, rc.2, pc.1, pc.2))
            (fun arcs pc T hi => invS_addPair arcs T _ _ _ _ _ _ hi) _ arcs T hi)
        _ arcs T hi)
    N.rxns [] _ h0
  unfold speciesArcs
  exact invS_congr (fun t => by simp [Tri]) this

/-! ## Renaming keeps the minima -/

theorem arc?_some_mem (g : LGraph) (u v : Nat) (a : Attrs) (h : g.arc? u v = some a) :
    (u, v, a) ∈ g.edges := by
  unfold LGraph.arc? at h
  rw [Option.map_eq_some_iff] at h
  obtain ⟨e, hf, rfl⟩ := h
  have h1 := List.find?_some hf
  have h2 := List.mem_of_find?_eq_some hf
  simp only [decide_eq_true_eq] at h1
  obtain ⟨e1, e2, e3⟩ := e
  simp only at h1
  rw [← h1.1, ← h1.2]; exact h2

theorem sarc_get_eq (x y : SArc) (hsr : x.sr = y.sr) (hsp : x.sp = y.sp) (k : String)
    (hk : k ∉ ["via", "rules", "stoich_r_map", "stoich_p_map"]) :
    x.attrs.get k = y.attrs.get k := by
  simp only [List.mem_cons, List.not_mem_nil, or_false, not_or] at hk
  obtain ⟨h1, h2, h5, h6⟩ := hk
  by_cases h3 : k = "stoich_r"
  · subst h3
    simp [SArc.attrs, Attrs.get, Dict.getD, Dict.get?, hsr]
  · by_cases h4 : k = "stoich_p"
    · subst h4
      simp [SArc.attrs, Attrs.get, Dict.getD, Dict.get?, hsp]
    · rw [sarc_get_none x k (by simp [h1, h2, h3, h4, h5, h6]),
        sarc_get_none y k (by simp [h1, h2, h3, h4, h5, h6])]

set_option linter.unusedVariables false in
/-- (`hN'` is not needed; kept for the requested signature.) -/
theorem viewSpecies_iso_of_sameUpToNames_stoich' (sel : SelD) (N N' : Net)
    (hselN : ∀ k ∈ sel.nodeKeys, k = "kind")
    (hselE : ∀ k ∈ sel.edgeKeys, k ∉ ["via", "rules", "stoich_r_map", "stoich_p_map"])
    (hN : N.WF) (hN' : N'.WF) (h : SameUpToNames N N') :
    ∃ f, IsIsoF sel (viewSpecies N') (viewSpecies N) f := by
  obtain ⟨hlen, σ, hσ1, hσ2, rs, hperm, hrl, hz⟩ := h
  -- quadruples correspond
  have hfwd : ∀ p c q d, Tri N (p, c, q, d) → Tri N' (σ p, c, σ q, d) := by
    rintro p c q d ⟨e, he, rc, hrc, pc, hpc, heq⟩
    simp only [Prod.mk.injEq] at heq
    obtain ⟨j, hj⟩ := List.mem_iff_getElem?.mp he
    have hjl : j < rs.length := by rw [hrl]; exact (List.getElem?_eq_some_iff.mp hj).1
    have hmem : (e, rs[j]) ∈ N.rxns.zip rs :=
      List.mem_iff_getElem?.mpr ⟨j, List.getElem?_zip_eq_some.mpr ⟨hj, List.getElem?_eq_getElem hjl⟩⟩
    obtain ⟨-, h3, h4⟩ := hz _ hmem
    refine ⟨rs[j], hperm.mem_iff.1 (List.getElem_mem hjl), (σ rc.1, rc.2),
      h3.mem_iff.2 (List.mem_map.mpr ⟨rc, hrc, rfl⟩), (σ pc.1, pc.2),
      h4.mem_iff.2 (List.mem_map.mpr ⟨pc, hpc, rfl⟩), ?_⟩
    rw [heq.1, heq.2.1, heq.2.2.1, heq.2.2.2]
  have hbwd : ∀ p c q d, p < N.labels.length → q < N.labels.length →
      Tri N' (σ p, c, σ q, d) → Tri N (p, c, q, d) := by
    rintro p c q d hp hq ⟨e', he', rc', hrc', pc', hpc', heq⟩
    simp only [Prod.mk.injEq] at heq
    obtain ⟨j, hj⟩ := List.mem_iff_getElem?.mp (hperm.mem_iff.2 he')
    have hjl : j < N.rxns.length := hrl ▸ (List.getElem?_eq_some_iff.mp hj).1
    have hmem : (N.rxns[j], e') ∈ N.rxns.zip rs :=
      List.mem_iff_getElem?.mpr ⟨j, List.getElem?_zip_eq_some.mpr ⟨List.getElem?_eq_getElem hjl, hj⟩⟩
    obtain ⟨-, h3, h4⟩ := hz _ hmem
    have he : N.rxns[j] ∈ N.rxns := List.getElem_mem hjl
    obtain ⟨hb, -⟩ := hN.1 _ he
    obtain ⟨rc, hrc, erc⟩ := List.mem_map.mp (h3.mem_iff.1 hrc')
    obtain ⟨pc, hpc, epc⟩ := List.mem_map.mp (h4.mem_iff.1 hpc')
    refine ⟨_, he, rc, hrc, pc, hpc, ?_⟩
    have e1 : p = rc.1 := by
      apply hσ2 _ hp _ (hb rc (List.mem_append_left _ hrc)).1
      rw [heq.1, ← erc]
    have e2 : q = pc.1 := by
      apply hσ2 _ hq _ (hb pc (List.mem_append_right _ hpc)).1
      rw [heq.2.2.1, ← epc]
    have e3 : c = rc.2 := by rw [heq.2.1, ← erc]
    have e4 : d = pc.2 := by rw [heq.2.2.2, ← epc]
    rw [e1, e2, e3, e4]
  have hpairs : ∀ p q, p < N.labels.length → q < N.labels.length →
      ((σ p, σ q) ∈ arcPairs (speciesArcs N') ↔ (p, q) ∈ arcPairs (speciesArcs N)) := by
    intro p q hp hq
    rw [mem_pairs_speciesArcs, mem_pairs_speciesArcs]
    constructor
    · rintro ⟨e', he', rc', hrc', pc', hpc', heq⟩
      simp only [Prod.mk.injEq] at heq
      obtain ⟨e, he, rc, hrc, pc, hpc, heq'⟩ := hbwd p rc'.2 q pc'.2 hp hq
        ⟨e', he', rc', hrc', pc', hpc', by rw [heq.1, heq.2]⟩
      simp only [Prod.mk.injEq] at heq'
      exact ⟨e, he, rc, hrc, pc, hpc, by rw [heq'.1, heq'.2.2.1]⟩
    · rintro ⟨e, he, rc, hrc, pc, hpc, heq⟩
      simp only [Prod.mk.injEq] at heq
      obtain ⟨e', he', rc', hrc', pc', hpc', heq'⟩ := hfwd p rc.2 q pc.2
        ⟨e, he, rc, hrc, pc, hpc, by rw [heq.1, heq.2]⟩
      simp only [Prod.mk.injEq] at heq'
      exact ⟨e', he', rc', hrc', pc', hpc', by rw [heq'.1, heq'.2.2.1]⟩
  refine ⟨σ, ?_, ?_, ?_, ?_, ?_⟩
  · intro p hp q hq e
    rw [sp_mem_ids] at hp hq
    exact hσ2 p hp q hq e
  · intro p hp
    rw [sp_mem_ids] at hp ⊢
    rw [hlen]; exact hσ1 p hp
  · rw [sp_ids, sp_ids, List.length_range', List.length_range', hlen]
  · intro p hp
    rw [sp_mem_ids] at hp
    have hp' : σ p < N'.labels.length := hlen ▸ hσ1 p hp
    have a1 : (viewSpecies N).attrs p = [("label", .str N.labels[p]), ("kind", .str "species")] := by
      apply attrs_of_mem _ (sp_ids_nodup N)
      unfold viewSpecies
      exact List.mem_map.mpr ⟨(N.labels[p], p),
        List.mem_zipIdx_iff_getElem?.mpr (List.getElem?_eq_getElem hp), rfl⟩
    have a2 : (viewSpecies N').attrs (σ p) = [("label", .str N'.labels[σ p]), ("kind", .str "species")] := by
      apply attrs_of_mem _ (sp_ids_nodup N')
      unfold viewSpecies
      exact List.mem_map.mpr ⟨(N'.labels[σ p], σ p),
        List.mem_zipIdx_iff_getElem?.mpr (List.getElem?_eq_getElem hp'), rfl⟩
    rw [a1, a2]
    simp only [nodeOkD, List.all_eq_true, decide_eq_true_eq]
    intro k hk
    rw [hselN k hk]
    simp [Attrs.get, Dict.getD, Dict.get?]
  · intro p hp q hq
    rw [sp_mem_ids] at hp hq
    have hcorr := hpairs p q hp hq
    rw [← sp_arc_ne_none_iff, ← sp_arc_ne_none_iff] at hcorr
    cases hH : (viewSpecies N').arc? (σ p) (σ q) with
    | none =>
      cases hP : (viewSpecies N).arc? p q with
      | none => rfl
      | some b =>
        rw [hH, hP] at hcorr
        exact absurd (hcorr.2 (by simp)) (by simp)
    | some a =>
      cases hP : (viewSpecies N).arc? p q with
      | none =>
        rw [hH, hP] at hcorr
        exact absurd (hcorr.1 (by simp)) (by simp)
      | some b =>
        obtain ⟨x, hx, hxu, hxv, rfl⟩ := (sp_mem_edges N' _ _ a).1 (arc?_some_mem _ _ _ _ hH)
        obtain ⟨y, hy, hyu, hyv, rfl⟩ := (sp_mem_edges N _ _ b).1 (arc?_some_mem _ _ _ _ hP)
        obtain ⟨⟨t1, ht1, x1a, x1b, x1c⟩, xle1, ⟨t2, ht2, x2a, x2b, x2c⟩, xle2⟩ :=
          (invS_speciesArcs N').2 x hx
        obtain ⟨⟨s1, hs1, y1a, y1b, y1c⟩, yle1, ⟨s2, hs2, y2a, y2b, y2c⟩, yle2⟩ :=
          (invS_speciesArcs N).2 y hy
        have hsr : x.sr = y.sr := by
          apply Nat.le_antisymm
          · obtain ⟨s11, s12, s13, s14⟩ := s1
            simp only at y1a y1b y1c
            have := hfwd p s12 q s14 (by rw [hyu, hyv, ← y1a, ← y1b]; exact hs1)
            rw [← y1c]
            exact xle1 _ this hxu hxv
          · obtain ⟨t11, t12, t13, t14⟩ := t1
            simp only at x1a x1b x1c
            have := hbwd p t12 q t14 hp hq (by rw [hxu, hxv, ← x1a, ← x1b]; exact ht1)
            rw [← x1c]
            exact yle1 _ this hyu hyv
        have hsp : x.sp = y.sp := by
          apply Nat.le_antisymm
          · obtain ⟨s11, s12, s13, s14⟩ := s2
            simp only at y2a y2b y2c
            have := hfwd p s12 q s14 (by rw [hyu, hyv, ← y2a, ← y2b]; exact hs2)
            rw [← y2c]
            exact xle2 _ this hxu hxv
          · obtain ⟨t11, t12, t13, t14⟩ := t2
            simp only at x2a x2b x2c
            have := hbwd p t12 q t14 hp hq (by rw [hxu, hxv, ← x2a, ← x2b]; exact ht2)
            rw [← x2c]
            exact yle2 _ this hyu hyv
        rw [arcOkD_some_iff]
        apply List.map_congr_left
        intro k hk
        exact sarc_get_eq x y hsr hsp k (hselE k hk)

end SynKit.CrnCanon

import SynKitModel.NautyIR
import SynKitProofs.NautyIROrder
import SynKitProofs.NautyIREquiv
import SynKitProofs.NautyIRSearch
import SynKitProofs.NautyIRLabel
import SynKitProofs.NautyIRWf
import SynKitProofs.NautyIRFuel
/-!
# The exact back-end (individualisation–refinement search) is invariant: assembly (C08)

* `NautyIROrder`  — sorting/grouping lemmas, the signature order is strict total;
* `NautyIREquiv`  — the equivariance chain (initial partition, signatures, refinement, target cell,
  individualisation, leaves, labels) for graphs related by an `IRIso`;
* `NautyIRSearch` — the search is a fold over the leaves; pruning is sound; the fold returns the
  first leaf with the least label;
* `NautyIRLabel`  — equal labels give equal serialisations of the canonical graphs;
* `NautyIRWf`     — partitions stay partitions, leaf orders are permutations, the search reaches a
  leaf within its fuel;
* `NautyIRFuel`   — the fuel of the model is adequate (refinement ends stable, no branch of the
  search tree is cut).
-/
set_option linter.unusedSimpArgs false
set_option linter.unusedVariables false
namespace SynKit.Canon
open SynKit SynKit.Match

/-! ## From an isomorphism on the covered attributes to `IRIso` -/

theorem get?_eq_of_getD_eq (a b : Attrs) (k : String) (d : Val)
    (ha : Dict.contains a k = true) (hb : Dict.contains b k = true) (h : getD a k d = getD b k d) :
    Dict.get? a k = Dict.get? b k := by
  have hka : Dict.get? a k ≠ none := by
    rw [Ne, Dict.get?_eq_none_iff]
    simpa [Dict.contains] using ha
  have hkb : Dict.get? b k ≠ none := by
    rw [Ne, Dict.get?_eq_none_iff]
    simpa [Dict.contains] using hb
  unfold getD Dict.getD at h
  cases hx : Dict.get? a k with
  | none => exact absurd hx hka
  | some x =>
    cases hy : Dict.get? b k with
    | none => exact absurd hy hkb
    | some y =>
      rw [hx, hy] at h
      simp only [Option.getD_some] at h
      rw [h]

theorem irIso_of_isoCov (G H : LGraph) (cG : IRCovered G) (cH : IRCovered H) (g : Nat → Nat)
    (h : IsoCov G H g) : IRIso G H g := by
  have hmem : ∀ p ∈ H.ids, g p ∈ G.ids := fun p hp => h.perm.mem_iff.1 (List.mem_map.2 ⟨p, hp, rfl⟩)
  refine ⟨h.perm, ?_, ?_⟩
  · intro p hp k hk
    have ca := cG.1 _ (attrs_mem_nodes G (g p) (hmem p hp))
    have cb := cH.1 _ (attrs_mem_nodes H p hp)
    simp only at ca cb
    have hn := h.node p hp
    simp only [nodeKey, List.cons.injEq, and_true] at hn
    simp only [irNodeAttrNames, List.mem_cons, List.not_mem_nil, or_false] at hk
    rcases hk with rfl | rfl | rfl | rfl
    · exact get?_eq_of_getD_eq _ _ _ _ (ca _ (by simp [irNodeAttrNames])) (cb _ (by simp [irNodeAttrNames])) hn.1
    · exact get?_eq_of_getD_eq _ _ _ _ (ca _ (by simp [irNodeAttrNames])) (cb _ (by simp [irNodeAttrNames])) hn.2.2.1
    · exact get?_eq_of_getD_eq _ _ _ _ (ca _ (by simp [irNodeAttrNames])) (cb _ (by simp [irNodeAttrNames])) hn.2.1
    · exact get?_eq_of_getD_eq _ _ _ _ (ca _ (by simp [irNodeAttrNames])) (cb _ (by simp [irNodeAttrNames])) hn.2.2.2
  · intro p hp q hq
    have he := h.edge p hp q hq
    cases hx : G.edge? (g p) (g q) with
    | none =>
      cases hy : H.edge? p q with
      | none => rfl
      | some b => rw [hx, hy] at he; simp at he
    | some a =>
      cases hy : H.edge? p q with
      | none => rw [hx, hy] at he; simp at he
      | some b =>
        rw [hx, hy] at he
        simp only [Option.map_some, Option.some.injEq, edgeKey, List.cons.injEq, and_true] at he
        obtain ⟨e, hem, _, rfl⟩ := edgeRel_of_edge? G _ _ a hx
        obtain ⟨e', hem', _, rfl⟩ := edgeRel_of_edge? H _ _ b hy
        have ca := cG.2 e hem
        have cb := cH.2 e' hem'
        simp only [Option.map_some, Option.some.injEq, irEdgeGet, irEdgeAttrNames, List.map_cons, List.map_nil,
          List.cons.injEq, and_true]
        exact ⟨get?_eq_of_getD_eq _ _ _ _ (ca _ (by simp [irEdgeAttrNames])) (cb _ (by simp [irEdgeAttrNames])) he.1,
          get?_eq_of_getD_eq _ _ _ _ (ca _ (by simp [irEdgeAttrNames])) (cb _ (by simp [irEdgeAttrNames])) he.2⟩

/-! ## The minimum label is invariant (any strict total label order, any sound pruning test) -/

/-- Abbreviation: the leaves of the whole search tree. -/
def irRootLeaves (G : LGraph) : List (List Nat × List Nat) :=
  irLeaves G (G.nodes.length + 1) (irInitialPartition G) []

theorem irCanonWith_label_rel (lt : IRLabel → IRLabel → Bool) (pgt : List (List Val) → IRLabel → Bool)
    (hlt : StrictTotal lt) (hp : IRPruneSound lt pgt) (prune prune' : Bool)
    (G H : LGraph) (hG : G.WF) (hH : H.WF) (g : Nat → Nat) (h : IRIso G H g) :
    (irCanonWith lt pgt prune G).map (·.1) = (irCanonWith lt pgt prune' H).map (·.1) := by
  rw [irCanonWith_eq_fold lt pgt hlt hp prune G, irCanonWith_eq_fold lt pgt hlt hp prune' H]
  have hset := irLeafLabels_rel hG hH h
  cases hLG : irLeaves G (G.nodes.length + 1) (irInitialPartition G) [] with
  | nil =>
    cases hLH : irLeaves H (H.nodes.length + 1) (irInitialPartition H) [] with
    | nil => rfl
    | cons b bs =>
      exfalso
      rw [hLG, hLH] at hset
      obtain ⟨a, ha, _⟩ := (hset (irLeafLabel H b)).2 ⟨b, List.mem_cons_self, rfl⟩
      simp at ha
  | cons a as =>
    cases hLH : irLeaves H (H.nodes.length + 1) (irInitialPartition H) [] with
    | nil =>
      exfalso
      rw [hLG, hLH] at hset
      obtain ⟨b, hb, _⟩ := (hset (irLeafLabel G a)).1 ⟨a, List.mem_cons_self, rfl⟩
      simp at hb
    | cons b bs =>
      rw [irFoldLeaves_none_cons, irFoldLeaves_none_cons]
      simp only [Option.map_some, Option.some.injEq]
      rw [hLG, hLH] at hset
      exact minBy_key_congr lt hlt (irLeafLabel G) (irLeafLabel H) a as b bs hset

/-- What the search returns on a well-formed graph: a leaf of the search tree (the first one with
the least label), whose order is a permutation of the node ids. -/
theorem irCanonWith_spec (lt : IRLabel → IRLabel → Bool) (pgt : List (List Val) → IRLabel → Bool)
    (hlt : StrictTotal lt) (hp : IRPruneSound lt pgt) (prune : Bool) (G : LGraph) (hG : G.WF) :
    ∃ pfx o, irCanonWith lt pgt prune G = some (irBuildLabel G (pfx ++ o), o) ∧ o.Perm G.ids ∧
      (pfx, o) ∈ irRootLeaves G ∧
      ∀ l ∈ irRootLeaves G, lt (irLeafLabel G l) (irBuildLabel G (pfx ++ o)) = false := by
  rw [irCanonWith_eq_fold lt pgt hlt hp prune G]
  have hne := irLeaves_root_ne_nil G hG.1
  have hperm := irLeaves_root_perm G hG.1
  unfold irRootLeaves
  cases hL : irLeaves G (G.nodes.length + 1) (irInitialPartition G) [] with
  | nil => exact absurd hL hne
  | cons a as =>
    rw [irFoldLeaves_none_cons]
    have hm := minBy_mem (fun x y => lt (irLeafLabel G x) (irLeafLabel G y)) a as
    have hleast := minBy_least_weak (fun x y => lt (irLeafLabel G x) (irLeafLabel G y))
      (fun x y => hlt.asymm _ _) (fun x y z => hlt.le_trans _ _ _) a as
    refine ⟨(minBy (fun x y => lt (irLeafLabel G x) (irLeafLabel G y)) a as).1,
      (minBy (fun x y => lt (irLeafLabel G x) (irLeafLabel G y)) a as).2, rfl, ?_, hm, ?_⟩
    · rw [hL] at hperm
      exact hperm _ hm
    · intro l hl
      exact hleast l hl

/-- **Invariance for every label order.** For every strict total order `lt` on labels and every
pruning test `pgt` that is a lower-bound test for it — in particular for Python's comparison of
the rendered label strings, whenever rendering is injective — and with or without pruning: two
graphs that are isomorphic on the covered attributes, and carry them everywhere, get the same
minimum label and canonical graphs with the same serialisation. -/
theorem irCanonWith_invariant (lt : IRLabel → IRLabel → Bool) (pgt : List (List Val) → IRLabel → Bool)
    (hlt : StrictTotal lt) (hp : IRPruneSound lt pgt) (prune prune' : Bool)
    (G H : LGraph) (hG : G.WF) (hH : H.WF) (cG : IRCovered G) (cH : IRCovered H)
    (g : Nat → Nat) (h : IsoCov G H g) :
    ∃ L o o', irCanonWith lt pgt prune G = some (L, o) ∧ irCanonWith lt pgt prune' H = some (L, o') ∧
      o.Perm G.ids ∧ o'.Perm H.ids ∧ serialise (canonBy o G) = serialise (canonBy o' H) := by
  have hiso := irIso_of_isoCov G H cG cH g h
  obtain ⟨p, o, e1, ho, _, _⟩ := irCanonWith_spec lt pgt hlt hp prune G hG
  obtain ⟨p', o', e2, ho', _, _⟩ := irCanonWith_spec lt pgt hlt hp prune' H hH
  have hl := irCanonWith_label_rel lt pgt hlt hp prune prune' G H hG hH g hiso
  rw [e1, e2] at hl
  simp only [Option.map_some, Option.some.injEq] at hl
  have hlen : p.length = p'.length := by
    have h1 := congrArg (fun L : IRLabel => L.nodes.length) hl
    simp only [irBuildLabel, irNodeSeg, List.length_map, List.length_append] at h1
    have h2 := ho.length_eq
    have h3 := ho'.length_eq
    have h4 := hiso.length_eq
    simp only [LGraph.ids, List.length_map] at h2 h3
    omega
  refine ⟨irBuildLabel G (p ++ o), o, o', e1, ?_, ho, ho', ?_⟩
  · rw [e2, hl]
  · exact serialise_eq_of_label_eq G H hG hH cG cH p o p' o' hlen ho ho' hl

/-! ## The concrete search (`irCanon`, `irCanonOrder`, `irCanonLabel`, `canonIR`) -/

theorem irCanon_eq_noprune (G : LGraph) : irCanon G = irCanonWith IRLabel.lt irPartialGt false G := by
  unfold irCanon
  rw [irCanonWith_eq_fold _ _ IRLabel.lt_strictTotal irPartialGt_sound true,
    irCanonWith_eq_fold _ _ IRLabel.lt_strictTotal irPartialGt_sound false]

theorem irCanon_spec (G : LGraph) (hG : G.WF) :
    ∃ pfx, irCanon G = some (irBuildLabel G (pfx ++ irCanonOrder G), irCanonOrder G) ∧
      (irCanonOrder G).Perm G.ids ∧ (pfx, irCanonOrder G) ∈ irRootLeaves G ∧
      ∀ l ∈ irRootLeaves G, IRLabel.lt (irLeafLabel G l) (irBuildLabel G (pfx ++ irCanonOrder G)) = false := by
  obtain ⟨pfx, o, e, ho, hm, hl⟩ := irCanonWith_spec IRLabel.lt irPartialGt IRLabel.lt_strictTotal irPartialGt_sound true G hG
  have eo : irCanonOrder G = o := by
    unfold irCanonOrder irCanon
    rw [e]
  rw [eo]
  exact ⟨pfx, e, ho, hm, hl⟩

theorem irCanonOrder_perm (G : LGraph) (hG : G.WF) : (irCanonOrder G).Perm G.ids := by
  obtain ⟨_, _, h, _⟩ := irCanon_spec G hG
  exact h

theorem irCanon_invariant (G H : LGraph) (hG : G.WF) (hH : H.WF) (cG : IRCovered G) (cH : IRCovered H)
    (g : Nat → Nat) (h : IsoCov G H g) :
    irCanonLabel G = irCanonLabel H ∧ serialise (canonIR G) = serialise (canonIR H) := by
  obtain ⟨L, o, o', e1, e2, _, _, hs⟩ := irCanonWith_invariant IRLabel.lt irPartialGt IRLabel.lt_strictTotal
    irPartialGt_sound true true G H hG hH cG cH g h
  have eo : irCanonOrder G = o := by unfold irCanonOrder irCanon; rw [e1]
  have eo' : irCanonOrder H = o' := by unfold irCanonOrder irCanon; rw [e2]
  refine ⟨?_, ?_⟩
  · unfold irCanonLabel irCanon
    rw [e1, e2]
    rfl
  · unfold canonIR
    rw [eo, eo']
    exact hs

end SynKit.Canon

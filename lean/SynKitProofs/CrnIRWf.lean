import SynKitModel.CrnIR
import SynKitProofs.NautyIRWf
import SynKitProofs.NautyIRFuel
/-!
# Well-formedness and fuel adequacy of the CRN individualisation–refinement search (C18)

Partitions stay partitions of the node list under refinement and individualisation, every leaf of
the search tree orders all nodes, with `N + 1` fuel the tree has a leaf, the refinement loop ends in
a partition that a further pass does not split, and neither the loop nor the search tree changes
when more fuel is given.
-/
set_option linter.unusedSimpArgs false
set_option linter.unusedVariables false
namespace SynKit.CrnCanon
open SynKit
open SynKit.Canon (sortBy sortNat irDedup irSplitBy irIsDiscrete irTargetCell irIndividualise IRPartOK
  sortNat_perm mem_sortNat sortNat_length irSplitBy_flatten_perm irSplitBy_ne_nil flatMap_flatten_perm
  length_le_flatMap irTargetCell_some irTargetCell_none irIsDiscrete_of_targetCell_none irIndividualise_ok
  IRPartOK.length_le LGraph_ids_length)

theorem crnInitPart_ok (sel : SelD) (G : LGraph) : IRPartOK G.ids (crnInitPart sel G) := by
  unfold crnInitPart
  split
  · split
    · rename_i he
      rw [List.isEmpty_iff.1 he]
      exact ⟨by simp, fun c hc => absurd hc List.not_mem_nil⟩
    · rename_i hne
      refine ⟨by simpa using sortNat_perm G.ids, ?_⟩
      intro c hc
      simp only [List.mem_singleton] at hc
      subst hc
      intro he
      have := sortNat_length G.ids
      rw [he] at this
      exact hne (List.isEmpty_iff.2 (List.length_eq_zero_iff.1 this.symm))
  · exact ⟨irSplitBy_flatten_perm _ _ _, irSplitBy_ne_nil _ _ _⟩

/-! ## Refinement -/

theorem crnRefineCell_flatten_perm (sel : SelD) (G : LGraph) (P : List (List Nat)) (c : List Nat) :
    (crnRefineCell sel G P c).flatten.Perm c := by
  unfold crnRefineCell
  split
  · simp
  · simp only
    split
    · exact irSplitBy_flatten_perm _ _ _
    · simpa using sortNat_perm c

theorem crnRefineCell_ne_nil (sel : SelD) (G : LGraph) (P : List (List Nat)) (c : List Nat) (hc : c ≠ []) :
    ∀ d ∈ crnRefineCell sel G P c, d ≠ [] := by
  unfold crnRefineCell
  split
  · intro d hd
    simp only [List.mem_singleton] at hd
    exact hd ▸ hc
  · simp only
    split
    · exact irSplitBy_ne_nil _ _ _
    · intro d hd
      simp only [List.mem_singleton] at hd
      subst hd
      intro he
      have := sortNat_length c
      rw [he] at this
      exact hc (List.length_eq_zero_iff.1 this.symm)

theorem crnRefineCell_length_pos (sel : SelD) (G : LGraph) (P : List (List Nat)) (c : List Nat) :
    1 ≤ (crnRefineCell sel G P c).length := by
  unfold crnRefineCell
  split
  · simp
  · simp only
    split
    · omega
    · simp

theorem crnRefineStep_ok (sel : SelD) (G : LGraph) (ids : List Nat) (P : List (List Nat)) (h : IRPartOK ids P) :
    IRPartOK ids (crnRefineStep sel G P) := by
  unfold crnRefineStep
  refine ⟨(flatMap_flatten_perm _ P fun c _ => crnRefineCell_flatten_perm sel G P c).trans h.1, ?_⟩
  intro d hd
  rw [List.mem_flatMap] at hd
  obtain ⟨c, hc, hd⟩ := hd
  exact crnRefineCell_ne_nil sel G P c (h.2 c hc) d hd

theorem crnRefineStep_length_le (sel : SelD) (G : LGraph) (P : List (List Nat)) :
    P.length ≤ (crnRefineStep sel G P).length :=
  length_le_flatMap _ P fun c _ => crnRefineCell_length_pos sel G P c

theorem crnRefineLoop_ok (sel : SelD) (G : LGraph) (ids : List Nat) (k : Nat) (P : List (List Nat))
    (h : IRPartOK ids P) : IRPartOK ids (crnRefineLoop sel G k P) := by
  induction k generalizing P with
  | zero => exact h
  | succ k ih =>
    simp only [crnRefineLoop]
    split
    · exact crnRefineStep_ok sel G ids P h
    · exact ih _ (crnRefineStep_ok sel G ids P h)

theorem crnRefineLoop_length_le (sel : SelD) (G : LGraph) (k : Nat) (P : List (List Nat)) :
    P.length ≤ (crnRefineLoop sel G k P).length := by
  induction k generalizing P with
  | zero => exact Nat.le_refl _
  | succ k ih =>
    simp only [crnRefineLoop]
    split
    · exact crnRefineStep_length_le sel G P
    · exact Nat.le_trans (crnRefineStep_length_le sel G P) (ih _)

theorem crnRefine_ok (sel : SelD) (G : LGraph) (ids : List Nat) (P : List (List Nat)) (h : IRPartOK ids P) :
    IRPartOK ids (crnRefine sel G P) := crnRefineLoop_ok sel G ids _ P h

theorem crnRefine_length_le (sel : SelD) (G : LGraph) (P : List (List Nat)) :
    P.length ≤ (crnRefine sel G P).length := crnRefineLoop_length_le sel G _ P

/-! ## The search tree -/

/-- every leaf's permutation is a permutation of the node list -/
theorem crnLeaves_order_perm (sel : SelD) (G : LGraph) {ids : List Nat} (hn : ids.Nodup) (fuel : Nat)
    (P : List (List Nat)) (pfx : List Nat) (hok : IRPartOK ids P) :
    ∀ l ∈ crnLeaves sel G fuel P pfx, l.2.Perm ids := by
  induction fuel generalizing P pfx with
  | zero => intro l hl; simp [crnLeaves] at hl
  | succ fuel ih =>
    intro l hl
    have hr := crnRefine_ok sel G ids P hok
    simp only [crnLeaves] at hl
    split at hl
    · simp only [List.mem_singleton] at hl
      rw [hl]
      exact hr.1
    · split at hl
      · exact absurd hl List.not_mem_nil
      · rename_i pre c post ht
        obtain ⟨hP, hc⟩ := irTargetCell_some ht
        rw [List.mem_flatMap] at hl
        obtain ⟨v, hv, hl⟩ := hl
        unfold crnChildren at hv
        rw [mem_sortNat] at hv
        rw [hP] at hr
        exact ih _ _ (irIndividualise_ok hn hr hv hc).1 l hl

/-- with enough fuel the search tree has a leaf -/
theorem crnLeaves_ne_nil (sel : SelD) (G : LGraph) {ids : List Nat} (hn : ids.Nodup) (fuel : Nat)
    (P : List (List Nat)) (pfx : List Nat) (hok : IRPartOK ids P) (hf : ids.length < fuel + P.length) :
    crnLeaves sel G fuel P pfx ≠ [] := by
  induction fuel generalizing P pfx with
  | zero =>
    have := hok.length_le
    omega
  | succ fuel ih =>
    have hr := crnRefine_ok sel G ids P hok
    have hlen := crnRefine_length_le sel G P
    simp only [crnLeaves]
    split
    · simp
    · rename_i hdisc
      split
      · rename_i ht
        exact absurd (irIsDiscrete_of_targetCell_none hr ht) hdisc
      · rename_i pre c post ht
        obtain ⟨hP, hc⟩ := irTargetCell_some ht
        rw [hP] at hr
        have hchild : (crnChildren c).length = c.length := sortNat_length c
        cases hch : crnChildren c with
        | nil => rw [hch] at hchild; simp at hchild; omega
        | cons v vs =>
          have hv : v ∈ c := by
            have : v ∈ crnChildren c := by rw [hch]; exact List.mem_cons_self
            unfold crnChildren at this
            exact (mem_sortNat _ _).1 this
          obtain ⟨hok', hlen'⟩ := irIndividualise_ok hn hr hv hc
          have := ih (irIndividualise pre c post v) (pfx ++ [v]) hok' (by rw [hlen', ← hP]; omega)
          simp only [List.flatMap_cons]
          intro he
          exact this (List.append_eq_nil_iff.1 he).1

theorem crnRootLeaves_perm (sel : SelD) (G : LGraph) (hn : G.ids.Nodup) :
    ∀ l ∈ crnRootLeaves sel G, l.2.Perm G.ids :=
  crnLeaves_order_perm sel G hn _ _ _ (crnInitPart_ok sel G)

theorem crnRootLeaves_ne_nil (sel : SelD) (G : LGraph) (hn : G.ids.Nodup) :
    crnRootLeaves sel G ≠ [] := by
  apply crnLeaves_ne_nil sel G hn _ _ _ (crnInitPart_ok sel G)
  have := LGraph_ids_length G
  omega

/-! ## Fuel -/

theorem crnRefineLoop_succ (sel : SelD) (G : LGraph) (k : Nat) (P : List (List Nat)) :
    crnRefineLoop sel G (k + 1) P =
      if (crnRefineStep sel G P).length = P.length then crnRefineStep sel G P
      else crnRefineLoop sel G k (crnRefineStep sel G P) := rfl

/-- more fuel does not change the loop once it has enough -/
theorem crnRefineLoop_fuel_succ (sel : SelD) (G : LGraph) {ids : List Nat} (k : Nat) (P : List (List Nat))
    (hok : IRPartOK ids P) (hk : ids.length < k + P.length) :
    crnRefineLoop sel G (k + 1) P = crnRefineLoop sel G k P := by
  induction k generalizing P with
  | zero =>
    have := hok.length_le
    omega
  | succ k ih =>
    rw [crnRefineLoop_succ sel G (k + 1) P, crnRefineLoop_succ sel G k P]
    split
    · rfl
    · rename_i h
      have hle := crnRefineStep_length_le sel G P
      exact ih _ (crnRefineStep_ok sel G ids P hok) (by omega)

theorem crnRefineLoop_fuel_add (sel : SelD) (G : LGraph) {ids : List Nat} (k : Nat) (P : List (List Nat))
    (hok : IRPartOK ids P) (hk : ids.length < k + P.length) (d : Nat) :
    crnRefineLoop sel G (k + d) P = crnRefineLoop sel G k P := by
  induction d with
  | zero => rfl
  | succ d ih =>
    rw [← Nat.add_assoc, crnRefineLoop_fuel_succ sel G (k + d) P hok (by omega), ih]

/-- with enough fuel the last pass of the loop split nothing (`changed` is `False`): the loop did
not stop because the fuel ran out -/
theorem crnRefineLoop_last_pass (sel : SelD) (G : LGraph) {ids : List Nat} (k : Nat) (P : List (List Nat))
    (hok : IRPartOK ids P) (hk : ids.length < k + P.length) :
    ∃ Q, IRPartOK ids Q ∧ crnRefineLoop sel G k P = crnRefineStep sel G Q ∧
      (crnRefineStep sel G Q).length = Q.length := by
  induction k generalizing P with
  | zero =>
    have := hok.length_le
    omega
  | succ k ih =>
    rw [crnRefineLoop_succ]
    split
    · rename_i h
      exact ⟨P, hok, rfl, h⟩
    · rename_i h
      have hle := crnRefineStep_length_le sel G P
      exact ih _ (crnRefineStep_ok sel G ids P hok) (by omega)

theorem crnLeaves_succ (sel : SelD) (G : LGraph) (fuel : Nat) (P : List (List Nat)) (pfx : List Nat) :
    crnLeaves sel G (fuel + 1) P pfx =
      if irIsDiscrete (crnRefine sel G P) then [(pfx, (crnRefine sel G P).flatten)]
      else
        match irTargetCell (crnRefine sel G P) with
        | none => []
        | some (pre, c, post) =>
          (crnChildren c).flatMap fun v => crnLeaves sel G fuel (irIndividualise pre c post v) (pfx ++ [v]) := rfl

/-- the search tree is complete: no branch runs out of fuel, one more unit gives the same leaves -/
theorem crnLeaves_fuel_succ (sel : SelD) (G : LGraph) {ids : List Nat} (hn : ids.Nodup) (fuel : Nat)
    (P : List (List Nat)) (pfx : List Nat) (hok : IRPartOK ids P) (hf : ids.length < fuel + P.length) :
    crnLeaves sel G (fuel + 1) P pfx = crnLeaves sel G fuel P pfx := by
  induction fuel generalizing P pfx with
  | zero =>
    have := hok.length_le
    omega
  | succ fuel ih =>
    have hr := crnRefine_ok sel G ids P hok
    have hlen := crnRefine_length_le sel G P
    rw [crnLeaves_succ sel G (fuel + 1) P pfx, crnLeaves_succ sel G fuel P pfx]
    split
    · rfl
    · cases ht : irTargetCell (crnRefine sel G P) with
      | none => rfl
      | some t =>
        obtain ⟨pre, c, post⟩ := t
        obtain ⟨hP, hc⟩ := irTargetCell_some ht
        rw [hP] at hr
        simp only
        apply List.flatMap_congr
        intro v hv
        have hv' : v ∈ c := by
          unfold crnChildren at hv
          exact (mem_sortNat _ _).1 hv
        obtain ⟨hok', hlen'⟩ := irIndividualise_ok hn hr hv' hc
        exact ih _ _ hok' (by rw [hlen', ← hP]; omega)

theorem crnLeaves_fuel_add (sel : SelD) (G : LGraph) {ids : List Nat} (hn : ids.Nodup) (fuel : Nat)
    (P : List (List Nat)) (pfx : List Nat) (hok : IRPartOK ids P) (hf : ids.length < fuel + P.length) (d : Nat) :
    crnLeaves sel G (fuel + d) P pfx = crnLeaves sel G fuel P pfx := by
  induction d with
  | zero => rfl
  | succ d ih =>
    rw [← Nat.add_assoc, crnLeaves_fuel_succ sel G hn (fuel + d) P pfx hok (by omega), ih]

/-- at the root: any larger depth bound gives the same search tree -/
theorem crnLeaves_root_fuel (sel : SelD) (G : LGraph) (hn : G.ids.Nodup) (d : Nat) :
    crnLeaves sel G (G.nodes.length + 1 + d) (crnInitPart sel G) [] = crnRootLeaves sel G := by
  unfold crnRootLeaves
  apply crnLeaves_fuel_add sel G hn _ _ _ (crnInitPart_ok sel G)
  have := LGraph_ids_length G
  omega

end SynKit.CrnCanon

import SynKitProofs.AutomorphismGroup
/-! The closure-based `components` computes the connected components (C11). -/
namespace SynKit.Aut
open SynKit SynKit.Match

/-- reachability along bonds -/
inductive Reach (G : LGraph) : Nat → Nat → Prop
  | refl (v : Nat) : Reach G v v
  | step {u w v : Nat} : Reach G u w → v ∈ G.neighbors w → Reach G u v

theorem Reach.trans {G : LGraph} {a b c : Nat} (h1 : Reach G a b) (h2 : Reach G b c) : Reach G a c := by
  induction h2 with
  | refl => exact h1
  | step _ hn ih => exact Reach.step ih hn

theorem neighbors_symm {G : LGraph} {v w : Nat} (h : w ∈ G.neighbors v) : v ∈ G.neighbors w := by
  rw [mem_neighbors_iff] at h ⊢
  rw [edge?_comm]; exact h

theorem Reach.symm {G : LGraph} {a b : Nat} (h : Reach G a b) : Reach G b a := by
  induction h with
  | refl => exact Reach.refl _
  | step _ hn ih => exact Reach.trans (Reach.step (Reach.refl _) (neighbors_symm hn)) ih

def Closed (G : LGraph) (S : List Nat) : Prop := ∀ s ∈ S, ∀ w ∈ G.neighbors s, w ∈ S

theorem mem_expand {G : LGraph} {S : List Nat} {x : Nat} :
    x ∈ expand G S ↔ x ∈ S ∨ ∃ s ∈ S, x ∈ G.neighbors s := by
  unfold expand
  rw [mem_addAll, List.mem_flatMap]

theorem iter_succ' {α : Type} (f : α → α) : ∀ k x, iter f (k + 1) x = f (iter f k x) := by
  intro k
  induction k with
  | zero => intro x; rfl
  | succ n ih => intro x; exact ih (f x)

theorem subset_iter {G : LGraph} {S : List Nat} {x : Nat} (h : x ∈ S) : ∀ k, x ∈ iter (expand G) k S := by
  intro k
  induction k with
  | zero => exact h
  | succ n ih => rw [iter_succ']; exact mem_expand.2 (Or.inl ih)

theorem iter_sound {G : LGraph} {S : List Nat} : ∀ k x, x ∈ iter (expand G) k S → ∃ s ∈ S, Reach G s x := by
  intro k
  induction k with
  | zero => intro x hx; exact ⟨x, hx, Reach.refl _⟩
  | succ n ih =>
    intro x hx
    rw [iter_succ'] at hx
    rcases mem_expand.1 hx with h | ⟨s, hs, hn⟩
    · exact ih x h
    · obtain ⟨s0, hs0, hr⟩ := ih s hs
      exact ⟨s0, hs0, Reach.step hr hn⟩

theorem addAll_eq_of_subset (acc xs : List Nat) (h : ∀ x ∈ xs, x ∈ acc) : addAll acc xs = acc := by
  unfold addAll
  induction xs with
  | nil => rfl
  | cons y ys ih =>
    simp only [List.foldl_cons, h y (List.mem_cons_self ..), if_true]
    exact ih (fun x hx => h x (List.mem_cons_of_mem _ hx))

theorem addAll_length_le (xs : List Nat) : ∀ acc, acc.length ≤ (addAll acc xs).length := by
  unfold addAll
  induction xs with
  | nil => intro acc; exact Nat.le_refl _
  | cons y ys ih =>
    intro acc
    simp only [List.foldl_cons]
    split
    · exact ih acc
    · exact Nat.le_trans (by simp) (ih _)

theorem addAll_length_lt (xs : List Nat) : ∀ acc, (∃ x ∈ xs, x ∉ acc) → acc.length < (addAll acc xs).length := by
  induction xs with
  | nil => intro acc h; obtain ⟨x, hx, _⟩ := h; cases hx
  | cons y ys ih =>
    intro acc h
    have hunf : addAll acc (y :: ys) = addAll (if y ∈ acc then acc else acc ++ [y]) ys := rfl
    rw [hunf]
    by_cases hy : y ∈ acc
    · simp only [hy, if_true]
      apply ih
      obtain ⟨x, hx, hxn⟩ := h
      rcases List.mem_cons.1 hx with rfl | hx
      · exact absurd hy hxn
      · exact ⟨x, hx, hxn⟩
    · simp only [hy, if_false]
      exact Nat.lt_of_lt_of_le (by simp) (addAll_length_le ys _)

theorem addAll_nodup (xs : List Nat) : ∀ acc, acc.Nodup → (addAll acc xs).Nodup := by
  unfold addAll
  induction xs with
  | nil => intro acc h; exact h
  | cons y ys ih =>
    intro acc h
    simp only [List.foldl_cons]
    split
    · exact ih acc h
    · rename_i hy
      apply ih
      exact List.nodup_append.2 ⟨h, by simp, by
        intro a ha b hb
        simp only [List.mem_singleton] at hb
        subst hb
        exact fun e => hy (e ▸ ha)⟩

theorem expand_eq_of_closed {G : LGraph} {S : List Nat} (h : Closed G S) : expand G S = S := by
  unfold expand
  apply addAll_eq_of_subset
  intro x hx
  obtain ⟨s, hs, hn⟩ := List.mem_flatMap.1 hx
  exact h s hs x hn

theorem expand_length_lt {G : LGraph} {S : List Nat} (h : ¬ Closed G S) : S.length < (expand G S).length := by
  unfold expand
  apply addAll_length_lt
  unfold Closed at h
  simp only [not_forall] at h
  obtain ⟨s, hs, w, hw, hwn⟩ := h
  exact ⟨w, List.mem_flatMap.2 ⟨s, hs, hw⟩, hwn⟩

theorem iter_nodup_subset {G : LGraph} (hwf : G.WF) {v : Nat} (hv : v ∈ G.ids) :
    ∀ k, (iter (expand G) k [v]).Nodup ∧ ∀ x ∈ iter (expand G) k [v], x ∈ G.ids := by
  intro k
  induction k with
  | zero => exact ⟨by simp [iter], by intro x hx; simp [iter] at hx; subst hx; exact hv⟩
  | succ n ih =>
    rw [iter_succ']
    refine ⟨addAll_nodup _ _ ih.1, ?_⟩
    intro x hx
    rcases mem_expand.1 hx with h | ⟨s, _, hn⟩
    · exact ih.2 x h
    · exact neighbors_subset_ids hwf hn

theorem iter_closed_or_grows (G : LGraph) (v : Nat) :
    ∀ k, Closed G (iter (expand G) k [v]) ∨ k + 1 ≤ (iter (expand G) k [v]).length := by
  intro k
  induction k with
  | zero => exact Or.inr (by simp [iter])
  | succ n ih =>
    rw [iter_succ']
    by_cases hc : Closed G (iter (expand G) n [v])
    · rw [expand_eq_of_closed hc]; exact Or.inl hc
    · rcases ih with h | h
      · exact absurd h hc
      · exact Or.inr (by have := expand_length_lt hc; omega)

theorem compOf_closed {G : LGraph} (hwf : G.WF) {v : Nat} (hv : v ∈ G.ids) : Closed G (compOf G v) := by
  unfold compOf
  rcases iter_closed_or_grows G v G.nodes.length with h | h
  · exact h
  · obtain ⟨hn, hs⟩ := iter_nodup_subset hwf hv G.nodes.length
    have := (List.subperm_of_subset hn hs).length_le
    have hl : G.ids.length = G.nodes.length := by simp [LGraph.ids]
    omega

/-- the component of `v` is exactly the set of nodes reachable from `v` -/
theorem mem_compOf_iff {G : LGraph} (hwf : G.WF) {v : Nat} (hv : v ∈ G.ids) (x : Nat) :
    x ∈ compOf G v ↔ Reach G v x := by
  constructor
  · intro h
    obtain ⟨s, hs, hr⟩ := iter_sound _ x h
    simp only [List.mem_singleton] at hs
    subst hs; exact hr
  · intro h
    induction h with
    | refl => exact subset_iter (by simp) _
    | step _ hn ih => exact compOf_closed hwf hv _ ih _ hn

theorem componentsAux_spec (G : LGraph) : ∀ (vs : List Nat) (acc : List (List Nat)),
    (∀ c ∈ acc, c ∈ componentsAux G vs acc) ∧
    (∀ v ∈ vs, ∃ c ∈ componentsAux G vs acc, v ∈ c) ∧
    (∀ c ∈ componentsAux G vs acc, c ∈ acc ∨ ∃ v ∈ vs, c = compOf G v) := by
  intro vs
  induction vs with
  | nil => intro acc; exact ⟨fun c h => h, fun v h => absurd h (List.not_mem_nil), fun c h => Or.inl h⟩
  | cons v vs ih =>
    intro acc
    simp only [componentsAux]
    by_cases hcov : acc.any (fun c => c.contains v) = true
    · simp only [hcov, if_true]
      obtain ⟨i1, i2, i3⟩ := ih acc
      refine ⟨i1, ?_, ?_⟩
      · intro x hx
        rcases List.mem_cons.1 hx with rfl | hx
        · obtain ⟨c, hc, hvc⟩ := List.any_eq_true.1 hcov
          exact ⟨c, i1 c hc, by simpa using hvc⟩
        · exact i2 x hx
      · intro c hc
        rcases i3 c hc with h | ⟨w, hw, rfl⟩
        · exact Or.inl h
        · exact Or.inr ⟨w, List.mem_cons_of_mem _ hw, rfl⟩
    · simp only [hcov, if_false, Bool.false_eq_true]
      obtain ⟨i1, i2, i3⟩ := ih (acc ++ [compOf G v])
      refine ⟨fun c hc => i1 c (List.mem_append_left _ hc), ?_, ?_⟩
      · intro x hx
        rcases List.mem_cons.1 hx with rfl | hx
        · exact ⟨compOf G x, i1 _ (List.mem_append_right _ (List.mem_singleton.2 rfl)), subset_iter (List.mem_singleton.2 rfl) _⟩
        · exact i2 x hx
      · intro c hc
        rcases i3 c hc with h | ⟨w, hw, rfl⟩
        · rcases List.mem_append.1 h with h | h
          · exact Or.inl h
          · simp only [List.mem_singleton] at h
            exact Or.inr ⟨v, List.mem_cons_self .., h⟩
        · exact Or.inr ⟨w, List.mem_cons_of_mem _ hw, rfl⟩

theorem components_cover {G : LGraph} {v : Nat} (hv : v ∈ G.ids) : ∃ c ∈ components G, v ∈ c :=
  (componentsAux_spec G G.ids []).2.1 v hv

theorem mem_components {G : LGraph} {c : List Nat} (hc : c ∈ components G) : ∃ v ∈ G.ids, c = compOf G v := by
  rcases (componentsAux_spec G G.ids []).2.2 c hc with h | h
  · cases h
  · exact h

theorem componentsAux_covered (G : LGraph) : ∀ (vs : List Nat) (acc : List (List Nat)),
    (∀ v ∈ vs, acc.any (fun c => c.contains v) = true) → componentsAux G vs acc = acc := by
  intro vs
  induction vs with
  | nil => intro acc _; rfl
  | cons v vs ih =>
    intro acc h
    simp only [componentsAux, h v (List.mem_cons_self ..), if_true]
    exact ih acc (fun x hx => h x (List.mem_cons_of_mem _ hx))

/-- all nodes mutually reachable -/
def Connected (G : LGraph) : Prop := ∀ u ∈ G.ids, ∀ v ∈ G.ids, Reach G u v

/-- the code's connectivity test `len(comps) <= 1` is connectivity -/
theorem components_connected_iff {G : LGraph} (hwf : G.WF) : (components G).length ≤ 1 ↔ Connected G := by
  constructor
  · intro h u hu v hv
    obtain ⟨c1, hc1, hu1⟩ := components_cover hu
    obtain ⟨c2, hc2, hv2⟩ := components_cover hv
    have : c1 = c2 := by
      match hcs : components G, h, hc1, hc2 with
      | [], _, hc1, _ => cases hc1
      | [c], _, hc1, hc2 =>
        simp only [List.mem_singleton] at hc1 hc2; rw [hc1, hc2]
      | _ :: _ :: _, h, _, _ => simp at h
    subst this
    obtain ⟨w, hw, rfl⟩ := mem_components hc1
    exact ((mem_compOf_iff hwf hw u).1 hu1).symm.trans ((mem_compOf_iff hwf hw v).1 hv2)
  · intro hconn
    unfold components
    cases hids : G.ids with
    | nil => simp [componentsAux]
    | cons v0 rest =>
      have hv0 : v0 ∈ G.ids := by rw [hids]; simp
      have : componentsAux G (v0 :: rest) [] = componentsAux G rest [compOf G v0] := by
        simp [componentsAux]
      rw [this, componentsAux_covered]
      · simp
      · intro x hx
        have hxi : x ∈ G.ids := by rw [hids]; exact List.mem_cons_of_mem _ hx
        simp only [List.any_cons, List.any_nil, Bool.or_false, List.contains_iff_mem]
        exact (mem_compOf_iff hwf hv0 x).2 (hconn v0 hv0 x hxi)

end SynKit.Aut

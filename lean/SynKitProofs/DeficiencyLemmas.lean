import SynKitModel.Deficiency
import SynKitProofs.NetGraphAlg
import Mathlib.Data.List.Basic
import Mathlib.Data.List.Nodup
/-!
# Helper lemmas for C19 (property theorems are in `Props/C19.lean`)
-/
namespace SynKit.Deficiency
open SynKit.NetGraphAlg

/-- What `add_complex` does to the list of complexes. -/
theorem addComplex_spec (cs : List Complex) (v : Complex) (hn : cs.Nodup) :
    (∃ t, (addComplex cs v).1 = cs ++ t) ∧ (addComplex cs v).1.Nodup ∧
    (∀ w, w ∈ (addComplex cs v).1 ↔ w ∈ cs ∨ w = v) ∧
    (addComplex cs v).1[(addComplex cs v).2]? = some v := by
  unfold addComplex
  by_cases h : cs.contains v = true
  · rw [if_pos h]
    have hm : v ∈ cs := by simpa using h
    refine ⟨⟨[], by simp⟩, hn, ?_, List.getElem?_idxOf hm⟩
    intro w; constructor
    · exact Or.inl
    · rintro (h1 | rfl)
      · exact h1
      · exact hm
  · rw [if_neg h]
    have hm : v ∉ cs := by simpa using h
    refine ⟨⟨[v], rfl⟩, ?_, by simp, by simp⟩
    rw [List.nodup_append]
    refine ⟨hn, by simp, ?_⟩
    intro a ha b hb; simp only [List.mem_singleton] at hb; subst hb
    intro hab; subst hab; exact hm ha

theorem getElem?_append_some {α : Type} (l t : List α) (i : Nat) (a : α) (h : l[i]? = some a) :
    (l ++ t)[i]? = some a := by
  obtain ⟨hi, _⟩ := List.getElem?_eq_some_iff.1 h
  rw [List.getElem?_append_left hi]; exact h

theorem index_unique {α : Type} (l : List α) (hn : l.Nodup) (i j : Nat) (a : α)
    (hi : l[i]? = some a) (hj : l[j]? = some a) : i = j := by
  obtain ⟨hi', _⟩ := List.getElem?_eq_some_iff.1 hi
  exact (List.getElem?_inj hi' hn).1 (hi.trans hj.symm)

/-- The invariant of the reaction loop of `_complex_vectors` after the reactions `seen`. -/
structure CInv (N : Net) (seen : List Rxn) (st : List Complex × Edges) : Prop where
  nodup : st.1.Nodup
  mem : ∀ v, v ∈ st.1 ↔ ∃ r ∈ seen, v = vecOf N r.reactants ∨ v = vecOf N r.products
  arcs : ∀ a, a ∈ st.2 ↔ ∃ r ∈ seen, st.1[a.1]? = some (vecOf N r.reactants) ∧
            st.1[a.2]? = some (vecOf N r.products)

theorem mem_addArc (arcs : Edges) (a b : Nat × Nat) : b ∈ addArc arcs a ↔ b ∈ arcs ∨ b = a := by
  unfold addArc
  by_cases h : arcs.contains a = true
  · rw [if_pos h]
    have hm : a ∈ arcs := by simpa using h
    constructor
    · exact Or.inl
    · rintro (h1 | rfl)
      · exact h1
      · exact hm
  · rw [if_neg h]; simp

theorem cinv_step (N : Net) (seen : List Rxn) (st : List Complex × Edges) (r : Rxn)
    (h : CInv N seen st) : CInv N (seen ++ [r]) (complexStep N st r) := by
  obtain ⟨cs, arcs⟩ := st
  have s1 := addComplex_spec cs (vecOf N r.reactants) h.nodup
  obtain ⟨⟨t1, ht1⟩, hn1, hm1, hu⟩ := s1
  have s2 := addComplex_spec (addComplex cs (vecOf N r.reactants)).1 (vecOf N r.products) hn1
  obtain ⟨⟨t2, ht2⟩, hn2, hm2, hv⟩ := s2
  -- name the pieces
  generalize hcs1 : (addComplex cs (vecOf N r.reactants)).1 = cs1 at *
  generalize hku : (addComplex cs (vecOf N r.reactants)).2 = u at *
  generalize hcs2 : (addComplex cs1 (vecOf N r.products)).1 = cs2 at *
  generalize hkv : (addComplex cs1 (vecOf N r.products)).2 = v at *
  have hstep : complexStep N (cs, arcs) r = (cs2, addArc arcs (u, v)) := by
    simp only [complexStep, hcs1, hku, hcs2, hkv]
  rw [hstep]
  have hu2 : cs2[u]? = some (vecOf N r.reactants) := by rw [ht2]; exact getElem?_append_some _ _ _ _ hu
  have hpre : ∀ (i : Nat) (a : Complex), cs[i]? = some a → cs2[i]? = some a := by
    intro i a hia; rw [ht2, ht1]; exact getElem?_append_some _ _ _ _ (getElem?_append_some _ _ _ _ hia)
  constructor
  · exact hn2
  · intro w
    simp only [hm2, hm1, h.mem, List.mem_append, List.mem_singleton]
    constructor
    · rintro ((⟨r', hr', hw⟩ | rfl) | rfl)
      · exact ⟨r', Or.inl hr', hw⟩
      · exact ⟨r, Or.inr rfl, Or.inl rfl⟩
      · exact ⟨r, Or.inr rfl, Or.inr rfl⟩
    · rintro ⟨r', hr' | rfl, hw⟩
      · exact Or.inl (Or.inl ⟨r', hr', hw⟩)
      · rcases hw with rfl | rfl
        · exact Or.inl (Or.inr rfl)
        · exact Or.inr rfl
  · intro a
    simp only [mem_addArc, List.mem_append, List.mem_singleton]
    constructor
    · rintro (ha | rfl)
      · obtain ⟨r', hr', h1, h2⟩ := (h.arcs a).1 ha
        exact ⟨r', Or.inl hr', hpre _ _ h1, hpre _ _ h2⟩
      · exact ⟨r, Or.inr rfl, hu2, hv⟩
    · rintro ⟨r', hr' | rfl, h1, h2⟩
      · left
        apply (h.arcs a).2
        refine ⟨r', hr', ?_, ?_⟩
        · have hin : vecOf N r'.reactants ∈ cs := (h.mem _).2 ⟨r', hr', Or.inl rfl⟩
          obtain ⟨j, hj⟩ := List.mem_iff_getElem?.1 hin
          rw [index_unique cs2 hn2 a.1 j _ h1 (hpre _ _ hj)]; exact hj
        · have hin : vecOf N r'.products ∈ cs := (h.mem _).2 ⟨r', hr', Or.inr rfl⟩
          obtain ⟨j, hj⟩ := List.mem_iff_getElem?.1 hin
          rw [index_unique cs2 hn2 a.2 j _ h2 (hpre _ _ hj)]; exact hj
      · right
        have e1 := index_unique cs2 hn2 a.1 u _ h1 hu2
        have e2 := index_unique cs2 hn2 a.2 v _ h2 hv
        exact Prod.ext e1 e2

theorem cinv_foldl (N : Net) (rs seen : List Rxn) (st : List Complex × Edges) (h : CInv N seen st) :
    CInv N (seen ++ rs) (rs.foldl (complexStep N) st) := by
  induction rs generalizing seen st with
  | nil => simpa using h
  | cons r rest ih =>
    have := ih (seen ++ [r]) (complexStep N st r) (cinv_step N seen st r h)
    simpa [List.append_assoc] using this

theorem cinv_complexVectors (N : Net) : CInv N N.reactions (complexVectors N) := by
  have h0 : CInv N [] ([], []) := ⟨by simp, by simp, by simp⟩
  simpa [complexVectors] using cinv_foldl N N.reactions [] ([], []) h0

/-- Arcs of the complex graph join valid complex indices. -/
theorem complexArcs_lt (N : Net) (a : Nat × Nat) (h : a ∈ complexArcs N) :
    a.1 < (complexes N).length ∧ a.2 < (complexes N).length := by
  obtain ⟨r, _, h1, h2⟩ := ((cinv_complexVectors N).arcs a).1 h
  exact ⟨(List.getElem?_eq_some_iff.1 h1).1, (List.getElem?_eq_some_iff.1 h2).1⟩

end SynKit.Deficiency

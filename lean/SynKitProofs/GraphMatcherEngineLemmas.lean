import SynKitModel.GraphMatcherEngine
import SynKitProofs.Match
import Mathlib.Data.List.Basic
import Mathlib.Data.List.Nodup
import Mathlib.Data.List.Perm.Subperm
/-! Helper lemmas for C07 (`GraphMatcherEngine`, sub-graph tests). -/
namespace SynKit.GME
open SynKit.Match

/-! ## cache transparency -/

/-- Every cache entry holds the histogram of the graph object and attribute selection it is keyed by. -/
def CacheOk (heap : List LGraph) (cache : Cache) : Prop :=
  ∀ e ∈ cache, e.2 = wl1 (graphAt heap e.1.1) e.1.2

theorem wlCached_ok (heap : List LGraph) (cache : Cache) (h : CacheOk heap cache) (gid : GraphId) (attrs : List String) :
    (wlCached cache gid (graphAt heap gid) attrs).1 = wl1 (graphAt heap gid) attrs ∧
      CacheOk heap (wlCached cache gid (graphAt heap gid) attrs).2 := by
  unfold wlCached
  cases hf : cache.find? (fun e => e.1 = (gid, attrs)) with
  | some e =>
    simp only
    have hm := List.mem_of_find?_eq_some hf
    have hk := List.find?_some hf
    simp only [decide_eq_true_eq] at hk
    refine ⟨?_, h⟩
    rw [h e hm, hk]
  | none =>
    simp only [true_and]
    intro e he
    rcases List.mem_append.1 he with he | he
    · exact h e he
    · rw [List.mem_singleton] at he; subst he; rfl

theorem preCheck_ok (heap : List LGraph) (cache : Cache) (h : CacheOk heap cache) (e : Engine) (hid pid : GraphId) :
    (preCheck e cache hid pid (graphAt heap hid) (graphAt heap pid)).1 =
        preCheckPure e (graphAt heap hid) (graphAt heap pid) ∧
      CacheOk heap (preCheck e cache hid pid (graphAt heap hid) (graphAt heap pid)).2 := by
  unfold preCheck preCheckPure
  split
  · next hs => exact ⟨by unfold preCheckWith; rw [if_pos hs], h⟩
  · next hs =>
    split
    · next hw => exact ⟨by unfold preCheckWith; rw [if_neg hs, if_pos hw], h⟩
    · obtain ⟨a1, a2⟩ := wlCached_ok heap cache h hid e.nodeAttrs
      obtain ⟨b1, b2⟩ := wlCached_ok heap _ a2 pid e.nodeAttrs
      simp only
      exact ⟨by rw [b1, a1], b2⟩

theorem isomorphic_ok (heap : List LGraph) (cache : Cache) (h : CacheOk heap cache) (e : Engine) (i j : GraphId) :
    (isomorphic e cache i j (graphAt heap i) (graphAt heap j)).1 = isomorphicPure e (graphAt heap i) (graphAt heap j) ∧
      CacheOk heap (isomorphic e cache i j (graphAt heap i) (graphAt heap j)).2 := by
  unfold isomorphic isomorphicPure
  by_cases hgt : (graphAt heap i).nodes.length > (graphAt heap j).nodes.length
  · simp only [hgt, if_true]
    obtain ⟨a, b⟩ := preCheck_ok heap cache h e i j
    rw [← a]
    split <;> exact ⟨rfl, b⟩
  · simp only [hgt, if_false]
    obtain ⟨a, b⟩ := preCheck_ok heap cache h e j i
    rw [← a]
    split <;> exact ⟨rfl, b⟩

theorem getMappings_ok (heap : List LGraph) (cache : Cache) (h : CacheOk heap cache) (e : Engine) (i j : GraphId) :
    (getMappings e cache i j (graphAt heap i) (graphAt heap j)).1 = getMappingsPure e (graphAt heap i) (graphAt heap j) ∧
      CacheOk heap (getMappings e cache i j (graphAt heap i) (graphAt heap j)).2 := by
  unfold getMappings getMappingsPure
  obtain ⟨a, b⟩ := preCheck_ok heap cache h e i j
  rw [← a]
  simp only
  split <;> exact ⟨rfl, b⟩

theorem step_ok (heap : List LGraph) (cache : Cache) (h : CacheOk heap cache) (q : Query) :
    (step heap cache q).1 = pureAnswer heap q ∧ CacheOk heap (step heap cache q).2 := by
  cases q with
  | iso e i j =>
    obtain ⟨a, b⟩ := isomorphic_ok heap cache h e i j
    simp only [step, pureAnswer]
    exact ⟨by rw [a], b⟩
  | maps e i j =>
    obtain ⟨a, b⟩ := getMappings_ok heap cache h e i j
    simp only [step, pureAnswer]
    exact ⟨by rw [a], b⟩

theorem run_ok (heap : List LGraph) (cache : Cache) (h : CacheOk heap cache) (qs : List Query) :
    run heap cache qs = qs.map (pureAnswer heap) := by
  induction qs generalizing cache with
  | nil => rfl
  | cons q qs ih =>
    obtain ⟨a, b⟩ := step_ok heap cache h q
    simp only [run, List.map_cons]
    rw [a, ih _ b]


/-! ## counting: an injective relation between two lists -/

theorem exists_map_subperm {α β : Type} [Inhabited β] (l₁ : List α) (l₂ : List β) (R : α → β → Prop) (h1 : l₁.Nodup)
    (tot : ∀ a ∈ l₁, ∃ b ∈ l₂, R a b) (inj : ∀ a ∈ l₁, ∀ a' ∈ l₁, ∀ b, R a b → R a' b → a = a') :
    ∃ f : α → β, (∀ a ∈ l₁, R a (f a)) ∧ (l₁.map f).Subperm l₂ := by
  cases l₁ with
  | nil => exact ⟨fun _ => default, by simp, by simp⟩
  | cons a₀ as =>
    obtain ⟨b₀, -, -⟩ := tot a₀ List.mem_cons_self
    have : ∀ a, ∃ b, a ∈ a₀ :: as → b ∈ l₂ ∧ R a b := by
      intro a
      by_cases h : a ∈ a₀ :: as
      · obtain ⟨b, hb, hr⟩ := tot a h; exact ⟨b, fun _ => ⟨hb, hr⟩⟩
      · exact ⟨b₀, fun hh => absurd hh h⟩
    choose f hf using this
    refine ⟨f, fun a ha => (hf a ha).2, ?_⟩
    refine List.subperm_of_subset ?_ ?_
    · refine List.Nodup.map_on ?_ h1
      intro x hx y hy e
      exact inj x hx y hy (f x) (hf x hx).2 (e ▸ (hf y hy).2)
    · intro b hb
      obtain ⟨a, ha, rfl⟩ := List.mem_map.1 hb
      exact (hf a ha).1

theorem subperm_map_of_subperm {α β : Type} (g : α → β) {l₁ l₂ : List α} (h : l₁.Subperm l₂) :
    (l₁.map g).Subperm (l₂.map g) := by
  obtain ⟨l, hp, hs⟩ := h
  exact ⟨l.map g, hp.map g, hs.map g⟩

/-! ## graph facts -/

/-- a mapping that is injective on values, in `get?` form -/
theorem get?_inj (m : Mapping) (hv : (m.map (·.2)).Nodup) (a b h : Nat) (ha : m.get? a = some h) (hb : m.get? b = some h) :
    a = b := by
  have := List.inj_on_of_nodup_map hv (mem_of_get? m a h ha) (mem_of_get? m b h hb) rfl
  exact congrArg Prod.fst this

section MonoCounting
variable {sel : Sel} {H P : LGraph} {m : Mapping}

/-- The node injection of a monomorphism: pattern node ↦ host node, selected labels kept. -/
theorem mono_nodes_subperm (hH : H.ids.Nodup) (hP : P.ids.Nodup) (hm : IsMono sel H P m) :
    ∃ f : Nat × Attrs → Nat × Attrs, (∀ pn ∈ P.nodes, (pn.1, (f pn).1) ∈ m ∧ f pn ∈ H.nodes ∧
        nodeOk sel (f pn).2 pn.2 = true) ∧ (P.nodes.map f).Subperm H.nodes := by
  obtain ⟨hfst, hnd, hnode, -⟩ := hm
  have hPn : P.nodes.Nodup := List.Nodup.of_map _ hP
  obtain ⟨f, hf, hs⟩ := exists_map_subperm P.nodes H.nodes
    (fun pn hn => (pn.1, hn.1) ∈ m ∧ nodeOk sel hn.2 pn.2 = true) hPn
    (by
      intro pn hpn
      have : pn.1 ∈ m.map (·.1) := by
        have e : m.map (·.1) = P.ids := hfst
        rw [e]; exact List.mem_map.2 ⟨pn, hpn, rfl⟩
      obtain ⟨x, hx, hx1⟩ := List.mem_map.1 this
      obtain ⟨h1, h2⟩ := hnode x hx
      obtain ⟨hn, hhn, hid⟩ := node_of_id H x.2 h1
      refine ⟨hn, hhn, ?_, ?_⟩
      · rw [hid, ← hx1]; exact hx
      · rw [← attrs_of_mem H hH hn hhn, hid, ← attrs_of_mem P hP pn hpn, ← hx1]; exact h2)
    (by
      rintro a ha a' ha' b ⟨h1, -⟩ ⟨h2, -⟩
      have := List.inj_on_of_nodup_map hnd h1 h2 rfl
      have hid : a.1 = a'.1 := (Prod.mk.inj this).1
      exact List.inj_on_of_nodup_map hP ha ha' hid)
  refine ⟨f, fun pn hpn => ⟨(hf pn hpn).1, ?_, (hf pn hpn).2⟩, hs⟩
  exact hs.subset (List.mem_map.2 ⟨pn, hpn, rfl⟩)

theorem mono_nodes_le (hH : H.ids.Nodup) (hP : P.ids.Nodup) (hm : IsMono sel H P m) :
    P.nodes.length ≤ H.nodes.length := by
  obtain ⟨f, -, hs⟩ := mono_nodes_subperm hH hP hm
  simpa using hs.length_le

/-- The edge injection of a monomorphism, selected edge labels kept. -/
theorem mono_edges_subperm (hP : P.WF) (hm : IsMono sel H P m) :
    ∃ f : Nat × Nat × Attrs → Nat × Nat × Attrs, (∀ pe ∈ P.edges, f pe ∈ H.edges ∧ edgeOk sel (f pe).2.2 pe.2.2 = true) ∧
      (P.edges.map f).Subperm H.edges := by
  obtain ⟨hfst, hnd, hnode, hedge⟩ := hm
  have hPe : P.edges.Nodup := List.Nodup.of_map _ hP.2.2
  obtain ⟨f, hf, hs⟩ := exists_map_subperm P.edges H.edges
    (fun pe he => edgeOk sel he.2.2 pe.2.2 = true ∧ ∃ hu hv, m.get? pe.1 = some hu ∧ m.get? pe.2.1 = some hv ∧
      ((he.1 = hu ∧ he.2.1 = hv) ∨ (he.1 = hv ∧ he.2.1 = hu))) hPe
    (by
      intro pe hpe
      obtain ⟨hu, hv, ea, g1, g2, g3, g4⟩ := hedge pe hpe
      obtain ⟨he, hhe, rfl, hends⟩ := edge?_some_mem H hu hv ea g3
      exact ⟨he, hhe, g4, hu, hv, g1, g2, hends⟩)
    (by
      rintro a ha a' ha' b ⟨-, hu, hv, g1, g2, hends⟩ ⟨-, hu', hv', g1', g2', hends'⟩
      have hset : (a.1 = a'.1 ∧ a.2.1 = a'.2.1) ∨ (a.1 = a'.2.1 ∧ a.2.1 = a'.1) := by
        rcases hends with ⟨e1, e2⟩ | ⟨e1, e2⟩ <;> rcases hends' with ⟨e1', e2'⟩ | ⟨e1', e2'⟩
        · left; exact ⟨get?_inj m hnd _ _ _ g1 (by rw [g1', ← e1', e1]), get?_inj m hnd _ _ _ g2 (by rw [g2', ← e2', e2])⟩
        · right; exact ⟨get?_inj m hnd _ _ _ g1 (by rw [g2', ← e1', e1]), get?_inj m hnd _ _ _ g2 (by rw [g1', ← e2', e2])⟩
        · right; exact ⟨get?_inj m hnd _ _ _ g1 (by rw [g2', ← e2', e2]), get?_inj m hnd _ _ _ g2 (by rw [g1', ← e1', e1])⟩
        · left; exact ⟨get?_inj m hnd _ _ _ g1 (by rw [g1', ← e2', e2]), get?_inj m hnd _ _ _ g2 (by rw [g2', ← e1', e1])⟩
      refine List.inj_on_of_nodup_map hP.2.2 ha ha' ?_
      rcases hset with ⟨e1, e2⟩ | ⟨e1, e2⟩
      · simp only [e1, e2]
      · simp only [e1, e2, Nat.min_comm, Nat.max_comm])
  refine ⟨f, fun pe hpe => ⟨hs.subset (List.mem_map.2 ⟨pe, hpe, rfl⟩), (hf pe hpe).1⟩, hs⟩

theorem mono_edges_le (hP : P.WF) (hm : IsMono sel H P m) : P.edges.length ≤ H.edges.length := by
  obtain ⟨f, -, hs⟩ := mono_edges_subperm hP hm
  simpa using hs.length_le

end MonoCounting


/-! ## soundness of the cheap filters -/

theorem filter_length_le_of_subperm {α β : Type} (l₁ : List α) (l₂ : List β) (f : α → β)
    (hs : (l₁.map f).Subperm l₂) (q₁ : α → Bool) (q₂ : β → Bool) (hq : ∀ a ∈ l₁, q₂ (f a) = q₁ a) :
    (l₁.filter q₁).length ≤ (l₂.filter q₂).length := by
  have h1 := (hs.filter q₂).length_le
  rw [List.filter_map, List.length_map] at h1
  have : l₁.filter (q₂ ∘ f) = l₁.filter q₁ := List.filter_congr (fun a ha => hq a ha)
  rw [this] at h1; exact h1

theorem baseLabel_eq_of_nodeOk (sel : Sel) (ha pa : Attrs) (h : nodeOk sel ha pa = true) :
    baseLabel sel.nodeKeys ha = baseLabel sel.nodeKeys pa := by
  unfold nodeOk at h
  simp only [Bool.and_eq_true, List.all_eq_true, decide_eq_true_eq] at h
  unfold baseLabel
  exact List.map_congr_left (fun k hk => h.1 k hk)

theorem wl1_filter_base_length (G : LGraph) (attrs : List String) (b : Label) :
    ((wl1 G attrs).filter (fun x => x.1 == b)).length =
      (G.nodes.filter (fun n => baseLabel attrs n.2 == b)).length := by
  unfold wl1
  rw [List.filter_map, List.length_map]
  rfl

/-- **WL filter, proper sub-graphs**: the base-label histogram of a contained pattern is contained in
the host's. -/
theorem baseContained_of_mono (sel : Sel) (H P : LGraph) (m : Mapping) (hH : H.ids.Nodup) (hP : P.ids.Nodup)
    (hm : IsMono sel H P m) : baseContained (wl1 H sel.nodeKeys) (wl1 P sel.nodeKeys) = true := by
  obtain ⟨f, hf, hs⟩ := mono_nodes_subperm hH hP hm
  unfold baseContained
  rw [List.all_eq_true]
  intro k _
  rw [decide_eq_true_eq, wl1_filter_base_length, wl1_filter_base_length]
  refine filter_length_le_of_subperm P.nodes H.nodes f hs _ _ ?_
  intro pn hpn
  rw [baseLabel_eq_of_nodeOk sel _ _ (hf pn hpn).2.2]

/-- Multiset containment makes the (repaired) edge-label loop succeed. -/
theorem edgeLabelLoop_of_subperm (cs ps : List Val) (h : cs.Subperm ps) : edgeLabelLoop cs ps = true := by
  induction cs generalizing ps with
  | nil => rfl
  | cons c cs ih =>
    have hc : c ∈ ps := h.subset List.mem_cons_self
    simp only [edgeLabelLoop, List.contains_eq_mem, hc, decide_true, if_true]
    apply ih
    have := h.erase c
    rwa [List.erase_cons_head] at this

theorem zip_fst_sublist {α β : Type} (a : List α) (b : List β) : ((a.zip b).map (·.1)).Sublist a := by
  induction a generalizing b with
  | nil => simp
  | cons x xs ih =>
    cases b with
    | nil => simp
    | cons y ys => simp only [List.zip_cons_cons, List.map_cons]; exact (ih ys).cons_cons x

theorem withDefaults_get (names : List String) (defaults : List Val) (a : Attrs) (k : String) (d : Val)
    (hn : names.Nodup) (hk : (k, d) ∈ names.zip defaults) :
    (withDefaults names defaults a).get k = Dict.getD a k d := by
  unfold withDefaults Attrs.get Dict.getD
  have hz : ((names.zip defaults).map (·.1)).Nodup := by
    exact hn.sublist (zip_fst_sublist _ _)
  generalize names.zip defaults = z at hk hz
  induction z with
  | nil => cases hk
  | cons x xs ih =>
    simp only [List.map_cons, List.nodup_cons] at hz
    simp only [List.map_cons, Dict.get?]
    rcases List.mem_cons.1 hk with rfl | hm
    · simp
    · have : x.1 ≠ k := fun e => hz.1 (List.mem_map.2 ⟨(k, d), hm, e.symm⟩)
      simp only [this, if_false]
      exact ih hm hz.2

theorem applyNodeDefaults_ids (names : List String) (defaults : List Val) (G : LGraph) :
    (applyNodeDefaults names defaults G).ids = G.ids := by
  unfold applyNodeDefaults LGraph.ids; simp

theorem applyNodeDefaults_WF (names : List String) (defaults : List Val) (G : LGraph) (h : G.WF) :
    (applyNodeDefaults names defaults G).WF := by
  unfold LGraph.WF
  rw [applyNodeDefaults_ids]
  exact h

theorem applyNodeDefaults_attrs (names : List String) (defaults : List Val) (G : LGraph) (n : Nat × Attrs)
    (hG : G.ids.Nodup) (hn : n ∈ G.nodes) :
    (applyNodeDefaults names defaults G).attrs n.1 = withDefaults names defaults n.2 := by
  have hmem : (n.1, withDefaults names defaults n.2) ∈ (applyNodeDefaults names defaults G).nodes := by
    unfold applyNodeDefaults; exact List.mem_map.2 ⟨n, hn, rfl⟩
  exact attrs_of_mem _ (by rw [applyNodeDefaults_ids]; exact hG) _ hmem

/-- **`use_filter` of the boolean sub-graph test is sound**: whenever the (defaulted) child is
monomorphically contained in the (defaulted) parent, all three filter steps pass. -/
theorem subFilter_of_mono (c : SubCfg) (child parent : LGraph) (hc : child.WF) (hp : parent.WF) (hn : c.names.Nodup)
    (m : Mapping)
    (hm : IsMono c.sel (applyNodeDefaults c.names c.defaults parent) (applyNodeDefaults c.names c.defaults child) m) :
    subFilter c child parent = true := by
  have hP' := applyNodeDefaults_WF c.names c.defaults child hc
  have hH' := applyNodeDefaults_WF c.names c.defaults parent hp
  unfold subFilter
  rw [Bool.and_eq_true, Bool.and_eq_true]
  refine ⟨⟨?_, ?_⟩, ?_⟩
  · -- sizes
    have h1 := mono_nodes_le hH'.1 hP'.1 hm
    have h2 := mono_edges_le hP' hm
    unfold filterSize
    simp only [applyNodeDefaults, List.length_map] at h1 h2
    simp only [Bool.not_eq_true', Bool.or_eq_false_iff, decide_eq_false_iff_not]
    omega
  · -- node labels
    unfold filterNodes
    rw [List.all_eq_true]
    intro cn hcn
    rw [List.any_eq_true]
    have hfst : m.map (·.1) = child.ids := by
      have := hm.1; rwa [applyNodeDefaults_ids] at this
    have : cn.1 ∈ m.map (·.1) := by rw [hfst]; exact List.mem_map.2 ⟨cn, hcn, rfl⟩
    obtain ⟨x, hx, hx1⟩ := List.mem_map.1 this
    obtain ⟨h1, h2⟩ := hm.2.2.1 x hx
    rw [applyNodeDefaults_ids] at h1
    obtain ⟨pn, hpn, hid⟩ := node_of_id parent x.2 h1
    refine ⟨pn, hpn, ?_⟩
    rw [List.all_eq_true]
    intro nd hnd
    rw [decide_eq_true_eq]
    rw [← hid, applyNodeDefaults_attrs _ _ parent pn hp.1 hpn, hx1, applyNodeDefaults_attrs _ _ child cn hc.1 hcn] at h2
    unfold nodeOk at h2
    simp only [Bool.and_eq_true, List.all_eq_true, decide_eq_true_eq] at h2
    have hk : nd.1 ∈ c.sel.nodeKeys := List.mem_map.2 ⟨nd, hnd, rfl⟩
    have := h2.1 nd.1 hk
    rw [withDefaults_get _ _ _ nd.1 nd.2 hn hnd, withDefaults_get _ _ _ nd.1 nd.2 hn hnd] at this
    exact this.symm
  · -- edge labels
    unfold filterEdges
    cases hk : c.edgeAttr with
    | none => rfl
    | some k =>
      simp only
      apply edgeLabelLoop_of_subperm
      obtain ⟨f, hf, hs⟩ := mono_edges_subperm hP' hm
      have hs' := subperm_map_of_subperm (fun e : Nat × Nat × Attrs => e.2.2.get k) hs
      simp only [applyNodeDefaults] at hs' hf
      rw [List.map_map] at hs'
      have : child.edges.map ((fun e : Nat × Nat × Attrs => e.2.2.get k) ∘ f) =
          child.edges.map (fun e => e.2.2.get k) := by
        apply List.map_congr_left
        intro e he
        have := (hf e he).2
        unfold edgeOk SubCfg.sel at this
        simp only [hk, Option.toList_some, List.all_cons, List.all_nil, Bool.and_true, decide_eq_true_eq] at this
        exact this
      rw [this] at hs'
      exact hs'

/-! ## the refined WL-1 filter is sound for isomorphic graphs -/

theorem mem_neighbors (G : LGraph) (v u : Nat) : u ∈ G.neighbors v ↔ G.hasEdge v u = true := by
  unfold LGraph.neighbors LGraph.hasEdge LGraph.edge?
  rw [List.mem_filterMap, Option.isSome_map, List.find?_isSome]
  constructor
  · rintro ⟨e, he, h⟩
    refine ⟨e, he, ?_⟩
    split at h
    · next h1 => cases h; simp [h1]
    · split at h
      · next h1 h2 => cases h; simp [h2]
      · cases h
  · rintro ⟨e, he, h⟩
    simp only [decide_eq_true_eq] at h
    refine ⟨e, he, ?_⟩
    rcases h with ⟨h1, h2⟩ | ⟨h1, h2⟩
    · rw [if_pos h1, h2]
    · by_cases h3 : e.1 = v
      · rw [if_pos h3, h2, ← h3, h1]
      · rw [if_neg h3, if_pos h2, h1]

theorem neighbors_nodup (G : LGraph) (hG : G.WF) (v : Nat) : (G.neighbors v).Nodup := by
  have hnd := hG.2.2
  rw [List.Nodup, List.pairwise_map] at hnd
  unfold LGraph.neighbors
  refine List.Pairwise.filterMap _ ?_ hnd
  intro a a' hne b hb b' hb' e
  subst e
  apply hne
  have key : ∀ x : Nat × Nat × Attrs, (if x.1 = v then some x.2.1 else if x.2.1 = v then some x.1 else Option.none) = some b →
      (min x.1 x.2.1, max x.1 x.2.1) = (min v b, max v b) := by
    intro x hx
    split at hx
    · next h1 => cases hx; rw [h1]
    · split at hx
      · next h1 h2 => cases hx; rw [h2, Nat.min_comm, Nat.max_comm]
      · cases hx
  rw [key a hb, key a' hb']

theorem keyEq_iff (a b : Label × List Label) : keyEq a b = true ↔ a.1 = b.1 ∧ a.2.Perm b.2 := by
  unfold keyEq
  rw [Bool.and_eq_true, beq_iff_eq, List.isPerm_iff]

theorem keyEq_congr_right (k a b : Label × List Label) (h : keyEq a b = true) : keyEq k a = keyEq k b := by
  rw [keyEq_iff] at h
  rw [Bool.eq_iff_iff, keyEq_iff, keyEq_iff]
  constructor
  · rintro ⟨h1, h2⟩; exact ⟨h1.trans h.1, h2.trans h.2⟩
  · rintro ⟨h1, h2⟩; exact ⟨h1.trans h.1.symm, h2.trans h.2.symm⟩

/-- The assignment of a mapping read as a function (0 off its domain). -/
def mapFn (m : Mapping) (p : Nat) : Nat := (m.get? p).getD 0

theorem mapFn_of_mem (m : Mapping) (hn : (m.map (·.1)).Nodup) (p h : Nat) (hm : (p, h) ∈ m) : mapFn m p = h := by
  unfold mapFn; rw [get?_of_mem m hn p h hm]; rfl

theorem get?_mapFn (m : Mapping) (p : Nat) (hp : p ∈ m.map (·.1)) : m.get? p = some (mapFn m p) := by
  obtain ⟨h, hg, -⟩ := get?_isSome_of_mem_fst m p hp
  unfold mapFn; rw [hg]; rfl

theorem hasEdge_mem_ids (G : LGraph) (hG : G.WF) (u v : Nat) (h : G.hasEdge u v = true) : u ∈ G.ids ∧ v ∈ G.ids := by
  unfold LGraph.hasEdge at h
  cases hpe : G.edge? u v with
  | none => rw [hpe] at h; cases h
  | some pa =>
    obtain ⟨e, he, -, hends⟩ := edge?_some_mem G u v pa hpe
    obtain ⟨a, b, -⟩ := hG.2.1 e he
    rcases hends with ⟨e1, e2⟩ | ⟨e1, e2⟩
    · rw [← e1, ← e2]; exact ⟨a, b⟩
    · rw [← e1, ← e2]; exact ⟨b, a⟩

/-- A monomorphism sends adjacent nodes to adjacent nodes. -/
theorem mono_hasEdge {sel : Sel} {H P : LGraph} {m : Mapping} (hm : IsMono sel H P m) (p q hp hq : Nat)
    (g1 : m.get? p = some hp) (g2 : m.get? q = some hq) (he : P.hasEdge p q = true) : H.hasEdge hp hq = true := by
  unfold LGraph.hasEdge at he
  cases hpe : P.edge? p q with
  | none => rw [hpe] at he; cases he
  | some pa =>
    obtain ⟨pe, hpe1, -, hends⟩ := edge?_some_mem P p q pa hpe
    obtain ⟨hu, hv, ea, k1, k2, k3, -⟩ := hm.2.2.2 pe hpe1
    unfold LGraph.hasEdge
    rcases hends with ⟨e1, e2⟩ | ⟨e1, e2⟩
    · rw [e1, g1] at k1; rw [e2, g2] at k2; cases k1; cases k2; rw [k3]; rfl
    · rw [e1, g2] at k1; rw [e2, g1] at k2; cases k1; cases k2; rw [edge?_comm, k3]; rfl

/-- **An isomorphism maps the neighbours of a node onto the neighbours of its image.** -/
theorem iso_neighbors_perm (sel : Sel) (H P : LGraph) (m : Mapping) (hH : H.WF) (hP : P.WF) (hm : IsIso sel H P m)
    (p : Nat) (hp : p ∈ P.ids) :
    ((P.neighbors p).map (mapFn m)).Perm (H.neighbors (mapFn m p)) := by
  have hsurj := iso_surj sel H P m hm
  obtain ⟨⟨hmono, hind⟩, -⟩ := hm
  have hfst : m.map (·.1) = P.ids := hmono.1
  have hmfn : (m.map (·.1)).Nodup := by rw [hfst]; exact hP.1
  have hget : ∀ q ∈ P.ids, m.get? q = some (mapFn m q) := fun q hq => get?_mapFn m q (by rw [hfst]; exact hq)
  have hnbr : ∀ q ∈ P.neighbors p, q ∈ P.ids := fun q hq =>
    (hasEdge_mem_ids P hP p q ((mem_neighbors P p q).1 hq)).2
  refine (List.perm_ext_iff_of_nodup ?_ (neighbors_nodup H hH _)).2 ?_
  · refine List.Nodup.map_on ?_ (neighbors_nodup P hP p)
    intro x hx y hy e
    exact get?_inj m hmono.2.1 x y (mapFn m x) (hget x (hnbr x hx)) (by rw [e]; exact hget y (hnbr y hy))
  · intro h'
    rw [List.mem_map, mem_neighbors]
    constructor
    · rintro ⟨q, hq, rfl⟩
      exact mono_hasEdge hmono p q _ _ (hget p hp) (hget q (hnbr q hq)) ((mem_neighbors P p q).1 hq)
    · intro he
      obtain ⟨q, hq⟩ := hsurj h' (hasEdge_mem_ids H hH _ _ he).2
      refine ⟨q, ?_, mapFn_of_mem m hmfn q h' hq⟩
      rw [mem_neighbors]
      cases hh : P.hasEdge p q with
      | true => rfl
      | false =>
        have := hind p q _ _ (hget p hp) (get?_of_mem m hmfn q h' hq) hh
        rw [this] at he; cases he

/-- **Refined WL-1 filter, equal sizes, is sound**: an isomorphism makes the (label, multiset of
neighbour labels) histogram of the pattern contained in (in fact equal to) the host's.  Only the
equality on the selected node keys is used, not the hydrogen rule. -/
theorem wlContained_of_iso (sel : Sel) (attrs : List String) (H P : LGraph) (m : Mapping) (hk : sel.nodeKeys = attrs)
    (hH : H.WF) (hP : P.WF) (hm : IsIso sel H P m) : wlContained (wl1 H attrs) (wl1 P attrs) = true := by
  subst hk
  obtain ⟨f, hf, hs⟩ := mono_nodes_subperm hH.1 hP.1 hm.1.1
  have hfst : m.map (·.1) = P.ids := hm.1.1.1
  have hmfn : (m.map (·.1)).Nodup := by rw [hfst]; exact hP.1
  unfold wlContained
  rw [List.all_eq_true]
  intro k _
  rw [decide_eq_true_eq]
  unfold wl1
  rw [List.filter_map, List.length_map, List.filter_map, List.length_map]
  refine filter_length_le_of_subperm P.nodes H.nodes f hs _ _ ?_
  intro pn hpn
  obtain ⟨h1, h2, h3⟩ := hf pn hpn
  simp only [Function.comp]
  apply keyEq_congr_right
  rw [keyEq_iff]
  refine ⟨baseLabel_eq_of_nodeOk sel _ _ h3, ?_⟩
  simp only
  have hpid : pn.1 ∈ P.ids := List.mem_map.2 ⟨pn, hpn, rfl⟩
  have hfp : mapFn m pn.1 = (f pn).1 := mapFn_of_mem m hmfn _ _ h1
  have hperm := iso_neighbors_perm sel H P m hH hP hm pn.1 hpid
  rw [hfp] at hperm
  refine (hperm.map (fun v => baseLabel sel.nodeKeys (H.attrs v))).symm.trans ?_
  rw [List.map_map]
  refine List.Perm.of_eq (List.map_congr_left ?_)
  intro q hq
  have hq' : q ∈ m.map (·.1) := by
    rw [hfst]; exact (hasEdge_mem_ids P hP _ q ((mem_neighbors P _ q).1 hq)).2
  have := (hm.1.1.2.2.1 _ (mem_of_get? m q _ (get?_mapFn m q hq'))).2
  exact baseLabel_eq_of_nodeOk sel _ _ this

end SynKit.GME

import SynKitModel.Deficiency
import SynKitProofs.NetGraphAlg
import SynKitProofs.DeficiencyLemmas
import Mathlib.LinearAlgebra.Matrix.Rank
import Mathlib.LinearAlgebra.FiniteDimensional.Lemmas
import Mathlib.LinearAlgebra.Dimension.Constructions
/-!
# Rank lemmas for C19: `rank S ≤ n − ℓ` and `rank S ≤ Σ s_ℓ`

Helper lemmas only (property theorems are in `Props/C19.lean`).

* generic part: the span of the vectors `Y c − Y (rep c)`, `c < n`, has dimension at most
  `n − (number of representatives)`; the rank of a matrix whose columns lie in a subspace is at
  most the dimension of that subspace; the dimension of a finite join of subspaces is at most the
  sum of the dimensions;
* concrete part: every column of the stoichiometric matrix is `Y v − Y u` for an arc `(u, v)` of
  the complex graph (`stoich_col`), both ends of an arc carry the same label, and the column is
  (zero or) a column of the class matrix of the linkage class that contains the arc.
-/
namespace SynKit.Deficiency
open SynKit.NetGraphAlg Module

/-! ## generic linear algebra -/

section generic
variable {V : Type} [AddCommGroup V] [Module ℚ V]

/-- `n` vectors `Y c − Y (rep c)` of which those at the `|R|` fixed points of `rep` vanish span at
most `n − |R|` dimensions. -/
theorem finrank_span_diff_le (Y : Nat → V) (rep : Nat → Nat) (n : Nat) (R : List Nat)
    (hRn : R.Nodup) (hR : ∀ r ∈ R, r < n) (hrep : ∀ r ∈ R, rep r = r) :
    finrank ℚ (Submodule.span ℚ {w : V | ∃ c, c < n ∧ w = Y c - Y (rep c)}) ≤ n - R.length := by
  classical
  let s : Finset V := ((Finset.range n) \ R.toFinset).image fun c => Y c - Y (rep c)
  have hle : Submodule.span ℚ {w : V | ∃ c, c < n ∧ w = Y c - Y (rep c)} ≤ Submodule.span ℚ (s : Set V) := by
    apply Submodule.span_le.2
    rintro w ⟨c, hc, rfl⟩
    by_cases hcR : c ∈ R
    · rw [hrep c hcR, sub_self]; exact Submodule.zero_mem _
    · apply Submodule.subset_span
      simp only [s, Finset.coe_image, Set.mem_image, Finset.mem_coe, Finset.mem_sdiff, Finset.mem_range,
        List.mem_toFinset]
      exact ⟨c, ⟨hc, hcR⟩, rfl⟩
  calc finrank ℚ (Submodule.span ℚ {w : V | ∃ c, c < n ∧ w = Y c - Y (rep c)})
      ≤ finrank ℚ (Submodule.span ℚ (s : Set V)) := Submodule.finrank_mono hle
    _ ≤ s.card := finrank_span_finset_le_card s
    _ ≤ ((Finset.range n) \ R.toFinset).card := Finset.card_image_le
    _ = n - R.length := by
      rw [Finset.card_sdiff_of_subset, Finset.card_range, List.toFinset_card_of_nodup hRn]
      intro r hr
      exact Finset.mem_range.2 (hR r (List.mem_toFinset.1 hr))

/-- Join of a list of subspaces. -/
def supList (Ls : List (Submodule ℚ V)) : Submodule ℚ V := Ls.foldr (· ⊔ ·) ⊥

theorem le_supList (Ls : List (Submodule ℚ V)) (W : Submodule ℚ V) (h : W ∈ Ls) : W ≤ supList Ls := by
  induction Ls with
  | nil => simp at h
  | cons a rest ih =>
    rcases List.mem_cons.1 h with rfl | h
    · exact le_sup_left
    · exact le_trans (ih h) le_sup_right

/-- Sub-additivity of the dimension over a finite join. -/
theorem finrank_supList_le [FiniteDimensional ℚ V] (Ls : List (Submodule ℚ V)) :
    finrank ℚ (supList Ls) ≤ (Ls.map fun W : Submodule ℚ V => finrank ℚ W).sum := by
  induction Ls with
  | nil =>
    show finrank ℚ (⊥ : Submodule ℚ V) ≤ _
    rw [finrank_bot]; exact Nat.zero_le _
  | cons a rest ih =>
    calc finrank ℚ (supList (a :: rest)) = finrank ℚ (a ⊔ supList rest : Submodule ℚ V) := rfl
      _ ≤ finrank ℚ a + finrank ℚ (supList rest) := Submodule.finrank_add_le_finrank_add_finrank _ _
      _ ≤ ((a :: rest).map fun W : Submodule ℚ V => finrank ℚ W).sum := by
        simp only [List.map_cons, List.sum_cons]; omega

end generic

/-- A matrix all of whose columns lie in `W` has rank at most `dim W`. -/
theorem rank_le_of_cols {m k : Nat} (A : Matrix (Fin m) (Fin k) ℚ) (W : Submodule ℚ (Fin m → ℚ))
    (h : ∀ j, A.col j ∈ W) : A.rank ≤ finrank ℚ W := by
  rw [Matrix.rank_eq_finrank_span_cols]
  apply Submodule.finrank_mono
  apply Submodule.span_le.2
  rintro _ ⟨j, rfl⟩
  exact h j

/-! ## representatives -/

/-- The representative of the class of `c`: the first member of `R` with the label of `c`. -/
def repOf (f : Nat → Nat) (R : List Nat) (c : Nat) : Nat := (R.find? fun r => f r == f c).getD 0

theorem repOf_congr (f : Nat → Nat) (R : List Nat) (u v : Nat) (h : f u = f v) :
    repOf f R u = repOf f R v := by
  unfold repOf; rw [h]

theorem repOf_fix (f : Nat → Nat) (R : List Nat) (hR : (R.map f).Nodup) (r : Nat) (hr : r ∈ R) :
    repOf f R r = r := by
  unfold repOf
  cases hfind : R.find? (fun r' => f r' == f r) with
  | none =>
    have := List.find?_eq_none.1 hfind r hr
    simp at this
  | some r' =>
    have h1 : f r' = f r := by simpa using List.find?_some hfind
    have h2 : r' ∈ R := List.mem_of_find?_eq_some hfind
    simpa using List.inj_on_of_nodup_map hR h2 hr h1

/-! ## the complex vectors over ℚ and the matrices -/

/-- Complex number `c` as a vector over ℚ (zero when `c` is out of range). -/
noncomputable def cvec (N : Net) (c : Nat) : Fin N.species.length → ℚ :=
  fun i => ((((complexes N).getD c []).getD i 0 : Nat) : ℚ)

/-- Same body as `stoichMatrix` of `Props/C19.lean`. -/
noncomputable def stoichMatQ (N : Net) : Matrix (Fin N.species.length) (Fin N.reactions.length) ℚ :=
  Matrix.of fun i j => (((stoichRows N).getD i []).getD j 0 : ℚ)

/-- Same body as `classMatrix` of `Props/C19.lean`. -/
noncomputable def classMatQ (N : Net) (C : List Nat) :
    Matrix (Fin N.species.length) (Fin (classDiffs N C).length) ℚ :=
  Matrix.of fun i j => ((((classDiffs N C).getD j []).getD i 0 : Int) : ℚ)

theorem vecOf_getD (N : Net) (d : Dict Nat) (i : Nat) (hi : i < N.species.length) :
    (vecOf N d).getD i 0 = d.sumOf (N.species[i]) := by
  simp [vecOf, List.getD_eq_getElem?_getD, hi]

theorem cvec_of_getElem? (N : Net) (c : Nat) (d : Dict Nat) (h : (complexes N)[c]? = some (vecOf N d))
    (i : Fin N.species.length) : cvec N c i = ((d.sumOf (N.species[i]) : Nat) : ℚ) := by
  have hc : (complexes N).getD c [] = vecOf N d := by
    rw [List.getD_eq_getElem?_getD, h, Option.getD_some]
  unfold cvec
  rw [hc, vecOf_getD N d i i.2]
  rfl

/-- Every reaction gives an arc of the complex graph between its two complexes. -/
theorem exists_arc_of_rxn (N : Net) (r : Rxn) (hr : r ∈ N.reactions) :
    ∃ a ∈ complexArcs N, (complexes N)[a.1]? = some (vecOf N r.reactants) ∧
      (complexes N)[a.2]? = some (vecOf N r.products) := by
  have inv := cinv_complexVectors N
  have h1 : vecOf N r.reactants ∈ complexes N := (inv.mem _).2 ⟨r, hr, Or.inl rfl⟩
  have h2 : vecOf N r.products ∈ complexes N := (inv.mem _).2 ⟨r, hr, Or.inr rfl⟩
  obtain ⟨u, hu⟩ := List.mem_iff_getElem?.1 h1
  obtain ⟨v, hv⟩ := List.mem_iff_getElem?.1 h2
  exact ⟨(u, v), (inv.arcs (u, v)).2 ⟨r, hr, hu, hv⟩, hu, hv⟩

/-- **Columns of `S`.** Column `j` is `y′ − y` for an arc `y → y′` of the complex graph. -/
theorem stoich_col (N : Net) (j : Fin N.reactions.length) :
    ∃ a ∈ complexArcs N, (stoichMatQ N).col j = cvec N a.2 - cvec N a.1 := by
  obtain ⟨a, ha, h1, h2⟩ := exists_arc_of_rxn N (N.reactions[j]) (List.getElem_mem _)
  refine ⟨a, ha, ?_⟩
  funext i
  rw [Pi.sub_apply, cvec_of_getElem? N a.2 _ h2 i, cvec_of_getElem? N a.1 _ h1 i]
  simp [Matrix.col, stoichMatQ, stoichRows, List.getD_eq_getElem?_getD]

theorem linkageClasses_length (N : Net) :
    (linkageClasses N).length =
      (reps (labelling (complexArcs N)) (List.range (complexes N).length)).length := by
  simp [linkageClasses, components, classesOf]

/-- **`rank S ≤ n − ℓ`.** Every column `y′ − y` lies in the span of the `n` vectors
`y_c − y_rep(c)`, of which the `ℓ` at the representatives vanish. -/
theorem rank_stoich_le (N : Net) :
    (stoichMatQ N).rank ≤ (complexes N).length - (linkageClasses N).length := by
  rw [linkageClasses_length]
  set f := labelling (complexArcs N) with hf
  set n := (complexes N).length with hn
  set R := reps f (List.range n) with hR
  have hmapnd : (R.map f).Nodup := reps_labels_nodup f (List.range n)
  let W : Submodule ℚ (Fin N.species.length → ℚ) :=
    Submodule.span ℚ {w | ∃ c, c < n ∧ w = cvec N c - cvec N (repOf f R c)}
  have hgen : ∀ c, c < n → cvec N c - cvec N (repOf f R c) ∈ W :=
    fun c hc => Submodule.subset_span ⟨c, hc, rfl⟩
  refine le_trans (rank_le_of_cols (stoichMatQ N) W ?_) ?_
  · intro j
    obtain ⟨a, ha, hcol⟩ := stoich_col N j
    obtain ⟨h1, h2⟩ := complexArcs_lt N a ha
    have hlab : f a.1 = f a.2 := (labelling_spec _ _ _).2 (.edge ha)
    have hrep := repOf_congr f R a.1 a.2 hlab
    have : (stoichMatQ N).col j =
        (cvec N a.2 - cvec N (repOf f R a.2)) - (cvec N a.1 - cvec N (repOf f R a.1)) := by
      rw [hcol, hrep]; abel
    rw [this]
    exact W.sub_mem (hgen _ h2) (hgen _ h1)
  · exact finrank_span_diff_le (cvec N) (repOf f R) n R (List.Nodup.of_map _ hmapnd)
      (fun r hr => List.mem_range.1 (mem_reps f _ r hr)) (fun r hr => repOf_fix f R hmapnd r hr)

/-- There are at most as many linkage classes as complexes. -/
theorem linkage_le_complexes (N : Net) : (linkageClasses N).length ≤ (complexes N).length := by
  rw [linkageClasses_length]
  have hnd : (reps (labelling (complexArcs N)) (List.range (complexes N).length)).Nodup :=
    List.Nodup.of_map _ (reps_labels_nodup _ _)
  have := (hnd.subperm (fun r hr => mem_reps _ _ r hr)).length_le
  simpa using this

/-! ## the class matrices -/

theorem getD_zero_of_all_zero (d : List Int) (h : ∀ x ∈ d, x = 0) (i : Nat) : d.getD i 0 = 0 := by
  rw [List.getD_eq_getElem?_getD]
  cases hi : d[i]? with
  | none => rfl
  | some x => exact h x (List.mem_of_getElem? hi)

/-- The difference list of an arc, entry by entry. -/
theorem arcDiff_getD (N : Net) (a : Nat × Nat) (ha : a ∈ complexArcs N) (i : Fin N.species.length) :
    ((((List.zipWith (fun (y' y : Nat) => (y' : Int) - (y : Int))
        ((complexes N).getD a.2 []) ((complexes N).getD a.1 [])).getD i 0 : Int)) : ℚ) =
      cvec N a.2 i - cvec N a.1 i := by
  obtain ⟨r, _, h1, h2⟩ := ((cinv_complexVectors N).arcs a).1 ha
  change (complexes N)[a.1]? = _ at h1
  change (complexes N)[a.2]? = _ at h2
  have e1 : (complexes N).getD a.1 [] = vecOf N r.reactants := by
    rw [List.getD_eq_getElem?_getD, h1, Option.getD_some]
  have e2 : (complexes N).getD a.2 [] = vecOf N r.products := by
    rw [List.getD_eq_getElem?_getD, h2, Option.getD_some]
  rw [cvec_of_getElem? N a.2 _ h2 i, cvec_of_getElem? N a.1 _ h1 i, e1, e2]
  simp [vecOf, List.getD_eq_getElem?_getD]

/-- Span of the columns of the class matrix. -/
noncomputable def classSpan (N : Net) (C : List Nat) : Submodule ℚ (Fin N.species.length → ℚ) :=
  Submodule.span ℚ (Set.range (classMatQ N C).col)

theorem classSpan_finrank (N : Net) (C : List Nat) : finrank ℚ (classSpan N C) = (classMatQ N C).rank :=
  (Matrix.rank_eq_finrank_span_cols _).symm

/-- The difference vector of an arc inside `C` lies in the column span of the class matrix. -/
theorem arcDiff_mem_classSpan (N : Net) (C : List Nat) (a : Nat × Nat)
    (ha : a ∈ restrict (complexArcs N) C) : cvec N a.2 - cvec N a.1 ∈ classSpan N C := by
  have haE : a ∈ complexArcs N := ((mem_restrict _ _ _).1 ha).1
  set d := List.zipWith (fun (y' y : Nat) => (y' : Int) - (y : Int))
        ((complexes N).getD a.2 []) ((complexes N).getD a.1 []) with hd
  have hent : ∀ i : Fin N.species.length, ((d.getD i 0 : Int) : ℚ) = cvec N a.2 i - cvec N a.1 i :=
    fun i => arcDiff_getD N a haE i
  by_cases hnz : d.any (· != 0) = true
  · have hmem : d ∈ classDiffs N C := by
      unfold classDiffs
      rw [List.mem_filter]
      exact ⟨List.mem_map.2 ⟨a, ha, rfl⟩, hnz⟩
    obtain ⟨j, hj, hjd⟩ := List.mem_iff_getElem.1 hmem
    apply Submodule.subset_span
    refine ⟨⟨j, hj⟩, ?_⟩
    funext i
    rw [Pi.sub_apply, ← hent i]
    simp [Matrix.col, classMatQ, List.getD_eq_getElem?_getD, hjd]
  · have hz : ∀ x ∈ d, x = 0 := by
      intro x hx
      by_contra hx0
      exact hnz (List.any_eq_true.2 ⟨x, hx, by simpa using hx0⟩)
    have : cvec N a.2 - cvec N a.1 = 0 := by
      funext i
      rw [Pi.sub_apply, ← hent i, getD_zero_of_all_zero d hz]; simp
    rw [this]; exact Submodule.zero_mem _

/-- **`rank S ≤ Σ s_ℓ`.** The column space of `S` lies in the join of the column spaces of the
class matrices, and the dimension is sub-additive over a join. -/
theorem rank_stoich_le_sum (N : Net) :
    (stoichMatQ N).rank ≤ ((linkageClasses N).map fun C => (classMatQ N C).rank).sum := by
  refine le_trans (rank_le_of_cols (stoichMatQ N) (supList ((linkageClasses N).map (classSpan N))) ?_) ?_
  · intro j
    obtain ⟨a, ha, hcol⟩ := stoich_col N j
    obtain ⟨h1, h2⟩ := complexArcs_lt N a ha
    obtain ⟨C, hC, h1C, h2C⟩ := (components_spec (List.range (complexes N).length) (complexArcs N) a.1 a.2
      (List.mem_range.2 h1) (List.mem_range.2 h2)).2 (.edge ha)
    have hmem : a ∈ restrict (complexArcs N) C := (mem_restrict _ _ _).2 ⟨ha, h1C, h2C⟩
    rw [hcol]
    exact le_supList _ (classSpan N C) (List.mem_map.2 ⟨C, hC, rfl⟩) (arcDiff_mem_classSpan N C a hmem)
  · refine le_trans (finrank_supList_le _) (le_of_eq ?_)
    rw [List.map_map]
    congr 1
    apply List.map_congr_left
    intro C _
    exact classSpan_finrank N C

/-! ## the class sizes add up to `n`, and the sum of the class deficiencies -/

theorem sum_indicator_eq_one (f : Nat → Nat) (R : List Nat) (hR : (R.map f).Nodup) (x : Nat)
    (hx : ∃ r ∈ R, f r = f x) : (R.map fun r => if f x = f r then 1 else 0).sum = 1 := by
  induction R with
  | nil => obtain ⟨r, hr, _⟩ := hx; simp at hr
  | cons a rest ih =>
    rw [List.map_cons, List.nodup_cons] at hR
    by_cases hax : f x = f a
    · have hzero : ∀ r ∈ rest, (if f x = f r then 1 else 0) = 0 := by
        intro r hr
        have : f x ≠ f r := by
          intro h; exact hR.1 (List.mem_map.2 ⟨r, hr, by rw [← h, hax]⟩)
        simp [this]
      rw [List.map_cons, List.sum_cons, if_pos hax, List.map_congr_left hzero]
      simp
    · obtain ⟨r, hr, hfr⟩ := hx
      have hr' : r ∈ rest := by
        rcases List.mem_cons.1 hr with rfl | h
        · exact absurd hfr.symm hax
        · exact h
      rw [List.map_cons, List.sum_cons, if_neg hax, ih hR.2 ⟨r, hr', hfr⟩]

theorem sum_filter_length (f : Nat → Nat) (R : List Nat) (hR : (R.map f).Nodup) (xs : List Nat)
    (hx : ∀ x ∈ xs, ∃ r ∈ R, f r = f x) :
    (R.map fun r => (xs.filter fun x => f x == f r).length).sum = xs.length := by
  induction xs with
  | nil => simp
  | cons x rest ih =>
    have hsplit : ∀ r ∈ R, ((x :: rest).filter fun y => f y == f r).length =
        (if f x = f r then 1 else 0) + (rest.filter fun y => f y == f r).length := by
      intro r _
      by_cases h : f x = f r
      · simp [h]; omega
      · simp [h]
    rw [List.map_congr_left hsplit, List.sum_map_add, sum_indicator_eq_one f R hR x (hx x List.mem_cons_self),
      ih (fun y hy => hx y (List.mem_cons_of_mem _ hy))]
    simp; omega

/-- The linkage classes partition the complexes: their sizes add up to `n`. -/
theorem sum_class_lengths (N : Net) :
    ((linkageClasses N).map List.length).sum = (complexes N).length := by
  unfold linkageClasses components classesOf
  rw [List.map_map]
  have := sum_filter_length (labelling (complexArcs N)) _
    (reps_labels_nodup (labelling (complexArcs N)) (List.range (complexes N).length))
    (List.range (complexes N).length) (fun x hx => reps_cover _ _ x hx)
  simpa [Function.comp_def] using this

theorem sum_deficiencies_list (L : List (List Nat)) (s : List Nat → Nat) :
    (List.zipWith (fun (C : List Nat) (k : Nat) => (C.length : Int) - 1 - (k : Int)) L (L.map s)).sum =
      ((L.map List.length).sum : Int) - (L.length : Int) - ((L.map s).sum : Int) := by
  induction L with
  | nil => simp
  | cons C rest ih =>
    simp only [List.map_cons, List.zipWith_cons_cons, List.sum_cons, List.length_cons, ih]
    push_cast; ring

/-- `Σ δ_ℓ = n − ℓ − Σ s_ℓ` when the ranks are supplied class by class. -/
theorem sum_linkageDeficiencies (N : Net) (s : List Nat → Nat) :
    (linkageDeficiencies N ((linkageClasses N).map s)).sum =
      ((complexes N).length : Int) - ((linkageClasses N).length : Int) -
        (((linkageClasses N).map s).sum : Int) := by
  unfold linkageDeficiencies
  rw [sum_deficiencies_list, sum_class_lengths]

end SynKit.Deficiency

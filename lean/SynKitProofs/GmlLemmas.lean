import SynKitModel.Gml
import SynKitProofs.ReprLemmas
import Mathlib.Tactic.Ring
/-! Helper lemmas for C10: the label syntax, then the GML writer/reader. -/
namespace SynKit.Gml
open SynKit

/-! ### decimal digits -/

theorem digitChar_props (d : Nat) (h : d < 10) :
    (digitChar d).isDigit = true ∧ isElemChar (digitChar d) = false ∧ digitVal (digitChar d) = d ∧
    digitChar d ≠ '+' ∧ digitChar d ≠ '-' := by
  have : ∀ d : Fin 10, (digitChar d.1).isDigit = true ∧ isElemChar (digitChar d.1) = false ∧
      digitVal (digitChar d.1) = d.1 ∧ digitChar d.1 ≠ '+' ∧ digitChar d.1 ≠ '-' := by decide
  exact this ⟨d, h⟩

def decStep (acc : Nat) (d : Char) : Nat := acc * 10 + digitVal d

theorem fromDec_eq (ds : List Char) : fromDec ds = ds.foldl decStep 0 := rfl

/-- `decAux` prepends a non-empty block of digits whose value is `n`. -/
theorem decAux_spec (fuel : Nat) : ∀ (n : Nat) (acc : List Char), n < fuel →
    ∃ ds, decAux fuel n acc = ds ++ acc ∧ ds ≠ [] ∧ (∀ ch ∈ ds, ch.isDigit = true ∧ isElemChar ch = false) ∧
      ∀ a, ds.foldl decStep a = a * 10 ^ ds.length + n := by
  induction fuel with
  | zero => intro n acc h; omega
  | succ fuel ih =>
    intro n acc h
    have hd := digitChar_props (n % 10) (Nat.mod_lt _ (by omega))
    unfold decAux
    by_cases h0 : n / 10 = 0
    · simp only [h0, if_true]
      refine ⟨[digitChar (n % 10)], rfl, by simp, ?_, ?_⟩
      · intro ch hch; simp only [List.mem_singleton] at hch; subst hch; exact ⟨hd.1, hd.2.1⟩
      · intro a
        simp only [List.foldl_cons, List.foldl_nil, decStep, hd.2.2.1, List.length_singleton, Nat.pow_one]
        have : n % 10 = n := Nat.mod_eq_of_lt (by omega)
        omega
    · simp only [h0, if_false]
      obtain ⟨ds, h1, h2, h3, h4⟩ := ih (n / 10) (digitChar (n % 10) :: acc) (by omega)
      refine ⟨ds ++ [digitChar (n % 10)], by rw [h1]; simp, by simp, ?_, ?_⟩
      · intro ch hch
        rcases List.mem_append.1 hch with h | h
        · exact h3 ch h
        · simp only [List.mem_singleton] at h; subst h; exact ⟨hd.1, hd.2.1⟩
      · intro a
        rw [List.foldl_append, h4 a]
        simp only [List.foldl_cons, List.foldl_nil, decStep, hd.2.2.1, List.length_append, List.length_singleton,
          Nat.pow_succ]
        have := Nat.div_add_mod n 10
        have e : (a * 10 ^ ds.length + n / 10) * 10 + n % 10 = a * (10 ^ ds.length * 10) + (10 * (n / 10) + n % 10) := by ring
        rw [e, this]

theorem toDec_spec (n : Nat) :
    toDec n ≠ [] ∧ (∀ ch ∈ toDec n, ch.isDigit = true ∧ isElemChar ch = false) ∧ fromDec (toDec n) = n := by
  obtain ⟨ds, h1, h2, h3, h4⟩ := decAux_spec (n + 1) n [] (by omega)
  simp only [List.append_nil] at h1
  unfold toDec
  rw [h1]
  refine ⟨h2, h3, ?_⟩
  rw [fromDec_eq, h4 0]; simp

/-! ### labels -/

theorem takeWhile_all {α} (p : α → Bool) (l r : List α) (h : ∀ x ∈ l, p x = true)
    (hr : ∀ x, r.head? = some x → p x = false) :
    (l ++ r).takeWhile p = l ∧ (l ++ r).dropWhile p = r := by
  constructor
  · rw [List.takeWhile_append_of_pos h]
    cases r with
    | nil => simp
    | cons x xs => simp [List.takeWhile_cons, hr x rfl]
  · rw [List.dropWhile_append_of_pos h]
    cases r with
    | nil => simp
    | cons x xs => simp [List.dropWhile_cons, hr x rfl]

theorem parse_signed (e : List Char) (he : alpha e) (n : Nat) (s : Char) (hs : s = '+' ∨ s = '-') :
    parseLabel (e ++ (toDec n ++ [s])) = (e, if s = '+' then (n : Int) else -(n : Int)) := by
  obtain ⟨h1, h2, h3⟩ := toDec_spec n
  have hsE : isElemChar s = false := by rcases hs with rfl | rfl <;> decide
  have hsD : s.isDigit = false := by rcases hs with rfl | rfl <;> decide
  have hhead : ∀ x, (toDec n ++ [s]).head? = some x → isElemChar x = false := by
    intro x hx
    cases hd : toDec n with
    | nil => exact absurd hd h1
    | cons y ys =>
      rw [hd] at hx; simp only [List.cons_append, List.head?_cons, Option.some.injEq] at hx
      subst hx; exact (h2 y (by rw [hd]; exact List.mem_cons_self)).2
  obtain ⟨t1, d1⟩ := takeWhile_all isElemChar e (toDec n ++ [s]) he.2 hhead
  obtain ⟨t2, d2⟩ := takeWhile_all Char.isDigit (toDec n) [s] (fun x hx => (h2 x hx).1)
    (by intro x hx; simp only [List.head?_cons, Option.some.injEq] at hx; subst hx; exact hsD)
  unfold parseLabel
  simp only [t1, d1, t2, d2, he.1, if_false, h1, h3]
  rcases hs with rfl | rfl
  · simp
  · simp

theorem label_roundtrip' (e : List Char) (c : Int) (he : alpha e) : parseLabel (render e c) = (e, c) := by
  unfold render chargeStr
  by_cases hpos : c > 0
  · simp only [hpos, if_true]
    by_cases h1 : c = 1
    · subst h1
      obtain ⟨t1, d1⟩ := takeWhile_all isElemChar e ['+'] he.2 (by
        intro x hx; simp only [List.head?_cons, Option.some.injEq] at hx; subst hx; decide)
      unfold parseLabel
      simp [t1, d1, he.1]
    · simp only [h1, if_false]
      rw [parse_signed e he c.toNat '+' (Or.inl rfl)]
      simp only [if_true]
      rw [Int.toNat_of_nonneg (by omega)]
  · simp only [hpos, if_false]
    by_cases hneg : c < 0
    · simp only [hneg, if_true]
      by_cases h1 : c = -1
      · subst h1
        obtain ⟨t1, d1⟩ := takeWhile_all isElemChar e ['-'] he.2 (by
          intro x hx; simp only [List.head?_cons, Option.some.injEq] at hx; subst hx; decide)
        unfold parseLabel
        simp [t1, d1, he.1]
      · simp only [h1, if_false]
        rw [parse_signed e he (-c).toNat '-' (Or.inr rfl)]
        have : ('-' : Char) ≠ '+' := by decide
        simp only [this, if_false]
        rw [Int.toNat_of_nonneg (by omega)]; simp
    · simp only [hneg, if_false, List.append_nil]
      have : c = 0 := by omega
      subst this
      obtain ⟨t1, d1⟩ := takeWhile_all isElemChar e [] he.2 (by intro x hx; simp at hx)
      simp only [List.append_nil] at t1 d1
      unfold parseLabel
      simp [t1, d1, he.1]

theorem orderLabel_roundtrip' (h : Int) (hh : h = 2 ∨ h = 3 ∨ h = 4 ∨ h = 6) :
    labelOrder (orderLabel (.num h)) = .num h := by
  rcases hh with rfl | rfl | rfl | rfl <;> decide


/-! ### what the writer puts into the tokens -/

theorem nodeShape_unpack (a : Attrs) (h : nodeShape a = true) :
    ∃ e ar hc c nb ar' hc' c' nb',
      Dict.get? a "typesGH" = some (.tup [.tup [.str e, ar, hc, .num c, nb], .tup [.str e, ar', hc', .num c', nb']]) ∧
      alpha e.toList ∧ Dict.get? a "element" = some (.str e) ∧ Dict.get? a "charge" = some (.num c) := by
  unfold nodeShape at h
  split at h
  · rename_i e ar hc c nb e' ar' hc' c' nb' heq
    simp only [Bool.and_eq_true, decide_eq_true_eq, beq_iff_eq] at h
    obtain ⟨⟨⟨⟨⟨h1, h2⟩, _⟩, _⟩, h5⟩, h6⟩ := h
    subst h1
    exact ⟨e, ar, hc, c, nb, ar', hc', c', nb', heq, h2, h5, h6⟩
  · simp at h

theorem edgeShape_unpack (a : Attrs) (h : edgeShape a = true) :
    ∃ x y, Dict.get? a "order" = some (.tup [.num x, .num y]) ∧ stdOrder x = true ∧ stdOrder y = true := by
  unfold edgeShape at h
  split at h
  · rename_i x y heq
    simp only [Bool.and_eq_true] at h
    exact ⟨x, y, heq, h.1.1, h.1.2⟩
  · simp at h

theorem relabel_id (g : LGraph) : g.relabel id = g := by
  cases g; simp [LGraph.relabel]

theorem filterMap_eq_map {α β} (f : α → Option β) (g : α → β) (l : List α) (h : ∀ x ∈ l, f x = some (g x)) :
    l.filterMap f = l.map g := by
  induction l with
  | nil => rfl
  | cons x xs ih =>
    simp only [List.filterMap_cons, h x List.mem_cons_self, List.map_cons]
    rw [ih fun y hy => h y (List.mem_cons_of_mem _ hy)]

/-- the attribute dict `its_decompose` gives a node on side `i`. -/
def sideAttrs (i : Nat) (p : Nat × Attrs) : Attrs :=
  match sideNode i p with
  | some q => q.2
  | none => []

theorem sideNode_shape (i : Nat) (p : Nat × Attrs) (h : nodeShape p.2 = true) :
    sideNode i p = some (p.1, sideAttrs i p) := by
  obtain ⟨e, ar, hc, c, nb, ar', hc', c', nb', h1, _, _, _⟩ := nodeShape_unpack p.2 h
  unfold sideAttrs
  unfold sideNode
  simp only [h1]
  by_cases hi : i = 0
  · simp [hi]
  · simp [hi]

theorem side_nodes (i : Nat) (I : LGraph) (h : ∀ p ∈ I.nodes, nodeShape p.2 = true) :
    (side i I).nodes = I.nodes.map fun p => (p.1, sideAttrs i p) := by
  simp only [side]
  exact filterMap_eq_map _ _ _ fun p hp => sideNode_shape i p (h p hp)

theorem side_attrs (i : Nat) (I : LGraph) (hn : I.ids.Nodup) (h : ∀ p ∈ I.nodes, nodeShape p.2 = true)
    (p : Nat × Attrs) (hp : p ∈ I.nodes) : (side i I).attrs p.1 = sideAttrs i p := by
  have h1 := side_nodes i I h
  have hnd : (((I.nodes.map fun p => (p.1, sideAttrs i p))).map (·.1)).Nodup := by
    simpa [List.map_map, Function.comp_def, LGraph.ids] using hn
  have := SynKit.Repr.find_of_mem (I.nodes.map fun p => (p.1, sideAttrs i p)) [] hnd (p.1, sideAttrs i p)
    (List.mem_map.2 ⟨p, hp, rfl⟩)
  simp only [LGraph.attrs, h1]
  simp only [List.append_nil] at this
  rw [this]

theorem side_ids (i : Nat) (I : LGraph) (h : ∀ p ∈ I.nodes, nodeShape p.2 = true) : (side i I).ids = I.ids := by
  simp [LGraph.ids, side_nodes i I h, List.map_map, Function.comp_def]

/-- element and charge of a shaped node on both sides, as the writer reads them. -/
theorem shaped_labels (p : Nat × Attrs) (h : nodeShape p.2 = true) :
    ∃ e c c', alpha e.toList ∧
      Attrs.get p.2 "typesGH" = .tup [.tup [.str e, tupGet (tupGet (Attrs.get p.2 "typesGH") 0) 1, tupGet (tupGet (Attrs.get p.2 "typesGH") 0) 2, .num c, tupGet (tupGet (Attrs.get p.2 "typesGH") 0) 4],
                                     .tup [.str e, tupGet (tupGet (Attrs.get p.2 "typesGH") 1) 1, tupGet (tupGet (Attrs.get p.2 "typesGH") 1) 2, .num c', tupGet (tupGet (Attrs.get p.2 "typesGH") 1) 4]] ∧
      nodeLabel p.2 = render e.toList (c / 2) ∧
      nodeLabel (sideAttrs 0 p) = render e.toList (c / 2) ∧ nodeLabel (sideAttrs 1 p) = render e.toList (c' / 2) ∧
      Attrs.get (sideAttrs 0 p) "charge" = .num c ∧ Attrs.get (sideAttrs 1 p) "charge" = .num c' := by
  obtain ⟨e, ar, hc, c, nb, ar', hc', c', nb', h1, h2, h3, h4⟩ := nodeShape_unpack p.2 h
  refine ⟨e, c, c', h2, ?_, ?_, ?_, ?_, ?_, ?_⟩
  · simp [Attrs.get, Dict.getD, h1, tupGet]
  · simp [nodeLabel, elemOf, chargeOf, h3, h4]
  · simp [sideAttrs, sideNode, h1, nodeLabel, elemOf, chargeOf, Dict.get?, tupGet]
  · simp [sideAttrs, sideNode, h1, nodeLabel, elemOf, chargeOf, Dict.get?, tupGet]
  · simp [sideAttrs, sideNode, h1, Attrs.get, Dict.getD, Dict.get?, tupGet]
  · simp [sideAttrs, sideNode, h1, Attrs.get, Dict.getD, Dict.get?, tupGet]


theorem itsToGml_full (I : LGraph) :
    itsToGml false false I =
      { left := sideItems (side 0 I) (findChanged (side 0 I) (side 1 I)),
        context := ctxItems I (findChanged (side 0 I) (side 1 I)),
        right := sideItems (side 1 I) (findChanged (side 0 I) (side 1 I)) } := by
  simp [itsToGml, writeRule, decompose, relabel_id]

theorem mem_findChanged (I : LGraph) (hs : ItsShape I) (p : Nat × Attrs) (hp : p ∈ I.nodes) (c c' : Int)
    (h0 : Attrs.get (sideAttrs 0 p) "charge" = .num c) (h1 : Attrs.get (sideAttrs 1 p) "charge" = .num c') :
    p.1 ∈ findChanged (side 0 I) (side 1 I) ↔ c ≠ c' := by
  obtain ⟨hwf, hns, _⟩ := hs
  have hid : p.1 ∈ I.ids := List.mem_map.2 ⟨p, hp, rfl⟩
  simp only [findChanged, List.mem_filter, side_ids 0 I hns, LGraph.hasNode, side_ids 1 I hns,
    side_attrs 0 I hwf.1 hns p hp, side_attrs 1 I hwf.1 hns p hp, h0, h1, Bool.and_eq_true, decide_eq_true_eq]
  constructor
  · rintro ⟨_, _, h⟩ e; exact h (by rw [e])
  · intro h
    refine ⟨hid, by simpa using hid, ?_⟩
    intro e; exact h (by injection e)

theorem writer_nodes (I : LGraph) (hs : ItsShape I) (p : Nat × Attrs) (hp : p ∈ I.nodes) :
    ∃ e c c', alpha e.toList ∧ nodeView I p.1 = .tup [.str e, .num c, .str e, .num c'] ∧
      (if c = c' then Item.node p.1 (render e.toList (c / 2)) ∈ (itsToGml false false I).context
       else Item.node p.1 (render e.toList (c / 2)) ∈ (itsToGml false false I).left ∧
            Item.node p.1 (render e.toList (c' / 2)) ∈ (itsToGml false false I).right) := by
  obtain ⟨e, c, c', ha, ht, hl, hl0, hl1, hc0, hc1⟩ := shaped_labels p (hs.2.1 p hp)
  refine ⟨e, c, c', ha, ?_, ?_⟩
  · have : I.attrs p.1 = p.2 := SynKit.Repr.attrs_eq_of_mem I hs.1.1 p hp
    simp only [nodeView, this]
    rw [ht]
    simp [tupGet]
  · have hm := mem_findChanged I hs p hp c c' hc0 hc1
    rw [itsToGml_full]
    by_cases hcc : c = c'
    · simp only [hcc, if_true]
      have hnot : p.1 ∉ findChanged (side 0 I) (side 1 I) := fun h => (hm.1 h) hcc
      simp only [ctxItems, List.mem_map, List.mem_filter]
      refine ⟨p, ⟨hp, by simpa using hnot⟩, ?_⟩
      simp only [nodeItem, hl, hcc]
    · simp only [hcc, if_false]
      have hin : p.1 ∈ findChanged (side 0 I) (side 1 I) := hm.2 hcc
      constructor
      · simp only [sideItems, List.mem_append, List.mem_map, List.mem_filter]
        right
        refine ⟨(p.1, sideAttrs 0 p), ⟨?_, by simpa using hin⟩, by simp only [nodeItem, hl0]⟩
        rw [side_nodes 0 I hs.2.1]; exact List.mem_map.2 ⟨p, hp, rfl⟩
      · simp only [sideItems, List.mem_append, List.mem_map, List.mem_filter]
        right
        refine ⟨(p.1, sideAttrs 1 p), ⟨?_, by simpa using hin⟩, by simp only [nodeItem, hl1]⟩
        rw [side_nodes 1 I hs.2.1]; exact List.mem_map.2 ⟨p, hp, rfl⟩

theorem stdOrder_pos (x : Int) (h : stdOrder x = true) (h0 : x ≠ 0) : x > 0 := by
  simp only [stdOrder, Bool.or_eq_true, decide_eq_true_eq] at h
  omega

theorem writer_edges (I : LGraph) (hs : ItsShape I) (ed : Nat × Nat × Attrs) (he : ed ∈ I.edges) :
    ∃ x y, edgeView I ed.1 ed.2.1 = (I.edge? ed.1 ed.2.1).map (fun a => Attrs.get a "order") ∧
      Attrs.get ed.2.2 "order" = .tup [.num x, .num y] ∧ stdOrder x = true ∧ stdOrder y = true ∧
      (x ≠ 0 → Item.edge ed.1 ed.2.1 (orderLabel (.num x)) ∈ (itsToGml false false I).left) ∧
      (y ≠ 0 → Item.edge ed.1 ed.2.1 (orderLabel (.num y)) ∈ (itsToGml false false I).right) := by
  obtain ⟨x, y, h1, hx, hy⟩ := edgeShape_unpack ed.2.2 (hs.2.2 ed he)
  refine ⟨x, y, rfl, by simp [Attrs.get, Dict.getD, h1], hx, hy, ?_, ?_⟩
  · intro h0
    rw [itsToGml_full]
    simp only [sideItems, List.mem_append, List.mem_map]
    left
    refine ⟨(ed.1, ed.2.1, [("order", .num x)]), ?_, by simp [edgeItem, edgeOrderVal, Dict.getD, Dict.get?]⟩
    simp only [side, List.mem_filterMap]
    exact ⟨ed, he, by simp [sideEdge, h1, stdOrder_pos x hx h0]⟩
  · intro h0
    rw [itsToGml_full]
    simp only [sideItems, List.mem_append, List.mem_map]
    left
    refine ⟨(ed.1, ed.2.1, [("order", .num y)]), ?_, by simp [edgeItem, edgeOrderVal, Dict.getD, Dict.get?]⟩
    simp only [side, List.mem_filterMap]
    exact ⟨ed, he, by simp [sideEdge, h1, stdOrder_pos y hy h0]⟩

end SynKit.Gml

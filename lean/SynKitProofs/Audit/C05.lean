import SynKitProofs.Props.C05
#print axioms SynKit.ReactorInv.allMonos_relabel_host
#print axioms SynKit.ReactorInv.allMonos_relabel_pattern
#print axioms SynKit.ReactorInv.relabel_match_injective
#print axioms SynKit.ReactorInv.allMonos_relabel_length
#print axioms SynKit.ReactorInv.results_invariant_unpruned
#print axioms SynKit.ReactorInv.comp_subset_all
#print axioms SynKit.ReactorInv.bt_def
#print axioms SynKit.ReactorInv.bt_subset_all
#print axioms SynKit.ReactorInv.prune_sound_of_aut
#print axioms SynKit.ReactorInv.prune_preserves_results
#print axioms SynKit.ReactorInv.pruneSound_of_aut
#print axioms SynKit.ReactorInv.C05.statement_partial
#print axioms SynKit.ReactorInv.pruneSpecB_iff
#print axioms SynKit.ReactorInv.pruneSpec_preserves_results
#print axioms SynKit.ReactorInv.pruneByAut_spec

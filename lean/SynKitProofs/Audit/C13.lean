import SynKitProofs.Props.C13
#print axioms SynKit.Cluster.cluster_partition
#print axioms SynKit.Cluster.same_class_iff
#print axioms SynKit.Cluster.cluster_perm_invariant
#print axioms SynKit.Cluster.cluster_perm_invariant_items
#print axioms SynKit.Cluster.libCheck_spec
#print axioms SynKit.Cluster.libCheck_joins_representative
#print axioms SynKit.Cluster.cluster_with_templates_spec
#print axioms SynKit.Cluster.incremental_eq_oneshot
#print axioms SynKit.Cluster.incremental_perm_invariant
#print axioms SynKit.Cluster.batched_eq_oneshot
#print axioms SynKit.Cluster.C13.full

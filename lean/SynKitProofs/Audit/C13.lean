import SynKitProofs.Props.C13
#print axioms SynKit.Cluster.cluster_partition
#print axioms SynKit.Cluster.same_class_iff
#print axioms SynKit.Cluster.cluster_perm_invariant
#print axioms SynKit.Cluster.cluster_perm_invariant_items
#print axioms SynKit.Cluster.libCheck_spec
#print axioms SynKit.Cluster.libCheck_joins_representative
#print axioms SynKit.Cluster.cluster_with_templates_spec
#print axioms SynKit.Cluster.incremental_eq_oneshot
#print axioms SynKit.Cluster.incremental_perm_invariant
#print axioms SynKit.Cluster.batched_eq_oneshot
#print axioms SynKit.Cluster.C13.full
-- relativised to a carrier predicate
#print axioms SynKit.Cluster.same_class_iff_on
#print axioms SynKit.Cluster.cluster_perm_invariant_on
#print axioms SynKit.Cluster.libCheck_joins_representative_on
#print axioms SynKit.Cluster.cluster_with_templates_spec_on
#print axioms SynKit.Cluster.incremental_same_class_iff_oneshot
#print axioms SynKit.Cluster.incremental_perm_invariant_on
-- instantiated with the real isomorphism (element, charge, bond order)
#print axioms SynKit.Cluster.clIso_equiv_wf
#print axioms SynKit.Cluster.same_class_iff_iso
#print axioms SynKit.Cluster.cluster_perm_invariant_iso
#print axioms SynKit.Cluster.libCheck_spec_iso
#print axioms SynKit.Cluster.libCheck_joins_representative_iso
#print axioms SynKit.Cluster.cluster_with_templates_spec_iso
#print axioms SynKit.Cluster.incremental_perm_invariant_iso
#print axioms SynKit.Cluster.relabel_same_class_iso
#print axioms SynKit.Cluster.libCheck_relabel_joins_iso
#print axioms SynKit.Cluster.C13.full_iso
-- helper facts the instantiation rests on (SynKitProofs/ClusterIso.lean)
#print axioms SynKit.Cluster.clIso_iff
#print axioms SynKit.Cluster.clIso_equivOn
#print axioms SynKit.Cluster.nodeOk_norm_iff
#print axioms SynKit.Cluster.edgeOk_norm_iff
#print axioms SynKit.Cluster.get_withDefault
#print axioms SynKit.Cluster.clIso_relabel_left
#print axioms SynKit.Cluster.clIso_relabel_right

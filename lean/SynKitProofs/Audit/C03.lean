import SynKitProofs.Props.C03
#print axioms SynKit.Reactor.glue_left_unchanged
#print axioms SynKit.Reactor.glue_specA
#print axioms SynKit.Reactor.glue_balance
#print axioms SynKit.Reactor.glue_balanced
#print axioms SynKit.Reactor.glue_rc_image
#print axioms SynKit.Reactor.invert_swaps_sides
#print axioms SynKit.Reactor.invert_involutive
#print axioms SynKit.Reactor.exMono
#print axioms SynKit.Reactor.isMonoB_iff
#print axioms SynKit.Reactor.explicitH_balance
#print axioms SynKit.Reactor.explicitH_spectator_witness
#print axioms SynKit.Reactor.glue_rc_iso
#print axioms SynKit.Reactor.glue_meets_spec
#print axioms SynKit.Reactor.glue_meets_spec_full
#print axioms SynKit.Reactor.fullStatement_implicit_partial
#print axioms SynKit.Reactor.glue_specA_verdict

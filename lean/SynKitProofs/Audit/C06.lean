import SynKitProofs.Props.C06
#print axioms SynKit.SubgraphSearch.search_all_eq
#print axioms SynKit.SubgraphSearch.all_spec
#print axioms SynKit.SubgraphSearch.limit_all
#print axioms SynKit.SubgraphSearch.threshold_spec
#print axioms SynKit.SubgraphSearch.comp_sound
#print axioms SynKit.SubgraphSearch.comp_subset_all
#print axioms SynKit.SubgraphSearch.comp_eq_all_of_fewer
#print axioms SynKit.SubgraphSearch.bt_spec
#print axioms SynKit.SubgraphSearch.strict_guard
#print axioms SynKit.SubgraphSearch.limit_comp
#print axioms SynKit.SubgraphSearch.prefilter_spec
#print axioms SynKit.SubgraphSearch.comp_complete
#print axioms SynKit.Match.mem_allMonos
#print axioms SynKit.Match.allMonos_nodup

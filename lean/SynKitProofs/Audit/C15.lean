import SynKitProofs.Props.C15
#print axioms SynKit.Store.inv_reachable
#print axioms SynKit.Store.step_frame
#print axioms SynKit.Store.firstFree_fresh
#print axioms SynKit.Store.mkId_injective
#print axioms SynKit.Store.add_lookup_self
#print axioms SynKit.Store.add_lookup_other
#print axioms SynKit.Store.remove_lookup_other
#print axioms SynKit.Store.removeSpecies_lookup
#print axioms SynKit.Store.incidence_spec
#print axioms SynKit.Store.merge_edges
#print axioms SynKit.Store.addFromStr_spec
#print axioms SynKit.Store.addFromStr_parse_error
#print axioms SynKit.Store.parseRxns_spec
#print axioms SynKit.Store.parseRxns_only_appends
#print axioms SynKit.Store.parseRxnsRules_length_mismatch
#print axioms SynKit.Store.suffix_unparsed_example

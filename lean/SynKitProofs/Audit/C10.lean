import SynKitProofs.Props.C10
#print axioms SynKit.Repr.graphToMol_molToGraph
#print axioms SynKit.Repr.hToImplicit_hToExplicit
#print axioms SynKit.Repr.totalH_hToExplicit
#print axioms SynKit.Repr.totalH_roundtrip_partial
#print axioms SynKit.Repr.hasXH_false_iff
#print axioms SynKit.Gml.label_roundtrip
#print axioms SynKit.Gml.orderLabel_roundtrip
#print axioms SynKit.Gml.gml_roundtrip_partial
#print axioms SynKit.Gml.gml_two_ways_core
#print axioms SynKit.Gml.gml_two_ways_full_is_centre
#print axioms SynKit.Gml.gml_two_ways_centre_partial

import SynKitProofs.Props.C14
#print axioms SynKit.BatchCache.cache_transparent_if_pinned
#print axioms SynKit.BatchCache.cache_transparent_outs
#print axioms SynKit.BatchCache.cache_stale_witness
#print axioms SynKit.BatchCache.cache_zero_raises
#print axioms SynKit.BatchCache.batch_eq_single
#print axioms SynKit.BatchCache.worker_eq_single
#print axioms SynKit.BatchCache.freshAlloc_valid
#print axioms SynKit.BatchCache.lowestAlloc_valid
#print axioms SynKit.BatchCache.dedupe_order_stable
#print axioms SynKit.BatchCache.batched_cluster_eq_oneshot
#print axioms SynKit.BatchCache.batched_cluster_eq_oneshot_templates
#print axioms SynKit.BatchCache.oneshot_default_matcher_witness
#print axioms SynKit.BatchCache.parallel_map_eq
#print axioms SynKit.BatchCache.c14_full

import SynKitProofs.Props.C01
#print axioms SynKit.ITS.construct_nodes
#print axioms SynKit.ITS.construct_ids_nodup
#print axioms SynKit.ITS.construct_typesGH
#print axioms SynKit.ITS.construct_edges
#print axioms SynKit.ITS.construct_order
#print axioms SynKit.ITS.construct_standard_order
#print axioms SynKit.ITS.construct_wf
#print axioms SynKit.ITS.decompose_construct
#print axioms SynKit.ITS.construct_decompose
#print axioms SynKit.ITS.construct_relabel
#print axioms SynKit.ITS.construct_swap_nodes
#print axioms SynKit.ITS.construct_swap_typesGH
#print axioms SynKit.ITS.construct_swap_edges
#print axioms SynKit.ITS.construct_swap_standard_order
#print axioms SynKit.ITS.construct_swap
#print axioms SynKit.ITS.C01.graphStatement_holds

import SynKitProofs.Props.C12
#print axioms SynKit.Mcs.isCommonInduced_spelled
#print axioms SynKit.Mcs.closures_normalised
#print axioms SynKit.Mcs.mcs_valid
#print axioms SynKit.Mcs.mcs_same_size
#print axioms SynKit.Mcs.mcs_maximal
#print axioms SynKit.Mcs.mcs_all_of_max_size
#print axioms SynKit.Mcs.mcs_pruned_one_per_hostset
#print axioms SynKit.Mcs.directions_inverse
#print axioms SynKit.Mcs.orientation_swap_sound
#print axioms SynKit.Mcs.existsOfSize_iff
#print axioms SynKit.Mcs.C12.full

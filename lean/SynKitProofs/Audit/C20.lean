import SynKitProofs.Props.C20
#print axioms SynKit.Petri.minimalSets_spec
#print axioms SynKit.Petri.closure_predicates_spec
#print axioms SynKit.Petri.siphons_spec
#print axioms SynKit.Petri.traps_spec
#print axioms SynKit.Petri.siphons_traps_spec_unbounded
#print axioms SynKit.Petri.findSiphons_labels
#print axioms SynKit.Petri.enabled_spec
#print axioms SynKit.Petri.fire_spec
#print axioms SynKit.Petri.realizable_sound
#print axioms SynKit.Petri.certificate_check_sound
#print axioms SynKit.Petri.bfs_never_fuelOut
#print axioms SynKit.Petri.bfs_complete_partial
#print axioms SynKit.Petri.bfs_notFound_within_states
#print axioms SynKit.Petri.bfs_complete_within_bounds
#print axioms SynKit.Petri.bfs_complete_within_bounds_5a
#print axioms SynKit.Petri.bfs_never_unrealizable_within_bounds
#print axioms SynKit.Petri.bfs_complete_within_bounds_card

import SynKitProofs.Props.C08
#print axioms SynKit.Canon.canonBy_faithful
#print axioms SynKit.Canon.serialise_inj
#print axioms SynKit.Canon.signature_sound
#print axioms SynKit.Canon.signature_sound_digest
#print axioms SynKit.Canon.canonBrute_faithful
#print axioms SynKit.Canon.canonBrute_sound
#print axioms SynKit.Canon.canonBrute_invariant
#print axioms SynKit.Canon.canonBrute_covEq
#print axioms SynKit.Canon.valueobject_eq_iff
#print axioms SynKit.Canon.valueobject_exact_iff
#print axioms SynKit.Canon.synRule_eq_iff
#print axioms SynKit.Canon.canonicalGraph_eq_sound
#print axioms SynKit.Canon.fullStatement_model
#print axioms SynKit.Canon.spec_isRelabelling_iff

import SynKitProofs.Props.C07
import SynKitProofs.Props.C06
#print axioms SynKit.GME.cache_transparent
#print axioms SynKit.GME.get_mappings_valid
#print axioms SynKit.GME.get_mappings_nonempty_iff_contained_partial
#print axioms SynKit.GME.isomorphic_sound
#print axioms SynKit.GME.isomorphic_iff_partial
#print axioms SynKit.GME.isomorphic_false_of_size
#print axioms SynKit.GME.isomorphic_relabel
#print axioms SynKit.GME.isomorphic_symm
#print axioms SynKit.GME.subgraph_induced_iff
#print axioms SynKit.GME.subgraph_mono_iff
#print axioms SynKit.GME.subgraph_filter_irrelevant
#print axioms SynKit.GME.filter_sound_sub
#print axioms SynKit.GME.filter_sound_size
#print axioms SynKit.GME.filter_sound_wl_base
#print axioms SynKit.GME.preCheck_sound_partial
#print axioms SynKit.GME.wl_refined_sound
#print axioms SynKit.GME.preCheck_sound
#print axioms SynKit.GME.get_mappings_nonempty_iff_contained
#print axioms SynKit.GME.isomorphic_iff
#print axioms SynKit.GME.graph_isomorphism_iff
#print axioms SynKit.Match.isoDecide_iff
#print axioms SynKit.Match.mem_allInduced
#print axioms SynKit.Match.isoDecide_relabel_host
#print axioms SynKit.Match.isoDecide_relabel_pattern
#print axioms SynKit.Match.isoDecide_symm
#print axioms SynKit.Match.isoDecide_refl
-- find_graph_isomorphism and the certificate checkers for large inputs (SynKitModel/FindIso.lean)
#print axioms SynKit.GME.isIsoB_iff
#print axioms SynKit.GME.isInducedB_iff
#print axioms SynKit.GME.isMonoB_iff
#print axioms SynKit.GME.isomorphic_of_certificate
#print axioms SynKit.GME.get_mappings_of_certificate
#print axioms SynKit.GME.no_iso_of_invariants
#print axioms SynKit.GME.not_contained_of_invariants
#print axioms SynKit.GME.isomorphic_false_of_invariants
#print axioms SynKit.GME.find_iso_valid
#print axioms SynKit.GME.find_iso_iff
#print axioms SynKit.GME.find_iso_fast_irrelevant
#print axioms SynKit.GME.find_iso_of_certificate
#print axioms SynKit.GME.find_iso_none_of_invariants
-- the pre-filter clause of C07 ("turning any cheap pre-filter on or off never changes a result set")
-- for `_quick_pre_filter` of the subgraph search rests on the C06 theorems about the model's pre-filter
#print axioms SynKit.SubgraphSearch.prefilter_spec
#print axioms SynKit.SubgraphSearch.prefilter_zero_sound
#print axioms SynKit.SubgraphSearch.prefilter_zero_lossless
#print axioms SynKit.SubgraphSearch.prefilter_estimate_upper
#print axioms SynKit.SubgraphSearch.prefilter_fires_iff
#print axioms SynKit.SubgraphSearch.prefilter_sound_or_large

import SynKitProofs.Props.C11
#print axioms SynKit.Aut.aut_count_exact
#print axioms SynKit.Aut.orbits_exact
#print axioms SynKit.Aut.orbits_cover
#print axioms SynKit.Aut.components_spec
#print axioms SynKit.Aut.est_coarser_than_exact
#print axioms SynKit.Aut.aut_count_components
#print axioms SynKit.Aut.orbits_exact_components
#print axioms SynKit.Aut.aut_group
#print axioms SynKit.Aut.wl_coarsens
#print axioms SynKit.Aut.est_never_separates
#print axioms SynKit.Aut.dedup_sublist
#print axioms SynKit.Aut.dedup_nodup_sig
#print axioms SynKit.Aut.dedup_complete
#print axioms SynKit.Aut.dedup_id
#print axioms SynKit.Aut.dedup_merges_non_automorphic
#print axioms SynKit.Aut.C11.full_partial

import SynKitProofs.Props.C04
#print axioms SynKit.ReactorInv.subPatternB_iff
#print axioms SynKit.ReactorInv.id_isMono
#print axioms SynKit.ReactorInv.id_mem_allMonos
#print axioms SynKit.ReactorInv.own_template_regenerates_partial
#print axioms SynKit.ReactorInv.own_template_regenerates_all_partial
#print axioms SynKit.ReactorInv.own_template_backward_partial
#print axioms SynKit.ReactorInv.subPattern_of_subPatternOf
#print axioms SynKit.ReactorInv.id_mem_allMonos_subPatternOf
#print axioms SynKit.ReactorLink.glue_own_template_partial
#print axioms SynKit.ReactorInv.C04.glueRebuilds_concrete_partial
#print axioms SynKit.ReactorInv.C04.own_template_regenerates_concrete_partial

import SynKitProofs.Props.C16
import SynKitProofs.ViewsRawLemmas
#print axioms SynKit.Views.digits_roundtrip
#print axioms SynKit.Views.side_roundtrip
#print axioms SynKit.Views.side_roundtrip_perm
#print axioms SynKit.Views.wf_counterexample
#print axioms SynKit.Views.wf_counterexample_nonletter
#print axioms SynKit.Views.strings_roundtrip
#print axioms SynKit.Views.strings_roundtrip_multiset
#print axioms SynKit.Views.noIdClash_default
#print axioms SynKit.Views.bipartite_roundtrip
#print axioms SynKit.Views.bipartite_roundtrip_noid
#print axioms SynKit.Views.species_roundtrip
#print axioms SynKit.Views.species_roundtrip_mol
#print axioms SynKit.Views.C16.full
#print axioms SynKit.Views.ofBipartiteRaw_toRaw
#print axioms SynKit.Views.ofSpeciesGraphRaw_toRaw
#print axioms SynKit.Views.parseItemsFrom_plain

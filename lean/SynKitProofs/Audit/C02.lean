import SynKitProofs.Props.C02
#print axioms SynKit.ITS.mem_rc_edge_iff_std
#print axioms SynKit.ITS.mem_rc_edge_iff
#print axioms SynKit.ITS.rc_edge_labels
#print axioms SynKit.ITS.rc_nodes_eq_endpoints
#print axioms SynKit.ITS.rc_labels
#print axioms SynKit.ITS.getRc_idem
#print axioms SynKit.ITS.getRc_relabel
#print axioms SynKit.ITS.expand_iff_dist
#print axioms SynKit.ITS.extractK_zero
#print axioms SynKit.ITS.mem_extractK_iff_dist
#print axioms SynKit.ITS.context_chain
#print axioms SynKit.ITS.C02.fullStatement_holds

import SynKitProofs.Props.C19
#print axioms SynKit.Deficiency.complexes_spec
#print axioms SynKit.Deficiency.linkage_spec
#print axioms SynKit.Deficiency.weakrev_spec
#print axioms SynKit.Deficiency.deficiency_formula
#print axioms SynKit.Deficiency.linkage_deficiency_formula
#print axioms SynKit.Deficiency.summary_error_iff
#print axioms SynKit.Deficiency.fullStatement_partial
#print axioms SynKit.NetGraphAlg.labelling_spec
#print axioms SynKit.NetGraphAlg.components_spec
#print axioms SynKit.NetGraphAlg.reachSet_sound
#print axioms SynKit.NetGraphAlg.reachSet_complete_of_closed
#print axioms SynKit.NetGraphAlg.reachSet_closed_of_fuel
#print axioms SynKit.NetGraphAlg.stronglyConnected_iff

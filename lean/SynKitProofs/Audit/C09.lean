import SynKitProofs.Props.C09
#print axioms SynKit.RxnNorm.canonRxnWith_equiv
#print axioms SynKit.RxnNorm.canonRxn_equiv
#print axioms SynKit.RxnNorm.canonRxnWith_unpaired_no_collision
#print axioms SynKit.RxnNorm.canonRxnWith_unpaired_equiv
#print axioms SynKit.RxnNorm.canonRxn_numbering_indep
#print axioms SynKit.RxnNorm.canonRxn_fix
#print axioms SynKit.RxnNorm.canonOrder_atom_order_indep
#print axioms SynKit.RxnNorm.canonRxn_atom_order_indep
#print axioms SynKit.RxnNorm.aamCheck_iff_iso
#print axioms SynKit.RxnNorm.aamCheck_renumber
#print axioms SynKit.RxnNorm.balanced_iff
#print axioms SynKit.RxnNorm.standardize_idem
#print axioms SynKit.RxnNorm.standardize_perm
#print axioms SynKit.RxnNorm.standardize_rewrite
#print axioms SynKit.RxnNorm.C09.fullStatement

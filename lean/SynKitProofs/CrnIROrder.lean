import SynKitModel.CrnIR
import SynKitProofs.NautyIROrder
/-!
# Orders of the CRN individualisation–refinement model (C18)

The signature order `CrnSig.lt`, the order on matrix entries `crnBitLt` and the concrete label
order `CrnLabel.lt` are strict total orders.
-/
set_option linter.unusedSimpArgs false
set_option linter.unusedVariables false
namespace SynKit.CrnCanon
open SynKit
open SynKit.Canon (StrictTotal lexIte lexIte_strictTotal ltLex ltLex_strictTotal natLt natLt_strictTotal)

theorem CrnSig.ext' (a b : CrnSig) (h1 : a.attrs = b.attrs) (h2 : a.inDeg = b.inDeg) (h2' : a.outDeg = b.outDeg)
    (h3 : a.counts = b.counts) (h4 : a.edges = b.edges) : a = b := by
  cases a; cases b; simp_all

theorem CrnSig.lt_strictTotal : StrictTotal CrnSig.lt := by
  have h := lexIte_strictTotal Canon.Val.ltList
    (lexIte natLt (lexIte natLt (lexIte (ltLex natLt) (ltLex Canon.Val.ltList))))
    Canon.Val.ltList_strictTotal
    (lexIte_strictTotal natLt _ natLt_strictTotal
      (lexIte_strictTotal natLt _ natLt_strictTotal
        (lexIte_strictTotal _ _ (ltLex_strictTotal natLt natLt_strictTotal)
          (ltLex_strictTotal Canon.Val.ltList Canon.Val.ltList_strictTotal))))
  refine h.pullback (fun s : CrnSig => (s.attrs, s.inDeg, s.outDeg, s.counts, s.edges)) ?_ CrnSig.lt ?_
  · intro a b e
    simp only [Prod.mk.injEq] at e
    exact CrnSig.ext' a b e.1 e.2.1 e.2.2.1 e.2.2.2.1 e.2.2.2.2
  · intro a b
    simp only [CrnSig.lt, lexIte]

theorem crnBitLt_strictTotal : StrictTotal crnBitLt where
  irrefl a := by
    cases a with
    | diag => rfl
    | absent => rfl
    | present x => simp only [crnBitLt]; exact Canon.Val.ltList_strictTotal.irrefl x
  trans a b c := by
    cases a <;> cases b <;> cases c <;> simp only [crnBitLt]
    case present.present.present x y z => exact Canon.Val.ltList_strictTotal.trans x y z
    all_goals simp
  total a b := by
    cases a <;> cases b <;> simp only [crnBitLt]
    case present.present x y =>
      rcases Canon.Val.ltList_strictTotal.total x y with h | h | h
      · exact Or.inl h
      · exact Or.inr (Or.inl (by rw [h]))
      · exact Or.inr (Or.inr h)
    all_goals simp

theorem CrnLabel.lt_strictTotal : StrictTotal CrnLabel.lt := by
  refine StrictTotal.pullback
    (lexIte_strictTotal _ _ (ltLex_strictTotal _ Canon.Val.ltList_strictTotal)
      (ltLex_strictTotal _ (ltLex_strictTotal _ crnBitLt_strictTotal)))
    (fun s : CrnLabel => (s.nodes, s.rows)) ?_ CrnLabel.lt ?_
  · intro a b hab
    cases a
    cases b
    simp only [Prod.mk.injEq] at hab
    simp [hab.1, hab.2]
  · intro a b
    simp only [CrnLabel.lt, lexIte]

end SynKit.CrnCanon

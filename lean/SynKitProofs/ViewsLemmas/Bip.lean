import SynKitModel.Views
/-!
# Bipartite view: `import ∘ export` round trip (C16, bipartite view)

All helper lemmas live in `SynKit.Views.Bip`.

Architecture
* generic list / dict lemmas (insertion sort is a permutation, accumulation over distinct keys);
* `cleanGraph f N`: the explicit form of the exported graph, `toBipartite_clean`;
* the importer evaluated on a clean graph;
* the final theorems.
-/
namespace SynKit.Views.Bip
open SynKit SynKit.Views

/-! ## Generic: insertion sort -/

theorem insertBy_perm {α : Type} (le : α → α → Bool) (x : α) (l : List α) :
    (insertBy le x l).Perm (x :: l) := by
  induction l with
  | nil => exact List.Perm.refl _
  | cons y ys ih =>
    simp only [insertBy]
    split
    · exact (List.Perm.cons y ih).trans (List.Perm.swap x y ys)
    · exact List.Perm.refl _

theorem sortBy_perm {α : Type} (le : α → α → Bool) (l : List α) : (sortBy le l).Perm l := by
  induction l with
  | nil => exact List.Perm.refl _
  | cons x xs ih => exact (insertBy_perm le x _).trans (List.Perm.cons x ih)

/-! ## Generic: folds, finds, filters -/

theorem foldl_congr_mem {α β : Type} (f g : β → α → β) (l : List α) (b : β)
    (h : ∀ b, ∀ a ∈ l, f b a = g b a) : l.foldl f b = l.foldl g b := by
  induction l generalizing b with
  | nil => rfl
  | cons a l ih =>
    simp only [List.foldl_cons]
    rw [h b a (List.mem_cons_self ..)]
    exact ih _ (fun b a ha => h b a (List.mem_cons_of_mem _ ha))

theorem filter_flatMap_single {α β : Type} (p : β → Bool) (g : α → List β) (l : List α) (a : α)
    (hnd : l.Nodup) (ha : a ∈ l) (h : ∀ b ∈ l, b ≠ a → (g b).filter p = []) :
    (l.flatMap g).filter p = (g a).filter p := by
  induction l with
  | nil => cases ha
  | cons b l ih =>
    rw [List.nodup_cons] at hnd
    simp only [List.flatMap_cons, List.filter_append]
    rcases List.mem_cons.1 ha with rfl | ha'
    · have : (l.flatMap g).filter p = [] := by
        rw [List.filter_flatMap]
        apply List.flatMap_eq_nil_iff.2
        intro c hc
        apply h c (List.mem_cons_of_mem _ hc)
        rintro rfl; exact hnd.1 hc
      rw [this, List.append_nil]
    · have hb : b ≠ a := by rintro rfl; exact hnd.1 ha'
      rw [h b (List.mem_cons_self ..) hb, List.nil_append]
      exact ih hnd.2 ha' (fun c hc => h c (List.mem_cons_of_mem _ hc))

theorem find?_map_none {α : Type} (l : List α) (h : α → BNode) (x : NodeId)
    (hx : ∀ b ∈ l, (h b).id ≠ x) : (l.map h).find? (·.id = x) = none := by
  apply List.find?_eq_none.2
  intro n hn
  obtain ⟨b, hb, rfl⟩ := List.mem_map.1 hn
  simpa using hx b hb

theorem find?_map_some {α : Type} (l : List α) (h : α → BNode) (a : α) (ha : a ∈ l)
    (hinj : ∀ b ∈ l, (h b).id = (h a).id → b = a) :
    (l.map h).find? (·.id = (h a).id) = some (h a) := by
  induction l with
  | nil => cases ha
  | cons b l ih =>
    simp only [List.map_cons, List.find?_cons]
    by_cases hb : (h b).id = (h a).id
    · have := hinj b (List.mem_cons_self ..) hb
      subst this; simp
    · simp only [hb, decide_false]
      rcases List.mem_cons.1 ha with rfl | ha'
      · exact absurd rfl hb
      · exact ih ha' (fun c hc => hinj c (List.mem_cons_of_mem _ hc))

/-! ## Generic: dictionaries, accumulation -/

theorem set_of_not_mem {α : Type} (d : Dict α) (k : String) (v : α) (h : k ∉ d.keys) :
    d.set k v = d ++ [(k, v)] := by
  induction d with
  | nil => rfl
  | cons p rest ih =>
    obtain ⟨k', v'⟩ := p
    simp only [Dict.keys, List.map_cons, List.mem_cons, not_or] at h
    simp only [Dict.set, Ne.symm h.1, if_false, List.cons_append]
    rw [ih h.2]

theorem keys_append {α : Type} (a b : Dict α) : Dict.keys (a ++ b) = a.keys ++ b.keys := by
  simp [Dict.keys]

theorem accum_fresh (out : Side) (k : String) (c : Nat) (h : k ∉ out.keys) :
    accum out k c = out ++ [(k, c)] := by
  unfold accum Dict.getD
  rw [(Dict.get?_eq_none_iff out k).2 h, set_of_not_mem out k _ h]
  simp

theorem foldl_accum (l : Side) (acc : Side) (hnd : l.keys.Nodup)
    (hdisj : ∀ k ∈ l.keys, k ∉ acc.keys) :
    l.foldl (fun out kv => accum out kv.1 kv.2) acc = acc ++ l := by
  induction l generalizing acc with
  | nil => simp
  | cons kv l ih =>
    obtain ⟨k, c⟩ := kv
    simp only [Dict.keys, List.map_cons, List.nodup_cons, List.mem_cons, forall_eq_or_imp] at hnd hdisj
    simp only [List.foldl_cons]
    rw [accum_fresh acc k c hdisj.1, ih _ hnd.2]
    · simp
    · intro k' hk'
      rw [keys_append]
      simp only [Dict.keys, List.map_cons, List.map_nil, List.mem_append, List.mem_singleton, not_or]
      refine ⟨hdisj.2 k' hk', ?_⟩
      rintro rfl; exact hnd.1 hk'

theorem normSide_wf (m : Side) (h : WfSide m) : normSide m = m := by
  unfold normSide
  rw [foldl_congr_mem _ (fun out kv => accum out kv.1 kv.2) m []
    (fun b a ha => by simp [h.2 a ha])]
  rw [foldl_accum m [] h.1 (by simp [Dict.keys])]
  rfl


/-! ## Graph primitives: appending forms of the upserts -/

theorem upsertNode_fresh (ns : List BNode) (n : BNode) (h : ∀ m ∈ ns, m.id ≠ n.id) :
    upsertNode ns n = ns ++ [n] := by
  induction ns with
  | nil => rfl
  | cons m rest ih =>
    simp only [upsertNode, h m (List.mem_cons_self ..), if_false, List.cons_append]
    rw [ih (fun m' hm' => h m' (List.mem_cons_of_mem _ hm'))]

theorem upsertEdge_fresh (es : List BEdge) (x : BEdge)
    (h : ∀ m ∈ es, ¬ (m.src = x.src ∧ m.dst = x.dst)) : upsertEdge es x = es ++ [x] := by
  induction es with
  | nil => rfl
  | cons m rest ih =>
    simp only [upsertEdge, h m (List.mem_cons_self ..), if_false, List.cons_append]
    rw [ih (fun m' hm' => h m' (List.mem_cons_of_mem _ hm'))]

theorem foldl_upsertEdge_side (l : Side) (h : String → Nat → BEdge) (es : List BEdge)
    (hnd : l.keys.Nodup)
    (hfresh : ∀ kv ∈ l, ∀ m ∈ es, ¬ (m.src = (h kv.1 kv.2).src ∧ m.dst = (h kv.1 kv.2).dst))
    (hinj : ∀ a ∈ l, ∀ b ∈ l, (h a.1 a.2).src = (h b.1 b.2).src ∧ (h a.1 a.2).dst = (h b.1 b.2).dst →
      a.1 = b.1) :
    l.foldl (fun es kv => upsertEdge es (h kv.1 kv.2)) es = es ++ l.map (fun kv => h kv.1 kv.2) := by
  induction l generalizing es with
  | nil => simp
  | cons kv l ih =>
    simp only [Dict.keys, List.map_cons, List.nodup_cons] at hnd
    simp only [List.foldl_cons, List.map_cons]
    rw [upsertEdge_fresh es _ (hfresh kv (List.mem_cons_self ..)), ih _ hnd.2]
    · simp
    · intro b hb m hm
      rcases List.mem_append.1 hm with hm | hm
      · exact hfresh b (List.mem_cons_of_mem _ hb) m hm
      · rw [List.mem_singleton] at hm; subst hm
        intro hh
        have := hinj kv (List.mem_cons_self ..) b (List.mem_cons_of_mem _ hb) hh
        exact hnd.1 (this ▸ List.mem_map.2 ⟨b, hb, rfl⟩)
    · exact fun a ha b hb => hinj a (List.mem_cons_of_mem _ ha) b (List.mem_cons_of_mem _ hb)

/-! ## Positions and node-id assignment -/

def pos {α : Type} [DecidableEq α] (a : α) : List α → Nat
  | [] => 0
  | b :: l => if b = a then 0 else pos a l + 1

theorem pos_append_self {α : Type} [DecidableEq α] (pre post : List α) (a : α) (h : a ∉ pre) :
    pos a (pre ++ a :: post) = pre.length := by
  induction pre with
  | nil => simp [pos]
  | cons b pre ih =>
    simp only [List.mem_cons, not_or] at h
    simp [pos, Ne.symm h.1, ih h.2]

theorem pos_lt {α : Type} [DecidableEq α] (l : List α) (a : α) (h : a ∈ l) : pos a l < l.length := by
  induction l with
  | nil => cases h
  | cons b l ih =>
    simp only [pos, List.length_cons]
    split
    · omega
    · rename_i hb
      rcases List.mem_cons.1 h with rfl | h'
      · exact absurd rfl hb
      · have := ih h'; omega

theorem pos_inj {α : Type} [DecidableEq α] (l : List α) (a b : α) (ha : a ∈ l) (hb : b ∈ l)
    (h : pos a l = pos b l) : a = b := by
  induction l with
  | nil => cases ha
  | cons c l ih =>
    simp only [pos] at h
    by_cases hca : c = a <;> by_cases hcb : c = b
    · exact hca.symm.trans hcb
    · rw [if_pos hca, if_neg hcb] at h; omega
    · rw [if_neg hca, if_pos hcb] at h; omega
    · simp only [hca, hcb, if_false, Nat.add_right_cancel_iff] at h
      rcases List.mem_cons.1 ha with rfl | ha'
      · exact absurd rfl hca
      rcases List.mem_cons.1 hb with rfl | hb'
      · exact absurd rfl hcb
      exact ih ha' hb' h

theorem inj_of_nodup_map {α β : Type} (g : α → β) (l : List α) (h : (l.map g).Nodup)
    (a b : α) (ha : a ∈ l) (hb : b ∈ l) (hab : g a = g b) : a = b := by
  induction l with
  | nil => cases ha
  | cons c l ih =>
    simp only [List.map_cons, List.nodup_cons, List.mem_map, not_exists, not_and] at h
    rcases List.mem_cons.1 ha with rfl | ha' <;> rcases List.mem_cons.1 hb with rfl | hb'
    · rfl
    · exact absurd hab.symm (h.1 b hb')
    · exact absurd hab (h.1 a ha')
    · exact ih h.2 ha' hb'

theorem nodup_of_nodup_map {α β : Type} (g : α → β) (l : List α) (h : (l.map g).Nodup) :
    l.Nodup := by
  induction l with
  | nil => exact List.nodup_nil
  | cons c l ih =>
    simp only [List.map_cons, List.nodup_cons] at h ⊢
    exact ⟨fun hc => h.1 (List.mem_map.2 ⟨c, hc, rfl⟩), ih h.2⟩

theorem withPrefix_inj (p : Option String) (a b : String) (h : withPrefix p a = withPrefix p b) :
    a = b := by
  cases p with
  | none => exact h
  | some p =>
    simp only [withPrefix] at h
    have := congrArg String.toList h
    rw [String.toList_append, String.toList_append] at this
    exact String.toList_inj.1 (List.append_cancel_left this)

/-- node id of species `s` (`sps` = the species in export order) -/
def sid (f : BipFlags) (sps : List String) (s : String) : NodeId :=
  if f.integerIds then .int (pos s sps + 1) else .str (withPrefix f.speciesPrefix s)

/-- node id of reaction `e` (`rs` = the reactions in export order, `n` species) -/
def rid (f : BipFlags) (n : Nat) (rs : List Rxn) (e : Rxn) : NodeId :=
  if f.integerIds then .int (n + pos e rs + 1) else .str (withPrefix f.reactionPrefix e.id)

theorem sid_inj (f : BipFlags) (sps : List String) (a b : String) (ha : a ∈ sps) (hb : b ∈ sps)
    (h : sid f sps a = sid f sps b) : a = b := by
  unfold sid at h
  split at h
  · simp only [NodeId.int.injEq, Nat.add_right_cancel_iff] at h
    exact pos_inj sps a b ha hb h
  · simp only [NodeId.str.injEq] at h
    exact withPrefix_inj _ _ _ h

theorem rid_inj (f : BipFlags) (n : Nat) (rs : List Rxn) (hid : (rs.map (·.id)).Nodup)
    (a b : Rxn) (ha : a ∈ rs) (hb : b ∈ rs) (h : rid f n rs a = rid f n rs b) : a = b := by
  unfold rid at h
  split at h
  · simp only [NodeId.int.injEq] at h
    exact pos_inj rs a b ha hb (by omega)
  · simp only [NodeId.str.injEq] at h
    have h' := withPrefix_inj _ _ _ h
    exact inj_of_nodup_map _ rs hid a b ha hb h'

theorem sid_ne_rid (f : BipFlags) (sps : List String) (rs : List Rxn)
    (hc : f.integerIds = true ∨
      ∀ s ∈ sps, ∀ e ∈ rs, withPrefix f.speciesPrefix s ≠ withPrefix f.reactionPrefix e.id)
    (s : String) (hs : s ∈ sps) (e : Rxn) (he : e ∈ rs) :
    sid f sps s ≠ rid f sps.length rs e := by
  unfold sid rid
  by_cases hi : f.integerIds = true
  · simp only [hi, if_true, ne_eq, NodeId.int.injEq]
    have := pos_lt sps s hs
    omega
  · rw [if_neg hi, if_neg hi]
    simp only [ne_eq, NodeId.str.injEq]
    rcases hc with hc | hc
    · exact absurd hc hi
    · exact hc s hs e he


/-! ## The clean form of the exported graph -/

def spNode (f : BipFlags) (N : Net) (sd : String → NodeId) (s : String) : BNode :=
  spAttrs f N (sd s) s
def rxNode (f : BipFlags) (rd : Rxn → NodeId) (e : Rxn) : BNode := rxAttrs f (rd e) e
def rArcs (f : BipFlags) (sd : String → NodeId) (rd : Rxn → NodeId) (e : Rxn) : List BEdge :=
  e.reactants.map (fun kv => mkEdge f (sd kv.1) (rd e) kv.2 .reactant)
def pArcs (f : BipFlags) (sd : String → NodeId) (rd : Rxn → NodeId) (e : Rxn) : List BEdge :=
  e.products.map (fun kv => mkEdge f (rd e) (sd kv.1) kv.2 .product)
def arcsOf (f : BipFlags) (sd : String → NodeId) (rd : Rxn → NodeId) (e : Rxn) : List BEdge :=
  rArcs f sd rd e ++ pArcs f sd rd e

def cleanGraph (f : BipFlags) (N : Net) (sps : List String) (rs : List Rxn)
    (sd : String → NodeId) (rd : Rxn → NodeId) : BGraph :=
  { nodes := sps.map (spNode f N sd) ++ rs.map (rxNode f rd),
    edges := rs.flatMap (arcsOf f sd rd) }

theorem get?_map_self {α : Type} (l : List String) (g : String → α) (s : String) (h : s ∈ l) :
    Dict.get? (l.map (fun s => (s, g s))) s = some (g s) := by
  induction l with
  | nil => cases h
  | cons a l ih =>
    simp only [List.map_cons, Dict.get?]
    by_cases ha : a = s
    · simp [ha]
    · rw [if_neg ha]
      rcases List.mem_cons.1 h with rfl | h'
      · exact absurd rfl ha
      · exact ih h'

theorem get?_map_none {α : Type} (l : List String) (g : String → α) (s : String) (h : s ∉ l) :
    Dict.get? (l.map (fun s => (s, g s))) s = none := by
  rw [Dict.get?_eq_none_iff]
  simpa [Dict.keys] using h

theorem addSpNode_lookup (f : BipFlags) (N : Net) (st : ExpSt) (s : String) (nid : NodeId)
    (h : st.spMap.get? s = some nid) : addSpNode f N st s = (st, nid) := by
  unfold addSpNode
  rw [h]

/-- exporter state after the species in `pre` -/
def spState (f : BipFlags) (N : Net) (sps : List String) (pre : List String) : ExpSt :=
  { g := { nodes := pre.map (spNode f N (sid f sps)), edges := [] },
    spMap := pre.map (fun s => (s, sid f sps s)),
    next := if f.integerIds then pre.length + 1 else 1 }

theorem addSpNode_spState (f : BipFlags) (N : Net) (sps pre post : List String) (s : String)
    (hnd : sps.Nodup) (h : sps = pre ++ s :: post) :
    (addSpNode f N (spState f N sps pre) s).1 = spState f N sps (pre ++ [s]) := by
  have hs : s ∉ pre := by
    rw [h, List.nodup_append] at hnd
    intro hp; exact hnd.2.2 s hp s (List.mem_cons_self ..) rfl
  have hsm : s ∈ sps := by rw [h]; simp
  have hget : (spState f N sps pre).spMap.get? s = none := get?_map_none _ _ _ hs
  have hsid : (if f.integerIds then NodeId.int (spState f N sps pre).next
      else NodeId.str (withPrefix f.speciesPrefix s)) = sid f sps s := by
    unfold sid spState
    split
    · rw [h, pos_append_self pre post s hs]
    · rfl
  have hno : (spState f N sps pre).g.hasNode (sid f sps s) = false := by
    unfold BGraph.hasNode spState
    simp only [List.any_map, List.any_eq_false, Function.comp, decide_eq_true_eq]
    intro x hx hh
    have hxs : x ∈ sps := by rw [h]; simp [hx]
    have := sid_inj f sps x s hxs hsm hh
    exact hs (this ▸ hx)
  unfold addSpNode
  simp only [hget, hsid, hno]
  unfold spState
  simp only [Bool.false_eq_true, if_false, List.map_append, List.map_cons, List.map_nil,
    List.length_append, List.length_cons, List.length_nil, spNode]
  congr 1
  split <;> rfl

theorem species_phase (f : BipFlags) (N : Net) (sps : List String) (hnd : sps.Nodup) :
    ∀ (post pre : List String), sps = pre ++ post →
      post.foldl (fun st s => (addSpNode f N st s).1) (spState f N sps pre) =
        spState f N sps sps := by
  intro post
  induction post with
  | nil => intro pre h; simp at h; subst h; rfl
  | cons s post ih =>
    intro pre h
    simp only [List.foldl_cons]
    rw [addSpNode_spState f N sps pre post s hnd h]
    exact ih (pre ++ [s]) (by simp [h])


/-! ### Abstract id assignment and arc facts -/

structure Ids (sps : List String) (rs : List Rxn) (sd : String → NodeId) (rd : Rxn → NodeId) :
    Prop where
  sidInj : ∀ a ∈ sps, ∀ b ∈ sps, sd a = sd b → a = b
  ridInj : ∀ a ∈ rs, ∀ b ∈ rs, rd a = rd b → a = b
  disj : ∀ s ∈ sps, ∀ e ∈ rs, sd s ≠ rd e
  sup : ∀ e ∈ rs, ∀ s ∈ e.speciesOf, s ∈ sps

theorem mem_rArcs_ends {f : BipFlags} {sd : String → NodeId} {rd : Rxn → NodeId} {e : Rxn}
    {m : BEdge} (h : m ∈ rArcs f sd rd e) :
    m.dst = rd e ∧ ∃ s ∈ e.reactants.keys, m.src = sd s := by
  obtain ⟨kv, hkv, rfl⟩ := List.mem_map.1 h
  exact ⟨rfl, kv.1, List.mem_map.2 ⟨kv, hkv, rfl⟩, rfl⟩

theorem mem_pArcs_ends {f : BipFlags} {sd : String → NodeId} {rd : Rxn → NodeId} {e : Rxn}
    {m : BEdge} (h : m ∈ pArcs f sd rd e) :
    m.src = rd e ∧ ∃ s ∈ e.products.keys, m.dst = sd s := by
  obtain ⟨kv, hkv, rfl⟩ := List.mem_map.1 h
  exact ⟨rfl, kv.1, List.mem_map.2 ⟨kv, hkv, rfl⟩, rfl⟩

section ids
variable {f : BipFlags} {sps : List String} {rs : List Rxn} {sd : String → NodeId}
  {rd : Rxn → NodeId}

theorem Ids.mem_r (I : Ids sps rs sd rd) {e : Rxn} (he : e ∈ rs) {s : String}
    (hs : s ∈ e.reactants.keys) : s ∈ sps :=
  I.sup e he s (List.mem_append_left _ hs)

theorem Ids.mem_p (I : Ids sps rs sd rd) {e : Rxn} (he : e ∈ rs) {s : String}
    (hs : s ∈ e.products.keys) : s ∈ sps :=
  I.sup e he s (List.mem_append_right _ hs)

theorem rArcs_src_ne (I : Ids sps rs sd rd) {e' e : Rxn} (he' : e' ∈ rs) (he : e ∈ rs)
    {m : BEdge} (hm : m ∈ rArcs f sd rd e') : m.src ≠ rd e := by
  obtain ⟨_, s, hs, h2⟩ := mem_rArcs_ends hm
  rw [h2]; exact I.disj s (I.mem_r he' hs) e he

theorem pArcs_dst_ne (I : Ids sps rs sd rd) {e' e : Rxn} (he' : e' ∈ rs) (he : e ∈ rs)
    {m : BEdge} (hm : m ∈ pArcs f sd rd e') : m.dst ≠ rd e := by
  obtain ⟨_, s, hs, h2⟩ := mem_pArcs_ends hm
  rw [h2]; exact I.disj s (I.mem_p he' hs) e he

theorem arcs_dst_ne (I : Ids sps rs sd rd) {e' e : Rxn} (he' : e' ∈ rs) (he : e ∈ rs)
    (hne : e' ≠ e) {m : BEdge} (hm : m ∈ arcsOf f sd rd e') : m.dst ≠ rd e := by
  rcases List.mem_append.1 hm with hm | hm
  · rw [(mem_rArcs_ends hm).1]; exact fun h => hne (I.ridInj e' he' e he h)
  · exact pArcs_dst_ne I he' he hm

theorem arcs_src_ne (I : Ids sps rs sd rd) {e' e : Rxn} (he' : e' ∈ rs) (he : e ∈ rs)
    (hne : e' ≠ e) {m : BEdge} (hm : m ∈ arcsOf f sd rd e') : m.src ≠ rd e := by
  rcases List.mem_append.1 hm with hm | hm
  · exact rArcs_src_ne I he' he hm
  · rw [(mem_pArcs_ends hm).1]; exact fun h => hne (I.ridInj e' he' e he h)

end ids

/-! ### Reaction phase of the exporter -/

def stepE (f : BipFlags) (N : Net) (mk : NodeId → Nat → BEdge) (st : ExpSt) (kv : String × Nat) :
    ExpSt :=
  let r := addSpNode f N st kv.1
  { r.1 with g := { r.1.g with edges := upsertEdge r.1.g.edges (mk r.2 kv.2) } }

theorem addRxn_eq (f : BipFlags) (N : Net) (st : ExpSt) (e : Rxn) :
    addRxn f N st e =
      e.products.foldl (stepE f N (fun v c => mkEdge f (addRxnNode f st e).2 v c .product))
        (e.reactants.foldl (stepE f N (fun u c => mkEdge f u (addRxnNode f st e).2 c .reactant))
          (addRxnNode f st e).1) := rfl

theorem fold_stepE (f : BipFlags) (N : Net) (mk : NodeId → Nat → BEdge) (g : String → NodeId)
    (l : Side) (st : ExpSt) (hlook : ∀ kv ∈ l, st.spMap.get? kv.1 = some (g kv.1)) :
    l.foldl (stepE f N mk) st =
      { g := { nodes := st.g.nodes,
               edges := l.foldl (fun es kv => upsertEdge es (mk (g kv.1) kv.2)) st.g.edges },
        spMap := st.spMap, next := st.next } := by
  induction l generalizing st with
  | nil => rfl
  | cons kv l ih =>
    simp only [List.foldl_cons]
    have h1 : stepE f N mk st kv =
        { g := { nodes := st.g.nodes, edges := upsertEdge st.g.edges (mk (g kv.1) kv.2) },
          spMap := st.spMap, next := st.next } := by
      unfold stepE
      rw [addSpNode_lookup f N st kv.1 _ (hlook kv (List.mem_cons_self ..))]
    rw [h1]
    exact ih (ExpSt.mk ⟨st.g.nodes, upsertEdge st.g.edges (mk (g kv.1) kv.2)⟩ st.spMap st.next)
      (fun kv' h' => hlook kv' (List.mem_cons_of_mem _ h'))

/-- exporter state after the species phase and the reactions in `pre` -/
def rxState (f : BipFlags) (N : Net) (sps : List String) (rs : List Rxn) (pre : List Rxn) : ExpSt :=
  { g := { nodes := sps.map (spNode f N (sid f sps)) ++ pre.map (rxNode f (rid f sps.length rs)),
           edges := pre.flatMap (arcsOf f (sid f sps) (rid f sps.length rs)) },
    spMap := sps.map (fun s => (s, sid f sps s)),
    next := if f.integerIds then sps.length + pre.length + 1 else 1 }

theorem rxState_nil (f : BipFlags) (N : Net) (sps : List String) (rs : List Rxn) :
    rxState f N sps rs [] = spState f N sps sps := by
  simp [rxState, spState]


theorem addRxnNode_rxState (f : BipFlags) (N : Net) (sps : List String) (rs pre post : List Rxn)
    (e : Rxn) (I : Ids sps rs (sid f sps) (rid f sps.length rs)) (hnd : rs.Nodup)
    (h : rs = pre ++ e :: post) :
    addRxnNode f (rxState f N sps rs pre) e =
      (ExpSt.mk ⟨sps.map (spNode f N (sid f sps)) ++ (pre ++ [e]).map (rxNode f (rid f sps.length rs)),
          pre.flatMap (arcsOf f (sid f sps) (rid f sps.length rs))⟩
        (sps.map (fun s => (s, sid f sps s)))
        (if f.integerIds then sps.length + (pre ++ [e]).length + 1 else 1),
       rid f sps.length rs e) := by
  have he : e ∈ rs := by rw [h]; simp
  have hpre : ∀ e' ∈ pre, e' ∈ rs := fun e' h' => by rw [h]; simp [h']
  have hepre : e ∉ pre := by
    rw [h, List.nodup_append] at hnd
    intro hp; exact hnd.2.2 e hp e (List.mem_cons_self ..) rfl
  have hnid : (if f.integerIds then NodeId.int (rxState f N sps rs pre).next
      else NodeId.str (withPrefix f.reactionPrefix e.id)) = rid f sps.length rs e := by
    unfold rid rxState
    split
    · simp only
      conv => rhs; rw [h, pos_append_self pre post e hepre]
    · rfl
  have hfresh : ∀ m ∈ (rxState f N sps rs pre).g.nodes,
      m.id ≠ (rxAttrs f (rid f sps.length rs e) e).id := by
    intro m hm
    simp only [rxState, List.mem_append, List.mem_map] at hm
    rcases hm with ⟨s, hs, rfl⟩ | ⟨e', he', rfl⟩
    · exact I.disj s hs e he
    · intro hh
      have := I.ridInj e' (hpre e' he') e he hh
      exact hepre (this ▸ he')
  simp only [addRxnNode, hnid]
  rw [upsertNode_fresh _ _ hfresh]
  simp only [rxState, List.map_append, List.map_cons, List.map_nil, List.append_assoc,
    List.length_append, List.length_cons, List.length_nil, rxNode]
  congr 2
  split <;> simp <;> omega


theorem fold_side (f : BipFlags) (N : Net) (mk : NodeId → Nat → BEdge) (g : String → NodeId)
    (l : Side) (st : ExpSt) (hlook : ∀ kv ∈ l, st.spMap.get? kv.1 = some (g kv.1))
    (hnd : l.keys.Nodup)
    (hfresh : ∀ kv ∈ l, ∀ m ∈ st.g.edges,
      ¬ (m.src = (mk (g kv.1) kv.2).src ∧ m.dst = (mk (g kv.1) kv.2).dst))
    (hinj : ∀ a ∈ l, ∀ b ∈ l, (mk (g a.1) a.2).src = (mk (g b.1) b.2).src ∧
      (mk (g a.1) a.2).dst = (mk (g b.1) b.2).dst → a.1 = b.1) :
    l.foldl (stepE f N mk) st =
      ExpSt.mk ⟨st.g.nodes, st.g.edges ++ l.map (fun kv => mk (g kv.1) kv.2)⟩ st.spMap st.next := by
  rw [fold_stepE f N mk g l st hlook]
  have := foldl_upsertEdge_side l (fun s c => mk (g s) c) st.g.edges hnd hfresh hinj
  rw [this]

theorem addRxn_rxState (f : BipFlags) (N : Net) (sps : List String) (rs pre post : List Rxn)
    (e : Rxn) (I : Ids sps rs (sid f sps) (rid f sps.length rs)) (hnd : rs.Nodup)
    (hsides : ∀ e ∈ rs, e.reactants.keys.Nodup ∧ e.products.keys.Nodup)
    (h : rs = pre ++ e :: post) :
    addRxn f N (rxState f N sps rs pre) e = rxState f N sps rs (pre ++ [e]) := by
  have he : e ∈ rs := by rw [h]; simp
  have hpre : ∀ e' ∈ pre, e' ∈ rs := fun e' h' => by rw [h]; simp [h']
  have hepre : e ∉ pre := by
    rw [h, List.nodup_append] at hnd
    intro hp; exact hnd.2.2 e hp e (List.mem_cons_self ..) rfl
  have hne : ∀ e' ∈ pre, e' ≠ e := fun e' h' h'' => hepre (h'' ▸ h')
  rw [addRxn_eq, addRxnNode_rxState f N sps rs pre post e I hnd h]
  simp only []
  rw [fold_side f N _ (sid f sps) e.reactants _ ?look1 (hsides e he).1 ?fresh1 ?inj1]
  rw [fold_side f N _ (sid f sps) e.products _ ?look2 (hsides e he).2 ?fresh2 ?inj2]
  · simp only [rxState, List.flatMap_append, List.flatMap_cons, List.flatMap_nil, List.append_nil,
      arcsOf, rArcs, pArcs, List.append_assoc]
  case look1 =>
    intro kv hkv
    exact get?_map_self sps _ kv.1 (I.mem_r he (List.mem_map.2 ⟨kv, hkv, rfl⟩))
  case look2 =>
    intro kv hkv
    exact get?_map_self sps _ kv.1 (I.mem_p he (List.mem_map.2 ⟨kv, hkv, rfl⟩))
  case fresh1 =>
    intro kv hkv m hm hh
    obtain ⟨e', he', hm'⟩ := List.mem_flatMap.1 hm
    exact arcs_dst_ne I (hpre e' he') he (hne e' he') hm' hh.2
  case inj1 =>
    intro a ha b hb hh
    exact I.sidInj a.1 (I.mem_r he (List.mem_map.2 ⟨a, ha, rfl⟩)) b.1
      (I.mem_r he (List.mem_map.2 ⟨b, hb, rfl⟩)) hh.1
  case fresh2 =>
    intro kv hkv m hm hh
    rcases List.mem_append.1 hm with hm | hm
    · obtain ⟨e', he', hm'⟩ := List.mem_flatMap.1 hm
      exact arcs_src_ne I (hpre e' he') he (hne e' he') hm' hh.1
    · exact rArcs_src_ne (f := f) I he he hm hh.1
  case inj2 =>
    intro a ha b hb hh
    exact I.sidInj a.1 (I.mem_p he (List.mem_map.2 ⟨a, ha, rfl⟩)) b.1
      (I.mem_p he (List.mem_map.2 ⟨b, hb, rfl⟩)) hh.2

theorem reaction_phase (f : BipFlags) (N : Net) (sps : List String) (rs : List Rxn)
    (I : Ids sps rs (sid f sps) (rid f sps.length rs)) (hnd : rs.Nodup)
    (hsides : ∀ e ∈ rs, e.reactants.keys.Nodup ∧ e.products.keys.Nodup) :
    ∀ (post pre : List Rxn), rs = pre ++ post →
      post.foldl (addRxn f N) (rxState f N sps rs pre) = rxState f N sps rs rs := by
  intro post
  induction post with
  | nil => intro pre h; simp at h; subst h; rfl
  | cons e post ih =>
    intro pre h
    simp only [List.foldl_cons]
    rw [addRxn_rxState f N sps rs pre post e I hnd hsides h]
    exact ih (pre ++ [e]) (by simp [h])


/-! ### The exported graph is clean -/

theorem mem_speciesIter (f : BipFlags) (N : Net) (s : String) :
    s ∈ speciesIter f N ↔
      s ∈ N.species ∧ (f.includeIsolated = true ∨ s ∈ N.rxnSpecies) := by
  unfold speciesIter sortStrs
  split
  · rename_i h; rw [(sortBy_perm _ _).mem_iff]; simp [h]
  · rename_i h; rw [(sortBy_perm _ _).mem_iff]; simp [h]

theorem speciesIter_nodup (f : BipFlags) (N : Net) (hN : WfNet N) : (speciesIter f N).Nodup := by
  unfold speciesIter sortStrs
  split
  · exact (sortBy_perm _ _).nodup_iff.2 hN.speciesNodup
  · exact (sortBy_perm _ _).nodup_iff.2 (hN.speciesNodup.filter _)

theorem speciesIter_sup (f : BipFlags) (N : Net) (hN : WfNet N) (s : String)
    (hs : s ∈ N.rxnSpecies) : s ∈ speciesIter f N :=
  (mem_speciesIter f N s).2 ⟨hN.speciesSup s hs, Or.inr hs⟩

theorem sortRxns_perm (l : List Rxn) : (sortRxns l).Perm l := sortBy_perm _ _

theorem ids_concrete (f : BipFlags) (N : Net) (hN : WfNet N) (hc : NoIdClash f N) :
    Ids (speciesIter f N) (sortRxns N.rxns) (sid f (speciesIter f N))
      (rid f (speciesIter f N).length (sortRxns N.rxns)) where
  sidInj := fun a ha b hb h => sid_inj f _ a b ha hb h
  ridInj := fun a ha b hb h =>
    rid_inj f _ _ (((sortRxns_perm N.rxns).map _).nodup_iff.2 hN.idsNodup) a b ha hb h
  disj := by
    apply sid_ne_rid
    rcases hc with hc | hc
    · exact Or.inl hc
    · exact Or.inr (fun s hs e he => hc s ((mem_speciesIter f N s).1 hs).1 e
        ((sortRxns_perm N.rxns).mem_iff.1 he))
  sup := fun e he s hs => speciesIter_sup f N hN s
    (List.mem_flatMap.2 ⟨e, (sortRxns_perm N.rxns).mem_iff.1 he, hs⟩)

theorem sortRxns_nodup (N : Net) (hN : WfNet N) : (sortRxns N.rxns).Nodup :=
  (sortRxns_perm N.rxns).nodup_iff.2 (nodup_of_nodup_map _ _ hN.idsNodup)

theorem toBipartite_clean (f : BipFlags) (N : Net) (hN : WfNet N) (hc : NoIdClash f N) :
    toBipartite f N = cleanGraph f N (speciesIter f N) (sortRxns N.rxns)
      (sid f (speciesIter f N)) (rid f (speciesIter f N).length (sortRxns N.rxns)) := by
  unfold toBipartite
  have h0 : ({} : ExpSt) = spState f N (speciesIter f N) [] := by
    simp [spState]
  simp only []
  rw [h0, species_phase f N _ (speciesIter_nodup f N hN) (speciesIter f N) [] rfl,
    ← rxState_nil f N _ (sortRxns N.rxns),
    reaction_phase f N _ _ (ids_concrete f N hN hc) (sortRxns_nodup N hN) ?_ (sortRxns N.rxns) [] rfl]
  · rfl
  · intro e he
    have := hN.sides e ((sortRxns_perm N.rxns).mem_iff.1 he)
    exact ⟨this.1.1, this.2.1⟩


/-! ## The importer on a clean graph -/

section importer
variable {f : BipFlags} {N : Net} {sps : List String} {rs : List Rxn} {sd : String → NodeId}
  {rd : Rxn → NodeId}

theorem clean_speciesFilter :
    (cleanGraph f N sps rs sd rd).nodes.filter (·.kind = .species) = sps.map (spNode f N sd) := by
  unfold cleanGraph
  simp only [List.filter_append]
  rw [List.filter_eq_self.2, List.filter_eq_nil_iff.2, List.append_nil]
  · intro n hn; obtain ⟨e, _, rfl⟩ := List.mem_map.1 hn; simp [rxNode, rxAttrs]
  · intro n hn; obtain ⟨s, _, rfl⟩ := List.mem_map.1 hn; simp [spNode, spAttrs]

theorem clean_reactionFilter :
    (cleanGraph f N sps rs sd rd).nodes.filter (·.kind = .reaction) = rs.map (rxNode f rd) := by
  unfold cleanGraph
  simp only [List.filter_append]
  rw [List.filter_eq_nil_iff.2, List.filter_eq_self.2, List.nil_append]
  · intro n hn; obtain ⟨e, _, rfl⟩ := List.mem_map.1 hn; simp [rxNode, rxAttrs]
  · intro n hn; obtain ⟨s, _, rfl⟩ := List.mem_map.1 hn; simp [spNode, spAttrs]

theorem clean_speciesNodes :
    ((cleanGraph f N sps rs sd rd).nodes.filter (·.kind = .species)).map (·.id) = sps.map sd := by
  rw [clean_speciesFilter, List.map_map]; rfl

theorem clean_reactionNodes :
    ((cleanGraph f N sps rs sd rd).nodes.filter (·.kind = .reaction)).map (·.id) = rs.map rd := by
  rw [clean_reactionFilter, List.map_map]; rfl

theorem clean_node_sp (I : Ids sps rs sd rd) (s : String) (hs : s ∈ sps) :
    (cleanGraph f N sps rs sd rd).node? (sd s) = some (spNode f N sd s) := by
  unfold BGraph.node? cleanGraph
  rw [List.find?_append]
  have := find?_map_some sps (spNode f N sd) s hs (fun b hb h => I.sidInj b hb s hs h)
  rw [show (spNode f N sd s).id = sd s from rfl] at this
  rw [this]; rfl

theorem clean_node_rx (I : Ids sps rs sd rd) (e : Rxn) (he : e ∈ rs) :
    (cleanGraph f N sps rs sd rd).node? (rd e) = some (rxNode f rd e) := by
  unfold BGraph.node? cleanGraph
  rw [List.find?_append]
  rw [find?_map_none sps (spNode f N sd) (rd e) (fun b hb => I.disj b hb e he)]
  have := find?_map_some rs (rxNode f rd) e he (fun b hb h => I.ridInj b hb e he h)
  rw [show (rxNode f rd e).id = rd e from rfl] at this
  rw [this]; rfl

theorem clean_inArcs (I : Ids sps rs sd rd) (hrs : rs.Nodup) (e : Rxn) (he : e ∈ rs) :
    (cleanGraph f N sps rs sd rd).edges.filter (·.dst = rd e) = rArcs f sd rd e := by
  unfold cleanGraph
  simp only
  rw [filter_flatMap_single _ _ rs e hrs he]
  · unfold arcsOf
    rw [List.filter_append, List.filter_eq_self.2, List.filter_eq_nil_iff.2, List.append_nil]
    · intro m hm; simpa using pArcs_dst_ne I he he hm
    · intro m hm; simpa using (mem_rArcs_ends hm).1
  · intro b hb hne
    apply List.filter_eq_nil_iff.2
    intro m hm; simpa using arcs_dst_ne I hb he hne hm

theorem clean_outArcs (I : Ids sps rs sd rd) (hrs : rs.Nodup) (e : Rxn) (he : e ∈ rs) :
    (cleanGraph f N sps rs sd rd).edges.filter (·.src = rd e) = pArcs f sd rd e := by
  unfold cleanGraph
  simp only
  rw [filter_flatMap_single _ _ rs e hrs he]
  · unfold arcsOf
    rw [List.filter_append, List.filter_eq_nil_iff.2, List.filter_eq_self.2, List.nil_append]
    · intro m hm; simpa using (mem_pArcs_ends hm).1
    · intro m hm; simpa using rArcs_src_ne I he he hm
  · intro b hb hne
    apply List.filter_eq_nil_iff.2
    intro m hm; simpa using arcs_src_ne I hb he hne hm

theorem sideOfArcs_side (G : BGraph) (spNodes : List NodeId) (g : String → NodeId)
    (st : Nat → Option Nat) (l : Side) (hl : l.keys.Nodup)
    (hmem : ∀ kv ∈ l, g kv.1 ∈ spNodes)
    (hnode : ∀ kv ∈ l, ∃ n, G.node? (g kv.1) = some n ∧ n.label = kv.1)
    (hst : ∀ kv ∈ l, (st kv.2).getD 1 = kv.2) :
    sideOfArcs G spNodes (l.map (fun kv => (g kv.1, st kv.2))) = l := by
  unfold sideOfArcs
  rw [List.foldl_map]
  rw [foldl_congr_mem _ (fun out kv => accum out kv.1 kv.2) l []]
  · rw [foldl_accum l [] hl (by simp [Dict.keys])]; rfl
  · intro b kv hkv
    obtain ⟨n, hn, hlab⟩ := hnode kv hkv
    simp only [hmem kv hkv, if_true, hn, hlab, hst kv hkv]


/-- what the importer collects for the node of reaction `e` -/
def rawOf (f : BipFlags) (rd : Rxn → NodeId) (e : Rxn) : RawRxn :=
  { rnode := rd e, reactants := e.reactants, products := e.products,
    eid := if f.includeEdgeIdAttr then some e.id else none, rule := e.rule }

theorem stoich_getD {c : Nat} (hst : f.includeStoich = true ∨ c = 1) :
    ((if f.includeStoich then some c else none : Option Nat)).getD 1 = c := by
  rcases hst with h | h
  · simp [h]
  · subst h; split <;> rfl

theorem clean_rawOfNode (I : Ids sps rs sd rd) (hrs : rs.Nodup)
    (hsides : ∀ e ∈ rs, WfSide e.reactants ∧ WfSide e.products)
    (hst : f.includeStoich = true ∨
      ∀ e ∈ rs, (∀ kv ∈ e.reactants, kv.2 = 1) ∧ (∀ kv ∈ e.products, kv.2 = 1))
    (e : Rxn) (he : e ∈ rs) :
    rawOfNode (cleanGraph f N sps rs sd rd) (sps.map sd) (rd e) = rawOf f rd e := by
  unfold rawOfNode
  simp only [clean_inArcs I hrs e he, clean_outArcs I hrs e he, clean_node_rx I e he]
  have hR : sideOfArcs (cleanGraph f N sps rs sd rd) (sps.map sd)
      ((rArcs f sd rd e).map (fun x => (x.src, x.stoich))) = e.reactants := by
    unfold rArcs
    rw [List.map_map]
    refine sideOfArcs_side _ _ sd (fun c => if f.includeStoich then some c else none) e.reactants
      (hsides e he).1.1 ?_ ?_ ?_
    · intro kv hkv
      exact List.mem_map.2 ⟨kv.1, I.mem_r he (List.mem_map.2 ⟨kv, hkv, rfl⟩), rfl⟩
    · intro kv hkv
      exact ⟨_, clean_node_sp I kv.1 (I.mem_r he (List.mem_map.2 ⟨kv, hkv, rfl⟩)), rfl⟩
    · intro kv hkv
      exact stoich_getD (hst.imp id (fun h => (h e he).1 kv hkv))
  have hP : sideOfArcs (cleanGraph f N sps rs sd rd) (sps.map sd)
      ((pArcs f sd rd e).map (fun x => (x.dst, x.stoich))) = e.products := by
    unfold pArcs
    rw [List.map_map]
    refine sideOfArcs_side _ _ sd (fun c => if f.includeStoich then some c else none) e.products
      (hsides e he).2.1 ?_ ?_ ?_
    · intro kv hkv
      exact List.mem_map.2 ⟨kv.1, I.mem_p he (List.mem_map.2 ⟨kv, hkv, rfl⟩), rfl⟩
    · intro kv hkv
      exact ⟨_, clean_node_sp I kv.1 (I.mem_p he (List.mem_map.2 ⟨kv, hkv, rfl⟩)), rfl⟩
    · intro kv hkv
      exact stoich_getD (hst.imp id (fun h => (h e he).2 kv hkv))
  rw [hR, hP]
  rfl

end importer


/-! ### `importRxns` -/

def rawId (genId : GenId) (r : RawRxn) : String :=
  match r.eid with
  | some i => i
  | none => genId r.rnode (sortSide r.reactants) (sortSide r.products) r.rule

def rawRxn (genId : GenId) (r : RawRxn) : Rxn :=
  ⟨rawId genId r, r.rule, r.reactants, r.products⟩

theorem mem_foldl_setAdd (l s : List String) (y : String) :
    y ∈ l.foldl setAdd s ↔ y ∈ s ∨ y ∈ l := by
  induction l generalizing s with
  | nil => simp
  | cons a l ih =>
    simp only [List.foldl_cons, ih, mem_setAdd, List.mem_cons]
    constructor
    · rintro ((h | h) | h)
      · exact Or.inl h
      · exact Or.inr (Or.inl h)
      · exact Or.inr (Or.inr h)
    · rintro (h | h | h)
      · exact Or.inl (Or.inl h)
      · exact Or.inl (Or.inr h)
      · exact Or.inr h

theorem addRxn_ok (N0 : Net) (r p : Side) (rule eid : String) (hr : WfSide r) (hp : WfSide p)
    (hne : r ≠ [] ∨ p ≠ []) (hrule : rule ≠ "") (hid : eid ∉ N0.ids) :
    N0.addRxn r p rule eid =
      .ok { N0 with rxns := N0.rxns ++ [⟨eid, rule, r, p⟩],
                    species := (r.keys ++ p.keys).foldl setAdd N0.species } := by
  unfold Net.addRxn
  simp only [normSide_wf r hr, normSide_wf p hp, hid, if_false]
  have : (r.isEmpty && p.isEmpty) = false := by
    rcases hne with h | h
    · cases r with
      | nil => exact absurd rfl h
      | cons => rfl
    · cases p with
      | nil => exact absurd rfl h
      | cons => simp
  simp only [this, Bool.false_eq_true, if_false, normRule, hrule, Rxn.speciesOf]

theorem importRxns_ok (genId : GenId) : ∀ (raws : List RawRxn) (N0 : Net),
    (∀ r ∈ raws, (r.reactants ≠ [] ∨ r.products ≠ []) ∧ WfSide r.reactants ∧ WfSide r.products ∧
      r.rule ≠ "") →
    (raws.map (rawId genId)).Nodup → (∀ r ∈ raws, rawId genId r ∉ N0.ids) →
    ∃ N1, importRxns genId N0 raws = .ok N1 ∧ N1.rxns = N0.rxns ++ raws.map (rawRxn genId) ∧
      N1.mol = N0.mol ∧
      ∀ s, s ∈ N1.species ↔ s ∈ N0.species ∨ ∃ r ∈ raws, s ∈ r.reactants.keys ++ r.products.keys := by
  intro raws
  induction raws with
  | nil => intro N0 _ _ _; exact ⟨N0, rfl, by simp, rfl, by simp⟩
  | cons r rest ih =>
    intro N0 hwf hnd hdisj
    obtain ⟨hne, hwr, hwp, hrule⟩ := hwf r (List.mem_cons_self ..)
    simp only [List.map_cons, List.nodup_cons] at hnd
    have hemp : (r.reactants.isEmpty && r.products.isEmpty) = false := by
      rcases hne with h | h
      · cases hh : r.reactants with
        | nil => exact absurd hh h
        | cons => rfl
      · cases hh : r.products with
        | nil => exact absurd hh h
        | cons => simp
    have hadd := addRxn_ok N0 r.reactants r.products r.rule (rawId genId r) hwr hwp hne hrule
      (hdisj r (List.mem_cons_self ..))
    have hstep : importRxns genId N0 (r :: rest) = importRxns genId
        { N0 with rxns := N0.rxns ++ [rawRxn genId r],
                  species := (r.reactants.keys ++ r.products.keys).foldl setAdd N0.species } rest := by
      simp only [importRxns, hemp, Bool.false_eq_true, if_false]
      change (match N0.addRxn r.reactants r.products r.rule (rawId genId r) with
        | .ok N' => importRxns genId N' rest
        | .error e => .error e) = _
      rw [hadd]; rfl
    obtain ⟨N1, h1, h2, h3, h4⟩ := ih
      { N0 with rxns := N0.rxns ++ [rawRxn genId r],
                species := (r.reactants.keys ++ r.products.keys).foldl setAdd N0.species }
      (fun r' hr' => hwf r' (List.mem_cons_of_mem _ hr')) hnd.2
      (by
        intro r' hr'
        simp only [Net.ids, List.map_append, List.map_cons, List.map_nil, List.mem_append,
          List.mem_singleton, not_or]
        refine ⟨hdisj r' (List.mem_cons_of_mem _ hr'), ?_⟩
        intro heq
        exact hnd.1 (List.mem_map.2 ⟨r', hr', heq⟩))
    refine ⟨N1, hstep.trans h1, ?_, h3, ?_⟩
    · rw [h2]; simp
    · intro s
      rw [h4 s, mem_foldl_setAdd]
      simp only [List.mem_cons, exists_eq_or_imp]
      exact or_assoc


/-! ### `importMol` -/

def molStep (N : Net) (n : BNode) : Net :=
  match n.mol with
  | some m => if n.label ∈ N.species then { N with mol := N.mol.set n.label m } else N
  | none => N

theorem importMol_eq (g : BGraph) (N : Net) :
    importMol g N = (g.nodes.filter (·.kind = .species)).foldl molStep N := rfl

theorem molStep_rxns (N1 : Net) (n : BNode) : (molStep N1 n).rxns = N1.rxns := by
  unfold molStep; split
  · split <;> rfl
  · rfl

theorem molStep_species (N1 : Net) (n : BNode) : (molStep N1 n).species = N1.species := by
  unfold molStep; split
  · split <;> rfl
  · rfl

theorem molStep_mol_other (N1 : Net) (n : BNode) (s : String) (h : s ≠ n.label) :
    (molStep N1 n).mol.get? s = N1.mol.get? s := by
  unfold molStep; split
  · by_cases hsp : n.label ∈ N1.species
    · rw [if_pos hsp]; exact Dict.get?_set_other _ _ _ _ h
    · rw [if_neg hsp]
  · rfl

theorem molStep_mol_self (N1 : Net) (n : BNode) :
    (molStep N1 n).mol.get? n.label =
      (if n.label ∈ N1.species then n.mol else none).or (N1.mol.get? n.label) := by
  unfold molStep; split
  · rename_i m hm
    by_cases hsp : n.label ∈ N1.species
    · rw [if_pos hsp, if_pos hsp, hm]; simp [Dict.get?_set_self]
    · rw [if_neg hsp, if_neg hsp]; rfl
  · rename_i hm
    rw [hm]; simp

theorem molStep_fold (f : BipFlags) (N : Net) (sd : String → NodeId) :
    ∀ (l : List String), l.Nodup → ∀ (N1 : Net),
      ((l.map (spNode f N sd)).foldl molStep N1).rxns = N1.rxns ∧
      ((l.map (spNode f N sd)).foldl molStep N1).species = N1.species ∧
      ∀ s, ((l.map (spNode f N sd)).foldl molStep N1).mol.get? s =
        (if s ∈ l ∧ f.includeMol = true ∧ s ∈ N1.species then N.mol.get? s else none).or
          (N1.mol.get? s) := by
  intro l
  induction l with
  | nil => intro _ N1; simp
  | cons a l ih =>
    intro hnd N1
    rw [List.nodup_cons] at hnd
    simp only [List.map_cons, List.foldl_cons]
    obtain ⟨h1, h2, h3⟩ := ih hnd.2 (molStep N1 (spNode f N sd a))
    have hs := molStep_species N1 (spNode f N sd a)
    refine ⟨h1.trans (molStep_rxns _ _), h2.trans hs, ?_⟩
    intro s
    rw [h3 s, hs]
    by_cases hsa : s = a
    · subst hsa
      have := molStep_mol_self N1 (spNode f N sd s)
      rw [show (spNode f N sd s).label = s from rfl,
        show (spNode f N sd s).mol = (if f.includeMol then N.mol.get? s else none) from rfl] at this
      rw [this]
      simp only [hnd.1, false_and, if_false, Option.none_or, List.mem_cons, true_or, true_and]
      by_cases hm : f.includeMol = true <;> by_cases hsp : s ∈ N1.species <;> simp [hm, hsp]
    · have hmem : (s ∈ a :: l) ↔ s ∈ l := by simp [hsa]
      rw [molStep_mol_other N1 (spNode f N sd a) s hsa]
      simp only [hmem]


/-! ### `ofBipartite` on a clean graph -/

theorem insertBy_map {α β : Type} (le : β → β → Bool) (g : α → β) (x : α) (l : List α) :
    insertBy le (g x) (l.map g) = (insertBy (fun a b => le (g a) (g b)) x l).map g := by
  induction l with
  | nil => rfl
  | cons y ys ih =>
    simp only [List.map_cons, insertBy]
    split
    · simp only [List.map_cons, ih]
    · rfl

theorem sortBy_map {α β : Type} (le : β → β → Bool) (g : α → β) (l : List α) :
    sortBy le (l.map g) = (sortBy (fun a b => le (g a) (g b)) l).map g := by
  induction l with
  | nil => rfl
  | cons x xs ih =>
    simp only [List.map_cons, sortBy]
    rw [ih, insertBy_map]

theorem ofBipartite_clean (f : BipFlags) (N : Net) (sps : List String) (rs : List Rxn)
    (sd : String → NodeId) (rd : Rxn → NodeId) (genId : GenId)
    (I : Ids sps rs sd rd) (hsps : sps.Nodup) (hrs : rs.Nodup)
    (hsides : ∀ e ∈ rs, WfSide e.reactants ∧ WfSide e.products)
    (hne : ∀ e ∈ rs, e.reactants ≠ [] ∨ e.products ≠ [])
    (hrules : ∀ e ∈ rs, e.rule ≠ "")
    (hst : f.includeStoich = true ∨
      ∀ e ∈ rs, (∀ kv ∈ e.reactants, kv.2 = 1) ∧ (∀ kv ∈ e.products, kv.2 = 1))
    (hids : (rs.map (fun e => rawId genId (rawOf f rd e))).Nodup) :
    ∃ N', ofBipartite genId (cleanGraph f N sps rs sd rd) = .ok N' ∧
      N'.rxns.Perm (rs.map (fun e => rawRxn genId (rawOf f rd e))) ∧
      (∀ s, s ∈ N'.species ↔ ∃ e ∈ rs, s ∈ e.speciesOf) ∧
      (∀ s, N'.mol.get? s =
        if s ∈ sps ∧ f.includeMol = true ∧ (∃ e ∈ rs, s ∈ e.speciesOf) then N.mol.get? s
        else none) := by
  -- the sorted reaction nodes, as a re-ordering of `rs`
  have hperm : (sortBy (fun a b => NodeId.le (rd a) (rd b)) rs).Perm rs := sortBy_perm _ _
  generalize hrs' : sortBy (fun a b => NodeId.le (rd a) (rd b)) rs = rs' at hperm
  have hmem : ∀ e, e ∈ rs' → e ∈ rs := fun e he => hperm.mem_iff.1 he
  have hraws : (sortBy NodeId.le (rs.map rd)).map
      (rawOfNode (cleanGraph f N sps rs sd rd) (sps.map sd)) = rs'.map (rawOf f rd) := by
    rw [sortBy_map, hrs', List.map_map]
    apply List.map_congr_left
    intro e he
    exact clean_rawOfNode I hrs hsides hst e (hmem e he)
  obtain ⟨N1, h1, h2, h3, h4⟩ := importRxns_ok genId (rs'.map (rawOf f rd)) {}
    (by
      intro r hr
      obtain ⟨e, he, rfl⟩ := List.mem_map.1 hr
      have he' := hmem e he
      exact ⟨hne e he', (hsides e he').1, (hsides e he').2, hrules e he'⟩)
    (by
      rw [List.map_map]
      exact (hperm.map _).nodup_iff.2 hids)
    (by intro r _; simp [Net.ids])
  have hfold := molStep_fold f N sd sps hsps N1
  refine ⟨(sps.map (spNode f N sd)).foldl molStep N1, ?_, ?_, ?_, ?_⟩
  · unfold ofBipartite
    simp only []
    rw [clean_speciesNodes, clean_reactionNodes, hraws, h1]
    simp only [importMol_eq, clean_speciesFilter]
  · rw [hfold.1, h2]
    simp only [List.nil_append, List.map_map]
    exact hperm.map _
  · intro s
    rw [hfold.2.1, h4 s]
    constructor
    · rintro (h | ⟨r, hr, hs⟩)
      · cases h
      · obtain ⟨e, he, rfl⟩ := List.mem_map.1 hr
        exact ⟨e, hmem e he, hs⟩
    · rintro ⟨e, he, hs⟩
      exact Or.inr ⟨rawOf f rd e, List.mem_map.2 ⟨e, hperm.mem_iff.2 he, rfl⟩, hs⟩
  · intro s
    rw [hfold.2.2 s, h3]
    have hsp : s ∈ N1.species ↔ ∃ e ∈ rs, s ∈ e.speciesOf := by
      rw [h4 s]
      constructor
      · rintro (h | ⟨r, hr, hs⟩)
        · cases h
        · obtain ⟨e, he, rfl⟩ := List.mem_map.1 hr
          exact ⟨e, hmem e he, hs⟩
      · rintro ⟨e, he, hs⟩
        exact Or.inr ⟨rawOf f rd e, List.mem_map.2 ⟨e, hperm.mem_iff.2 he, rfl⟩, hs⟩
    simp only [hsp]
    show (_ : Option String).or (Dict.get? [] s) = _
    simp [Dict.get?]


/-! ## Final theorems -/

theorem nodup_map_of_inj_on {α β : Type} (g : α → β) (l : List α) (hl : l.Nodup)
    (hinj : ∀ a ∈ l, ∀ b ∈ l, g a = g b → a = b) : (l.map g).Nodup := by
  induction l with
  | nil => exact List.nodup_nil
  | cons c l ih =>
    rw [List.nodup_cons] at hl
    simp only [List.map_cons, List.nodup_cons, List.mem_map, not_exists, not_and]
    refine ⟨?_, ih hl.2 (fun a ha b hb => hinj a (List.mem_cons_of_mem _ ha) b
      (List.mem_cons_of_mem _ hb))⟩
    intro b hb hg
    have := hinj b (List.mem_cons_of_mem _ hb) c (List.mem_cons_self ..) hg
    exact hl.1 (this ▸ hb)

/-- The general round trip: the imported reactions are the stored ones with the id the importer
assigns (`rawId`), provided those ids are pairwise distinct. -/
theorem roundtrip_general (f : BipFlags) (N : Net) (genId : GenId)
    (hN : WfNet N) (hc : NoIdClash f N) (hs : StoichKept f N)
    (hids : (N.rxns.map (fun e => rawId genId
      (rawOf f (rid f (speciesIter f N).length (sortRxns N.rxns)) e))).Nodup) :
    ∃ N', ofBipartite genId (toBipartite f N) = .ok N' ∧
      N'.rxns.Perm (N.rxns.map (fun e => rawRxn genId
        (rawOf f (rid f (speciesIter f N).length (sortRxns N.rxns)) e))) ∧
      (∀ s, s ∈ N'.species ↔ s ∈ N.rxnSpecies) ∧
      (∀ s, N'.mol.get? s =
        if f.includeMol = true ∧ s ∈ N.rxnSpecies then N.mol.get? s else none) := by
  have hp := sortRxns_perm N.rxns
  have hm : ∀ e, e ∈ sortRxns N.rxns ↔ e ∈ N.rxns := fun e => hp.mem_iff
  have hsp : ∀ s, (∃ e ∈ sortRxns N.rxns, s ∈ e.speciesOf) ↔ s ∈ N.rxnSpecies := by
    intro s
    unfold Net.rxnSpecies
    rw [List.mem_flatMap]
    constructor
    · rintro ⟨e, he, h⟩; exact ⟨e, (hm e).1 he, h⟩
    · rintro ⟨e, he, h⟩; exact ⟨e, (hm e).2 he, h⟩
  obtain ⟨N', h1, h2, h3, h4⟩ := ofBipartite_clean f N (speciesIter f N) (sortRxns N.rxns)
    (sid f (speciesIter f N)) (rid f (speciesIter f N).length (sortRxns N.rxns)) genId
    (ids_concrete f N hN hc) (speciesIter_nodup f N hN) (sortRxns_nodup N hN)
    (fun e he => hN.sides e ((hm e).1 he)) (fun e he => hN.nonEmpty e ((hm e).1 he))
    (fun e he => hN.rules e ((hm e).1 he))
    (hs.imp id (fun h e he => h e ((hm e).1 he)))
    ((hp.map _).nodup_iff.2 hids)
  refine ⟨N', ?_, h2.trans (hp.map _), fun s => (h3 s).trans (hsp s), ?_⟩
  · rw [toBipartite_clean f N hN hc]; exact h1
  · intro s
    rw [h4 s]
    by_cases hcond : f.includeMol = true ∧ s ∈ N.rxnSpecies
    · rw [if_pos hcond, if_pos ⟨speciesIter_sup f N hN s hcond.2, hcond.1, (hsp s).2 hcond.2⟩]
    · rw [if_neg hcond, if_neg (fun h => hcond ⟨h.2.1, (hsp s).1 h.2.2⟩)]

/-- with the default prefixes the string-id view never clashes -/
theorem noIdClash_default (f : BipFlags) (N : Net)
    (hs : f.speciesPrefix = some "S:") (hr : f.reactionPrefix = some "R:") : NoIdClash f N := by
  right
  intro s _ e _ h
  rw [hs, hr] at h
  simp only [withPrefix] at h
  have h' := congrArg String.toList h
  rw [String.toList_append, String.toList_append] at h'
  have h1 : "S:".toList = ['S', ':'] := by decide
  have h2 : "R:".toList = ['R', ':'] := by decide
  rw [h1, h2] at h'
  simp at h'

/-- export then import, ids exported: same reactions (same ids, rules, sides *as lists*, i.e. same
coefficients in the same order), species = species of the reactions, molecule labels kept exactly
for those species when `includeMol` (none otherwise). -/
theorem bipartite_roundtrip' (f : BipFlags) (N : Net) (genId : GenId)
    (hN : WfNet N) (hc : NoIdClash f N) (hs : StoichKept f N) (hid : f.includeEdgeIdAttr = true) :
    ∃ N', ofBipartite genId (toBipartite f N) = .ok N' ∧
      N'.rxns.Perm N.rxns ∧
      (∀ s, s ∈ N'.species ↔ s ∈ N.rxnSpecies) ∧
      (∀ s, N'.mol.get? s = if f.includeMol = true ∧ s ∈ N.rxnSpecies then N.mol.get? s else none) := by
  have hraw : ∀ e : Rxn, rawRxn genId
      (rawOf f (rid f (speciesIter f N).length (sortRxns N.rxns)) e) = e := by
    intro e; simp [rawRxn, rawId, rawOf, hid]
  have hrid : ∀ e : Rxn, rawId genId
      (rawOf f (rid f (speciesIter f N).length (sortRxns N.rxns)) e) = e.id := by
    intro e; simp [rawId, rawOf, hid]
  obtain ⟨N', h1, h2, h3, h4⟩ := roundtrip_general f N genId hN hc hs
    (by simp only [hrid]; exact hN.idsNodup)
  refine ⟨N', h1, ?_, h3, h4⟩
  simpa only [hraw, List.map_id'] using h2

/-- ids not exported: they are regenerated by `genId` (a hash in the real code); if the generated
ids do not collide, everything but the ids is reproduced. -/
theorem bipartite_roundtrip_noid' (f : BipFlags) (N : Net) (genId : GenId)
    (hN : WfNet N) (hc : NoIdClash f N) (hs : StoichKept f N) (hid : f.includeEdgeIdAttr = false)
    (hgen : ∀ a b r p r' p' ru ru', genId a r p ru = genId b r' p' ru' → a = b) :
    ∃ N', ofBipartite genId (toBipartite f N) = .ok N' ∧
      (N'.rxns.map Rxn.content).Perm (N.rxns.map Rxn.content) ∧
      (∀ s, s ∈ N'.species ↔ s ∈ N.rxnSpecies) ∧
      (∀ s, N'.mol.get? s = if f.includeMol = true ∧ s ∈ N.rxnSpecies then N.mol.get? s else none) := by
  have I := ids_concrete f N hN hc
  have hp := sortRxns_perm N.rxns
  have hcont : ∀ e : Rxn, (rawRxn genId
      (rawOf f (rid f (speciesIter f N).length (sortRxns N.rxns)) e)).content = e.content := by
    intro e; rfl
  obtain ⟨N', h1, h2, h3, h4⟩ := roundtrip_general f N genId hN hc hs
    (by
      apply nodup_map_of_inj_on _ _ (nodup_of_nodup_map _ _ hN.idsNodup)
      intro a ha b hb hab
      simp only [rawId, rawOf, hid, Bool.false_eq_true, if_false] at hab
      exact I.ridInj a (hp.mem_iff.2 ha) b (hp.mem_iff.2 hb) (hgen _ _ _ _ _ _ _ _ hab))
  refine ⟨N', h1, ?_, h3, h4⟩
  have := h2.map Rxn.content
  rw [List.map_map] at this
  refine this.trans ?_
  have heq : (Rxn.content ∘ fun e => rawRxn genId
      (rawOf f (rid f (speciesIter f N).length (sortRxns N.rxns)) e)) = Rxn.content :=
    funext hcont
  rw [heq]

end SynKit.Views.Bip

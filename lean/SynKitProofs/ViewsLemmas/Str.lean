import SynKitModel.Views
/-!
# Reaction strings: `parse ∘ print` round trip (C16, string view)

All helper lemmas live in `SynKit.Views.Str`.
-/
namespace SynKit.Views.Str
open SynKit SynKit.Views

/-! ## Digits -/

theorem digitVal_digitChar : ∀ d < 10, digitVal (digitChar d) = d := by decide

theorem isDigit_digitChar (d : Nat) : isDigit (digitChar d) = true := by
  unfold digitChar; split <;> decide

theorem revDigits_foldr (fuel : Nat) : ∀ n, n < fuel →
    (revDigits fuel n).foldr (fun c a => 10 * a + digitVal c) 0 = n := by
  induction fuel with
  | zero => intro n h; omega
  | succ fuel ih =>
    intro n h
    unfold revDigits
    by_cases h10 : n < 10
    · simp only [h10, if_true, List.foldr_cons, List.foldr_nil]
      rw [digitVal_digitChar n h10]; omega
    · simp only [h10, if_false, List.foldr_cons]
      rw [ih (n / 10) (by omega), digitVal_digitChar _ (Nat.mod_lt _ (by omega))]
      omega

theorem digits_roundtrip' (n : Nat) : digitsToNat (natToDigits n) = n := by
  unfold digitsToNat natToDigits
  rw [List.foldl_reverse]
  exact revDigits_foldr (n + 1) n (by omega)

theorem revDigits_ne_nil (fuel n : Nat) : revDigits (fuel + 1) n ≠ [] := by
  unfold revDigits; split <;> simp

theorem natToDigits_ne_nil (n : Nat) : natToDigits n ≠ [] := by
  unfold natToDigits
  intro h
  exact revDigits_ne_nil n n (List.reverse_eq_nil_iff.1 h)

theorem revDigits_all_digit (fuel : Nat) : ∀ n, ∀ c ∈ revDigits fuel n, isDigit c = true := by
  induction fuel with
  | zero => intro n c h; simp [revDigits] at h
  | succ fuel ih =>
    intro n c h
    unfold revDigits at h
    split at h
    · simp only [List.mem_singleton] at h; subst h; exact isDigit_digitChar _
    · simp only [List.mem_cons] at h
      rcases h with h | h
      · subst h; exact isDigit_digitChar _
      · exact ih _ c h

theorem natToDigits_all_digit (n : Nat) : ∀ c ∈ natToDigits n, isDigit c = true := by
  intro c h
  unfold natToDigits at h
  exact revDigits_all_digit _ _ c (List.mem_reverse.1 h)

/-! ## Character facts -/

theorem isDigit_iff (c : Char) : isDigit c = true ↔ 48 ≤ c.toNat ∧ c.toNat ≤ 57 := by
  simp [isDigit]

theorem isAsciiLetter_iff (c : Char) :
    isAsciiLetter c = true ↔ (65 ≤ c.toNat ∧ c.toNat ≤ 90) ∨ (97 ≤ c.toNat ∧ c.toNat ≤ 122) := by
  simp [isAsciiLetter]

theorem isWs_false_of_range (c : Char) (h1 : 33 ≤ c.toNat) (h2 : c.toNat ≤ 126) : isWs c = false := by
  simp only [isWs, Bool.or_eq_false_iff, Bool.and_eq_false_iff, decide_eq_false_iff_not, beq_eq_false_iff_ne]
  omega

theorem okChar_iff (c : Char) :
    okChar c = true ↔ isWs c = false ∧ c ≠ '+' ∧ c ≠ '*' ∧ c ≠ '|' ∧ c ≠ '>' := by
  simp [okChar, and_assoc]

theorem ne_of_toNat_ne {c d : Char} (h : c.toNat ≠ d.toNat) : c ≠ d := fun e => h (by rw [e])

theorem okChar_of_isDigit (c : Char) (h : isDigit c = true) : okChar c = true := by
  rw [isDigit_iff] at h
  rw [okChar_iff]
  refine ⟨isWs_false_of_range c (by omega) (by omega), ?_, ?_, ?_, ?_⟩ <;>
    · apply ne_of_toNat_ne; simp; omega

theorem isDigit_false_of_letter (c : Char) (h : isAsciiLetter c = true) : isDigit c = false := by
  rw [isAsciiLetter_iff] at h
  rw [← Bool.not_eq_true, isDigit_iff]; omega

theorem ne_empty_of_letter (c : Char) (h : isAsciiLetter c = true) : c ≠ '∅' := by
  rw [isAsciiLetter_iff] at h
  apply ne_of_toNat_ne; simp; omega

theorem ne_empty_of_digit (c : Char) (h : isDigit c = true) : c ≠ '∅' := by
  rw [isDigit_iff] at h
  apply ne_of_toNat_ne; simp; omega

theorem isWs_ne_sep (c : Char) (h : isWs c = true) : c ≠ '+' ∧ c ≠ '|' ∧ c ≠ '>' := by
  refine ⟨?_, ?_, ?_⟩ <;> · rintro rfl; revert h; decide

/-! ## Generic list lemmas -/

theorem takeWhile_append_stop {p : Char → Bool} (a : List Char) (x : Char) (b : List Char)
    (ha : ∀ c ∈ a, p c = true) (hx : p x = false) : (a ++ x :: b).takeWhile p = a := by
  induction a with
  | nil => simp [hx]
  | cons y a ih =>
    simp only [List.cons_append, List.takeWhile, ha y (List.mem_cons_self)]
    rw [ih (fun c hc => ha c (List.mem_cons_of_mem _ hc))]

theorem dropWhile_append_stop {p : Char → Bool} (a : List Char) (x : Char) (b : List Char)
    (ha : ∀ c ∈ a, p c = true) (hx : p x = false) : (a ++ x :: b).dropWhile p = x :: b := by
  induction a with
  | nil => simp [hx]
  | cons y a ih =>
    simp only [List.cons_append, List.dropWhile, ha y (List.mem_cons_self)]
    rw [ih (fun c hc => ha c (List.mem_cons_of_mem _ hc))]

theorem takeWhile_all {p : Char → Bool} (a : List Char) (ha : ∀ c ∈ a, p c = true) :
    a.takeWhile p = a := by
  induction a with
  | nil => rfl
  | cons y a ih =>
    simp only [List.takeWhile, ha y (List.mem_cons_self)]
    rw [ih (fun c hc => ha c (List.mem_cons_of_mem _ hc))]

theorem dropWhile_all {p : Char → Bool} (a : List Char) (ha : ∀ c ∈ a, p c = true) :
    a.dropWhile p = [] := by
  induction a with
  | nil => rfl
  | cons y a ih =>
    simp only [List.dropWhile, ha y (List.mem_cons_self)]
    rw [ih (fun c hc => ha c (List.mem_cons_of_mem _ hc))]

/-! ## strip -/

def rstrip (l : List Char) : List Char := (l.reverse.dropWhile isWs).reverse

theorem strip_eq (l : List Char) : strip l = rstrip (l.dropWhile isWs) := rfl

theorem rstrip_cons (x : Char) (l : List Char) :
    rstrip (x :: l) = if rstrip l = [] then (if isWs x then [] else [x]) else x :: rstrip l := by
  unfold rstrip
  rw [List.reverse_cons, List.dropWhile_append]
  by_cases h : List.dropWhile isWs l.reverse = []
  · simp only [h, List.isEmpty_nil, if_true, List.reverse_nil]
    by_cases hx : isWs x = true
    · simp [hx]
    · simp [hx]
  · simp [h]

theorem rstrip_all_ws (p : List Char) (h : ∀ c ∈ p, isWs c = true) : rstrip p = [] := by
  unfold rstrip
  rw [dropWhile_all _ (fun c hc => h c (List.mem_reverse.1 hc))]; rfl

theorem rstrip_append_stop (a : List Char) (x : Char) (b : List Char) (hx : isWs x = false) :
    rstrip (a ++ x :: b) = a ++ x :: rstrip b := by
  induction a with
  | nil =>
    simp only [List.nil_append]
    rw [rstrip_cons]; simp [hx]
  | cons y a ih =>
    simp only [List.cons_append]
    rw [rstrip_cons, ih]; simp

/-- non-empty, first and last characters are not whitespace -/
def Tight (t : List Char) : Prop :=
  (∃ x r, t = x :: r ∧ isWs x = false) ∧ (∃ r z, t = r ++ [z] ∧ isWs z = false)

theorem strip_pad (p1 t p2 : List Char) (h1 : ∀ c ∈ p1, isWs c = true) (h2 : ∀ c ∈ p2, isWs c = true)
    (ht : Tight t) : strip (p1 ++ t ++ p2) = t := by
  obtain ⟨⟨x, r, hxr, hx⟩, ⟨r', z, hrz, hz⟩⟩ := ht
  rw [strip_eq]
  have : List.dropWhile isWs (p1 ++ t ++ p2) = t ++ p2 := by
    rw [hxr, List.append_assoc, List.cons_append]
    exact dropWhile_append_stop p1 x _ h1 hx
  rw [this, hrz, List.append_assoc, List.singleton_append, rstrip_append_stop _ _ _ hz,
    rstrip_all_ws _ h2]

theorem Tight_of_noWs (t : List Char) (hne : t ≠ []) (h : ∀ c ∈ t, isWs c = false) : Tight t := by
  constructor
  · cases t with
    | nil => exact absurd rfl hne
    | cons x r => exact ⟨x, r, rfl, h x (List.mem_cons_self)⟩
  · refine ⟨t.dropLast, t.getLast hne, (List.dropLast_concat_getLast hne).symm, h _ (List.getLast_mem hne)⟩

theorem Tight_append (a m b : List Char) (ha : Tight a) (hb : Tight b) : Tight (a ++ m ++ b) := by
  obtain ⟨⟨x, r, hxr, hx⟩, _⟩ := ha
  obtain ⟨_, ⟨r', z, hrz, hz⟩⟩ := hb
  constructor
  · exact ⟨x, r ++ m ++ b, by simp [hxr], hx⟩
  · exact ⟨a ++ m ++ r', z, by simp [hrz], hz⟩

theorem strip_tight (t : List Char) (ht : Tight t) : strip t = t := by
  have := strip_pad [] t [] (by simp) (by simp) ht
  simpa using this

/-! ## splitting -/

theorem splitOn_not_mem (c : Char) (a : List Char) (h : c ∉ a) : splitOn c a = [a] := by
  induction a with
  | nil => rfl
  | cons x a ih =>
    simp only [List.mem_cons, not_or] at h
    simp only [splitOn, if_neg (Ne.symm h.1), ih h.2]

theorem splitOn_append (c : Char) (a b : List Char) (h : c ∉ a) :
    splitOn c (a ++ c :: b) = a :: splitOn c b := by
  induction a with
  | nil => simp [splitOn]
  | cons x a ih =>
    simp only [List.mem_cons, not_or] at h
    simp only [List.cons_append, splitOn, if_neg (Ne.symm h.1), ih h.2]

theorem splitWsAux_noWs (t : List Char) (h : ∀ c ∈ t, isWs c = false) :
    ∀ cur, splitWsAux t cur = if (cur ++ t).isEmpty then [] else [cur ++ t] := by
  induction t with
  | nil => intro cur; simp [splitWsAux]
  | cons x t ih =>
    intro cur
    simp only [splitWsAux, h x (List.mem_cons_self), Bool.false_eq_true, if_false]
    rw [ih (fun c hc => h c (List.mem_cons_of_mem _ hc))]
    simp

theorem splitWs_noWs (t : List Char) (hne : t ≠ []) (h : ∀ c ∈ t, isWs c = false) :
    splitWs t = [t] := by
  unfold splitWs
  rw [splitWsAux_noWs t h]
  simp [hne]

theorem map_star_id (t : List Char) (h : '*' ∉ t) :
    t.map (fun c => if c = '*' then ' ' else c) = t := by
  induction t with
  | nil => rfl
  | cons x t ih =>
    simp only [List.mem_cons, not_or] at h
    simp only [List.map_cons, if_neg (Ne.symm h.1), ih h.2]

theorem splitFirst_append (c : Char) (a b : List Char) (h : c ∉ a) :
    splitFirst c (a ++ c :: b) = some (a, b) := by
  induction a with
  | nil => simp [splitFirst]
  | cons x a ih =>
    simp only [List.mem_cons, not_or] at h
    simp only [List.cons_append, splitFirst, if_neg (Ne.symm h.1), ih h.2]

theorem splitArrow_append (a b : List Char) (h : '>' ∉ a) :
    splitArrow (a ++ '>' :: '>' :: b) = some (a, b) := by
  induction a with
  | nil => simp [splitArrow]
  | cons x a ih =>
    simp only [List.mem_cons, not_or] at h
    have ih := ih h.2
    cases a with
    | nil =>
      simp only [List.nil_append] at ih
      simp only [List.cons_append, List.nil_append, splitArrow]
      simp [Ne.symm h.1]
    | cons y a =>
      simp only [List.cons_append] at ih
      simp only [List.cons_append, splitArrow, ih]
      simp [Ne.symm h.1]



/-! ## Sorting -/

theorem insertBy_perm {α : Type} (le : α → α → Bool) (x : α) (l : List α) :
    (insertBy le x l).Perm (x :: l) := by
  induction l with
  | nil => exact List.Perm.refl _
  | cons y ys ih =>
    unfold insertBy
    split
    · exact (List.Perm.cons y ih).trans (List.Perm.swap x y ys)
    · exact List.Perm.refl _

theorem sortBy_perm {α : Type} (le : α → α → Bool) (l : List α) : (sortBy le l).Perm l := by
  induction l with
  | nil => exact List.Perm.refl _
  | cons x xs ih =>
    unfold sortBy
    exact (insertBy_perm le x _).trans (List.Perm.cons x ih)

theorem sortSide_perm (m : Side) : (sortSide m).Perm m := sortBy_perm _ m

theorem sortSide_eq_nil_iff (m : Side) : sortSide m = [] ↔ m = [] := by
  constructor
  · intro h; have := (sortSide_perm m).symm; rw [h] at this; exact List.Perm.eq_nil this
  · intro h; subst h; rfl

theorem wfSide_sortSide (m : Side) (hm : WfSide m) : WfSide (sortSide m) := by
  have hp := sortSide_perm m
  refine ⟨?_, fun kv hkv => hm.2 kv (hp.mem_iff.1 hkv)⟩
  have hk : (Dict.keys (sortSide m)).Perm (Dict.keys m) := hp.map _
  exact (List.Perm.nodup_iff hk).2 hm.1

theorem wfLabels_sortSide (m : Side) (hm : WfLabels m) : WfLabels (sortSide m) :=
  fun kv hkv => hm kv ((sortSide_perm m).mem_iff.1 hkv)

/-! ## Dictionary accumulation -/

theorem set_of_not_mem {α : Type} (d : Dict α) (k : String) (v : α) (h : k ∉ d.keys) :
    d.set k v = d ++ [(k, v)] := by
  induction d with
  | nil => rfl
  | cons p rest ih =>
    obtain ⟨k', v'⟩ := p
    simp only [Dict.keys, List.map_cons, List.mem_cons, not_or] at h
    simp only [Dict.set, if_neg (Ne.symm h.1), List.cons_append]
    rw [ih h.2]

theorem accum_fresh (out : Side) (k : String) (c : Nat) (h : k ∉ out.keys) :
    accum out k c = out ++ [(k, c)] := by
  unfold accum Dict.getD
  rw [(Dict.get?_eq_none_iff out k).2 h, set_of_not_mem _ _ _ h]
  simp

theorem foldl_accum_fresh (l : Side) : ∀ out : Side, (out.keys ++ l.keys).Nodup →
    l.foldl (fun o kv => accum o kv.1 kv.2) out = out ++ l := by
  induction l with
  | nil => intro out _; simp
  | cons kv l ih =>
    intro out h
    obtain ⟨k, c⟩ := kv
    have hk : k ∉ out.keys := by
      intro hmem
      have := (List.nodup_append.1 h).2.2 k hmem k (by simp [Dict.keys])
      exact this rfl
    simp only [List.foldl_cons]
    rw [accum_fresh out k c hk, ih]
    · simp
    · have : (out ++ [(k, c)]).keys ++ Dict.keys l = out.keys ++ Dict.keys ((k, c) :: l) := by
        simp [Dict.keys]
      rw [this]; exact h

/-! ## Terms -/

theorem wfLabel_unpack (s : String) (h : WfLabel s = true) :
    ∃ x xs, s.toList = x :: xs ∧ isAsciiLetter x = true ∧ ∀ c ∈ s.toList, okChar c = true := by
  unfold WfLabel at h
  split at h
  · exact absurd h (by simp)
  · rename_i x xs hx
    simp only [Bool.and_eq_true, List.all_eq_true] at h
    exact ⟨x, xs, hx, h.1, by rw [hx]; exact h.2⟩

/-- a printed term: starts with something that is not `∅`, all characters harmless -/
def GoodTerm (t : List Char) : Prop :=
  (∃ x r, t = x :: r ∧ x ≠ '∅') ∧ ∀ c ∈ t, okChar c = true

theorem GoodTerm.ne_nil {t : List Char} (h : GoodTerm t) : t ≠ [] := by
  obtain ⟨⟨x, r, hx, _⟩, _⟩ := h; simp [hx]

theorem GoodTerm.noWs {t : List Char} (h : GoodTerm t) : ∀ c ∈ t, isWs c = false :=
  fun c hc => ((okChar_iff c).1 (h.2 c hc)).1

theorem GoodTerm.tight {t : List Char} (h : GoodTerm t) : Tight t :=
  Tight_of_noWs t h.ne_nil h.noWs

theorem GoodTerm.no_plus {t : List Char} (h : GoodTerm t) : '+' ∉ t :=
  fun hc => ((okChar_iff _).1 (h.2 _ hc)).2.1 rfl

theorem fmtTerm_good (s : String) (c : Nat) (hs : WfLabel s = true) : GoodTerm (fmtTerm (s, c)) := by
  obtain ⟨x, xs, hsx, hx, hall⟩ := wfLabel_unpack s hs
  unfold fmtTerm
  split
  · exact ⟨⟨x, xs, hsx, ne_empty_of_letter x hx⟩, hall⟩
  · constructor
    · obtain ⟨d, ds, hd⟩ := List.exists_cons_of_ne_nil (natToDigits_ne_nil c)
      refine ⟨d, ds ++ s.toList, by simp [hd], ne_empty_of_digit d ?_⟩
      exact natToDigits_all_digit c d (by simp [hd])
    · intro ch hch
      simp only [List.mem_append] at hch
      rcases hch with hch | hch
      · exact okChar_of_isDigit _ (natToDigits_all_digit c ch hch)
      · exact hall ch hch

theorem parsePart_fmtTerm (out : Side) (s : String) (c : Nat) (hs : WfLabel s = true) (hc : 0 < c) :
    parsePart out (fmtTerm (s, c)) = .ok (accum out s c) := by
  obtain ⟨x, xs, hsx, hx, hall⟩ := wfLabel_unpack s hs
  have hg := fmtTerm_good s c hs
  have hstar : (fmtTerm (s, c)).map (fun c => if c = '*' then ' ' else c) = fmtTerm (s, c) :=
    map_star_id _ (fun hc => ((okChar_iff _).1 (hg.2 _ hc)).2.2.1 rfl)
  have hstrip : strip (fmtTerm (s, c)) = fmtTerm (s, c) := strip_tight _ hg.tight
  have hsplit : splitWs (fmtTerm (s, c)) = [fmtTerm (s, c)] := splitWs_noWs _ hg.ne_nil hg.noWs
  have hxd : isDigit x = false := isDigit_false_of_letter x hx
  unfold parsePart
  simp only [hstar, hstrip, hsplit]
  by_cases h1 : c = 1
  · subst h1
    have : fmtTerm (s, 1) = x :: xs := by simp [fmtTerm, hsx]
    rw [this]
    simp only [List.takeWhile, hxd, List.dropWhile]
    rw [← hsx, String.ofList_toList]
  · have : fmtTerm (s, c) = natToDigits c ++ x :: xs := by simp [fmtTerm, h1, hsx]
    rw [this, takeWhile_append_stop _ _ _ (natToDigits_all_digit c) hxd,
      dropWhile_append_stop _ _ _ (natToDigits_all_digit c) hxd]
    obtain ⟨d, ds, hd⟩ := List.exists_cons_of_ne_nil (natToDigits_ne_nil c)
    rw [hd]
    simp only [hx, if_true]
    rw [← hd, digits_roundtrip', ← hsx, String.ofList_toList]
    simp [hc]

/-! ## Sides -/

theorem parseParts_terms (l : Side) : ∀ out : Side, (∀ kv ∈ l, WfLabel kv.1 = true ∧ 0 < kv.2) →
    parseParts out (l.map fmtTerm) = .ok (l.foldl (fun o kv => accum o kv.1 kv.2) out) := by
  induction l with
  | nil => intro out _; rfl
  | cons kv l ih =>
    intro out h
    obtain ⟨k, c⟩ := kv
    have hkc := h (k, c) List.mem_cons_self
    simp only [List.map_cons, parseParts, parsePart_fmtTerm out k c hkc.1 hkc.2, List.foldl_cons]
    exact ih _ (fun kv hkv => h kv (List.mem_cons_of_mem _ hkv))

theorem intercalate_cons_cons (sep x y : List Char) (rest : List (List Char)) :
    intercalate sep (x :: y :: rest) = x ++ sep ++ intercalate sep (y :: rest) := rfl

theorem intercalate_tight (ts : List (List Char)) : ∀ t, (∀ t' ∈ t :: ts, Tight t') →
    Tight (intercalate plusSep (t :: ts)) := by
  induction ts with
  | nil => intro t h; exact h t List.mem_cons_self
  | cons t' ts ih =>
    intro t h
    rw [intercalate_cons_cons]
    exact Tight_append _ _ _ (h t List.mem_cons_self)
      (ih t' (fun u hu => h u (List.mem_cons_of_mem _ hu)))

theorem intercalate_head (ts : List (List Char)) (x : Char) (r : List Char) :
    ∃ r', intercalate plusSep ((x :: r) :: ts) = x :: r' := by
  cases ts with
  | nil => exact ⟨r, rfl⟩
  | cons t' ts => exact ⟨r ++ plusSep ++ intercalate plusSep (t' :: ts), by simp [intercalate_cons_cons]⟩

theorem splitOn_intercalate (ts : List (List Char)) : ∀ (t p : List Char),
    (∀ c ∈ p, isWs c = true) → (∀ t' ∈ t :: ts, GoodTerm t') →
    (splitOn '+' (p ++ intercalate plusSep (t :: ts))).map strip = t :: ts := by
  induction ts with
  | nil =>
    intro t p hp h
    have ht := h t List.mem_cons_self
    have hnp : '+' ∉ p ++ t := by
      simp only [List.mem_append, not_or]
      exact ⟨fun hc => (isWs_ne_sep _ (hp _ hc)).1 rfl, ht.no_plus⟩
    simp only [intercalate]
    rw [splitOn_not_mem _ _ hnp]
    have := strip_pad p t [] hp (by simp) ht.tight
    simp only [List.append_nil] at this
    simp [this]
  | cons t' ts ih =>
    intro t p hp h
    have ht := h t List.mem_cons_self
    have hnp : '+' ∉ p ++ t ++ [' '] := by
      simp only [List.mem_append, not_or, List.mem_singleton]
      exact ⟨⟨fun hc => (isWs_ne_sep _ (hp _ hc)).1 rfl, ht.no_plus⟩, by decide⟩
    have hrw : p ++ intercalate plusSep (t :: t' :: ts) =
        (p ++ t ++ [' ']) ++ '+' :: ([' '] ++ intercalate plusSep (t' :: ts)) := by
      simp [intercalate_cons_cons, plusSep]
    rw [hrw, splitOn_append _ _ _ hnp, List.map_cons,
      ih t' [' '] (by simp; decide) (fun u hu => h u (List.mem_cons_of_mem _ hu)),
      strip_pad p t [' '] hp (by simp; decide) ht.tight]

theorem emptySym_tight : Tight emptySym :=
  Tight_of_noWs _ (by simp [emptySym]) (by simp [emptySym]; decide)

theorem goodTerms_of_side (m : Side) (hl : WfLabels m) : ∀ t ∈ m.map fmtTerm, GoodTerm t := by
  intro t ht
  obtain ⟨kv, hkv, rfl⟩ := List.mem_map.1 ht
  exact fmtTerm_good kv.1 kv.2 (hl kv hkv)

theorem fmtSide_tight (m : Side) (hl : WfLabels m) : Tight (fmtSide m) := by
  unfold fmtSide
  cases hs : sortSide m with
  | nil =>
    have := (sortSide_eq_nil_iff m).1 hs; subst this
    exact emptySym_tight
  | cons kv rest =>
    have hne : m ≠ [] := fun h => by rw [(sortSide_eq_nil_iff m).2 h] at hs; cases hs
    have : m.isEmpty = false := by cases m with | nil => exact absurd rfl hne | cons _ _ => rfl
    simp only [this, Bool.false_eq_true, if_false, List.map_cons]
    apply intercalate_tight
    have hg := goodTerms_of_side (sortSide m) (wfLabels_sortSide m hl)
    rw [hs] at hg
    exact fun t ht => (hg t ht).tight

theorem side_roundtrip_pad (m : Side) (hm : WfSide m) (hl : WfLabels m) (p1 p2 : List Char)
    (h1 : ∀ c ∈ p1, isWs c = true) (h2 : ∀ c ∈ p2, isWs c = true) :
    parseSide (p1 ++ fmtSide m ++ p2) = .ok (sortSide m) := by
  unfold parseSide
  simp only [strip_pad p1 _ p2 h1 h2 (fmtSide_tight m hl)]
  cases hs : sortSide m with
  | nil =>
    have := (sortSide_eq_nil_iff m).1 hs; subst this
    simp [fmtSide]
  | cons kv rest =>
    have hne : m ≠ [] := fun h => by rw [(sortSide_eq_nil_iff m).2 h] at hs; cases hs
    have hemp : m.isEmpty = false := by cases m with | nil => exact absurd rfl hne | cons _ _ => rfl
    have hg := goodTerms_of_side (sortSide m) (wfLabels_sortSide m hl)
    have hfmt : fmtSide m = intercalate plusSep (fmtTerm kv :: rest.map fmtTerm) := by
      simp [fmtSide, hemp, hs]
    rw [hs, List.map_cons] at hg
    obtain ⟨⟨x, r, hxr, hx⟩, _⟩ := hg _ List.mem_cons_self
    obtain ⟨r', hr'⟩ := intercalate_head (rest.map fmtTerm) x r
    have hcond : ¬ (fmtSide m = [] ∨ fmtSide m = emptySym) := by
      rw [hfmt, hxr, hr']
      simp only [emptySym, List.cons.injEq, not_or]
      exact ⟨by simp, fun h => hx h.1⟩
    rw [if_neg hcond]
    have hsplit := splitOn_intercalate (rest.map fmtTerm) (fmtTerm kv) [] (by simp) hg
    simp only [List.nil_append] at hsplit
    rw [hfmt, hsplit]
    have hfilter : List.filter (fun p => !p.isEmpty) (fmtTerm kv :: rest.map fmtTerm) =
        fmtTerm kv :: rest.map fmtTerm := by
      rw [List.filter_eq_self]
      intro t ht
      have := (hg t ht).ne_nil
      cases t with
      | nil => exact absurd rfl this
      | cons _ _ => rfl
    rw [hfilter, ← List.map_cons, ← hs]
    have hws := wfSide_sortSide m hm
    have hwl := wfLabels_sortSide m hl
    rw [parseParts_terms _ _ (fun kv hkv => ⟨hwl kv hkv, hws.2 kv hkv⟩),
      foldl_accum_fresh _ _ (by simpa [Dict.keys] using hws.1)]
    simp

theorem side_roundtrip' (m : Side) (hm : WfSide m) (hl : WfLabels m) :
    parseSide (fmtSide m) = .ok (sortSide m) := by
  have := side_roundtrip_pad m hm hl [] [] (by simp) (by simp)
  simpa using this

/-- the guard is needed: a label starting with a digit is mis-parsed … -/
theorem wf_counterexample' :
    WfLabel "2A" = false ∧ parseSide (fmtSide [("2A", 1)]) = .ok [("A", 2)] := ⟨by rfl, by rfl⟩

/-- … and so is a label starting with a non-letter such as `_` once its coefficient is ≥ 2 -/
theorem wf_counterexample_nonletter' :
    WfLabel "_A" = false ∧ parseSide (fmtSide [("_A", 2)]) = .ok [("2_A", 1)] := ⟨by rfl, by rfl⟩

/-! ## Lines -/

theorem mem_intercalate (sep : List Char) (c : Char) (ts : List (List Char)) :
    c ∈ intercalate sep ts → c ∈ sep ∨ ∃ t ∈ ts, c ∈ t := by
  induction ts with
  | nil => intro h; simp [intercalate] at h
  | cons t ts ih =>
    cases ts with
    | nil => intro h; exact Or.inr ⟨t, List.mem_cons_self, h⟩
    | cons t' ts =>
      intro h
      rw [intercalate_cons_cons] at h
      simp only [List.mem_append] at h
      rcases h with (h | h) | h
      · exact Or.inr ⟨t, List.mem_cons_self, h⟩
      · exact Or.inl h
      · rcases ih h with h | ⟨u, hu, hcu⟩
        · exact Or.inl h
        · exact Or.inr ⟨u, List.mem_cons_of_mem _ hu, hcu⟩

theorem fmtSide_no_sep (m : Side) (hl : WfLabels m) : '|' ∉ fmtSide m ∧ '>' ∉ fmtSide m := by
  have key : ∀ c ∈ fmtSide m, c ≠ '|' ∧ c ≠ '>' := by
    intro c hc
    unfold fmtSide at hc
    split at hc
    · simp only [emptySym, List.mem_singleton] at hc; subst hc; decide
    · rcases mem_intercalate _ _ _ hc with h | ⟨t, ht, hct⟩
      · simp only [plusSep, List.mem_cons, List.not_mem_nil, or_false] at h
        rcases h with h | h | h <;> subst h <;> decide
      · have hg := goodTerms_of_side (sortSide m) (wfLabels_sortSide m hl) t ht
        have := (okChar_iff c).1 (hg.2 c hct)
        exact ⟨this.2.2.2.1, this.2.2.2.2⟩
  exact ⟨fun h => (key _ h).1 rfl, fun h => (key _ h).2 rfl⟩

theorem strip_meta (rule tail : List Char) (hr : Tight rule)
    (ht : tail = [] ∨ ∃ idl, tail = ' ' :: 'i' :: 'd' :: '=' :: idl) :
    ∃ tail', strip (' ' :: 'r' :: 'u' :: 'l' :: 'e' :: '=' :: (rule ++ tail)) =
        'r' :: 'u' :: 'l' :: 'e' :: '=' :: (rule ++ tail') ∧ (tail' = [] ∨ ∃ r, tail' = ' ' :: r) := by
  rw [strip_eq]
  have hd : List.dropWhile isWs (' ' :: 'r' :: 'u' :: 'l' :: 'e' :: '=' :: (rule ++ tail)) =
      'r' :: 'u' :: 'l' :: 'e' :: '=' :: (rule ++ tail) := by
    have h1 : isWs ' ' = true := by decide
    have h2 : isWs 'r' = false := by decide
    simp only [List.dropWhile, h1, h2]
  rw [hd]
  rcases ht with rfl | ⟨idl, rfl⟩
  · obtain ⟨_, ⟨r0, z, hrz, hz⟩⟩ := hr
    refine ⟨[], ?_, Or.inl rfl⟩
    have : 'r' :: 'u' :: 'l' :: 'e' :: '=' :: (rule ++ []) =
        ('r' :: 'u' :: 'l' :: 'e' :: '=' :: r0) ++ z :: [] := by simp [hrz]
    rw [this, rstrip_append_stop _ _ _ hz]; rfl
  · refine ⟨' ' :: 'i' :: 'd' :: '=' :: rstrip idl, ?_, Or.inr ⟨_, rfl⟩⟩
    have : 'r' :: 'u' :: 'l' :: 'e' :: '=' :: (rule ++ ' ' :: 'i' :: 'd' :: '=' :: idl) =
        ('r' :: 'u' :: 'l' :: 'e' :: '=' :: (rule ++ [' ', 'i', 'd'])) ++ '=' :: idl := by simp
    rw [this, rstrip_append_stop _ _ _ (by decide)]; simp

theorem searchRule_head (rule tail' : List Char) (hne : rule ≠ []) (hr : ∀ c ∈ rule, isWs c = false)
    (ht : tail' = [] ∨ ∃ r, tail' = ' ' :: r) :
    searchRule ('r' :: 'u' :: 'l' :: 'e' :: '=' :: (rule ++ tail')) = some rule := by
  obtain ⟨x, r, hxr⟩ := List.exists_cons_of_ne_nil hne
  have hx : isWs x = false := hr x (by simp [hxr])
  have h0 : isWs '=' = false := by decide
  have htake : List.takeWhile (fun c => !isWs c) (rule ++ tail') = rule := by
    rcases ht with rfl | ⟨r', rfl⟩
    · rw [List.append_nil]; exact takeWhile_all _ (fun c hc => by simp [hr c hc])
    · exact takeWhile_append_stop _ _ _ (fun c hc => by simp [hr c hc]) (by decide)
  have hdrop : List.dropWhile isWs (rule ++ tail') = rule ++ tail' := by
    rw [hxr]; simp [hx]
  simp only [searchRule, matchRuleAt, List.dropWhile, h0, hdrop, htake]
  simp [hxr]

theorem wfRule_list (r : String) (h : WfRule r) : r.toList ≠ [] ∧ ∀ c ∈ r.toList, isWs c = false := by
  refine ⟨fun hnil => h.1 ?_, h.2⟩
  rw [← String.ofList_toList (s := r), hnil]

theorem parseLine_fmtLine (f : StrFlags) (hf : f.includeRule = true) (e : Rxn)
    (hs : WfSide e.reactants ∧ WfSide e.products) (hl : WfLabels e.reactants ∧ WfLabels e.products)
    (hr : WfRule e.rule) :
    parseLine none true (fmtLine f e) = .ok ⟨some e.rule, sortSide e.reactants, sortSide e.products⟩ := by
  obtain ⟨hrne, hrws⟩ := wfRule_list e.rule hr
  -- shape of the line
  have hline : ∃ tail, (tail = [] ∨ ∃ idl, tail = ' ' :: 'i' :: 'd' :: '=' :: idl) ∧
      fmtLine f e = (fmtSide e.reactants ++ arrow ++ fmtSide e.products ++ [' ']) ++
        '|' :: (' ' :: 'r' :: 'u' :: 'l' :: 'e' :: '=' :: (e.rule.toList ++ tail)) := by
    have h1 : "rule=".toList = ['r', 'u', 'l', 'e', '='] := rfl
    have h2 : "id=".toList = ['i', 'd', '='] := rfl
    have h3 : (e.rule != "") = true := by simp [hr.1]
    unfold fmtLine
    simp only [hf, h3, Bool.and_self, if_true, h1, h2]
    cases f.includeId with
    | false => exact ⟨[], Or.inl rfl, by simp [intercalate]⟩
    | true => exact ⟨' ' :: 'i' :: 'd' :: '=' :: e.id.toList, Or.inr ⟨_, rfl⟩, by simp [intercalate]⟩
  obtain ⟨tail, htail, hline⟩ := hline
  have hnr := fmtSide_no_sep e.reactants hl.1
  have hnp := fmtSide_no_sep e.products hl.2
  have hbar : '|' ∉ fmtSide e.reactants ++ arrow ++ fmtSide e.products ++ [' '] := by
    simp only [List.mem_append, not_or, arrow]
    exact ⟨⟨⟨hnr.1, by decide⟩, hnp.1⟩, by decide⟩
  have hsplit := splitFirst_append '|' _ (' ' :: 'r' :: 'u' :: 'l' :: 'e' :: '=' :: (e.rule.toList ++ tail)) hbar
  obtain ⟨tail', hmeta, htail'⟩ := strip_meta e.rule.toList tail (Tight_of_noWs _ hrne hrws) htail
  have hsearch := searchRule_head e.rule.toList tail' hrne hrws htail'
  have htr := fmtSide_tight e.reactants hl.1
  have htp := fmtSide_tight e.products hl.2
  have hcore : strip (fmtSide e.reactants ++ arrow ++ fmtSide e.products ++ [' ']) =
      (fmtSide e.reactants ++ [' ']) ++ '>' :: '>' :: ([' '] ++ fmtSide e.products) := by
    have := strip_pad [] (fmtSide e.reactants ++ arrow ++ fmtSide e.products) [' '] (by simp)
      (by simp; decide) (Tight_append _ _ _ htr htp)
    rw [List.nil_append] at this
    rw [this]; simp [arrow]
  have harrow : '>' ∉ fmtSide e.reactants ++ [' '] := by
    simp only [List.mem_append, not_or]; exact ⟨hnr.2, by decide⟩
  have hsa := splitArrow_append (fmtSide e.reactants ++ [' ']) ([' '] ++ fmtSide e.products) harrow
  have hpr := side_roundtrip_pad e.reactants hs.1 hl.1 [] [' '] (by simp) (by simp; decide)
  have hpp := side_roundtrip_pad e.products hs.2 hl.2 [' '] [] (by simp; decide) (by simp)
  rw [List.nil_append] at hpr
  rw [List.append_nil] at hpp
  unfold parseLine
  simp only [if_true, hline, hsplit, hmeta, hsearch, hcore, hsa, hpr, hpp, String.ofList_toList]

theorem addGen_ok (st : PState) (rule : String) (hr : rule ≠ "") (r p : Side) (hne : r ≠ [] ∨ p ≠ []) :
    ∃ st', st.addGen ⟨some rule, r, p⟩ = .ok st' ∧
      st'.net.rxns.map Rxn.content = st.net.rxns.map Rxn.content ++ [(rule, r, p)] := by
  have hemp : (r.isEmpty && p.isEmpty) = false := by
    rcases hne with h | h
    · cases r with
      | nil => exact absurd rfl h
      | cons _ _ => rfl
    · cases p with
      | nil => exact absurd rfl h
      | cons _ _ => simp
  unfold PState.addGen
  simp only [hemp, Bool.false_eq_true, if_false, Option.getD_some, normRule, if_neg hr]
  refine ⟨_, rfl, ?_⟩
  simp [Rxn.content]

theorem parseLinesFrom_fmt (f : StrFlags) (hf : f.includeRule = true) (es : List Rxn) :
    ∀ st : PState,
    (∀ e ∈ es, (WfSide e.reactants ∧ WfSide e.products) ∧ (e.reactants ≠ [] ∨ e.products ≠ []) ∧
      (WfLabels e.reactants ∧ WfLabels e.products) ∧ WfRule e.rule) →
    ∃ st', parseLinesFrom true "r" st (es.map (fmtLine f)) = .ok st' ∧
      st'.net.rxns.map Rxn.content = st.net.rxns.map Rxn.content ++ es.map Rxn.sortedContent := by
  induction es with
  | nil => intro st _; exact ⟨st, rfl, by simp⟩
  | cons e es ih =>
    intro st h
    obtain ⟨hs, hne, hl, hr⟩ := h e List.mem_cons_self
    have hne' : sortSide e.reactants ≠ [] ∨ sortSide e.products ≠ [] := by
      rcases hne with h | h
      · exact Or.inl (fun h' => h ((sortSide_eq_nil_iff _).1 h'))
      · exact Or.inr (fun h' => h ((sortSide_eq_nil_iff _).1 h'))
    obtain ⟨st1, hadd, hst1⟩ := addGen_ok st e.rule hr.1 _ _ hne'
    obtain ⟨st', hrest, hst'⟩ := ih st1 (fun e' he' => h e' (List.mem_cons_of_mem _ he'))
    refine ⟨st', ?_, ?_⟩
    · simp only [List.map_cons, parseLinesFrom, if_true, parseLine_fmtLine f hf e hs hl hr, hadd, hrest]
    · rw [hst', hst1]; simp [Rxn.sortedContent]

theorem strings_roundtrip' (f : StrFlags) (hf : f.includeRule = true) (N : Net) (h : WfStrNet N) :
    ∃ N', parseLines (fmtLines f N) = .ok N' ∧
      N'.rxns.map Rxn.content = (if f.sort then sortRxns N.rxns else N.rxns).map Rxn.sortedContent := by
  have hsub : ∀ e ∈ (if f.sort then sortRxns N.rxns else N.rxns), e ∈ N.rxns := by
    intro e he
    split at he
    · exact (sortBy_perm _ N.rxns).mem_iff.1 he
    · exact he
  obtain ⟨st', hparse, hst'⟩ := parseLinesFrom_fmt f hf (if f.sort then sortRxns N.rxns else N.rxns) {}
    (fun e he => ⟨h.sides e (hsub e he), h.nonEmpty e (hsub e he), h.labels e (hsub e he),
      h.rules e (hsub e he)⟩)
  refine ⟨st'.net, ?_, ?_⟩
  · unfold parseLines fmtLines
    rw [hparse]
  · rw [hst']; rfl
end SynKit.Views.Str
